import Pyc.Model.Value

/-! Executable model of the UTxO-reporting paths of pycardano's chain-context adapters
(pycardano/backend/{blockfrost,ogmios_v5,ogmios_v6,kupo,cardano_cli}.py).

* `J` is a JSON tree whose objects are *ordered* association lists (the insertion order of the Python dict that
  `json.loads` / the client library produced).
* `render_X aux u` is the SPEC side: the response a service X gives for a UTxO `u` whose value is a finite map
  policy → name → quantity, in the shape shown by the canned responses of /repo/test/pycardano/backend and the
  installed client libraries.  `aux` carries what the service reports in addition and the model cannot compute
  (the hash of an inline datum, the hash of a reference script, Ogmios' JSON notation of a native script).
* `parse_X` transliterates what the adapter DOES with one reported entry; the comment names the Python lines.
  Exceptions are mapped to the small enum `Err`; the address (bech32 text), inline datum bytes and script bytes
  are carried as opaque payloads. -/

namespace Pyc.Backends
open Pyc Pyc.Dict

/-- JSON tree; objects keep insertion order -/
inductive J where
  | null
  | bool (b : Bool)
  | num (n : Int)
  | str (s : String)
  | arr (xs : List J)
  | obj (kvs : List (String × J))
  deriving Inhabited

/-- exception classes: KeyError/AttributeError(missing) · TypeError/AttributeError(wrong kind)/TypeCheckError/
DeserializeException · ValueError · AssertionError -/
inductive Err where
  | key | type | value | assertion
  deriving DecidableEq, Repr, Inhabited

abbrev Res := Except Err

namespace J

def lookup : List (String × J) → String → Option J
  | [], _ => none
  | (k', v) :: r, k => if k' = k then some v else lookup r k

/-- `j[k]` on a dict (attribute access on a `Namespace`) -/
def field (j : J) (k : String) : Res J :=
  match j with
  | obj kvs => match lookup kvs k with
    | some v => .ok v
    | none => .error .key
  | _ => .error .type

/-- `j.get(k, d)` -/
def getD (j : J) (k : String) (d : J) : Res J :=
  match j with
  | obj kvs => .ok ((lookup kvs k).getD d)
  | _ => .error .type

/-- `j.get(k)` -/
def getN (j : J) (k : String) : Res J := getD j k null

/-- `k in j` / `hasattr(j, k)` -/
def hasKey (j : J) (k : String) : Res Bool :=
  match j with
  | obj kvs => .ok (lookup kvs k).isSome
  | _ => .error .type

/-- Python truthiness -/
def truthy : J → Bool
  | null => false
  | bool b => b
  | num n => n != 0
  | str s => s != ""
  | arr xs => !xs.isEmpty
  | obj kvs => !kvs.isEmpty

def isNull : J → Bool
  | null => true
  | _ => false

/-- `a == b` for scalars (containers compare unequal here; the adapters only compare hex strings and None) -/
def eqPrim : J → J → Bool
  | null, null => true
  | bool a, bool b => a == b
  | num a, num b => a == b
  | str a, str b => a == b
  | _, _ => false

def asStr : J → Res String
  | str s => .ok s
  | _ => .error .type

/-- a value that must be a Python `int` (`check_type(v, int)`, typed dataclass fields) -/
def asInt : J → Res Int
  | num n => .ok n
  | _ => .error .type

def asObj : J → Res (List (String × J))
  | obj kvs => .ok kvs
  | _ => .error .type

def asArr : J → Res (List J)
  | arr xs => .ok xs
  | _ => .error .type

end J

/-! ## hex and decimal text -/

def hexChars (bs : Bytes) : List Char :=
  bs.flatMap fun b => [hexDigit (b.toNat / 16), hexDigit (b.toNat % 16)]

/-- `b.hex()` -/
def hexStr (bs : Bytes) : String := String.ofList (hexChars bs)

/-- `bytes.fromhex(s)` (without the whitespace tolerance of CPython) -/
def fromHex (s : String) : Res Bytes :=
  match ofHexList s.toList with
  | some b => .ok b
  | none => .error .value

def digitChar (n : Nat) : Char := Char.ofNat (48 + n)

/-- `str(n)` for a natural number -/
def natDigits (n : Nat) : List Char :=
  if n < 10 then [digitChar n] else natDigits (n / 10) ++ [digitChar (n % 10)]
termination_by n
decreasing_by omega

/-- `str(i)` -/
def intStr (i : Int) : String :=
  match i with
  | .ofNat n => String.ofList (natDigits n)
  | .negSucc n => String.ofList ('-' :: natDigits (n + 1))

def digitVal (c : Char) : Option Nat :=
  if '0' ≤ c ∧ c ≤ '9' then some (c.toNat - 48) else none

def parseNatAux : List Char → Nat → Option Nat
  | [], acc => some acc
  | c :: r, acc =>
    match digitVal c with
    | some d => parseNatAux r (acc * 10 + d)
    | none => none

def parseNat : List Char → Option Nat
  | [] => none
  | cs => parseNatAux cs 0

/-- `int(s)` for `[+-]?[0-9]+` (CPython also tolerates surrounding blanks and `_` separators) -/
def parseInt : List Char → Option Int
  | '-' :: r => (parseNat r).map fun n => -(n : Int)
  | '+' :: r => (parseNat r).map Int.ofNat
  | cs => (parseNat cs).map Int.ofNat

/-- `int(x)` -/
def pyInt : J → Res Int
  | .num n => .ok n
  | .bool b => .ok (if b then 1 else 0)
  | .str s => match parseInt s.toList with
    | some i => .ok i
    | none => .error .value
  | _ => .error .type

/-- `s.split(sep)` for a one-character separator -/
def splitOn (sep : Char) : List Char → List (List Char)
  | [] => [[]]
  | c :: r =>
    if c = sep then [] :: splitOn sep r
    else match splitOn sep r with
      | [] => [[c]]
      | h :: t => (c :: h) :: t

/-- `ConstrainedBytes.from_primitive(hex)` : `bytes.fromhex`, then the size assertion of `__init__` -/
def constrained (lo hi : Nat) (hex : String) : Res Bytes :=
  match fromHex hex with
  | .error e => .error e
  | .ok b => if lo ≤ b.length ∧ b.length ≤ hi then .ok b else .error .assertion

def scriptHashOf := constrained 28 28
def assetNameOf := constrained 0 32
def datumHashOf := constrained 32 32
def txIdOf := constrained 32 32

/-- `X.from_primitive(j)` with `limit_primitive_type(bytes, str)` -/
def constrainedJ (lo hi : Nat) (j : J) : Res Bytes := do constrained lo hi (← j.asStr)

/-! ## the UTxO model -/

/-- opaque payloads: byte strings (datum CBOR, Plutus script bytes, the CBOR of a native script handed to
`NativeScript.from_cbor` by the Ogmios v6 path) or a JSON subtree handed to another deserialiser
(`RawPlutusData.from_dict`, `NativeScript.from_dict`) -/
inductive Payload where
  | bytes (b : Bytes)
  | json (j : J)
  deriving Inhabited

/-- `lang = 0`: native script, `1..3`: Plutus version -/
structure ScriptM where
  lang : Nat
  body : Payload
  deriving Inhabited

structure UTxOModel where
  txId : Bytes
  index : Int
  address : String
  coin : Int
  ma : MultiAsset
  datumHash : Option Bytes
  datum : Option Payload
  script : Option ScriptM
  deriving Inhabited

/-- what a service reports besides the UTxO content itself -/
structure Aux where
  /-- hash reported next to an inline datum (Blockfrost `data_hash`, Kupo `datum_hash`, cli `inlineDatumhash`) -/
  inlineHash : Bytes
  /-- hash under which a reference script is reported (Blockfrost, Kupo) -/
  scriptHash : Bytes
  /-- Ogmios v6: its own JSON notation (`clause` / `from` / `atLeast` / `slot`) of a native reference script, shown
  as `json` next to the serialised script `cbor` -/
  nativeJson : J := .null
  deriving Inhabited

/-- answers of the secondary endpoints, keyed by the hex hash in the URL: Kupo `GET /datums/{h}`; Kupo
`GET /scripts/{h}`, Blockfrost `GET /scripts/{h}` merged with `/scripts/{h}/cbor` and `/scripts/{h}/json` -/
structure Side where
  datums : List (String × J)
  scripts : List (String × J)
  deriving Inhabited

/-- `TransactionInput.from_primitive([tx_id, index])` -/
def txIn (txid index : J) : Res (Bytes × Int) := do
  let t ← constrainedJ 32 32 txid
  let i ← index.asInt
  pure (t, i)

/-- `multi_assets.setdefault(policy, Asset())[name] = q`  (also Blockfrost's
`if policy not in m: m[policy] = Asset()` followed by `m[policy][name] = q`) -/
def put (ma : MultiAsset) (p n : Bytes) (q : Int) : MultiAsset := set ma p (set (Dict.getD ma p []) n q)

/-- the asset entries of a bundle in iteration order -/
def flatten (ma : MultiAsset) : List (Bytes × Bytes × Int) :=
  ma.flatMap fun pa => pa.2.map fun nq => (pa.1, nq.1, nq.2)

def putAll (es : List (Bytes × Bytes × Int)) (ma : MultiAsset) : MultiAsset :=
  es.foldl (fun acc e => put acc e.1 e.2.1 e.2.2) ma

def optStr (o : Option Bytes) : J :=
  match o with
  | some b => .str (hexStr b)
  | none => .null

/-- the byte payload of an inline datum as hex, `null` otherwise -/
def datumHexJ (d : Option Payload) : J :=
  match d with
  | some (.bytes b) => .str (hexStr b)
  | _ => .null

def plutusLang (n : Nat) : String := if n = 1 then "plutus:v1" else if n = 2 then "plutus:v2" else "plutus:v3"

/-- the datum hash a service shows: the output's datum hash, or the hash of its inline datum -/
def shownHash (aux : Aux) (u : UTxOModel) : Option Bytes :=
  match u.datumHash with
  | some h => some h
  | none => match u.datum with
    | some _ => some aux.inlineHash
    | none => none

/-- hex of a byte payload (a JSON payload is passed through) -/
def payloadJ (p : Payload) : J :=
  match p with
  | .bytes b => .str (hexStr b)
  | .json j => j

/-- hash under which the reference script is listed, `null` without one -/
def scriptHashJ (aux : Aux) (s : Option ScriptM) : J :=
  match s with
  | some _ => .str (hexStr aux.scriptHash)
  | none => .null

/-! ## Blockfrost (blockfrost.py:189-262) -/

def bfUnit (p n : Bytes) : String := String.ofList (hexChars p ++ hexChars n)

def bfEntry (e : Bytes × Bytes × Int) : J :=
  .obj [("unit", .str (bfUnit e.1 e.2.1)), ("quantity", .str (intStr e.2.2))]

def bfScriptType (lang : Nat) : String :=
  if lang = 0 then "timelock" else if lang = 1 then "plutusV1" else if lang = 2 then "plutusV2" else "plutusV3"

def bfScriptInfo (s : ScriptM) : J :=
  .obj [("type", .str (bfScriptType s.lang)),
        (match s.body with
         | .bytes b => ("cbor", .str (hexStr b))
         | .json j => ("json", j))]

def bfSide (aux : Aux) (s : Option ScriptM) : Side :=
  ⟨[], match s with
       | some s => [(hexStr aux.scriptHash, bfScriptInfo s)]
       | none => []⟩

def bfMembers (aux : Aux) (u : UTxOModel) : List (String × J) :=
  [("address", .str u.address), ("tx_hash", .str (hexStr u.txId)), ("tx_index", .num u.index),
   ("output_index", .num u.index),
   ("amount", .arr (.obj [("unit", .str "lovelace"), ("quantity", .str (intStr u.coin))]
                    :: (flatten u.ma).map bfEntry)),
   ("block", .str ""),
   ("data_hash", optStr (shownHash aux u)),
   ("inline_datum", datumHexJ u.datum),
   ("reference_script_hash", scriptHashJ aux u.script)]

/-- `GET /addresses/{a}/utxos` entry (Blockfrost shows `data_hash` for an inline datum too) and the script
endpoints -/
def render_blockfrost (aux : Aux) (u : UTxOModel) : J × Side := (.obj (bfMembers aux u), bfSide aux u.script)

/-- loop body of `for item in amount` -/
def bfItem (item : J) (st : Int × MultiAsset) : Res (Int × MultiAsset) := do
  let unit ← (← item.field "unit").asStr
  let q ← item.field "quantity"
  if unit = "lovelace" then
    pure (← pyInt q, st.2)
  else
    let data ← fromHex unit
    let p := data.take 28
    let n := data.drop 28
    -- ScriptHash(data[:28]), AssetName(data[28:]) : size assertions of ConstrainedBytes
    if p.length = 28 ∧ n.length ≤ 32 then pure (st.1, put st.2 p n (← pyInt q)) else throw .assertion

def bfAmount : List J → Int × MultiAsset → Res (Int × MultiAsset)
  | [], st => .ok st
  | item :: rest, st => do bfAmount rest (← bfItem item st)

/-- `JSON_TAG_TO_INT` of pycardano/nativescript.py -/
def nativeTags : List String := ["sig", "all", "any", "atLeast", "after", "before"]

/-- `NativeScript.from_dict(sj)`: its first step `JSON_TAG_TO_INT[sj["type"]]` decides accept / reject here;
the rest of the conversion is opaque (the JSON subtree is carried) -/
def nativeJson (sj : J) : Res Payload := do
  let ty ← (← sj.field "type").asStr
  if nativeTags.contains ty then pure (.json sj) else throw .key

/-- `script_type.lower().startswith("plutusv")` -/
def isPlutusType (ty : String) : Bool := (ty.toList.map Char.toLower).take 7 = "plutusv".toList

/-- `int(script_type[-1])` -/
def lastDigit (ty : String) : Res Int :=
  match parseInt (ty.toList.drop (ty.toList.length - 1)) with
  | some v => .ok v
  | none => .error .value

/-- `_get_script` -/
def bfScript (side : Side) (h : String) : Res ScriptM := do
  let s ← match J.lookup side.scripts h with
    | some s => pure s
    | none => throw Err.key
  let ty ← (← s.field "type").asStr
  if isPlutusType ty then
    let v ← lastDigit ty
    let b ← fromHex (← (← s.field "cbor").asStr)
    if 1 ≤ v ∧ v ≤ 3 then pure ⟨v.toNat, .bytes b⟩ else throw .value       -- PlutusScript.from_version
  else
    pure ⟨0, ← nativeJson (← s.field "json")⟩                              -- NativeScript.from_dict

/-- `DatumHash.from_primitive(x) if x else None` -/
def hashIfTruthy (dh : J) : Res (Option Bytes) :=
  if dh.truthy then do pure (some (← constrainedJ 32 32 dh)) else pure none

/-- `datum_hash = DatumHash.from_primitive(result.data_hash) if result.data_hash and result.inline_datum is None
else None` -/
def bfDatumHash (r : J) : Res (Option Bytes) := do
  let dh ← r.field "data_hash"
  if dh.truthy then
    let inl ← r.field "inline_datum"
    if inl.isNull then pure (some (← constrainedJ 32 32 dh)) else pure none
  else pure none

/-- `if hasattr(result, "inline_datum") and result.inline_datum is not None: RawCBOR(bytes.fromhex(...))` -/
def bfDatum (r : J) : Res (Option Payload) := do
  if ← r.hasKey "inline_datum" then
    let inl ← r.field "inline_datum"
    if inl.isNull then pure none else pure (some (Payload.bytes (← fromHex (← inl.asStr))))
  else pure none

/-- `if hasattr(result, "reference_script_hash") and result.reference_script_hash: self._get_script(...)` -/
def bfScriptRef (side : Side) (r : J) : Res (Option ScriptM) := do
  if ← r.hasKey "reference_script_hash" then
    let rs ← r.field "reference_script_hash"
    if rs.truthy then pure (some (← bfScript side (← rs.asStr))) else pure none
  else pure none

/-- `BlockFrostChainContext._utxos`, one `result`; `addr` is the queried address -/
def parse_blockfrost (addr : String) (side : Side) (r : J) : Res UTxOModel := do
  let ti ← txIn (← r.field "tx_hash") (← r.field "output_index")
  let cm ← bfAmount (← (← r.field "amount").asArr) (0, [])
  let datumHash ← bfDatumHash r
  let datum ← bfDatum r
  let script ← bfScriptRef side r
  pure ⟨ti.1, ti.2, addr, cm.1, cm.2, datumHash, datum, script⟩

/-! ## Kupo asset identifiers (kupo.py:26-40), shared with Ogmios v5 -/

/-- `policy` for the empty name, else `policy.name` -/
def dotKey (p n : Bytes) : String :=
  if n = [] then hexStr p else String.ofList (hexChars p ++ '.' :: hexChars n)

/-- `extract_asset_info` -/
def extractAssetInfo (asset : String) : Res (Bytes × Bytes) :=
  match splitOn '.' asset.toList with
  | [p] => do
    let policy ← scriptHashOf (String.ofList p)
    let name ← assetNameOf ""
    pure (policy, name)
  | [p, n] => do
    let policy ← scriptHashOf (String.ofList p)
    let name ← assetNameOf (String.ofList n)
    pure (policy, name)
  | _ => .error .value

/-- `for asset, quantity in assets.items(): ... multi_assets.setdefault(policy, Asset())[name] = quantity` -/
def dotAssets : List (String × J) → MultiAsset → Res MultiAsset
  | [], ma => .ok ma
  | (k, q) :: rest, ma => do
    let (p, n) ← extractAssetInfo k
    let qi ← q.asInt
    dotAssets rest (put ma p n qi)

def dotEntry (e : Bytes × Bytes × Int) : String × J := (dotKey e.1 e.2.1, .num e.2.2)

/-- `{"coins": c, "assets": {...}}` -/
def dotValue (u : UTxOModel) : J :=
  .obj [("coins", .num u.coin), ("assets", .obj ((flatten u.ma).map dotEntry))]

/-- the value part of the Kupo / Ogmios v5 paths: `amount=lovelace` when `not assets`, else `Value(lovelace, ma)` -/
def dotParseValue (value : J) : Res (Int × MultiAsset) := do
  let coins ← value.field "coins"
  let assets ← value.field "assets"
  if !assets.truthy then
    pure (← coins.asInt, [])
  else
    let ma ← dotAssets (← assets.asObj) []
    pure (← coins.asInt, ma)

/-! ## Kupo (kupo.py:140-222) -/

def kupoScriptInfo (s : ScriptM) : J :=
  .obj [("language", .str (if s.lang = 0 then "native" else plutusLang s.lang)), ("script", payloadJ s.body)]

def kupoSide (aux : Aux) (u : UTxOModel) : Side :=
  ⟨match shownHash aux u with
   | some h => [(hexStr h, match u.datum with
       | some (.bytes b) => .obj [("datum", .str (hexStr b))]
       | _ => .null)]
   | none => [],
   match u.script with
   | some s => [(hexStr aux.scriptHash, kupoScriptInfo s)]
   | none => []⟩

def kupoDatumTypeJ (aux : Aux) (u : UTxOModel) : J :=
  match shownHash aux u with
  | some _ => .str (if u.datum.isSome then "inline" else "hash")
  | none => .null

def kupoMembers (aux : Aux) (u : UTxOModel) : List (String × J) :=
  [("transaction_index", .num 0), ("transaction_id", .str (hexStr u.txId)), ("output_index", .num u.index),
   ("address", .str u.address), ("value", dotValue u), ("datum_hash", optStr (shownHash aux u)),
   ("datum_type", kupoDatumTypeJ aux u),
   ("script_hash", scriptHashJ aux u.script),
   ("created_at", .obj [("slot_no", .num 0), ("header_hash", .str "")]), ("spent_at", .null)]

/-- `GET /matches/{a}?unspent` entry and the datum / script endpoints.  Kupo lists an inline datum by its hash
with `datum_type = "inline"`; for a datum hash whose preimage it has not seen, `GET /datums/{h}` answers `null` -/
def render_kupo (aux : Aux) (u : UTxOModel) : J × Side := (.obj (kupoMembers aux u), kupoSide aux u)

/-- `s.startswith("plutus:v")` -/
def startsPlutusV (s : String) : Bool := s.toList.take 8 = "plutus:v".toList

/-- `int(s.removeprefix("plutus:v"))` -/
def plutusVersion (lang : String) : Res Int :=
  let cs := lang.toList
  let rest := if startsPlutusV lang then cs.drop 8 else cs
  match parseInt rest with
  | some v => .ok v
  | none => .error .value

/-- `_get_datum_from_kupo` (without the cache) -/
def kupoDatum (side : Side) (h : J) : Res (Option Payload) := do
  let hs ← h.asStr
  let r ← match J.lookup side.datums hs with
    | some r => pure r
    | none => throw Err.key
  if r.truthy then
    let d ← r.field "datum"
    if !J.eqPrim d h then pure (some (.bytes (← fromHex (← d.asStr)))) else pure none
  else pure none

/-- `datum_hash = DatumHash.from_primitive(result["datum_hash"]) if result["datum_hash"] else None` and
`if datum_hash and result.get("datum_type", "inline"): datum = self._get_datum_from_kupo(...)`
(a `DatumHash` object is always truthy) -/
def kupoDatums (side : Side) (dhJ dt : J) : Res (Option Bytes × Option Payload) := do
  let datumHash ← hashIfTruthy dhJ
  if datumHash.isSome && dt.truthy then pure (datumHash, ← kupoDatum side dhJ) else pure (datumHash, none)

/-- the reference-script part: `GET /scripts/{h}`, `PlutusScript.from_version` -/
def kupoScript (side : Side) (sh : J) : Res (Option ScriptM) := do
  if sh.truthy then
    let hs ← sh.asStr
    let s ← match J.lookup side.scripts hs with
      | some s => pure s
      | none => throw Err.key
    let ver ← plutusVersion (← (← s.field "language").asStr)
    if 1 ≤ ver ∧ ver ≤ 3 then
      pure (some (ScriptM.mk ver.toNat (.bytes (← fromHex (← (← s.field "script").asStr)))))
    else throw .value
  else pure none

/-- `KupoChainContextExtension._utxos_kupo`, one `result`; `none` when the entry is spent -/
def parse_kupo (addr : String) (side : Side) (r : J) : Res (Option UTxOModel) := do
  let txidJ ← r.field "transaction_id"
  let indexJ ← r.field "output_index"
  let spent ← r.field "spent_at"
  if spent.isNull then
    let ti ← txIn txidJ indexJ
    let value ← r.field "value"
    let _ ← value.field "coins"
    let script ← kupoScript side (← r.getN "script_hash")
    let dd ← kupoDatums side (← r.field "datum_hash") (← r.getD "datum_type" (.str "inline"))
    let cm ← dotParseValue value
    pure (some ⟨ti.1, ti.2, addr, cm.1, cm.2, dd.1, dd.2, script⟩)
  else pure none

/-! ## Ogmios v5 (ogmios_v5.py:325-369) -/

def v5ScriptJ (s : Option ScriptM) : J :=
  match s with
  | some s => .obj [(plutusLang s.lang, payloadJ s.body)]
  | none => .null

/-- one element `[in_ref, output]` of the `utxo` query result -/
def render_ogmios_v5 (u : UTxOModel) : J :=
  .arr [.obj [("txId", .str (hexStr u.txId)), ("index", .num u.index)],
        .obj [("address", .str u.address), ("value", dotValue u), ("datumHash", optStr u.datumHash),
              ("datum", datumHexJ u.datum), ("script", v5ScriptJ u.script)]]

/-- `if "plutus:v2" in script: PlutusV2Script(...) elif "plutus:v1" in script: ... else: raise ValueError` -/
def v5Script (sc : J) : Res (Option ScriptM) := do
  if sc.truthy then
    if ← sc.hasKey "plutus:v2" then
      pure (some (ScriptM.mk 2 (.bytes (← fromHex (← (← sc.field "plutus:v2").asStr)))))
    else if ← sc.hasKey "plutus:v1" then
      pure (some (ScriptM.mk 1 (.bytes (← fromHex (← (← sc.field "plutus:v1").asStr)))))
    else throw .value
  else pure none

/-- `if output["datum"] and output["datum"] != output["datumHash"]: RawCBOR(bytes.fromhex(output["datum"]))` -/
def v5Datum (output : J) : Res (Option Payload) := do
  let dJ ← output.field "datum"
  if dJ.truthy then
    let dh2 ← output.field "datumHash"
    if !J.eqPrim dJ dh2 then pure (some (Payload.bytes (← fromHex (← dJ.asStr)))) else pure none
  else pure none

/-- `result[0], result[1]` -/
def v5Pair (r : J) : Res (J × J) :=
  match r with
  | .arr (a :: b :: _) => .ok (a, b)
  | .arr _ => .error .key          -- IndexError
  | _ => .error .type

/-- `_utxo_from_ogmios_result` -/
def parse_ogmios_v5 (r : J) : Res UTxOModel := do
  let io ← v5Pair r
  let ti ← txIn (← io.1.field "txId") (← io.1.field "index")
  let value ← io.2.field "value"
  let _ ← value.field "coins"
  let script ← v5Script (← io.2.getN "script")
  let datumHash ← hashIfTruthy (← io.2.getN "datumHash")
  let datum ← v5Datum io.2
  let cm ← dotParseValue value
  let address ← (← io.2.field "address").asStr
  pure ⟨ti.1, ti.2, address, cm.1, cm.2, datumHash, datum, script⟩

/-! ## Ogmios v6 (ogmios_v6.py:258-306, after ogmios.statequery.QueryUtxo) -/

def nestedName (nq : Bytes × Int) : String × J := (hexStr nq.1, .num nq.2)
def nestedPolicy (pa : Bytes × Asset) : String × J := (hexStr pa.1, .obj (pa.2.map nestedName))

/-- `{"language": "plutus:vN", "cbor": hex}`; a native script (`lang = 0`, the payload is its CBOR) is shown as
`{"language": "native", "json": <Ogmios' own notation>, "cbor": hex}` (ogmios-python model `Script1`) -/
def v6ScriptJ (aux : Aux) (s : ScriptM) : J :=
  if s.lang = 0 then
    .obj [("language", .str "native"), ("json", aux.nativeJson), ("cbor", payloadJ s.body)]
  else
    .obj [("language", .str (plutusLang s.lang)),
          (match s.body with
           | .bytes b => ("cbor", .str (hexStr b))
           | .json j => ("json", j))]

def v6ValueJ (u : UTxOModel) : J :=
  .obj (("ada", .obj [("lovelace", .num u.coin)]) :: u.ma.map nestedPolicy)

/-- optional members are omitted when absent -/
def optMember (k : String) (o : Option J) : List (String × J) :=
  match o with
  | some v => [(k, v)]
  | none => []

/-- one element of the `queryLedgerState/utxo` result -/
def render_ogmios_v6 (aux : Aux) (u : UTxOModel) : J :=
  .obj ([("transaction", .obj [("id", .str (hexStr u.txId))]), ("index", .num u.index),
         ("address", .str u.address), ("value", v6ValueJ u)]
        ++ optMember "datumHash" (u.datumHash.map fun h => .str (hexStr h))
        ++ optMember "datum" (u.datum.map payloadJ)
        ++ optMember "script" (u.script.map (v6ScriptJ aux)))

/-- inner loop `for token_name_hex, quantity in token.items()` -/
def v6Inner (policyHex : String) : List (String × J) → MultiAsset → Res MultiAsset
  | [], ma => .ok ma
  | (nameHex, q) :: rest, ma => do
    let policy ← scriptHashOf policyHex
    let name ← assetNameOf nameHex
    let qi ← q.asInt
    v6Inner policyHex rest (put ma policy name qi)

/-- outer loop `for asset_hex, token in utxo.value.items()` -/
def v6Outer : List (String × J) → MultiAsset → Res MultiAsset
  | [], ma => .ok ma
  | (k, token) :: rest, ma =>
    if k = "ada" then v6Outer rest ma
    else do
      let inner ← token.asObj
      v6Outer rest (← v6Inner k inner ma)

/-- `set(value.keys()) == {"ada"}` -/
def onlyAda (kvs : List (String × J)) : Bool := !kvs.isEmpty && kvs.all fun kv => kv.1 = "ada"

/-- `if script["language"].startswith("plutus:v"): PlutusScript.from_version(int(...), bytes.fromhex(script["cbor"]))
elif script["language"] == "native": NativeScript.from_cbor(bytes.fromhex(script["cbor"]))
else: raise ValueError`  (`NativeScript.from_cbor` is opaque: the CBOR bytes are carried; the `json` member is not
consulted) -/
def v6Script (sc : J) : Res (Option ScriptM) := do
  if sc.truthy then
    let lang ← (← sc.field "language").asStr
    if startsPlutusV lang then
      let ver ← plutusVersion lang
      let b ← fromHex (← (← sc.field "cbor").asStr)
      if 1 ≤ ver ∧ ver ≤ 3 then pure (some (ScriptM.mk ver.toNat (.bytes b))) else throw .value
    else if lang = "native" then
      pure (some (ScriptM.mk 0 (.bytes (← fromHex (← (← sc.field "cbor").asStr)))))
    else throw .value
  else pure none

/-- `if utxo.datum and utxo.datum != utxo.datum_hash: RawCBOR(bytes.fromhex(utxo.datum))` -/
def v6Datum (dJ dhJ : J) : Res (Option Payload) :=
  if dJ.truthy && !J.eqPrim dJ dhJ then do pure (some (Payload.bytes (← fromHex (← dJ.asStr)))) else pure none

/-- the value part: ADA-only when `set(value.keys()) == {"ada"}`, else the two nested loops -/
def v6Value (value : J) : Res (Int × MultiAsset) := do
  let lovelace ← (← value.getN "ada").getD "lovelace" (.num 0)
  let kvs ← value.asObj
  if onlyAda kvs then pure (← lovelace.asInt, [])
  else
    let ma ← v6Outer kvs []
    pure (← lovelace.asInt, ma)

def parse_ogmios_v6 (r : J) : Res UTxOModel := do
  -- ogmios.statequery.QueryUtxo._parse_QueryUtxo_response / ogmios.datatypes.Utxo.__init__
  let txidJ ← (← r.getN "transaction").getN "id"
  let indexJ ← r.getN "index"
  let addressJ ← r.getN "address"
  let value ← r.getN "value"
  let dhJ ← r.getN "datumHash"
  let dJ ← r.getN "datum"
  let sc ← r.getN "script"
  let _ ← (← value.getN "ada").getN "lovelace"
  -- OgmiosV6ChainContext._utxo_from_ogmios_result
  let ti ← txIn txidJ indexJ
  let script ← v6Script sc
  let datumHash ← hashIfTruthy dhJ
  let datum ← v6Datum dJ dhJ
  let address ← addressJ.asStr
  let cm ← v6Value value
  pure ⟨ti.1, ti.2, address, cm.1, cm.2, datumHash, datum, script⟩

/-- `utxos = []; for result in results: utxos.append(convert(result))` — the loop every adapter runs over the
entries of one response -/
def parseList {α : Type} (f : J → Res α) : List J → Res (List α)
  | [] => .ok []
  | j :: rest => do
    let a ← f j
    let as ← parseList f rest
    pure (a :: as)

/-! ## cardano-cli (cardano_cli.py:391-494) -/

def cliScriptType (lang : Nat) : String :=
  if lang = 1 then "PlutusScriptV1" else if lang = 2 then "PlutusScriptV2" else "PlutusScriptV3"

def cliScriptJ (s : Option ScriptM) : J :=
  match s with
  | some s => .obj [("script", match s.body with
       | .bytes b => .obj [("type", .str (cliScriptType s.lang)), ("description", .str ""),
                           ("cborHex", .str (hexStr b))]
       | .json j => j),
      ("scriptLanguage", .str "")]
  | none => .null

def cliKey (u : UTxOModel) : String := String.ofList (hexChars u.txId ++ '#' :: (intStr u.index).toList)

def cliInlineJ (d : Option Payload) : J :=
  match d with
  | some p => payloadJ p
  | none => .null

def cliInlineHashJ (aux : Aux) (d : Option Payload) : J :=
  match d with
  | some _ => .str (hexStr aux.inlineHash)
  | none => .null

def cliMembers (aux : Aux) (u : UTxOModel) : List (String × J) :=
  [("address", .str u.address), ("datum", .null), ("datumhash", optStr u.datumHash),
   ("inlineDatum", cliInlineJ u.datum), ("inlineDatumhash", cliInlineHashJ aux u.datum),
   ("referenceScript", cliScriptJ u.script),
   ("value", .obj (u.ma.map nestedPolicy ++ [("lovelace", .num u.coin)]))]

/-- one `"txid#ix": {...}` member of `cardano-cli query utxo --out-file /dev/stdout`.  An inline datum is
reported as detailed-schema JSON (`Payload.json`) next to `inlineDatumhash`; a Plutus reference script as a text
envelope whose `cborHex` payload (the CBOR byte string wrapping the script) is carried opaquely -/
def render_cardano_cli (aux : Aux) (u : UTxOModel) : String × J := (cliKey u, .obj (cliMembers aux u))

/-- `for asset_hex_name in utxo["value"][asset].keys()` -/
def cliInner (policy : Bytes) : List (String × J) → MultiAsset → Res MultiAsset
  | [], ma => .ok ma
  | (nameHex, q) :: rest, ma => do
    let name ← assetNameOf nameHex
    let qi ← q.asInt
    cliInner policy rest (put ma policy name qi)

/-- `for asset in utxo["value"].keys()`; the state is `(value.coin, multi_asset)` -/
def cliOuter : List (String × J) → J × MultiAsset → Res (J × MultiAsset)
  | [], st => .ok st
  | (k, v) :: rest, st =>
    if k = "lovelace" then cliOuter rest (v, st.2)
    else do
      let policy ← scriptHashOf k
      let inner ← v.asObj
      cliOuter rest (st.1, ← cliInner policy inner st.2)

/-- `_get_script` -/
def cliScript (rs : J) : Res ScriptM := do
  let sj ← rs.field "script"
  let ty ← (← sj.field "type").asStr
  if ty = "PlutusScriptV1" then pure ⟨1, .bytes (← fromHex (← (← sj.field "cborHex").asStr))⟩
  else if ty = "PlutusScriptV2" then pure ⟨2, .bytes (← fromHex (← (← sj.field "cborHex").asStr))⟩
  else if ty = "PlutusScriptV3" then pure ⟨3, .bytes (← fromHex (← (← sj.field "cborHex").asStr))⟩
  else pure ⟨0, ← nativeJson sj⟩

/-- `tx_id, tx_idx = tx_hash.split("#")`, `TransactionInput.from_primitive([tx_id, int(tx_idx)])` -/
def cliTxIn (key : String) : Res (Bytes × Int) := do
  let ab ← match splitOn '#' key.toList with
    | [a, b] => pure (a, b)
    | _ => throw Err.value
  let ix ← match parseInt ab.2 with
    | some i => pure i
    | none => throw Err.value
  let txid ← txIdOf (String.ofList ab.1)
  pure (txid, ix)

/-- `DatumHash.from_primitive(utxo["datumhash"]) if utxo.get("datumhash") is not None else None` -/
def cliDatumHash (utxo : J) : Res (Option Bytes) := do
  let dhJ ← utxo.getN "datumhash"
  if !dhJ.isNull then pure (some (← constrainedJ 32 32 dhJ)) else pure none

/-- `if utxo.get("datum"): RawCBOR(...) elif utxo.get("inlineDatumhash"): RawPlutusData.from_dict(utxo["inlineDatum"])` -/
def cliDatum (utxo : J) : Res (Option Payload) := do
  let dJ ← utxo.getN "datum"
  if dJ.truthy then pure (some (Payload.bytes (← fromHex (← dJ.asStr))))
  else if (← utxo.getN "inlineDatumhash").truthy then pure (some (Payload.json (← utxo.field "inlineDatum")))
  else pure none

/-- `if utxo.get("referenceScript"): self._get_script(utxo["referenceScript"])` -/
def cliScriptRef (utxo : J) : Res (Option ScriptM) := do
  let rs ← utxo.getN "referenceScript"
  if rs.truthy then pure (some (← cliScript rs)) else pure none

/-- `CardanoCliChainContext._utxos`, one member of the result object (`value.coin = ...` is an unchecked
attribute assignment in Python; the model requires an integer there) -/
def parse_cardano_cli (key : String) (utxo : J) : Res UTxOModel := do
  let ti ← cliTxIn key
  let cm ← cliOuter (← (← utxo.field "value").asObj) (.num 0, [])
  let datumHash ← cliDatumHash utxo
  let datum ← cliDatum utxo
  let script ← cliScriptRef utxo
  let address ← (← utxo.field "address").asStr
  pure ⟨ti.1, ti.2, address, ← cm.1.asInt, cm.2, datumHash, datum, script⟩

end Pyc.Backends
