import Pyc.Model.Basic
import Pyc.Model.Bech32

/-! # Model of `pycardano/address.py` (`AddressType`, `PointerAddress`, `Address`) and `pycardano/network.py`

Transliteration of what the code does.  A credential is a `Part`; `Part.vkh`/`Part.sh` carry the payload of a
`VerificationKeyHash` / `ScriptHash` (both constructors `assert len(payload) == 28`, modelled by `mkVkh`/`mkSh`
on the decoding side and by the hypothesis `Part.Sized` in the theorems on the encoding side). -/

namespace Pyc.Addr

/-- `Network(Enum)`: `TESTNET = 0`, `MAINNET = 1` -/
inductive Network
  | testnet
  | mainnet
  deriving DecidableEq, Repr

def Network.value : Network → Nat
  | .testnet => 0
  | .mainnet => 1

/-- `Network(v)`; `none` = `ValueError` -/
def Network.ofValue (v : Nat) : Option Network :=
  if v = 0 then some .testnet else if v = 1 then some .mainnet else none

/-- `AddressType(Enum)` -/
inductive AddressType
  | byron | keyKey | scriptKey | keyScript | scriptScript | keyPointer | scriptPointer
  | keyNone | scriptNone | noneKey | noneScript
  deriving DecidableEq, Repr

def AddressType.value : AddressType → Nat
  | .byron => 0b1000
  | .keyKey => 0b0000
  | .scriptKey => 0b0001
  | .keyScript => 0b0010
  | .scriptScript => 0b0011
  | .keyPointer => 0b0100
  | .scriptPointer => 0b0101
  | .keyNone => 0b0110
  | .scriptNone => 0b0111
  | .noneKey => 0b1110
  | .noneScript => 0b1111

/-- `AddressType(v)`; `none` = `ValueError` -/
def AddressType.ofValue (v : Nat) : Option AddressType :=
  if v = 0b1000 then some .byron
  else if v = 0b0000 then some .keyKey
  else if v = 0b0001 then some .scriptKey
  else if v = 0b0010 then some .keyScript
  else if v = 0b0011 then some .scriptScript
  else if v = 0b0100 then some .keyPointer
  else if v = 0b0101 then some .scriptPointer
  else if v = 0b0110 then some .keyNone
  else if v = 0b0111 then some .scriptNone
  else if v = 0b1110 then some .noneKey
  else if v = 0b1111 then some .noneScript
  else none

/-! ## `PointerAddress` -/

/-- `while n > 0: output.append(0x80 | (n & 0x7F)); n >>= 7` of `_encode_int` (output order, before `reverse`) -/
def encTail (n : Nat) : Bytes :=
  if _h : n = 0 then [] else UInt8.ofNat (0x80 ||| (n &&& 0x7F)) :: encTail (n >>> 7)
termination_by n
decreasing_by simp only [Nat.shiftRight_eq_div_pow]; omega

/-- `_encode_int(n)`: `output.append(n & 0x7F); n >>= 7; while …; output.reverse()` -/
def encodeInt (n : Nat) : Bytes :=
  (UInt8.ofNat (n &&& 0x7F) :: encTail (n >>> 7)).reverse

/-- `PointerAddress.encode` -/
def ptrEncode (slot tx cert : Nat) : Bytes := encodeInt slot ++ encodeInt tx ++ encodeInt cert

/-- the `for i in data` loop of `PointerAddress.decode` with state `(cur_int, ints)` -/
def decLoop : Bytes → Nat → List Nat → List Nat
  | [], _, ints => ints
  | i :: rest, cur, ints =>
    let cur := cur ||| (i.toNat &&& 0x7F)
    if i.toNat &&& 0x80 = 0 then decLoop rest 0 (ints ++ [cur])
    else decLoop rest (cur <<< 7) ints

/-- `PointerAddress.decode`; `none` = `DecodingException` (`len(ints) != 3`).  A trailing unterminated group is
silently dropped and leading `0x80` bytes are accepted, exactly as in the Python. -/
def ptrDecode (data : Bytes) : Option (Nat × Nat × Nat) :=
  match decLoop data 0 [] with
  | [a, b, c] => some (a, b, c)
  | _ => none

/-! ## `Address` -/

/-- what `payment_part` / `staking_part` can hold -/
inductive Part
  | vkh (payload : Bytes)                -- `VerificationKeyHash`
  | sh (payload : Bytes)                 -- `ScriptHash`
  | ptr (slot tx cert : Nat)             -- `PointerAddress`
  | none
  deriving DecidableEq, Repr

/-- `Address._infer_address_type`; `none` = `InvalidAddressInputException` -/
def inferType : Part → Part → Option AddressType
  | .vkh _, .vkh _ => some .keyKey
  | .vkh _, .sh _ => some .keyScript
  | .vkh _, .ptr _ _ _ => some .keyPointer
  | .vkh _, .none => some .keyNone
  | .sh _, .vkh _ => some .scriptKey
  | .sh _, .sh _ => some .scriptScript
  | .sh _, .ptr _ _ _ => some .scriptPointer
  | .sh _, .none => some .scriptNone
  | .none, .vkh _ => some .noneKey
  | .none, .sh _ => some .noneScript
  | _, _ => none

/-- the fields given to `Address.__init__` -/
structure Address where
  payment : Part
  staking : Part
  network : Network
  deriving DecidableEq, Repr

/-- `_compute_header_byte`: `(address_type.value << 4 | network.value).to_bytes(1, "big")` -/
def headerByte (t : AddressType) (n : Network) : UInt8 := UInt8.ofNat ((t.value <<< 4) ||| n.value)

/-- `_compute_hrp` -/
def hrp (t : AddressType) (n : Network) : List Char :=
  let pre := if t = .noneKey ∨ t = .noneScript then "stake".toList else "addr".toList
  let suffix := if n = .mainnet then [] else "_test".toList
  pre ++ suffix

/-- `bytes(part)` as used by `Address.__bytes__` (`None` ↦ `b""`, pointer ↦ `encode()`) -/
def Part.bytes : Part → Bytes
  | .vkh p => p
  | .sh p => p
  | .ptr s t c => ptrEncode s t c
  | .none => []

/-- `Address.__bytes__` / `to_primitive`; `none` when the constructor raises -/
def toBytes (a : Address) : Option Bytes :=
  match inferType a.payment a.staking with
  | none => none
  | some t => some (headerByte t a.network :: (a.payment.bytes ++ a.staking.bytes))

/-- `Address.encode()`: outer `none` when the constructor raises, inner `none` when `bech32.encode` returns `None` -/
def toBech32 (a : Address) : Option (Option (List Char)) :=
  match inferType a.payment a.staking, toBytes a with
  | some t, some bs => some (Bech32.encode (hrp t a.network) bs)
  | _, _ => none

/-- why `Address.from_primitive` raised -/
inductive DecErr
  | bech32        -- `TypeError` from `bytes(decode(value))` / inside `decode`
  | empty         -- `IndexError` on `value[0]`
  | kind          -- `ValueError` from `AddressType(...)`
  | network       -- `ValueError` from `Network(...)`
  | size          -- `AssertionError` from the hash constructors
  | pointer       -- `DecodingException`
  | byron         -- `DeserializeException`
  deriving DecidableEq, Repr

/-- `VerificationKeyHash(payload)` -/
def mkVkh (p : Bytes) : Except DecErr Part := if p.length = 28 then .ok (.vkh p) else .error .size
/-- `ScriptHash(payload)` -/
def mkSh (p : Bytes) : Except DecErr Part := if p.length = 28 then .ok (.sh p) else .error .size
/-- `PointerAddress.decode(data)` -/
def mkPtr (p : Bytes) : Except DecErr Part :=
  match ptrDecode p with
  | some (s, t, c) => .ok (.ptr s t c)
  | none => .error .pointer

/-- `Address.from_primitive(value: bytes)` -/
def fromBytes (value : Bytes) : Except DecErr Address :=
  match value with
  | [] => .error .empty
  | header :: payload =>
    match AddressType.ofValue ((header.toNat &&& 0xF0) >>> 4) with
    | none => .error .kind
    | some t =>
      match Network.ofValue (header.toNat &&& 0x0F) with
      | none => .error .network
      | some net =>
        let hd := payload.take 28
        let tl := payload.drop 28
        match t with
        | .keyKey => do let p ← mkVkh hd; let s ← mkVkh tl; pure ⟨p, s, net⟩
        | .keyScript => do let p ← mkVkh hd; let s ← mkSh tl; pure ⟨p, s, net⟩
        | .keyPointer => do let s ← mkPtr tl; let p ← mkVkh hd; pure ⟨p, s, net⟩
        | .keyNone => do let p ← mkVkh payload; pure ⟨p, .none, net⟩
        | .scriptKey => do let p ← mkSh hd; let s ← mkVkh tl; pure ⟨p, s, net⟩
        | .scriptScript => do let p ← mkSh hd; let s ← mkSh tl; pure ⟨p, s, net⟩
        | .scriptPointer => do let s ← mkPtr tl; let p ← mkSh hd; pure ⟨p, s, net⟩
        | .scriptNone => do let p ← mkSh payload; pure ⟨p, .none, net⟩
        | .noneKey => do let s ← mkVkh payload; pure ⟨.none, s, net⟩
        | .noneScript => do let s ← mkSh payload; pure ⟨.none, s, net⟩
        | .byron => .error .byron

/-- `Address.from_primitive(value: str)` = `Address.decode` -/
def fromBech32 (s : List Char) : Except DecErr Address :=
  match Bech32.decode s with
  | .ok decoded => fromBytes (decoded.map UInt8.ofNat)
  | _ => .error .bech32

end Pyc.Addr
