import Pyc.Model.CustomCodec

/-! Model of the codecs on the WITNESS side of a transaction, which the generic table-driven interpreter
(`Model/Codec.lean`) carries as opaque leaves:

* `Key` and its subclasses (key.py): constructor, `to_primitive` / `from_primitive`, the text envelope
  `to_json` / `from_json` (`{"type", "description", "cborHex"}`), `to_non_extended`, `hash`;
* `VerificationKeyWitness` (witness.py): `__post_init__`, `to_primitive` (generic array class), `from_primitive`;
* `ExecutionUnits`, `RedeemerTag`, `Redeemer`, `RedeemerKey`, `RedeemerValue`, `RedeemerMap`, the `Redeemers` union
  (plutus.py);
* `TransactionWitnessSet` (witness.py): `__post_init__`, `to_primitive` (generic map class), `from_primitive` (generic map
  class over the field types: `Optional[Union[List[T], NonEmptyOrderedSet[T]]]`, the `_plutus_data_hook`, `Redeemers`),
  `OrderedSet` / `NonEmptyOrderedSet` (serialization.py) as far as these fields use them.

How the BUILDER assembles witness sets and redeemer indices is `Model/Witness.lean` / `Model/Redeemers.lean`; this file
is the CODEC only.  Every function transliterates one Python method; the comment names it.  Results are three-valued
(`Codec.Res`): `deser` = `DeserializeException` (a `Union` tries its next alternative), `crash` = any other exception.
Native scripts, bootstrap witnesses, witness datums and redeemer data are leaves (`Custom.Leaf`: how the class writes
itself as a primitive and how it is restored from one).

Fields that the decoders store WITHOUT looking at them (`VerificationKeyWitness.signature = values[1]`,
`Redeemer.index = values[1]`) hold whatever primitive was on the wire: `Prim`.

Deviations (none reachable from an object the library serializes; the differential run does not generate them):
* Python counts `True` / `False` as ints: a CBOR boolean is accepted as a redeemer tag, index, `mem` or `steps`, as Plutus
  data, and `true` as the witness-set key 1 — here a boolean is not an integer;
* `bytes.fromhex` skips ASCII whitespace — `ofHex` does not; `cbor2.loads` ignores bytes after the first item —
  `decodeAll` refuses them;
* duplicate keys of a CBOR map are collapsed by cbor2 before pycardano sees them (first position, last value) — here
  the later entry overwrites the earlier one after the earlier one was restored, so a malformed FIRST value of a
  duplicated key fails here and is never looked at there;
* where Python iterates a primitive that is not an array (`for v in vals` of `_plutus_data_hook`, the element loop of
  `OrderedSet.from_primitive`) the model iterates arrays and byte strings (a byte string yields its bytes as ints); a
  text string (its characters) and a map (its keys) are iterable in Python too and are a `crash` here;
* `bytes(v)` of the tag-258 / fallback path for Plutus scripts (`type_arg(v)` with `type_arg` a `bytes` subclass) also
  accepts a list of small ints and a map with small int keys — here a byte string or a non-negative int (`bytes(n)` is
  `n` zero bytes);
* a plain `OrderedSet` (not `NonEmptyOrderedSet`) placed in `bootstrap_witness` / `plutus_data` is not distinguished
  from a `NonEmptyOrderedSet` (the only difference: an EMPTY tagged one passes `validate` and cannot be decoded);
* a JSON envelope whose `"type"` / `"description"` is neither a string nor `null` is stored as is by Python — `crash`
  here. -/

namespace Pyc.WitnessCodec
open Pyc Pyc.Cbor Pyc.Codec Pyc.Custom

/-! ## primitives -/

/-- a decoded byte string (cbor2 joins the chunks of an indefinite-length byte string) -/
def itemBytes? : Item → Option Bytes
  | .bytes b => some b
  | .bytesChunked cs => some cs.flatten
  | _ => Option.none

/-- a CBOR primitive held by a field that nothing checked: an `int`, a `bytes`, or anything else (as received) -/
inductive Prim where
  | int (i : Int)
  | bytes (b : Bytes)
  | other (x : Item)
  deriving Repr, Inhabited

/-- what `cbor2.loads` hands over for an item -/
def Prim.ofItem (x : Item) : Prim :=
  match itemInt? x with
  | some i => .int i
  | Option.none =>
    match itemBytes? x with
    | some b => .bytes b
    | Option.none => .other x

/-- what `cbor2.dumps` writes for the primitive -/
def Prim.toItem : Prim → Item
  | .int i => ofInt i
  | .bytes b => .bytes b
  | .other x => x

def Prim.isInt : Prim → Bool
  | .int _ => true
  | _ => false

def Prim.isBytes : Prim → Bool
  | .bytes _ => true
  | _ => false

/-! ## keys (key.py) -/

/-- `Key` and the classes derived from it in key.py -/
inductive KeyClass where
  | key | signing | verification | extSigning | extVerification
  | paymentSigning | paymentVerification | paymentExtSigning | paymentExtVerification
  | stakeSigning | stakeVerification | stakeExtSigning | stakeExtVerification
  | stakePoolSigning | stakePoolVerification
  deriving DecidableEq, Repr, Inhabited

def KeyClass.all : List KeyClass :=
  [.key, .signing, .verification, .extSigning, .extVerification,
   .paymentSigning, .paymentVerification, .paymentExtSigning, .paymentExtVerification,
   .stakeSigning, .stakeVerification, .stakeExtSigning, .stakeExtVerification,
   .stakePoolSigning, .stakePoolVerification]

/-- the classes that set `KEY_TYPE` themselves -/
def KeyClass.concrete : List KeyClass :=
  [.paymentSigning, .paymentVerification, .paymentExtSigning, .paymentExtVerification,
   .stakeSigning, .stakeVerification, .stakeExtSigning, .stakeExtVerification,
   .stakePoolSigning, .stakePoolVerification]

/-- the class attribute `KEY_TYPE` (`""` where it is inherited from `Key`) -/
def KeyClass.keyType : KeyClass → String
  | .paymentSigning => "PaymentSigningKeyShelley_ed25519"
  | .paymentVerification => "PaymentVerificationKeyShelley_ed25519"
  | .paymentExtSigning => "PaymentExtendedSigningKeyShelley_ed25519_bip32"
  | .paymentExtVerification => "PaymentExtendedVerificationKeyShelley_ed25519_bip32"
  | .stakeSigning => "StakeSigningKeyShelley_ed25519"
  | .stakeVerification => "StakeVerificationKeyShelley_ed25519"
  | .stakeExtSigning => "StakeExtendedSigningKeyShelley_ed25519_bip32"
  | .stakeExtVerification => "StakeExtendedVerificationKeyShelley_ed25519_bip32"
  | .stakePoolSigning => "StakePoolSigningKey_ed25519"
  | .stakePoolVerification => "StakePoolVerificationKey_ed25519"
  | _ => ""

/-- the class attribute `DESCRIPTION` — which `Key.__init__` never reads (the default description is `KEY_TYPE`) -/
def KeyClass.descriptionAttr : KeyClass → String
  | .paymentSigning | .paymentExtSigning => "Payment Signing Key"
  | .paymentVerification | .paymentExtVerification => "Payment Verification Key"
  | .stakeSigning | .stakeExtSigning => "Stake Signing Key"
  | .stakeVerification | .stakeExtVerification => "Stake Verification Key"
  | .stakePoolSigning => "Stake Pool Operator Signing Key"
  | .stakePoolVerification => "Stake Pool Operator Verification Key"
  | _ => ""

/-- `isinstance(k, ExtendedVerificationKey)` -/
def KeyClass.isExtVerification : KeyClass → Bool
  | .extVerification | .paymentExtVerification | .stakeExtVerification => true
  | _ => false

/-- `isinstance(k, VerificationKey)` -/
def KeyClass.isVerification : KeyClass → Bool
  | .verification | .paymentVerification | .stakeVerification | .stakePoolVerification => true
  | _ => false

/-- a `Key` instance: its class and the three attributes `__eq__` compares (`__eq__` does not look at the class) -/
structure KeyObj where
  cls : KeyClass
  payload : Bytes
  keyType : String
  description : String
  deriving DecidableEq, Repr, Inhabited

/-- `a or d` for an optional string argument -/
def pyOr (a : Option String) (d : String) : String :=
  match a with
  | some s => if s = "" then d else s
  | Option.none => d

/-- `Key.__init__(payload, key_type=None, description=None)`: `self._key_type = key_type or self.KEY_TYPE`,
`self._description = description or self.KEY_TYPE` (sic: `KEY_TYPE`, not `DESCRIPTION`).  The payload is not checked. -/
def mkKey (c : KeyClass) (payload : Bytes) (keyType description : Option String := Option.none) : KeyObj :=
  ⟨c, payload, pyOr keyType c.keyType, pyOr description c.keyType⟩

/-- `Key.__eq__` -/
def KeyObj.pyEq (a b : KeyObj) : Bool :=
  a.payload == b.payload && a.description == b.description && a.keyType == b.keyType

/-- `Key.to_primitive` -/
def keyItem (k : KeyObj) : Item := .bytes k.payload

/-- `Key.from_primitive`: `@limit_primitive_type(bytes)`, then `cls(value)` -/
def decKey (c : KeyClass) (i : Item) : Res KeyObj :=
  match itemBytes? i with
  | some b => .ok (mkKey c b)
  | Option.none => .deser

/-- `ExtendedVerificationKey.to_non_extended`: `VerificationKey(self.payload[:32])` -/
def toNonExtended (k : KeyObj) : KeyObj := mkKey .verification (k.payload.take 32)

/-- `ExtendedSigningKey.to_verification_key`: `ExtendedVerificationKey(self.payload[64:], key_type.replace("Signing",
"Verification"), description.replace(…))` -/
def extToVerificationKey (k : KeyObj) : KeyObj :=
  mkKey .extVerification (k.payload.drop 64) (some (k.keyType.replace "Signing" "Verification"))
    (some (k.description.replace "Signing" "Verification"))

/-- `VerificationKey.hash` / `ExtendedVerificationKey.hash` over an abstract `blake2b-224` -/
def keyHash (blake224 : Bytes → Bytes) (k : KeyObj) : Bytes :=
  if k.cls.isExtVerification then blake224 (toNonExtended k).payload else blake224 k.payload

/-! ### the text envelope -/

/-- a JSON value as far as `from_json` looks at it -/
inductive JVal where
  | str (s : String)
  | null
  | other                  -- number, boolean, array, object
  deriving DecidableEq, Repr, Inhabited

/-- a JSON object (`json.loads` keeps the last of several equal names) -/
abbrev JObj := List (String × JVal)

def JObj.get? (o : JObj) (k : String) : Option JVal :=
  o.foldl (fun acc p => if p.1 = k then some p.2 else acc) Option.none

inductive KRes (α : Type) where
  | ok (a : α)
  | badType      -- InvalidKeyTypeException
  | deser        -- DeserializeException
  | crash        -- any other exception (KeyError, ValueError, CBORDecodeError, TypeCheckError)
  deriving Repr, Inhabited

/-- `Key.to_cbor`: the CBOR byte string of the payload -/
def keyCbor (k : KeyObj) : Bytes := encode (keyItem k)

/-- `Key.to_json`: `json.dumps({"type": …, "description": …, "cborHex": self.to_cbor_hex()})` as the object it writes -/
def toJson (k : KeyObj) : JObj :=
  [("type", .str k.keyType), ("description", .str k.description), ("cborHex", .str (toHex (keyCbor k)))]

/-- a JSON value passed as `key_type=` / `description=` -/
def jArg : JVal → Option (Option String)
  | .str s => some (some s)
  | .null => some Option.none
  | .other => Option.none

/-- `Key.from_json(data, validate_type)` on the parsed object: the type test first (only when asked for), then
`cls.from_cbor(obj["cborHex"])`, then `cls(k.payload, key_type=obj["type"], description=obj["description"])` -/
def fromJson (c : KeyClass) (validateType : Bool) (o : JObj) : KRes KeyObj :=
  let typeTest : Option (KRes KeyObj) :=
    if validateType then
      (match o.get? "type" with
        | Option.none => some .crash                                                 -- KeyError
        | some t => if t = .str c.keyType then Option.none else some .badType)
    else Option.none
  match typeTest with
  | some r => r
  | Option.none =>
    match o.get? "cborHex" with
    | some (.str h) =>
      (match ofHex h with
        | Option.none => .crash                                                      -- ValueError
        | some b =>
          match decodeAll b with
          | Option.none => .crash                                                    -- CBORDecodeError
          | some i =>
            match decKey c i with
            | .deser => .deser
            | .crash => .crash
            | .ok k =>
              match o.get? "type", o.get? "description" with
              | some t, some d =>
                (match jArg t, jArg d with
                  | some t', some d' => .ok (mkKey c k.payload t' d')
                  | _, _ => .crash)
              | _, _ => .crash)                                                      -- KeyError
    | _ => .crash                                                                    -- KeyError / TypeCheckError

/-! ## `VerificationKeyWitness` -/

structure VKW where
  vkey : KeyObj
  sig : Prim               -- `signature: bytes`, checked by `validate` only
  deriving Repr, Inhabited

/-- `VerificationKeyWitness(vkey, signature)` with its `__post_init__`: an `ExtendedVerificationKey` INSTANCE is
replaced by `vkey.to_non_extended()` (the test is on the class, not on the length of the payload); else ANY
`VerificationKey` instance (role-specific subclass or not, whatever envelope it carries) by
`VerificationKey(vkey.payload)`: only the key bytes are on the wire, and the witness holds what decoding returns.
Anything else — a signing key, an object that is no key — is kept as it is (and refused by `validate`). -/
def mkVKW (k : KeyObj) (sig : Prim) : VKW :=
  ⟨if k.cls.isExtVerification then toNonExtended k
   else if k.cls.isVerification then mkKey .verification k.payload
   else k, sig⟩

/-- `SigningKey.to_verification_key`: `VerificationKey(<public key bytes>, key_type.replace("Signing", "Verification"),
description.replace(…))` — the class is exactly `VerificationKey`, the envelope is the signing key's, renamed.  (The
derivation of the public key bytes is outside this model: `pub`.) -/
def toVerificationKey (pub : Bytes) (sk : KeyObj) : KeyObj :=
  mkKey .verification pub (some (sk.keyType.replace "Signing" "Verification"))
    (some (sk.description.replace "Signing" "Verification"))

/-- `ArrayCBORSerializable.to_shallow_primitive` for the two fields: `[vkey, signature]` -/
def vkwItem (w : VKW) : Item := .array [keyItem w.vkey, w.sig.toItem]

/-- `VerificationKeyWitness.from_primitive`: `@limit_primitive_type(list, tuple)` (an indefinite-length array is an
`IndefiniteList`: refused), `VerificationKey.from_primitive(values[0])`, `signature=values[1]` as it is -/
def decVKW : Item → Res VKW
  | .array [] => .crash                                                              -- IndexError
  | .array [v] => Res.bind (decKey .verification v) (fun _ => .crash)                -- IndexError on values[1]
  | .array (v :: s :: _) => Res.bind (decKey .verification v) (fun k => .ok (mkVKW k (Prim.ofItem s)))
  | _ => .deser

/-- what `validate` (run by `to_cbor`) asks of a witness: a (possibly extended) verification key class and a `bytes`
signature -/
def vkwValid (w : VKW) : Bool := (w.vkey.cls.isVerification || w.vkey.cls.isExtVerification) && w.sig.isBytes

/-- `dataclass.__eq__` over `(vkey, signature)` with `Key.__eq__` -/
def VKW.pyEq (a b : VKW) : Bool := a.vkey.pyEq b.vkey && encode a.sig.toItem == encode b.sig.toItem

/-- what decoding an encoded witness returns: the key as a plain `VerificationKey` (type and description are not on the
wire) -/
def decodedVKW (w : VKW) : VKW := ⟨mkKey .verification w.vkey.payload, w.sig⟩

/-- `OrderedSet._key`: `(type(item), str(item))`; the text shows the key's envelope and the signature -/
def vkwKey (w : VKW) : Bytes × String × String × Bytes :=
  (w.vkey.payload, w.vkey.keyType, w.vkey.description, encode w.sig.toItem)

/-! ## redeemers (plutus.py) -/

inductive RTag where
  | spend | mint | cert | reward | voting | proposing
  deriving DecidableEq, Repr, Inhabited

def RTag.code : RTag → Nat
  | .spend => 0 | .mint => 1 | .cert => 2 | .reward => 3 | .voting => 4 | .proposing => 5

/-- `RedeemerTag(value)` -/
def RTag.ofCode? (i : Int) : Option RTag :=
  if i = 0 then some .spend else if i = 1 then some .mint else if i = 2 then some .cert
  else if i = 3 then some .reward else if i = 4 then some .voting else if i = 5 then some .proposing
  else Option.none

/-- `RedeemerTag.from_primitive`: `@limit_primitive_type(int)`, then `cls(value)` (`ValueError` outside 0..5) -/
def decTag (i : Item) : Res RTag :=
  match itemInt? i with
  | some v => (match RTag.ofCode? v with | some t => .ok t | Option.none => .crash)
  | Option.none => .deser

structure ExUnits where
  mem : Int
  steps : Int
  deriving DecidableEq, Repr, Inhabited

def exItem (e : ExUnits) : Item := .array [ofInt e.mem, ofInt e.steps]

/-- `ExecutionUnits.from_primitive` (generic array class): the items are zipped with `mem: int`, `steps: int`
(`DeserializeException` for a non-int), then the constructor (`TypeError` when an argument is missing; extra items
become unknown fields) -/
def decExUnits (i : Item) : Res ExUnits :=
  match listElems? i with
  | Option.none => .deser
  | some [] => .crash
  | some [a] => (match itemInt? a with | some _ => .crash | Option.none => .deser)
  | some (a :: b :: _) =>
    (match itemInt? a, itemInt? b with
      | some m, some s => .ok ⟨m, s⟩
      | _, _ => .deser)

/-- `_restore_typed_primitive(Optional[ExecutionUnits], v)` -/
def decOptEx (i : Item) : Res (Option ExUnits) :=
  match decExUnits i with
  | .ok e => .ok (some e)
  | .crash => .crash
  | .deser =>
    (match i with
      | .simple n => if n = 22 then .ok Option.none else .deser
      | _ => .deser)

/-- `Redeemer`: `tag` and `index` are `init=False` fields (default `None` / `0`) that the builder assigns; `data: Any`;
`ex_units: Optional[ExecutionUnits] = None` -/
structure Redeemer (R : Type) where
  tag : Option RTag
  index : Prim
  data : R
  exUnits : Option ExUnits
  deriving Repr

/-- `Redeemer(data, ex_units)` -/
def mkRedeemer {R : Type} (data : R) (ex : Option ExUnits) : Redeemer R := ⟨Option.none, .int 0, data, ex⟩

variable {R D N B : Type}

/-- `ArrayCBORSerializable.to_shallow_primitive` over ALL four dataclass fields (`init` or not; none is marked
optional, so `None` is written as `null`): `[tag, index, data, ex_units]` -/
def redeemerItem (L : Leaf R) (r : Redeemer R) : Item :=
  .array [(match r.tag with | some t => .uint t.code | Option.none => .simple 22), r.index.toItem, L.enc r.data,
    (match r.exUnits with | some e => exItem e | Option.none => .simple 22)]

/-- `Redeemer.from_primitive`: `@limit_primitive_type(list, tuple)`; `values[2]` (a `CBORTag` becomes `RawPlutusData`:
the leaf), `super().from_primitive([values[2], values[3]])` over the two `init` fields, then
`redeemer.tag = RedeemerTag.from_primitive(values[0])`, `redeemer.index = values[1]` as it is -/
def decRedeemer (L : Leaf R) : Item → Res (Redeemer R)
  | .array (t :: ix :: d :: e :: _) =>
    Res.bind (L.dec d) fun data =>
    Res.bind (decOptEx e) fun ex =>
    Res.bind (decTag t) fun tag => .ok ⟨some tag, Prim.ofItem ix, data, ex⟩
  | .array [_, _, d] => Res.bind (L.dec d) (fun _ => .crash)                        -- IndexError on values[3]
  | .array _ => .crash                                                              -- IndexError on values[2]
  | _ => .deser

/-- `validate` of a `Redeemer`: `index: int` (`tag` and `ex_units` are `Optional`, `data` is `Any`) -/
def redeemerValid (r : Redeemer R) : Bool := r.index.isInt

structure RKey where
  tag : RTag
  index : Int
  deriving DecidableEq, Repr, Inhabited

def rkeyItem (k : RKey) : Item := .array [.uint k.tag.code, ofInt k.index]

/-- `RedeemerKey.from_primitive`: `@limit_primitive_type(list, tuple)`, `RedeemerTag.from_primitive(values[0])`,
`index = values[1]` as it is.  (An indefinite-length array as a map KEY makes cbor2 itself fail: unhashable.) -/
def decRKeyRaw : Item → Res (RTag × Prim)
  | .array [] => .crash
  | .array [t] => Res.bind (decTag t) (fun _ => .crash)
  | .array (t :: ix :: _) => Res.bind (decTag t) (fun tag => .ok (tag, Prim.ofItem ix))
  | .arrayIndef _ => .crash
  | _ => .deser

structure RValue (R : Type) where
  data : R
  exUnits : ExUnits
  deriving Repr

def rvalueItem (L : Leaf R) (v : RValue R) : Item := .array [L.enc v.data, exItem v.exUnits]

/-- `RedeemerValue.from_primitive`: `@limit_primitive_type(list, tuple)`, `values[0]` (leaf), then the generic array
restoration of `[values[0], values[1]]` with `ex_units: ExecutionUnits` (not optional) -/
def decRValue (L : Leaf R) : Item → Res (RValue R)
  | .array [] => .crash
  | .array [d] => Res.bind (L.dec d) (fun _ => .crash)
  | .array (d :: e :: _) => Res.bind (L.dec d) fun data => Res.bind (decExUnits e) fun ex => .ok ⟨data, ex⟩
  | _ => .deser

/-- `RedeemerMap`: a dict from `RedeemerKey` (`__eq__` on `(tag, index)`, `__hash__` of its CBOR) to `RedeemerValue`, in
insertion order -/
abbrev RMap (R : Type) := List (RKey × RValue R)

/-- `self.data[key] = value` -/
def rmSet (m : RMap R) (k : RKey) (v : RValue R) : RMap R :=
  if m.any (fun p => p.1 = k) then m.map (fun p => if p.1 = k then (p.1, v) else p) else m ++ [(k, v)]

/-- `DictCBORSerializable.to_shallow_primitive`: sorted by `(len(cbor(key)), cbor(key))` -/
def rmapSorted (m : RMap R) : RMap R :=
  isort (fun a b => lenLexLe (encode (rkeyItem a.1)) (encode (rkeyItem b.1))) m

def rmapItem (L : Leaf R) (m : RMap R) : Item :=
  .map (sortPairs (m.map (fun p => (rkeyItem p.1, rvalueItem L p.2))))

/-- the loop of `DictCBORSerializable.from_primitive`: restore the key, restore the value, `restored[k] = v` (whose
`hash(k)` serializes the key: `validate` raises `TypeError` for an index that is not an int) -/
def decRMapLoop (L : Leaf R) (acc : RMap R) : List (Item × Item) → Res (RMap R)
  | [] => .ok acc
  | (k, v) :: r =>
    Res.bind (decRKeyRaw k) fun kk =>
    Res.bind (decRValue L v) fun vv =>
    match kk.2 with
    | .int i => decRMapLoop L (rmSet acc ⟨kk.1, i⟩ vv) r
    | _ => .crash

/-- `RedeemerMap.from_primitive`: `@limit_primitive_type(dict)` -/
def decRMap (L : Leaf R) : Item → Res (RMap R)
  | .map kvs => decRMapLoop L [] kvs
  | _ => .deser

/-- `Redeemers = Union[List[Redeemer], RedeemerMap]` -/
inductive Redeemers (R : Type) where
  | list (rs : List (Redeemer R))
  | map (m : RMap R)
  deriving Repr

def redeemersItem (L : Leaf R) : Redeemers R → Item
  | .list rs => .array (rs.map (redeemerItem L))
  | .map m => rmapItem L m

/-- a list comprehension `[f(v) for v in vals]`: the first exception ends it -/
def decList {α : Type} (d : Item → Res α) : List Item → Res (List α)
  | [] => .ok []
  | x :: xs =>
    match d x with
    | .ok v => (match decList d xs with | .ok vs => .ok (v :: vs) | .deser => .deser | .crash => .crash)
    | .deser => .deser
    | .crash => .crash

/-- `_restore_typed_primitive(Optional[Union[List[Redeemer], RedeemerMap]], v)`: a list (definite or not) is restored
element by element (`DeserializeException` there ends in the final `DeserializeException`, since neither
`RedeemerMap` nor `None` takes a list); a map goes to `RedeemerMap.from_primitive`; `null` is `None` -/
def decRedeemersOpt (L : Leaf R) (i : Item) : Res (Option (Redeemers R)) :=
  match listElems? i with
  | some xs =>
    (match decList (decRedeemer L) xs with
      | .ok rs => .ok (some (.list rs))
      | .deser => .deser
      | .crash => .crash)
  | Option.none =>
    match i with
    | .map _ => (match decRMap L i with | .ok m => .ok (some (.map m)) | .deser => .deser | .crash => .crash)
    | .simple n => if n = 22 then .ok Option.none else .deser
    | _ => .deser

def redeemersValid : Redeemers R → Bool
  | .list rs => rs.all redeemerValid
  | .map _ => true

/-- what decoding encoded redeemers returns: the map in the order it was written -/
def decodedRedeemers : Redeemers R → Redeemers R
  | .list rs => .list rs
  | .map m => .map (rmapSorted m)

/-! ## `OrderedSet` / `NonEmptyOrderedSet` and the set-valued fields -/

/-- `OrderedSet.extend`: an element whose `_key` was seen is skipped -/
def dedupAux {α κ : Type} [DecidableEq κ] (key : α → κ) (seen : List κ) : List α → List α
  | [] => []
  | x :: xs => if key x ∈ seen then dedupAux key seen xs else x :: dedupAux key (key x :: seen) xs

def dedupBy {α κ : Type} [DecidableEq κ] (key : α → κ) (xs : List α) : List α := dedupAux key [] xs

/-- what a set-valued field holds: a plain `list`, or a `NonEmptyOrderedSet` with its `_use_tag` -/
inductive Coll (α : Type) where
  | list (xs : List α)
  | oset (tagged : Bool) (xs : List α)
  deriving Repr

def Coll.elems {α : Type} : Coll α → List α
  | .list xs => xs
  | .oset _ xs => xs

/-- `to_primitive` of the field: `CBORTag(258, [...])` for a set that uses the tag, an array otherwise -/
def collItem {α : Type} (enc : α → Item) : Coll α → Item
  | .list xs => .array (xs.map enc)
  | .oset t xs => if t then .tag 258 (.array (xs.map enc)) else .array (xs.map enc)

/-- how the elements of one set-valued field are written, restored and told apart -/
structure Elem (α κ : Type) where
  enc : α → Item
  dList : Item → Res α          -- `_restore_typed_primitive(T, w)` of the `List[T]` alternative
  dSet : Item → Res α           -- `_restore` of `OrderedSet.from_primitive(value, type_args=(T,))`
  key : α → κ                   -- `OrderedSet._key`

/-- `NonEmptyOrderedSet(xs)` (`use_tag=True`): `TransactionWitnessSet.__post_init__` for a field that holds a `list` —
and an `OrderedSet` IS a `list`, so a set handed over with `use_tag=False` is rebuilt with the tag as well -/
def toNE {α κ : Type} [DecidableEq κ] (key : α → κ) (c : Coll α) : Coll α := .oset true (dedupBy key c.elems)

/-- the primitives Python iterates in the element loops (see the deviations) -/
def iterItems? : Item → Option (List Item)
  | .array xs => some xs
  | .arrayIndef xs => some xs
  | .bytes b => some (b.map (fun u => .uint u.toNat))
  | .bytesChunked cs => some (cs.flatten.map (fun u => .uint u.toNat))
  | _ => Option.none

/-- `NonEmptyOrderedSet.from_primitive(value, type_args=(T,))`: a `CBORTag(258, …)` keeps the tag, a `list` does not;
anything else (`IndefiniteList` and `None` included) is a `ValueError`; an empty result is a `ValueError` -/
def decNE {α κ : Type} [DecidableEq κ] (E : Elem α κ) : Item → Res (Coll α)
  | .tag t inner =>
    if t = 258 then
      (match iterItems? inner with
        | some xs =>
          (match decList E.dSet xs with
            | .ok vs => if (dedupBy E.key vs).isEmpty then .crash else .ok (.oset true (dedupBy E.key vs))
            | .deser => .deser
            | .crash => .crash)
        | Option.none => .crash)
    else .crash
  | .array xs =>
    (match decList E.dSet xs with
      | .ok vs => if (dedupBy E.key vs).isEmpty then .crash else .ok (.oset false (dedupBy E.key vs))
      | .deser => .deser
      | .crash => .crash)
  | _ => .crash

/-- `_restore_typed_primitive(Optional[Union[List[T], NonEmptyOrderedSet[T]]], v)`: `List[T]` takes a list (definite or
not); when it raises `DeserializeException` (not a list, or an element refused) `NonEmptyOrderedSet[T]` is tried, and
its `ValueError` ends the decode before `None` is ever tried -/
def decSetField {α κ : Type} [DecidableEq κ] (E : Elem α κ) (i : Item) : Res (Coll α) :=
  match listElems? i with
  | some xs =>
    (match decList E.dList xs with
      | .ok vs => .ok (.list vs)
      | .crash => .crash
      | .deser => decNE E i)
  | Option.none => decNE E i

/-- `_plutus_data_hook`: a `CBORTag(258, …)` becomes `NonEmptyOrderedSet([...], use_tag=True)` (built directly: an empty
one is accepted here), anything else is iterated into a plain list -/
def decDatums {α κ : Type} [DecidableEq κ] (E : Elem α κ) : Item → Res (Coll α)
  | .tag t inner =>
    if t = 258 then
      (match iterItems? inner with
        | some xs =>
          (match decList E.dSet xs with
            | .ok vs => .ok (.oset true (dedupBy E.key vs))
            | .deser => .deser
            | .crash => .crash)
        | Option.none => .crash)
    else .crash
  | i =>
    match iterItems? i with
    | some xs => (match decList E.dList xs with | .ok vs => .ok (.list vs) | .deser => .deser | .crash => .crash)
    | Option.none => .crash

/-- `OrderedSet._key` of a leaf: its text shows its content, as its encoding does -/
def leafKey {α : Type} (L : Leaf α) (x : α) : Bytes := encode (L.enc x)

/-- a leaf class as a set element -/
def Elem.ofLeaf {α : Type} (L : Leaf α) : Elem α Bytes := ⟨L.enc, L.dec, L.dec, leafKey L⟩

def vkwElem : Elem VKW (Bytes × String × String × Bytes) := ⟨vkwItem, decVKW, decVKW, vkwKey⟩

/-- `PlutusVnScript(v)` = `bytes(v)` on the `OrderedSet` path (see the deviations) -/
def pyBytes : Item → Res Bytes
  | .bytes b => .ok b
  | .bytesChunked cs => .ok cs.flatten
  | .uint n => .ok (List.replicate n 0)
  | _ => .crash

/-- `_restore_typed_primitive(PlutusVnScript, v)`: `bytes` or `DeserializeException` -/
def decScriptBytes (i : Item) : Res Bytes :=
  match itemBytes? i with
  | some b => .ok b
  | Option.none => .deser

def scriptElem : Elem Bytes Bytes := ⟨fun b => .bytes b, decScriptBytes, pyBytes, id⟩

/-! ## `TransactionWitnessSet` -/

structure Leaves (N B D R : Type) where
  native : Leaf N          -- `NativeScript`
  bootstrap : Leaf B       -- `Any` (the primitive itself in /repo: never refused)
  datum : Leaf D           -- `_restore_datum`: `RawPlutusData` / `RawCBOR`
  rdata : Leaf R           -- the `data` of a redeemer (`Any`; a `CBORTag` becomes `RawPlutusData`)

structure WS (N B D R : Type) where
  vkeys : Option (Coll VKW) := Option.none                 -- 0
  native : Option (Coll N) := Option.none                  -- 1
  bootstrap : Option (Coll B) := Option.none               -- 2
  v1 : Option (Coll Bytes) := Option.none                  -- 3
  datums : Option (Coll D) := Option.none                  -- 4
  redeemers : Option (Redeemers R) := Option.none          -- 5
  v2 : Option (Coll Bytes) := Option.none                  -- 6
  v3 : Option (Coll Bytes) := Option.none                  -- 7

/-- `TransactionWitnessSet.__post_init__`: `vkey_witnesses`, `native_scripts`, `plutus_v1_script`, `plutus_v2_script`,
`plutus_v3_script` are rebuilt as tagged `NonEmptyOrderedSet`s whenever they are lists; `bootstrap_witness`,
`plutus_data` and `redeemer` are stored as given -/
def mkWS (L : Leaves N B D R) (a : WS N B D R) : WS N B D R :=
  { a with
    vkeys := a.vkeys.map (toNE vkwKey)
    native := a.native.map (toNE (leafKey L.native))
    v1 := a.v1.map (toNE id)
    v2 := a.v2.map (toNE id)
    v3 := a.v3.map (toNE id) }

def optPair {α : Type} (k : Nat) (f : α → Item) : Option α → List (Item × Item)
  | some x => [(.uint k, f x)]
  | Option.none => []

/-- `MapCBORSerializable.to_shallow_primitive`: the fields in declaration order under their `key` metadata, `None`
skipped -/
def wsItem (L : Leaves N B D R) (x : WS N B D R) : Item :=
  .map (optPair 0 (collItem vkwItem) x.vkeys ++ optPair 1 (collItem L.native.enc) x.native ++
    optPair 2 (collItem L.bootstrap.enc) x.bootstrap ++ optPair 3 (collItem (fun b => Item.bytes b)) x.v1 ++
    optPair 4 (collItem L.datum.enc) x.datums ++ optPair 5 (redeemersItem L.rdata) x.redeemers ++
    optPair 6 (collItem (fun b => Item.bytes b)) x.v2 ++ optPair 7 (collItem (fun b => Item.bytes b)) x.v3)

/-- the loop `for key in values:` of `MapCBORSerializable.from_primitive`, in wire order: an unknown key raises
`DeserializeException`, a known one restores its field into the keyword arguments -/
def decWSLoop (L : Leaves N B D R) (acc : WS N B D R) : List (Item × Item) → Res (WS N B D R)
  | [] => .ok acc
  | (k, x) :: r =>
    if itemInt? k = some 0 then
      Res.bind (decSetField vkwElem x) fun c => decWSLoop L { acc with vkeys := some c } r
    else if itemInt? k = some 1 then
      Res.bind (decSetField (Elem.ofLeaf L.native) x) fun c => decWSLoop L { acc with native := some c } r
    else if itemInt? k = some 2 then
      Res.bind (decSetField (Elem.ofLeaf L.bootstrap) x) fun c => decWSLoop L { acc with bootstrap := some c } r
    else if itemInt? k = some 3 then
      Res.bind (decSetField scriptElem x) fun c => decWSLoop L { acc with v1 := some c } r
    else if itemInt? k = some 4 then
      Res.bind (decDatums (Elem.ofLeaf L.datum) x) fun c => decWSLoop L { acc with datums := some c } r
    else if itemInt? k = some 5 then
      Res.bind (decRedeemersOpt L.rdata x) fun c => decWSLoop L { acc with redeemers := c } r
    else if itemInt? k = some 6 then
      Res.bind (decSetField scriptElem x) fun c => decWSLoop L { acc with v2 := some c } r
    else if itemInt? k = some 7 then
      Res.bind (decSetField scriptElem x) fun c => decWSLoop L { acc with v3 := some c } r
    else .deser

/-- `TransactionWitnessSet.from_primitive`: `@limit_primitive_type(dict, FrozenDict)`, the loop, then the constructor
(`__post_init__`) -/
def decWS (L : Leaves N B D R) : Item → Res (WS N B D R)
  | .map kvs => Res.bind (decWSLoop L {} kvs) (fun acc => .ok (mkWS L acc))
  | _ => .deser

/-- `validate` of a field holding a `NonEmptyOrderedSet`: not empty (a plain list is not asked that) -/
def collValid {α : Type} (elemValid : α → Bool) : Coll α → Bool
  | .list xs => xs.all elemValid
  | .oset _ xs => !xs.isEmpty && xs.all elemValid

/-- the test `to_cbor` runs first (`validate`): a `NonEmptyOrderedSet` is not empty, every vkey witness holds a
verification key and a `bytes` signature, every redeemer index is an int -/
def wsValid (x : WS N B D R) : Bool :=
  (match x.vkeys with | some c => collValid vkwValid c | Option.none => true) &&
  (match x.native with | some c => collValid (fun _ => true) c | Option.none => true) &&
  (match x.bootstrap with | some c => collValid (fun _ => true) c | Option.none => true) &&
  (match x.v1 with | some c => collValid (fun _ => true) c | Option.none => true) &&
  (match x.datums with | some c => collValid (fun _ => true) c | Option.none => true) &&
  (match x.redeemers with | some r => redeemersValid r | Option.none => true) &&
  (match x.v2 with | some c => collValid (fun _ => true) c | Option.none => true) &&
  (match x.v3 with | some c => collValid (fun _ => true) c | Option.none => true)

/-- `TransactionWitnessSet.to_cbor` / `from_cbor` -/
def encWSBytes (L : Leaves N B D R) (x : WS N B D R) : Bytes := encode (wsItem L x)

def decWSBytes (L : Leaves N B D R) (b : Bytes) : Res (WS N B D R) :=
  match decodeAll b with
  | some i => decWS L i
  | Option.none => .crash

/-- what decoding the array / tag-258 encoding of a collection of a field that `__post_init__` rebuilds returns -/
def decodedNE {α κ : Type} [DecidableEq κ] (key : α → κ) (nf : α → α) (c : Coll α) : Coll α :=
  .oset true (dedupBy key (c.elems.map nf))

/-- … and of `bootstrap_witness` / `plutus_data`: an untagged set comes back as the list of its elements (a tagged
one is rebuilt by the `OrderedSet` constructor: nothing changes unless elements were put in behind its back) -/
def decodedPlain {α κ : Type} [DecidableEq κ] (key : α → κ) : Coll α → Coll α
  | .list xs => .list xs
  | .oset true xs => .oset true (dedupBy key xs)
  | .oset false xs => .list xs

/-- what decoding an encoded witness set returns, for EVERY witness set (constructed, or with attributes assigned
later) -/
def decodedWS (L : Leaves N B D R) (x : WS N B D R) : WS N B D R :=
  { vkeys := x.vkeys.map (decodedNE vkwKey decodedVKW)
    native := x.native.map (decodedNE (leafKey L.native) id)
    bootstrap := x.bootstrap.map (decodedPlain (leafKey L.bootstrap))
    v1 := x.v1.map (decodedNE id id)
    datums := x.datums.map (decodedPlain (leafKey L.datum))
    redeemers := x.redeemers.map decodedRedeemers
    v2 := x.v2.map (decodedNE id id)
    v3 := x.v3.map (decodedNE id id) }

end Pyc.WitnessCodec
