import Pyc.Model.Basic

/-! Wire-faithful CBOR item tree, encoder (what `cbor2.dumps` emits: shortest heads, definite lengths unless the
constructor says otherwise) and fuel-indexed decoder (RFC 8949 well-formed items of the kinds pycardano meets:
no floats, no indefinite maps / text). -/

namespace Pyc.Cbor

inductive Item where
  | uint (n : Nat)
  | nint (n : Nat)                        -- the integer -1 - n
  | bytes (b : Bytes)
  | bytesChunked (chunks : List Bytes)    -- 5f (definite chunks) ff
  | text (b : Bytes)                      -- UTF-8 bytes
  | array (xs : List Item)
  | arrayIndef (xs : List Item)           -- 9f ... ff
  | map (kvs : List (Item × Item))
  | tag (t : Nat) (x : Item)
  | simple (n : Nat)                      -- 20 false, 21 true, 22 null, 23 undefined
  deriving Repr, Inhabited

def head (major : Nat) (arg : Nat) : Bytes :=
  let m := major * 32
  if arg < 24 then [UInt8.ofNat (m + arg)]
  else if arg < 256 then UInt8.ofNat (m + 24) :: beBytes 1 arg
  else if arg < 65536 then UInt8.ofNat (m + 25) :: beBytes 2 arg
  else if arg < 4294967296 then UInt8.ofNat (m + 26) :: beBytes 4 arg
  else UInt8.ofNat (m + 27) :: beBytes 8 arg

def encodeChunks : List Bytes → Bytes
  | [] => []
  | c :: cs => head 2 c.length ++ c ++ encodeChunks cs

mutual
def encode : Item → Bytes
  | .uint n => head 0 n
  | .nint n => head 1 n
  | .bytes b => head 2 b.length ++ b
  | .bytesChunked cs => 0x5f :: (encodeChunks cs ++ [0xff])
  | .text b => head 3 b.length ++ b
  | .array xs => head 4 xs.length ++ encodeList xs
  | .arrayIndef xs => 0x9f :: (encodeList xs ++ [0xff])
  | .map kvs => head 5 kvs.length ++ encodePairs kvs
  | .tag t x => head 6 t ++ encode x
  | .simple n => head 7 n
def encodeList : List Item → Bytes
  | [] => []
  | x :: xs => encode x ++ encodeList xs
def encodePairs : List (Item × Item) → Bytes
  | [] => []
  | (k, v) :: xs => encode k ++ encode v ++ encodePairs xs
end

/-- decode a head: returns (major, info-or-arg, rest). `none` arg = indefinite (info 31). -/
def decodeHead : Bytes → Option (Nat × Option Nat × Bytes)
  | [] => none
  | b :: rest =>
    let major := b.toNat / 32
    let info := b.toNat % 32
    if info < 24 then some (major, some info, rest)
    else if info = 24 then
      match rest with
      | b0 :: r => some (major, some (fromBE [b0] 0), r)
      | _ => none
    else if info = 25 then
      match rest with
      | b0 :: b1 :: r => some (major, some (fromBE [b0, b1] 0), r)
      | _ => none
    else if info = 26 then
      match rest with
      | b0 :: b1 :: b2 :: b3 :: r => some (major, some (fromBE [b0, b1, b2, b3] 0), r)
      | _ => none
    else if info = 27 then
      match rest with
      | b0 :: b1 :: b2 :: b3 :: b4 :: b5 :: b6 :: b7 :: r =>
        some (major, some (fromBE [b0, b1, b2, b3, b4, b5, b6, b7] 0), r)
      | _ => none
    else if info = 31 then some (major, none, rest)
    else none

def decodeChunks : Nat → Bytes → Option (List Bytes × Bytes)
  | 0, _ => none
  | fuel+1, bs =>
    match bs with
    | [] => none
    | b :: r =>
      if b = 0xff then some ([], r) else
      match decodeHead bs with
      | some (2, some n, r1) =>
        if n ≤ r1.length then
          match decodeChunks fuel (r1.drop n) with
          | some (cs, r') => some (r1.take n :: cs, r')
          | none => none
        else none
      | _ => none

mutual
def decode : Nat → Bytes → Option (Item × Bytes)
  | 0, _ => none
  | fuel+1, bs =>
    match decodeHead bs with
    | none => none
    | some (0, some n, r) => some (.uint n, r)
    | some (1, some n, r) => some (.nint n, r)
    | some (2, some n, r) => if n ≤ r.length then some (.bytes (r.take n), r.drop n) else none
    | some (2, none, r) =>
      match decodeChunks fuel r with
      | some (cs, r') => some (.bytesChunked cs, r')
      | none => none
    | some (3, some n, r) => if n ≤ r.length then some (.text (r.take n), r.drop n) else none
    | some (4, some n, r) =>
      match decodeN fuel n r with
      | some (xs, r') => some (.array xs, r')
      | none => none
    | some (4, none, r) =>
      match decodeUntilBreak fuel r with
      | some (xs, r') => some (.arrayIndef xs, r')
      | none => none
    | some (5, some n, r) =>
      match decodePairsN fuel n r with
      | some (xs, r') => some (.map xs, r')
      | none => none
    | some (6, some t, r) =>
      match decode fuel r with
      | some (x, r') => some (.tag t x, r')
      | none => none
    | some (7, some n, r) => some (.simple n, r)
    | _ => none
def decodeN : Nat → Nat → Bytes → Option (List Item × Bytes)
  | 0, _, _ => none
  | _+1, 0, bs => some ([], bs)
  | fuel+1, n+1, bs =>
    match decode fuel bs with
    | none => none
    | some (x, r) =>
      match decodeN fuel n r with
      | none => none
      | some (xs, r') => some (x :: xs, r')
def decodeUntilBreak : Nat → Bytes → Option (List Item × Bytes)
  | 0, _ => none
  | fuel+1, bs =>
    match bs with
    | [] => none
    | b :: r =>
      if b = 0xff then some ([], r) else
      match decode fuel bs with
      | none => none
      | some (x, r1) =>
        match decodeUntilBreak fuel r1 with
        | none => none
        | some (xs, r') => some (x :: xs, r')
def decodePairsN : Nat → Nat → Bytes → Option (List (Item × Item) × Bytes)
  | 0, _, _ => none
  | _+1, 0, bs => some ([], bs)
  | fuel+1, n+1, bs =>
    match decode fuel bs with
    | none => none
    | some (k, r) =>
      match decode fuel r with
      | none => none
      | some (v, r1) =>
        match decodePairsN fuel n r1 with
        | none => none
        | some (xs, r') => some ((k, v) :: xs, r')
end


/-- whole-string decode: exactly one item, nothing left over -/
def decodeAll (bs : Bytes) : Option Item :=
  match decode (2 * bs.length + 2) bs with
  | some (x, []) => some x
  | _ => none

end Pyc.Cbor
