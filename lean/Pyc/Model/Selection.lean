import Pyc.Model.Redeemers

/-! Input gathering and selection of `TransactionBuilder.build` (txbuilder.py: `_ensure_no_input_exclusion_conflict`,
the seen-set / exclusion filter while gathering the additional pool, the selector fallback chain, the canonical
sort and write-back of the selected inputs).  A UTxO is its input reference together with its value (Python
compares `UTxO` objects field by field); selectors are parameters: functions from the pool to a selection or a
selection error. -/

namespace Pyc.Sel
open Pyc

abbrev U := Rd.TxIn × Value

/-- one iteration of the gathering loops: `if utxo not in seen_utxos and utxo not in self.excluded_inputs:
pool.append(utxo); seen_utxos.add(utxo)`; the state is `(pool, seen)` -/
def gatherStep (excluded : List U) (acc : List U × List U) (u : U) : List U × List U :=
  if acc.2.contains u || excluded.contains u then acc else (acc.1 ++ [u], acc.2 ++ [u])

/-- `additional_utxo_pool`: potential inputs first, then the UTxOs of every input address in order -/
def gatherPool (explicit potential : List U) (addrUtxos : List (List U)) (excluded : List U) : List U :=
  let s1 := potential.foldl (gatherStep excluded) ([], explicit)
  (addrUtxos.flatten.foldl (gatherStep excluded) s1).1

/-- `for index, selector in enumerate(self.utxo_selectors): try … except UTxOSelectionException`: the first selector
that succeeds wins; when the last one fails the error is raised; an empty selector list selects nothing -/
def chain : List (List U → Option (List U)) → List U → Option (List U)
  | [], _ => some []
  | [s], pool => s pool
  | s :: s2 :: rest, pool =>
    match s pool with
    | some sel => some sel
    | none => chain (s2 :: rest) pool

/-- `selected_utxos.sort(key=lambda utxo: (str(utxo.input.transaction_id), utxo.input.index))` -/
def sortU (l : List U) : List U := isort (fun a b => Rd.keyLe a.1 b.1) l

inductive Err where
  | conflict      -- TransactionBuilderException: inputs ∩ excluded_inputs ≠ ∅
  | selection     -- UTxOSelectionException: all selectors failed
  deriving Repr, DecidableEq, Inhabited

/-- the inputs of the body: `self.inputs[:] = sorted(explicit ++ selected)`; `needMore` is the builder's test
`Value() < unfulfilled_amount` -/
def selectInputs (explicit potential : List U) (addrUtxos : List (List U)) (excluded : List U) (needMore : Bool)
    (selectors : List (List U → Option (List U))) : Except Err (List U) :=
  if explicit.any (fun u => excluded.contains u) then .error .conflict
  else if !needMore then .ok (sortU explicit)
  else
    match chain selectors (gatherPool explicit potential addrUtxos excluded) with
    | none => .error .selection
    | some sel => .ok (sortU (explicit ++ sel))

end Pyc.Sel
