import Pyc.Model.Codec

/-! Models of the hand-written codecs that the generic table-driven interpreter (`Model/Codec.lean`) carries as opaque
leaves: `Value` / `MultiAsset` / `Asset` (transaction.py:84-312), `TransactionOutput` with `_DatumOption`, `_Script`,
`_ScriptRef`, `_TransactionOutputLegacy`, `_TransactionOutputPostAlonzo` (transaction.py:315-504), and the decode-time
normalisation of the set-valued fields of `TransactionBody` (transaction.py:538-641 with serialization.py:569-672).

Every function transliterates one Python method; the comment names it.  Results are three-valued (`Codec.Res`):
`deser` = `DeserializeException` (a `Union` tries its next alternative), `crash` = any other exception.

Deviations (none reachable from an object the library serializes; the differential run does not generate them):
Python counts `True` / `False` as ints (a CBOR boolean would be accepted as a coin or a quantity) — here a boolean
is not an integer; `bytes.fromhex` skips ASCII whitespace — `hexOfText` does not; duplicate keys of a CBOR map are
collapsed by cbor2 before pycardano sees them — here the later entry overwrites the earlier one in place, which is
the same dict. -/

namespace Pyc.Custom
open Pyc Pyc.Cbor Pyc.Codec Pyc.Schema

def Res.bind {α β : Type} (r : Res α) (f : α → Res β) : Res β :=
  match r with
  | .ok a => f a
  | .deser => .deser
  | .crash => .crash

/-! ## `Value`, `MultiAsset`, `Asset` -/

/-- value of an ASCII hex digit given as a byte -/
def hexByte (b : UInt8) : Option Nat :=
  let n := b.toNat
  if 48 ≤ n ∧ n ≤ 57 then some (n - 48)
  else if 97 ≤ n ∧ n ≤ 102 then some (n - 87)
  else if 65 ≤ n ∧ n ≤ 70 then some (n - 55)
  else none

/-- `bytes.fromhex(text)` on the UTF-8 bytes of the text (without the whitespace skipping) -/
def hexOfText : Bytes → Option Bytes
  | [] => some []
  | [_] => none
  | a :: b :: r =>
    match hexByte a, hexByte b, hexOfText r with
    | some x, some y, some t => some (UInt8.ofNat (x * 16 + y) :: t)
    | _, _, _ => none

/-- `ConstrainedBytes.from_primitive` (hash.py): `@limit_primitive_type(bytes, str)`, `bytes.fromhex` for text, then the
size assertion of the constructor -/
def decCBytes (mn mx : Nat) : Item → Res Bytes
  | .bytes b => if mn ≤ b.length ∧ b.length ≤ mx then .ok b else .crash         -- AssertionError
  | .text s =>
    match hexOfText s with
    | some b => if mn ≤ b.length ∧ b.length ≤ mx then .ok b else .crash
    | none => .crash                                                              -- ValueError
  | _ => .deser

/-- the loop of `DictCBORSerializable.from_primitive` for `Asset` (`KEY_TYPE = AssetName`, `VALUE_TYPE = int`):
restore the key, then `restored[k] = v` whose `check_type(v, int)` raises `TypeCheckError` -/
def decAssetLoop (acc : Asset) : List (Item × Item) → Res Asset
  | [] => .ok acc
  | (k, q) :: r =>
    match decCBytes 0 32 k with
    | .ok n =>
      (match itemInt? q with
        | some i => decAssetLoop (Dict.set acc n i) r
        | Option.none => .crash)
    | .deser => .deser
    | .crash => .crash

/-- `Asset.from_primitive`: `@limit_primitive_type(dict)`, the generic loop, then "pop zero values" -/
def decAsset : Item → Res Asset
  | .map kvs =>
    (match decAssetLoop [] kvs with
      | .ok a => .ok (Asset.normalize a)
      | .deser => .deser
      | .crash => .crash)
  | _ => .deser

/-- the loop of `DictCBORSerializable.from_primitive` for `MultiAsset` (`KEY_TYPE = ScriptHash`, `VALUE_TYPE = Asset`) -/
def decMultiAssetLoop (acc : MultiAsset) : List (Item × Item) → Res MultiAsset
  | [] => .ok acc
  | (k, a) :: r =>
    match decCBytes 28 28 k with
    | .ok p =>
      (match decAsset a with
        | .ok x => decMultiAssetLoop (Dict.set acc p x) r
        | .deser => .deser
        | .crash => .crash)
    | .deser => .deser
    | .crash => .crash

/-- `MultiAsset.from_primitive`: `@limit_primitive_type(dict)`, the generic loop, then "pop empty values" -/
def decMultiAsset : Item → Res MultiAsset
  | .map kvs =>
    (match decMultiAssetLoop [] kvs with
      | .ok m => .ok (List.filter (fun p => !p.2.isEmpty) m)
      | .deser => .deser
      | .crash => .crash)
  | _ => .deser

/-- `Value.from_primitive`: a bare integer is `Value(coin)`; otherwise `ArrayCBORSerializable.from_primitive`
(`@limit_primitive_type(list, tuple, IndefiniteList)`; the items are zipped with the fields `coin : int`,
`multi_asset : MultiAsset`; missing trailing fields take their defaults, extra items become unknown fields) -/
def decValue (i : Item) : Res Value :=
  match itemInt? i with
  | some c => .ok ⟨c, []⟩
  | Option.none =>
    match listElems? i with
    | Option.none => .deser
    | some [] => .ok ⟨0, []⟩
    | some (c :: rest) =>
      match itemInt? c with
      | Option.none => .deser                         -- `_restore_typed_primitive(int, v)` falls through to the final raise
      | some coin =>
        match rest with
        | [] => .ok ⟨coin, []⟩
        | m :: _ =>
          (match decMultiAsset m with
            | .ok ma => .ok ⟨coin, ma⟩
            | .deser => .deser
            | .crash => .crash)

/-- `Value.to_primitive` is `itemValue` (`Model/Canonical.lean`): the bare coin when the normalised bundle is empty,
else `[coin, multi_asset]` with both levels normalised and sorted by `(len(cbor(key)), cbor(key))` -/
def encValueBytes (v : Value) : Bytes := encode (itemValue v)

def decValueBytes (b : Bytes) : Res Value :=
  match decodeAll b with
  | some i => decValue i
  | Option.none => .crash                               -- CBORDecodeError

/-- what decoding an encoded value returns: the coin and the bundle normalised (zero quantities and empty policies
dropped) in wire order, i.e. canonical order -/
def normValue (v : Value) : Value := ⟨v.coin, primMultiAsset v.ma⟩

/-! ## `TransactionOutput` -/

/-- a class whose own codec is outside this model (address, inline datum, native script): how it is written as a
primitive and how it is restored from one -/
structure Leaf (α : Type) where
  enc : α → Item
  dec : Item → Res α

/-- the assumption made about such a class: restoring what it wrote returns it -/
structure Leaf.Lawful {α : Type} (L : Leaf α) : Prop where
  rt : ∀ x, L.dec (L.enc x) = .ok x

/-- a leaf carried as its primitive (used by the driver: the harness hands over the CBOR the implementation wrote) -/
def Leaf.raw : Leaf Item := ⟨id, .ok⟩

/-- `Union[NativeScript, PlutusScript]` of an output: a native script (leaf) or Plutus script bytes with the language
version (`PlutusV1Script` / `PlutusV2Script` / `PlutusV3Script`: 1 / 2 / 3) -/
inductive Script (N : Type) where
  | native (n : N)
  | plutus (ver : Nat) (b : Bytes)
  deriving Repr

/-- `TransactionOutput` (its six dataclass fields) -/
structure Output (A D N : Type) where
  address : A
  amount : Value
  datumHash : Option Bytes
  datum : Option D
  script : Option (Script N)
  postAlonzo : Bool
  deriving Repr

structure Leaves (A D N : Type) where
  addr : Leaf A
  datum : Leaf D
  native : Leaf N

variable {A D N : Type}

/-- `_Script(script).to_primitive()`: `[_TYPE, script]` with `_TYPE = 0` for a native script, else `script.version` -/
def itemScript (L : Leaf N) : Script N → Item
  | .native n => .array [.uint 0, L.enc n]
  | .plutus v b => .array [.uint v, .bytes b]

/-- `_ScriptRef(_Script(script)).to_primitive()`: `CBORTag(24, cbor2.dumps(script))` -/
def itemScriptRef (L : Leaf N) (s : Script N) : Item := .tag 24 (.bytes (encode (itemScript L s)))

/-- the argument of `_DatumOption(self.datum_hash or self.datum)`: the hash wins when both are set
(a `DatumHash` is always truthy) -/
def datumOptionOf (o : Output A D N) : Option (Bytes ⊕ D) :=
  match o.datumHash, o.datum with
  | some h, _ => some (.inl h)
  | Option.none, some d => some (.inr d)
  | Option.none, Option.none => Option.none

/-- `_DatumOption.to_shallow_primitive`: `[0, hash]` or `[1, CBORTag(24, cbor2.dumps(datum))]` -/
def itemDatumOption (L : Leaf D) : Bytes ⊕ D → Item
  | .inl h => .array [.uint 0, .bytes h]
  | .inr d => .array [.uint 1, .tag 24 (.bytes (encode (L.enc d)))]

/-- `if self.datum is not None or self.script is not None or self.post_alonzo:` -/
def mapForm (o : Output A D N) : Bool := o.datum.isSome || o.script.isSome || o.postAlonzo

/-- `TransactionOutput.__post_init__` (its part that concerns the codec): `if self.datum is not None or self.script is
not None: self.post_alonzo = True` — an inline datum or a reference script exists in the map form only, so the flag
says so.  Every constructed output (and every decoded one: the decoder goes through the constructor) is of the form
`normOutput o`; an attribute assigned after construction is not normalised. -/
def normOutput (o : Output A D N) : Output A D N := { o with postAlonzo := mapForm o }

/-- `_TransactionOutputPostAlonzo(address, amount, datum, script_ref).to_primitive()`: keys 0, 1 and the optional 2, 3
in declaration order -/
def itemOutputMap (L : Leaves A D N) (o : Output A D N) : Item :=
  .map ([(.uint 0, L.addr.enc o.address), (.uint 1, itemValue o.amount)]
    ++ (match datumOptionOf o with | some x => [(.uint 2, itemDatumOption L.datum x)] | Option.none => [])
    ++ (match o.script with | some s => [(.uint 3, itemScriptRef L.native s)] | Option.none => []))

/-- `_TransactionOutputLegacy(address, amount, datum_hash).to_primitive()` -/
def itemOutputLegacy (L : Leaves A D N) (o : Output A D N) : Item :=
  .array ([L.addr.enc o.address, itemValue o.amount]
    ++ (match o.datumHash with | some h => [.bytes h] | Option.none => []))

/-- `TransactionOutput.to_primitive` -/
def itemOutput (L : Leaves A D N) (o : Output A D N) : Item :=
  if mapForm o then itemOutputMap L o else itemOutputLegacy L o

/-- the test `TransactionOutput.validate` adds to the generic field validation (run by `to_cbor`): a negative coin or
any negative asset quantity is refused (`InvalidDataException`) -/
def outputValid (o : Output A D N) : Bool :=
  decide (0 ≤ o.amount.coin) && (MultiAsset.count o.amount.ma (fun _ _ v => decide (v < 0)) == 0)

/-- `_restore_typed_primitive(Union[int, Value], v)` followed by `TransactionOutput.__post_init__`
(`if isinstance(self.amount, int): self.amount = Value(self.amount)`): the same as `Value.from_primitive` -/
def decAmount (i : Item) : Res Value := decValue i

/-- `_restore_typed_primitive(Optional[DatumHash], v)` of the legacy form: `DatumHash.from_primitive`, then `None` -/
def decOptHash : Item → Res (Option Bytes)
  | .simple n => if n = 22 then .ok Option.none else .deser
  | i =>
    match decCBytes 32 32 i with
    | .ok h => .ok (some h)
    | .deser => .deser
    | .crash => .crash

/-- `_TransactionOutputLegacy.from_primitive` (generic array class; a Python `list` only — an indefinite-length array
is an `IndefiniteList`, which `TransactionOutput.from_primitive` sends to the map branch) followed by
`cls(output.address, output.amount, datum_hash=output.datum_hash)` -/
def decOutputLegacy (L : Leaves A D N) : List Item → Res (Output A D N)
  | [] => .crash                                                                  -- TypeError: missing arguments
  | [a] => Res.bind (L.addr.dec a) (fun _ => .crash)
  | a :: m :: rest =>
    Res.bind (L.addr.dec a) fun addr =>
    Res.bind (decAmount m) fun amt =>
    match rest with
    | [] => .ok ⟨addr, amt, Option.none, Option.none, Option.none, false⟩
    | h :: _ => Res.bind (decOptHash h) fun dh => .ok ⟨addr, amt, dh, Option.none, Option.none, false⟩

/-- `_DatumOption.from_primitive`: `values[0] == 0` → `DatumHash(values[1])`; else `values[1]` must be a `CBORTag`
(whatever its number) whose bytes are decoded (`loads`); the datum leaf restores the result — in /repo:
`RawPlutusData.from_primitive` for a tag, the primitive itself otherwise, and `RawCBOR(raw)` whenever that object would
not be written back as the bytes received (318b86a), so on decodable bytes the leaf never fails and always re-encodes to
`raw`.  Every failure of this method itself is an exception other than `DeserializeException` (assertions,
`IndexError`, `CBORDecodeError`). -/
def decDatumOption (L : Leaf D) (i : Item) : Res (Bytes ⊕ D) :=
  match listElems? i with
  | some (t :: x :: _) =>
    if itemInt? t = some 0 then
      (match x with
        | .bytes h => if h.length = 32 then .ok (.inl h) else .crash
        | _ => .crash)
    else
      (match x with
        | .tag _ (.bytes bs) =>
          (match decodeAll bs with
            | some di => (match L.dec di with | .ok d => .ok (.inr d) | .deser => .deser | .crash => .crash)
            | Option.none => .crash)
        | _ => .crash)
  | _ => .crash

/-- `_Script.from_primitive`: `values[0] == 0` → `NativeScript.from_primitive(values[1])`; else both asserted to be an
int and bytes and `PlutusScript.from_version` (`ValueError` outside 1, 2, 3) -/
def decScript (L : Leaf N) (i : Item) : Res (Script N) :=
  match listElems? i with
  | some (t :: x :: _) =>
    if itemInt? t = some 0 then
      (match L.dec x with | .ok n => .ok (.native n) | .deser => .deser | .crash => .crash)
    else
      (match x, itemInt? t with
        | .bytes b, some v => if v = 1 ∨ v = 2 ∨ v = 3 then .ok (.plutus v.toNat b) else .crash
        | _, _ => .crash)
  | _ => .crash

/-- `_ScriptRef.from_primitive`: `assert isinstance(value, CBORTag)`, then `_Script.from_primitive(cbor2.loads(value.value))` -/
def decScriptRef (L : Leaf N) : Item → Res (Script N)
  | .tag _ (.bytes bs) =>
    (match decodeAll bs with
      | some si => decScript L si
      | Option.none => .crash)
  | _ => .crash

/-- the keyword arguments `MapCBORSerializable.from_primitive` collects for `_TransactionOutputPostAlonzo` -/
structure MapAcc (A D N : Type) where
  addr : Option A := Option.none
  amt : Option Value := Option.none
  datum : Option (Bytes ⊕ D) := Option.none
  script : Option (Script N) := Option.none

/-- the loop `for key in values:` of `MapCBORSerializable.from_primitive`, in wire order: an unknown key raises
`DeserializeException`, a known one restores its field -/
def decOutputMapLoop (L : Leaves A D N) (acc : MapAcc A D N) : List (Item × Item) → Res (MapAcc A D N)
  | [] => .ok acc
  | (k, x) :: r =>
    if itemInt? k = some 0 then
      Res.bind (L.addr.dec x) fun a => decOutputMapLoop L { acc with addr := some a } r
    else if itemInt? k = some 1 then
      Res.bind (decAmount x) fun v => decOutputMapLoop L { acc with amt := some v } r
    else if itemInt? k = some 2 then
      Res.bind (decDatumOption L.datum x) fun d => decOutputMapLoop L { acc with datum := some d } r
    else if itemInt? k = some 3 then
      Res.bind (decScriptRef L.native x) fun s => decOutputMapLoop L { acc with script := some s } r
    else .deser

/-- the tail of `TransactionOutput.from_primitive` for the map form: the datum option is split into `datum_hash` /
`datum`, and `post_alonzo=True` (the output was received in the map form) -/
def finishMap (acc : MapAcc A D N) : Res (Output A D N) :=
  match acc.addr, acc.amt with
  | some a, some v =>
    (match acc.datum with
      | some (.inl h) => .ok ⟨a, v, some h, Option.none, acc.script, true⟩
      | some (.inr d) => .ok ⟨a, v, Option.none, some d, acc.script, true⟩
      | Option.none => .ok ⟨a, v, Option.none, Option.none, acc.script, true⟩)
  | _, _ => .crash                                                                -- TypeError: missing arguments

/-- `TransactionOutput.from_primitive` -/
def decOutput (L : Leaves A D N) : Item → Res (Output A D N)
  | .array xs => decOutputLegacy L xs
  | .map kvs => Res.bind (decOutputMapLoop L {} kvs) finishMap
  | _ => .deser                                                                   -- `limit_primitive_type(dict, FrozenDict)`

/-- `TransactionOutput.to_cbor` / `TransactionOutput.from_cbor` -/
def encOutputBytes (L : Leaves A D N) (o : Output A D N) : Bytes := encode (itemOutput L o)

def decOutputBytes (L : Leaves A D N) (b : Bytes) : Res (Output A D N) :=
  match decodeAll b with
  | some i => decOutput L i
  | Option.none => .crash                               -- CBORDecodeError

/-- what decoding an encoded output returns, for EVERY output (constructed or with attributes assigned later): the
amount normalised, an inline datum dropped when a datum hash is also set (the hash wins in `to_primitive`), and the
flag saying in which form the output was written -/
def decodedOutput (o : Output A D N) : Output A D N :=
  let dat := if o.datumHash.isSome then Option.none else o.datum
  ⟨o.address, normValue o.amount, o.datumHash, dat, o.script, mapForm o⟩

/-! ## `TransactionBody`: decode-time normalisation of the set-valued fields

`TransactionBody` is a generic map class (no `from_primitive`, no `__post_init__` in this tree: the constructor stores
what it is given).  Its set-valued fields are annotated `Union[List[T], OrderedSet[T]]` (inputs) or
`Optional[Union[List[T], NonEmptyOrderedSet[T]]]` (certificates, collateral, required signers, reference inputs).
`_restore_typed_primitive` takes the FIRST alternative that does not raise `DeserializeException`: an untagged array is
accepted by `List[T]` and comes back as a plain `list`; a `#6.258` set is refused by `List[T]` (a `CBORTag` is not a
list) and comes back as an `OrderedSet` that remembers its tag.  So an `OrderedSet(..., use_tag=False)` held by a body
is the one field content that decoding does not reproduce: it returns the `list` with the same elements (equal under
`OrderedSet.__eq__`, same bytes).  `normField` is that normalisation, driven by the field's type in the table. -/

def normField (f : FieldDef) (v : Val) : Val :=
  match f.ty, v with
  | .union (.list _ :: _), .oset false xs => .list xs
  | _, v => v

def normFields : List FieldDef → List Val → List Val
  | f :: fs, v :: vs => normField f v :: normFields fs vs
  | _, vs => vs

/-- the normal form of a dataclass value under decode ∘ encode (for `TransactionBody`: the model of what the decoder
constructs from the encoding of the value) -/
def bodyNorm (S : List ClassDef) : Val → Val
  | .obj n fs =>
    (match lookup S n with
      | some cd => .obj n (normFields cd.fields fs)
      | Option.none => .obj n fs)
  | v => v

end Pyc.Custom
