import Pyc.Model.Output

/-! Python-faithful model of the collateral logic of `TransactionBuilder`
(pycardano/txbuilder.py: `_should_add_collateral_return`, `_set_collateral_return`, and the collateral field of
`_build_tx_body`), transliterated statement by statement, quirks included.

* A Python list is a `List`; `list.append` is `++ [x]`; `candidate_inputs.pop()` takes the LAST element of the list
  `sorted(..., key=lambda i: (len(i.output.to_cbor_hex()), -i.output.amount.coin))`; the model walks the reversed
  sorted list from its head (`popOrder`).  `sorted` is stable: `sortCands` is a stable insertion sort.
* `cur_total += candidate.output.amount` is `Value.__iadd__`, which mutates the object it is called on and returns
  it: the caller's `tmp_val` sees every addition.  The model threads the running total through the three stages.
* `min_lovelace_post_alonzo` is pure (repaired tree): `minLovelace` of `Pyc/Model/Output.lean`.
* `address.address_type.name.startswith("SCRIPT")` is read off the header byte of `Address.to_primitive()`
  (types 1, 3, 5, 7 = SCRIPT_KEY, SCRIPT_SCRIPT, SCRIPT_POINTER, SCRIPT_NONE).
* `candidate not in self.collaterals` is Python list membership: `x == candidate` for the elements `x`, i.e. the
  dataclass equality of `UTxO` (`TransactionInput` and `TransactionOutput` field by field, amounts by `Value.__eq__`):
  `Utxo.same`.  Two UTxO *objects* that share a reference but differ in their output are different for this test.
* Exceptions are `Except Err` (all four are `ValueError` in Python). -/

namespace Pyc.Collateral

structure Utxo where
  txid : Bytes
  ix : Nat
  out : Output
  deriving Repr, Inhabited

namespace Utxo
/-- the `TransactionInput` (what the ledger and the body's ordered set identify a UTxO by) -/
def ref (u : Utxo) : Bytes × Nat := (u.txid, u.ix)
/-- `utxo.output.amount` -/
def amount (u : Utxo) : Value := u.out.amount
/-- `TransactionOutput.__eq__` (dataclass equality; the amount by `Value.__eq__`; datum and script objects by the
bytes they serialize to) -/
def sameOut (a b : Output) : Bool :=
  a.addr == b.addr && Value.eq a.amount b.amount && a.datumHash == b.datumHash && a.datum == b.datum &&
    a.script == b.script && a.postAlonzo == b.postAlonzo
/-- `UTxO.__eq__` -/
def same (a b : Utxo) : Bool := a.txid == b.txid && a.ix == b.ix && sameOut a.out b.out
end Utxo

/-- `candidate in self.collaterals` -/
def isIn (c : Utxo) (l : List Utxo) : Bool := l.any (fun x => Utxo.same x c)

/-- `address.address_type.name.startswith("SCRIPT")` from the header byte of the serialized address -/
def scriptLocked (addr : Bytes) : Bool :=
  match addr with
  | [] => false
  | h :: _ =>
    let t := h.toNat / 16
    t == 1 || t == 3 || t == 5 || t == 7

structure Params where
  fee : FeeParams
  /-- `protocol_param.collateral_percent` -/
  percent : Int
  /-- `protocol_param.coins_per_utxo_byte` -/
  cpb : Int
  /-- `protocol_param.max_collateral_inputs` -/
  maxCollateralInputs : Nat
  deriving Repr, Inhabited

/-- what `_set_collateral_return(collateral_return_address)` reads -/
structure State where
  /-- `self.inputs` (after input selection) -/
  inputs : List Utxo
  /-- `self.potential_inputs` -/
  potential : List Utxo
  /-- `self.context.utxos(collateral_return_address)` -/
  addrUtxos : List Utxo
  /-- `self.collaterals` on entry (collateral given explicitly by the caller) -/
  explicit : List Utxo
  /-- a Plutus script in the fake witness set, or any reference script -/
  hasScripts : Bool
  /-- `collateral_change_address or change_address`, as `Address.to_primitive()` bytes -/
  retAddr : Option Bytes
  /-- `self.collateral_return_threshold` -/
  threshold : Int
  /-- `self._ref_script_size()` -/
  refScriptSize : Int
  /-- `self.fee_buffer or 0`: added to every fee estimate, so the fee of the built transaction is at most
  `max_tx_fee + fee_buffer` -/
  feeBuffer : Int := 0
  deriving Repr, Inhabited

inductive Err
  | refScriptSize     -- `max_tx_fee` raised (reference scripts larger than the protocol maximum)
  | tooMany           -- "Number of collateral inputs ... exceeds the protocol limit"
  | insufficient      -- "Minimum collateral amount ... is greater than total provided collateral inputs"
  | returnBelowMin    -- "Minimum lovelace amount for collateral return ... is greater than collateral change"
  deriving Repr, DecidableEq, Inhabited

/-- `self.collaterals`, `self._collateral_return`, `self._total_collateral` afterwards -/
structure Result where
  collaterals : List Utxo
  ret : Option Output
  total : Option Int
  deriving Repr, Inhabited

/-- `_should_add_collateral_return` -/
def shouldAdd (thr : Int) (v : Value) : Bool :=
  decide (v.coin > max thr 1000000) || decide (MultiAsset.count v.ma (fun _ _ q => decide (q > 0)) > 0)

/-- `value - collateral_amount` (`Value.__sub__` with an `int`: `other = Value(other)`) -/
def subInt (v : Value) (n : Int) : Value := Value.sub v ⟨n, []⟩

/-- `TransactionOutput(collateral_return_address, amount)` -/
def retOutput (addr : Bytes) (v : Value) : Output := { addr := addr, amount := v }

/-- the `while` condition without its `and candidate_inputs` conjunct; Python precedence `a or (b and c)`,
`c` the chained comparison `0 <= ret.coin < min_lovelace_post_alonzo(...)` -/
def needMore (cpb amt thr : Int) (addr : Bytes) (total ret : Value) : Bool :=
  decide (total.coin < amt) ||
    (shouldAdd thr ret && (decide (0 ≤ ret.coin) && decide (ret.coin < minLovelace cpb (retOutput addr ret))))

/-- the address / amount part of the filter inside the loop: not at a script address and more than 2 ADA -/
def eligible (c : Utxo) : Bool := !scriptLocked c.out.addr && decide (c.out.amount.coin > 2000000)

/-- `_add_collateral_input(cur_total, candidate_inputs)`: `cands` in pop order; returns the running total (the
shared `tmp_val`) and `self.collaterals`.  Structural recursion on the candidate list: every iteration pops one. -/
def walk (cpb amt thr : Int) (addr : Bytes) : List Utxo → Value → Value → List Utxo → Value × List Utxo
  | [], total, _, chosen => (total, chosen)
  | c :: rest, total, ret, chosen =>
    if needMore cpb amt thr addr total ret then
      if eligible c && !isIn c chosen then
        let total' := Value.add total c.out.amount
        walk cpb amt thr addr rest total' (subInt total' amt) (chosen ++ [c])
      else walk cpb amt thr addr rest total ret chosen
    else (total, chosen)

/-- sort key order: `(len(to_cbor_hex()), -coin)` compared as a tuple -/
def keyLe (a b : Utxo) : Bool :=
  let la := (Output.enc a.out).length
  let lb := (Output.enc b.out).length
  decide (la < lb) || (la == lb && decide (-a.out.amount.coin ≤ -b.out.amount.coin))

/-- insertion keeping `x` in front of the elements it does not exceed (`x` came earlier in the input) -/
def insertSorted (x : Utxo) : List Utxo → List Utxo
  | [] => [x]
  | y :: r => if keyLe x y then x :: y :: r else y :: insertSorted x r

/-- `sorted(l, key=...)`, stable -/
def sortCands (l : List Utxo) : List Utxo := l.foldr insertSorted []

/-- the order in which `pop()` hands out the candidates -/
def popOrder (l : List Utxo) : List Utxo := (sortCands l).reverse

/-- the `if not self.collaterals:` block -/
def selectAuto (cpb amt thr : Int) (addr : Bytes) (st : State) : List Utxo :=
  let zero : Value := ⟨0, []⟩
  let s1 := walk cpb amt thr addr (popOrder st.inputs) zero (subInt zero amt) []
  let s2 := if s1.1.coin < amt then walk cpb amt thr addr (popOrder st.potential) s1.1 (subInt s1.1 amt) s1.2 else s1
  let s3 := if s2.1.coin < amt then walk cpb amt thr addr (popOrder st.addrUtxos) s2.1 (subInt s2.1 amt) s2.2 else s2
  s3.2

/-- `total_input = Value(); for utxo in self.collaterals: total_input += utxo.output.amount` -/
def sumAmounts (l : List Utxo) : Value := l.foldl (fun acc u => Value.add acc u.out.amount) ⟨0, []⟩

/-- the tail of `_set_collateral_return` after the collateral inputs are fixed -/
def finish (cpb amt thr : Int) (maxInputs : Nat) (addr : Bytes) (cols : List Utxo) : Except Err Result :=
  let totalInput := sumAmounts cols
  if cols.length > maxInputs then .error .tooMany
  else if amt > totalInput.coin then .error .insufficient
  else
    let ret := subInt totalInput amt
    if !shouldAdd thr ret then .ok ⟨cols, none, none⟩
    else if minLovelace cpb (retOutput addr ret) > ret.coin then .error .returnBelowMin
    else .ok ⟨cols, some (retOutput addr (subInt totalInput amt)), some amt⟩

/-- `(max_tx_fee(...) * collateral_percent + 99) // 100` (`Int` `/` is floor division for the positive divisor 100):
the ceiling of `max_tx_fee * percent / 100` -/
def collateralAmount (p : Params) (refScriptSize : Int) (feeBuffer : Int := 0) : Option Int :=
  match maxTxFee p.fee refScriptSize with
  | none => none
  | some mf => some (((mf + feeBuffer) * p.percent + 99) / 100)

/-- `_set_collateral_return` -/
def run (p : Params) (st : State) : Except Err Result :=
  if !st.hasScripts then .ok ⟨st.explicit, none, none⟩
  else
    match st.retAddr with
    | none => .ok ⟨st.explicit, none, none⟩
    | some addr =>
      match collateralAmount p st.refScriptSize st.feeBuffer with
      | none => .error .refScriptSize
      | some amt =>
        let cols := if st.explicit.isEmpty then selectAuto p.cpb amt st.threshold addr st else st.explicit
        finish p.cpb amt st.threshold p.maxCollateralInputs addr cols

/-- `NonEmptyOrderedSet([c.input for c in self.collaterals])` in `_build_tx_body`: first occurrences, in order -/
def dedupRef : List Utxo → List (Bytes × Nat) → List Utxo
  | [], _ => []
  | u :: r, seen => if u.ref ∈ seen then dedupRef r seen else u :: dedupRef r (u.ref :: seen)

/-- the collateral inputs the transaction body names (what the ledger sees) -/
def bodyCollateral (cols : List Utxo) : List Utxo := dedupRef cols []

end Pyc.Collateral
