import Pyc.Model.CustomCodec
import Pyc.Model.Ids

/-! Transaction metadata and auxiliary data (`pycardano/metadata.py`): `Metadata` (a `DictCBORSerializable` with
`KEY_TYPE = int`, `VALUE_TYPE = Any` and the constructor check `_validate`), `ShelleyMarryMetadata`
(`[metadata, native_scripts]`), `AlonzoMetadata` (`#6.259({0: metadata, 1: [native], 2: [v1], 3: [v2], 4: [v3]})`, every key
optional) and `AuxiliaryData` (dispatch over the three eras, `hash()`), with the parts of `serialization.py` they run
through: `DictCBORSerializable.to_shallow_primitive` / `.from_primitive`, `CBORSerializable.to_primitive._dfs`,
`ArrayCBORSerializable` / `MapCBORSerializable` `.to_shallow_primitive` / `.from_primitive`, `_restore_typed_primitive` for
`Optional[Metadata]`, `Optional[List[PlutusVnScript]]`, `Optional[AuxiliaryData]`, `list_hook`, and cbor2's view of `Any`
values (`dumps` / the pure-Python `loads`).

Every function transliterates one Python method; the comment names it.  Results are three-valued (`Codec.Res`): `deser` =
`DeserializeException` (a `Union` / `AuxiliaryData.from_primitive` tries its next alternative), `crash` = any other
exception (`TypeCheckError`, `TypeError`, `IndexError`).  Native scripts inside auxiliary data are a leaf with its own codec
(`Custom.Leaf`), Plutus scripts are byte strings.

What the code does and the ledger does not (reported, and stated as theorems in `Props/C01_Metadata.lean` /
`Props/C02_Metadata.lean`):
* `_validate` measures text on its UTF-8 bytes (as the ledger does) but checks VALUES only: the keys of a nested map are
  never looked at (a 65-byte key passes); `bool` is an `int` (a `True` value passes and is written `f5`); integers are
  unbounded (beyond 64 bits cbor2 writes bignum tags, which `transaction_metadatum` does not have); labels may be negative.
* nothing is validated on DECODE (`from_primitive` builds an empty `Metadata` and assigns item by item: `__setitem__`
  checks `int` keys only), nor after `m[k] = v`.
* `ShelleyMarryMetadata.native_scripts` is declared without `"optional": True`: a `None` there is written as `null`
  (`[metadata, null]`, not CDDL) and `null` cannot be decoded (`list_hook` iterates `None`: `TypeError`).  Since 68fc5c3 the
  constructor (`__post_init__`) turns `None` into `[]` (`normShelleyMa`), so no constructed or decoded object holds `None`;
  only an attribute assigned afterwards, or a foreign `[metadata, null]`, meets that path.

Deviations of the model (none reachable from an object the library serializes; the differential run does not generate
them): a label that is a Python `bool` (`True == 1`) is not a label here; duplicate keys of a nested CBOR map are collapsed
by cbor2 (first position, last value) and kept here (duplicate LABELS are collapsed as the code does); semantic tags other
than bignums (dates, decimals, sets …) and floats are carried as the item read, where cbor2 builds a Python object (and
an EMPTY bignum payload, `c2 40`, is the integer 0 here and a decode error in cbor2);
`IndefiniteList` / tuple / `FrozenDict` are not told apart from `list` / `dict` by position (inside a map key cbor2 builds
the immutable kinds; the bytes written are the same). -/

namespace Pyc.Metadata
open Pyc Pyc.Cbor Pyc.Codec Pyc.Custom

/-! ## the values a `Metadata` holds (`VALUE_TYPE = Any`: whatever Python object is put there) -/

/-- a metadatum as Python holds it: `int` (any size), `bool` (an `int` subclass), `bytes`, `str` (its UTF-8 bytes), `list`
(`tuple` inside a key), `dict` (`FrozenDict` inside a key; insertion order) — and `raw`: any other primitive, as the item
it is written as (`None`, a `CBORTag`, an `IndefiniteList`, a simple value) -/
inductive Md where
  | int (i : Int)
  | bool (b : Bool)
  | bytes (b : Bytes)
  | text (b : Bytes)
  | list (xs : List Md)
  | map (kvs : List (Md × Md))
  | raw (i : Item)
  deriving Repr, Inhabited

mutual
-- `CBORSerializable.to_primitive._dfs` followed by `cbor2.dumps`: ints shortest form / bignum tags, `True` / `False` as
-- simple values 21 / 20, lists definite, dicts definite IN INSERTION ORDER (`dumps` is not called with `canonical=True`)
def itemMd : Md → Item
  | .int i => ofInt i
  | .bool b => .simple (if b then 21 else 20)
  | .bytes b => .bytes b
  | .text b => .text b
  | .list xs => .array (itemMdList xs)
  | .map kvs => .map (itemMdPairs kvs)
  | .raw i => i
def itemMdList : List Md → List Item
  | [] => []
  | x :: xs => itemMd x :: itemMdList xs
def itemMdPairs : List (Md × Md) → List (Item × Item)
  | [] => []
  | (k, v) :: r => (itemMd k, itemMd v) :: itemMdPairs r
end

/-- the chunks of an indefinite-length byte string, joined (cbor2 returns one `bytes`) -/
def joinChunks : List Bytes → Bytes
  | [] => []
  | c :: cs => c ++ joinChunks cs

/-- cbor2's tag handling as far as it matters here: tags 2 / 3 over a byte string are integers; any other tag is a
`CBORTag(t, value)`; `nx` is the re-encoding of the decoded content -/
def tagMd (t : Nat) (x nx : Item) : Md :=
  if t = 2 then (match x with | .bytes b => .int (fromBE b 0) | _ => .raw (.tag t nx))
  else if t = 3 then (match x with | .bytes b => .int (-1 - (fromBE b 0 : Int)) | _ => .raw (.tag t nx))
  else .raw (.tag t nx)

def simpleMd (n : Nat) : Md := if n = 20 then .bool false else if n = 21 then .bool true else .raw (.simple n)

mutual
-- what `cbor2.loads` (pure-Python decoder with pycardano's `decode_array` patch) hands over for an `Any` value: an
-- indefinite-length array is an `IndefiniteList` (not a `list`) of the decoded elements, written back `9f … ff`
def mdOfItem : Item → Md
  | .uint n => .int n
  | .nint n => .int (-1 - (n : Int))
  | .bytes b => .bytes b
  | .bytesChunked cs => .bytes (joinChunks cs)
  | .text b => .text b
  | .array xs => .list (mdOfItems xs)
  | .arrayIndef xs => .raw (.arrayIndef (itemMdList (mdOfItems xs)))
  | .map kvs => .map (mdOfPairs kvs)
  | .tag t x => tagMd t x (itemMd (mdOfItem x))
  | .simple n => simpleMd n
def mdOfItems : List Item → List Md
  | [] => []
  | x :: xs => mdOfItem x :: mdOfItems xs
def mdOfPairs : List (Item × Item) → List (Md × Md)
  | [] => []
  | (k, v) :: r => (mdOfItem k, mdOfItem v) :: mdOfPairs r
end

/-! ## `Metadata._validate` (metadata.py:34-65), run by the constructor only -/

def MAX_ITEM_SIZE : Nat := 64

mutual
-- `_validate_type_and_size(data)`: `True` = returns, `False` = raises `InvalidArgumentException`.  `bytes`: `len(data)`;
-- `str`: `len(data.encode("utf-8"))`; `list`: every item; `dict`: `for key in data: _validate_type_and_size(data[key])` —
-- the VALUES, never the keys; anything that is not `(dict, list, int, bytes, str)` is refused (`bool` is an `int`)
def validV : Md → Bool
  | .int _ => true
  | .bool _ => true
  | .bytes b => decide (b.length ≤ MAX_ITEM_SIZE)
  | .text b => decide (b.length ≤ MAX_ITEM_SIZE)
  | .list xs => validL xs
  | .map kvs => validP kvs
  | .raw _ => false
def validL : List Md → Bool
  | [] => true
  | x :: xs => validV x && validL xs
def validP : List (Md × Md) → Bool
  | [] => true
  | (_, v) :: r => validV v && validP r
end

def isLabel : Md → Bool
  | .int _ => true
  | _ => false

/-- `Metadata(d)._validate()` on the dict `d` handed to the constructor (keys of any kind):
`for k in self: if not isinstance(k, int): raise …; _validate_type_and_size(self[k])` -/
def validateArgs : List (Md × Md) → Bool
  | [] => true
  | (k, v) :: r => isLabel k && validV v && validateArgs r

/-- a `Metadata` object: labels and values in insertion order -/
abbrev Metadata := List (Int × Md)

/-- `_validate` on an object whose labels are ints -/
def validate (m : Metadata) : Bool := m.all (fun p => validV p.2)

/-- the constructor: the object, or `none` for `InvalidArgumentException` -/
def mkMetadata : List (Md × Md) → Option Metadata
  | [] => some []
  | (.int l, v) :: r => if validV v then (mkMetadata r).map (fun m => (l, v) :: m) else none
  | _ :: _ => none

/-! ## `Metadata` on the wire -/

/-- `Metadata.to_primitive`: `DictCBORSerializable.to_shallow_primitive` sorts the items by
`(len(dumps(label)), dumps(label))`; the values go through `_dfs` unchanged -/
def itemMetadata (m : Metadata) : Item := .map ((canonSortInt m).map (fun p => (ofInt p.1, itemMd p.2)))

/-- `restored[k] = v` on a dict: an existing label keeps its position and takes the new value -/
def setLabel : Metadata → Int → Md → Metadata
  | [], l, v => [(l, v)]
  | (l', v') :: r, l, v => if l' = l then (l, v) :: r else (l', v') :: setLabel r l v

/-- the loop of `DictCBORSerializable.from_primitive` for `Metadata`: `KEY_TYPE = int` and `VALUE_TYPE = Any` are not
`CBORSerializable`, so key and value are taken as decoded; `restored[k] = v` runs `check_type(k, int)` (`TypeCheckError`)
and `check_type(v, Any)`.  `_validate` is NOT run on the result. -/
def decMetadataLoop (acc : Metadata) : List (Item × Item) → Res Metadata
  | [] => .ok acc
  | (k, v) :: r =>
    match itemInt? k with
    | some l => decMetadataLoop (setLabel acc l (mdOfItem v)) r
    | Option.none => .crash

/-- `Metadata.from_primitive`: `@limit_primitive_type(dict)` -/
def decMetadata : Item → Res Metadata
  | .map kvs => decMetadataLoop [] kvs
  | _ => .deser

/-! ## `ShelleyMarryMetadata` (an `ArrayCBORSerializable`) -/

variable {N : Type}

structure ShelleyMa (N : Type) where
  metadata : Metadata
  native : Option (List N)

/-- `ShelleyMarryMetadata.__post_init__`: `if self.native_scripts is None: self.native_scripts = []`.  Every constructed (and
every decoded: the decoder goes through the constructor) object is of the form `normShelleyMa s`; an attribute assigned after
construction is not normalised. -/
def normShelleyMa (s : ShelleyMa N) : ShelleyMa N := ⟨s.metadata, some (s.native.getD [])⟩

/-- a list of native scripts: each its own `to_primitive` -/
def itemScripts (L : Leaf N) (ns : List N) : Item := .array (ns.map L.enc)

/-- `ArrayCBORSerializable.to_shallow_primitive`: `native_scripts` carries `object_hook` but NOT `"optional": True`, so a
`None` (assigned after construction) is appended and written as `null` -/
def itemShelleyMa (L : Leaf N) (s : ShelleyMa N) : Item :=
  .array [itemMetadata s.metadata, match s.native with | some ns => itemScripts L ns | Option.none => .simple 22]

def decEach (L : Leaf N) : List Item → Res (List N)
  | [] => .ok []
  | x :: xs => Res.bind (L.dec x) fun n => Res.bind (decEach L xs) fun ns => .ok (n :: ns)

def isCont (b : UInt8) : Bool := b.toNat / 64 == 2

def utf8Step (b : UInt8) (st : Bytes × List Bytes) : Bytes × List Bytes :=
  if isCont b then (b :: st.1, st.2) else ([], (b :: st.1) :: st.2)

/-- the characters of a (valid UTF-8) string, each as its bytes -/
def utf8Chars (bs : Bytes) : List Bytes := (bs.foldr utf8Step ([], [])).2

/-- `list_hook(NativeScript)`: `lambda vals: [cls.from_primitive(v) for v in vals]` — whatever Python can iterate is
iterated: a list / `IndefiniteList` gives its elements, a dict its keys, `bytes` its byte values, a `str` its characters;
an `int`, `None`, a `CBORTag`, a simple value raise `TypeError` -/
def decScripts (L : Leaf N) : Item → Res (List N)
  | .array xs => decEach L xs
  | .arrayIndef xs => decEach L xs
  | .map kvs => decEach L (kvs.map (·.1))
  | .bytes b => decEach L (b.map (fun c => Item.uint c.toNat))
  | .bytesChunked cs => decEach L ((joinChunks cs).map (fun c => Item.uint c.toNat))
  | .text s => decEach L ((utf8Chars s).map Item.text)
  | _ => .crash

/-- `ArrayCBORSerializable.from_primitive` for `ShelleyMarryMetadata`: `@limit_primitive_type(list, tuple, IndefiniteList)`;
the items are zipped with the fields and restored in order (`Metadata.from_primitive`, the hook); a missing second item
leaves the default `None`, which `__post_init__` turns into `[]`; a missing first one is a `TypeError` of the constructor,
extra items become `unknown_field`s -/
def decShelleyMa (L : Leaf N) (i : Item) : Res (ShelleyMa N) :=
  match listElems? i with
  | Option.none => .deser
  | some [] => .crash
  | some [m] => Res.bind (decMetadata m) fun md => .ok (normShelleyMa ⟨md, Option.none⟩)
  | some (m :: s :: _) => Res.bind (decMetadata m) fun md => Res.bind (decScripts L s) fun ns => .ok ⟨md, some ns⟩

/-! ## `AlonzoMetadata` (a `MapCBORSerializable` behind tag 259) -/

structure Alonzo (N : Type) where
  metadata : Option Metadata := Option.none
  native : Option (List N) := Option.none
  v1 : Option (List Bytes) := Option.none
  v2 : Option (List Bytes) := Option.none
  v3 : Option (List Bytes) := Option.none

/-- a list of `PlutusVnScript` (a `bytes` subclass): byte strings -/
def itemPlutusList (bs : List Bytes) : Item := .array (bs.map Item.bytes)

def optField (k : Nat) : Option Item → List (Item × Item)
  | some i => [(.uint k, i)]
  | Option.none => []

/-- `MapCBORSerializable.to_shallow_primitive`: the fields in declaration order, an optional `None` skipped -/
def alonzoFields (L : Leaf N) (a : Alonzo N) : List (Item × Item) :=
  optField 0 (a.metadata.map itemMetadata) ++ (optField 1 (a.native.map (itemScripts L)) ++
    (optField 2 (a.v1.map itemPlutusList) ++ (optField 3 (a.v2.map itemPlutusList) ++ optField 4 (a.v3.map itemPlutusList))))

def ALONZO_TAG : Nat := 259

/-- `AlonzoMetadata.to_primitive`: `CBORTag(AlonzoMetadata.TAG, super().to_primitive())` -/
def itemAlonzo (L : Leaf N) (a : Alonzo N) : Item := .tag ALONZO_TAG (.map (alonzoFields L a))

def isNullItem : Item → Bool
  | .simple n => n == 22
  | _ => false

/-- `_restore_typed_primitive(Optional[Metadata], v)`: `Metadata.from_primitive`, then `None` for `null` -/
def decOptMetadata (i : Item) : Res (Option Metadata) :=
  match decMetadata i with
  | .ok m => .ok (some m)
  | .crash => .crash
  | .deser => if isNullItem i then .ok Option.none else .deser

/-- the `PlutusV1Script` / `V2` / `V3` branch of `_restore_typed_primitive`: `bytes` or `DeserializeException` -/
def decPlutusEach : List Item → Res (List Bytes)
  | [] => .ok []
  | .bytes b :: xs => Res.bind (decPlutusEach xs) fun bs => .ok (b :: bs)
  | .bytesChunked cs :: xs => Res.bind (decPlutusEach xs) fun bs => .ok (joinChunks cs :: bs)
  | _ :: _ => .deser

/-- `_restore_typed_primitive(Optional[List[PlutusV1Script]], v)`: a list / `IndefiniteList` of byte strings (returned as
a plain list), then `None` for `null`; everything else is a `DeserializeException` -/
def decOptPlutus (i : Item) : Res (Option (List Bytes)) :=
  match listElems? i with
  | some xs => Res.bind (decPlutusEach xs) fun bs => .ok (some bs)
  | Option.none => if isNullItem i then .ok Option.none else .deser

/-- the loop `for key in values:` of `MapCBORSerializable.from_primitive`, in wire order: a key that is none of 0 … 4
raises `DeserializeException`, a known one restores its field (key 1 through the hook) -/
def decAlonzoLoop (L : Leaf N) (acc : Alonzo N) : List (Item × Item) → Res (Alonzo N)
  | [] => .ok acc
  | (k, x) :: r =>
    if itemInt? k = some 0 then
      Res.bind (decOptMetadata x) fun m => decAlonzoLoop L { acc with metadata := m } r
    else if itemInt? k = some 1 then
      Res.bind (decScripts L x) fun ns => decAlonzoLoop L { acc with native := some ns } r
    else if itemInt? k = some 2 then
      Res.bind (decOptPlutus x) fun s => decAlonzoLoop L { acc with v1 := s } r
    else if itemInt? k = some 3 then
      Res.bind (decOptPlutus x) fun s => decAlonzoLoop L { acc with v2 := s } r
    else if itemInt? k = some 4 then
      Res.bind (decOptPlutus x) fun s => decAlonzoLoop L { acc with v3 := s } r
    else .deser

/-- `AlonzoMetadata.from_primitive`: `@limit_primitive_type(CBORTag)`, the tag number, then
`MapCBORSerializable.from_primitive` (`@limit_primitive_type(dict, FrozenDict)`); every field has a default -/
def decAlonzo (L : Leaf N) : Item → Res (Alonzo N)
  | .tag t x =>
    if t = ALONZO_TAG then
      (match x with
        | .map kvs => decAlonzoLoop L {} kvs
        | _ => .deser)
    else .deser
  | _ => .deser

/-! ## `AuxiliaryData` -/

inductive Aux (N : Type) where
  | shelley (m : Metadata)
  | shelleyMa (s : ShelleyMa N)
  | alonzo (a : Alonzo N)

/-- what the constructors make of their arguments (only `ShelleyMarryMetadata` has a `__post_init__`) -/
def normAux : Aux N → Aux N
  | .shelley m => .shelley m
  | .shelleyMa s => .shelleyMa (normShelleyMa s)
  | .alonzo a => .alonzo a

/-- the object is one a constructor (or the decoder) can have produced -/
def constructedB : Aux N → Bool
  | .shelleyMa s => s.native.isSome
  | _ => true

/-- `AuxiliaryData.to_primitive`: `self.data.to_primitive()` -/
def itemAux (L : Leaf N) : Aux N → Item
  | .shelley m => itemMetadata m
  | .shelleyMa s => itemShelleyMa L s
  | .alonzo a => itemAlonzo L a

/-- `AuxiliaryData.from_primitive`: `for t in [AlonzoMetadata, ShelleyMarryMetadata, Metadata]`, the first that does not
raise `DeserializeException`; any other exception leaves the loop -/
def decAux (L : Leaf N) (i : Item) : Res (Aux N) :=
  match decAlonzo L i with
  | .ok a => .ok (.alonzo a)
  | .crash => .crash
  | .deser =>
    match decShelleyMa L i with
    | .ok s => .ok (.shelleyMa s)
    | .crash => .crash
    | .deser =>
      match decMetadata i with
      | .ok m => .ok (.shelley m)
      | .crash => .crash
      | .deser => .deser

/-- `AuxiliaryData.to_cbor` / `AuxiliaryData.from_cbor` -/
def encAux (L : Leaf N) (a : Aux N) : Bytes := encode (itemAux L a)

def decAuxBytes (L : Leaf N) (b : Bytes) : Res (Aux N) :=
  match decodeAll b with
  | some i => decAux L i
  | Option.none => .crash                               -- CBORDecodeError

def encMetadata (m : Metadata) : Bytes := encode (itemMetadata m)

def decMetadataBytes (b : Bytes) : Res Metadata :=
  match decodeAll b with
  | some i => decMetadata i
  | Option.none => .crash

/-- the last item of `Transaction.to_primitive` (`auxiliary_data: Optional[AuxiliaryData]`, a required positional field) -/
def itemOptAux (L : Leaf N) : Option (Aux N) → Item
  | some a => itemAux L a
  | Option.none => .simple 22

/-- `_restore_typed_primitive(Optional[AuxiliaryData], v)` -/
def decOptAux (L : Leaf N) (i : Item) : Res (Option (Aux N)) :=
  match decAux L i with
  | .ok a => .ok (some a)
  | .crash => .crash
  | .deser => if isNullItem i then .ok Option.none else .deser

/-- what decoding an encoded object returns: every label map in wire order, i.e. canonical order -/
def canonAux : Aux N → Aux N
  | .shelley m => .shelley (canonSortInt m)
  | .shelleyMa s => .shelleyMa ⟨canonSortInt s.metadata, s.native⟩
  | .alonzo a => .alonzo { a with metadata := a.metadata.map canonSortInt }

/-! ## `AuxiliaryData.hash` (metadata.py:138-141) -/

/-- `blake2b(self.to_cbor(), AUXILIARY_DATA_HASH_SIZE)` as (digest length, preimage) -/
def auxHashId (L : Leaf N) (a : Aux N) : Ids.Id := Ids.auxId (itemAux L a)

def auxHash (H : Nat → Bytes → Bytes) (L : Leaf N) (a : Aux N) : Bytes := (auxHashId L a).digest H

/-! ## executable side conditions of the theorems (run by the driver on the harness's values) -/

mutual
-- no `raw` leaf anywhere, keys included: everything `_validate` lets through is of this shape in its values
def plainV : Md → Bool
  | .int _ => true
  | .bool _ => true
  | .bytes _ => true
  | .text _ => true
  | .list xs => plainL xs
  | .map kvs => plainP kvs
  | .raw _ => false
def plainL : List Md → Bool
  | [] => true
  | x :: xs => plainV x && plainL xs
def plainP : List (Md × Md) → Bool
  | [] => true
  | (k, v) :: r => plainV k && plainV v && plainP r
end

def plainM (m : Metadata) : Bool := m.all (fun p => plainV p.2)

/-- a Python dict has each label once -/
def distinctLabels : Metadata → Bool
  | [] => true
  | p :: r => !(r.any (fun q => q.1 == p.1)) && distinctLabels r

mutual
-- a value of the CDDL rule `transaction_metadatum`: 64-bit integers, no booleans, strings of at most 64 bytes in
-- EVERY position (map keys included)
def specOkV : Md → Bool
  | .int i => decide (-(18446744073709551616 : Int) ≤ i) && decide (i < 18446744073709551616)
  | .bool _ => false
  | .bytes b => decide (b.length ≤ 64)
  | .text b => decide (b.length ≤ 64)
  | .list xs => specOkL xs
  | .map kvs => specOkP kvs
  | .raw _ => false
def specOkL : List Md → Bool
  | [] => true
  | x :: xs => specOkV x && specOkL xs
def specOkP : List (Md × Md) → Bool
  | [] => true
  | (k, v) :: r => specOkV k && specOkV v && specOkP r
end

mutual
-- what `_validate` leaves unchecked: integers within 64 bits, no booleans, and every map KEY a `transaction_metadatum`
def extraV : Md → Bool
  | .int i => decide (-(18446744073709551616 : Int) ≤ i) && decide (i < 18446744073709551616)
  | .bool _ => false
  | .bytes _ => true
  | .text _ => true
  | .list xs => extraL xs
  | .map kvs => extraP kvs
  | .raw _ => true
def extraL : List Md → Bool
  | [] => true
  | x :: xs => extraV x && extraL xs
def extraP : List (Md × Md) → Bool
  | [] => true
  | (k, v) :: r => specOkV k && extraV v && extraP r
end

/-- a label map of the CDDL rule `metadata`: labels are `uint` -/
def specOkM (m : Metadata) : Bool :=
  m.all (fun p => decide (0 ≤ p.1) && decide (p.1 < 18446744073709551616) && specOkV p.2)

/-- the hypotheses of the round-trip theorem, executable: distinct labels, no `raw` leaves -/
def okM (m : Metadata) : Bool := distinctLabels m && plainM m

def auxOkB : Aux N → Bool
  | .shelley m => okM m
  | .shelleyMa s => okM s.metadata
  | .alonzo a => (match a.metadata with | some m => okM m | Option.none => true)

def auxSpecOkB : Aux N → Bool
  | .shelley m => specOkM m
  | .shelleyMa s => specOkM s.metadata && s.native.isSome
  | .alonzo a => (match a.metadata with | some m => specOkM m | Option.none => true)

end Pyc.Metadata
