import Pyc.Model.Basic

/-! # Executable model of pycardano/crypto/bip32.py (HDWallet) and of the extended signing of key.py

Byte-level transliteration of what the Python code *does*.  Cryptographic primitives (HMAC-SHA512, PBKDF2,
SHA-512, the edwards25519 group and its point encoding) are **fields of the structure `Prims`**: the model is
parametric in them, nothing about them is assumed here.  The libsodium *wrappers* that bip32.py calls
(`crypto_scalarmult_ed25519_base_noclamp`, `crypto_core_ed25519_add`, `crypto_core_ed25519_scalar_*`) are modelled
on top of the abstract group with their documented side conditions (bit 255 of the scalar is cleared, the all-zero
scalar and the identity result are errors). -/

namespace Pyc.Bip32

/-- primitives the model is parametric in; `P` is the type of curve points -/
structure Prims (P : Type) where
  /-- `hmac.new(key, msg, sha512).digest()` : key → message → 64 bytes -/
  hmac512 : Bytes → Bytes → Bytes
  /-- `hashlib.pbkdf2_hmac("sha512", password, salt, 4096, 96)` : password → salt → 96 bytes -/
  pbkdf2 : Bytes → Bytes → Bytes
  /-- `hashlib.sha512(m).digest()` -/
  sha512 : Bytes → Bytes
  /-- `n ↦ n·B` -/
  smulBase : Nat → P
  /-- `n, Q ↦ n·Q` (used by signature verification only) -/
  smul : Nat → P → P
  pointAdd : P → P → P
  encodePoint : P → Bytes
  decodePoint : Bytes → Option P
  /-- order `L` of the base point (used by `crypto_core_ed25519_scalar_*`) -/
  order : Nat

variable {P : Type}

/-! ## libsodium wrappers -/

def isZeroBytes (b : Bytes) : Bool := b.all (· == 0)

/-- libsodium `_crypto_scalarmult_ed25519_is_inf`: the encoding of the neutral element, sign bit ignored -/
def isInfEnc (q : Bytes) : Bool :=
  q.take 31 == (1 : UInt8) :: List.replicate 30 0 && ((q.getD 31 0) &&& 0x7f) == 0

/-- `nacl.bindings.crypto_scalarmult_ed25519_base_noclamp(n)`: 32-byte scalar, bit 255 is cleared ("noclamp" only
skips the other clamping), error (`none`) if the scalar is all-zero or the result is the neutral element -/
def scalarmultBaseNoclamp (pr : Prims P) (n : Bytes) : Option Bytes :=
  if n.length ≠ 32 then none
  else
    let q := pr.encodePoint (pr.smulBase (fromLE n % 2 ^ 255))
    if isZeroBytes n || isInfEnc q then none else some q

/-- `nacl.bindings.crypto_core_ed25519_add(p, q)`: error if one of the arguments is not a valid point -/
def ed25519Add (pr : Prims P) (p q : Bytes) : Option Bytes :=
  match pr.decodePoint p, pr.decodePoint q with
  | some a, some b => some (pr.encodePoint (pr.pointAdd a b))
  | _, _ => none

/-- `crypto_core_ed25519_scalar_reduce` (64 bytes → 32 bytes, mod L) -/
def scalarReduce (pr : Prims P) (h : Bytes) : Bytes := leBytes 32 (fromLE h % pr.order)
/-- `crypto_core_ed25519_scalar_mul` -/
def scalarMul (pr : Prims P) (x y : Bytes) : Bytes := leBytes 32 (fromLE x * fromLE y % pr.order)
/-- `crypto_core_ed25519_scalar_add` -/
def scalarAdd (pr : Prims P) (x y : Bytes) : Bytes := leBytes 32 ((fromLE x + fromLE y) % pr.order)

/-! ## master key (bip32.py 112-235) -/

/-- `int.to_bytes(k, "little")` : `OverflowError` (= `none`) if the value does not fit -/
def toBytesLE (k n : Nat) : Option Bytes := if n < 256 ^ k then some (leBytes k n) else none

/-- `HDWallet._tweak_bits`: `seed[0] &= 0b11111000; seed[31] &= 0b00011111; seed[31] |= 0b01000000`
(`IndexError` = `none` on seeds shorter than 32 bytes) -/
def tweakBits (seed : Bytes) : Option Bytes :=
  if seed.length < 32 then none
  else
    let s1 := seed.set 0 (seed.getD 0 0 &&& 0xF8)
    let s2 := s1.set 31 (s1.getD 31 0 &&& 0x1F)
    some (s2.set 31 (s2.getD 31 0 ||| 0x40))

/-- the state of an `HDWallet` that the property is about: `_xprivate_key`, `_public_key`, `_chain_code` -/
structure Node where
  xprv : Bytes
  pub : Bytes
  cc : Bytes
deriving DecidableEq, Repr

/-- `HDWallet.from_seed` (seed already decoded from hex) -/
def fromSeed (pr : Prims P) (seed : Bytes) : Option Node :=
  match tweakBits seed with
  | none => none
  | some s =>
    let kL := s.take 32
    let c := s.drop 64
    match scalarmultBaseNoclamp pr kL with
    | none => none
    | some A => some ⟨s.take 64, A, c⟩

/-- `HDWallet.is_entropy` on decoded bytes -/
def isEntropyLen (n : Nat) : Bool := n == 16 || n == 20 || n == 24 || n == 28 || n == 32

/-- `HDWallet.from_entropy` / the tail of `from_mnemonic`: `_generate_seed(passphrase, entropy)` then `from_seed`;
`passphrase` is the UTF-8 encoding of the Python string -/
def fromEntropy (pr : Prims P) (entropy passphrase : Bytes) : Option Node :=
  if isEntropyLen entropy.length then fromSeed pr (pr.pbkdf2 passphrase entropy) else none

/-! ## child derivation (bip32.py 293-496) -/

/-- the two HMAC messages of one derivation step: `(message of Z, message of the chain code)` -/
def preimages (w : Node) (i : Nat) : Bytes × Bytes :=
  let iBytes := leBytes 4 i
  if i < 2 ^ 31 then
    ((0x02 : UInt8) :: (w.pub ++ iBytes), (0x03 : UInt8) :: (w.pub ++ iBytes))
  else
    ((0x00 : UInt8) :: ((w.xprv.take 32 ++ w.xprv.drop 32) ++ iBytes),
     (0x01 : UInt8) :: ((w.xprv.take 32 ++ w.xprv.drop 32) ++ iBytes))

/-- `HDWallet._derive_private_child_key_by_index` (index after the hardened offset has been added) -/
def derivePrivChild (pr : Prims P) (w : Node) (index : Int) : Option Node :=
  if 0 ≤ index ∧ index < 2 ^ 32 then          -- assert 0 <= index < 2**32
    let i := index.toNat
    let kLP := w.xprv.take 32
    let kRP := w.xprv.drop 32
    let Z := pr.hmac512 w.cc (preimages w i).1
    let c := (pr.hmac512 w.cc (preimages w i).2).drop 32
    let ZL := Z.take 28
    let ZR := Z.drop 32
    let kLn := fromLE ZL * 8 + fromLE kLP
    let kRn := (fromLE ZR + fromLE kRP) % 2 ^ 256
    match toBytesLE 32 kLn, toBytesLE 32 kRn with
    | some kL, some kR =>
      match scalarmultBaseNoclamp pr kL with
      | some A => some ⟨kL ++ kR, A, c⟩
      | none => none
    | _, _ => none
  else none

/-- `HDWallet._derive_public_child_key_by_index`; the (stale) private key of the parent is carried along as in
the Python object -/
def derivePubChild (pr : Prims P) (w : Node) (index : Int) : Option Node :=
  if 0 ≤ index ∧ index < 2 ^ 32 then
    let i := index.toNat
    if i < 2 ^ 31 then
      let Z := pr.hmac512 w.cc (preimages w i).1
      let c := (pr.hmac512 w.cc (preimages w i).2).drop 32
      let ZLint := fromLE (Z.take 28)
      match toBytesLE 32 (8 * ZLint) with
      | none => none
      | some s =>
        match scalarmultBaseNoclamp pr s with
        | none => none
        | some Q =>
          match ed25519Add pr w.pub Q with
          | none => none
          | some A => some ⟨w.xprv, A, c⟩
    else none                                   -- "Cannot derive hardened index with public key"
  else none

/-- `HDWallet.derive(index, private, hardened)` for an `int` index.  Not modelled: the `isinstance(index, int)`
check (the model's index *is* an integer) and the "Missing root keys" check (the root fields are copied unchanged
into every derived wallet and are non-empty for every wallet built by `from_seed`/`from_entropy`/`from_mnemonic`).
Note that the offset is added *before* the range assertion, so `derive(-1, hardened=True)` is the soft child
`2^31 - 1` and `derive(2^31, hardened=False)` is the hardened child `0'`. -/
def derive (pr : Prims P) (w : Node) (index : Int) (priv hardened : Bool) : Option Node :=
  let index := if hardened then index + 2 ^ 31 else index
  if priv then derivePrivChild pr w index else derivePubChild pr w index

/-! ## path strings (bip32.py 256-291) -/

/-- ASCII whitespace accepted by Python `int()` around the numeral -/
def isSpace (c : Char) : Bool := c == ' ' || c == '\t' || c == '\n' || c == '\r' || c.toNat == 11 || c.toNat == 12

def isDigit (c : Char) : Bool := '0' ≤ c && c ≤ '9'

def rstripSpace : List Char → List Char
  | [] => []
  | c :: cs =>
    match rstripSpace cs with
    | [] => if isSpace c then [] else [c]
    | r => c :: r

/-- decimal digits with single underscores between digits; `st`: 0 = nothing read yet, 1 = after a digit,
2 = after an underscore -/
def pyDigits : Nat → Nat → List Char → Option Nat
  | acc, st, [] => if st = 1 then some acc else none
  | acc, st, c :: cs =>
    if isDigit c then pyDigits (acc * 10 + (c.toNat - 48)) 1 cs
    else if c = '_' ∧ st = 1 then pyDigits acc 2 cs
    else none

/-- Python `int(s)` for ASCII `s` (base 10): surrounding whitespace, one optional sign, digits with `_` grouping -/
def pyInt (s : List Char) : Option Int :=
  match rstripSpace (s.dropWhile isSpace) with
  | [] => none
  | c :: r =>
    if c = '-' then (pyDigits 0 0 r).map fun n => - (n : Int)
    else if c = '+' then (pyDigits 0 0 r).map fun n => (n : Int)
    else (pyDigits 0 0 (c :: r)).map fun n => (n : Int)

/-- `str.split("/")` -/
def splitSlash : List Char → List (List Char)
  | [] => [[]]
  | c :: cs =>
    match splitSlash cs with
    | [] => [[c]]
    | s :: ss => if c = '/' then [] :: s :: ss else (c :: s) :: ss

/-- one component: `index.endswith("'")` → `(int(index[:-1]), True)` else `(int(index), False)` -/
def parseComponent (seg : List Char) : Option (Int × Bool) :=
  if seg.getLast? = some '\'' then (pyInt seg.dropLast).map fun i => (i, true)
  else (pyInt seg).map fun i => (i, false)

/-- the components of a path: `path[:2] == "m/"`, then `path.lstrip("m/").split("/")` -/
def pathSegments (path : List Char) : Option (List (List Char)) :=
  if path.take 2 = ['m', '/'] then some (splitSlash (path.dropWhile fun c => c == 'm' || c == '/'))
  else none

/-- the loop of `derive_from_path`: parse a component, derive, next component (an error stops the loop) -/
def deriveSegments (pr : Prims P) (priv : Bool) : Node → List (List Char) → Option Node
  | w, [] => some w
  | w, seg :: rest =>
    match parseComponent seg with
    | none => none
    | some (i, h) =>
      match derive pr w i priv h with
      | none => none
      | some w' => deriveSegments pr priv w' rest

/-- step-by-step derivation: `w.derive(i₁, private, h₁).derive(i₂, private, h₂)…` -/
def deriveSteps (pr : Prims P) (priv : Bool) : Node → List (Int × Bool) → Option Node
  | w, [] => some w
  | w, (i, h) :: rest =>
    match derive pr w i priv h with
    | none => none
    | some w' => deriveSteps pr priv w' rest

/-- `HDWallet.derive_from_path(path, private)` -/
def deriveFromPath (pr : Prims P) (w : Node) (path : String) (priv : Bool) : Option Node :=
  match pathSegments path.toList with
  | none => none
  | some segs => deriveSegments pr priv w segs

/-- parsed view of a path for the driver: `(int, hardened flag)` per component, `none` if some component
does not parse (the range check on the index is part of `derive`) -/
def parsePath (path : String) : Option (List (Int × Bool)) :=
  match pathSegments path.toList with
  | none => none
  | some segs => segs.mapM parseComponent

/-! ## extended signing (bip32.py 36-56, key.py 193-216) -/

/-- `BIP32ED25519PrivateKey(private_key, chain_code).sign(message)`; the public key is recomputed from `kL`
by the constructor -/
def sign (pr : Prims P) (xprv : Bytes) (msg : Bytes) : Option Bytes :=
  let left := xprv.take 32
  let right := xprv.drop 32
  match scalarmultBaseNoclamp pr left with
  | none => none
  | some A =>
    let r := scalarReduce pr (pr.sha512 (right ++ msg))
    match scalarmultBaseNoclamp pr r with
    | none => none
    | some R =>
      let hram := scalarReduce pr (pr.sha512 (R ++ A ++ msg))
      let S := scalarAdd pr (scalarMul pr hram left) r
      some (R ++ S)

/-- `ExtendedSigningKey.from_hdwallet(w).sign(data)`: payload = xprv ‖ pub ‖ cc, signing uses `payload[:64]` -/
def signWithNode (pr : Prims P) (w : Node) (msg : Bytes) : Option Bytes :=
  sign pr ((w.xprv ++ w.pub ++ w.cc).take 64) msg

/-- RFC 8032 verification equation (cofactorless, as libsodium): `S·B = R + H(R‖A‖M)·A`, `S < L` -/
def verify (pr : Prims P) [DecidableEq P] (pub msg sig : Bytes) : Bool :=
  let Rb := sig.take 32
  let S := fromLE (sig.drop 32)
  match pr.decodePoint Rb, pr.decodePoint pub with
  | some R, some A =>
    let h := fromLE (pr.sha512 (Rb ++ pub ++ msg)) % pr.order
    decide (S < pr.order) && decide (pr.smulBase S = pr.pointAdd R (pr.smul h A))
  | _, _ => false

end Pyc.Bip32
