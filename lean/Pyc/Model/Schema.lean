/-! The type of what the translator (harness/extract_schema.py) generates: pure data describing pycardano's
table-driven codec — per class its codec kind and fields, per field its wire key / position, optional flag and the
resolved type hint. -/

namespace Pyc.Schema

inductive Ty where
  | any | none | int | bool | bytes | text | frac
  | cls (name : String)            -- a CBORSerializable (or enum / bytes-subclass) class, by name
  | named (name : String)          -- a non-codec Python type mentioned in a hint (IndefiniteList, ByteString, …)
  | list (t : Ty)
  | dict (k v : Ty)
  | oset (t : Ty) (nonEmpty : Bool)
  | tuple (ts : List Ty)
  | union (ts : List Ty)           -- alternatives in `__args__` order: order is semantics
  deriving Repr, Inhabited

inductive Key where
  | pos                            -- positional (array classes)
  | int (k : Int)
  | str (k : String)
  deriving Repr, Inhabited, DecidableEq

inductive Kind where
  | array | map | coded (code : Nat)
  | dict (k v : Ty)
  | oset
  | cbytes (min max : Nat)
  | enum (values : List Int)
  | custom
  deriving Repr, Inhabited

/-- the dataclass default of a field (what a missing trailing item / absent key is replaced by) -/
inductive Dflt where
  | noDefault | none | int (i : Int) | bool (b : Bool) | other
  deriving Repr, Inhabited, DecidableEq

structure FieldDef where
  name : String
  key : Key
  optional : Bool
  init : Bool
  hook : Bool
  ty : Ty
  dflt : Dflt := .noDefault
  deriving Repr, Inhabited

structure ClassDef where
  name : String
  kind : Kind
  overrides : List String
  fields : List FieldDef
  deriving Repr, Inhabited

-- structural equality of type terms (no `DecidableEq` for nested inductives)
mutual
def Ty.beq : Ty → Ty → Bool
  | .any, .any | .none, .none | .int, .int | .bool, .bool | .bytes, .bytes | .text, .text | .frac, .frac => true
  | .cls a, .cls b => a == b
  | .named a, .named b => a == b
  | .list a, .list b => Ty.beq a b
  | .dict a b, .dict c d => Ty.beq a c && Ty.beq b d
  | .oset a x, .oset b y => Ty.beq a b && x == y
  | .tuple as, .tuple bs => Ty.beqList as bs
  | .union as, .union bs => Ty.beqList as bs
  | _, _ => false
def Ty.beqList : List Ty → List Ty → Bool
  | [], [] => true
  | a :: as, b :: bs => Ty.beq a b && Ty.beqList as bs
  | _, _ => false
end

def lookup (S : List ClassDef) (n : String) : Option ClassDef := S.find? (fun c => c.name == n)

end Pyc.Schema
