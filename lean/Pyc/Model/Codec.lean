import Pyc.Model.SchemaCheck
import Pyc.Model.Canonical

/-! Generic interpreter of pycardano's table-driven codec over a schema table (serialization.py):
`ArrayCBORSerializable` / `MapCBORSerializable` / `CodedSerializable` / `DictCBORSerializable` / `OrderedSet` /
`ConstrainedBytes` / enums, `to_primitive` (dynamic dispatch on the value) and `_restore_typed_primitive` (the
ladder of type cases, `Union` = first alternative that does not raise `DeserializeException`).  Classes with a
hand-written codec are carried as `opaque` primitives.  Results are three-valued: a `DeserializeException` lets a
union try its next alternative, any other exception aborts the whole decode. -/

namespace Pyc.Codec
open Pyc Pyc.Cbor Pyc.Schema

inductive Val where
  | int (i : Int)
  | bytes (b : Bytes)
  | text (b : Bytes)
  | bool (b : Bool)
  | none
  | frac (n d : Int)
  | list (xs : List Val)
  | dict (kvs : List (Val × Val))          -- a DictCBORSerializable instance (insertion order)
  | oset (tagged : Bool) (xs : List Val)   -- OrderedSet / NonEmptyOrderedSet with its `_use_tag`
  | obj (cls : String) (fs : List Val)     -- dataclass instance: the values of its wire fields, in declaration order
  | cb (b : Bytes)                         -- ConstrainedBytes instance (payload)
  | enum (v : Int)
  | opaque (i : Item)                      -- an instance of a class with its own codec, or an `Any` value: its primitive
  deriving Repr, Inhabited

inductive Res (α : Type) where
  | ok (a : α)
  | deser        -- DeserializeException
  | crash        -- any other exception (AssertionError, TypeError, ValueError, IndexError, KeyError)
  deriving Repr, Inhabited

def keyItem : Key → Item
  | .int k => ofInt k
  | .str s => .text s.toUTF8.toList
  | .pos => .simple 23

/-- `DictCBORSerializable.to_shallow_primitive`: sort by `(len(cbor(key)), cbor(key))` -/
def sortPairs (kvs : List (Item × Item)) : List (Item × Item) :=
  isort (fun a b => lenLexLe (encode a.1) (encode b.1)) kvs

mutual
-- `to_primitive` followed by cbor2's view of the result
def toPrim (S : List ClassDef) : Val → Item
  | .int i => ofInt i
  | .bytes b => .bytes b
  | .text b => .text b
  | .bool b => .simple (if b then 21 else 20)
  | .none => .simple 22
  | .frac n d => .tag 30 (.array [ofInt n, ofInt d])
  | .list xs => .array (toPrimList S xs)
  | .dict kvs => .map (sortPairs (toPrimPairs S kvs))
  | .oset tagged xs => if tagged then .tag 258 (.array (toPrimList S xs)) else .array (toPrimList S xs)
  | .cb b => .bytes b
  | .enum v => ofInt v
  | .opaque i => i
  | .obj cls fs =>
    match lookup S cls with
    | some cd =>
      match cd.kind with
      | .array => .array (arrFields S cd.fields fs)          -- every dataclass field, `init` or not
      | .coded k => .array (.uint k :: arrFields S (wireFields cd) fs)
      | .map => .map (mapFields S cd.fields fs)
      | _ => .simple 23
    | Option.none => .simple 23
def toPrimList (S : List ClassDef) : List Val → List Item
  | [] => []
  | x :: xs => toPrim S x :: toPrimList S xs
def toPrimPairs (S : List ClassDef) : List (Val × Val) → List (Item × Item)
  | [] => []
  | (k, v) :: r => (toPrim S k, toPrim S v) :: toPrimPairs S r
/-- `ArrayCBORSerializable.to_shallow_primitive`: an optional field holding `None` is skipped -/
def arrFields (S : List ClassDef) : List FieldDef → List Val → List Item
  | f :: fs, v :: vs =>
    match f.optional, v with
    | true, .none => arrFields S fs vs
    | _, _ => toPrim S v :: arrFields S fs vs
  | _, _ => []
/-- `MapCBORSerializable.to_shallow_primitive`: declaration order, optional `None` skipped -/
def mapFields (S : List ClassDef) : List FieldDef → List Val → List (Item × Item)
  | f :: fs, v :: vs =>
    match f.optional, v with
    | true, .none => mapFields S fs vs
    | _, _ => (keyItem f.key, toPrim S v) :: mapFields S fs vs
  | _, _ => []
end

def encodeVal (S : List ClassDef) (v : Val) : Bytes := encode (toPrim S v)

/-- value of an integer item (cbor2 returns Python ints for major 0/1 and bignum tags) -/
def itemInt? : Item → Option Int
  | .uint n => some n
  | .nint n => some (-1 - (n : Int))
  | .tag 2 (.bytes b) => some (fromBE b 0)
  | .tag 3 (.bytes b) => some (-1 - (fromBE b 0 : Int))
  | _ => Option.none

def lookupItemKey (k : Item) : List (Item × Item) → Option Item
  | [] => Option.none
  | (k', v) :: rest => if encode k' = encode k then some v else lookupItemKey k rest

/-- elements of a decoded list-like primitive (`list`, `IndefiniteList`) -/
def listElems? : Item → Option (List Item)
  | .array xs => some xs
  | .arrayIndef xs => some xs
  | _ => Option.none

/-- what the constructor fills in for a field that is missing on the wire: its dataclass default
(`TypeError` when there is none) -/
def dfltVal (f : FieldDef) : Option Val :=
  match f.dflt with
  | .noDefault => if f.optional then some .none else Option.none
  | .none => some .none
  | .int i => some (.int i)
  | .bool b => some (.bool b)
  | .other => some (.opaque (.simple 23))

mutual
-- `_restore_typed_primitive(t, v)`
def fromPrim (S : List ClassDef) : Nat → Ty → Item → Res Val
  | 0, _, _ => .crash
  | _+1, .any, i => .ok (.opaque i)
  | _+1, .int, i =>
    match itemInt? i with
    | some n => .ok (.int n)
    | Option.none => (match i with
      | .simple n => if n = 20 then .ok (.bool false) else if n = 21 then .ok (.bool true) else .deser   -- bool is an int
      | _ => .deser)
  | _+1, .bool, .simple n => if n = 20 then .ok (.bool false) else if n = 21 then .ok (.bool true) else .deser
  | _+1, .bool, _ => .deser
  | _+1, .bytes, .bytes b => .ok (.bytes b)
  | _+1, .bytes, _ => .deser
  | _+1, .text, .text b => .ok (.text b)
  | _+1, .text, _ => .deser
  | _+1, .none, .simple n => if n = 22 then .ok .none else .deser
  | _+1, .none, _ => .deser
  | _+1, .frac, .tag t (.array [a, b]) =>
    if t = 30 then (match itemInt? a, itemInt? b with
      | some n, some d => .ok (.frac n d)
      | _, _ => .deser) else .deser
  | _+1, .frac, _ => .deser
  | fuel+1, .list t, i =>
    match listElems? i with
    | some xs => (match fromPrimList S fuel t xs with
      | .ok vs => .ok (.list vs) | .deser => .deser | .crash => .crash)
    | Option.none => .deser
  | fuel+1, .union ts, i => fromUnion S fuel ts i
  | fuel+1, .oset t _, i =>
    -- OrderedSet.from_primitive: tag 258 keeps the tag, a plain list does not; anything else is a ValueError
    match i with
    | .tag tg inner =>
      if tg = 258 then (match listElems? inner with
        | some xs => (match fromPrimList S fuel t xs with
          | .ok vs => .ok (.oset true vs) | .deser => .deser | .crash => .crash)
        | Option.none => .crash) else .crash
    | _ => (match listElems? i with
      | some xs => (match fromPrimList S fuel t xs with
        | .ok vs => .ok (.oset false vs) | .deser => .deser | .crash => .crash)
      | Option.none => .crash)
  | _+1, .dict _ _, i =>                  -- plain `Dict` hints: the decoded dict is passed through (exact for Dict[Any, Any])
    match i with
    | .map _ => .ok (.opaque i)
    | _ => .deser
  | fuel+1, .tuple ts, i =>
    -- fixed-length `Tuple[...]`: a sequence of exactly that many items, restored position by position
    match listElems? i with
    | some xs => if xs.length = ts.length then (match fromTuple S fuel ts xs with
        | .ok vs => .ok (.list vs) | .deser => .deser | .crash => .crash) else .deser
    | Option.none => .deser
  | _+1, .named _, _ => .deser
  | fuel+1, .cls n, i =>
    match lookup S n with
    | Option.none => .crash
    | some cd =>
      -- a class with its own `from_primitive` / `__post_init__` is restored by hand-written code: opaque here
      if cd.overrides.contains "from_primitive" || cd.overrides.contains "__post_init__" then .ok (.opaque i) else
      match cd.kind with
      | .custom => .ok (.opaque i)
      | .oset => .ok (.opaque i)
      | .cbytes mn mx => (match i with
        | .bytes b => if mn ≤ b.length ∧ b.length ≤ mx then .ok (.cb b) else .crash     -- AssertionError
        | .text _ => .crash                                                               -- bytes.fromhex of a non-hex / wrong size
        | _ => .deser)
      | .enum vals => (match itemInt? i with
        | some v => if vals.contains v then .ok (.enum v) else .crash                     -- ValueError: not a valid member
        | Option.none => .deser)
      | .dict kt vt => (match i with
        | .map kvs => (match fromPairs S fuel kt vt kvs with
          | .ok r => .ok (.dict r) | .deser => .deser | .crash => .crash)
        | _ => .deser)
      | .array => (match listElems? i with
        | some xs => (match fromArr S fuel (wireFields cd) xs with
          | .ok vs => .ok (.obj n vs) | .deser => .deser | .crash => .crash)
        | Option.none => .deser)
      | .coded k => (match i with
        | .array (c :: xs) =>
          if encode c = encode (.uint k) then (match fromArr S fuel (wireFields cd) xs with
            | .ok vs => .ok (.obj n vs) | .deser => .deser | .crash => .crash)
          else .deser
        | .array [] => .crash                                                             -- IndexError
        | _ => .deser)
      | .map => (match i with
        | .map kvs =>
          if kvs.all (fun kv => (wireFields cd).any (fun f => encode (keyItem f.key) = encode kv.1)) then
            (match fromMap S fuel (wireFields cd) kvs with
              | .ok vs => .ok (.obj n vs) | .deser => .deser | .crash => .crash)
          else .deser                                                                     -- unexpected map key
        | _ => .deser)
def fromPrimList (S : List ClassDef) : Nat → Ty → List Item → Res (List Val)
  | 0, _, _ => .crash
  | _+1, _, [] => .ok []
  | fuel+1, t, x :: xs =>
    match fromPrim S fuel t x with
    | .ok v => (match fromPrimList S fuel t xs with
      | .ok vs => .ok (v :: vs) | .deser => .deser | .crash => .crash)
    | .deser => .deser | .crash => .crash
def fromTuple (S : List ClassDef) : Nat → List Ty → List Item → Res (List Val)
  | 0, _, _ => .crash
  | _+1, [], _ => .ok []
  | _+1, _ :: _, [] => .ok []
  | fuel+1, t :: ts, x :: xs =>
    match fromPrim S fuel t x with
    | .ok v => (match fromTuple S fuel ts xs with
      | .ok vs => .ok (v :: vs) | .deser => .deser | .crash => .crash)
    | .deser => .deser | .crash => .crash
def fromPairs (S : List ClassDef) : Nat → Ty → Ty → List (Item × Item) → Res (List (Val × Val))
  | 0, _, _, _ => .crash
  | _+1, _, _, [] => .ok []
  | fuel+1, kt, vt, (k, v) :: r =>
    match fromPrim S fuel kt k with
    | .ok kv => (match fromPrim S fuel vt v with
      | .ok vv => (match fromPairs S fuel kt vt r with
        | .ok rs => .ok ((kv, vv) :: rs) | .deser => .deser | .crash => .crash)
      | .deser => .deser | .crash => .crash)
    | .deser => .deser | .crash => .crash
/-- `Union`: the first alternative that does not raise `DeserializeException` -/
def fromUnion (S : List ClassDef) : Nat → List Ty → Item → Res Val
  | 0, _, _ => .crash
  | _+1, [], _ => .deser
  | fuel+1, t :: ts, i =>
    match fromPrim S fuel t i with
    | .ok v => .ok v
    | .deser => fromUnion S fuel ts i
    | .crash => .crash
/-- `ArrayCBORSerializable.from_primitive`: zip the constructor fields with the items; missing trailing items take
the field default (`None` for optional fields, `TypeError` otherwise) -/
def fromArr (S : List ClassDef) : Nat → List FieldDef → List Item → Res (List Val)
  | 0, _, _ => .crash
  | _+1, [], _ => .ok []
  | fuel+1, f :: fs, [] =>
    match dfltVal f with
    | some d => (match fromArr S fuel fs [] with
      | .ok vs => .ok (d :: vs) | .deser => .deser | .crash => .crash)
    | Option.none => .crash
  | fuel+1, f :: fs, x :: xs =>
    -- `object_hook` fields are restored by their hook (hand-written code): opaque here
    match (if f.hook then .ok (.opaque x) else fromPrim S fuel f.ty x) with
    | .ok v => (match fromArr S fuel fs xs with
      | .ok vs => .ok (v :: vs) | .deser => .deser | .crash => .crash)
    | .deser => .deser | .crash => .crash
/-- `MapCBORSerializable.from_primitive`: keyword arguments by wire key; an absent optional field is `None` -/
def fromMap (S : List ClassDef) : Nat → List FieldDef → List (Item × Item) → Res (List Val)
  | 0, _, _ => .crash
  | _+1, [], _ => .ok []
  | fuel+1, f :: fs, kvs =>
    match lookupItemKey (keyItem f.key) kvs with
    | Option.none =>
      match dfltVal f with
      | some d => (match fromMap S fuel fs kvs with
        | .ok vs => .ok (d :: vs) | .deser => .deser | .crash => .crash)
      | Option.none => .crash
    | some x =>
      match (if f.hook then .ok (.opaque x) else fromPrim S fuel f.ty x) with
      | .ok v => (match fromMap S fuel fs kvs with
        | .ok vs => .ok (v :: vs) | .deser => .deser | .crash => .crash)
      | .deser => .deser | .crash => .crash
end

end Pyc.Codec
