import Pyc.Model.Builder
import Pyc.Model.Redeemers

/-! # `TransactionBuilder._build_tx_body` — from the builder's state to the transaction body (txbuilder.py:1074-1122)

`BState` is exactly what the method (and the properties it calls: `script_data_hash`, `_redeemer_list`, `redeemers()`,
`all_scripts`, `fee`, `inputs`, `outputs`) reads of the builder; `Body` is the `TransactionBody` it returns, one field
per CDDL key 0..22; `buildBody` transliterates the constructor call argument by argument.  Conventions:

* a Python `Optional[...]` attribute is an `Option`; a Python list / dict that may be empty although it is not `None`
  is `some []` (the method tells the two apart for `mint`, `certificates`, `withdrawals`: they are passed through);
* `OrderedSet(iterable)` / `NonEmptyOrderedSet(iterable)` (serialization.py:1053-1147) keep the first occurrence of every
  element, in order (`oset`); elements are compared by `(type, str(item))`, which for `TransactionInput` and
  `VerificationKeyHash` is equality of the content;
* `self.reference_inputs` is a Python `set` of `UTxO | TransactionInput`: the state holds it as the list in which the set is
  iterated (an order the language does not specify; the model's statements about it are order-independent);
* hashes are not computed: the body carries the PREIMAGE of `auxiliary_data_hash` (the CBOR of the auxiliary data) and of
  `script_data_hash` (redeemers ‖ datums ‖ language views, as in `Pyc/Model/Redeemers.lean`); the harness applies BLAKE2b-256;
* leaves the method only moves (certificates, proposals, voters and their votes) are carried as the CBOR bytes of the
  object plus what the accounting reads of it (`CertD`, the proposal deposit).

`finalizeState` is the tail of `build()` that fixes body-relevant state before the body is assembled (1327-1342 automatic
validity interval, 1494-1498 sort of the selection, 1500-1506 automatic required signers).  `Ledger` is the balance
equation of the ledger read off a `Body` and a UTxO map (the equation `harness/ref/ledger_ref.py: balance` evaluates). -/

namespace Pyc.BodyAsm
open Pyc Pyc.Cbor Pyc.Builder

/-- `TransactionInput` -/
abbrev Ref := Rd.TxIn

/-- a `UTxO` object as far as the builder's tail reads it -/
structure UTxO where
  ref : Ref                       -- `.input`  (`_build_tx_body`)
  amount : Value                  -- `.output.amount`  (`_calc_change`, `build`)
  /-- `.output.address.payment_part` when it is a `VerificationKeyHash` (`_input_vkey_hashes`) -/
  payKey : Option Bytes := none
  deriving Repr, Inhabited

/-- an element of `self.reference_inputs : Set[Union[UTxO, TransactionInput]]` -/
inductive RefEntry where
  | utxo (r : Ref)                -- a `UTxO`; the body takes `i.input`
  | input (r : Ref)               -- a bare `TransactionInput`
  deriving DecidableEq, Repr, Inhabited

/-- `i.input if isinstance(i, UTxO) else i` -/
def RefEntry.ref : RefEntry → Ref
  | .utxo r => r
  | .input r => r

structure Cert where
  raw : Bytes                     -- `cert.to_cbor()`
  dep : CertD                     -- what `_get_total_key_deposit` distinguishes
  deriving Repr, Inhabited

structure Proposal where
  raw : Bytes                     -- `proposal.to_cbor()`
  deposit : Int                   -- `proposal.deposit`
  deriving Repr, Inhabited

/-- what the property `script_data_hash` reads (txbuilder.py:615-635) -/
structure SdhIn where
  redeemers : List Rd.Rdm := []                     -- `self._redeemer_list`
  datums : List Bytes := []                         -- `cbor2.dumps(d)` for `d in self.datums.values()`
  versions : List Nat := []                         -- `version` of every script of `self.all_scripts` that has one, in order
  useMap : Bool := true                             -- `self.use_redeemer_map`
  costModels : List (Nat × Rd.CostModel) := []      -- `protocol_param.cost_models["PlutusV{l+1}"]` by language id `l`
  dflt : Bytes := []                                -- `cbor2.dumps(COST_MODELS)`
  deriving Repr, Inhabited

structure BState where
  inputs : List UTxO := []                          -- `self.inputs`
  outputs : List Output := []                       -- `self.outputs`
  fee : Int := 0                                    -- `self.fee`
  ttl : Option Int := none
  validityStart : Option Int := none
  mint : Option MultiAsset := none
  auxData : Option Bytes := none                    -- `self.auxiliary_data.to_cbor()` (an `AuxiliaryData` object is always truthy)
  sdh : SdhIn := {}
  requiredSigners : Option (List Bytes) := none
  collaterals : List UTxO := []                     -- `self.collaterals`
  certificates : Option (List Cert) := none
  withdrawals : Option (List (Bytes × Int)) := none -- `Withdrawals` (dict reward account ↦ coin), insertion order
  collateralReturn : Option Output := none          -- `self._collateral_return`
  totalCollateral : Option Int := none              -- `self._total_collateral`
  referenceInputs : List RefEntry := []             -- `self.reference_inputs` in iteration order
  voting : Option (List (Bytes × Bytes)) := none    -- `VotingProcedures` (dict): CBOR of voter ↦ CBOR of its votes
  proposals : Option (List Proposal) := none        -- `self.proposal_procedures`
  treasury : Option Int := none                     -- `self.current_treasury_value`
  donation : Option Int := none                     -- `self.donation`
  deriving Repr, Inhabited

/-- `TransactionBody` (transaction.py:551-654); `none` = the attribute is `None`, the key is not written -/
structure Body where
  inputs : List Ref                                 -- 0   OrderedSet
  outputs : List Output                             -- 1
  fee : Int                                         -- 2
  ttl : Option Int                                  -- 3
  certificates : Option (List Cert)                 -- 4   the builder's list itself
  withdrawals : Option (List (Bytes × Int))         -- 5
  update : Option Unit                              -- 6   never set by the builder
  auxHashPre : Option Bytes                         -- 7   preimage: the body carries BLAKE2b-256 of it
  validityStart : Option Int                        -- 8
  mint : Option MultiAsset                          -- 9   as stored; `to_primitive` writes the normalized copy
  scriptDataPre : Option Bytes                      -- 11  preimage
  collateral : Option (List Ref)                    -- 13  NonEmptyOrderedSet
  requiredSigners : Option (List Bytes)             -- 14  NonEmptyOrderedSet
  networkId : Option Nat                            -- 15  never set by the builder
  collateralReturn : Option Output                  -- 16
  totalCollateral : Option Int                      -- 17
  referenceInputs : Option (List Ref)               -- 18  NonEmptyOrderedSet
  voting : Option (List (Bytes × Bytes))            -- 19
  proposals : Option (List Proposal)                -- 20
  treasury : Option Int                             -- 21
  donation : Option Int                             -- 22
  deriving Repr, Inhabited

/-- `OrderedSet(iterable)`: `extend` → `append` keeps an item only when its key was not seen before -/
def oset {α : Type} [DecidableEq α] (l : List α) : List α := l.foldl Rd.addIfAbsent []

/-- `X(l) if l else None` for a Python list / set / dict `l` -/
def whenNonEmpty {α β : Type} (l : List α) (f : List α → β) : Option β := if l.isEmpty then none else some (f l)

/-- `x if x else None` for an `Optional` container -/
def truthyList {α : Type} : Option (List α) → Option (List α)
  | some l => if l.isEmpty then none else some l
  | none => none

/-- `x if x else None` for an `Optional[int]` -/
def truthyInt : Option Int → Option Int
  | some n => if n = 0 then none else some n
  | none => none

def costFn (l : List (Nat × Rd.CostModel)) : Nat → Rd.CostModel :=
  fun n => match l.find? (fun p => p.1 == n) with
    | some p => p.2
    | none => []

/-- the property `script_data_hash` followed by `utils.script_data_hash` (utils.py:235-268), as a preimage:
`if self.datums or self._redeemer_list: … else: return None`; language `version - 1` for every script of `all_scripts`
that has a version; `if not redeemers: cost_models = {}` / `elif not cost_models: COST_MODELS`; datums only when present -/
def sdhPre (i : SdhIn) : Option Bytes :=
  if i.datums.isEmpty && i.redeemers.isEmpty then none
  else
    let langs := i.versions.map (· - 1)
    let views :=
      if i.redeemers.isEmpty then encRawMap []
      else if (Rd.sortLangs langs).isEmpty then i.dflt
      else Rd.langViews langs (costFn i.costModels)
    some (Rd.encRedeemers i.useMap i.redeemers
      ++ (if i.datums.isEmpty then [] else head 4 i.datums.length ++ i.datums.flatMap id) ++ views)

/-- `_build_tx_body` (txbuilder.py:1074-1122), argument by argument -/
def buildBody (s : BState) : Body :=
  { inputs := oset (s.inputs.map (·.ref))                       -- `OrderedSet([i.input for i in self.inputs])`
    outputs := s.outputs                                        -- `self.outputs`
    fee := s.fee                                                -- `fee=self.fee`
    ttl := s.ttl                                                -- `ttl=self.ttl`
    mint := s.mint                                              -- `mint=self.mint`
    auxHashPre := s.auxData                                     -- `self.auxiliary_data.hash() if self.auxiliary_data else None`
    scriptDataPre := sdhPre s.sdh                               -- `script_data_hash=self.script_data_hash`
    requiredSigners :=                                          -- `NonEmptyOrderedSet(self.required_signers) if self.required_signers else None`
      (truthyList s.requiredSigners).map oset
    validityStart := s.validityStart                            -- `validity_start=self.validity_start`
    collateral :=                                               -- `NonEmptyOrderedSet([c.input for c in self.collaterals]) if self.collaterals else None`
      whenNonEmpty s.collaterals fun l => oset (l.map (·.ref))
    certificates := s.certificates                              -- `certificates=self.certificates`
    withdrawals := s.withdrawals                                -- `withdraws=self.withdrawals`
    collateralReturn := s.collateralReturn                      -- `collateral_return=self._collateral_return`
    totalCollateral := s.totalCollateral                        -- `total_collateral=self._total_collateral`
    referenceInputs :=                                          -- `NonEmptyOrderedSet([i.input if isinstance(i, UTxO) else i for i in self.reference_inputs]) if … else None`
      whenNonEmpty s.referenceInputs fun l => oset (l.map RefEntry.ref)
    voting := truthyList s.voting                               -- `self.voting_procedures if self.voting_procedures else None`
    proposals := truthyList s.proposals                         -- `self.proposal_procedures if self.proposal_procedures else None`
    treasury := truthyInt s.treasury                            -- `self.current_treasury_value if self.current_treasury_value else None`
    donation := truthyInt s.donation                            -- `self.donation if self.donation else None`
    update := none                                              -- not passed: default `None`
    networkId := none }                                         -- not passed: default `None`

/-- the method with the state threaded through: it writes nothing (every property it calls builds new objects) -/
def buildBodyM (s : BState) : Body × BState := (buildBody s, s)

/-! ## what `to_cbor()` writes of a body (`MapCBORSerializable.to_shallow_primitive`: a key is skipped iff the attribute is
`None`; `MultiAsset.to_shallow_primitive` writes a normalized copy) -/

/-- the mint field as written: quantities 0 and policies left empty are dropped -/
def Body.wireMint (b : Body) : Option MultiAsset := b.mint.map MultiAsset.normalize

/-- the CDDL keys present in the serialized body, ascending -/
def Body.keys (b : Body) : List Nat :=
  [0, 1, 2]
    ++ (if b.ttl.isSome then [3] else []) ++ (if b.certificates.isSome then [4] else [])
    ++ (if b.withdrawals.isSome then [5] else []) ++ (if b.update.isSome then [6] else [])
    ++ (if b.auxHashPre.isSome then [7] else []) ++ (if b.validityStart.isSome then [8] else [])
    ++ (if b.mint.isSome then [9] else []) ++ (if b.scriptDataPre.isSome then [11] else [])
    ++ (if b.collateral.isSome then [13] else []) ++ (if b.requiredSigners.isSome then [14] else [])
    ++ (if b.networkId.isSome then [15] else []) ++ (if b.collateralReturn.isSome then [16] else [])
    ++ (if b.totalCollateral.isSome then [17] else []) ++ (if b.referenceInputs.isSome then [18] else [])
    ++ (if b.voting.isSome then [19] else []) ++ (if b.proposals.isSome then [20] else [])
    ++ (if b.treasury.isSome then [21] else []) ++ (if b.donation.isSome then [22] else [])

/-! ## the tail of `build()` that fixes body-relevant state -/

structure BuildOpts where
  isSmart : Bool                  -- `bool(self.all_scripts)` at the start of `build`
  offStart : Option Int           -- `auto_validity_start_offset`
  offTtl : Option Int             -- `auto_ttl_offset`
  slot : Int                      -- `self.context.last_block_slot`
  autoSigners : Option Bool       -- `auto_required_signers`
  deriving Repr, Inhabited

/-- sort key of `selected_utxos.sort(key=lambda utxo: (str(utxo.input.transaction_id), utxo.input.index))` -/
def utxoLe (a b : UTxO) : Bool := Rd.keyLe a.ref b.ref

/-- `list(self._input_vkey_hashes())`: the payment key hashes of `self.inputs + self.collaterals` as a set (here in order of
first occurrence; Python gives no order) -/
def inputVkeyHashes (s : BState) : List Bytes := oset ((s.inputs ++ s.collaterals).filterMap (·.payKey))

/-- `build()`, first part: automatic validity interval (1327-1342) and `selected_utxos.sort(…); self.inputs[:] =
selected_utxos[:]` (1494-1498).  `selected` = the explicit inputs followed by the selection. -/
def withInterval (o : BuildOpts) (selected : List UTxO) (s : BState) : BState :=
  { s with validityStart := (Rd.autoInterval o.isSmart s.validityStart s.ttl o.offStart o.offTtl o.slot).1
           ttl := (Rd.autoInterval o.isSmart s.validityStart s.ttl o.offStart o.offTtl o.slot).2
           inputs := isort utxoLe selected }

/-- `(is_smart and auto_required_signers is not False) and self.required_signers is None` -/
def autoSignersApply (o : BuildOpts) (s : BState) : Bool :=
  (o.isSmart && o.autoSigners != some false) && s.requiredSigners.isNone

/-- … followed by the automatic required signers (1500-1506), computed over the sorted inputs and the collateral given so far -/
def finalizeState (o : BuildOpts) (selected : List UTxO) (s : BState) : BState :=
  if autoSignersApply o (withInterval o selected s) then
    { withInterval o selected s with requiredSigners := some (inputVkeyHashes (withInterval o selected s)) }
  else withInterval o selected s

/-! ## the ledger's balance equation on a body (Conway UTXO rule: `consumed = produced`) -/

namespace Ledger

/-- deposit one certificate pays -/
def certDeposit (P : Params) (poolIsNew : Bool) : CertD → Int
  | .stakeReg _ => P.keyDeposit
  | .explicitDeposit k => k
  | .poolReg _ => if poolIsNew then P.poolDeposit else 0
  | _ => 0

/-- refund one certificate releases -/
def certRefund (P : Params) : CertD → Int
  | .stakeDereg => P.keyDeposit
  | .explicitRefund k => k
  | _ => 0

def posPart (q : Int) : Int := if q > 0 then q else 0
def negPart (q : Int) : Int := if q < 0 then -q else 0

/-- the value the chain holds for an input (an input the chain does not hold contributes nothing here; the ledger
refuses such a transaction outright) -/
def resolve (utxo : Ref → Option Value) (r : Ref) : Value := (utxo r).getD ⟨0, []⟩

/-- quantity of asset `(p, n)` in the mint field as written -/
def mintQty (b : Body) (p n : Bytes) : Int := MultiAsset.qty ((b.wireMint).getD []) p n

/-- consumed lovelace: spent inputs + withdrawals + deposit refunds -/
def consumedCoin (P : Params) (utxo : Ref → Option Value) (b : Body) : Int :=
  (b.inputs.map fun r => (resolve utxo r).coin).sum
    + ((b.withdrawals.getD []).map (·.2)).sum
    + ((b.certificates.getD []).map fun c => certRefund P c.dep).sum

/-- produced lovelace: outputs + fee + deposits (certificates, proposals) + treasury donation -/
def producedCoin (P : Params) (poolIsNew : Bool) (b : Body) : Int :=
  (b.outputs.map fun o => o.amount.coin).sum + b.fee
    + ((b.certificates.getD []).map fun c => certDeposit P poolIsNew c.dep).sum
    + ((b.proposals.getD []).map (·.deposit)).sum
    + b.donation.getD 0

/-- consumed quantity of asset `(p, n)`: spent inputs + minted -/
def consumedAsset (utxo : Ref → Option Value) (b : Body) (p n : Bytes) : Int :=
  (b.inputs.map fun r => MultiAsset.qty (resolve utxo r).ma p n).sum + posPart (mintQty b p n)

/-- produced quantity of asset `(p, n)`: outputs + burned -/
def producedAsset (b : Body) (p n : Bytes) : Int :=
  (b.outputs.map fun o => MultiAsset.qty o.amount.ma p n).sum + negPart (mintQty b p n)

end Ledger

/-! ## the same quantities as the builder's accounting reads them off its state -/

def certsD (s : BState) : List CertD := (s.certificates.getD []).map (·.dep)

/-- `_get_total_key_deposit() + _get_total_proposal_deposit() + (self.donation or 0)`: what `_calc_change` and `build`
subtract from the provided amount -/
def stateDeposits (P : Params) (initialPool : Bool) (s : BState) : Int :=
  totalKeyDeposit P (certsD s) initialPool + ((s.proposals.getD []).map (·.deposit)).sum + s.donation.getD 0

/-- the arguments of the accounting (`_calc_change(self.fee, self.inputs, …)`) as the state determines them; `outputs` and
`respect` are set by `finalArgs` -/
def argsOf (P : Params) (initialPool : Bool) (s : BState) (changeAddr : Bytes) : ChangeArgs :=
  { fee := s.fee
    inputs := s.inputs.map (·.amount)
    outputs := []
    mint := s.mint.getD []
    withdrawals := (s.withdrawals.getD []).map (·.2)
    deposits := stateDeposits P initialPool s
    addr := changeAddr
    respect := true }

end Pyc.BodyAsm
