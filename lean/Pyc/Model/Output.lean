import Pyc.Model.Canonical

/-! `TransactionOutput` serialization (transaction.py:307-467), `min_lovelace_post_alonzo` (utils.py:199-232) and
the fee formulas (utils.py:30-116).  Addresses, inline datums and reference scripts are carried as the bytes the
implementation embeds (`Address.to_primitive()`, `cbor2.dumps(datum)`, `cbor2.dumps(_Script)`). -/

namespace Pyc
open Cbor

structure Output where
  addr : Bytes
  amount : Value
  datumHash : Option Bytes := none
  /-- inline datum as its CBOR bytes (the Boolean, Python truthiness of the datum object, is no longer consulted) -/
  datum : Option (Bytes × Bool) := none
  /-- reference script as the CBOR bytes of `[type, script]` -/
  script : Option Bytes := none
  postAlonzo : Bool := false
  deriving Repr, Inhabited

namespace Output

/-- `_DatumOption(self.datum_hash or self.datum)` when either is present -/
def datumOption (o : Output) : Option Item :=
  match o.datumHash, o.datum with
  | some h, _ => some (.array [.uint 0, .bytes h])
  | none, some (d, _) => some (.array [.uint 1, .tag 24 (.bytes d)])
  | none, none => none

/-- `_TransactionOutputPostAlonzo(...).to_primitive()` -/
def itemMap (o : Output) : Item :=
  .map ([(.uint 0, .bytes o.addr), (.uint 1, itemValue o.amount)]
    ++ (match datumOption o with | some d => [(.uint 2, d)] | none => [])
    ++ (match o.script with | some s => [(.uint 3, .tag 24 (.bytes s))] | none => []))

/-- `_TransactionOutputLegacy(...).to_primitive()` -/
def itemLegacy (o : Output) : Item :=
  .array ([.bytes o.addr, itemValue o.amount] ++ (match o.datumHash with | some h => [.bytes h] | none => []))

/-- `if self.datum is not None or self.script is not None or self.post_alonzo` -/
def usesMap (o : Output) : Bool := o.datum.isSome || o.script.isSome || o.postAlonzo

/-- `TransactionOutput.to_primitive` -/
def item (o : Output) : Item := if usesMap o then itemMap o else itemLegacy o

def enc (o : Output) : Bytes := encode (item o)

/-- `TransactionOutput.validate`'s own test: negative ADA or any negative asset quantity -/
def negative (o : Output) : Bool :=
  decide (o.amount.coin < 0) || decide (MultiAsset.count o.amount.ma (fun _ _ v => decide (v < 0)) > 0)

end Output

/-- `min_lovelace_post_alonzo(output, context)` as a pure function (the amount used has coin 0 replaced by 1 ADA) -/
def minLovelace (coinsPerByte : Int) (o : Output) : Int :=
  let amt : Value := if o.amount.coin = 0 then ⟨1000000, o.amount.ma⟩ else o.amount
  let tmp : Output := { o with amount := amt, postAlonzo := true }
  (160 + ((encode (Output.itemMap tmp)).length : Int)) * coinsPerByte

/-! ## fee formulas over exact rationals `num / den` (den > 0) -/

structure Rat' where
  num : Int
  den : Nat
  deriving Repr, Inhabited

/-- `math.ceil(n * r)` for an integer `n` and a rational `r` -/
def ceilMul (n : Int) (r : Rat') : Int := -((-(n * r.num)) / (r.den : Int))

structure FeeParams where
  a : Rat'            -- min_fee_coefficient
  b : Rat'            -- min_fee_constant
  priceStep : Rat'
  priceMem : Rat'
  maxTxSize : Int
  maxTxExSteps : Int
  maxTxExMem : Int
  /-- `(base, range, multiplier, max size)` when both reference-script parameters are present -/
  refScript : Option (Rat' × Nat × Rat' × Int) := none
  deriving Repr, Inhabited

/-- the `while scripts_size > r` loop of `tiered_reference_script_fee`, exact: returns the total as a rational
with denominator `bden * mden^k`.  `fuel` bounds the number of tiers (size / range + 1 suffices). -/
def tierLoop : Nat → Int → Nat → Rat' → Rat' → Rat' → Rat'
  | 0, _, _, _, _, total => total
  | fuel+1, size, r, b, m, total =>
    -- total = tn/td, b = bn/bd
    if size > (r : Int) then
      let total' : Rat' := ⟨total.num * b.den + b.num * r * total.den, total.den * b.den⟩
      tierLoop fuel (size - r) r ⟨b.num * m.num, b.den * m.den⟩ m total'
    else
      ⟨total.num * b.den + b.num * size * total.den, total.den * b.den⟩

/-- `tiered_reference_script_fee`; `none` = the `ValueError` for an oversized script set -/
def tierFee (p : FeeParams) (size : Int) : Option Int :=
  match p.refScript with
  | none => some 0
  | some (b, r, m, maxSize) =>
    if size > maxSize then none
    else if size = 0 ∨ r = 0 then (if size = 0 then some 0 else none)
    else
      let t := tierLoop (size.toNat / r + 2) size r b m ⟨0, 1⟩
      some (ceilMul 1 t)

/-- `fee(context, length, exec_steps, max_mem_unit, ref_script_size)` -/
def fee (p : FeeParams) (length steps mem ref : Int) : Option Int :=
  match tierFee p ref with
  | none => none
  | some t => some (ceilMul length p.a + ceilMul 1 p.b + ceilMul steps p.priceStep + ceilMul mem p.priceMem + t)

/-- `max_tx_fee(context, ref_script_size)` -/
def maxTxFee (p : FeeParams) (ref : Int) : Option Int := fee p p.maxTxSize p.maxTxExSteps p.maxTxExMem ref

end Pyc

namespace Pyc

/-- what `to_cbor()` of a `TransactionBody` / `Transaction` does about negative quantities (after the generic field
validation reaches nested outputs): it refuses iff some output — in `outputs` or the collateral return — is negative -/
def bodyRefuses (outs : List Output) (collateralReturn : Option Output) : Bool :=
  outs.any Output.negative || (match collateralReturn with | some o => Output.negative o | none => false)

end Pyc
