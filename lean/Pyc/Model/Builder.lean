import Pyc.Model.Output

/-! Accounting core of `TransactionBuilder` (txbuilder.py): deposit totals (`_get_total_key_deposit`,
`_get_total_proposal_deposit`), `_calc_change`, `_pack_tokens_for_change`, `_adding_asset_make_output_overflow`,
`_merge_changes` / the final output list of `_add_change_and_fee`.  The fee is an input of these functions: the
accounting does not depend on how it was estimated. -/

namespace Pyc.Builder

structure Params where
  cpb : Int
  maxValSize : Nat
  keyDeposit : Int
  poolDeposit : Int
  deriving Repr, Inhabited

/-- what the deposit logic distinguishes about a certificate -/
inductive CertD where
  | stakeReg (cred : Bytes)          -- StakeRegistration: protocol key deposit, once per credential
  | stakeDereg                       -- StakeDeregistration: refund of the protocol key deposit
  | explicitDeposit (coin : Int)     -- RegDRepCert, StakeRegistrationConway, StakeRegistrationAnd…: the certificate's coin
  | explicitRefund (coin : Int)      -- StakeDeregistrationConway, UnregDRepCertificate: refund of the certificate's coin
  | poolReg (operator : Bytes)       -- PoolRegistration (counts when `initial_stake_pool_registration`)
  | other
  deriving Repr, Inhabited

def dedup : List Bytes → List Bytes
  | [] => []
  | x :: xs => if xs.contains x then dedup xs else x :: dedup xs

def regCreds (certs : List CertD) : List Bytes := certs.filterMap (fun c => match c with | .stakeReg c => some c | _ => none)
def poolOps (certs : List CertD) : List Bytes := certs.filterMap (fun c => match c with | .poolReg o => some o | _ => none)
def explicitOf : CertD → Int
  | .explicitDeposit k => k
  | _ => 0
def refundOf (p : Params) : CertD → Int
  | .explicitRefund k => k
  | .stakeDereg => p.keyDeposit
  | _ => 0

/-- `_get_total_key_deposit` -/
def totalKeyDeposit (p : Params) (certs : List CertD) (initialPool : Bool) : Int :=
  p.keyDeposit * (dedup (regCreds certs)).length + (certs.map explicitOf).sum
    + p.poolDeposit * (if initialPool then ((dedup (poolOps certs)).length : Int) else 0) - (certs.map (refundOf p)).sum

def posFilter (m : MultiAsset) : MultiAsset := MultiAsset.filter m (fun _ _ v => decide (v > 0))

def minAda (p : Params) (addr : Bytes) (v : Value) : Int := minLovelace p.cpb { addr := addr, amount := v }

/-- `_adding_asset_make_output_overflow`: the attempted value is measured with the larger of its minimum ADA and the coin of
the output under construction (`attempt_amount.coin = max(required_lovelace, current_amount.coin)`, repair 8c81354) -/
def overflow (p : Params) (addr : Bytes) (out : Value) (cur : Asset) (pol name : Bytes) (q : Int) : Bool :=
  let attemptAssets := Asset.add cur [(name, q)]
  let attempt := Value.add ⟨0, [(pol, attemptAssets)]⟩ out
  let attempt' : Value := ⟨max (minAda p addr attempt) out.coin, attempt.ma⟩
  decide ((encValue attempt').length > p.maxValSize)

structure PackState where
  arr : List MultiAsset
  out : Value
  temp : Asset
  old : Value
  deriving Inhabited

/-- flush of the buffered assets of policy `pol` into the current output (`temp_multi_asset += …; output.amount += temp_value`) -/
def flush (out : Value) (pol : Bytes) (temp : Asset) : Value :=
  Value.add out ⟨0, MultiAsset.add [] [(pol, temp)]⟩

/-- body of the inner `for asset_name, asset_value in assets.items()` loop; `c0` is `change_estimator.coin`: the output
opened after a chunk is closed holds the whole change coin, like the first one (`base_coin = Value(coin=change_estimator.coin)`) -/
def packAsset (p : Params) (addr : Bytes) (c0 : Int) (pol : Bytes) (s : PackState) (a : Bytes × Int) : PackState :=
  let s' : PackState :=
    if overflow p addr s.out s.temp pol a.1 a.2 then
      let out' := if s.temp.isEmpty then s.out else flush s.out pol s.temp
      { arr := s.arr ++ [out'.ma], out := ⟨c0, []⟩, temp := [], old := ⟨c0, []⟩ }
    else s
  { s' with temp := Asset.add s'.temp [a] }

/-- the outer `for policy_id, assets in …` loop; the Boolean is `true` when the `break` was taken -/
def packPolicies (p : Params) (addr : Bytes) (c0 : Int) : List (Bytes × Asset) → PackState → PackState × Bool
  | [], s => (s, false)
  | (pol, assets) :: rest, s =>
    let s0 : PackState := { s with temp := [], old := s.out }
    let s1 := assets.foldl (packAsset p addr c0 pol) s0
    let out2 := flush s1.out pol s1.temp
    let upd : Value := ⟨max (minAda p addr out2) out2.coin, out2.ma⟩
    if (encValue upd).length > p.maxValSize then
      ({ s1 with out := s1.old, temp := [] }, true)
    else packPolicies p addr c0 rest { s1 with out := out2, temp := [] }

/-- `_pack_tokens_for_change(change_address, change_estimator, max_val_size)` -/
def packTokens (p : Params) (addr : Bytes) (change : Value) : List MultiAsset × Bool :=
  let r := packPolicies p addr change.coin change.ma
    { arr := [], out := ⟨change.coin, []⟩, temp := [], old := ⟨change.coin, []⟩ }
  (r.1.arr ++ [r.1.out.ma], r.2)

inductive Err where
  | invalidTx        -- inputs cannot cover outputs and fee
  | insufficient     -- not enough ADA left for change
  deriving Repr, DecidableEq, Inhabited

/-- the `for i, multi_asset in enumerate(multi_asset_arr)` loop of `_calc_change` -/
def changeLoop (p : Params) (addr : Bytes) (respect : Bool) : List MultiAsset → Value → Except Err (List Output)
  | [], _ => .ok []
  | m :: rest, change =>
    if respect && decide (change.coin < minAda p addr ⟨0, m⟩) then .error .insufficient
    else
      let cv : Value := if rest.isEmpty then ⟨change.coin, m⟩ else ⟨minAda p addr ⟨0, m⟩, m⟩
      let change' := Value.sub change cv
      let change'' : Value := ⟨change'.coin, posFilter change'.ma⟩
      match changeLoop p addr respect rest change'' with
      | .error e => .error e
      | .ok outs => .ok ({ addr := addr, amount := cv } :: outs)

structure ChangeArgs where
  fee : Int
  inputs : List Value
  outputs : List Value
  mint : MultiAsset            -- `self.mint or {}` (an empty / None mint is falsy: nothing added)
  withdrawals : List Int
  deposits : Int               -- key deposits + proposal deposits + donation, refunds subtracted
  addr : Bytes
  respect : Bool
  deriving Inhabited

def sumValues (vs : List Value) (init : Value) : Value := vs.foldl Value.add init

/-- `provided` of `_calc_change` -/
def provided (a : ChangeArgs) : Value :=
  let pv := sumValues a.inputs ⟨0, []⟩
  let pv : Value := if a.mint.isEmpty then pv else ⟨pv.coin, MultiAsset.add pv.ma a.mint⟩
  ⟨pv.coin + a.withdrawals.sum - a.deposits, pv.ma⟩

/-- `requested` of `_calc_change` -/
def requested (a : ChangeArgs) : Value := sumValues a.outputs ⟨a.fee, []⟩

/-- `_calc_change` -/
def calcChange (p : Params) (a : ChangeArgs) : Except Err (List Output) :=
  let req := requested a
  let prov := provided a
  if !(Value.lt req prov) then .error .invalidTx
  else
    let ch := Value.sub prov req
    let ch : Value := if ch.ma.isEmpty then ch else ⟨ch.coin, posFilter ch.ma⟩
    if ch.ma.isEmpty then
      if a.respect && decide (ch.coin < minAda p a.addr ch) then .error .insufficient
      else .ok [{ addr := a.addr, amount := ⟨ch.coin, []⟩ }]
    else
      changeLoop p a.addr a.respect (packTokens p a.addr ch).1 ch

/-- index selected by the `merge_change` scan of `_add_change_and_fee` -/
def changeIndex (addr : Bytes) (outs : List Output) : Option Nat :=
  let rec go (i : Nat) (cur : Option Nat) : List Output → Option Nat
    | [] => cur
    | o :: r =>
      if o.addr = addr && (cur.isNone || o.amount.coin == 0) then go (i + 1) (some i) r else go (i + 1) cur r
  go 0 none outs

/-- `self._outputs[i].amount = change.amount + self._outputs[i].amount` -/
def addAt (c : Value) : Nat → List Output → List Output
  | _, [] => []
  | 0, o :: r => { o with amount := Value.add c o.amount } :: r
  | i+1, o :: r => o :: addAt c i r

/-- `_merge_changes` -/
def mergeChanges (outs : List Output) (idx : Option Nat) (changes : List Output) : List Output :=
  match idx, changes with
  | some i, [c] => addAt c.amount i outs
  | _, _ => outs ++ changes

/-- the merge target of `_add_change_and_fee`: only looked for when `merge_change` is set -/
def mergeIndex (outs : List Output) (a : ChangeArgs) (mergeChange : Bool) : Option Nat :=
  if mergeChange then changeIndex a.addr outs else none

/-- arguments of the final `_calc_change`: the minimum ADA of the change is enforced unless there is an output to
merge the change into (`respect_min_utxo = change_output_index is None`) -/
def finalArgs (outs : List Output) (a : ChangeArgs) (mergeChange : Bool) : ChangeArgs :=
  { a with outputs := outs.map (·.amount), respect := (mergeIndex outs a mergeChange).isNone }

def withRespect (a : ChangeArgs) (r : Bool) : ChangeArgs := { a with respect := r }

/-- `_calc_changes()` of `_add_change_and_fee`: the change is computed without the minimum-ADA requirement when there is
an output to merge it into; if it then comes out split over several outputs nothing is merged, and it is computed
again with the requirement (those outputs are new outputs of their own) -/
def finalChanges (p : Params) (outs : List Output) (a : ChangeArgs) (mergeChange : Bool) : Except Err (List Output) :=
  match calcChange p (finalArgs outs a mergeChange) with
  | .error e => .error e
  | .ok cs =>
    if (mergeIndex outs a mergeChange).isSome && cs.length != 1 then
      calcChange p (withRespect (finalArgs outs a mergeChange) true)
    else .ok cs

/-- the output list of the body after `_add_change_and_fee(change_address, merge_change)` with final fee `a.fee` -/
def finalOutputs (p : Params) (outs : List Output) (a : ChangeArgs) (mergeChange : Bool) : Except Err (List Output) :=
  match finalChanges p outs a mergeChange with
  | .error e => .error e
  | .ok cs => .ok (mergeChanges outs (mergeIndex outs a mergeChange) cs)

end Pyc.Builder
