import Pyc.Model.Cbor
import Pyc.Model.Addr

/-! # Model of `pycardano/cip/cip8.py` (`sign`, `verify`) — CIP-8 / COSE_Sign1 signed messages

Transliteration of what the code does, with the third-party `cose` package (0.9.dev8) modelled on the part of
its input space that `sign` emits and that wallets emit for CIP-8 (see "domain" below), and with the signature
scheme and the 28-byte hash as *parameters* (`SigScheme`), never axioms.

What `cose` does and the model reproduces:
* `CoseMessage.decode`: `cbor2.loads` of `d2 ‖ bytes` (first item, trailing bytes ignored), a definite-length list of at
  least four elements `[protected bstr, unprotected map, payload bstr, signature]`, surplus elements ignored;
* the protected header is *decoded and later re-encoded* (`phdr_encoded = cbor2.dumps(self._phdr)`): the bytes
  that enter `Sig_structure` on the verifying side are the re-encoding, not the received bytes;
* `Sig_structure = ["Signature1", protected bstr, external_aad = h'', payload]`, `cbor2.dumps`;
* chunked (indefinite-length) byte strings arrive as plain `bytes`.

Domain of the model (outside it the model rejects, `plan = none`): protected-header labels are `1` (alg, value
`-8`), `"address"` (bytes) and `4` (kid, bytes), each at most once; the algorithm sits in the protected header;
the separately attached COSE_Key has labels `1 ↦ 1`, `-1 ↦ 6`, `-2 ↦ bytes` and optionally `3 ↦ -8`; the address
is given as bytes (not as bech32 text).  `cose` additionally understands textual aliases of labels (`"alg"`,
`"EdDSA"`), unknown labels and algorithm-in-unprotected-header; these are not modelled. -/

namespace Pyc.Cip8
open Pyc Pyc.Cbor

/-- signature scheme and key hash, as data -/
structure SigScheme (SK : Type) where
  pk : SK → Bytes                          -- public key the primitive derives from the private part
  sign : SK → Bytes → Bytes
  verify : Bytes → Bytes → Bytes → Bool    -- verify pk message signature
  H28 : Bytes → Bytes                      -- `VerificationKey.hash` (BLAKE2b-224)

/-- `isinstance(signing_key, StakeSigningKey) or isinstance(signing_key, StakeExtendedSigningKey)` -/
inductive Role
  | payment
  | stake
  deriving DecidableEq, Repr

/-- a signing-key object as `sign` sees it.  Ordinary key: `payload` = 32-byte seed, the verification key is
derived by the primitive (`NACLSigningKey(payload).verify_key`).  Extended key: `payload = kL‖kR ‖ A ‖ c`;
`to_verification_key()` *reads* `payload[64:]` (= `stored`), it does not derive it. -/
structure Key (SK : Type) where
  role : Role
  extended : Bool
  sk : SK
  stored : Bytes

/-- `verification_key = signing_key.to_verification_key(); if extended: .to_non_extended()` (cip8.py:51-53):
the 32 public-key bytes that go into the header / COSE key and into the address hash -/
def vk32 {SK : Type} (S : SigScheme SK) (k : Key SK) : Bytes :=
  if k.extended then k.stored.take 32 else S.pk k.sk

/-- cip8.py:55-64 -/
def signerAddress (role : Role) (net : Addr.Network) (h : Bytes) : Addr.Address :=
  match role with
  | .payment => ⟨.vkh h, .none, net⟩
  | .stake => ⟨.none, .vkh h, net⟩

/-- `address.to_primitive()` -/
def addressBytes (a : Addr.Address) : Bytes :=
  match Addr.toBytes a with
  | some b => b
  | none => []

/-- `"address"` -/
def lblAddress : Bytes := [0x61, 0x64, 0x64, 0x72, 0x65, 0x73, 0x73]
/-- `"hashed"` -/
def lblHashed : Bytes := [0x68, 0x61, 0x73, 0x68, 0x65, 0x64]
/-- `"Signature1"` (`Sign1Message.context`) -/
def ctxSignature1 : Bytes := [0x53, 0x69, 0x67, 0x6e, 0x61, 0x74, 0x75, 0x72, 0x65, 0x31]

/-- one entry of the protected header -/
inductive HdrEntry
  | alg                     -- `Algorithm: EdDSA`  ↦ `1: -8`
  | address (a : Bytes)     -- `"address": bytes`
  | kid (v : Bytes)         -- `KID: verification_key.to_primitive()` ↦ `4: bytes`
  deriving DecidableEq, Repr

def HdrEntry.toItem : HdrEntry → Item × Item
  | .alg => (.uint 1, .nint 7)
  | .address a => (.text lblAddress, .bytes a)
  | .kid v => (.uint 4, .bytes v)

def HdrEntry.labelId : HdrEntry → Nat
  | .alg => 0
  | .address _ => 1
  | .kid _ => 2

/-- `msg.phdr` of `sign`: `{Algorithm: EdDSA, "address": …}` and, only when the COSE key is *not* attached
separately, `phdr[KID] = vk` appended (cip8.py:67-78) -/
def honestEntries (addr vk : Bytes) (attach : Bool) : List HdrEntry :=
  if attach then [.alg, .address addr] else [.alg, .address addr, .kid vk]

/-- `phdr_encoded = cbor2.dumps(self._phdr)` (dict order = insertion order) -/
def encodeHeader (es : List HdrEntry) : Bytes := encode (.map (es.map HdrEntry.toItem))

/-- `msg.uhdr = {"hashed": False}` -/
def unprotected : Item := .map [(.text lblHashed, .simple 20)]

/-- `Sign1Message._sig_structure` before `cbor2.dumps` -/
def sigStructure (phdrEnc payload : Bytes) : Item :=
  .array [.text ctxSignature1, .bytes phdrEnc, .bytes [], .bytes payload]

def toBeSigned (phdrEnc payload : Bytes) : Bytes := encode (sigStructure phdrEnc payload)

/-- the COSE_Sign1 array; `sign` returns its hex (`encoded.hex()[2:]` drops the tag byte `d2`) -/
def render (es : List HdrEntry) (payload sig : Bytes) : Bytes :=
  encode (.array [.bytes (encodeHeader es), unprotected, .bytes payload, .bytes sig])

/-- `key_to_return = {KpKty: KtyOKP, KpAlg: EdDSA, OKPKpCurve: Ed25519, OKPKpX: vk}` → `a4 01 01 03 27 20 06 21 …` -/
def coseKeyItem (vk : Bytes) : Item :=
  .map [(.uint 1, .uint 1), (.uint 3, .nint 7), (.nint 0, .uint 6), (.nint 1, .bytes vk)]

/-- what `sign` returns: the hex string, or `{"signature": …, "key": …}` when `attach_cose_key` -/
structure Signed where
  signature : Bytes
  key : Option Bytes
  deriving DecidableEq, Repr

/-- `cip8.sign(message, signing_key, attach_cose_key, network)`; `m` = `message.encode("utf-8")` -/
def signModel {SK : Type} (S : SigScheme SK) (m : Bytes) (k : Key SK) (attach : Bool) (net : Addr.Network) : Signed :=
  let vk := vk32 S k
  let addr := addressBytes (signerAddress k.role net (S.H28 vk))
  let es := honestEntries addr vk attach
  let sig := S.sign k.sk (toBeSigned (encodeHeader es) m)
  ⟨render es m sig, if attach then some (encode (coseKeyItem vk)) else none⟩

/-! ## verification side -/

/-- cbor2 delivers definite and chunked byte strings alike as `bytes` -/
def asBytes : Item → Option Bytes
  | .bytes b => some b
  | .bytesChunked cs => some cs.flatten
  | _ => none

/-- `isinstance(cose_obj, list)`: under pycardano's decoder patch an indefinite-length array arrives as an
`IndefiniteList`, which is not a `list` (`TypeError`) -/
def arrayElems : Item → Option (List Item)
  | .array xs => some xs
  | _ => none

def parseFuel (bs : Bytes) : Nat := 2 * bs.length + 8

/-- `cbor2.loads`: the first item; trailing bytes are ignored -/
def loads (bs : Bytes) : Option Item :=
  match decode (parseFuel bs) bs with
  | some (x, _) => some x
  | none => none

def entryOf (kv : Item × Item) : Option HdrEntry :=
  match kv.1 with
  | .uint n =>
    if n = 1 then
      match kv.2 with
      | .nint a => if a = 7 then some .alg else none
      | _ => none
    else if n = 4 then
      match asBytes kv.2 with
      | some v => some (.kid v)
      | none => none
    else none
  | .text t =>
    if t = lblAddress then
      match asBytes kv.2 with
      | some a => some (.address a)
      | none => none
    else none
  | _ => none

def parseEntries : List (Item × Item) → Option (List HdrEntry)
  | [] => some []
  | kv :: r =>
    match entryOf kv, parseEntries r with
    | some e, some es => some (e :: es)
    | _, _ => none

def labelsDistinct : List Nat → Bool
  | [] => true
  | x :: r => !(r.contains x) && labelsDistinct r

def hasAlg : List HdrEntry → Bool
  | [] => false
  | .alg :: _ => true
  | _ :: r => hasAlg r

/-- `decoded_message.phdr["address"]` -/
def findAddress : List HdrEntry → Option Bytes
  | [] => none
  | .address a :: _ => some a
  | _ :: r => findAddress r

/-- `decoded_message.phdr[KID]` -/
def findKid : List HdrEntry → Option Bytes
  | [] => none
  | .kid v :: _ => some v
  | _ :: r => findKid r

/-- `cbor2.loads(protected bstr)` must be a map of modelled entries without repetition -/
def parseHeader (pb : Bytes) : Option (List HdrEntry) :=
  match loads pb with
  | some (.map kvs) =>
    match parseEntries kvs with
    | some es => if labelsDistinct (es.map HdrEntry.labelId) then some es else none
    | none => none
  | _ => none

/-- unprotected bucket: any map that does not repeat the algorithm label (`get_attr` raises when a parameter sits
in both buckets); its content is not signed and not otherwise used -/
def uhdrOk : Item → Bool
  | .map kvs => kvs.all (fun kv => match kv.1 with
      | .uint n => n != 1
      | _ => true)
  | _ => false

/-- `CoseMessage.decode(bytes.fromhex("d2" + signed_message))`: (protected bstr, unprotected, payload, signature) -/
def parseEnvelope (bs : Bytes) : Option (Bytes × Item × Bytes × Bytes) :=
  match loads bs with
  | none => none
  | some item =>
    match arrayElems item with
    | some (p :: u :: pl :: sg :: _) =>
      match asBytes p, asBytes pl, asBytes sg with
      | some pb, some payload, some sig => some (pb, u, payload, sig)
      | _, _, _ => none
    | _ => none

inductive CkEntry
  | kty
  | alg
  | crv
  | x (b : Bytes)
  deriving DecidableEq, Repr

def CkEntry.labelId : CkEntry → Nat
  | .kty => 0
  | .alg => 1
  | .crv => 2
  | .x _ => 3

def ckEntryOf (kv : Item × Item) : Option CkEntry :=
  match kv.1 with
  | .uint n =>
    if n = 1 then
      match kv.2 with
      | .uint t => if t = 1 then some .kty else none
      | _ => none
    else if n = 3 then
      match kv.2 with
      | .nint a => if a = 7 then some .alg else none
      | _ => none
    else none
  | .nint n =>
    if n = 0 then
      match kv.2 with
      | .uint c => if c = 6 then some .crv else none
      | _ => none
    else if n = 1 then
      match asBytes kv.2 with
      | some b => some (.x b)
      | none => none
    else none
  | _ => none

def parseCkEntries : List (Item × Item) → Option (List CkEntry)
  | [] => some []
  | kv :: r =>
    match ckEntryOf kv, parseCkEntries r with
    | some e, some es => some (e :: es)
    | _, _ => none

def findX : List CkEntry → Option Bytes
  | [] => none
  | .x b :: _ => some b
  | _ :: r => findX r

/-- `cose_key = CoseKey.decode(bytes.fromhex(key)); verification_key = cose_key[OKPKpX]` -/
def coseKeyX (kb : Bytes) : Option Bytes :=
  match loads kb with
  | some (.map kvs) =>
    match parseCkEntries kvs with
    | some es =>
      if labelsDistinct (es.map CkEntry.labelId) && es.contains .kty && es.contains .crv then
        match findX es with
        | some [] => none            -- `CoseInvalidKey`: neither public nor private value
        | r => r
      else none
    | none => none
  | _ => none

/-- Python's strict UTF-8 decoder as a byte automaton: continuation bytes still expected, bounds of the next one -/
structure U8 where
  need : Nat
  lo : Nat
  hi : Nat

def utf8Step (s : U8) (b : Nat) : Option U8 :=
  if s.need = 0 then
    if b < 0x80 then some ⟨0, 0x80, 0xBF⟩
    else if 0xC2 ≤ b ∧ b ≤ 0xDF then some ⟨1, 0x80, 0xBF⟩
    else if b = 0xE0 then some ⟨2, 0xA0, 0xBF⟩
    else if b = 0xED then some ⟨2, 0x80, 0x9F⟩
    else if 0xE1 ≤ b ∧ b ≤ 0xEF then some ⟨2, 0x80, 0xBF⟩
    else if b = 0xF0 then some ⟨3, 0x90, 0xBF⟩
    else if 0xF1 ≤ b ∧ b ≤ 0xF3 then some ⟨3, 0x80, 0xBF⟩
    else if b = 0xF4 then some ⟨3, 0x80, 0x8F⟩
    else none
  else if s.lo ≤ b ∧ b ≤ s.hi then some ⟨s.need - 1, 0x80, 0xBF⟩
  else none

def utf8Go : U8 → Bytes → Bool
  | s, [] => s.need == 0
  | s, b :: r =>
    match utf8Step s b.toNat with
    | some s' => utf8Go s' r
    | none => false

/-- `payload.decode("utf-8")` does not raise -/
def utf8Valid (bs : Bytes) : Bool := utf8Go ⟨0, 0x80, 0xBF⟩ bs

/-- everything `verify` extracts from the received object before any cryptography happens -/
structure Plan where
  entries : List HdrEntry        -- decoded protected header, wire order
  payload : Bytes
  sig : Bytes
  vk : Bytes                     -- `verification_key`: from `phdr[KID]`, or `cose_key[OKPKpX]` when attached separately
  addrBytes : Bytes              -- `phdr["address"]`
  address : Addr.Address         -- `Address.from_primitive(phdr["address"])`
  deriving DecidableEq, Repr

/-- the protected bucket as `cose` re-encodes it for `Sig_structure` -/
def Plan.phdrEnc (p : Plan) : Bytes := encodeHeader p.entries
/-- `decoded_message._sig_structure` -/
def Plan.tbs (p : Plan) : Bytes := toBeSigned p.phdrEnc p.payload
/-- `len(verification_key) > 32`: the `BIP32ED25519PublicKey` path (cip8.py:197-204) -/
def Plan.bip32 (p : Plan) : Bool := decide (32 < p.vk.length)
/-- the key handed to the signature primitive: `verification_key[:32]` on the BIP32 path -/
def Plan.sigKey (p : Plan) : Bytes := if p.bip32 then p.vk.take 32 else p.vk
/-- the message / signature handed to the primitive.  On the BIP32 path it is `crypto_sign_open(signature + message)`,
which reads the first 64 bytes of the concatenation as the signature. -/
def Plan.sigMsg (p : Plan) : Bytes := if p.bip32 then (p.sig ++ p.tbs).drop 64 else p.tbs
def Plan.sigSig (p : Plan) : Bytes := if p.bip32 then (p.sig ++ p.tbs).take 64 else p.sig

def partPayload : Addr.Part → Option Bytes
  | .vkh p => some p
  | .sh p => some p
  | _ => none

/-- the credential that is compared with the key hash: the payment part when there is one, else the staking part
(cip8.py:215-224; `ConstrainedBytes.__eq__` compares payloads) -/
def credentialOf (a : Addr.Address) : Option Bytes :=
  match a.payment with
  | .none => partPayload a.staking
  | q => partPayload q

def Plan.cred (p : Plan) : Option Bytes := credentialOf p.address

/-- cip8.py:146-214 up to, not including, the two checks -/
def plan (w : Signed) : Option Plan :=
  match parseEnvelope w.signature with
  | none => none
  | some (pb, u, payload, sig) =>
    match parseHeader pb with
    | none => none
    | some es =>
      if uhdrOk u && utf8Valid payload then
        match (match w.key with
               | none => findKid es
               | some kb => coseKeyX kb), findAddress es with
        | some vk, some a =>
          match Addr.fromBytes a with
          | .ok addr =>
            -- ≤ 32 bytes: `verify_signature()` needs the algorithm header and `Ed25519PublicKey.from_public_bytes`
            -- needs exactly 32 bytes; > 32 bytes: neither is consulted
            if 32 < vk.length || (hasAlg es && vk.length == 32) then some ⟨es, payload, sig, vk, a, addr⟩ else none
          | .error _ => none
        | _, _ => none
      else none

structure Result where
  verified : Bool
  message : Bytes
  address : Addr.Address
  deriving DecidableEq, Repr

def sigCheck {SK : Type} (S : SigScheme SK) (p : Plan) : Bool := S.verify p.sigKey p.sigMsg p.sigSig

/-- `addresses_match` -/
def addressMatch {SK : Type} (S : SigScheme SK) (p : Plan) : Bool := decide (p.cred = some (S.H28 p.vk))

/-- cip8.py:197-232.  `none` = an exception leaves `verify` (on the BIP32 path a bad signature raises
`BadSignatureError` instead of yielding `False`). -/
def judge {SK : Type} (S : SigScheme SK) (p : Plan) : Option Result :=
  if p.bip32 && !sigCheck S p then none
  else some { verified := sigCheck S p && addressMatch S p, message := p.payload, address := p.address }

/-- `cip8.verify(signed_message)`; `none` = raises -/
def verifyModel {SK : Type} (S : SigScheme SK) (w : Signed) : Option Result :=
  match plan w with
  | none => none
  | some p => judge S p

end Pyc.Cip8
