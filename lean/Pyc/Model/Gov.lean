import Pyc.Model.CustomCodec
import Pyc.Model.Bech32

/-! Models of the small hand-written codecs of credentials and governance items, which the generic table-driven
interpreter (`Model/Codec.lean`) carries as opaque leaves:

* certificate.py: `StakeCredential` (and its subclasses `DRepCredential`, governance.py `CommitteeColdCredential`: the
  same code, `cls(...)` builds the subclass), `DRep` / `DRepKind`, `Anchor` (generic array class, needed by
  `VotingProcedure.from_primitive`);
* governance.py: `GovActionId`, `Vote`, `VotingProcedure`, `VoterType`, `Voter`, `GovActionIdToVotingProcedure`,
  `VotingProcedures` (two `DictCBORSerializable` levels), `HardForkInitiationAction` (`__post_init__`);
* pool_params.py: `PoolId` (a bech32 string `pool1…`, `is_bech32_cardano_pool_id`).

Every function transliterates one Python method; the comment names it.  Results are three-valued (`Codec.Res`):
`deser` = `DeserializeException` (a `Union` tries its next alternative), `crash` = any other exception (`IndexError`,
`AssertionError`, `TypeError`, `ValueError`, `KeyError`).

**What a hash object holds.**  `ConstrainedBytes.__init__` (hash.py:62) only asserts `MIN_SIZE <= len(payload) <=
MAX_SIZE`; nothing checks that the payload is `bytes`, and `validate()` does not look inside a hash object.  The
credential classes call that constructor directly on `values[1]` (not `from_primitive`), so a text of 28 characters, a
list of 28 items or a map of 28 entries is stored as the "hash" and written back unchanged.  The model therefore carries
such a payload as the primitive it is (`Item`); the well-formedness predicates of the theorems (`isHashB`) say
"a byte string of the prescribed length".

**Python `==` on the type code.**  `values[0] == 0`, `code in (0, 2, 4)`, `DRepKind(values[0])`, `Vote(values[0])`
compare / hash with Python's numeric tower: `False == 0`, `True == 1`, and cbor2's `CBORSimpleValue(n) == n` (same
hash).  `pyNum?` is that view of a primitive.

**`CBORSimpleValue` is a tuple.**  cbor2 returns the simple values 0..19 and 32..255 as a one-field namedtuple, so
`@limit_primitive_type(list, tuple)` lets one through as the sequence `(n,)` (`seqElems?`).

**Dict keys.**  Two restored keys are the same dict key when the key class's `__eq__` says so (with a consistent
`__hash__`): `GovActionId.pyEqB`, `Voter.pyEqB`.  Payloads are compared by their encodings.

Deviations (none reachable from an object the library serializes; the differential run does not generate them):
floats (not in `Cbor.Item`); duplicate keys of a CBOR map are collapsed by cbor2 before pycardano sees them (here they
reach the loop, where a repeated restored key overwrites in place: the same dict; but a map in the place of a hash counts
its wire entries); invalid UTF-8 and a bignum tag with an empty byte string make `cbor2.loads` fail; tags that cbor2
turns into other Python objects (0, 1, 4, 5, 30, 35-37, 258, …) in a payload position; `len` of a text counts code
points of valid UTF-8; non-shortest integers / bignum tags / chunked byte strings INSIDE an ill-typed container payload
are not normalised (`pyObj` normalises the stored object itself); `bytes.fromhex` skips ASCII whitespace
(`Custom.hexOfText` does not); two ill-typed payloads are "equal" when they encode alike (Python: `==` of the objects,
e.g. `1 == True` inside a list); `DRep` / `VotingProcedure` accept a `list` only, so as a map KEY (a tuple; never the
case in the ledger types) they would be refused. -/

namespace Pyc.Gov
open Pyc Pyc.Cbor Pyc.Codec
open Pyc.Custom (Res.bind hexOfText)

/-! ## Python views of a decoded primitive -/

/-- the integer a primitive equals (and hashes like) under Python `==`: `int`, `bool` (`False == 0`, `True == 1`),
`CBORSimpleValue(n) == n`; `none` for everything else (`None`, `undefined`, strings, containers, tags) -/
def pyNum? : Item → Option Int
  | .simple n =>
    if n = 20 then some 0 else if n = 21 then some 1
    else if n < 20 ∨ (32 ≤ n ∧ n < 256) then some (n : Int) else Option.none
  | i => itemInt? i

/-- number of code points of a UTF-8 string: the bytes that are not continuation bytes `10xxxxxx` -/
def utf8Len (s : Bytes) : Nat := (s.filter (fun b => b.toNat / 64 != 2)).length

/-- `len(x)` of a decoded primitive; `none` = `TypeError: object of type … has no len()` (`CBORSimpleValue` is a
one-field namedtuple: length 1) -/
def pyLen? : Item → Option Nat
  | .bytes b => some b.length
  | .bytesChunked cs => some cs.flatten.length
  | .text s => some (utf8Len s)
  | .array xs => some xs.length
  | .arrayIndef xs => some xs.length
  | .map kvs => some kvs.length
  | .simple n => if n < 20 ∨ (32 ≤ n ∧ n < 256) then some 1 else Option.none
  | _ => Option.none

/-- the primitive as cbor2 writes the decoded Python object back (top level only): a chunked byte string is `bytes`,
a bignum tag is an `int` (written in the shortest form) -/
def pyObj : Item → Item
  | .bytesChunked cs => .bytes cs.flatten
  | .tag t x =>
    (match itemInt? (.tag t x) with
      | some v => ofInt v
      | Option.none => .tag t x)
  | i => i

/-- `X(payload)` for a `ConstrainedBytes` subclass with `MIN_SIZE = MAX_SIZE = n` called directly on a primitive
(hash.py:62-67): `len(payload)` (TypeError) and the size assertion; the payload is stored as it is -/
def hashCtor (n : Nat) (i : Item) : Res Item :=
  match pyLen? i with
  | some l => if l = n then .ok (pyObj i) else .crash         -- AssertionError
  | Option.none => .crash                                       -- TypeError

/-- `ConstrainedBytes.from_primitive` (hash.py:82-87) with `MIN_SIZE = MAX_SIZE = n`: `@limit_primitive_type(bytes,
str)`, `bytes.fromhex` for a text (`ValueError`), then the constructor -/
def cbytesFromPrim (n : Nat) : Item → Res Bytes
  | .bytes b => if b.length = n then .ok b else .crash
  | .bytesChunked cs => if cs.flatten.length = n then .ok cs.flatten else .crash
  | .text s =>
    (match hexOfText s with
      | some b => if b.length = n then .ok b else .crash
      | Option.none => .crash)
  | _ => .deser

/-- "is a byte string of exactly `n` bytes" (what a hash object holds when it was built from bytes) -/
def isHashB (n : Nat) : Item → Bool
  | .bytes b => b.length == n
  | _ => false

def isNull : Item → Bool
  | .simple n => n == 22
  | _ => false

/-- `isinstance(value, (list, tuple))`: a definite-length array (a `list`; as a map key a `tuple`) — and cbor2's
`CBORSimpleValue`, which is a one-field namedtuple, hence a `tuple`: `values[0]` is its number, there is no `values[1]` -/
def seqElems? : Item → Option (List Item)
  | .array xs => some xs
  | .simple n => if n < 20 ∨ (32 ≤ n ∧ n < 256) then some [.uint n] else Option.none
  | _ => Option.none

/-! ## `StakeCredential` / `DRepCredential` / `CommitteeColdCredential` (certificate.py:60-103, governance.py:50) -/

/-- the dataclass fields: `credential` (its class: `VerificationKeyHash` or not, and its payload); `_CODE` is computed -/
structure Cred where
  isKey : Bool
  hash : Item

/-- `StakeCredential.__post_init__`: `_CODE = 0` if `isinstance(self.credential, VerificationKeyHash)` else `1` -/
def Cred.code (c : Cred) : Nat := if c.isKey then 0 else 1

/-- `ArrayCBORSerializable.to_shallow_primitive` over the fields `_CODE`, `credential` -/
def Cred.toItem (c : Cred) : Item := .array [.uint c.code, c.hash]

/-- the body of `StakeCredential.from_primitive` on the sequence `values`: `values[0] == 0` →
`VerificationKeyHash(values[1])`, `== 1` → `ScriptHash(values[1])`, otherwise `DeserializeException`; extra items are
ignored -/
def Cred.fromList : List Item → Res Cred
  | [] => .crash                                                                  -- IndexError
  | c :: rest =>
    if pyNum? c = some 0 then
      (match rest with
        | [] => .crash
        | h :: _ => Res.bind (hashCtor 28 h) fun p => .ok ⟨true, p⟩)
    else if pyNum? c = some 1 then
      (match rest with
        | [] => .crash
        | h :: _ => Res.bind (hashCtor 28 h) fun p => .ok ⟨false, p⟩)
    else .deser

/-- `StakeCredential.from_primitive`: `@limit_primitive_type(list, tuple)` (an indefinite-length array is an
`IndefiniteList`: refused) -/
def Cred.fromItem (i : Item) : Res Cred :=
  match seqElems? i with
  | some xs => Cred.fromList xs
  | Option.none => .deser

/-- what `validate()` and the hash constructors enforce of a credential built from `bytes` -/
def Cred.wf (c : Cred) : Bool := isHashB 28 c.hash

/-! ## `DRep` (certificate.py:106-160) -/

inductive DRepKind where
  | keyHash | scriptHash | alwaysAbstain | alwaysNoConfidence
  deriving DecidableEq, Repr

/-- the enum values of `DRepKind` -/
def DRepKind.code : DRepKind → Nat
  | .keyHash => 0
  | .scriptHash => 1
  | .alwaysAbstain => 2
  | .alwaysNoConfidence => 3

/-- `DRepKind(value)` on an integer; `none` = `ValueError` -/
def DRepKind.ofNum? (k : Int) : Option DRepKind :=
  if k = 0 then some .keyHash else if k = 1 then some .scriptHash
  else if k = 2 then some .alwaysAbstain else if k = 3 then some .alwaysNoConfidence else Option.none

/-- the dataclass fields `kind`, `credential` (`None`, or a hash object: its class and payload).  The constructor
relates them in no way. -/
structure DRep where
  kind : DRepKind
  cred : Option (Bool × Item)

/-- `DRep.to_primitive`: `[kind.value, credential.to_primitive()]` if the credential is not `None`, else `[kind.value]` -/
def DRep.toItem (d : DRep) : Item :=
  match d.cred with
  | some (_, h) => .array [.uint d.kind.code, h]
  | Option.none => .array [.uint d.kind.code]

/-- `DRep.from_primitive`: `@limit_primitive_type(list)`; `DRepKind(values[0])` (`IndexError` on `[]`; a `ValueError`
becomes `DeserializeException`); kinds 0 / 1 read `values[1]` through the hash constructor, kinds 2 / 3 ignore the
rest of the list -/
def DRep.fromItem : Item → Res DRep
  | .array xs =>
    (match xs with
      | [] => .crash
      | c :: rest =>
        (match (pyNum? c).bind DRepKind.ofNum? with
          | Option.none => .deser
          | some .keyHash =>
            (match rest with
              | [] => .crash
              | h :: _ => Res.bind (hashCtor 28 h) fun p => .ok ⟨.keyHash, some (true, p)⟩)
          | some .scriptHash =>
            (match rest with
              | [] => .crash
              | h :: _ => Res.bind (hashCtor 28 h) fun p => .ok ⟨.scriptHash, some (false, p)⟩)
          | some k => .ok ⟨k, Option.none⟩))
  | _ => .deser

/-- what `validate()` and the hash constructors enforce: the kind is a `DRepKind`, the credential is `None` or a hash
object (of either class) — built from bytes: 28 of them -/
def DRep.typed (d : DRep) : Bool :=
  match d.cred with
  | some (_, h) => isHashB 28 h
  | Option.none => true

/-- the kind and the credential agree (NOT enforced by the constructor): a key hash for kind 0, a script hash for kind
1, no credential for kinds 2 and 3 -/
def DRep.coherent (d : DRep) : Bool :=
  match d.kind, d.cred with
  | .keyHash, some (true, _) => true
  | .scriptHash, some (false, _) => true
  | .alwaysAbstain, Option.none => true
  | .alwaysNoConfidence, Option.none => true
  | _, _ => false

/-- the kind says whether there is a credential; its class is free (`ConstrainedBytes.__eq__` ignores the class) -/
def DRep.arityOk (d : DRep) : Bool :=
  match d.kind, d.cred with
  | .keyHash, some _ => true
  | .scriptHash, some _ => true
  | .alwaysAbstain, Option.none => true
  | .alwaysNoConfidence, Option.none => true
  | _, _ => false

/-- the dataclass `__eq__` of `DRep`: `(kind, credential) == (kind, credential)` where `ConstrainedBytes.__eq__`
(hash.py:89) compares the payloads only, whatever the two hash classes -/
def DRep.PyEq (a b : DRep) : Prop := a.kind = b.kind ∧ a.cred.map Prod.snd = b.cred.map Prod.snd

/-! ## `Anchor` (certificate.py:46-57; generic `ArrayCBORSerializable`) -/

/-- `url : str` (its UTF-8 bytes), `data_hash : AnchorDataHash` (payload) -/
structure Anchor where
  url : Bytes
  hash : Bytes
  deriving DecidableEq, Repr

def Anchor.toItem (a : Anchor) : Item := .array [.text a.url, .bytes a.hash]

/-- `ArrayCBORSerializable.from_primitive` for `Anchor`: `@limit_primitive_type(list, tuple, IndefiniteList)`; the items
are zipped with the fields and restored one after the other (`str`: the value itself when it is a `str`, else the final
`DeserializeException` of `_restore_typed_primitive`; `AnchorDataHash.from_primitive`), then `cls(*restored)`
(`TypeError` when fewer than two); extra items become `unknown_field…` attributes -/
def Anchor.fromList : List Item → Res Anchor
  | [] => .crash
  | u :: rest =>
    (match u with
      | .text s =>
        (match rest with
          | [] => .crash
          | h :: _ => Res.bind (cbytesFromPrim 32 h) fun b => .ok ⟨s, b⟩)
      | _ => .deser)

/-- `isinstance(value, (list, tuple, IndefiniteList))` -/
def anchorElems? (i : Item) : Option (List Item) :=
  match listElems? i with
  | some xs => some xs
  | Option.none => seqElems? i

def Anchor.fromItem (i : Item) : Res Anchor :=
  match anchorElems? i with
  | some xs => Anchor.fromList xs
  | Option.none => .deser

def Anchor.wf (a : Anchor) : Bool := a.hash.length == 32

/-! ## `Vote`, `VotingProcedure` (governance.py:56-62, 417-441) -/

inductive Vote where
  | no | yes | abstain
  deriving DecidableEq, Repr

def Vote.code : Vote → Nat
  | .no => 0
  | .yes => 1
  | .abstain => 2

/-- `Vote(value)`; `none` = `ValueError` -/
def Vote.ofNum? (k : Int) : Option Vote :=
  if k = 0 then some .no else if k = 1 then some .yes else if k = 2 then some .abstain else Option.none

structure VotingProcedure where
  vote : Vote
  anchor : Option Anchor
  deriving DecidableEq, Repr

/-- `VotingProcedure.to_shallow_primitive`: `[self.vote.value, self.anchor]` (`None` is written as null) -/
def VotingProcedure.toItem (p : VotingProcedure) : Item :=
  .array [.uint p.vote.code, match p.anchor with | some a => a.toItem | Option.none => .simple 22]

/-- `VotingProcedure.from_primitive`: `@limit_primitive_type(list)`; `Vote(values[0])` (`IndexError`, `ValueError`: not
caught), then `Anchor.from_primitive(values[1]) if values[1] is not None else None` -/
def VotingProcedure.fromItem : Item → Res VotingProcedure
  | .array xs =>
    (match xs with
      | [] => .crash
      | c :: rest =>
        (match (pyNum? c).bind Vote.ofNum? with
          | Option.none => .crash
          | some v =>
            (match rest with
              | [] => .crash
              | a :: _ =>
                if isNull a then .ok ⟨v, Option.none⟩
                else Res.bind (Anchor.fromItem a) fun an => .ok ⟨v, some an⟩)))
  | _ => .deser

def VotingProcedure.wf (p : VotingProcedure) : Bool :=
  match p.anchor with
  | some a => a.wf
  | Option.none => true

/-! ## `GovActionId` (governance.py:65-90) -/

/-- `transaction_id` (payload of the `TransactionId`), `gov_action_index` (whatever passed `0 <= · <= 65535`) -/
structure GovActionId where
  txid : Item
  idx : Item

def GovActionId.toItem (g : GovActionId) : Item := .array [g.txid, g.idx]

/-- `GovActionId.__post_init__` on `values[1]`: `0 <= idx <= 65535` is evaluated with Python's comparison (`TypeError`
for `None`, strings, containers; `bool` and `CBORSimpleValue` compare like integers), `ValueError` outside the range;
the value is stored as it is -/
def idxCtor (i : Item) : Res Item :=
  match pyNum? i with
  | some k => if 0 ≤ k ∧ k ≤ 65535 then .ok (pyObj i) else .crash
  | Option.none => .crash

/-- the body of `GovActionId.from_primitive`: `TransactionId(values[0])` through the hash constructor, `values[1]`
through `__post_init__`; every failure is an exception other than `DeserializeException` -/
def GovActionId.fromList : List Item → Res GovActionId
  | t :: i :: _ => Res.bind (hashCtor 32 t) fun h => Res.bind (idxCtor i) fun k => .ok ⟨h, k⟩
  | _ => .crash                                                                  -- IndexError / TypeError / AssertionError

/-- `GovActionId.from_primitive`: `@limit_primitive_type(list, tuple)` -/
def GovActionId.fromItem (i : Item) : Res GovActionId :=
  match seqElems? i with
  | some xs => GovActionId.fromList xs
  | Option.none => .deser

/-- is `.uint n` with `n ≤ 65535` -/
def isIdxB : Item → Bool
  | .uint n => decide (n ≤ 65535)
  | _ => false

/-- what the constructors enforce of an id built from `bytes` and an `int` -/
def GovActionId.wf (g : GovActionId) : Bool := isHashB 32 g.txid && isIdxB g.idx

/-! ## `VoterType`, `Voter` (governance.py:444-512) -/

inductive VoterType where
  | committeeHot | drep | stakingPool
  deriving DecidableEq, Repr

/-- the dataclass fields `credential` (class and payload), `voter_type`; `_CODE` is computed -/
structure Voter where
  vtype : VoterType
  isKey : Bool
  hash : Item

/-- `Voter.__post_init__`: the code table; a staking-pool voter with a script hash raises `ValueError` (such an object
does not exist: `Voter.wf` excludes it) -/
def Voter.code (v : Voter) : Nat :=
  match v.vtype with
  | .committeeHot => if v.isKey then 0 else 1
  | .drep => if v.isKey then 2 else 3
  | .stakingPool => 4

/-- `Voter.to_shallow_primitive`: `(self._CODE, self.credential)` -/
def Voter.toItem (v : Voter) : Item := .array [.uint v.code, v.hash]

/-- the body of `Voter.from_primitive`: `code in (0, 2, 4)` → `VerificationKeyHash(values[1])`, `code in (1, 3)` →
`ScriptHash(values[1])`, else `DeserializeException`; the voter type from the table -/
def Voter.fromList : List Item → Res Voter
  | [] => .crash
  | c :: rest =>
    (match pyNum? c with
      | Option.none => .deser
      | some k =>
        if k = 0 ∨ k = 1 ∨ k = 2 ∨ k = 3 ∨ k = 4 then
          (match rest with
            | [] => .crash
            | h :: _ =>
              Res.bind (hashCtor 28 h) fun p =>
                .ok ⟨if k = 0 ∨ k = 1 then .committeeHot else if k = 2 ∨ k = 3 then .drep else .stakingPool,
                     decide (k = 0 ∨ k = 2 ∨ k = 4), p⟩)
        else .deser)

/-- `Voter.from_primitive`: `@limit_primitive_type(list, tuple)` -/
def Voter.fromItem (i : Item) : Res Voter :=
  match seqElems? i with
  | some xs => Voter.fromList xs
  | Option.none => .deser

/-- constructible (`__post_init__` does not raise) from `bytes` -/
def Voter.wf (v : Voter) : Bool := isHashB 28 v.hash && (v.vtype != .stakingPool || v.isKey)

/-! ## `DictCBORSerializable` with a key class (serialization.py:905-1030) -/

section Dict
variable {κ ν : Type}

/-- `_get_sortable_val(key)`: `key.to_cbor()` -/
def keyBytes (ek : κ → Item) (k : κ) : Bytes := encode (ek k)

/-- `self.data[key] = value` with the key class's `__eq__` / `__hash__` (`keq`): an equal key keeps its place (and the
old key object), else the entry is appended -/
def assocSet (keq : κ → κ → Bool) (m : List (κ × ν)) (k : κ) (v : ν) : List (κ × ν) :=
  match m with
  | [] => [(k, v)]
  | (k', v') :: r => if keq k' k then (k', v) :: r else (k', v') :: assocSet keq r k v

/-- the loop of `DictCBORSerializable.from_primitive`: restore the key, then the value, then `restored[k] = v` -/
def decDictLoop (keq : κ → κ → Bool) (dk : Item → Res κ) (dv : Item → Res ν) (acc : List (κ × ν)) :
    List (Item × Item) → Res (List (κ × ν))
  | [] => .ok acc
  | (ki, vi) :: r =>
    match dk ki with
    | .ok k =>
      (match dv vi with
        | .ok v => decDictLoop keq dk dv (assocSet keq acc k v) r
        | .deser => .deser
        | .crash => .crash)
    | .deser => .deser
    | .crash => .crash

/-- `DictCBORSerializable.from_primitive`: `@limit_primitive_type(dict)` -/
def decDict (keq : κ → κ → Bool) (dk : Item → Res κ) (dv : Item → Res ν) : Item → Res (List (κ × ν))
  | .map kvs => decDictLoop keq dk dv [] kvs
  | _ => .deser

/-- `DictCBORSerializable.to_shallow_primitive` followed by `to_primitive`: the items sorted by
`(len(cbor(key)), cbor(key))` (stable), keys and values as primitives -/
def encDict (ek : κ → Item) (ev : ν → Item) (m : List (κ × ν)) : Item :=
  .map (sortPairs (m.map fun p => (ek p.1, ev p.2)))

/-- the same sort on the entries themselves -/
def sortDict (ek : κ → Item) (m : List (κ × ν)) : List (κ × ν) :=
  isort (fun a b => lenLexLe (keyBytes ek a.1) (keyBytes ek b.1)) m

/-- representation invariant of a Python dict with such keys: no two keys are equal -/
def DistinctKeys (ek : κ → Item) (m : List (κ × ν)) : Prop := (m.map fun p => keyBytes ek p.1).Nodup

end Dict

/-! ## `GovActionIdToVotingProcedure`, `VotingProcedures` (governance.py:515-526) -/

abbrev GovVotes := List (GovActionId × VotingProcedure)
abbrev VotingProcedures := List (Voter × GovVotes)

/-- the dataclass `__eq__` of `GovActionId` (consistent with its `__hash__`): payloads equal (compared by their
encodings), indices equal as Python numbers (`True == 1`) -/
def GovActionId.pyEqB (a b : GovActionId) : Bool := encode a.txid == encode b.txid && pyNum? a.idx == pyNum? b.idx

/-- the dataclass `__eq__` of `Voter` (consistent with `__hash__`): `_CODE` (which determines `voter_type`) and the payload -/
def Voter.pyEqB (a b : Voter) : Bool := a.code == b.code && encode a.hash == encode b.hash

def GovVotes.toItem (m : GovVotes) : Item := encDict GovActionId.toItem VotingProcedure.toItem m
def GovVotes.fromItem (i : Item) : Res GovVotes :=
  decDict GovActionId.pyEqB GovActionId.fromItem VotingProcedure.fromItem i

def VotingProcedures.toItem (m : VotingProcedures) : Item := encDict Voter.toItem GovVotes.toItem m
def VotingProcedures.fromItem (i : Item) : Res VotingProcedures :=
  decDict Voter.pyEqB Voter.fromItem GovVotes.fromItem i

/-- what decoding an encoded inner dict returns: the entries in canonical (wire) order -/
def GovVotes.canon (m : GovVotes) : GovVotes := sortDict GovActionId.toItem m

/-- … and of the outer dict: canonical order at both levels -/
def VotingProcedures.canon (m : VotingProcedures) : VotingProcedures :=
  (sortDict Voter.toItem m).map fun p => (p.1, GovVotes.canon p.2)

def GovVotes.wf (m : GovVotes) : Bool := m.all fun p => p.1.wf && p.2.wf
def VotingProcedures.wf (m : VotingProcedures) : Bool := m.all fun p => p.1.wf && GovVotes.wf p.2

/-- the `dict` invariant at both levels -/
def VotingProcedures.Distinct (m : VotingProcedures) : Prop :=
  DistinctKeys Voter.toItem m ∧ ∀ p ∈ m, DistinctKeys GovActionId.toItem p.2

/-- `DictCBORSerializable.__eq__` (`self.data == other.data`) on dicts with distinct keys: the same entries in any
order -/
def GovVotes.PyEq (a b : GovVotes) : Prop := a.Perm b

/-- position by position: the same voter, inner dicts equal under their `__eq__` -/
def VotingProcedures.Rel : VotingProcedures → VotingProcedures → Prop
  | [], [] => True
  | x :: xs, y :: ys => x.1 = y.1 ∧ GovVotes.PyEq x.2 y.2 ∧ VotingProcedures.Rel xs ys
  | _, _ => False

/-- … with the values compared by their own `__eq__`: some reordering of `a` matches `b` position by position -/
def VotingProcedures.PyEq (a b : VotingProcedures) : Prop :=
  ∃ b', a.Perm b' ∧ VotingProcedures.Rel b' b

/-! ## `HardForkInitiationAction` (governance.py:327-341; `CodedSerializable` with a `__post_init__`) -/

/-- `gov_action_id`, `protocol_version = (major, minor)` (each whatever passed `isinstance(·, int)`: an `int` or a `bool`) -/
structure HardFork where
  prev : Option GovActionId
  major : Item
  minor : Item

/-- `CodedSerializable` / `ArrayCBORSerializable.to_shallow_primitive` over `_CODE`, `gov_action_id`,
`protocol_version` (a tuple: written as an array) -/
def HardFork.toItem (h : HardFork) : Item :=
  .array [.uint 1, (match h.prev with | some g => g.toItem | Option.none => .simple 22), .array [h.major, h.minor]]

/-- `_restore_typed_primitive(int, v)`: the value itself when `isinstance(v, int)` (a `bool` is one), else the final
`DeserializeException` -/
def restoreInt (i : Item) : Res Item :=
  match itemInt? i with
  | some v => .ok (ofInt v)
  | Option.none =>
    (match i with
      | .simple n => if n = 20 ∨ n = 21 then .ok i else .deser
      | _ => .deser)

/-- `_restore_typed_primitive(Optional[GovActionId], v)`: the first alternative of `Union[GovActionId, None]` that does
not raise `DeserializeException` -/
def restoreOptGaid (i : Item) : Res (Option GovActionId) :=
  match GovActionId.fromItem i with
  | .ok g => .ok (some g)
  | .crash => .crash
  | .deser => if isNull i then .ok Option.none else .deser

/-- `_restore_typed_primitive(Tuple[int, int], v)`: a sequence of exactly two items, each restored as `int` -/
def restoreVersion (i : Item) : Res (Item × Item) :=
  match listElems? i with
  | some [a, b] => Res.bind (restoreInt a) fun x => Res.bind (restoreInt b) fun y => .ok (x, y)
  | _ => .deser

/-- `HardForkInitiationAction.__post_init__`: `1 <= major <= 10` or `ValueError` -/
def majorOk (i : Item) : Bool :=
  match pyNum? i with
  | some k => decide (1 ≤ k ∧ k ≤ 10)
  | Option.none => false

/-- `CodedSerializable.from_primitive` (`@limit_primitive_type(list, tuple)`, `values[0] != cls._CODE` →
`DeserializeException`) then `ArrayCBORSerializable.from_primitive(values[1:])`: the present items are restored in
order, then the constructor (`TypeError` when an argument is missing) and `__post_init__` -/
def HardFork.fromList : List Item → Res HardFork
  | [] => .crash
  | c :: rest =>
    if pyNum? c = some 1 then
      (match rest with
        | [] => .crash
        | [p] => Res.bind (restoreOptGaid p) fun _ => .crash
        | p :: v :: _ =>
          Res.bind (restoreOptGaid p) fun g =>
          Res.bind (restoreVersion v) fun mm =>
          if majorOk mm.1 then .ok ⟨g, mm.1, mm.2⟩ else .crash)
    else .deser

def HardFork.fromItem (i : Item) : Res HardFork :=
  match seqElems? i with
  | some xs => HardFork.fromList xs
  | Option.none => .deser

def isUIntB : Item → Bool
  | .uint n => decide (n < 2 ^ 64)
  | _ => false

/-- constructed from ints (`major` in 1..10, `minor` an unsigned 64-bit integer) and a well-formed optional id -/
def HardFork.wf (h : HardFork) : Bool :=
  (match h.prev with | some g => g.wf | Option.none => true) &&
  (match h.major with | .uint n => decide (1 ≤ n ∧ n ≤ 10) | _ => false) && isUIntB h.minor

/-! ## `PoolId` (pool_params.py:40-69) -/

/-- `value : str` (its characters) -/
structure PoolId where
  value : List Char
  deriving DecidableEq, Repr

/-- `is_bech32_cardano_pool_id`: `pool_id.startswith("pool")` and `bech32_decode(pool_id) != (None, None, None)` -/
def isPoolId (s : List Char) : Bool :=
  "pool".toList.isPrefixOf s && (Bech32.bech32Decode s).isSome

/-- `PoolId.to_primitive`: the string (an accepted string is ASCII: one byte per character) -/
def PoolId.toItem (p : PoolId) : Item := .text (p.value.map fun c => UInt8.ofNat c.toNat)

/-- `PoolId.from_primitive`: `@limit_primitive_type(str)`, then the constructor (`ValueError`).  A byte outside ASCII
stands for a character outside 33..126 whichever way it is decoded, and such a string is refused. -/
def PoolId.fromItem : Item → Res PoolId
  | .text s =>
    let cs := s.map fun b => Char.ofNat b.toNat
    if isPoolId cs then .ok ⟨cs⟩ else .crash
  | _ => .deser

def PoolId.wf (p : PoolId) : Bool := isPoolId p.value

/-! ## bytes level: `to_cbor` / `from_cbor` -/

mutual
/-- the decoded object contains an `IndefiniteList` (unhashable) -/
def hasIndef : Item → Bool
  | .arrayIndef _ => true
  | .array xs => hasIndefList xs
  | .map kvs => hasIndefPairs kvs
  | .tag _ x => hasIndef x
  | _ => false
def hasIndefList : List Item → Bool
  | [] => false
  | x :: xs => hasIndef x || hasIndefList xs
def hasIndefPairs : List (Item × Item) → Bool
  | [] => false
  | (k, v) :: r => hasIndef k || hasIndef v || hasIndefPairs r
end

mutual
/-- cbor2 builds every map key as an immutable, hashable object; pycardano's `IndefiniteList` is not hashable, so a map
key that contains an indefinite-length array makes `loads` raise `TypeError` -/
def keysHashable : Item → Bool
  | .array xs => keysHashableList xs
  | .arrayIndef xs => keysHashableList xs
  | .map kvs => keysHashablePairs kvs
  | .tag _ x => keysHashable x
  | _ => true
def keysHashableList : List Item → Bool
  | [] => true
  | x :: xs => keysHashable x && keysHashableList xs
def keysHashablePairs : List (Item × Item) → Bool
  | [] => true
  | (k, v) :: r => !hasIndef k && keysHashable k && keysHashable v && keysHashablePairs r
end

/-- `serialization.loads` -/
def loads (b : Bytes) : Option Item :=
  match decodeAll b with
  | some i => if keysHashable i then some i else Option.none
  | Option.none => Option.none

/-- `X.from_cbor(b)`: `loads` (any failure is an exception other than `DeserializeException`) then `X.from_primitive` -/
def fromBytes {α : Type} (dec : Item → Res α) (b : Bytes) : Res α :=
  match loads b with
  | some i => dec i
  | Option.none => .crash

end Pyc.Gov
