/-! The final loop of `TransactionBuilder._add_change_and_fee` (since repair 369407e), abstracted over the estimator:

```python
while True:
    self._outputs = deepcopy(original_outputs)
    _merge_changes(_calc_changes())          # change recomputed for the current self.fee
    final_fee = self._estimate_fee()         # fee of the transaction that results
    if final_fee <= self.fee:
        break
    self.fee = final_fee
```
`est f` = the value of `_estimate_fee()` after the change was recomputed for fee `f`. -/

namespace Pyc.FeeLoop

def loop (est : Int → Int) : Nat → Int → Option Int
  | 0, _ => none
  | fuel + 1, f => if est f ≤ f then some f else loop est fuel (est f)

end Pyc.FeeLoop
