import Pyc.Model.Basic

/-! # Required key hashes, placeholder witnesses and the signing loop of `TransactionBuilder`

Transliteration of pycardano/txbuilder.py (`_input_vkey_hashes`, `_required_signer_vkey_hashes`,
`_native_scripts_vkey_hashes`, `_certificate_vkey_hashes`, `_withdrawal_vkey_hashes`, `_vote_vkey_hashes`,
`_build_required_vkeys`, `_witness_count`, `_build_fake_vkey_witnesses`, the loop of `build_and_sign`),
pycardano/witness.py (`VerificationKeyWitness.__post_init__`) and pycardano/key.py (`to_verification_key`, `hash`).
Python `set`s are modelled as duplicate-free lists (`dedup`); every statement about them is a membership statement.
Hashing and signing are parameters (`H28`, `KeyOps.sign`): no cryptography is executed here. -/

namespace Pyc.Witness

/-- keep one occurrence of every element (a Python `set` / `OrderedSet` built by repeated `add`/`append`); the
order of the result carries no meaning: everything proved about it is a membership or a length statement -/
def dedup {α} [DecidableEq α] : List α → List α
  | [] => []
  | x :: xs => if x ∈ dedup xs then dedup xs else x :: dedup xs

/-- pycardano/nativescript.py: ScriptPubkey | ScriptAll | ScriptAny | ScriptNofK | InvalidBefore | InvalidHereAfter -/
inductive NScript where
  | pubkey (h : Bytes)
  | all (l : List NScript)
  | any (l : List NScript)
  | nofk (n : Nat) (l : List NScript)
  | before (slot : Nat)
  | after (slot : Nat)

mutual
/-- `_native_scripts_vkey_hashes._dfs` (repaired tree, commit 27bcd91: `ScriptNofK` is descended into) -/
def NScript.keys : NScript → List Bytes
  | .pubkey h => [h]
  | .all l => NScript.keysList l
  | .any l => NScript.keysList l
  | .nofk _ l => NScript.keysList l
  | .before _ => []
  | .after _ => []
/-- `for s in script.native_scripts: tmp.update(_dfs(s))` -/
def NScript.keysList : List NScript → List Bytes
  | [] => []
  | s :: r => NScript.keys s ++ NScript.keysList r
end

mutual
/-- `_dfs` as it was in the pinned tree: `isinstance(script, (ScriptAll, ScriptAny))` only -/
def NScript.keysPinned : NScript → List Bytes
  | .pubkey h => [h]
  | .all l => NScript.keysListPinned l
  | .any l => NScript.keysListPinned l
  | .nofk _ _ => []
  | .before _ => []
  | .after _ => []
def NScript.keysListPinned : List NScript → List Bytes
  | [] => []
  | s :: r => NScript.keysPinned s ++ NScript.keysListPinned r
end

/-- a credential: `VerificationKeyHash` (`isKey`) or `ScriptHash` -/
structure Cred where
  isKey : Bool
  hash : Bytes
  deriving DecidableEq, Repr

/-- the certificate classes of pycardano/certificate.py (CDDL codes 0-4, 7-18) -/
inductive CertKind where
  | stakeReg | stakeDereg | stakeDeleg | poolReg | poolRetire
  | regConway | deregConway | voteDeleg | stakeVoteDeleg | regDeleg | regVoteDeleg | regDelegVote
  | authHot | resignCold | regDRep | unregDRep | updateDRep
  deriving DecidableEq, Repr

/-- a certificate reduced to what witness collection looks at.  `cred` is `stake_credential` /
`drep_credential` / `committee_cold_credential`; for `poolReg` it is `pool_params.operator`, for `poolRetire`
`pool_keyhash` (both always key hashes); `owners` is `pool_params.pool_owners` -/
structure Cert where
  kind : CertKind
  cred : Cred
  owners : List Bytes := []
  deriving DecidableEq, Repr

/-- the certificate classes whose `stake_credential` the code inspects (first `isinstance` tuple) -/
def CertKind.isStakeKind : CertKind → Bool
  | .stakeReg | .stakeDereg | .stakeDeleg | .regConway | .deregConway | .voteDeleg | .stakeVoteDeleg
  | .regDeleg | .regVoteDeleg | .regDelegVote => true
  | _ => false

/-- `_check_and_add_vkey`: a credential contributes its hash iff it is a `VerificationKeyHash` -/
def credKey (c : Cred) : List Bytes := if c.isKey then [c.hash] else []

/-- the classes whose `drep_credential` is inspected (second `isinstance` tuple, commit e281a78) -/
def CertKind.isDRepKind : CertKind → Bool
  | .regDRep | .unregDRep | .updateDRep => true
  | _ => false

/-- the classes whose `committee_cold_credential` is inspected (third `isinstance` tuple, commit e281a78) -/
def CertKind.isCommitteeKind : CertKind → Bool
  | .authHot | .resignCold => true
  | _ => false

/-- one iteration of the loop in `_certificate_vkey_hashes` (repaired tree, commit e281a78) -/
def certVkeys (c : Cert) : List Bytes :=
  if c.kind.isStakeKind then credKey c.cred             -- _check_and_add_vkey(cert.stake_credential)
  else if c.kind.isDRepKind then credKey c.cred         -- _check_and_add_vkey(cert.drep_credential)
  else if c.kind.isCommitteeKind then credKey c.cred    -- _check_and_add_vkey(cert.committee_cold_credential)
  else if c.kind = .poolReg then c.cred.hash :: c.owners -- results.add(operator); results.update(pool_owners)
  else if c.kind = .poolRetire then [c.cred.hash]       -- results.add(cert.pool_keyhash)
  else []

/-- the loop as it was before commit e281a78: DRep deregistration / update, committee certificates and pool
owners were not looked at -/
def certVkeysPinned (c : Cert) : List Bytes :=
  if c.kind.isStakeKind then credKey c.cred
  else if c.kind = .regDRep then credKey c.cred
  else if c.kind = .poolReg then [c.cred.hash]
  else if c.kind = .poolRetire then [c.cred.hash]
  else []

/-- what the property text asks for ("certificate … credentials"), written without looking at the kind: the key
credential of *every* certificate, and every owner of a pool registration -/
def certVkeysFull (c : Cert) : List Bytes :=
  credKey c.cred ++ (if c.kind = .poolReg then c.owners else [])

/-- `Address.from_primitive(k)` on a withdrawal key followed by `address_type == NONE_KEY`: header nibble 0b1110 -/
def rewardKeyHash : Bytes → List Bytes
  | [] => []
  | h :: payload => if h.toNat / 16 = 14 then [payload] else []

/-- the fields of the builder that witness collection reads (after `build`).  Script lists hold the *native*
scripts only (`isinstance(script, NativeScript)`); Plutus scripts contribute nothing -/
structure State where
  inputs : List Cred                 -- `i.output.address.payment_part` of `self.inputs`
  collaterals : List Cred            -- … of `self.collaterals`
  requiredSigners : List Bytes       -- `self.required_signers` (None = [])
  nativeScripts : List NScript       -- `self.native_scripts` (None = [])
  inputScripts : List NScript        -- `self._inputs_to_scripts.values()` (incl. scripts found on reference UTxOs)
  mintScripts : List NScript         -- scripts of `self._minting_script_to_redeemers`
  withdrawalScripts : List NScript   -- scripts of `self._withdrawal_script_to_redeemers`
  certScripts : List NScript         -- scripts of `self._certificate_script_to_redeemers`
  certificates : List Cert           -- `self.certificates` (None = [])
  withdrawals : List Bytes           -- keys of `self.withdrawals` (reward account bytes)
  voters : List Cred                 -- `voter.credential` of the keys of `self.voting_procedures`
  witnessOverride : Option Nat       -- `self.witness_override`

/-- the native members of `all_scripts`.  The property keeps one script per script hash; hash-equal scripts are
equal scripts (no blake2b collision), so dropping repeats does not change the set of keys collected -/
def allNativeScripts (st : State) : List NScript :=
  st.nativeScripts ++ st.inputScripts ++ st.mintScripts ++ st.withdrawalScripts ++ st.certScripts

def keyCreds (l : List Cred) : List Bytes := (l.filter (·.isKey)).map (·.hash)

/-- `_input_vkey_hashes`: `for i in self.inputs + self.collaterals` -/
def inputVkeys (st : State) : List Bytes := keyCreds (st.inputs ++ st.collaterals)
/-- `_native_scripts_vkey_hashes` (repaired tree, commit 31135c8: `for script in self.all_scripts`) -/
def nativeVkeys (st : State) : List Bytes := NScript.keysList (allNativeScripts st)
/-- … as it was before commit 31135c8: `for script in self.native_scripts` -/
def nativeVkeysPinned (st : State) : List Bytes := NScript.keysList st.nativeScripts
/-- `_certificate_vkey_hashes` -/
def certificateVkeys (st : State) : List Bytes := st.certificates.flatMap certVkeys
/-- `_withdrawal_vkey_hashes` -/
def withdrawalVkeys (st : State) : List Bytes := st.withdrawals.flatMap rewardKeyHash
/-- `_vote_vkey_hashes` -/
def voteVkeys (st : State) : List Bytes := keyCreds st.voters

/-- `_build_required_vkeys` (a set: duplicate-free list) -/
def requiredVkeys (st : State) : List Bytes :=
  dedup (inputVkeys st ++ st.requiredSigners ++ nativeVkeys st ++ certificateVkeys st ++ withdrawalVkeys st
    ++ voteVkeys st)

/-- `_witness_count`: `self.witness_override or len(self._build_required_vkeys())` (None and 0 are falsy) -/
def witnessCount (st : State) : Nat :=
  match st.witnessOverride with
  | some n => if n ≠ 0 then n else (requiredVkeys st).length
  | none => (requiredVkeys st).length

/-! ## placeholder witnesses -/

structure Witness where
  vkey : Bytes
  sig : Bytes
  deriving DecidableEq, Repr

/-- 5797dc2cc919dfec0bb849551ebdf30d96e5cbe0f33f734a87fe826db30f7ef9 -/
def fakeVkeyConst : Bytes :=
  [0x57, 0x97, 0xdc, 0x2c, 0xc9, 0x19, 0xdf, 0xec, 0x0b, 0xb8, 0x49, 0x55, 0x1e, 0xbd, 0xf3, 0x0d,
   0x96, 0xe5, 0xcb, 0xe0, 0xf3, 0x3f, 0x73, 0x4a, 0x87, 0xfe, 0x82, 0x6d, 0xb3, 0x0f, 0x7e, 0xf9]

/-- 577ccb5b…1a5d ‖ 763dd42a…6a03 -/
def fakeSigConst : Bytes :=
  [0x57, 0x7c, 0xcb, 0x5b, 0x48, 0x7b, 0x64, 0xe3, 0x96, 0xb0, 0x97, 0x6c, 0x6f, 0x71, 0x55, 0x8e,
   0x52, 0xe4, 0x4a, 0xd2, 0x54, 0xdb, 0x7d, 0x06, 0xdf, 0xb7, 0x98, 0x43, 0xe5, 0x44, 0x1a, 0x5d,
   0x76, 0x3d, 0xd4, 0x2a, 0xdc, 0xf5, 0xe8, 0x80, 0x5d, 0x70, 0x37, 0x37, 0x22, 0xeb, 0xbc, 0xe6,
   0x2a, 0x58, 0xe3, 0xf3, 0x0d, 0xd4, 0x56, 0x0b, 0x9a, 0x89, 0x8b, 0x8c, 0xee, 0xab, 0x6a, 0x03]

/-- `bytes(x ^ y for x, y in zip(a, b))` (XOR since repair 504b48a; the AND of the pinned tree made placeholder 256 equal
placeholder 0) -/
def xorBytes (a b : Bytes) : Bytes := List.zipWith (fun x y => x ^^^ y) a b

/-- body of the loop in `_build_fake_vkey_witnesses` (`i_bytes = i.to_bytes(32, "big")`, defined for i < 2^256) -/
def fakeWitness (i : Nat) : Witness :=
  ⟨xorBytes fakeVkeyConst (beBytes 32 i), xorBytes fakeSigConst (beBytes 32 i ++ beBytes 32 i)⟩

/-- `NonEmptyOrderedSet(witnesses)` for `n = _witness_count()`: equal items are appended once -/
def fakeWitnessesN (n : Nat) : List Witness := dedup ((List.range n).map fakeWitness)

def fakeWitnesses (st : State) : List Witness := fakeWitnessesN (witnessCount st)

/-! ## the signing loop of `build_and_sign` -/

/-- what the loop uses of a signing-key object of type `κ` -/
structure KeyOps (κ : Type) where
  /-- `ExtendedSigningKey` (BIP32) rather than `SigningKey` -/
  ext : κ → Bool
  /-- `to_verification_key().payload`: 32 bytes, or 64 bytes (public key ‖ chain code) for an extended key -/
  vk : κ → Bytes
  /-- `signing_key.sign(msg)` -/
  sign : κ → Bytes → Bytes

/-- the key placed into the witness: `VerificationKeyWitness.__post_init__` turns an `ExtendedVerificationKey`
into `to_non_extended()` = `payload[:32]`; an ordinary key stays as it is -/
def vkey32 {κ} (ops : KeyOps κ) (k : κ) : Bytes :=
  if ops.ext k then (ops.vk k).take 32 else ops.vk k

/-- `signing_key.to_verification_key().hash()`: blake2b-224 of the payload, for an extended key of
`to_non_extended()` -/
def keyHash {κ} (ops : KeyOps κ) (H28 : Bytes → Bytes) (k : κ) : Bytes := H28 (vkey32 ops k)

/-- `if not force_skeys and vkey_hash not in required_vkeys: continue` -/
def signs {κ} (ops : KeyOps κ) (H28 : Bytes → Bytes) (force : Bool) (required : List Bytes) (k : κ) : Bool :=
  force || required.contains (keyHash ops H28 k)

/-- `for signing_key in set(signing_keys): … witness_set.vkey_witnesses.append(VerificationKeyWitness(vk, sig))` -/
def signLoop {κ} [DecidableEq κ] (ops : KeyOps κ) (H28 : Bytes → Bytes) (force : Bool) (required : List Bytes)
    (msg : Bytes) (keys : List κ) : List Witness :=
  dedup (((dedup keys).filter (signs ops H28 force required)).map fun k => ⟨vkey32 ops k, ops.sign k msg⟩)

/-- `build_and_sign` after `build`: the message is `tx_body.hash()` = `H32 (body bytes)` -/
def buildAndSign {κ} [DecidableEq κ] (ops : KeyOps κ) (H28 H32 : Bytes → Bytes) (st : State) (force : Bool)
    (body : Bytes) (keys : List κ) : List Witness :=
  signLoop ops H28 force (requiredVkeys st) (H32 body) keys

/-- concrete key descriptor used by the driver: `tag` stands for the rest of the key object's identity
(secret payload, key_type, description — what `Key.__eq__` compares) -/
structure SKey where
  ext : Bool
  vk : Bytes
  tag : Nat
  deriving DecidableEq, Repr

/-- signature *slots*: no cryptography in the model -/
def slotOps : KeyOps SKey := ⟨(·.ext), (·.vk), fun _ _ => []⟩

end Pyc.Witness
