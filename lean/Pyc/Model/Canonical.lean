import Pyc.Model.Cbor
import Pyc.Model.Value

/-! Serialization of map-like values: `DictCBORSerializable.to_shallow_primitive` sorts the items by
`(len(cbor(key)), cbor(key))` (serialization.py:961-970); `Asset` / `MultiAsset` normalise a deep copy first
(transaction.py:143-146, 250-253); `Value` is `[coin, multi_asset]` or the bare coin (transaction.py:300-304);
cbor2 encodes Python ints of any size (bignum tags 2 / 3 beyond 64 bits) and dicts in insertion order. -/

namespace Pyc
open Cbor

/-- minimal big-endian bytes of a natural (cbor2's bignum payload; zero ↦ empty) -/
def natBytesAux : Nat → Nat → Bytes → Bytes
  | 0, _, acc => acc
  | fuel+1, n, acc => if n = 0 then acc else natBytesAux fuel (n / 256) (UInt8.ofNat (n % 256) :: acc)

def natBytes (n : Nat) : Bytes := natBytesAux (n + 1) n []

/-- cbor2's encoding of a Python int as an item -/
def ofInt (i : Int) : Item :=
  if 0 ≤ i then
    if i.toNat < 2^64 then .uint i.toNat else .tag 2 (.bytes (natBytes i.toNat))
  else
    let n := (-1 - i).toNat
    if n < 2^64 then .nint n else .tag 3 (.bytes (natBytes n))

/-- Python tuple order on `(len(b), b)` -/
def lenLexLe (x y : Bytes) : Bool := x.length < y.length || (x.length == y.length && bytesLe x y)

/-- `_get_sortable_val` for a byte-string key (AssetName, ScriptHash, reward-account bytes) -/
def sortKeyBytes (k : Bytes) : Bytes := encode (.bytes k)

def keyLe (a b : Bytes) : Bool := lenLexLe (sortKeyBytes a) (sortKeyBytes b)

/-- `dict(sorted(self.data.items(), key=...))` for byte-string keys (Python's sort is stable; so is `isort`) -/
def canonSort {ν : Type} (m : List (Bytes × ν)) : List (Bytes × ν) := isort (fun a b => keyLe a.1 b.1) m

/-- `Asset.to_primitive` -/
def primAsset (a : Asset) : List (Bytes × Int) := canonSort (Asset.normalize a)

/-- `MultiAsset.to_primitive` : normalise, sort policies, then each inner asset its own `to_primitive` -/
def primMultiAsset (m : MultiAsset) : List (Bytes × List (Bytes × Int)) :=
  (canonSort (MultiAsset.normalize m)).map (fun p => (p.1, primAsset p.2))

def itemAsset (a : List (Bytes × Int)) : Item := .map (a.map (fun q => (.bytes q.1, ofInt q.2)))
def itemMultiAsset (m : List (Bytes × List (Bytes × Int))) : Item := .map (m.map (fun p => (.bytes p.1, itemAsset p.2)))

def encAsset (a : Asset) : Bytes := encode (itemAsset (primAsset a))
def encMultiAsset (m : MultiAsset) : Bytes := encode (itemMultiAsset (primMultiAsset m))

/-- `Value.to_shallow_primitive` with the repaired emptiness test (normalised bundle empty ⇒ bare integer) -/
def itemValue (v : Value) : Item :=
  if (MultiAsset.normalize v.ma).isEmpty then ofInt v.coin
  else .array [ofInt v.coin, itemMultiAsset (primMultiAsset v.ma)]

/-- the pinned tree's test (`if self.multi_asset:` on the un-normalised dict), kept for the defect witness -/
def itemValuePinned (v : Value) : Item :=
  if v.ma.isEmpty then ofInt v.coin
  else .array [ofInt v.coin, itemMultiAsset (primMultiAsset v.ma)]

def encValue (v : Value) : Bytes := encode (itemValue v)

/-- generic `DictCBORSerializable` with byte-string keys and already-encoded values (Withdrawals …) -/
def itemBytesMap (m : List (Bytes × Item)) : Item := .map ((canonSort m).map (fun p => (.bytes p.1, p.2)))

/-- sort key of an integer key (`dumps(key)`; metadata labels, redeemer tags) -/
def sortKeyInt (i : Int) : Bytes := encode (ofInt i)
def canonSortInt {ν : Type} (m : List (Int × ν)) : List (Int × ν) :=
  isort (fun a b => lenLexLe (sortKeyInt a.1) (sortKeyInt b.1)) m
def itemIntMap (m : List (Int × Item)) : Item := .map ((canonSortInt m).map (fun p => (ofInt p.1, p.2)))

/-- any `DictCBORSerializable`, keys and values given by their CBOR bytes: sort by `(len(cbor(k)), cbor(k))`,
emit a definite-length map in that order -/
def canonSortRaw (m : List (Bytes × Bytes)) : List (Bytes × Bytes) := isort (fun a b => lenLexLe a.1 b.1) m
def encRawMap (m : List (Bytes × Bytes)) : Bytes :=
  head 5 m.length ++ (canonSortRaw m).flatMap (fun p => p.1 ++ p.2)

end Pyc
