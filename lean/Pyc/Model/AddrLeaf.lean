import Pyc.Model.Addr
import Pyc.Model.CustomCodec

/-! The address leaf of `TransactionOutput` (transaction.py: field `address: Address`), built from the CIP-19 model
`Pyc/Model/Addr.lean` that C15 ties to `Address.to_primitive` / `Address.from_primitive` (address.py:338-408):

* `to_primitive` is `bytes(self)`: a CBOR byte string holding header byte ++ credentials;
* `from_primitive` is guarded by `@limit_primitive_type(bytes, str)` (anything else: `DeserializeException`), a `str` goes
  through `bech32.decode`, then the header byte selects kind and network.  A Byron header raises
  `DeserializeException`; every other failure (`IndexError`, `ValueError`, `AssertionError`, `TypeError`,
  `DecodingException`) is an exception a `Union` does not catch.

With this the output round-trip theorem (`output_roundtrip`, C01) no longer ASSUMES that the address codec restores what
it wrote: it is instantiated with the real one. -/

namespace Pyc.AddrLeaf
open Pyc Pyc.Cbor Pyc.Codec Pyc.Custom Pyc.Addr

/-- the characters of a CBOR text string as Python sees them; bech32 text is ASCII, any other code point is outside
the bech32 alphabet and is refused by `decode` all the same -/
def charsOf (b : Bytes) : List Char := b.map (fun x => Char.ofNat x.toNat)

def resOf : Except DecErr Address → Res Address
  | .ok a => .ok a
  | .error .byron => .deser
  | .error _ => .crash

/-- `Address.from_primitive` on a decoded CBOR item -/
def addrDec : Item → Res Address
  | .bytes b => resOf (fromBytes b)
  | .text s => resOf (fromBech32 (charsOf s))
  | _ => .deser

/-- `Address.to_primitive` (an address whose constructor raises has no primitive; it cannot exist as an object) -/
def addrEnc (a : Address) : Item :=
  match toBytes a with
  | some bs => .bytes bs
  | none => .simple 23

def sizedB : Part → Bool
  | .vkh p => p.length == 28
  | .sh p => p.length == 28
  | _ => true

/-- an address object that exists: the hash constructors asserted 28 bytes and `_infer_address_type` did not raise -/
def validB (a : Address) : Bool := sizedB a.payment && sizedB a.staking && (toBytes a).isSome

/-- the addresses that exist as Python objects -/
abbrev VAddr := { a : Address // validB a = true }

/-- the address leaf: `dec` is `addrDec`; the validity test never fails (`addrDec_valid`), it only provides the
subtype's proof component -/
def addrLeaf : Leaf VAddr where
  enc x := addrEnc x.1
  dec i :=
    match addrDec i with
    | .ok a => if h : validB a = true then .ok ⟨a, h⟩ else .crash
    | .deser => .deser
    | .crash => .crash

end Pyc.AddrLeaf
