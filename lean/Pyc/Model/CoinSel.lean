import Pyc.Model.Output

/-! Python-faithful model of `pycardano/coinselection.py`: `LargestFirstSelector.select` (lines 79-136) and
`RandomImproveMultiAsset` (lines 157-346), transliterated statement by statement, quirks included.

* A Python list is a `List`; `list.append` is `++ [x]`; the model is pure, so the caller's pool can not be altered
  (in Python `sorted(utxos)` / `list(utxos)` make the working copies; the harness snapshots the pool).
* `Value` arithmetic and `<=` are the functions of `Pyc/Model/Value.lean` (`Value.__le__` is the component-wise order for all operands: `Pyc.C05.le_iff`).
* Exceptions are `Except SelErr`; `crash` stands for a non-selection exception escaping `select`
  (`IndexError` / `KeyError` / `ValueError`), `fuel` for an exhausted recursion budget of the *model* (proved
  unreachable: `Pyc.C14.ri_terminates`).
* `RandomImproveMultiAsset(random_generator=it)`: the iterator is the `List Nat` threaded through every function
  (it is shared by the recursive `self.select` of the min-change top-up).  Indices are naturals: a negative index
  would be Python negative indexing and is outside the model.  `random_generator=[]` is falsy in Python and selects
  the `random.randint` path, which behaves like an injected stream of in-range indices that never runs dry.
* the chain context enters through `Env`: `max_tx_fee(context)`, `min_lovelace_post_alonzo(TransactionOutput(
  _FAKE_ADDR, change), context)` and `_FAKE_ADDR`; `Env.real` instantiates it with `Pyc/Model/Output.lean`. -/

namespace Pyc.CoinSel

structure UTxO where
  txid : Bytes
  index : Nat
  output : Output
  deriving Repr, Inhabited

namespace UTxO
/-- the `TransactionInput` -/
def ref (u : UTxO) : Bytes × Nat := (u.txid, u.index)
/-- `utxo.output.amount` -/
def amount (u : UTxO) : Value := u.output.amount
/-- `utxo.output.lovelace` -/
def lovelace (u : UTxO) : Int := u.output.amount.coin
end UTxO

inductive SelErr
  | insufficient   -- InsufficientUTxOBalanceException
  | maxInputs      -- MaxInputCountExceededException
  | depleted       -- InputUTxODepletedException
  | selection      -- UTxOSelectionException itself ("Random generator depleted!", "Random index ... out of range!")
  | crash          -- IndexError / KeyError / ValueError escaping `select`
  | fuel           -- model artefact: recursion budget exhausted (never returned, `ri_terminates`)
  deriving Repr, DecidableEq, Inhabited

structure Env where
  /-- `max_tx_fee(context)`; `none` = its `ValueError` -/
  maxFee : Option Int
  /-- `min_lovelace_post_alonzo(TransactionOutput(_FAKE_ADDR, change), context)` as a function of `change`;
  `none` = the `InvalidDataException` of `TransactionOutput.validate` (run by `to_cbor`) for a negative quantity -/
  minChange : Value → Option Int
  /-- `_FAKE_ADDR.to_primitive()` -/
  fakeAddr : Bytes

def Env.real (fp : FeeParams) (coinsPerByte : Int) (fake : Bytes) : Env :=
  { maxFee := maxTxFee fp 0,
    minChange := fun ch =>
      let o : Output := { addr := fake, amount := ch }
      if Output.negative o then none else some (minLovelace coinsPerByte o),
    fakeAddr := fake }

/-- `max_fee = max_tx_fee(context) if include_max_fee else 0` -/
def feeOf (env : Env) (includeFee : Bool) : Option Int := if includeFee then env.maxFee else some 0

/-- `total_requested = Value(max_fee); for o in outputs: total_requested += o.amount` -/
def requestSum (fee : Int) (outputs : List Output) : Value :=
  outputs.foldl (fun acc o => Value.add acc o.amount) ⟨fee, []⟩

/-- `max_input_count is not None and len(selected) > max_input_count`: tested *after* an input was appended
(largest-first loop, phase 1 of random-improve).  Every integer is a limit, `0` included ("no input may be selected"). -/
def overLimit (limit : Option Int) (n : Nat) : Bool :=
  match limit with
  | none => false
  | some l => decide ((n : Int) > l)

/-- `max_input_count is not None and len(selected) >= max_input_count`: tested by `_improve` *before* it appends -/
def atLimit (limit : Option Int) (n : Nat) : Bool :=
  match limit with
  | none => false
  | some l => decide ((n : Int) ≥ l)

/-- `max_input_count - len(selected) if max_input_count is not None else None`: the limit handed to the min-change
top-up is the remaining budget; a remaining budget of `0` means "no further input". -/
def topUpLimit (limit : Option Int) (n : Nat) : Option Int :=
  match limit with
  | none => none
  | some l => some (l - (n : Int))

/-! `min_lovelace_post_alonzo` computes on its own `Value(1000000, amt.multi_asset)` when the coin is 0 (since the
repair ba568fb it no longer writes into the `change` it is given), so `change.coin` read afterwards by both
selectors (`if change.coin < min_change_amount`, `Value(min_change_amount - change.coin)`) is the real coin. -/

/-- `for u in additional: selected_amount += u.output.amount` -/
def addAll (amt : Value) (l : List UTxO) : Value := l.foldl (fun a u => Value.add a u.amount) amt

/-- `TransactionOutput(_FAKE_ADDR, Value(min_change_amount - change.coin))` -/
def topUpOutput (env : Env) (c : Int) : Output := { addr := env.fakeAddr, amount := ⟨c, []⟩ }

/-! ## LargestFirstSelector -/

/-- insertion step of a stable ascending sort by `utxo.output.lovelace` -/
def insertAsc (x : UTxO) : List UTxO → List UTxO
  | [] => [x]
  | y :: ys => if y.lovelace < x.lovelace then y :: insertAsc x ys else x :: y :: ys

/-- `sorted(utxos, key=lambda utxo: utxo.output.lovelace)` (stable: equal keys keep their pool order) -/
def sortAsc (l : List UTxO) : List UTxO := l.foldr insertAsc []

structure LfState where
  /-- `available`, reversed: the head is what `available.pop()` returns next -/
  avail : List UTxO
  sel : List UTxO
  amt : Value
  deriving Repr, Inhabited

/-- `while not total_requested <= selected_amount: ...` (structural in `available`) -/
def lfLoop (total : Value) (limit : Option Int) : List UTxO → List UTxO → Value → Except SelErr LfState
  | [], sel, amt => if Value.le total amt then .ok ⟨[], sel, amt⟩ else .error .insufficient
  | u :: rest, sel, amt =>
    if Value.le total amt then .ok ⟨u :: rest, sel, amt⟩
    else if overLimit limit (sel.length + 1) then .error .maxInputs
    else lfLoop total limit rest (sel ++ [u]) (Value.add amt u.amount)

/-- `select(..., respect_min_utxo=False)` with `max_fee` already determined: lines 88-107 -/
def lfBase (fee : Int) (utxos : List UTxO) (outputs : List Output) (limit : Option Int) : Except SelErr LfState :=
  lfLoop (requestSum fee outputs) limit (sortAsc utxos).reverse [] ⟨0, []⟩

/-- `LargestFirstSelector.select` -/
def lfSelect (env : Env) (utxos : List UTxO) (outputs : List Output) (limit : Option Int)
    (includeFee respectMin : Bool) : Except SelErr (List UTxO × Value) :=
  match feeOf env includeFee with
  | none => .error .crash
  | some fee =>
    let total := requestSum fee outputs
    match lfBase fee utxos outputs limit with
    | .error e => .error e
    | .ok s =>
      if respectMin then
        let change := Value.sub s.amt total
        match env.minChange change with
        | none => .error .crash
        | some minChange =>
          if change.coin < minChange then
            -- self.select(available, [TransactionOutput(_FAKE_ADDR, Value(..))], context, limit', False, False):
            -- `available` (ascending) is sorted again by the callee
            match lfBase 0 s.avail.reverse [topUpOutput env (minChange - change.coin)]
                (topUpLimit limit s.sel.length) with
            | .error e => .error e
            | .ok s2 => .ok (s.sel ++ s2.sel, Value.sub (addAll s.amt s2.sel) total)
          else .ok (s.sel, Value.sub s.amt total)
      else .ok (s.sel, Value.sub s.amt total)

/-! ## RandomImproveMultiAsset -/

inductive Draw
  | ok (i : Nat) (u : UTxO) (rest : List Nat)
  /-- exception, with the state of the iterator after it -/
  | err (e : SelErr) (rest : List Nat)

/-- `_get_next_random`: an injected index outside `0 .. len(utxos) - 1` is a selection error (`i >= len(utxos)`; the
`utxos[i]? = none` branch below is unreachable and kept only so that the function is total without a proof) -/
def nextRandom (utxos : List UTxO) (stream : List Nat) : Draw :=
  match utxos with
  | [] => .err .depleted stream
  | _ :: _ =>
    match stream with
    | [] => .err .selection []
    | i :: rest =>
      if i ≥ utxos.length then .err .selection rest
      else match utxos[i]? with
        | none => .err .crash rest
        | some u => .ok i u rest

structure St where
  rem : List UTxO
  sel : List UTxO
  amt : Value
  stream : List Nat
  deriving Repr, Inhabited

/-- `_random_select_subset`: `fuel` ≥ `len(remaining) + 1` suffices (every iteration pops one element) -/
def subsetLoop (amount : Value) : Nat → St → Except SelErr St
  | 0, _ => .error .fuel
  | fuel + 1, s =>
    if Value.le amount s.amt then .ok s
    else
      -- `if not remaining: raise InputUTxODepletedException` is the first test of `nextRandom` as well
      match nextRandom s.rem s.stream with
      | .err e _ => .error e
      | .ok i u rest =>
        subsetLoop amount fuel ⟨s.rem.eraseIdx i, s.sel ++ [u], Value.add s.amt u.amount, rest⟩

/-- `_split_by_asset` -/
def splitByAsset (v : Value) : List Value :=
  (if v.coin ≠ 0 then [(⟨v.coin, []⟩ : Value)] else []) ++
  v.ma.flatMap (fun p => (p.2.filter (fun q => q.2 != 0)).map (fun q => (⟨0, [(p.1, [(q.1, q.2)])]⟩ : Value)))

/-- `_get_single_asset_val` (on the single-asset values produced by `splitByAsset`; the last case is unreachable
for them — in Python it is an `IndexError`) -/
def singleAssetVal (v : Value) : Int :=
  if v.coin ≠ 0 then v.coin
  else match v.ma with
    | (_, (_, q) :: _) :: _ => q
    | _ => 0

/-- insertion step of a stable descending sort by `_get_single_asset_val` -/
def insertDesc (x : Value) : List Value → List Value
  | [] => [x]
  | y :: ys => if singleAssetVal y > singleAssetVal x then y :: insertDesc x ys else x :: y :: ys

/-- `sorted(assets, key=self._get_single_asset_val, reverse=True)` (stable) -/
def sortDesc (l : List Value) : List Value := l.foldr insertDesc []

/-- `_find_diff_by_former(a, b)`; `none` = `IndexError` (empty `a`) or `KeyError` (`b.multi_asset[p][n]` absent) -/
def findDiff (a b : Value) : Option Int :=
  if a.coin ≠ 0 then some (a.coin - b.coin)
  else match a.ma with
    | [] => none
    | (p, x) :: _ =>
      match x with
      | [] => none
      | (n, q) :: _ =>
        if Dict.has b.ma p && Dict.has (Dict.getD b.ma p []) n then some (q - Dict.getD (Dict.getD b.ma p []) n 0)
        else none

inductive Stop
  | done     -- `return`
  | caught   -- a `UTxOSelectionException` (swallowed by the caller's `except`)
  | crash    -- any other exception
  | fuel
  deriving Repr, DecidableEq, Inhabited

inductive ImpStep
  /-- return or exception: `selected`, `selected_amount` unchanged -/
  | stop (s : Stop) (stream : List Nat)
  /-- recursive call on `remaining[:i] + remaining[i+1:]`, `take` = the candidate was appended -/
  | next (i : Nat) (u : UTxO) (take : Bool) (stream : List Nat)

/-- one activation of `_improve` up to its recursive call -/
def improveStep (limit : Option Int) (ideal upper : Value) (rem sel : List UTxO) (amt : Value)
    (stream : List Nat) : ImpStep :=
  match rem with
  | [] => .stop .done stream
  | _ :: _ =>
    match findDiff ideal amt with
    | none => .stop .crash stream
    | some d =>
      if d ≤ 0 then .stop .done stream
      else if atLimit limit sel.length then .stop .done stream             -- `return`: tested *before* appending
      else match nextRandom rem stream with
        | .err .crash st => .stop .crash st
        | .err _ st => .stop .caught st
        | .ok i u st =>
          let amt2 := Value.add amt u.amount
          match findDiff ideal amt2 with
          | none => .stop .crash st
          | some d2 =>
            if d2.natAbs < d.natAbs then
              match findDiff upper amt2 with
              | none => .stop .crash st
              | some d3 => .next i u (decide (d3 ≥ 0)) st
            else .next i u false st

structure ImpRes where
  sel : List UTxO
  amt : Value
  stream : List Nat
  stop : Stop
  deriving Repr, Inhabited

/-- `_improve`: `fuel` ≥ `len(remaining) + 1` suffices (the recursive call drops one element) -/
def improve (limit : Option Int) (ideal upper : Value) : Nat → List UTxO → List UTxO → Value → List Nat → ImpRes
  | 0, _, sel, amt, st => ⟨sel, amt, st, .fuel⟩
  | fuel + 1, rem, sel, amt, st =>
    match improveStep limit ideal upper rem sel amt st with
    | .stop s st' => ⟨sel, amt, st', s⟩
    | .next i u take st' =>
      if take then improve limit ideal upper fuel (rem.eraseIdx i) (sel ++ [u]) (Value.add amt u.amount) st'
      else improve limit ideal upper fuel (rem.eraseIdx i) sel amt st'

/-- Phase 1: `for r in request_sorted: _random_select_subset(...); if max_input_count is not None and len(selected) > ...` -/
def phase1 (limit : Option Int) : List Value → St → Except SelErr St
  | [], s => .ok s
  | r :: rs, s =>
    match subsetLoop r (s.rem.length + 1) s with
    | .error e => .error e
    | .ok s' => if overLimit limit s'.sel.length then .error .maxInputs else phase1 limit rs s'

/-- `[utxo for utxo in remaining if utxo not in new_selected]`.  `in` is identity-or-`==`; for a pool with
pairwise distinct inputs (the domain of C14) that is equality of the input reference. -/
def dropSelected (rem new : List UTxO) : List UTxO :=
  rem.filter (fun u => !(new.any (fun v => v.ref == u.ref)))

/-- Phase 2: `for request in reversed(request_sorted): try: self._improve(...) except UTxOSelectionException: pass` -/
def phase2 (limit : Option Int) : List Value → St → Except SelErr St
  | [], s => .ok s
  | r :: rs, s =>
    let ideal := Value.add r r
    let upper := Value.add ideal r
    let res := improve limit ideal upper (s.rem.length + 1) s.rem s.sel s.amt s.stream
    match res.stop with
    | .crash => .error .crash
    | .fuel => .error .fuel
    | _ => phase2 limit rs ⟨dropSelected s.rem (res.sel.drop s.sel.length), res.sel, res.amt, res.stream⟩

/-- `select(..., respect_min_utxo=False)` with `max_fee` already determined: lines 281-317 -/
def riBase (fee : Int) (utxos : List UTxO) (outputs : List Output) (limit : Option Int) (stream : List Nat) :
    Except SelErr St :=
  let sorted := sortDesc (splitByAsset (requestSum fee outputs))
  match phase1 limit sorted ⟨utxos, [], ⟨0, []⟩, stream⟩ with
  | .error e => .error e
  | .ok s1 => phase2 limit sorted.reverse s1

/-- `RandomImproveMultiAsset.select` -/
def riSelect (env : Env) (utxos : List UTxO) (outputs : List Output) (limit : Option Int)
    (includeFee respectMin : Bool) (stream : List Nat) : Except SelErr (List UTxO × Value) :=
  match feeOf env includeFee with
  | none => .error .crash
  | some fee =>
    let total := requestSum fee outputs
    match riBase fee utxos outputs limit stream with
    | .error e => .error e
    | .ok s =>
      if respectMin then
        let change := Value.sub s.amt total
        match env.minChange change with
        | none => .error .crash
        | some minChange =>
          if change.coin < minChange then
            match riBase 0 s.rem [topUpOutput env (minChange - change.coin)] (topUpLimit limit s.sel.length)
                s.stream with
            | .error e => .error e
            | .ok s2 => .ok (s.sel ++ s2.sel, Value.sub (addAll s.amt s2.sel) total)
          else .ok (s.sel, Value.sub s.amt total)
      else .ok (s.sel, Value.sub s.amt total)

end Pyc.CoinSel
