import Pyc.Model.Basic

/-! Python-faithful model of `Asset`, `MultiAsset`, `Value` (pycardano/transaction.py:84-305).

A Python `dict` is an association list in insertion order; `d[k] = v` overwrites in place when the key is
present and appends otherwise; popping while iterating over `list(d.items())` is a filter.  All quantities
are unbounded `Int` (Python ints).  Every function below transliterates one Python method; the comment names it. -/

namespace Pyc

abbrev Asset := List (Bytes × Int)
abbrev MultiAsset := List (Bytes × Asset)

namespace Dict
variable {ν : Type}

/-- `k in d` -/
def has (m : List (Bytes × ν)) (k : Bytes) : Bool :=
  match m with
  | [] => false
  | (k', _) :: r => k' = k || has r k

/-- `d.get(k, dflt)` -/
def getD (m : List (Bytes × ν)) (k : Bytes) (dflt : ν) : ν :=
  match m with
  | [] => dflt
  | (k', v) :: r => if k' = k then v else getD r k dflt

/-- `d[k] = v` -/
def set (m : List (Bytes × ν)) (k : Bytes) (v : ν) : List (Bytes × ν) :=
  match m with
  | [] => [(k, v)]
  | (k', v') :: r => if k' = k then (k', v) :: r else (k', v') :: set r k v

def keys (m : List (Bytes × ν)) : List Bytes := m.map (·.1)

/-- representation invariant of a Python dict: keys are unique -/
def WF (m : List (Bytes × ν)) : Prop := (keys m).Nodup

/-- the loop `for k in b: acc[k] = op(acc.get(k, d), b[k])` shared by every `__add__` / `__sub__` -/
def merge (op : ν → ν → ν) (d : ν) (a b : List (Bytes × ν)) : List (Bytes × ν) :=
  b.foldl (fun acc p => set acc p.1 (op (getD acc p.1 d) p.2)) a

/-- `dict(pairs)` -/
def ofPairs (ps : List (Bytes × ν)) : List (Bytes × ν) := ps.foldl (fun acc p => set acc p.1 p.2) []

end Dict

namespace Asset
open Dict

/-- `Asset.normalize` -/
def normalize (a : Asset) : Asset := a.filter (fun p => p.2 != 0)

/-- loop body of `Asset.__add__` before `normalize()` -/
def addRaw (a b : Asset) : Asset := merge (· + ·) 0 a b
/-- `Asset.__add__` (also `union`, and the value produced by `__iadd__`) -/
def add (a b : Asset) : Asset := normalize (addRaw a b)

def subRaw (a b : Asset) : Asset := merge (· - ·) 0 a b
/-- `Asset.__sub__` -/
def sub (a b : Asset) : Asset := normalize (subRaw a b)

/-- `Asset.__eq__`: `all(self.get(n, 0) == other.get(n, 0) for n in set(self) | set(other))` (component-wise, like
`__le__`; the enumeration of the union of the key sets is irrelevant: `Asset.eq_enumeration`, Proofs/Value.lean) -/
def eq (a b : Asset) : Bool := (keys a ++ keys b).all (fun n => getD a n 0 == getD b n 0)

/-- `Asset.__le__`: `for n in set(self) | set(other): if self.get(n, 0) > other.get(n, 0): return False` /
`return True`.  The union of the two key sets is enumerated as `keys a ++ keys b`; a Python set is iterated in
an unspecified order and without repeats, and the result depends on neither (`Asset.le_enumeration`,
Proofs/Value.lean: every list with the same members gives the same answer). -/
def le (a b : Asset) : Bool := (keys a ++ keys b).all (fun n => !decide (getD a n 0 > getD b n 0))

/-- the abstraction: quantity of name `n` (absent = 0) -/
def qty (a : Asset) (n : Bytes) : Int := getD a n 0

end Asset

namespace MultiAsset
open Dict

/-- `MultiAsset.normalize` -/
def normalize (m : MultiAsset) : MultiAsset :=
  (m.map (fun p => (p.1, Asset.normalize p.2))).filter (fun p => !p.2.isEmpty)

def addRaw (a b : MultiAsset) : MultiAsset := merge Asset.add [] a b
/-- `MultiAsset.__add__` -/
def add (a b : MultiAsset) : MultiAsset := normalize (addRaw a b)

def subRaw (a b : MultiAsset) : MultiAsset := merge Asset.sub [] a b
/-- `MultiAsset.__sub__` -/
def sub (a b : MultiAsset) : MultiAsset := normalize (subRaw a b)

/-- `MultiAsset.__eq__`: `all(self.get(p, Asset()) == other.get(p, Asset()) for p in set(self) | set(other))` -/
def eq (a b : MultiAsset) : Bool := (keys a ++ keys b).all (fun p => Asset.eq (getD a p []) (getD b p []))

/-- `MultiAsset.__le__`: `for p in set(self) | set(other): if not self.get(p, Asset()) <= other.get(p, Asset()):
return False` / `return True` (enumeration of the union: see `Asset.le`, `MultiAsset.le_enumeration`) -/
def le (a b : MultiAsset) : Bool := (keys a ++ keys b).all (fun p => Asset.le (getD a p []) (getD b p []))

/-- inner loop of `MultiAsset.filter` for one policy -/
def filterInner (crit : Bytes → Bytes → Int → Bool) (p : Bytes) (a : Asset) (acc : MultiAsset) : MultiAsset :=
  a.foldl (fun acc q => if crit p q.1 q.2 then set acc p (set (getD acc p []) q.1 q.2) else acc) acc

/-- `MultiAsset.filter` -/
def filter (m : MultiAsset) (crit : Bytes → Bytes → Int → Bool) : MultiAsset :=
  m.foldl (fun acc p => filterInner crit p.1 p.2 acc) []

/-- `MultiAsset.count` -/
def count (m : MultiAsset) (crit : Bytes → Bytes → Int → Bool) : Nat :=
  m.foldl (fun c p => p.2.foldl (fun c q => if crit p.1 q.1 q.2 then c + 1 else c) c) 0

/-- the abstraction: quantity of asset `(p, n)` (absent = 0) -/
def qty (m : MultiAsset) (p n : Bytes) : Int := Asset.qty (getD m p []) n

end MultiAsset

structure Value where
  coin : Int
  ma : MultiAsset
  deriving Repr, DecidableEq, Inhabited

namespace Value

/-- `Value.__add__` -/
def add (a b : Value) : Value := ⟨a.coin + b.coin, MultiAsset.add a.ma b.ma⟩
/-- `Value.__sub__` -/
def sub (a b : Value) : Value := ⟨a.coin - b.coin, MultiAsset.sub a.ma b.ma⟩
/-- `Value.__eq__` -/
def eq (a b : Value) : Bool := a.coin == b.coin && MultiAsset.eq a.ma b.ma
/-- `Value.__le__` -/
def le (a b : Value) : Bool := decide (a.coin ≤ b.coin) && MultiAsset.le a.ma b.ma
/-- `Value.__lt__` -/
def lt (a b : Value) : Bool := le a b && !eq a b

end Value

end Pyc
