/-! Shared basics for the executable models (no Mathlib). -/

namespace Pyc

abbrev Bytes := List UInt8

/-- lexicographic `<` on byte strings (Python `bytes.__lt__`) -/
def bytesLt : Bytes → Bytes → Bool
  | [], [] => false
  | [], _ :: _ => true
  | _ :: _, [] => false
  | a :: as, b :: bs => if a < b then true else if b < a then false else bytesLt as bs

/-- lexicographic `≤` on byte strings -/
def bytesLe (a b : Bytes) : Bool := !bytesLt b a

def hexDigit (n : Nat) : Char :=
  if n < 10 then Char.ofNat (48 + n) else Char.ofNat (87 + n)

def toHex (bs : Bytes) : String :=
  String.ofList (bs.flatMap fun b => [hexDigit (b.toNat / 16), hexDigit (b.toNat % 16)])

def hexVal (c : Char) : Option Nat :=
  if '0' ≤ c ∧ c ≤ '9' then some (c.toNat - 48)
  else if 'a' ≤ c ∧ c ≤ 'f' then some (c.toNat - 87)
  else if 'A' ≤ c ∧ c ≤ 'F' then some (c.toNat - 55)
  else none

def ofHexList : List Char → Option Bytes
  | [] => some []
  | [_] => none
  | a :: b :: r =>
    match hexVal a, hexVal b, ofHexList r with
    | some x, some y, some t => some (UInt8.ofNat (x * 16 + y) :: t)
    | _, _, _ => none

def ofHex (s : String) : Option Bytes := ofHexList s.toList

/-- big-endian bytes of `n` in exactly `k` bytes -/
def beBytes : Nat → Nat → Bytes
  | 0, _ => []
  | k+1, n => UInt8.ofNat (n / 256 ^ k % 256) :: beBytes k n

def fromBE : Bytes → Nat → Nat
  | [], acc => acc
  | b :: bs, acc => fromBE bs (acc * 256 + b.toNat)

/-- little-endian bytes of `n` in exactly `k` bytes -/
def leBytes : Nat → Nat → Bytes
  | 0, _ => []
  | k+1, n => UInt8.ofNat (n % 256) :: leBytes k (n / 256)

def fromLE : Bytes → Nat
  | [] => 0
  | b :: bs => b.toNat + 256 * fromLE bs

end Pyc

namespace Pyc

/-- stable insertion sort by structural recursion (kernel-reducible, unlike `List.mergeSort`; same result as any
stable sort such as Python's `sorted`) -/
def insertBy {α : Type} (le : α → α → Bool) (a : α) : List α → List α
  | [] => [a]
  | b :: l => if le a b then a :: b :: l else b :: insertBy le a l

def isort {α : Type} (le : α → α → Bool) : List α → List α
  | [] => []
  | a :: l => insertBy le a (isort le l)

end Pyc
