import Pyc.Model.Cbor
import Pyc.Model.Canonical
import Pyc.Spec.PlutusData

/-! # Executable model of what `pycardano/plutus.py` + `serialization.py` DO with Plutus data

`Prim` is the Python object tree that reaches `cbor2.dumps(…, default=default_encoder)`: `int`, `bytes`,
`ByteString`, plain `list`, `IndefiniteList`, `dict` (insertion ordered, keys hashable) and `CBORTag`.
`TObj` is a tree of typed `PlutusData` dataclass instances.  `PJson` is the JSON form (`to_dict` / `from_dict`).
Only the type `PData` is taken from the specification file (it is the abstract datum the routes start from). -/

namespace Pyc.Plutus
open Pyc Pyc.Cbor

/-! ## constructor id ↔ tag (plutus.py:450-476) -/

/-- `get_tag` -/
def getTag (c : Int) : Option Nat :=
  if 0 ≤ c ∧ c < 7 then some (121 + c).toNat
  else if 7 ≤ c ∧ c < 128 then some (1280 + (c - 7)).toNat
  else none

/-- the `else` branch of `get_constructor_id_and_fields`: tag ↦ constructor id (`none` = DeserializeException) -/
def constrOfTag (t : Nat) : Option Int :=
  if 121 ≤ t ∧ t < 128 then some ((t : Int) - 121)
  else if 1280 ≤ t ∧ t < 1536 then some ((t : Int) - 1280 + 7)
  else none

/-! ## Python object trees -/

inductive Prim where
  | int (i : Int)
  | bytes (b : Bytes)
  | bstr (b : Bytes)                    -- serialization.ByteString
  | list (xs : List Prim)               -- plain Python list
  | ilist (xs : List Prim)              -- serialization.IndefiniteList
  | dict (kvs : List (Prim × Prim))     -- dict, insertion order
  | tag (t : Nat) (v : Prim)            -- cbor2.CBORTag
  deriving Repr, Inhabited

/-- what Python hashes / compares a dict key by (`ByteString.__hash__/__eq__` agree with `bytes`); `none` = unhashable
(lists, `IndefiniteList`, dicts, tags holding them) -/
inductive Atom where
  | int (i : Int)
  | bytes (b : Bytes)
  deriving DecidableEq, Repr

def keyOf : Prim → Option Atom
  | .int i => some (.int i)
  | .bytes b => some (.bytes b)
  | .bstr b => some (.bytes b)
  | _ => none

/-- `d[k] = v` on an insertion-ordered dict: an equal key keeps its place (and the old key object), else append -/
def dictInsert : List (Prim × Prim) → Prim → Prim → List (Prim × Prim)
  | [], k, v => [(k, v)]
  | (k', v') :: r, k, v => if keyOf k' = keyOf k then (k', v) :: r else (k', v') :: dictInsert r k v

/-- `{k: v for …}`; `none` = `TypeError: unhashable type` -/
def dictBuild : List (Prim × Prim) → List (Prim × Prim) → Option (List (Prim × Prim))
  | acc, [] => some acc
  | acc, (k, v) :: r => if (keyOf k).isSome then dictBuild (dictInsert acc k v) r else none

/-! ## `cbor2.dumps(·, default=default_encoder)` (serialization.py:218-260) -/

/-- `for i in range(0, len(value), 64): value[i:min(i + 64, len(value))]`; `n` = number of iterations left -/
def pyChunksFrom (b : Bytes) : Nat → Nat → List Bytes
  | 0, _ => []
  | n+1, i => (b.drop i).take 64 :: pyChunksFrom b n (i + 64)

def pyChunks (b : Bytes) : List Bytes := pyChunksFrom b ((b.length + 63) / 64) 0

/-- `default_encoder` on a `ByteString` -/
def encByteString (b : Bytes) : Item :=
  if b.length > 64 then .bytesChunked (pyChunks b) else .bytes b

mutual
def encodePrim : Prim → Item
  | .int i => ofInt i
  | .bytes b => .bytes b
  | .bstr b => encByteString b
  | .list xs => .array (encodePrimList xs)
  | .ilist xs => .arrayIndef (encodePrimList xs)
  | .dict kvs => .map (encodePrimPairs kvs)
  | .tag t v => .tag t (encodePrim v)
def encodePrimList : List Prim → List Item
  | [] => []
  | x :: xs => encodePrim x :: encodePrimList xs
def encodePrimPairs : List (Prim × Prim) → List (Item × Item)
  | [] => []
  | (k, v) :: r => (encodePrim k, encodePrim v) :: encodePrimPairs r
end

/-! ## `RawPlutusData.to_primitive` (`_dfs`, plutus.py:806-820)

`IndefiniteList` is a `UserList`, not a `list`: `_dfs` returns it untouched, without descending. -/

mutual
def rawDfs : Prim → Prim
  | .int i => .int i
  | .bytes b => .bytes b
  | .bstr b => .bstr b
  | .list xs => if xs.isEmpty then .list xs else .ilist (rawDfsList xs)
  | .ilist xs => .ilist xs
  | .dict kvs => .dict (rawDfsPairs kvs)
  | .tag t v => rawDfsTag t v
def rawDfsTag (t : Nat) : Prim → Prim
  | .list xs =>
    if xs.isEmpty then .tag t (.list xs)
    else if t = 102 then .tag t (.list (rawDfsList xs))
    else .tag t (.ilist (rawDfsList xs))
  | .int i => .tag t (.int i)
  | .bytes b => .tag t (.bytes b)
  | .bstr b => .tag t (.bstr b)
  | .ilist xs => .tag t (.ilist xs)
  | .dict kvs => .tag t (.dict kvs)
  | .tag t' v => .tag t (.tag t' v)
def rawDfsList : List Prim → List Prim
  | [] => []
  | x :: xs => rawDfs x :: rawDfsList xs
def rawDfsPairs : List (Prim × Prim) → List (Prim × Prim)
  | [] => []
  | (k, v) :: r => (rawDfs k, rawDfs v) :: rawDfsPairs r
end

/-- `RawPlutusData(p).to_cbor()` -/
def rawToCbor (p : Prim) : Bytes := encode (encodePrim (rawDfs p))

/-! ## decoding: `cbor2.loads` + `RawPlutusData.from_primitive`

`cext = false`: the pure-Python decoder with pycardano's `decode_array` patch (serialization.py:202-215), an indefinite
array becomes an `IndefiniteList`.  `cext = true`: the C extension, which the patch does not reach — a plain list.
Either way a chunked byte string is joined into plain `bytes` and a bignum tag becomes an `int`.
Simplification (stated in the check's assumptions): a map key that is not an integer or a byte string makes the model
refuse (`none`); the real decoders refuse only keys holding an `IndefiniteList` and otherwise build tuples / frozen
dicts. Text strings, simple values and floats are not Plutus data (`none`). -/

def joinChunks : List Bytes → Bytes
  | [] => []
  | c :: cs => c ++ joinChunks cs

/-- `int.from_bytes(payload, "big")` for bignum tag 2 (and `-1 - …` for tag 3) -/
def bignumOf (t : Nat) (payload : Bytes) : Prim :=
  if t = 2 then .int (fromBE payload 0) else .int (-1 - (fromBE payload 0 : Int))

/-- `decode_positive_bignum` / `decode_negative_bignum`: the tagged item must be a byte string -/
def decodeBignum (t : Nat) : Item → Option Prim
  | .bytes b => some (bignumOf t b)
  | .bytesChunked cs => some (bignumOf t (joinChunks cs))
  | _ => none

mutual
def decodeItem (cext : Bool) : Item → Option Prim
  | .uint n => some (.int n)
  | .nint n => some (.int (-1 - (n : Int)))
  | .bytes b => some (.bytes b)
  | .bytesChunked cs => some (.bytes (joinChunks cs))
  | .text _ => none
  | .simple _ => none
  | .array xs => (decodeItemList cext xs).map .list
  | .arrayIndef xs => (decodeItemList cext xs).map (fun l => if cext then .list l else .ilist l)
  | .map kvs => ((decodeItemPairs cext kvs).bind (dictBuild [])).map .dict
  | .tag t x =>
    if t = 2 ∨ t = 3 then decodeBignum t x
    else (decodeItem cext x).map (.tag t)
def decodeItemList (cext : Bool) : List Item → Option (List Prim)
  | [] => some []
  | x :: xs =>
    match decodeItem cext x, decodeItemList cext xs with
    | some p, some ps => some (p :: ps)
    | _, _ => none
def decodeItemPairs (cext : Bool) : List (Item × Item) → Option (List (Prim × Prim))
  | [] => some []
  | (k, v) :: r =>
    match decodeItem cext k, decodeItem cext v, decodeItemPairs cext r with
    | some k', some v', some r' => some ((k', v') :: r')
    | _, _, _ => none
end

/-- `@limit_primitive_type(PlutusData, dict, int, bytes, IndefiniteList, RawCBOR, CBORTag)`: a plain `list` is refused -/
def rawFromPrimitive : Prim → Option Prim
  | .list _ => none
  | .bstr _ => none
  | p => some p

/-- `RawPlutusData.from_cbor(bs)` (`.data` of the result) -/
def rawFromCbor (cext : Bool) (fuel : Nat) (bs : Bytes) : Option Prim :=
  match decode fuel bs with
  | some (it, []) => (decodeItem cext it).bind rawFromPrimitive
  | _ => none

/-! ## JSON form (plutus.py:617-793, 822-922) -/

inductive PJson where
  | constr (c : Int) (fields : List PJson)     -- {"constructor": c, "fields": [...]}
  | int (i : Int)                              -- {"int": i}
  | bytes (b : Bytes)                          -- {"bytes": hex(b)}
  | list (xs : List PJson)                     -- {"list": [...]}
  | map (kvs : List (PJson × PJson))           -- {"map": [{"k": .., "v": ..}, ...]}
  deriving Repr, Inhabited

/- `_dfs` of `RawPlutusData.to_dict` with `get_constructor_id_and_fields` inlined: tag 102 holds a two-element
sequence `[constructor, fields]`, the compact tags hold the fields; `none` = an exception (unknown tag, wrong length,
fields that are not a sequence) or a constructor index that is not an integer -/
mutual
def toDict : Prim → Option PJson
  | .int i => some (.int i)
  | .bytes b => some (.bytes b)
  | .bstr b => some (.bytes b)
  | .list xs => (toDictList xs).map .list
  | .ilist xs => (toDictList xs).map .list
  | .dict kvs => (toDictPairs kvs).map .map
  | .tag t v =>
    if t = 102 then toDict102 v
    else
      match constrOfTag t with
      | some c => (toDictFields v).map (.constr c)
      | none => none
def toDictFields : Prim → Option (List PJson)
  | .list xs => toDictList xs
  | .ilist xs => toDictList xs
  | _ => none
def toDict102 : Prim → Option PJson
  | .list xs => toDict102Seq xs
  | .ilist xs => toDict102Seq xs
  | _ => none
def toDict102Seq : List Prim → Option PJson
  | [] => none
  | c :: r =>
    match r with
    | [f] =>
      match c with
      | .int i => (toDictFields f).map (.constr i)
      | _ => none
    | _ => none
def toDictList : List Prim → Option (List PJson)
  | [] => some []
  | x :: xs =>
    match toDict x, toDictList xs with
    | some p, some ps => some (p :: ps)
    | _, _ => none
def toDictPairs : List (Prim × Prim) → Option (List (PJson × PJson))
  | [] => some []
  | (k, v) :: r =>
    match toDict k, toDict v, toDictPairs r with
    | some k', some v', some r' => some ((k', v') :: r')
    | _, _, _ => none
end

/-- `RawPlutusData(p).to_dict()` -/
def rawToDict (p : Prim) : Option PJson := toDict (rawDfs p)

/- `_dfs` of `RawPlutusData.from_dict`; `len(obj["bytes"]) > 64` measures the hex string, i.e. `2 * len(b)`;
`none` = `TypeError: unhashable` for a map key that is not an int / bytes -/
mutual
def fromDict : PJson → Option Prim
  | .constr c fs =>
    match fromDictList fs with
    | none => none
    | some cf =>
      match getTag c with
      | none => some (.tag 102 (.list [.int c, .ilist cf]))
      | some t => some (.tag t (.list cf))
  | .map kvs => ((fromDictPairs kvs).bind (dictBuild [])).map .dict
  | .int i => some (.int i)
  | .bytes b => if 2 * b.length > 64 then some (.bstr b) else some (.bytes b)
  | .list xs => (fromDictList xs).map .ilist
def fromDictList : List PJson → Option (List Prim)
  | [] => some []
  | x :: xs =>
    match fromDict x, fromDictList xs with
    | some p, some ps => some (p :: ps)
    | _, _ => none
def fromDictPairs : List (PJson × PJson) → Option (List (Prim × Prim))
  | [] => some []
  | (k, v) :: r =>
    match fromDict k, fromDict v, fromDictPairs r with
    | some k', some v', some r' => some ((k', v') :: r')
    | _, _, _ => none
end

/-! ## typed `PlutusData` dataclasses (plutus.py:557-612; `ArrayCBORSerializable.to_shallow_primitive`,
`CBORSerializable.to_primitive`) -/

inductive TObj where
  | obj (c : Nat) (fields : List TObj)       -- an instance: CONSTR_ID and the dataclass fields in order
  | int (i : Int)
  | bytes (b : Bytes)
  | bstr (b : Bytes)
  | list (xs : List TObj)                    -- a Python list held in a `List[T]` field
  | ilist (xs : List TObj)                   -- an IndefiniteList held in a field
  | dict (kvs : List (TObj × TObj))
  deriving Repr, Inhabited

/-- `__post_init__`: a field value that is `bytes` longer than 64 is refused (`none` = InvalidArgumentException) -/
def longBytesField : TObj → Bool
  | .bytes b => b.length > 64
  | _ => false

def mkObj (c : Nat) (fields : List TObj) : Option TObj :=
  if fields.any longBytesField then none else some (.obj c fields)

/- `to_primitive`: `to_shallow_primitive` (fields wrapped in `IndefiniteList` when non-empty, compact tag or
`CBORTag(102, [CONSTR_ID, fields])`) followed by the generic deep conversion, which keeps plain lists plain -/
mutual
def typedPrim : TObj → Prim
  | .obj c fs =>
    let ps := typedPrimList fs
    let prim := if ps.isEmpty then Prim.list [] else Prim.ilist ps
    match getTag c with
    | some t => .tag t prim
    | none => .tag 102 (.list [.int c, prim])
  | .int i => .int i
  | .bytes b => .bytes b
  | .bstr b => .bstr b
  | .list xs => .list (typedPrimList xs)
  | .ilist xs => .ilist (typedPrimList xs)
  | .dict kvs => .dict (typedPrimPairs kvs)
def typedPrimList : List TObj → List Prim
  | [] => []
  | x :: xs => typedPrim x :: typedPrimList xs
def typedPrimPairs : List (TObj × TObj) → List (Prim × Prim)
  | [] => []
  | (k, v) :: r => (typedPrim k, typedPrim v) :: typedPrimPairs r
end

/-- `obj.to_cbor()` -/
def typedToCbor (o : TObj) : Bytes := encode (encodePrim (typedPrim o))

/- `PlutusData.to_dict` -/
mutual
def typedToDict : TObj → PJson
  | .obj c fs => .constr c (typedToDictList fs)
  | .int i => .int i
  | .bytes b => .bytes b
  | .bstr b => .bytes b
  | .list xs => .list (typedToDictList xs)
  | .ilist xs => .list (typedToDictList xs)
  | .dict kvs => .map (typedToDictPairs kvs)
def typedToDictList : List TObj → List PJson
  | [] => []
  | x :: xs => typedToDict x :: typedToDictList xs
def typedToDictPairs : List (TObj × TObj) → List (PJson × PJson)
  | [] => []
  | (k, v) :: r => (typedToDict k, typedToDict v) :: typedToDictPairs r
end

/-! ## construction routes: how an abstract datum `d : PData` is handed to the library -/

/-- byte strings: `bytes` up to 64, `ByteString` beyond (what the long-bytes guard asks for) -/
def primBytes (b : Bytes) : Prim := if b.length > 64 then .bstr b else .bytes b

/-- raw route.  `explicit = false`: every sequence a plain Python list (left to `to_primitive` to normalise);
`explicit = true`: `IndefiniteList` for non-empty sequences, `[]` for empty ones -/
def primSeq (explicit : Bool) (xs : List Prim) : Prim :=
  if explicit && !xs.isEmpty then .ilist xs else .list xs

def primConstr (c : Nat) (fields : Prim) : Prim :=
  match getTag c with
  | some t => .tag t fields
  | none => .tag 102 (.list [.int c, fields])

mutual
def primOf (explicit : Bool) : PData → Prim
  | .constr c fs => primConstr c (primSeq explicit (primOfList explicit fs))
  | .list xs => primSeq explicit (primOfList explicit xs)
  | .map kvs => .dict (primOfPairs explicit kvs)
  | .int i => .int i
  | .bytes b => primBytes b
def primOfList (explicit : Bool) : List PData → List Prim
  | [] => []
  | x :: xs => primOf explicit x :: primOfList explicit xs
def primOfPairs (explicit : Bool) : List (PData × PData) → List (Prim × Prim)
  | [] => []
  | (k, v) :: r => (primOf explicit k, primOf explicit v) :: primOfPairs explicit r
end

/- typed route: constructors as dataclass instances, lists held as `IndefiniteList` when non-empty and `[]` when empty -/
mutual
def typedOf : PData → TObj
  | .constr c fs => .obj c (typedOfList fs)
  | .list xs => if xs.isEmpty then .list [] else .ilist (typedOfList xs)
  | .map kvs => .dict (typedOfPairs kvs)
  | .int i => .int i
  | .bytes b => if b.length > 64 then .bstr b else .bytes b
def typedOfList : List PData → List TObj
  | [] => []
  | x :: xs => typedOf x :: typedOfList xs
def typedOfPairs : List (PData × PData) → List (TObj × TObj)
  | [] => []
  | (k, v) :: r => (typedOf k, typedOf v) :: typedOfPairs r
end

/- the JSON form of a datum (cardano-cli's detailed schema) -/
mutual
def jsonOf : PData → PJson
  | .constr c fs => .constr c (jsonOfList fs)
  | .list xs => .list (jsonOfList xs)
  | .map kvs => .map (jsonOfPairs kvs)
  | .int i => .int i
  | .bytes b => .bytes b
def jsonOfList : List PData → List PJson
  | [] => []
  | x :: xs => jsonOf x :: jsonOfList xs
def jsonOfPairs : List (PData × PData) → List (PJson × PJson)
  | [] => []
  | (k, v) :: r => (jsonOf k, jsonOf v) :: jsonOfPairs r
end

/-! ## regions (Boolean, so that the driver can report them to the harness) -/

def bignumPayload (i : Int) : Bytes :=
  if 0 ≤ i then natBytes i.toNat else natBytes (-1 - i).toNat

/-- the integer is a 64-bit CBOR integer or a bignum whose payload needs no chunking -/
def intFits (i : Int) : Bool := (bignumPayload i).length ≤ 64

def atomOf : PData → Option Atom
  | .int i => some (.int i)
  | .bytes b => some (.bytes b)
  | _ => none

/-- every key an int / byte string, no key repeated (what a Python dict can hold without collapsing) -/
def distinctFrom : List (Option Atom) → List (Option Atom) → Bool
  | _, [] => true
  | seen, a :: r => a.isSome && !(seen.contains a) && distinctFrom (seen ++ [a]) r

def pairKeys : List (PData × PData) → List (Option Atom)
  | [] => []
  | (k, _) :: r => atomOf k :: pairKeys r

mutual
/-- all integers need no chunked bignum -/
def small : PData → Bool
  | .constr _ fs => smallList fs
  | .list xs => smallList xs
  | .map kvs => smallPairs kvs
  | .int i => intFits i
  | .bytes _ => true
def smallList : List PData → Bool
  | [] => true
  | x :: xs => small x && smallList xs
def smallPairs : List (PData × PData) → Bool
  | [] => true
  | (k, v) :: r => small k && small v && smallPairs r
end

mutual
/-- nothing is chunked on the wire: byte strings of at most 64 bytes and `small` integers -/
def chunkFree : PData → Bool
  | .constr _ fs => chunkFreeList fs
  | .list xs => chunkFreeList xs
  | .map kvs => chunkFreePairs kvs
  | .int i => intFits i
  | .bytes b => b.length ≤ 64
def chunkFreeList : List PData → Bool
  | [] => true
  | x :: xs => chunkFree x && chunkFreeList xs
def chunkFreePairs : List (PData × PData) → Bool
  | [] => true
  | (k, v) :: r => chunkFree k && chunkFree v && chunkFreePairs r
end

mutual
def keysOk : PData → Bool
  | .constr _ fs => keysOkList fs
  | .list xs => keysOkList xs
  | .map kvs => distinctFrom [] (pairKeys kvs) && keysOkPairs kvs
  | .int _ => true
  | .bytes _ => true
def keysOkList : List PData → Bool
  | [] => true
  | x :: xs => keysOk x && keysOkList xs
def keysOkPairs : List (PData × PData) → Bool
  | [] => true
  | (k, v) :: r => keysOk k && keysOk v && keysOkPairs r
end

mutual
/-- sizes a CBOR head can express: constructor ids and map sizes below 2^64 (always true of real data) -/
def sized : PData → Bool
  | .constr c fs => decide (c < 2^64) && sizedList fs
  | .list xs => sizedList xs
  | .map kvs => decide (kvs.length < 2^64) && sizedPairs kvs
  | .int _ => true
  | .bytes _ => true
def sizedList : List PData → Bool
  | [] => true
  | x :: xs => sized x && sizedList xs
def sizedPairs : List (PData × PData) → Bool
  | [] => true
  | (k, v) :: r => sized k && sized v && sizedPairs r
end

/-- `RawPlutusData.from_primitive` accepts the decoded top-level object: not the empty list, and under the C extension
no list at all -/
def topOk (cext : Bool) : PData → Bool
  | .list xs => !cext && !xs.isEmpty
  | _ => true

/- the region in which the JSON route (`RawPlutusData.from_dict`) reproduces the canonical bytes.  `blocked` = the
node sits below an `IndefiniteList` that `to_primitive` does not enter (below a `list` node or below the fields of a
constructor ≥ 128).  Fails on: an empty list (emitted `9fff`), a constructor ≥ 128 without fields (its empty field list
is wrapped in `IndefiniteList`), a constructor < 128 with fields in a blocked position (its fields stay a plain list). -/
mutual
def jsonOk (blocked : Bool) : PData → Bool
  | .constr c fs =>
    if c < 128 then fs.isEmpty || (!blocked && jsonOkList false fs)
    else !fs.isEmpty && jsonOkList true fs
  | .list xs => !xs.isEmpty && jsonOkList true xs
  | .map kvs => jsonOkPairs blocked kvs
  | .int _ => true
  | .bytes _ => true
def jsonOkList (blocked : Bool) : List PData → Bool
  | [] => true
  | x :: xs => jsonOk blocked x && jsonOkList blocked xs
def jsonOkPairs (blocked : Bool) : List (PData × PData) → Bool
  | [] => true
  | (k, v) :: r => jsonOk blocked k && jsonOk blocked v && jsonOkPairs blocked r
end

end Pyc.Plutus
