import Pyc.Model.Builder

/-! Measures used by the size invariant of token packing (C08 extension `PackFit`).

`_adding_asset_make_output_overflow` and the end-of-policy re-check of `_pack_tokens_for_change` (txbuilder.py:792-895)
both measure `len(v.to_cbor())` of a `Value` `v` whose coin has first been REPLACED by `min_lovelace_post_alonzo` of
the output under construction (`attempt_amount.coin = required_lovelace` / `updated_amount.coin = required_lovelace`).
The coin the output held before only enters through that minimum (the serialized output it is computed from).
Nothing here is new behaviour of the code: these are names for the quantities the existing model
(`Pyc.Builder.overflow`, `packPolicies`) already computes, made executable for the driver. -/

namespace Pyc.PackFit
open Pyc Pyc.Builder Pyc.Cbor

/-- `len(value.to_cbor())` -/
def vlen (v : Value) : Nat := (encValue v).length

/-- width of a coin on the wire: 1, 2, 3, 5 or 9 bytes (more for a bignum) -/
def coinLen (c : Int) : Nat := (encode (ofInt c)).length

/-- size of the bundle alone, `len(multi_asset.to_cbor())` -/
def bundleLen (m : MultiAsset) : Nat := (encMultiAsset m).length

/-- the coin the probe writes into the measured value: the minimum ADA of an output at `addr` that holds bundle `m`
and the coin `c` of the output under construction (`c` = the whole change coin for the first output, 0 afterwards) -/
def probeCoin (p : Params) (addr : Bytes) (c : Int) (m : MultiAsset) : Int := minAda p addr ⟨c, m⟩

/-- what the probe compares with `max_val_size` -/
def probeLen (p : Params) (addr : Bytes) (c : Int) (m : MultiAsset) : Nat := vlen ⟨probeCoin p addr c m, m⟩

def fits (p : Params) (addr : Bytes) (c : Int) (m : MultiAsset) : Bool := decide (probeLen p addr c m ≤ p.maxValSize)

/-- the bundle of one asset on its own, as the packing loop builds it in a fresh output -/
def single (pol : Bytes) (a : Bytes × Int) : MultiAsset := (flush ⟨0, []⟩ pol (Asset.add [] [a])).ma

/-- no single asset (one policy with one name) exceeds the limit on its own — neither in a fresh output (coin 0) nor in
the first output, which is measured under the change coin -/
def noSingleOver (p : Params) (addr : Bytes) (ch : Value) : Bool :=
  ch.ma.all (fun pa => pa.2.all (fun a => fits p addr 0 (single pa.1 a) && fits p addr ch.coin (single pa.1 a)))

/-- number of `(policy, name)` pairs -/
def pairCount (m : MultiAsset) : Nat := (m.map (fun pa => pa.2.length)).sum

/-- the coin under which chunk number `i` was measured -/
def coinAt (c0 : Int) (i : Nat) : Int := if i = 0 then c0 else 0

/-- the value `_calc_change` hands to the packing: `provided − requested` with non-positive asset entries dropped
(`Pyc.Builder.changeValue` of Proofs/Builder.lean, repeated here for the driver: `changeOf_eq`) -/
def changeOf (a : ChangeArgs) : Value :=
  let ch := Value.sub (provided a) (requested a)
  if ch.ma.isEmpty then ch else ⟨ch.coin, posFilter ch.ma⟩

/-- every change output that carries tokens fits `max_val_size` -/
def allFit (p : Params) (cs : List Output) : Bool :=
  cs.all (fun o => o.amount.ma.isEmpty || decide (vlen o.amount ≤ p.maxValSize))

end Pyc.PackFit
