import Pyc.Model.Builder

/-! Measures used by the size invariant of token packing (C08 extension `PackFit`).

`_adding_asset_make_output_overflow` and the end-of-policy re-check of `_pack_tokens_for_change` (txbuilder.py:792-898)
both measure `len(v.to_cbor())` of a `Value` `v` whose coin has first been REPLACED by the larger of
`min_lovelace_post_alonzo` of the output under construction and the coin that output holds
(`attempt_amount.coin = max(required_lovelace, current_amount.coin)` / `updated_amount.coin = max(required_lovelace,
updated_amount.coin)`, repair 8c81354); every output under construction holds the whole change coin.
Nothing here is new behaviour of the code: these are names for the quantities the existing model
(`Pyc.Builder.overflow`, `packPolicies`) already computes, made executable for the driver. -/

namespace Pyc.PackFit
open Pyc Pyc.Builder Pyc.Cbor

/-- `len(value.to_cbor())` -/
def vlen (v : Value) : Nat := (encValue v).length

/-- width of a coin on the wire: 1, 2, 3, 5 or 9 bytes (more for a bignum) -/
def coinLen (c : Int) : Nat := (encode (ofInt c)).length

/-- size of the bundle alone, `len(multi_asset.to_cbor())` -/
def bundleLen (m : MultiAsset) : Nat := (encMultiAsset m).length

/-- the coin the probe writes into the measured value: the larger of the minimum ADA of an output at `addr` that holds
bundle `m` and coin `c`, and `c` itself — `c` is the coin of the output under construction, which since repair 8c81354 is the
whole change coin for EVERY output (any of them may turn out to be the last, which receives what is left) -/
def probeCoin (p : Params) (addr : Bytes) (c : Int) (m : MultiAsset) : Int := max (minAda p addr ⟨c, m⟩) c

/-- what the probe compares with `max_val_size` -/
def probeLen (p : Params) (addr : Bytes) (c : Int) (m : MultiAsset) : Nat := vlen ⟨probeCoin p addr c m, m⟩

def fits (p : Params) (addr : Bytes) (c : Int) (m : MultiAsset) : Bool := decide (probeLen p addr c m ≤ p.maxValSize)

/-- the bundle of one asset on its own, as the packing loop builds it in a fresh output -/
def single (pol : Bytes) (a : Bytes × Int) : MultiAsset := (flush ⟨0, []⟩ pol (Asset.add [] [a])).ma

/-- no single asset (one policy with one name) exceeds the limit on its own, measured as the code measures every output:
under the change coin -/
def noSingleOver (p : Params) (addr : Bytes) (ch : Value) : Bool :=
  ch.ma.all (fun pa => pa.2.all (fun a => fits p addr ch.coin (single pa.1 a)))

/-- number of `(policy, name)` pairs -/
def pairCount (m : MultiAsset) : Nat := (m.map (fun pa => pa.2.length)).sum

/-- the value `_calc_change` hands to the packing: `provided − requested` with non-positive asset entries dropped
(`Pyc.Builder.changeValue` of Proofs/Builder.lean, repeated here for the driver: `changeOf_eq`) -/
def changeOf (a : ChangeArgs) : Value :=
  let ch := Value.sub (provided a) (requested a)
  if ch.ma.isEmpty then ch else ⟨ch.coin, posFilter ch.ma⟩

/-- every change output that carries tokens fits `max_val_size` -/
def allFit (p : Params) (cs : List Output) : Bool :=
  cs.all (fun o => o.amount.ma.isEmpty || decide (vlen o.amount ≤ p.maxValSize))

end Pyc.PackFit
