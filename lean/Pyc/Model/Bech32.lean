import Pyc.Model.Basic

/-! # Model of `pycardano/crypto/bech32.py` (lines 35-137)

Transliteration of what the code *does*.  Python `str` is modelled as `List Char` (code points), a list of 5-bit
values as `List Nat`.  Notable behaviours kept on purpose:

* `bech32_verify_checksum` still recognises the Bech32 constant `1` **and** the Bech32m constant `0x2BC830A3`, but
  `bech32_decode` returns `(None, None, None)` unless the checksum verifies as Bech32 (`spec != Encoding.BECH32`);
* there is no length limit (CIP-19: Cardano addresses are Bech32 without the 90-character limit of BIP-173), neither
  on the string in `bech32_decode` nor on the payload in `decode`;
* `encode` re-decodes its own output and returns `None` when that fails;
* `decode` raises `TypeError` (iteration over `None`) when `bech32_decode` rejects, and returns `None` when the
  regrouping fails or the payload has fewer than 2 bytes.
-/

namespace Pyc.Bech32

/-- `class Encoding(Enum)` -/
inductive Encoding
  | bech32
  | bech32m
  deriving DecidableEq, Repr

/-- `CHARSET` -/
def charset : List Char := "qpzry9x8gf2tvdw0s3jn54khce6mua7l".toList

/-- `BECH32M_CONST` -/
def bech32mConst : Nat := 0x2BC830A3

/-- `generator` of `bech32_polymod` -/
def generator : List Nat := [0x3B6A57B2, 0x26508E6D, 0x1EA119FA, 0x3D4233DD, 0x2A1462B3]

/-- body of the `for value in values` loop of `bech32_polymod`:
`top = chk >> 25; chk = (chk & 0x1FFFFFF) << 5 ^ value; for i in range(5): chk ^= generator[i] if ((top >> i) & 1) else 0` -/
def polymodStep (chk value : Nat) : Nat :=
  let top := chk >>> 25
  let chk := ((chk &&& 0x1FFFFFF) <<< 5) ^^^ value
  (List.range 5).foldl (fun c i => c ^^^ (if (top >>> i) &&& 1 ≠ 0 then generator.getD i 0 else 0)) chk

/-- the loop of `bech32_polymod` started from an arbitrary register -/
def polymodFrom (chk : Nat) : List Nat → Nat
  | [] => chk
  | v :: vs => polymodFrom (polymodStep chk v) vs

/-- `bech32_polymod(values)` -/
def polymod (values : List Nat) : Nat := polymodFrom 1 values

/-- `bech32_hrp_expand(hrp)`: `[ord(x) >> 5 for x in hrp] + [0] + [ord(x) & 31 for x in hrp]` -/
def hrpExpand (hrp : List Char) : List Nat :=
  hrp.map (fun x => x.toNat >>> 5) ++ [0] ++ hrp.map (fun x => x.toNat &&& 31)

/-- `bech32_verify_checksum(hrp, data)` -/
def verifyChecksum (hrp : List Char) (data : List Nat) : Option Encoding :=
  let const := polymod (hrpExpand hrp ++ data)
  if const = 1 then some .bech32
  else if const = bech32mConst then some .bech32m
  else none

/-- `bech32_create_checksum(hrp, data, spec)`; `m` says whether `spec == Encoding.BECH32M`
(`encode` passes the integer `0`, which is not `BECH32M`, hence `m = false`) -/
def createChecksum (hrp : List Char) (data : List Nat) (m : Bool) : List Nat :=
  let values := hrpExpand hrp ++ data
  let const := if m then bech32mConst else 1
  let pm := polymod (values ++ [0, 0, 0, 0, 0, 0]) ^^^ const
  (List.range 6).map fun i => (pm >>> (5 * (5 - i))) &&& 31

/-- `bech32_encode(hrp, data, spec)`; `CHARSET[d]` raises `IndexError` for `d ≥ 32` (→ `none`) -/
def bech32Encode (hrp : List Char) (data : List Nat) (m : Bool) : Option (List Char) :=
  let combined := data ++ createChecksum hrp data m
  match combined.mapM (fun d => charset[d]?) with
  | none => none
  | some cs => some (hrp ++ ['1'] ++ cs)

/-- ASCII part of `str.lower()` (only evaluated on strings whose characters are all in 33..126) -/
def lowerChar (c : Char) : Char :=
  if 65 ≤ c.toNat ∧ c.toNat ≤ 90 then Char.ofNat (c.toNat + 32) else c

/-- ASCII part of `str.upper()` -/
def upperChar (c : Char) : Char :=
  if 97 ≤ c.toNat ∧ c.toNat ≤ 122 then Char.ofNat (c.toNat - 32) else c

/-- `str.rfind(c)` for a one-character needle; `none` stands for `-1` -/
def rfind (c : Char) : List Char → Option Nat
  | [] => none
  | x :: xs =>
    match rfind c xs with
    | some i => some (i + 1)
    | none => if x = c then some 0 else none

/-- `bech32_decode(bech)`; `none` stands for `(None, None, None)` -/
def bech32Decode (bech : List Char) : Option (List Char × List Nat × Encoding) :=
  if bech.any (fun x => x.toNat < 33 || x.toNat > 126)
      || (bech.map lowerChar != bech && bech.map upperChar != bech) then none
  else
    let bech := bech.map lowerChar
    match rfind '1' bech with
    | none => none                                   -- pos = -1 < 1
    | some pos =>
      if pos < 1 || pos + 7 > bech.length then none
      else if !((bech.drop (pos + 1)).all fun x => charset.contains x) then none
      else
        let hrp := bech.take pos
        let data := (bech.drop (pos + 1)).map fun x => charset.idxOf x
        match verifyChecksum hrp data with
        | some .bech32 => some (hrp, data.take (data.length - 6), .bech32)
        | _ => none                                    -- `spec != Encoding.BECH32`: `None` and `BECH32M`

/-- inner `while bits >= tobits: bits -= tobits; ret.append((acc >> bits) & maxv)` of `convertbits`
(Python does not terminate for `tobits = 0`; the model stops) -/
def drain (tobits maxv acc : Nat) (bits : Nat) (ret : List Nat) : Nat × List Nat :=
  if _h : 0 < tobits ∧ tobits ≤ bits then
    drain tobits maxv acc (bits - tobits) (ret ++ [(acc >>> (bits - tobits)) &&& maxv])
  else (bits, ret)
termination_by bits
decreasing_by omega

/-- `for value in data` loop of `convertbits`; `none` = `return None` on an out-of-range value -/
def cbLoop (frombits tobits maxv maxAcc : Nat) : List Nat → Nat → Nat → List Nat → Option (Nat × Nat × List Nat)
  | [], acc, bits, ret => some (acc, bits, ret)
  | value :: rest, acc, bits, ret =>
    if value >>> frombits ≠ 0 then none
    else
      let acc := ((acc <<< frombits) ||| value) &&& maxAcc
      let br := drain tobits maxv acc (bits + frombits) ret
      cbLoop frombits tobits maxv maxAcc rest acc br.1 br.2

/-- `convertbits(data, frombits, tobits, pad)` -/
def convertbits (data : List Nat) (frombits tobits : Nat) (pad : Bool) : Option (List Nat) :=
  let maxv := (1 <<< tobits) - 1
  let maxAcc := (1 <<< (frombits + tobits - 1)) - 1
  match cbLoop frombits tobits maxv maxAcc data 0 0 [] with
  | none => none
  | some (acc, bits, ret) =>
    if pad then
      if bits ≠ 0 then some (ret ++ [(acc <<< (tobits - bits)) &&& maxv]) else some ret
    else if bits ≥ frombits ∨ ((acc <<< (tobits - bits)) &&& maxv) ≠ 0 then none
    else some ret

/-- outcome of `decode(addr)` -/
inductive DecodeResult
  | raised                       -- `TypeError`: `bech32_decode` gave `(None, None, None)` and `convertbits(None, …)` iterates `None`
  | none                         -- `return None`
  | ok (decoded : List Nat)      -- list of byte values
  deriving DecidableEq, Repr

/-- `decode(addr)` -/
def decode (addr : List Char) : DecodeResult :=
  match bech32Decode addr with
  | none => .raised
  | some (_, data, _) =>
    match convertbits data 5 8 false with
    | none => .none
    | some decoded => if decoded.length < 2 then .none else .ok decoded

/-- `encode(hrp, witprog)`; `none` = `return None` (own output does not decode) or an exception -/
def encode (hrp : List Char) (witprog : Bytes) : Option (List Char) :=
  match convertbits (witprog.map UInt8.toNat) 8 5 true with
  | none => none
  | some data =>
    match bech32Encode hrp data false with
    | none => none
    | some ret => if bech32Decode ret = none then none else some ret

end Pyc.Bech32
