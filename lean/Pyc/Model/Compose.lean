import Pyc.Model.Codec
import Pyc.Model.CustomCodec
import Pyc.Model.AddrLeaf
import Pyc.Model.NativeScript
import Pyc.Model.Gov
import Pyc.Model.Pool
import Pyc.Model.Metadata
import Pyc.Model.WitnessCodec
import Pyc.Proofs.Cbor   -- `Cbor.depth` (the fuel of the native-script decoder); Mathlib-free, depends on Model/Cbor only

/-! COMPOSITION of the table-driven codec (`Model/Codec.lean`) with the hand-modelled leaf codecs.

`fromPrim` (Model/Codec.lean) carries every class with hand-written codec code (`from_primitive` / `__post_init__`
overridden, kind `custom` / `oset`) and every `object_hook` field as `.ok (.opaque i)`: the leaf's decoder is not run.
Here the same ladder (`_restore_typed_primitive`, serialization.py:583-677, `_restore_dataclass_field` :563-580,
`ArrayCBORSerializable.from_primitive`, `MapCBORSerializable.from_primitive`) is written once more with a *leaf
environment*: for a class name, the leaf's ITEM NORMALISER = "run the leaf's `from_primitive`, then write the restored
object back" (`decode` then `toItem`), three-valued.  A leaf that raises `DeserializeException` makes an enclosing
`Union` try its next alternative; any other exception aborts the decode — exactly what the `try … except
DeserializeException: pass` loop of `_restore_typed_primitive` does with the exception of a nested `from_primitive`.

`object_hook` fields: the extracted table only records THAT a field has a hook (`FieldDef.hook`), not which; the hook
is looked up in the same environment under the key `"<Class>.<field>"`.  The only hook of a table-driven class in the
tree is `TransactionBody.outputs` = `list_hook(TransactionOutput)` (transaction.py:559); the others sit inside classes
that are leaves as a whole (`ScriptAll`…, `AlonzoMetadata`, `ShelleyMarryMetadata`, `TransactionWitnessSet`).

`Any` and plain `Dict[...]` hints stay as they are in `fromPrim` (Python returns the primitive itself). -/

namespace Pyc.Compose
open Pyc Pyc.Cbor Pyc.Schema Pyc.Codec Pyc.Custom

/-- per class name (or `"<Class>.<field>"` for an `object_hook`): the item normaliser of the leaf, when modelled -/
abbrev LeafEnv := String → Option (Item → Res Item)

/-- the environment in which no leaf is modelled -/
def noLeaves : LeafEnv := fun _ => Option.none

/-- restore a value of a class with its own codec: the leaf's normaliser when there is one (the value is carried as the
primitive of the RESTORED object), the primitive itself otherwise -/
def leafVal (L : LeafEnv) (n : String) (i : Item) : Res Val :=
  match L n with
  | some f => (match f i with | .ok j => .ok (.opaque j) | .deser => .deser | .crash => .crash)
  | Option.none => .ok (.opaque i)

def hookKey (cn : String) (f : FieldDef) : String := cn ++ "." ++ f.name

mutual
-- `_restore_typed_primitive(t, v)` with the leaves of `L`
def fromPrimL (S : List ClassDef) (L : LeafEnv) : Nat → Ty → Item → Res Val
  | 0, _, _ => .crash
  | _+1, .any, i => .ok (.opaque i)
  | _+1, .int, i =>
    match itemInt? i with
    | some n => .ok (.int n)
    | Option.none => (match i with
      | .simple n => if n = 20 then .ok (.bool false) else if n = 21 then .ok (.bool true) else .deser
      | _ => .deser)
  | _+1, .bool, .simple n => if n = 20 then .ok (.bool false) else if n = 21 then .ok (.bool true) else .deser
  | _+1, .bool, _ => .deser
  | _+1, .bytes, .bytes b => .ok (.bytes b)
  | _+1, .bytes, _ => .deser
  | _+1, .text, .text b => .ok (.text b)
  | _+1, .text, _ => .deser
  | _+1, .none, .simple n => if n = 22 then .ok .none else .deser
  | _+1, .none, _ => .deser
  | _+1, .frac, .tag t (.array [a, b]) =>
    if t = 30 then (match itemInt? a, itemInt? b with
      | some n, some d => .ok (.frac n d)
      | _, _ => .deser) else .deser
  | _+1, .frac, _ => .deser
  | fuel+1, .list t, i =>
    match listElems? i with
    | some xs => (match fromPrimListL S L fuel t xs with
      | .ok vs => .ok (.list vs) | .deser => .deser | .crash => .crash)
    | Option.none => .deser
  | fuel+1, .union ts, i => fromUnionL S L fuel ts i
  | fuel+1, .oset t _, i =>
    match i with
    | .tag tg inner =>
      if tg = 258 then (match listElems? inner with
        | some xs => (match fromPrimListL S L fuel t xs with
          | .ok vs => .ok (.oset true vs) | .deser => .deser | .crash => .crash)
        | Option.none => .crash) else .crash
    | _ => (match listElems? i with
      | some xs => (match fromPrimListL S L fuel t xs with
        | .ok vs => .ok (.oset false vs) | .deser => .deser | .crash => .crash)
      | Option.none => .crash)
  | _+1, .dict _ _, i =>
    match i with
    | .map _ => .ok (.opaque i)
    | _ => .deser
  | fuel+1, .tuple ts, i =>
    match listElems? i with
    | some xs => if xs.length = ts.length then (match fromTupleL S L fuel ts xs with
        | .ok vs => .ok (.list vs) | .deser => .deser | .crash => .crash) else .deser
    | Option.none => .deser
  | _+1, .named _, _ => .deser
  | fuel+1, .cls n, i =>
    match lookup S n with
    | Option.none => .crash
    | some cd =>
      -- `t.from_primitive(v)` of a class with hand-written codec code: the leaf of `L`, if any
      if cd.overrides.contains "from_primitive" || cd.overrides.contains "__post_init__" then leafVal L n i else
      match cd.kind with
      | .custom => leafVal L n i
      | .oset => leafVal L n i
      | .cbytes mn mx => (match i with
        | .bytes b => if mn ≤ b.length ∧ b.length ≤ mx then .ok (.cb b) else .crash
        | .text _ => .crash
        | _ => .deser)
      | .enum vals => (match itemInt? i with
        | some v => if vals.contains v then .ok (.enum v) else .crash
        | Option.none => .deser)
      | .dict kt vt => (match i with
        | .map kvs => (match fromPairsL S L fuel kt vt kvs with
          | .ok r => .ok (.dict r) | .deser => .deser | .crash => .crash)
        | _ => .deser)
      | .array => (match listElems? i with
        | some xs => (match fromArrL S L fuel n (wireFields cd) xs with
          | .ok vs => .ok (.obj n vs) | .deser => .deser | .crash => .crash)
        | Option.none => .deser)
      | .coded k => (match i with
        | .array (c :: xs) =>
          if encode c = encode (.uint k) then (match fromArrL S L fuel n (wireFields cd) xs with
            | .ok vs => .ok (.obj n vs) | .deser => .deser | .crash => .crash)
          else .deser
        | .array [] => .crash
        | _ => .deser)
      | .map => (match i with
        | .map kvs =>
          if kvs.all (fun kv => (wireFields cd).any (fun f => encode (keyItem f.key) = encode kv.1)) then
            (match fromMapL S L fuel n (wireFields cd) kvs with
              | .ok vs => .ok (.obj n vs) | .deser => .deser | .crash => .crash)
          else .deser
        | _ => .deser)
def fromPrimListL (S : List ClassDef) (L : LeafEnv) : Nat → Ty → List Item → Res (List Val)
  | 0, _, _ => .crash
  | _+1, _, [] => .ok []
  | fuel+1, t, x :: xs =>
    match fromPrimL S L fuel t x with
    | .ok v => (match fromPrimListL S L fuel t xs with
      | .ok vs => .ok (v :: vs) | .deser => .deser | .crash => .crash)
    | .deser => .deser | .crash => .crash
def fromTupleL (S : List ClassDef) (L : LeafEnv) : Nat → List Ty → List Item → Res (List Val)
  | 0, _, _ => .crash
  | _+1, [], _ => .ok []
  | _+1, _ :: _, [] => .ok []
  | fuel+1, t :: ts, x :: xs =>
    match fromPrimL S L fuel t x with
    | .ok v => (match fromTupleL S L fuel ts xs with
      | .ok vs => .ok (v :: vs) | .deser => .deser | .crash => .crash)
    | .deser => .deser | .crash => .crash
def fromPairsL (S : List ClassDef) (L : LeafEnv) : Nat → Ty → Ty → List (Item × Item) → Res (List (Val × Val))
  | 0, _, _, _ => .crash
  | _+1, _, _, [] => .ok []
  | fuel+1, kt, vt, (k, v) :: r =>
    match fromPrimL S L fuel kt k with
    | .ok kv => (match fromPrimL S L fuel vt v with
      | .ok vv => (match fromPairsL S L fuel kt vt r with
        | .ok rs => .ok ((kv, vv) :: rs) | .deser => .deser | .crash => .crash)
      | .deser => .deser | .crash => .crash)
    | .deser => .deser | .crash => .crash
/-- `Union`: the first alternative that does not raise `DeserializeException` — a leaf's included -/
def fromUnionL (S : List ClassDef) (L : LeafEnv) : Nat → List Ty → Item → Res Val
  | 0, _, _ => .crash
  | _+1, [], _ => .deser
  | fuel+1, t :: ts, i =>
    match fromPrimL S L fuel t i with
    | .ok v => .ok v
    | .deser => fromUnionL S L fuel ts i
    | .crash => .crash
def fromArrL (S : List ClassDef) (L : LeafEnv) : Nat → String → List FieldDef → List Item → Res (List Val)
  | 0, _, _, _ => .crash
  | _+1, _, [], _ => .ok []
  | fuel+1, cn, f :: fs, [] =>
    match dfltVal f with
    | some d => (match fromArrL S L fuel cn fs [] with
      | .ok vs => .ok (d :: vs) | .deser => .deser | .crash => .crash)
    | Option.none => .crash
  | fuel+1, cn, f :: fs, x :: xs =>
    -- `_restore_dataclass_field`: the `object_hook` of the field, if any, instead of the typed restoration
    match (if f.hook then leafVal L (hookKey cn f) x else fromPrimL S L fuel f.ty x) with
    | .ok v => (match fromArrL S L fuel cn fs xs with
      | .ok vs => .ok (v :: vs) | .deser => .deser | .crash => .crash)
    | .deser => .deser | .crash => .crash
def fromMapL (S : List ClassDef) (L : LeafEnv) : Nat → String → List FieldDef → List (Item × Item) → Res (List Val)
  | 0, _, _, _ => .crash
  | _+1, _, [], _ => .ok []
  | fuel+1, cn, f :: fs, kvs =>
    match lookupItemKey (keyItem f.key) kvs with
    | Option.none =>
      match dfltVal f with
      | some d => (match fromMapL S L fuel cn fs kvs with
        | .ok vs => .ok (d :: vs) | .deser => .deser | .crash => .crash)
      | Option.none => .crash
    | some x =>
      match (if f.hook then leafVal L (hookKey cn f) x else fromPrimL S L fuel f.ty x) with
      | .ok v => (match fromMapL S L fuel cn fs kvs with
        | .ok vs => .ok (v :: vs) | .deser => .deser | .crash => .crash)
      | .deser => .deser | .crash => .crash
end

/-! ## the item normalisers of the modelled leaves -/

/-- normaliser of a leaf given as decoder + encoder -/
def normOf {α : Type} (dec : Item → Res α) (enc : α → Item) (i : Item) : Res Item :=
  match dec i with
  | .ok x => .ok (enc x)
  | .deser => .deser
  | .crash => .crash

def Leaf.norm {α : Type} (L : Leaf α) : Item → Res Item := normOf L.dec L.enc

/-- … when the encoder is partial (`to_primitive` may raise for an object assembled by hand; not for a decoded one):
the decode class is the decoder's; the primitive is kept when the object cannot be written -/
def normOfOpt {α : Type} (dec : Item → Res α) (enc : α → Option Item) (i : Item) : Res Item :=
  match dec i with
  | .ok x => (match enc x with | some j => .ok j | Option.none => .ok i)
  | .deser => .deser
  | .crash => .crash

/-- `Address.from_primitive` then `Address.to_primitive` (Model/AddrLeaf.lean) -/
def addrNorm : Item → Res Item := normOf AddrLeaf.addrDec AddrLeaf.addrEnc

/-- the well-formed native scripts (what the decoder returns, `fromItem_wf`) -/
abbrev WScript := { s : Ids.NScript // NativeScript.wfB s = true }

/-- the native-script codec as a `Leaf` (the same definition as `NativeScript.nsLeaf` of Proofs/NativeScript.lean, repeated
here so that the driver does not depend on a proof file; `nsLeafC_eq`) -/
def nsLeafC : Leaf WScript where
  enc x := NativeScript.toItem x.val
  dec i :=
    match NativeScript.fromItem (Cbor.depth i) i with
    | .ok s => if h : NativeScript.wfB s = true then .ok ⟨s, h⟩ else .crash
    | .deser => .deser
    | .crash => .crash

/-- `NativeScript.from_primitive` (inherited unchanged by `ScriptPubkey` … `InvalidHereAfter`: whichever class it is
called on, it dispatches on the type code) then `to_primitive` -/
def nsNorm : Item → Res Item := Leaf.norm nsLeafC

/-- `StakeCredential` / `DRepCredential` / `CommitteeColdCredential` -/
def credNorm : Item → Res Item := normOf Gov.Cred.fromItem Gov.Cred.toItem
def drepNorm : Item → Res Item := normOf Gov.DRep.fromItem Gov.DRep.toItem
def voterNorm : Item → Res Item := normOf Gov.Voter.fromItem Gov.Voter.toItem
def vpNorm : Item → Res Item := normOf Gov.VotingProcedure.fromItem Gov.VotingProcedure.toItem
def gaidNorm : Item → Res Item := normOf Gov.GovActionId.fromItem Gov.GovActionId.toItem
def hardForkNorm : Item → Res Item := normOf Gov.HardFork.fromItem Gov.HardFork.toItem
def poolIdNorm : Item → Res Item := normOf Gov.PoolId.fromItem Gov.PoolId.toItem

/-- `Value` / `MultiAsset` / `Asset` (Model/CustomCodec.lean, Model/Canonical.lean) -/
def valueNorm : Item → Res Item := normOf decValue itemValue
def multiAssetNorm : Item → Res Item := normOf decMultiAsset (fun m => itemMultiAsset (primMultiAsset m))
def assetNorm : Item → Res Item := normOf decAsset (fun a => itemAsset (primAsset a))

/-- the leaves of an output: the real address codec, the inline datum as the primitive it is restored to, the real
native-script codec (the same triple as `C01.Leaves.realLeaves nsLeaf`) -/
def outLeaves : Leaves AddrLeaf.VAddr Item WScript := ⟨AddrLeaf.addrLeaf, Leaf.raw, nsLeafC⟩

/-- `TransactionOutput.from_primitive` then `to_primitive` -/
def outputNorm : Item → Res Item := normOf (decOutput outLeaves) (itemOutput outLeaves)

/-- `list_hook(cls)` = `lambda vals: [cls.from_primitive(v) for v in vals]` (serialization.py:1038-1050), as a normaliser:
the restored list is written as a definite array.  `Metadata.decScripts` is the model of the comprehension (whatever
Python can iterate is iterated) -/
def listHookNorm (f : Item → Res Item) (i : Item) : Res Item :=
  match Metadata.decScripts (⟨id, f⟩ : Leaf Item) i with
  | .ok ys => .ok (.array ys)
  | .deser => .deser
  | .crash => .crash

/-- `PoolParams` (on its own) and `PoolRegistration` -/
def poolParamsNorm : Item → Res Item := normOfOpt Pool.decParams Pool.encParams
def poolRegNorm : Item → Res Item := normOfOpt Pool.decRegistration Pool.encRegistration

/-- `AuxiliaryData` / `AlonzoMetadata` / `ShelleyMarryMetadata` with the real native-script leaf -/
def auxNorm : Item → Res Item := normOf (Metadata.decAux nsLeafC) (Metadata.itemAux nsLeafC)
def alonzoNorm : Item → Res Item := normOf (Metadata.decAlonzo nsLeafC) (Metadata.itemAlonzo nsLeafC)
def shelleyMaNorm : Item → Res Item := normOf (Metadata.decShelleyMa nsLeafC) (Metadata.itemShelleyMa nsLeafC)

/-- what `RawPlutusData.from_primitive` accepts as a datum of a witness set: anything but text strings and simple values -/
def datumOkB : Item → Bool
  | .text _ => false
  | .simple _ => false
  | _ => true

abbrev DatumItem := { i : Item // datumOkB i = true }

/-- the datum leaf of a witness set: the primitive itself, refused (`DeserializeException`) when it is a text string or a
simple value -/
def datumLeaf : Leaf DatumItem :=
  ⟨fun x => x.1, fun i => if h : datumOkB i = true then .ok ⟨i, h⟩ else .deser⟩

/-- the leaves of a witness set: real native scripts; bootstrap witnesses and redeemer data are `Any` -/
def wsLeaves : WitnessCodec.Leaves WScript Item DatumItem Item := ⟨nsLeafC, Leaf.raw, datumLeaf, Leaf.raw⟩

def wsNorm : Item → Res Item := normOf (WitnessCodec.decWS wsLeaves) (WitnessCodec.wsItem wsLeaves)
def vkwNorm : Item → Res Item := normOf WitnessCodec.decVKW WitnessCodec.vkwItem
def redeemerNorm : Item → Res Item :=
  normOf (WitnessCodec.decRedeemer (Leaf.raw)) (WitnessCodec.redeemerItem (Leaf.raw))
def redeemerValueNorm : Item → Res Item :=
  normOf (WitnessCodec.decRValue (Leaf.raw)) (WitnessCodec.rvalueItem (Leaf.raw))
def redeemerTagNorm : Item → Res Item := normOf WitnessCodec.decTag (fun t => Item.uint t.code)

/-- `Network.from_primitive` (network.py:24-27): `@limit_primitive_type(int)` (a `bool` is one), then `Network(value)`
(`ValueError` for anything but 0 / 1); written back as the member's value -/
def networkNorm (i : Item) : Res Item :=
  match itemInt? i with
  | some v => if v = 0 then .ok (.uint 0) else if v = 1 then .ok (.uint 1) else .crash
  | Option.none => (match i with
    | .simple n => if n = 20 then .ok (.uint 0) else if n = 21 then .ok (.uint 1) else .deser
    | _ => .deser)

/-- `PlutusV1Script` / `PlutusV2Script` / `PlutusV3Script` (plain `bytes` subclasses; the special case of
`_restore_typed_primitive`, serialization.py:640-647): `bytes` or `DeserializeException` -/
def plutusScriptNorm : Item → Res Item
  | .bytes b => .ok (.bytes b)
  | .bytesChunked cs => .ok (.bytes (Metadata.joinChunks cs))
  | _ => .deser

/-- the table of modelled leaves -/
def realLeafTable : List (String × (Item → Res Item)) :=
  [("Address", addrNorm),
   ("NativeScript", nsNorm), ("ScriptPubkey", nsNorm), ("ScriptAll", nsNorm), ("ScriptAny", nsNorm),
   ("ScriptNofK", nsNorm), ("InvalidBefore", nsNorm), ("InvalidHereAfter", nsNorm),
   ("StakeCredential", credNorm), ("DRepCredential", credNorm), ("CommitteeColdCredential", credNorm),
   ("DRep", drepNorm), ("Voter", voterNorm), ("VotingProcedure", vpNorm), ("GovActionId", gaidNorm),
   ("HardForkInitiationAction", hardForkNorm), ("PoolId", poolIdNorm),
   ("Value", valueNorm), ("MultiAsset", multiAssetNorm), ("Asset", assetNorm),
   ("TransactionOutput", outputNorm), ("TransactionBody.outputs", listHookNorm outputNorm),
   ("PoolParams", poolParamsNorm), ("PoolRegistration", poolRegNorm),
   ("AuxiliaryData", auxNorm), ("AlonzoMetadata", alonzoNorm), ("ShelleyMarryMetadata", shelleyMaNorm),
   ("TransactionWitnessSet", wsNorm), ("VerificationKeyWitness", vkwNorm),
   ("Redeemer", redeemerNorm), ("RedeemerValue", redeemerValueNorm), ("RedeemerTag", redeemerTagNorm),
   ("Network", networkNorm),
   ("PlutusV1Script", plutusScriptNorm), ("PlutusV2Script", plutusScriptNorm), ("PlutusV3Script", plutusScriptNorm)]

def realLeaves : LeafEnv := fun n =>
  match realLeafTable.find? (fun p => p.1 == n) with
  | some p => some p.2
  | Option.none => Option.none

/-- the classes of a table that `fromPrimL` hands to a leaf (own codec code, kind `custom` / `oset`) -/
def isLeafClass (cd : ClassDef) : Bool :=
  cd.overrides.contains "from_primitive" || cd.overrides.contains "__post_init__" ||
    (match cd.kind with | .custom => true | .oset => true | _ => false)

mutual
/-- class names a type term mentions -/
def clsIn : Ty → List String
  | .cls n => [n]
  | .list t => clsIn t
  | .dict k v => clsIn k ++ clsIn v
  | .oset t _ => clsIn t
  | .tuple ts => clsInList ts
  | .union ts => clsInList ts
  | _ => []
def clsInList : List Ty → List String
  | [] => []
  | t :: ts => clsIn t ++ clsInList ts
end

/-- the leaves (class names, hook keys) reachable from a class through the table, and whether each is modelled in `L`:
`closed` says every leaf that decoding the class can meet is in `L` (the harness judges refusals only for such classes) -/
def reach (S : List ClassDef) : Nat → List String → List String → List String
  | 0, _, seen => seen
  | _, [], seen => seen
  | fuel+1, n :: todo, seen =>
    if seen.contains n then reach S fuel todo seen else
    match lookup S n with
    | Option.none => reach S fuel todo (n :: seen)
    | some cd =>
      if isLeafClass cd then reach S fuel todo (n :: seen) else
      let fromKind := match cd.kind with | .dict k v => clsIn k ++ clsIn v | _ => []
      let fromFields := (wireFields cd).foldr (fun f acc => (if f.hook then [hookKey n f] else clsIn f.ty) ++ acc) []
      reach S fuel (fromKind ++ fromFields ++ todo) (n :: seen)

/-- leaves met from class `n` that `L` does not model -/
def unmodelled (S : List ClassDef) (L : LeafEnv) (n : String) : List String :=
  (reach S (4 * S.length + 64) [n] []).filter fun m =>
    (match lookup S m with
      | some cd => isLeafClass cd
      | Option.none => true) && (L m).isNone

end Pyc.Compose
