import Pyc.Model.Cbor

/-! # Structural size dominance between the builder's *fake* transaction and the *signed* transaction

`TransactionBuilder._estimate_fee` (txbuilder.py) prices `len(self._build_full_fake_tx().to_cbor())`: the body as it
stands (fee field = the fee in force, or `max_tx_fee` when that is 0), the witness set of `build_witness_set()` with one
placeholder `VerificationKeyWitness` per required key (`_build_fake_vkey_witnesses`), `valid = True`, the auxiliary data.
`build_and_sign` emits the same body with the witness set of `build_witness_set(True)` (scripts already carried by an
input are dropped) and one real witness per *supplied* required key.

`domB fake real` is the computable relation "the fake item dominates the real item in encoded size, for structural
reasons": same constructor at every node; integers, byte and text strings compared by the width of their encoding
(a placeholder fee or change amount may be numerically below or above the final one, what matters is the width of
the head); arrays and maps of the real item are order-preserving sub-sequences of the fake ones (extra fake elements are
allowed: placeholder witnesses nobody signs for, scripts removed because an input carries them, a witness-set key that is
present in the fake and absent in the signed transaction), element by element dominated. There is NO escape hatch
comparing encoded lengths of unlike items: unlike constructors are never dominated. -/

namespace Pyc.SizeDom
open Pyc.Cbor

/-- width dominance of two head arguments under the same major type -/
def headDom (major a b : Nat) : Bool := decide ((head major b).length ≤ (head major a).length)

/-- total length of the chunks of an indefinite byte string, heads included -/
def chunksLen : List Bytes → Nat
  | [] => 0
  | c :: cs => (head 2 c.length).length + c.length + chunksLen cs

mutual
/-- `domB fake real` -/
def domB : Item → Item → Bool
  | .uint a, .uint b => headDom 0 a b
  | .nint a, .nint b => headDom 1 a b
  | .bytes a, .bytes b => decide (b.length ≤ a.length)
  | .bytesChunked a, .bytesChunked b => decide (chunksLen b ≤ chunksLen a)
  | .text a, .text b => decide (b.length ≤ a.length)
  | .array fs, .array rs => domList fs rs
  | .arrayIndef fs, .arrayIndef rs => domList fs rs
  | .map fs, .map rs => domPairs fs rs
  | .tag t x, .tag u y => t == u && domB x y
  | .simple a, .simple b => headDom 7 a b
  | _, _ => false
/-- the real list is embedded, in order, in the fake list; every real element is dominated by the fake element it is
matched with (greedy matching: the first fake element that dominates is taken) -/
def domList : List Item → List Item → Bool
  | _, [] => true
  | [], _ :: _ => false
  | f :: fs, r :: rs => if domB f r then domList fs rs else domList fs (r :: rs)
/-- the same for the entries of a map: an entry is matched by a fake entry with the same encoded key and a
dominating value -/
def domPairs : List (Item × Item) → List (Item × Item) → Bool
  | _, [] => true
  | [], _ :: _ => false
  | (kf, vf) :: fs, (kr, vr) :: rs =>
    if encode kf == encode kr && domB vf vr then domPairs fs rs else domPairs fs ((kr, vr) :: rs)
end

/-- encoded size -/
def size (x : Item) : Nat := (encode x).length

/-- how many bytes the fake item is longer than the real one (0 when it is not) -/
def slack (fake real : Item) : Nat := size fake - size real

/-! ## the placeholder witnesses: `TransactionBuilder._build_fake_vkey_witnesses` (txbuilder.py, since repair 504b48a)

```python
witnesses = []
for i in range(self._witness_count()):
    i_bytes = i.to_bytes(32, "big")
    unique_vkey = VerificationKey.from_primitive(bytes(x ^ y for x, y in zip(bytes.fromhex("5797…7ef9"), i_bytes)))
    unique_sig = bytes(x ^ y for x, y in zip(bytes.fromhex("577c…6a03"), i_bytes + i_bytes))
    witnesses.append(VerificationKeyWitness(unique_vkey, unique_sig))
return NonEmptyOrderedSet(witnesses)          # OrderedSet.append drops an element that is already present
```
Deviation: `i.to_bytes(32, "big")` raises `OverflowError` for `i ≥ 2^256` (a witness count above `2^256`); the model
(`beBytes 32 i`) takes the low 32 bytes instead, so that `fakeKey (2^256) = fakeKey 0` in the model where the code
crashes. No theorem below is stated for an index at or beyond that bound. -/

def maskVkey : Bytes := [
   0x57, 0x97, 0xdc, 0x2c, 0xc9, 0x19, 0xdf, 0xec, 0x0b, 0xb8, 0x49, 0x55, 0x1e, 0xbd, 0xf3, 0x0d,
   0x96, 0xe5, 0xcb, 0xe0, 0xf3, 0x3f, 0x73, 0x4a, 0x87, 0xfe, 0x82, 0x6d, 0xb3, 0x0f, 0x7e, 0xf9]

def maskSig : Bytes := [
   0x57, 0x7c, 0xcb, 0x5b, 0x48, 0x7b, 0x64, 0xe3, 0x96, 0xb0, 0x97, 0x6c, 0x6f, 0x71, 0x55, 0x8e,
   0x52, 0xe4, 0x4a, 0xd2, 0x54, 0xdb, 0x7d, 0x06, 0xdf, 0xb7, 0x98, 0x43, 0xe5, 0x44, 0x1a, 0x5d,
   0x76, 0x3d, 0xd4, 0x2a, 0xdc, 0xf5, 0xe8, 0x80, 0x5d, 0x70, 0x37, 0x37, 0x22, 0xeb, 0xbc, 0xe6,
   0x2a, 0x58, 0xe3, 0xf3, 0x0d, 0xd4, 0x56, 0x0b, 0x9a, 0x89, 0x8b, 0x8c, 0xee, 0xab, 0x6a, 0x03]

/-- `bytes(x ^ y for x, y in zip(xs, ys))` -/
def xorBytes (xs ys : Bytes) : Bytes := List.zipWith (fun x y => x ^^^ y) xs ys

/-- the `(vkey, signature)` pair of the `i`-th placeholder -/
def fakeKey (i : Nat) : Bytes × Bytes :=
  (xorBytes maskVkey (beBytes 32 i), xorBytes maskSig (beBytes 32 i ++ beBytes 32 i))

/-- `OrderedSet.extend`: an element equal to an earlier one is dropped (first occurrence kept) -/
def dedupAux (seen : List (Bytes × Bytes)) : List (Bytes × Bytes) → List (Bytes × Bytes)
  | [] => []
  | x :: xs => if seen.contains x then dedupAux seen xs else x :: dedupAux (x :: seen) xs

/-- the placeholders the builder ends up with for a witness count `n` -/
def fakeKeys (n : Nat) : List (Bytes × Bytes) := dedupAux [] ((List.range n).map fakeKey)

/-- `VerificationKeyWitness` on the wire: `[vkey, signature]` -/
def witItem (w : Bytes × Bytes) : Item := .array [.bytes w.1, .bytes w.2]

/-- the value of key 0 of the fake witness set: `258([[vkey, sig], …])` -/
def fakeWitnessSet (n : Nat) : Item := .tag 258 (.array ((fakeKeys n).map witItem))

end Pyc.SizeDom
