import Pyc.Model.Schema
import Pyc.Model.Basic

/-! Decidable checks over schema tables: well-formedness of the repo's table (`wf`) and refinement of a
specification table (`refines`).  All functions are structurally recursive so that `decide +kernel` evaluates them
on the generated data. -/

namespace Pyc.Schema
open Pyc

/-- wire fields of a class: what the codec emits (constructor fields; `_CODE` / `_TYPE` are `init = false`) -/
def wireFields (c : ClassDef) : List FieldDef := c.fields.filter (·.init)

def isNone : Ty → Bool
  | .none => true
  | _ => false

/-- drop `None` from the alternatives (an optional field that is absent is not emitted) -/
def stripNone : Ty → Ty
  | .union ts => match ts.filter (fun t => !isNone t) with
    | [t] => t
    | ts' => .union ts'
  | t => t

/-- Python-only wrappers removed: `Union[List[T], OrderedSet[T]]` is the set `T` on the wire -/
def collapseSet : Ty → Ty
  | .union [.list _, .oset b ne] => .oset b ne
  | .union [.list _, .oset b ne, .none] => .union [.oset b ne, .none]
  | t => t

/-- lexicographic `≤` on token lists -/
def tokLe : List Nat → List Nat → Bool
  | [], _ => true
  | _ :: _, [] => false
  | a :: as, b :: bs => if a < b then true else if b < a then false else tokLe as bs

def strTok (s : String) : List Nat := s.toList.map (·.toNat)

-- canonical token rendering of a type term: unions as *sets* (alternatives sorted), everything else structural.
-- (one structurally recursive argument, so that the kernel can evaluate it)
mutual
def Ty.canon : Ty → List Nat
  | .any => [1] | .none => [2] | .int => [3] | .bool => [4] | .bytes => [5] | .text => [6] | .frac => [7]
  | .cls n => 8 :: (strTok n).length :: strTok n
  | .named n => 9 :: (strTok n).length :: strTok n
  | .list t => 10 :: Ty.canon t
  | .dict k v => 11 :: (Ty.canon k ++ 0 :: Ty.canon v)
  | .oset t ne => 12 :: (if ne then 1 else 0) :: Ty.canon t
  | .tuple ts => 13 :: ts.length :: Ty.canonSeq ts
  | .union ts => 14 :: ts.length :: (isort tokLe (Ty.canonEach ts)).flatten
def Ty.canonSeq : List Ty → List Nat
  | [] => []
  | t :: ts => (Ty.canon t).length :: (Ty.canon t ++ Ty.canonSeq ts)
def Ty.canonEach : List Ty → List (List Nat)
  | [] => []
  | t :: ts => ((Ty.canon t).length :: Ty.canon t) :: Ty.canonEach ts
end

/-- does the repo type refine the specification type?  equality up to the order of union alternatives -/
def tyMatch (r s : Ty) : Bool := Ty.canon r == Ty.canon s

def kindMatch : Kind → Kind → Bool
  | .array, .array | .map, .map | .oset, .oset | .custom, .custom => true
  | .coded a, .coded b => a == b
  | .dict a b, .dict c d => tyMatch a c && tyMatch b d
  | .cbytes a b, .cbytes c d => a == c && b == d
  | .enum a, .enum b => a == b
  | _, _ => false

def fieldMatch (r s : FieldDef) : Bool :=
  r.key == s.key && r.optional == s.optional &&
    tyMatch (collapseSet (if r.optional then stripNone r.ty else r.ty)) s.ty

def fieldsMatch : List FieldDef → List FieldDef → Bool
  | [], [] => true
  | r :: rs, s :: ss => fieldMatch r s && fieldsMatch rs ss
  | _, _ => false

def isCustom : Kind → Bool
  | .custom => true
  | _ => false

/-- table-driven classes are compared field by field; rules with their own encoding logic only need to be custom
on both sides (their bytes are compared by the differential harness) -/
def classMatch (r s : ClassDef) : Bool :=
  if isCustom s.kind then isCustom r.kind else kindMatch r.kind s.kind && fieldsMatch (wireFields r) (wireFields s)

/-- every class of the specification is present in the repo's table with the same kind / code and, field by
field, the same key, optionality and wire type -/
def refines (R S : List ClassDef) : Bool :=
  S.all (fun s => match lookup R s.name with
    | some r => classMatch r s
    | none => false)

/-- the names of the specification classes the repo's table fails to refine (for diagnostics) -/
def refineFailures (R S : List ClassDef) : List String :=
  (S.filter (fun s => match lookup R s.name with
    | some r => !classMatch r s
    | none => true)).map (·.name)

/-! ## well-formedness of a table -/

def keysUnique : List Key → Bool
  | [] => true
  | k :: ks => !ks.contains k && keysUnique ks

/-- optional fields of an array class come last (a skipped field shifts nothing that follows) -/
def optTrailing : List FieldDef → Bool
  | [] => true
  | f :: fs => (if f.optional then fs.all (·.optional) else true) && optTrailing fs

mutual
def tyDefined (S : List ClassDef) : Ty → Bool
  | .cls n => (lookup S n).isSome
  | .list t => tyDefined S t
  | .dict k v => tyDefined S k && tyDefined S v
  | .oset t _ => tyDefined S t
  | .tuple ts => tyDefinedList S ts
  | .union ts => tyDefinedList S ts
  | _ => true
def tyDefinedList (S : List ClassDef) : List Ty → Bool
  | [] => true
  | t :: ts => tyDefined S t && tyDefinedList S ts
end

def classWF (S : List ClassDef) (c : ClassDef) : Bool :=
  (match c.kind with
    | .map => keysUnique ((wireFields c).map (·.key)) && (wireFields c).all (fun f => f.key != Key.pos)
    | .array => optTrailing (wireFields c)
    | .coded _ => optTrailing (wireFields c)
    | .dict k v => tyDefined S k && tyDefined S v
    | _ => true) &&
  c.fields.all (fun f => tyDefined S f.ty)

def namesUnique : List String → Bool
  | [] => true
  | n :: ns => !ns.contains n && namesUnique ns

def wf (S : List ClassDef) : Bool := namesUnique (S.map (·.name)) && S.all (classWF S)

/-- codes of the coded alternatives of a union, in order (classes that are not coded contribute `none`) -/
def unionCodes (S : List ClassDef) : List Ty → List (Option Nat)
  | [] => []
  | .cls n :: ts => (match lookup S n with
      | some c => (match c.kind with | .coded k => some k | _ => none)
      | none => none) :: unionCodes S ts
  | _ :: ts => none :: unionCodes S ts

def codesDistinct : List (Option Nat) → Bool
  | [] => true
  | none :: _ => false
  | some k :: ks => !ks.contains (some k) && codesDistinct ks

/-- a union all of whose alternatives are coded classes with pairwise distinct codes: at most one alternative
accepts any given array (dispatch is unambiguous whatever the declaration order) -/
def codedUnionOK (S : List ClassDef) (ts : List Ty) : Bool := codesDistinct (unionCodes S ts)

end Pyc.Schema
