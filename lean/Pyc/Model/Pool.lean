import Pyc.Model.CustomCodec
import Pyc.Model.Bech32

/-! Model of the stake-pool registration data: `pycardano/pool_params.py` (`PoolId`, `SingleHostAddr`, `SingleHostName`,
`MultiHostName`, the `Relay` union, `PoolMetadata`, `PoolParams`) and of `PoolRegistration` / `PoolRetirement` in
`pycardano/certificate.py`.  In the generic codec model (`Model/Codec.lean`) these classes are opaque leaves.

Every function transliterates one Python method; the comment names it.  Decoders are three-valued (`Codec.Res`):
`deser` = `DeserializeException` (a `Union` tries its next alternative), `crash` = any other exception.  Encoders
return `Option Item`: `none` = `to_cbor()` raises (`validate()` refuses a field, or `socket.inet_aton` /
`socket.inet_pton` refuse the stored text).

What the code does, and the model keeps:
* `SingleHostAddr` STORES TEXT, in canonical form (since 68e1e96): the constructor first turns its argument into bytes
  (`ipv4_to_bytes`: a `str` through `socket.inet_aton` / `inet_pton` — a refused text raises there —, `bytes` as they are,
  anything else `None`) and stores the text form of those bytes (`socket.inet_ntoa` / `inet_ntop`); `to_primitive` turns the
  stored text back into bytes.  `normRelay` is that constructor applied to the stored fields; every constructed (and every
  decoded) relay is a fixed point of it; an attribute assigned after construction is not normalised.  The four libc
  functions are modelled here (`ntoa`, `aton`, `ntop6`, `pton6`; glibc 2.36, the platform the harness runs on; ASCII texts
  are byte lists).
* the hand-written `from_primitive` of the three relay classes restores no field type: `port` and `dns_name` hold
  whatever the wire held (`Port.junk`, `Name.junk`); `validate()` (run by `to_cbor`) refuses such an object later.
* `PoolRegistration.to_primitive` flattens `[3, *pool_params]`; `from_primitive` accepts the flat form and `[3, [...]]`.
* `PoolParams.id` (an optional trailing `PoolId`) is written as a tenth item when set; `PoolParams.__post_init__` (since
  daec0e4) turns `relays=None` (the default) into `[]` (`postInit`); a `relays` attribute set to `None` afterwards is
  still written as `null`.
* `fractions.Fraction` normalises in its constructor, so does cbor2's decoder of tag 30 (`Fraction(*value)`).

Deviations (not reachable from an object the library serializes; the differential run does not generate them): Python
counts `True` / `False` as ints in `pledge`, `cost`, `epoch`, `port` and as components of a rational — here a boolean is
not an integer (it IS one where the code only compares, `values[0] == code`); `bytes.fromhex` skips ASCII whitespace;
a rational whose components are text or nested rationals (`Fraction("1/2")`) is refused here; extra items beyond the
declared fields (`unknown_field<i>` attributes) are dropped; `#6.258` around a CBOR map iterates the keys of the dict
cbor2 built (duplicates collapsed there, here by `dedup`); the empty bignum `c2 40` is 0 for `itemInt?` (shared with the
other codec models) where cbor2's pure-Python decoder raises `ValueError`; CBOR text is assumed to be valid UTF-8 and
address texts to be free of NUL (both are refused before the modelled code runs). -/

namespace Pyc.Pool
open Pyc Pyc.Cbor Pyc.Codec Pyc.Custom

/-! ## libc: IPv4 / IPv6 text forms (ASCII texts as byte lists) -/

def chDot : UInt8 := 46
def chColon : UInt8 := 58

/-- the ASCII digit of `n < 10` -/
def decChar (n : Nat) : UInt8 := UInt8.ofNat (48 + n)

/-- `sprintf("%d", n)` for an octet -/
def decDigits (n : Nat) : Bytes :=
  if n < 10 then [decChar n]
  else if n < 100 then [decChar (n / 10), decChar (n % 10)]
  else [decChar (n / 100), decChar (n / 10 % 10), decChar (n % 10)]

/-- `a.b.c.d` -/
def dotted (a b c d : UInt8) : Bytes :=
  decDigits a.toNat ++ chDot :: (decDigits b.toNat ++ chDot :: (decDigits c.toNat ++ chDot :: decDigits d.toNat))

/-- `socket.inet_ntoa(packed)`: `OSError` unless exactly 4 bytes -/
def ntoa : Bytes → Option Bytes
  | [a, b, c, d] => some (dotted a b c d)
  | _ => Option.none

def isDigit (c : UInt8) : Bool := decide (48 ≤ c.toNat ∧ c.toNat ≤ 57)

/-- value of `c` as a digit of `base` (8, 10 or 16) -/
def digitVal (base : Nat) (c : UInt8) : Option Nat :=
  match hexByte c with
  | some v => if v < base then some v else Option.none
  | Option.none => Option.none

/-- the digit loop of `strtoul`: value (unbounded here; the caller refuses anything beyond 32 bits, which is also what
the saturated `ULONG_MAX` is) and the unread rest -/
def takeDigits (base : Nat) : Bytes → Nat → Nat × Bytes
  | [], acc => (acc, [])
  | c :: r, acc =>
    match digitVal base c with
    | some v => takeDigits base r (acc * base + v)
    | Option.none => (acc, c :: r)

/-- `strtoul(cp, &endp, 0)` on a string that starts with a digit: `0x` / `0X` followed by a hex digit is hexadecimal, a
leading `0` octal, anything else decimal -/
def strtoul0 (s : Bytes) : Nat × Bytes :=
  if s.head? = some 48 then
    (match s.tail with
      | x :: h :: r =>
        if (x = 120 ∨ x = 88) ∧ (hexByte h).isSome then takeDigits 16 (h :: r) 0 else takeDigits 8 s 0
      | _ => takeDigits 8 s 0)
  else takeDigits 10 s 0

/-- `isascii(c) && isspace(c)` -/
def isSpace (c : UInt8) : Bool := c = 32 ∨ (9 ≤ c.toNat ∧ c.toNat ≤ 13)

/-- `max[]` of glibc's `inet_aton_end`: the largest last part after `k` dotted parts -/
def atonMax (k : Nat) : Nat := 256 ^ (4 - k) - 1

/-- the `do … while (1)` loop and the tail of glibc's `inet_aton_end` (`parts`: the bytes stored so far) -/
def atonLoop : Nat → Bytes → List Nat → Option Bytes
  | 0, _, _ => Option.none
  | fuel+1, s, parts =>
    match s with
    | [] => Option.none
    | c :: _ =>
      if !isDigit c then Option.none else
      let vr := strtoul0 s
      if vr.1 > 0xffffffff then Option.none else
      match vr.2 with
      | [] =>
        if vr.1 > atonMax parts.length then Option.none
        else some (parts.map UInt8.ofNat ++ beBytes (4 - parts.length) vr.1)
      | c' :: rest =>
        if c' = chDot then
          if parts.length > 2 ∨ vr.1 > 255 then Option.none else atonLoop fuel rest (parts ++ [vr.1])
        else if !isSpace c' then Option.none
        else if vr.1 > atonMax parts.length then Option.none
        else some (parts.map UInt8.ofNat ++ beBytes (4 - parts.length) vr.1)

/-- `socket.inet_aton(text)`: `a.b.c.d`, `a.b.c`, `a.b`, `a`, each part decimal, octal (`0…`) or hexadecimal (`0x…`),
anything after ASCII white space ignored; `OSError` (or `ValueError` for an embedded NUL) otherwise -/
def aton (s : Bytes) : Option Bytes := atonLoop (s.length + 1) s []

/-- the lower-case hex digit of `n < 16` -/
def hexChar (n : Nat) : UInt8 := if n < 10 then UInt8.ofNat (48 + n) else UInt8.ofNat (87 + n)

/-- `sprintf("%x", w)` for a 16-bit word -/
def hexDigits (w : Nat) : Bytes :=
  if w < 16 then [hexChar w]
  else if w < 256 then [hexChar (w / 16), hexChar (w % 16)]
  else if w < 4096 then [hexChar (w / 256), hexChar (w / 16 % 16), hexChar (w % 16)]
  else [hexChar (w / 4096), hexChar (w / 256 % 16), hexChar (w / 16 % 16), hexChar (w % 16)]

/-- big-endian 16-bit words of a byte string (a trailing odd byte is dropped; never happens for 16 bytes) -/
def words16 : Bytes → List Nat
  | a :: b :: r => (a.toNat * 256 + b.toNat) :: words16 r
  | _ => []

def wordBytes (w : Nat) : Bytes := [UInt8.ofNat (w / 256), UInt8.ofNat (w % 256)]

def wordsBytes : List Nat → Bytes
  | [] => []
  | w :: ws => wordBytes w ++ wordsBytes ws

/-- groups joined by `:` -/
def joinGroups : List Nat → Bytes
  | [] => []
  | [w] => hexDigits w
  | w :: ws => hexDigits w ++ chColon :: joinGroups ws

/-- length of the run of zero words at the head -/
def zeroRun : List Nat → Nat
  | [] => 0
  | w :: ws => if w = 0 then zeroRun ws + 1 else 0

/-- the leftmost longest run of zero words: `(base, len)` (`len = 0`: there is no zero word); `i` is the index of the
head.  glibc scans once and keeps a later run only when it is strictly longer. -/
def bestRun : List Nat → Nat → Nat × Nat
  | [], _ => (0, 0)
  | w :: ws, i =>
    let here := zeroRun (w :: ws)
    let later := bestRun ws (i + 1)
    if here ≥ later.2 ∧ here > 0 then (i, here) else later

/-- `socket.inet_ntop(AF_INET6, packed)` (glibc `inet_ntop6`): `ValueError` unless exactly 16 bytes; lower-case hex groups
without leading zeros; the leftmost longest run of two or more zero groups is written `::`; `::a.b.c.d` when the first
six groups are zero (and the run is not longer), `::ffff:a.b.c.d` for the IPv4-mapped form -/
def ntop6 (b : Bytes) : Option Bytes :=
  if b.length ≠ 16 then Option.none else
  let ws := words16 b
  let br := bestRun ws 0
  if br.2 < 2 then some (joinGroups ws)
  else if br.1 = 0 ∧ br.2 = 6 then
    (match b.drop 12 with
      | [p, q, r, s] => some (chColon :: chColon :: dotted p q r s)
      | _ => Option.none)
  else if br.1 = 0 ∧ br.2 = 5 ∧ ws.getD 5 0 = 0xffff then
    (match b.drop 12 with
      | [p, q, r, s] => some (chColon :: chColon :: (hexDigits 0xffff ++ chColon :: dotted p q r s))
      | _ => Option.none)
  else some (joinGroups (ws.take br.1) ++ chColon :: chColon :: joinGroups (ws.drop (br.1 + br.2)))

/-- state of glibc's strict `inet_pton4`: finished octets, the octet being read, `saw_digit` -/
def pton4Loop : Bytes → List Nat → Nat → Bool → Option Bytes
  | [], done, cur, saw =>
    if saw ∧ done.length = 3 then some ((done ++ [cur]).map UInt8.ofNat) else Option.none
  | ch :: src, done, cur, saw =>
    if isDigit ch then
      let new := cur * 10 + (ch.toNat - 48)
      if saw ∧ cur = 0 then Option.none                       -- a leading zero
      else if new > 255 then Option.none
      else if !saw ∧ done.length ≥ 4 then Option.none
      else pton4Loop src done new true
    else if ch = chDot ∧ saw then
      if done.length ≥ 3 then Option.none else pton4Loop src (done ++ [cur]) 0 false
    else Option.none

/-- glibc `inet_pton4`: exactly four decimal octets without leading zeros -/
def pton4 (s : Bytes) : Option Bytes := pton4Loop s [] 0 false

/-- state of the main loop of glibc's `inet_pton6` -/
structure P6 where
  tp : Bytes                 -- bytes written so far
  colonp : Option Nat        -- position of `::`
  xd : Nat                   -- `xdigits_seen`
  val : Nat
  deriving Repr

/-- the `while (src < src_endp)` loop of glibc's `inet_pton6`; `curtok` is the text from the start of the current group -/
def p6Loop : Bytes → Bytes → P6 → Option P6
  | [], _, st => some st
  | ch :: src, curtok, st =>
    match hexByte ch with
    | some dgt =>
      if st.xd = 4 then Option.none
      else if st.val * 16 + dgt > 0xffff then Option.none
      else p6Loop src curtok { st with xd := st.xd + 1, val := st.val * 16 + dgt }
    | Option.none =>
      if ch = chColon then
        if st.xd = 0 then
          (if st.colonp.isSome then Option.none else p6Loop src src { st with colonp := some st.tp.length })
        else if src.isEmpty then Option.none
        else if st.tp.length + 2 > 16 then Option.none
        else p6Loop src src { st with tp := st.tp ++ wordBytes st.val, xd := 0, val := 0 }
      else if ch = chDot ∧ st.tp.length + 4 ≤ 16 then
        (match pton4 curtok with
          | some b4 => some { st with tp := st.tp ++ b4, xd := 0, val := 0 }
          | Option.none => Option.none)
      else Option.none

/-- the tail of `inet_pton6`: the pending group, the expansion of `::`, the length test -/
def p6Finish (st : P6) : Option Bytes :=
  let tp? : Option Bytes :=
    if st.xd > 0 then (if st.tp.length + 2 > 16 then Option.none else some (st.tp ++ wordBytes st.val)) else some st.tp
  match tp? with
  | Option.none => Option.none
  | some tp =>
    match st.colonp with
    | some cp =>
      if tp.length = 16 then Option.none
      else some (tp.take cp ++ List.replicate (16 - tp.length) 0 ++ tp.drop cp)
    | Option.none => if tp.length = 16 then some tp else Option.none

/-- `socket.inet_pton(AF_INET6, text)` (glibc `inet_pton6`): `OSError` (`ValueError` for an embedded NUL) when refused -/
def pton6 (s : Bytes) : Option Bytes :=
  match s with
  | [] => Option.none
  | c :: r =>
    let body? : Option Bytes :=
      if c = chColon then
        (match r with
          | c2 :: _ => if c2 = chColon then some r else Option.none
          | [] => Option.none)
      else some s
    match body? with
    | Option.none => Option.none
    | some body =>
      match p6Loop body body ⟨[], Option.none, 0, 0⟩ with
      | some st => p6Finish st
      | Option.none => Option.none

/-! ## Relays -/

/-- `Optional[int]` as the hand-written `from_primitive` leaves it: whatever the wire held -/
inductive Port where
  | none
  | int (i : Int)
  | junk (i : Item)
  deriving Repr

/-- `Optional[str]` (`dns_name`) as the hand-written `from_primitive` leaves it -/
inductive Name where
  | none
  | text (b : Bytes)
  | junk (i : Item)
  deriving Repr

/-- `Relay = Union[SingleHostAddr, SingleHostName, MultiHostName]`; the addresses of a `SingleHostAddr` are the stored TEXTS -/
inductive Relay where
  | addr (port : Port) (ipv4 : Option Bytes) (ipv6 : Option Bytes)
  | name (port : Port) (dns : Name)
  | multi (dns : Name)
  deriving Repr

/-- an `ipv4=` / `ipv6=` constructor argument: `str`, `bytes`, or anything else (treated as `None`) -/
inductive IpArg where
  | none
  | text (t : Bytes)
  | bytes (b : Bytes)
  deriving Repr

/-- `SingleHostAddr.ipv4_to_bytes` / `ipv6_to_bytes` of a constructor argument (`conv` = `inet_aton` / `inet_pton`); outer
`none` = `OSError` / `ValueError` (the text is refused) -/
def argToBytes (conv : Bytes → Option Bytes) : IpArg → Option (Option Bytes)
  | .none => some Option.none
  | .text t => (match conv t with | some b => some (some b) | Option.none => Option.none)
  | .bytes b => some (some b)

/-- `SingleHostAddr.bytes_to_ipv4` / `bytes_to_ipv6` of what `…_to_bytes` returned (`shw` = `inet_ntoa` / `inet_ntop`); outer
`none` = `OSError` / `ValueError` (wrong length) -/
def bytesToText (shw : Bytes → Option Bytes) : Option Bytes → Option (Option Bytes)
  | Option.none => some Option.none
  | some b => (match shw b with | some t => some (some t) | Option.none => Option.none)

/-- `self.bytes_to_ipv4(self.ipv4_to_bytes(arg))`: the text stored for a constructor argument -/
def ctorIp (conv shw : Bytes → Option Bytes) (a : IpArg) : Option (Option Bytes) :=
  match argToBytes conv a with
  | some ob => bytesToText shw ob
  | Option.none => Option.none

/-- `SingleHostAddr.__init__(port, ipv4, ipv6)`; `none` = the constructor raises -/
def mkAddr (port : Port) (ipv4 ipv6 : IpArg) : Option Relay :=
  match ctorIp aton ntoa ipv4, ctorIp pton6 ntop6 ipv6 with
  | some a, some b => some (.addr port a b)
  | _, _ => Option.none

/-- a stored text as a constructor argument -/
def textArg : Option Bytes → IpArg
  | some t => .text t
  | Option.none => .none

/-- the constructor applied to the fields of a relay: `SingleHostAddr(r.port, r.ipv4, r.ipv6)`; the other two classes
store what they are given (`__post_init__` only sets `_CODE`).  Every constructed relay — and every decoded one, the
decoders go through the constructors — is a fixed point: `normRelay r = some r`. -/
def normRelay : Relay → Option Relay
  | .addr p a b => mkAddr p (textArg a) (textArg b)
  | r => some r

def null : Item := .simple 22

def itemPort : Port → Option Item
  | .none => some null
  | .int i => some (ofInt i)
  | .junk _ => Option.none                     -- `validate()`: TypeError

def itemName : Name → Option Item
  | .none => some null
  | .text b => some (.text b)
  | .junk _ => Option.none

/-- `SingleHostAddr.ipv4_to_bytes` / `ipv6_to_bytes` of the stored text -/
def itemIp (conv : Bytes → Option Bytes) : Option Bytes → Option Item
  | Option.none => some null
  | some t => (match conv t with | some b => some (.bytes b) | Option.none => Option.none)

/-- `to_validated_primitive()` of a relay: `SingleHostAddr.to_primitive` (`[0, port, ipv4 bytes, ipv6 bytes]`), the
generic `ArrayCBORSerializable.to_shallow_primitive` for the other two (`[1, port, dns_name]`, `[2, dns_name]`) -/
def encRelay : Relay → Option Item
  | .addr p a b =>
    (match itemPort p, itemIp aton a, itemIp pton6 b with
      | some pi, some ai, some bi => some (.array [.uint 0, pi, ai, bi])
      | _, _, _ => Option.none)
  | .name p d =>
    (match itemPort p, itemName d with
      | some pi, some di => some (.array [.uint 1, pi, di])
      | _, _ => Option.none)
  | .multi d =>
    (match itemName d with
      | some di => some (.array [.uint 2, di])
      | Option.none => Option.none)

def encRelays : List Relay → Option (List Item)
  | [] => some []
  | r :: rs =>
    (match encRelay r, encRelays rs with
      | some i, some is => some (i :: is)
      | _, _ => Option.none)

/-- Python `values[0] == k` for a decoded first element: an int (cbor2 also returns ints for bignum tags), or a bool -/
def codeIs (c : Item) (k : Int) : Bool :=
  match itemInt? c with
  | some v => v == k
  | Option.none =>
    (match c with
      | .simple n => (n == 20 && k == 0) || (n == 21 && k == 1)
      | _ => false)

def toPort (i : Item) : Port :=
  match itemInt? i with
  | some v => .int v
  | Option.none =>
    (match i with
      | .simple n => if n = 22 then .none else .junk i
      | _ => .junk i)

def toName : Item → Name
  | .text b => .text b
  | .simple n => if n = 22 then .none else .junk (.simple n)
  | i => .junk i

/-- what cbor2 hands over for a byte string: definite or chunked, both a `bytes` object -/
def asBytes? : Item → Option Bytes
  | .bytes b => some b
  | .bytesChunked cs => some cs.flatten
  | _ => Option.none

def toIpArg (i : Item) : IpArg :=
  match asBytes? i with
  | some b => .bytes b
  | Option.none => (match i with | .text t => .text t | _ => .none)

/-- `_restore_typed_primitive(Union[SingleHostAddr, SingleHostName, MultiHostName], v)`: each alternative is
`@limit_primitive_type(list, tuple)` (an indefinite-length array is an `IndefiniteList`: refused by all three), compares
`values[0]` with its code and indexes the positions it needs (`IndexError` when the array is too short; extra items are
ignored) -/
def decRelay : Item → Res Relay
  | .array [] => .crash
  | .array (c :: r) =>
    if codeIs c 0 then
      (match r with
        | p :: a :: b :: _ =>
          (match mkAddr (toPort p) (toIpArg a) (toIpArg b) with
            | some x => .ok x
            | Option.none => .crash)
        | _ => .crash)
    else if codeIs c 1 then
      (match r with
        | p :: d :: _ => .ok (.name (toPort p) (toName d))
        | _ => .crash)
    else if codeIs c 2 then
      (match r with
        | d :: _ => .ok (.multi (toName d))
        | _ => .crash)
    else .deser
  | _ => .deser

def decRelayList : List Item → Res (List Relay)
  | [] => .ok []
  | x :: xs => Res.bind (decRelay x) fun r => Res.bind (decRelayList xs) fun rs => .ok (r :: rs)

/-- `_restore_typed_primitive(Optional[List[Relay]], v)`: `List[Relay]` (a list or an `IndefiniteList`), then `None` -/
def decRelays (i : Item) : Res (Option (List Relay)) :=
  match listElems? i with
  | some xs => Res.bind (decRelayList xs) fun rs => .ok (some rs)
  | Option.none =>
    (match i with
      | .simple n => if n = 22 then .ok Option.none else .deser
      | _ => .deser)

/-! ## Pool metadata, pool id, rationals, owners -/

/-- `PoolMetadata` (`url: str`, `pool_metadata_hash: PoolMetadataHash`) -/
structure Metadata where
  url : Bytes
  hash : Bytes
  deriving Repr

def itemMetadata : Option Metadata → Item
  | Option.none => null
  | some m => .array [.text m.url, .bytes m.hash]

/-- `ConstrainedBytes.from_primitive` of a class of exactly `n` bytes (`decCBytes`, plus chunked byte strings, which
cbor2 joins into one `bytes`) -/
def decHash (n : Nat) (i : Item) : Res Bytes :=
  match i with
  | .bytesChunked cs => if cs.flatten.length = n then .ok cs.flatten else .crash
  | _ => decCBytes n n i

def decText : Item → Res Bytes
  | .text b => .ok b
  | _ => .deser

/-- `_restore_typed_primitive(Optional[PoolMetadata], v)`: the generic array class (fields restored in order, then the
constructor: `TypeError` when an argument is missing), then `None` -/
def decMetadata (i : Item) : Res (Option Metadata) :=
  match listElems? i with
  | some [] => .crash
  | some [u] => Res.bind (decText u) fun _ => .crash
  | some (u :: h :: _) => Res.bind (decText u) fun url => Res.bind (decHash 32 h) fun hash => .ok (some ⟨url, hash⟩)
  | Option.none =>
    (match i with
      | .simple n => if n = 22 then .ok Option.none else .deser
      | _ => .deser)

def asciiChars (s : Bytes) : List Char := s.map fun b => Char.ofNat b.toNat

def startsWith : Bytes → Bytes → Bool
  | [], _ => true
  | _ :: _, [] => false
  | p :: ps, c :: cs => p == c && startsWith ps cs

/-- the UTF-8 bytes of `"pool"` -/
def poolPrefix : Bytes := [112, 111, 111, 108]

/-- `is_bech32_cardano_pool_id(pool_id)`: `pool_id.startswith("pool") and bech32_decode(pool_id) != (None, None, None)`
(any prefix that begins with `pool`, any payload length; a non-ASCII character is refused by `bech32_decode`, and so is
each byte of its UTF-8 form here) -/
def isPoolId (s : Bytes) : Bool :=
  startsWith poolPrefix s && (Bech32.bech32Decode (asciiChars s)).isSome

/-- `PoolId.from_primitive`: `@limit_primitive_type(str)`, then the constructor (`__post_init__`: `ValueError`) -/
def decPoolId : Item → Res Bytes
  | .text s => if isPoolId s then .ok s else .crash
  | _ => .deser

/-- `PoolId.to_primitive` -/
def itemPoolId (s : Bytes) : Item := .text s

/-- `_restore_typed_primitive(Optional[PoolId], v)` -/
def decOptPoolId : Item → Res (Option Bytes)
  | .text s => if isPoolId s then .ok (some s) else .crash
  | .simple n => if n = 22 then .ok Option.none else .deser
  | _ => .deser

/-- the pool id text of a pool key hash: `bech32.encode("pool", key_hash)` -/
def poolIdText (kh : Bytes) : Option Bytes :=
  (Bech32.encode "pool".toList kh).map fun cs => cs.map fun c => UInt8.ofNat c.toNat

/-- a `fractions.Fraction`: numerator and denominator as stored (lowest terms, positive denominator) -/
structure Frac where
  n : Int
  d : Int
  deriving Repr, DecidableEq

/-- `Fraction(n, d)`: `ZeroDivisionError` for `d = 0`; divides by the gcd, the denominator takes the positive sign -/
def mkFrac (n d : Int) : Option Frac :=
  if d = 0 then Option.none
  else
    let g : Int := Int.gcd n d
    if d < 0 then some ⟨-(n / g), -(d / g)⟩ else some ⟨n / g, d / g⟩

/-- cbor2 `encode_rational`: `CBORTag(30, [numerator, denominator])` -/
def itemFrac (q : Frac) : Item := .tag 30 (.array [ofInt q.n, ofInt q.d])

/-- `_restore_typed_primitive(Fraction, v)` on what cbor2's `decode_rational` built (`Fraction(*value)`: two ints, one
int, or nothing; any failure there is a `CBORDecodeValueError` of the whole `from_cbor`); an item that is not tag 30 is
no `Fraction`: `DeserializeException` -/
def decFrac : Item → Res Frac
  | .tag t x =>
    if t = 30 then
      (match x with
        | .array [a, b] =>
          (match itemInt? a, itemInt? b with
            | some n, some d => (match mkFrac n d with | some q => .ok q | Option.none => .crash)
            | _, _ => .crash)
        | .array [a] => (match itemInt? a with | some n => .ok ⟨n, 1⟩ | Option.none => .crash)
        | .array [] => .ok ⟨0, 1⟩
        | _ => .crash)
    else .deser
  | _ => .deser

/-- `pool_owners: Union[List[VerificationKeyHash], OrderedSet[VerificationKeyHash]]` -/
inductive Owners where
  | list (xs : List Bytes)
  | oset (tagged : Bool) (xs : List Bytes)
  deriving Repr, DecidableEq

/-- `OrderedSet.append` keeps the first occurrence -/
def dedup : List Bytes → List Bytes
  | [] => []
  | x :: xs => x :: (dedup xs).filter (fun y => y != x)

/-- `OrderedSet(items, use_tag)` -/
def mkOset (tagged : Bool) (xs : List Bytes) : Owners := .oset tagged (dedup xs)

def Owners.elems : Owners → List Bytes
  | .list xs => xs
  | .oset _ xs => xs

def itemOwners : Owners → Item
  | .list xs => .array (xs.map .bytes)
  | .oset true xs => .tag 258 (.array (xs.map .bytes))
  | .oset false xs => .array (xs.map .bytes)

def decHashList (n : Nat) : List Item → Res (List Bytes)
  | [] => .ok []
  | x :: xs => Res.bind (decHash n x) fun h => Res.bind (decHashList n xs) fun hs => .ok (h :: hs)

/-- what iterating the content of a `#6.258` tag yields (`OrderedSet.from_primitive` calls `_restore(value.value)`
without looking at its type): the items of a list, the keys of a map, the ints of a byte string, the characters of a
text; `none` = not iterable (`TypeError`) -/
def iterItems : Item → Option (List Item)
  | .array xs => some xs
  | .arrayIndef xs => some xs
  | .map kvs => some (kvs.map Prod.fst)
  | .bytes b => some (b.map fun x => .uint x.toNat)
  | .bytesChunked cs => some (cs.flatten.map fun x => .uint x.toNat)
  | .text t => some (t.map fun x => .text [x])         -- (ASCII) one text per character
  | _ => Option.none

/-- `_restore_typed_primitive(Union[List[VerificationKeyHash], OrderedSet[VerificationKeyHash]], v)`: a list (definite or
not) is taken by `List[…]` and stays a `list`; `#6.258(…)` is refused by `List[…]` and restored by
`OrderedSet.from_primitive` (tag remembered, duplicates dropped); anything else ends in its `ValueError` — also an
`IndefiniteList` whose element `List[…]` refused -/
def decOwners (i : Item) : Res Owners :=
  match i with
  | .array xs => Res.bind (decHashList 28 xs) fun hs => .ok (.list hs)
  | .arrayIndef xs =>
    (match decHashList 28 xs with
      | .ok hs => .ok (.list hs)
      | .deser => .crash
      | .crash => .crash)
  | .tag t inner =>
    if t = 258 then
      (match iterItems inner with
        | some xs => Res.bind (decHashList 28 xs) fun hs => .ok (.oset true (dedup hs))
        | Option.none => .crash)
    else .crash
  | _ => .crash

/-! ## `PoolParams`, `PoolRegistration`, `PoolRetirement` -/

structure PoolParams where
  operator : Bytes                    -- PoolKeyHash (28)
  vrf : Bytes                         -- VrfKeyHash (32)
  pledge : Int
  cost : Int
  margin : Frac
  rewardAccount : Bytes               -- RewardAccountHash (29)
  owners : Owners
  relays : Option (List Relay)
  metadata : Option Metadata
  id : Option Bytes                   -- PoolId (its text), `metadata={"optional": True}`
  deriving Repr

/-- the `relays` field: `None` is written as `null`, a list as an array of relays -/
def itemRelaysOpt : Option (List Relay) → Option Item
  | Option.none => some null
  | some rs => (match encRelays rs with | some is => some (.array is) | Option.none => Option.none)

/-- `PoolParams.to_validated_primitive()`: the generic array class, every field in declaration order; the trailing
optional `id` is skipped when `None`; `relays=None` is written as `null` -/
def itemsParams (p : PoolParams) : Option (List Item) :=
  match itemRelaysOpt p.relays with
  | Option.none => Option.none
  | some rl =>
    some ([.bytes p.operator, .bytes p.vrf, ofInt p.pledge, ofInt p.cost, itemFrac p.margin, .bytes p.rewardAccount,
        itemOwners p.owners, rl, itemMetadata p.metadata]
      ++ (match p.id with | some s => [itemPoolId s] | Option.none => []))

/-- `PoolParams.to_cbor()` as an item (the class on its own: an array) -/
def encParams (p : PoolParams) : Option Item := (itemsParams p).map .array

/-- `PoolRegistration.to_primitive`: `[self._CODE, *pool_params]` -/
def encRegistration (p : PoolParams) : Option Item := (itemsParams p).map fun is => .array (.uint 3 :: is)

/-- the keyword arguments collected by `ArrayCBORSerializable.from_primitive` for `PoolParams`: the items are zipped with
the ten constructor fields and restored in order (the first failure is raised); missing trailing fields take their
defaults (`relays`, `pool_metadata`, `id`: `None`), a missing required one is a `TypeError` -/
def decParamsFields (xs : List Item) : Res PoolParams :=
  match xs with
  | [] => .crash
  | o :: xs1 =>
    Res.bind (decHash 28 o) fun operator =>
    match xs1 with
    | [] => .crash
    | v :: xs2 =>
      Res.bind (decHash 32 v) fun vrf =>
      match xs2 with
      | [] => .crash
      | pl :: xs3 =>
        (match itemInt? pl with
          | Option.none => .deser
          | some pledge =>
            match xs3 with
            | [] => .crash
            | co :: xs4 =>
              (match itemInt? co with
                | Option.none => .deser
                | some cost =>
                  match xs4 with
                  | [] => .crash
                  | m :: xs5 =>
                    Res.bind (decFrac m) fun margin =>
                    match xs5 with
                    | [] => .crash
                    | ra :: xs6 =>
                      Res.bind (decHash 29 ra) fun rewardAccount =>
                      match xs6 with
                      | [] => .crash
                      | ow :: xs7 =>
                        Res.bind (decOwners ow) fun owners =>
                        match xs7 with
                        | [] => .ok ⟨operator, vrf, pledge, cost, margin, rewardAccount, owners, Option.none, Option.none, Option.none⟩
                        | rl :: xs8 =>
                          Res.bind (decRelays rl) fun relays =>
                          match xs8 with
                          | [] => .ok ⟨operator, vrf, pledge, cost, margin, rewardAccount, owners, relays, Option.none, Option.none⟩
                          | md :: xs9 =>
                            Res.bind (decMetadata md) fun metadata =>
                            match xs9 with
                            | [] => .ok ⟨operator, vrf, pledge, cost, margin, rewardAccount, owners, relays, metadata, Option.none⟩
                            | pid :: _ =>
                              Res.bind (decOptPoolId pid) fun id =>
                              .ok ⟨operator, vrf, pledge, cost, margin, rewardAccount, owners, relays, metadata, id⟩))

/-- `PoolParams.__post_init__`: `if self.relays is None: self.relays = []` -/
def postInit (p : PoolParams) : PoolParams :=
  match p.relays with
  | Option.none => { p with relays := some [] }
  | some _ => p

/-- … followed by the constructor call `cls(*restored_vals)` -/
def decParamsItems (xs : List Item) : Res PoolParams :=
  match decParamsFields xs with
  | .ok p => .ok (postInit p)
  | .deser => .deser
  | .crash => .crash

/-- `PoolParams.from_primitive`: `@limit_primitive_type(list, tuple, IndefiniteList)` -/
def decParams (i : Item) : Res PoolParams :=
  match listElems? i with
  | some xs => decParamsItems xs
  | Option.none => .deser

/-- `PoolRegistration.from_primitive`: `@limit_primitive_type(list, tuple)`; `values[0] == 3`; a `list` in position 1 is
the nested form `[3, [pool_params…]]`, otherwise the flat form `[3, pool_params…]` -/
def decRegistration : Item → Res PoolParams
  | .array [] => .crash                                   -- IndexError
  | .array (c :: rest) =>
    if codeIs c 3 then
      (match rest with
        | [] => .crash                                    -- IndexError
        | .array ys :: _ => decParamsItems ys
        | _ => decParamsItems rest)
    else .deser
  | _ => .deser

structure Retirement where
  poolKeyHash : Bytes
  epoch : Int
  deriving Repr, DecidableEq

/-- `PoolRetirement.to_primitive` (generic coded class): `[4, pool_keyhash, epoch]` -/
def itemRetirement (r : Retirement) : Item := .array [.uint 4, .bytes r.poolKeyHash, ofInt r.epoch]

/-- `CodedSerializable.from_primitive` for `PoolRetirement`: `@limit_primitive_type(list, tuple)`, `values[0] != 4`
(`IndexError` for an empty list), then the generic array class on `values[1:]` -/
def decRetirement : Item → Res Retirement
  | .array [] => .crash
  | .array (c :: rest) =>
    if codeIs c 4 then
      (match rest with
        | [] => .crash
        | k :: rest2 =>
          Res.bind (decHash 28 k) fun kh =>
          match rest2 with
          | [] => .crash
          | e :: _ =>
            (match itemInt? e with
              | some ep => .ok ⟨kh, ep⟩
              | Option.none => .deser))
    else .deser
  | _ => .deser

/-! ## bytes level, and the normal form under decode ∘ encode -/

def bytesOf (i : Option Item) : Option Bytes := i.map encode

def decodeWith {α : Type} (f : Item → Res α) (b : Bytes) : Res α :=
  match decodeAll b with
  | some i => f i
  | Option.none => .crash                                  -- CBORDecodeError

/-- decoding takes the first alternative of `Union[List[…], OrderedSet[…]]` that accepts: an untagged array comes back
as a `list`, also when it was written by an `OrderedSet(use_tag=False)` (equal under `OrderedSet.__eq__`, same bytes) -/
def normOwners : Owners → Owners
  | .oset false xs => .list xs
  | o => o

def normParams (p : PoolParams) : PoolParams := { p with owners := normOwners p.owners }

/-- Python `==` on the owners field: `OrderedSet.__eq__` / `list.__eq__` compare the elements in order -/
def Owners.pyEq (a b : Owners) : Bool := a.elems == b.elems

/-! ## the objects the round-trip theorems speak about (executable; the driver reports them per case) -/

def portOk : Port → Bool
  | .junk _ => false
  | _ => true

def nameOk : Name → Bool
  | .junk _ => false
  | _ => true

/-- the stored IPv4 text is what `inet_ntoa` writes for the bytes `inet_aton` reads from it (true of every text the
constructor makes from `bytes`, and of every decoded relay) -/
def canon4 (t : Bytes) : Bool :=
  match aton t with
  | some b => (match ntoa b with | some t' => t' == t | Option.none => false)
  | Option.none => false

def canon6 (t : Bytes) : Bool :=
  match pton6 t with
  | some b => (match ntop6 b with | some t' => t' == t | Option.none => false)
  | Option.none => false

def optAll (f : Bytes → Bool) : Option Bytes → Bool
  | some t => f t
  | Option.none => true

def relayOk : Relay → Bool
  | .addr p a b => portOk p && optAll canon4 a && optAll canon6 b
  | .name p d => portOk p && nameOk d
  | .multi d => nameOk d

/-- the fields `validate()` checks (`port: Optional[int]`, `dns_name: Optional[str]`); the constructors do not -/
def relayTyped : Relay → Bool
  | .addr p _ _ => portOk p
  | .name p d => portOk p && nameOk d
  | .multi d => nameOk d

def relaysTyped : Option (List Relay) → Bool
  | some rs => rs.all relayTyped
  | Option.none => true

def nodupB : List Bytes → Bool
  | [] => true
  | x :: xs => !xs.contains x && nodupB xs

def ownersOk : Owners → Bool
  | .list xs => xs.all (fun h => h.length == 28)
  | .oset _ xs => xs.all (fun h => h.length == 28) && nodupB xs

/-- the class invariant of `fractions.Fraction` -/
def fracOk (q : Frac) : Bool := decide (0 < q.d) && Int.gcd q.n q.d == 1

def relaysOk : Option (List Relay) → Bool
  | some rs => rs.all relayOk
  | Option.none => false                     -- a constructed `PoolParams` holds a list (`postInit`)

def metadataOk : Option Metadata → Bool
  | some m => m.hash.length == 32
  | Option.none => true

def idOk : Option Bytes → Bool
  | some s => isPoolId s
  | Option.none => true

/-- the class invariants alone (sizes of the hash classes, a reduced margin, distinct set elements, a valid pool id):
nothing about the relays -/
def paramsOkW (p : PoolParams) : Bool :=
  p.operator.length == 28 && p.vrf.length == 32 && fracOk p.margin && p.rewardAccount.length == 29 && ownersOk p.owners &&
  metadataOk p.metadata && idOk p.id

/-- … and `relays` a list of relays, every one well typed with its addresses in canonical text: the executable form of
"constructed from constructed relays" (`Proofs/Pool.lean`: `paramsOk_iff`) -/
def paramsOk (p : PoolParams) : Bool := paramsOkW p && relaysOk p.relays

def retirementOk (r : Retirement) : Bool := r.poolKeyHash.length == 28

end Pyc.Pool
