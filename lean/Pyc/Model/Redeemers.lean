import Pyc.Model.Basic
import Pyc.Model.Cbor
import Pyc.Model.Canonical

/-! # Executable model of the Plutus bookkeeping of `TransactionBuilder` (pycardano/txbuilder.py)

What is transliterated (line numbers of the pinned tree):
* the sort of the selected inputs by `(str(transaction_id), index)`                         (build, 1443-1447)
* `_set_redeemer_index` (minting redeemers ranked among the policies of the normalised mint, repaired)  (998-1033)
* `add_input` / `add_script_input` (a UTxO that is already an input is not appended again, repaired),
  `add_minting_script` / `add_withdrawal_script` / `add_certificate_script` and `_consolidate_redeemer` (219-463)
* `all_scripts`, `scripts`, `build_witness_set(remove_dup_script)`                           (535-569, 1153-1206)
* `_redeemer_list`, `redeemers()` (map / list form)                                          (575-604)
* `script_data_hash` property + `utils.script_data_hash` preimage                           (606-626, utils 235-268)
* `CostModels.to_shallow_primitive` (language views, repaired iteration order of 864980f)     (plutus.py 67-86)
* `_update_execution_units`                                                                  (1591-1621)
* the automatic validity interval of `build`                                                 (1275-1293)

A Python `dict` is an association list in insertion order (`Dict.set`: overwrite in place / append).  Script hashes,
datum hashes and the CBOR bytes of redeemer data / datums are *data* of the model (computed by `hashlib` /
`cbor2` on the Python side): the model never hashes. -/

namespace Pyc.Rd
open Pyc Pyc.Cbor

/-! ## inputs and their sort key -/

structure TxIn where
  txid : Bytes
  ix : Nat
  deriving DecidableEq, Repr, Inhabited

/-- characters of `str(transaction_id)` = `payload.hex()` (lowercase) -/
def hexChars (bs : Bytes) : List Char :=
  bs.flatMap fun b => [hexDigit (b.toNat / 16), hexDigit (b.toNat % 16)]

/-- Python `str.__lt__`: lexicographic by code point, a proper prefix is smaller -/
def strLt : List Char → List Char → Bool
  | [], [] => false
  | [], _ :: _ => true
  | _ :: _, [] => false
  | a :: as, b :: bs => if a.toNat < b.toNat then true else if b.toNat < a.toNat then false else strLt as bs

/-- Python tuple `<` on the sort key `(str(utxo.input.transaction_id), utxo.input.index)` -/
def keyLt (a b : TxIn) : Bool :=
  if hexChars a.txid = hexChars b.txid then decide (a.ix < b.ix) else strLt (hexChars a.txid) (hexChars b.txid)

/-- `list.sort(key=…)` is a stable sort that uses only `<` on keys: `a` stays before `b` unless `key b < key a`
(`isort`, `Pyc/Model/Basic.lean`, is a stable sort) -/
def keyLe (a b : TxIn) : Bool := !keyLt b a

/-- `selected_utxos.sort(key=lambda utxo: (str(utxo.input.transaction_id), utxo.input.index))` -/
def sortInputs (l : List TxIn) : List TxIn := isort keyLe l

/-- `list.index(x)`; `none` = ValueError -/
def indexOf? {α : Type} [DecidableEq α] (x : α) : List α → Option Nat
  | [] => none
  | y :: ys => if y = x then some 0 else (indexOf? x ys).map (· + 1)

/-- the loop `for i, utxo in enumerate(self.inputs): if utxo in d …: d[utxo].index = i` seen from one key `u`:
the last position of `u` wins; `acc` is what the index was before -/
def lastIndexFrom (u : TxIn) : List TxIn → Nat → Option Nat → Option Nat
  | [], _, acc => acc
  | y :: ys, i, acc => lastIndexFrom u ys (i + 1) (if y = u then some i else acc)

/-- index assigned to the spending redeemer of `u` (`none`: `u` is not among the inputs, the index is left alone) -/
def spendIndex (u : TxIn) (inputs : List TxIn) : Option Nat := lastIndexFrom u inputs 0 none

/-- sort key of a minting policy: `x.to_cbor()` of a `ScriptHash` -/
def policyKey (h : Bytes) : Bytes := encode (.bytes h)

/-- `sorted(self.mint.keys(), key=lambda x: x.to_cbor())` -/
def sortPolicies (ks : List Bytes) : List Bytes := isort (fun a b => !bytesLt (policyKey b) (policyKey a)) ks

/-- `sorted(self.withdrawals.keys())` — Python `bytes` order -/
def sortAccounts (ks : List Bytes) : List Bytes := isort (fun a b => !bytesLt b a) ks

/-- `Address(staking_part=script_hash, network=…).to_primitive()`: header `0b1111_000n` then the hash -/
def rewardAccount (net : Nat) (h : Bytes) : Bytes := UInt8.ofNat (0xF0 + net) :: h

/-- `sorted_mint_policies.index(script_hash(script))` over the policies `ks` that are ranked -/
def mintIndex (ks : List Bytes) (h : Bytes) : Option Nat := indexOf? h (sortPolicies ks)

/-- what the ledger sees of `self.inputs`: `TransactionBody.inputs` is an `OrderedSet`, a repeated UTxO is emitted once -/
def bodyInputs : List TxIn → List TxIn
  | [] => []
  | x :: xs => x :: (bodyInputs xs).filter (· != x)

/-- what the ledger sees of `self.mint`: `MultiAsset.to_primitive` serializes a normalised copy, so a stored policy
that holds no non-zero quantity is not in the body's mint field.  The repaired `_set_redeemer_index` ranks the minting
redeemers over the same expression, `deepcopy(self.mint).normalize().keys()`. -/
def bodyPolicies (mint : MultiAsset) : List Bytes := Dict.keys (MultiAsset.normalize mint)

def rewardIndex (net : Nat) (wdrlKeys : List Bytes) (h : Bytes) : Option Nat :=
  indexOf? (rewardAccount net h) (sortAccounts wdrlKeys)

/-! ## scripts, redeemers, builder state -/

/-- `raw` = a plain `bytes` object (`type(s) is bytes`), which the builder treats as Plutus V1 -/
inductive Kind where
  | native | v1 | v2 | v3 | raw
  deriving DecidableEq, Repr, Inhabited

structure Script where
  kind : Kind
  hash : Bytes          -- `script_hash(s)`
  deriving DecidableEq, Repr, Inhabited

/-- the version rule of the `script_data_hash` property: `PlutusScript.version`, `type(s) is bytes` ⇒ 1, else -1 -/
def Script.version (s : Script) : Option Nat :=
  match s.kind with
  | .native => none
  | .v1 => some 1
  | .v2 => some 2
  | .v3 => some 3
  | .raw => some 1

structure Rdm where
  tag : Nat             -- RedeemerTag value: 0 spend, 1 mint, 2 certificate, 3 withdrawal
  index : Nat
  data : Bytes          -- CBOR of `redeemer.data`
  mem : Int
  steps : Int
  deriving DecidableEq, Repr, Inhabited

/-- where `add_script_input` found the script -/
inductive Src where
  | witness                 -- a script object was passed
  | ref (u : TxIn)          -- on another UTxO (passed explicitly or found at the script address)
  | own                     -- on the spent UTxO itself
  deriving DecidableEq, Repr

structure St where
  inputs : List TxIn := []                              -- `self.inputs`
  inRedeemers : List (TxIn × Rdm) := []                 -- `_inputs_to_redeemers` (dict)
  inScripts : List (TxIn × Script) := []                -- `_inputs_to_scripts` (dict)
  minting : List (Script × Option Rdm) := []            -- `_minting_script_to_redeemers`
  withdrawal : List (Script × Option Rdm) := []         -- `_withdrawal_script_to_redeemers`
  certificate : List (Script × Option Rdm) := []        -- `_certificate_script_to_redeemers`
  nativeScripts : List Script := []                     -- `self.native_scripts`
  refScripts : List Script := []                        -- `_reference_scripts`
  refInputs : List TxIn := []                           -- `reference_inputs` (a set; order not meaningful)
  datums : List (Bytes × Bytes) := []                   -- `_datums`: datum hash ↦ CBOR of the datum (dict)
  mint : MultiAsset := []                               -- `self.mint` as stored (`None` and `{}` are both falsy: `[]`)
  wdrlKeys : List Bytes := []                           -- `self.withdrawals.keys()`
  nCerts : Nat := 0                                     -- `len(self.certificates)`
  estimate : Option Bool := none                        -- `_should_estimate_execution_units`
  deriving Repr, Inhabited

/-- `d[k] = v` for a dict keyed by inputs -/
def aset {ν : Type} (m : List (TxIn × ν)) (k : TxIn) (v : ν) : List (TxIn × ν) :=
  match m with
  | [] => [(k, v)]
  | (k', v') :: r => if k' = k then (k', v) :: r else (k', v') :: aset r k v

/-- `bool(redeemer.ex_units)`: `None` and `ExecutionUnits(0, 0)` are both falsy -/
def unitsGiven (r : Rdm) : Bool := !(r.mem == 0 && r.steps == 0)

/-- `_consolidate_redeemer`; `none` = InvalidArgumentException (mixing supplied and missing units) -/
def consolidate (est : Option Bool) (r : Rdm) : Option (Option Bool × Rdm) :=
  match est with
  | none => if unitsGiven r then some (some false, r) else some (some true, { r with mem := 0, steps := 0 })
  | some false => if unitsGiven r then some (some false, r) else none
  | some true => if unitsGiven r then none else some (some true, { r with mem := 0, steps := 0 })

/-- the calls made on a builder, with the chain look-ups already resolved -/
inductive Op where
  | addInput (u : TxIn)
  | scriptInput (u : TxIn) (s : Script) (src : Src) (datum : Option (Bytes × Bytes)) (r : Option Rdm)
  | mintingScript (s : Script) (ref : Option TxIn) (r : Option Rdm)
  | withdrawalScript (s : Script) (ref : Option TxIn) (r : Option Rdm)
  | certificateScript (s : Script) (ref : Option TxIn) (r : Option Rdm)
  | cert                                   -- `certificates.append(c)`
  | mintSet (m : MultiAsset)               -- `builder.mint = m`: stored as given (a plain field, nothing normalises it)
  | withdraw (acct : Bytes)                -- `withdrawals[acct] = amount`
  | nativeScript (s : Script)              -- `native_scripts.append(s)`
  | outputDatum (d : Bytes × Bytes)        -- `add_output(o, datum, add_datum_to_witness=True)`
  deriving Repr

def addIfAbsent {α : Type} [DecidableEq α] (l : List α) (x : α) : List α := if x ∈ l then l else l ++ [x]

/-- the common tail of the three `add_*_script` methods: a UTxO argument becomes a reference input -/
def addRef (st : St) (s : Script) (ref : Option TxIn) : St :=
  match ref with
  | some v => { st with refInputs := addIfAbsent st.refInputs v, refScripts := st.refScripts ++ [s] }
  | none => st

/-- `add_script_input`: a candidate UTxO other than the spent one is referenced (`candidate_utxo != utxo`) -/
def refOf (u : TxIn) : Src → Option TxIn
  | .ref v => if v = u then none else some v
  | _ => none

/-- the redeemer part of every `add_*` method: `redeemer.tag = …` (certificates also `redeemer.index = …`), then
`_consolidate_redeemer`; a call without redeemer changes nothing; `none` = exception -/
def attach (est : Option Bool) (r : Option Rdm) (tag : Nat) (idx : Option Nat) : Option (Option Bool × Option Rdm) :=
  match r with
  | none => some (est, none)
  | some rd =>
    match consolidate est { rd with tag := tag, index := idx.getD rd.index } with
    | some (e, rd') => some (e, some rd')
    | none => none

def apply (st : St) : Op → Option St
  -- `add_input`: `if utxo not in self.inputs: self.inputs.append(utxo)`
  | .addInput u => some { st with inputs := addIfAbsent st.inputs u }
  | .scriptInput u s src datum r =>
    match attach st.estimate r 0 none with
    | none => none
    | some (e, r') =>
      let st1 := addRef st s (refOf u src)
      some { st1 with
        -- `if datum is not None: self.datums[datum_hash(datum)] = datum`
        datums := (match datum with
          | some d => Dict.set st.datums d.1 d.2
          | none => st.datums),
        estimate := e,
        -- `self._inputs_to_redeemers[utxo] = redeemer`
        inRedeemers := (match r' with
          | some rd => aset st.inRedeemers u rd
          | none => st.inRedeemers),
        -- `self._inputs_to_scripts[utxo] = candidate_script`
        inScripts := aset st.inScripts u s,
        -- `if utxo not in self.inputs: self.inputs.append(utxo)` (the bookkeeping above is redone on every call)
        inputs := addIfAbsent st.inputs u }
  | .mintingScript s ref r =>
    match attach st.estimate r 1 none with
    | none => none
    | some (e, r') => some (addRef { st with estimate := e, minting := st.minting ++ [(s, r')] } s ref)
  | .withdrawalScript s ref r =>
    match attach st.estimate r 3 none with
    | none => none
    | some (e, r') => some (addRef { st with estimate := e, withdrawal := st.withdrawal ++ [(s, r')] } s ref)
  | .certificateScript s ref r =>
    -- `assert self.certificates is not None and len(self.certificates) >= 1` (only when a redeemer is given)
    if r.isSome && st.nCerts = 0 then none else
    -- `redeemer.index = len(self.certificates) - 1`
    match attach st.estimate r 2 (some (st.nCerts - 1)) with
    | none => none
    | some (e, r') => some (addRef { st with estimate := e, certificate := st.certificate ++ [(s, r')] } s ref)
  | .cert => some { st with nCerts := st.nCerts + 1 }
  | .mintSet m => some { st with mint := m }
  | .withdraw a => some { st with wdrlKeys := addIfAbsent st.wdrlKeys a }
  | .nativeScript s => some { st with nativeScripts := st.nativeScripts ++ [s] }
  | .outputDatum d => some { st with datums := Dict.set st.datums d.1 d.2 }

def run (st : St) : List Op → Option St
  | [] => some st
  | o :: os => match apply st o with
    | some st' => run st' os
    | none => none

/-! ## `_set_redeemer_index` -/

/-- spending redeemers: every dict entry whose input occurs in `self.inputs` gets the (last) position -/
def setSpend (inputs : List TxIn) (m : List (TxIn × Rdm)) : List (TxIn × Rdm) :=
  m.map fun p => match spendIndex p.1 inputs with
    | some i => (p.1, { p.2 with index := i })
    | none => p

/-- `for script, redeemer in …: if redeemer is not None: redeemer.index = sorted_….index(key(script))`;
`none` = the ValueError of `list.index` -/
def setIdx (f : Script → Option Nat) : List (Script × Option Rdm) → Option (List (Script × Option Rdm))
  | [] => some []
  | (s, none) :: r => (setIdx f r).map ((s, none) :: ·)
  | (s, some rd) :: r =>
    match f s, setIdx f r with
    | some i, some r' => some ((s, some { rd with index := i }) :: r')
    | _, _ => none

/-- `_set_redeemer_index`.  `sorted_mint_policies = sorted(deepcopy(self.mint).normalize().keys(), key=to_cbor)` when
`self.mint` is truthy, else `[]` (`bodyPolicies [] = []`).  Certificate redeemers are not touched.  The closing
`self._redeemer_list.sort(key=lambda r: r.index)` sorts a list freshly built by the `_redeemer_list` property and
discards it: it has no effect on any state, so it has no counterpart here. -/
def setRedeemerIndex (net : Nat) (st : St) : Option St :=
  match setIdx (fun s => mintIndex (bodyPolicies st.mint) s.hash) st.minting,
        setIdx (fun s => rewardIndex net st.wdrlKeys s.hash) st.withdrawal with
  | some m, some w => some { st with inRedeemers := setSpend st.inputs st.inRedeemers, minting := m, withdrawal := w }
  | _, _ => none

/-! ## scripts and the witness set -/

/-- `all_scripts`: dict keyed by script hash (native scripts, input scripts, minting, withdrawal, certificate) -/
def allScripts (st : St) : List (Bytes × Script) :=
  Dict.ofPairs ((st.nativeScripts ++ st.inScripts.map (·.2) ++ st.minting.map (·.1) ++ st.withdrawal.map (·.1)
    ++ st.certificate.map (·.1)).map fun s => (s.hash, s))

/-- `scripts`: the same dict with every hash of `_reference_scripts` popped (popping keeps the order of the rest) -/
def scripts (st : St) : List (Bytes × Script) :=
  (allScripts st).filter fun p => !(st.refScripts.any fun s => s.hash == p.1)

/-- `_redeemer_list` -/
def redeemerList (st : St) : List Rdm :=
  st.inRedeemers.map (·.2) ++ st.minting.filterMap (·.2) ++ st.withdrawal.filterMap (·.2)
    ++ st.certificate.filterMap (·.2)

/-! ### serialized redeemers and datums (data and datums are spliced in as the CBOR bytes they already are) -/

def encUnits (r : Rdm) : Bytes := encode (.array [ofInt r.mem, ofInt r.steps])
/-- `Redeemer` as an array `[tag, index, data, ex_units]` -/
def encListEntry (r : Rdm) : Bytes :=
  head 4 4 ++ encode (.uint r.tag) ++ encode (.uint r.index) ++ r.data ++ encUnits r
/-- `RedeemerKey` `[tag, index]` -/
def mapKey (r : Rdm) : Bytes := encode (.array [.uint r.tag, .uint r.index])
/-- `RedeemerValue` `[data, ex_units]` -/
def mapVal (r : Rdm) : Bytes := head 4 2 ++ r.data ++ encUnits r

/-- `redeemers[RedeemerKey(r.tag, r.index)] = RedeemerValue(r.data, r.ex_units)` in list order (a dict) -/
def redeemerMap (l : List Rdm) : List (Bytes × Bytes) := Dict.ofPairs (l.map fun r => (mapKey r, mapVal r))

/-- `cbor2.dumps(self.redeemers())`: a `RedeemerMap` (canonical key order, `DictCBORSerializable`) when
`use_redeemer_map or not redeemer_list`, else a definite array of `Redeemer`s in `_redeemer_list` order -/
def encRedeemers (useMap : Bool) (l : List Rdm) : Bytes :=
  if useMap || l.isEmpty then encRawMap (redeemerMap l) else head 4 l.length ++ l.flatMap encListEntry

/-- `cbor2.dumps(list(self.datums.values()))` -/
def encDatums (ds : List (Bytes × Bytes)) : Bytes := head 4 ds.length ++ ds.flatMap (·.2)

structure Witness where
  native : List Script            -- key 1
  v1 : List Script                -- key 3
  v2 : List Script                -- key 6
  v3 : List Script                -- key 7
  redeemer : Option Bytes         -- key 5
  plutusData : Option Bytes       -- key 4
  deriving Repr

/-- `build_witness_set(remove_dup_script)`; `carried i` = `i.output.script` of an input -/
def buildWitnessSet (st : St) (useMap removeDup : Bool) (carried : TxIn → Option Script) : Witness :=
  let inputScripts : List Bytes :=
    if removeDup then st.inputs.filterMap (fun i => (carried i).map (·.hash)) else []
  let ss := ((scripts st).filter fun p => !inputScripts.contains p.1).map (·.2)
  { native := ss.filter (fun s => s.kind = .native),
    v1 := ss.filter (fun s => s.kind = .v1 || s.kind = .raw),
    v2 := ss.filter (fun s => s.kind = .v2),
    v3 := ss.filter (fun s => s.kind = .v3),
    redeemer := if (redeemerList st).isEmpty then none else some (encRedeemers useMap (redeemerList st)),
    plutusData := if st.datums.isEmpty then none else some (encDatums st.datums) }

def Witness.hashes (w : Witness) : List Bytes := (w.native ++ w.v1 ++ w.v2 ++ w.v3).map (·.hash)

/-! ## language views (`CostModels.to_shallow_primitive`) -/

/-- a cost model as pycardano holds it: dict parameter name (UTF-8 bytes; bytewise order of UTF-8 = code point order
of Python `str`) ↦ value, in insertion order -/
abbrev CostModel := List (Bytes × Int)

/-- `sorted(cost_model.keys())` -/
def sortNames (cm : CostModel) : CostModel := isort (fun a b => !bytesLt b.1 a.1) cm

/-- one entry of the language-view dict: language 0 has the key `cbor2.dumps(0)` *as a byte string* and the value
`cbor2.dumps(IndefiniteList(values sorted by name))` *as a byte string*; language n ≥ 1 has the integer key and a
definite list of the values in the dict's own order -/
def viewEntry (lang : Nat) (cm : CostModel) : Bytes × Bytes :=
  if lang = 0 then
    (encode (.bytes (encode (.uint 0))),
     encode (.bytes (encode (.arrayIndef ((sortNames cm).map fun p => ofInt p.2)))))
  else (encode (.uint lang), encode (.array (cm.map fun p => ofInt p.2)))

def dedupNat : List Nat → List Nat
  | [] => []
  | x :: xs => x :: (dedupNat xs).filter (· != x)

/-- Python tuple `<` on the sort key `(lang == 0, lang)` (`False < True`): languages ≥ 1 ascending, language 0 last -/
def ltLang (a b : Nat) : Bool :=
  -- `(True, 0)` is below nothing; `(False, a) < (True, 0)`; `(False, a) < (False, b)` iff `a < b`
  if a = 0 then false else if b = 0 then true else decide (a < b)

/-- `for language in sorted(self.keys(), key=lambda lang: (lang == 0, lang))` over the dict
`cost_models[version - 1] = …` (repaired order, /repo 864980f) -/
def sortLangs (langs : List Nat) : List Nat := isort (fun a b => !ltLang b a) (dedupNat langs)

/-- `cbor2.dumps(CostModels(cost_models))`: the integer-keyed entries of V2, V3 … in ascending language id, then
the byte-string-keyed entry of V1; definite map -/
def langViews (langs : List Nat) (pp : Nat → CostModel) : Bytes :=
  let ls := sortLangs langs
  head 5 ls.length ++ ls.flatMap fun l => (viewEntry l (pp l)).1 ++ (viewEntry l (pp l)).2

/-- the pinned tree iterated `sorted(self.keys())` (plain ascending language id); kept as documentation of the
repaired defect KF-C12-views-order -/
def sortLangsPinned (langs : List Nat) : List Nat := isort (fun a b => decide (a ≤ b)) (dedupNat langs)

def langViewsPinned (langs : List Nat) (pp : Nat → CostModel) : Bytes :=
  let ls := sortLangsPinned langs
  head 5 ls.length ++ ls.flatMap fun l => (viewEntry l (pp l)).1 ++ (viewEntry l (pp l)).2

/-- the languages entering the hash: `version - 1` for every script of `all_scripts` that has a version -/
def usedLangs (st : St) : List Nat := (allScripts st).filterMap fun p => p.2.version.map (· - 1)

/-! ## script data hash -/

/-- the preimage `utils.script_data_hash` feeds to BLAKE2b-256, `none` when the property returns `None`.
`pp l` = `protocol_param.cost_models.get("PlutusV{l+1}", {})`; `dflt` = the bytes of the module constant
`COST_MODELS` used when redeemers exist but no script has a version. -/
def sdhPreimage (st : St) (useMap : Bool) (pp : Nat → CostModel) (dflt : Bytes) : Option Bytes :=
  let rl := redeemerList st
  if st.datums.isEmpty && rl.isEmpty then none
  else
    let views :=
      if rl.isEmpty then encRawMap []                               -- `if not redeemers: cost_models = {}`
      else if (sortLangs (usedLangs st)).isEmpty then dflt          -- `elif not cost_models: COST_MODELS`
      else langViews (usedLangs st) pp
    some (encRedeemers useMap rl ++ (if st.datums.isEmpty then [] else encDatums st.datums) ++ views)

/-! ## execution units and the build pipeline -/

def mapOpt (f : Rdm → Option Rdm) : List (Script × Option Rdm) → Option (List (Script × Option Rdm))
  | [] => some []
  | (s, none) :: r => (mapOpt f r).map ((s, none) :: ·)
  | (s, some rd) :: r =>
    match f rd, mapOpt f r with
    | some rd', some r' => some ((s, some rd') :: r')
    | _, _ => none

def mapOptIn (f : Rdm → Option Rdm) : List (TxIn × Rdm) → Option (List (TxIn × Rdm))
  | [] => some []
  | (u, rd) :: r =>
    match f rd, mapOptIn f r with
    | some rd', some r' => some ((u, rd') :: r')
    | _, _ => none

/-- `_update_execution_units`: when units are to be estimated every redeemer takes the evaluated (and buffered) units
found under `"<tag>:<index>"`; `ev` is that table after buffering; `none` = TransactionBuilderException -/
def updateExUnits (ev : Nat → Nat → Option (Int × Int)) (st : St) : Option St :=
  if st.estimate = some true then
    let f : Rdm → Option Rdm := fun r => (ev r.tag r.index).map fun u => { r with mem := u.1, steps := u.2 }
    match mapOptIn f st.inRedeemers, mapOpt f st.minting, mapOpt f st.withdrawal, mapOpt f st.certificate with
    | some a, some b, some c, some d =>
      some { st with inRedeemers := a, minting := b, withdrawal := c, certificate := d, estimate := some false }
    | _, _, _, _ => none
  else some st

/-- the part of `build` that matters here: the inputs become the sorted selection, then `_set_redeemer_index`,
then `_update_execution_units`; the body (`_build_tx_body`) and the witness set are computed from the resulting state -/
def build (net : Nat) (st : St) (selected : List TxIn) (ev : Nat → Nat → Option (Int × Int)) : Option St :=
  match setRedeemerIndex net { st with inputs := sortInputs (st.inputs ++ selected) } with
  | some st' => updateExUnits ev st'
  | none => none

/-- automatic validity interval: `(validity_start, ttl)` after the first lines of `build` -/
def autoInterval (isSmart : Bool) (vs ttl : Option Int) (offStart offTtl : Option Int) (slot : Int) :
    Option Int × Option Int :=
  let vs' := if (isSmart || offStart.isSome) && vs.isNone then some (max 0 (slot + offStart.getD (-1000))) else vs
  let ttl' := if (isSmart || offTtl.isSome) && ttl.isNone then some (max 0 (slot + offTtl.getD 10000)) else ttl
  (vs', ttl')

/-- `is_smart = bool(self.all_scripts)` -/
def isSmart (st : St) : Bool := !(allScripts st).isEmpty

end Pyc.Rd
