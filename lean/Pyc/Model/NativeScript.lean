import Pyc.Model.Ids
import Pyc.Model.CustomCodec

/-! Model of the native-script codec of pycardano (pycardano/nativescript.py), which the generic codec model and the
`TransactionOutput` model carry as an opaque leaf.

The object type is `Pyc.Ids.NScript` (`Model/Ids.lean`: the six dataclasses `ScriptPubkey`, `ScriptAll`, `ScriptAny`,
`ScriptNofK`, `InvalidBefore`, `InvalidHereAfter`); its serializer `NScript.item` (`ArrayCBORSerializable.to_primitive`:
the dataclass fields in declaration order, `_TYPE` first) is the one C17 already uses for script hashes.  Added here:

* `fromItem` — `NativeScript.from_primitive` (nativescript.py:37-58: dispatch on `value[0]`, then
  `ArrayCBORSerializable.from_primitive` (serialization.py:768-797) of the chosen subclass on `value[1:]`, whose fields
  are restored by `_restore_dataclass_field`: `VerificationKeyHash.from_primitive`, `_restore_typed_primitive(int, v)`,
  and the `object_hook` `list_hook(NativeScript)` = `[NativeScript.from_primitive(v) for v in vals]`);
* `toDict` / `fromDict` — `NativeScript.to_dict`, `NativeScript.from_dict` with `_script_json_to_primitive` /
  `_script_jsons_to_primitive` (nativescript.py:66-113);
* `scriptHash` — `NativeScript.hash` (nativescript.py:60-64), the hash function a parameter.

Results are three-valued (`Codec.Res`): `deser` = `DeserializeException`, `crash` = any other exception (`IndexError` of
`value[0]`, `TypeError` of a constructor that misses an argument or of iterating a non-iterable, `AssertionError` of a
key hash that is not 28 bytes, `ValueError` of `bytes.fromhex`, `KeyError` of the JSON route).

Recursion is on a fuel counter (one unit per nesting level of scripts; out of fuel = `crash`, which is what a
`RecursionError` is); `Proofs/NativeScript.lean` shows that `depth s` units suffice for the primitive of `s`
(`fromItem_toItem`) and that on any item every fuel not below the depth of the item gives the same result (`fromItem_fuel`).

Deviations (none reachable from an object the library serializes; the malformed stream of the harness probes the real
code at these points and counts them without comparing):
* Python counts `True` / `False` as ints.  For the TYPE CODE this is modelled (`value[0] == 1` holds for `True`).  For the
  int FIELDS (`n`, `before`, `after`) the implementation accepts a CBOR boolean and keeps it (`ScriptNofK(n=True)`, which
  is written back as `f5`); the model has integers only and answers `deser`.
* floats (`1.0 == 1`), tags that cbor2 turns into other Python objects than `CBORTag` / `int` (0, 1, 4, 5, 30, 35-37,
  260, 55799, ...), a bignum tag over an empty byte string (cbor2 raises; `itemInt?` says 0), duplicate map keys
  (collapsed by cbor2 before pycardano sees them), `bytes.fromhex` skipping ASCII whitespace, bytes after the first well-formed item (`cbor2.loads` ignores them; `decodeAll` refuses them).
* extra array elements are kept by the implementation as attributes `unknown_field<i>`; they are not dataclass fields
  (not compared by `==`, not written by `to_cbor`) and the model drops them — but `to_dict` of such a decoded object DOES
  see them (it walks `__dict__`): `from_primitive([4, 7, 99]).to_dict()` says slot 99 while `to_cbor()` says 7.  `toDict`
  models `to_dict` of constructed objects (no surplus attributes). -/

namespace Pyc.NativeScript
open Pyc Pyc.Cbor Pyc.Codec Pyc.Custom Pyc.Ids

/-- `to_primitive` of a native script -/
abbrev toItem (s : NScript) : Item := s.item

/-- `to_cbor` -/
def toBytes (s : NScript) : Bytes := encode (toItem s)

/-- `[f(v) for v in vals]`: left to right, the first exception wins -/
def mapRes {α β : Type} (f : α → Res β) : List α → Res (List β)
  | [] => .ok []
  | x :: xs =>
    match f x with
    | .ok y =>
      (match mapRes f xs with
        | .ok ys => .ok (y :: ys)
        | .deser => .deser
        | .crash => .crash)
    | .deser => .deser
    | .crash => .crash

/-- what `value[0] == K` compares with, for the Python objects cbor2 produces: ints (major types 0 / 1, bignum tags) and
booleans (`False == 0`, `True == 1`); everything else equals no type code -/
def typeCode? : Item → Option Int
  | .simple n => if n = 20 then some 0 else if n = 21 then some 1 else Option.none
  | i => itemInt? i

/-- `VerificationKeyHash.from_primitive` (`ConstrainedBytes`, hash.py:84-89, with `MIN_SIZE = MAX_SIZE = 28`); an
indefinite-length byte string reaches pycardano as the joined `bytes` -/
def decKeyHash : Item → Res Bytes
  | .bytesChunked cs => decCBytes 28 28 (.bytes cs.flatten)
  | i => decCBytes 28 28 i

/-- `_restore_typed_primitive(int, v)`: an int is returned, anything else reaches the final `raise DeserializeException` -/
def decInt (i : Item) : Res Int :=
  match itemInt? i with
  | some n => .ok n
  | Option.none => .deser

/-- the Python objects `for v in vals` of `list_hook` iterates over: the elements of a list / `IndefiniteList`, the ints
of a byte string, the characters of a text, the keys of a dict; an int, `None`, a boolean, a `CBORTag` is not iterable
(`TypeError`) -/
def childItems : Item → Res (List Item)
  | .array xs => .ok xs
  | .arrayIndef xs => .ok xs
  | .bytes b => .ok (b.map fun x => .uint x.toNat)
  | .bytesChunked cs => .ok (cs.flatten.map fun x => .uint x.toNat)
  | .text t => .ok (t.map fun x => .text [x])          -- every element is a `str`: refused as "not a list" whatever it is
  | .map kvs => .ok (kvs.map fun kv => kv.1)
  | _ => .crash

/-- `ArrayCBORSerializable.from_primitive` for a class whose only init field is the `int` field `f` (`InvalidBefore`,
`InvalidHereAfter`): `zip(fields, values)` restores what is there, `cls(*restored)` misses an argument otherwise -/
def decSlot (k : Int → NScript) : List Item → Res NScript
  | [] => .crash                                         -- TypeError: missing 1 required positional argument
  | v :: _ => Res.bind (decInt v) fun n => .ok (k n)

/-- … for `ScriptPubkey` (`key_hash : VerificationKeyHash`) -/
def decPubkey : List Item → Res NScript
  | [] => .crash
  | v :: _ => Res.bind (decKeyHash v) fun h => .ok (.pubkey h)

/-- `NativeScript.from_primitive` -/
def fromItem : Nat → Item → Res NScript
  | 0, _ => .crash                                       -- RecursionError
  | fuel+1, .array xs =>
    match xs with
    | [] => .crash                                       -- `value[0]`: IndexError
    | c :: rest =>
      let scripts (k : List NScript → NScript) (vs : List Item) : Res NScript :=
        match vs with
        | [] => .crash                                   -- TypeError: missing `native_scripts`
        | v :: _ => Res.bind (childItems v) fun ys => Res.bind (mapRes (fromItem fuel) ys) fun ss => .ok (k ss)
      if typeCode? c = some 0 then decPubkey rest
      else if typeCode? c = some 1 then scripts .all rest
      else if typeCode? c = some 2 then scripts .any rest
      else if typeCode? c = some 3 then
        (match rest with
          | [] => .crash                                 -- TypeError: missing `n` and `native_scripts`
          | nv :: rest' => Res.bind (decInt nv) fun n => scripts (.nofk n) rest')
      else if typeCode? c = some 4 then decSlot .before rest
      else if typeCode? c = some 5 then decSlot .hereafter rest
      else .deser                                        -- "Unknown script type indicator"
  | _+1, _ => .deser                                     -- `@limit_primitive_type(list, tuple)`: an `IndefiniteList` is neither

-- nesting depth of a script = the fuel `fromItem` needs for its primitive
mutual
def depth : NScript → Nat
  | .pubkey _ => 1
  | .all xs => 1 + depths xs
  | .any xs => 1 + depths xs
  | .nofk _ xs => 1 + depths xs
  | .before _ => 1
  | .hereafter _ => 1
def depths : List NScript → Nat
  | [] => 0
  | x :: xs => max (depth x) (depths xs)
end

/-- `NativeScript.from_cbor`: `cbor2.loads`, then `from_primitive`.  The nesting depth of an item is below the number of
its bytes, so the fuel never runs out
(`Proofs/NativeScript.lean`: `fromItem_fuel`, with `CborAll.depth_le`). -/
def fromBytes (b : Bytes) : Res NScript :=
  match decodeAll b with
  | some i => fromItem (2 * b.length + 2) i
  | Option.none => .crash                                -- CBORDecodeError

/-- `NativeScript.hash`: `blake2b(bytes(1) + self.to_cbor(), 28)` -/
def hashPreimage (s : NScript) : Bytes := 0x00 :: toBytes s
def scriptHash (H : Nat → Bytes → Bytes) (s : NScript) : Bytes := H SCRIPT_HASH_SIZE (hashPreimage s)

-- the objects the constructors of the library build: a `VerificationKeyHash` holds exactly 28 bytes
mutual
def wfB : NScript → Bool
  | .pubkey h => h.length == 28
  | .all xs => wfBs xs
  | .any xs => wfBs xs
  | .nofk _ xs => wfBs xs
  | .before _ => true
  | .hereafter _ => true
def wfBs : List NScript → Bool
  | [] => true
  | x :: xs => wfB x && wfBs xs
end

/-! ## the JSON route -/

/-- JSON tree (what `json.load` returns / `json.dump` accepts, floats apart); objects keep insertion order, strings are
their UTF-8 bytes -/
inductive NJ where
  | null
  | bool (b : Bool)
  | num (n : Int)
  | str (utf8 : Bytes)
  | arr (xs : List NJ)
  | obj (kvs : List (String × NJ))
  deriving Repr, Inhabited

/-- the `json_tag` strings as UTF-8 bytes: "sig", "all", "any", "atLeast", "after", "before" -/
def tSig : Bytes := [0x73, 0x69, 0x67]
def tAll : Bytes := [0x61, 0x6c, 0x6c]
def tAny : Bytes := [0x61, 0x6e, 0x79]
def tAtLeast : Bytes := [0x61, 0x74, 0x4c, 0x65, 0x61, 0x73, 0x74]
def tAfter : Bytes := [0x61, 0x66, 0x74, 0x65, 0x72]
def tBefore : Bytes := [0x62, 0x65, 0x66, 0x6f, 0x72, 0x65]

def hexNib (n : Nat) : UInt8 := if n < 10 then UInt8.ofNat (48 + n) else UInt8.ofNat (87 + n)

/-- `bytes.hex()` as ASCII bytes -/
def hexAscii : Bytes → Bytes
  | [] => []
  | b :: r => hexNib (b.toNat / 16) :: hexNib (b.toNat % 16) :: hexAscii r

mutual
/-- `NativeScript.to_dict`: the loop over `self.__dict__.values()` visits `_TYPE` first (an `int`, stored under
`json_field` and overwritten by the real field of that name, or — for the list-only classes — stored under "scripts" and
overwritten by the list), so the keys end up in the order `type`, `json_field`, `scripts` -/
def toDict : NScript → NJ
  | .pubkey h => .obj [("type", .str tSig), ("keyHash", .str (hexAscii h))]
  | .all xs => .obj [("type", .str tAll), ("scripts", .arr (toDicts xs))]
  | .any xs => .obj [("type", .str tAny), ("scripts", .arr (toDicts xs))]
  | .nofk n xs => .obj [("type", .str tAtLeast), ("required", .num n), ("scripts", .arr (toDicts xs))]
  | .before s => .obj [("type", .str tAfter), ("slot", .num s)]
  | .hereafter s => .obj [("type", .str tBefore), ("slot", .num s)]
def toDicts : List NScript → List NJ
  | [] => []
  | x :: xs => toDict x :: toDicts xs
end

/-- `JSON_TAG_TO_INT` -/
def tagCode (t : Bytes) : Option Nat :=
  if t = tSig then some 0
  else if t = tAll then some 1
  else if t = tAny then some 2
  else if t = tAtLeast then some 3
  else if t = tAfter then some 4
  else if t = tBefore then some 5
  else Option.none

def lookupKey (k : String) : List (String × NJ) → Option NJ
  | [] => Option.none
  | (k', v) :: r => if k' = k then some v else lookupKey k r

/-- a JSON value appended as it is (`native_script.append(value)`): the Python object as a primitive -/
def rawItem : Nat → NJ → Item
  | _, .null => .simple 22
  | _, .bool b => .simple (if b then 21 else 20)
  | _, .num n => ofInt n
  | _, .str s => .text s
  | 0, _ => .simple 23
  | f+1, .arr xs => .array (xs.map (rawItem f))
  | f+1, .obj kvs => .map (kvs.map fun kv => (.text kv.1.toUTF8.toList, rawItem f kv.2))

/-- `_script_json_to_primitive`: `script_json["type"]`, `JSON_TAG_TO_INT[...]` (`KeyError` / `TypeError` → crash), then
the items in dict order: "type" skipped, "scripts" converted recursively (`_script_jsons_to_primitive`: iterates over
the value — a list, or the keys of a dict / characters of a string, each of which then fails at `i["type"]`), anything
else appended as it is -/
def jsonPrim : Nat → NJ → Res Item
  | 0, _ => .crash
  | fuel+1, .obj kvs =>
    match lookupKey "type" kvs with
    | some (.str t) =>
      (match tagCode t with
        | some c =>
          let field (kv : String × NJ) : Res (List Item) :=
            if kv.1 = "type" then .ok []
            else if kv.1 = "scripts" then
              (match kv.2 with
                | .arr xs => Res.bind (mapRes (jsonPrim fuel) xs) fun is => .ok [.array is]
                | .obj kvs' => if kvs'.isEmpty then .ok [.array []] else .crash
                | .str s => if s.isEmpty then .ok [.array []] else .crash
                | _ => .crash)
            else .ok [rawItem fuel kv.2]
          Res.bind (mapRes field kvs) fun fs => .ok (.array (.uint c :: fs.flatten))
        | Option.none => .crash)
    | _ => .crash
  | _+1, _ => .crash

mutual
/-- the primitive `_script_json_to_primitive` builds from `to_dict s`: as `to_primitive s`, the key hash as hex text -/
def primJ : NScript → Item
  | .pubkey h => .array [.uint 0, .text (hexAscii h)]
  | .all xs => .array [.uint 1, .array (primJs xs)]
  | .any xs => .array [.uint 2, .array (primJs xs)]
  | .nofk n xs => .array [.uint 3, ofInt n, .array (primJs xs)]
  | .before s => .array [.uint 4, ofInt s]
  | .hereafter s => .array [.uint 5, ofInt s]
def primJs : List NScript → List Item
  | [] => []
  | x :: xs => primJ x :: primJs xs
end

/-- `NativeScript.from_dict` -/
def fromDict (fuel : Nat) (j : NJ) : Res NScript :=
  Res.bind (jsonPrim fuel j) (fromItem fuel)

mutual
def depthJ : NJ → Nat
  | .arr xs => 1 + depthJs xs
  | .obj kvs => 1 + depthJkvs kvs
  | _ => 1
def depthJs : List NJ → Nat
  | [] => 0
  | x :: xs => max (depthJ x) (depthJs xs)
def depthJkvs : List (String × NJ) → Nat
  | [] => 0
  | (_, v) :: r => max (depthJ v) (depthJkvs r)
end

end Pyc.NativeScript
