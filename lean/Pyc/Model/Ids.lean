import Pyc.Model.Canonical

/-! Identifiers of pycardano as `(digest length, preimage)` pairs; the hash function `H : Nat → Bytes → Bytes`
(`nacl.hash.blake2b(data, digest_size)`) is a parameter everywhere — nothing here depends on what BLAKE2b computes.

Transliterated: `TransactionBody.hash` / `.id` (transaction.py:641-646), `datum_hash` (plutus.py:932-939),
`script_hash` + `get_script_hash_prefix` (plutus.py:1083-1142), `NativeScript.hash` (nativescript.py:60-64) with the
`ArrayCBORSerializable` form of the six script classes, `VerificationKey.hash` / `ExtendedVerificationKey.hash`
(key.py:177-186, 219-238), `AuxiliaryData.hash` (metadata.py:138-141), `encode_asset` (cip/cip14.py), the size constants
of hash.py, `TransactionBuilder._build_tx_body` (aux-data hash) and the candidate search / gate of
`TransactionBuilder.add_script_input` (txbuilder.py:312-353). -/

namespace Pyc.Ids
open Pyc Pyc.Cbor

/-- an identifier before hashing: `blake2b(pre, len)` -/
structure Id where
  len : Nat
  pre : Bytes
  deriving DecidableEq, Repr

def Id.digest (H : Nat → Bytes → Bytes) (i : Id) : Bytes := H i.len i.pre

/-! ## hash.py:34-45 -/
def VERIFICATION_KEY_HASH_SIZE : Nat := 28
def SCRIPT_HASH_SIZE : Nat := 28
def SCRIPT_DATA_HASH_SIZE : Nat := 32
def TRANSACTION_HASH_SIZE : Nat := 32
def DATUM_HASH_SIZE : Nat := 32
def AUXILIARY_DATA_HASH_SIZE : Nat := 32
def POOL_KEY_HASH_SIZE : Nat := 28
def POOL_METADATA_HASH_SIZE : Nat := 32
def VRF_KEY_HASH_SIZE : Nat := 32
def REWARD_ACCOUNT_HASH_SIZE : Nat := 29
def ANCHOR_DATA_HASH_SIZE : Nat := 32

/-- `MAX_SIZE = MIN_SIZE` of every `ConstrainedBytes` hash class of hash.py, by class name (`none`: no such class) -/
def constrainedSize (cls : String) : Option Nat :=
  if cls = "VerificationKeyHash" then some VERIFICATION_KEY_HASH_SIZE
  else if cls = "ScriptHash" then some SCRIPT_HASH_SIZE
  else if cls = "PolicyHash" then some SCRIPT_HASH_SIZE
  else if cls = "PolicyId" then some SCRIPT_HASH_SIZE
  else if cls = "ScriptDataHash" then some SCRIPT_DATA_HASH_SIZE
  else if cls = "TransactionId" then some TRANSACTION_HASH_SIZE
  else if cls = "DatumHash" then some DATUM_HASH_SIZE
  else if cls = "AuxiliaryDataHash" then some AUXILIARY_DATA_HASH_SIZE
  else if cls = "PoolKeyHash" then some POOL_KEY_HASH_SIZE
  else if cls = "PoolMetadataHash" then some POOL_METADATA_HASH_SIZE
  else if cls = "VrfKeyHash" then some VRF_KEY_HASH_SIZE
  else if cls = "RewardAccountHash" then some REWARD_ACCOUNT_HASH_SIZE
  else if cls = "AnchorDataHash" then some ANCHOR_DATA_HASH_SIZE
  else none

/-! ## native scripts (nativescript.py) -/

/-- the six `NativeScript` dataclasses -/
inductive NScript where
  | pubkey (kh : Bytes)                    -- ScriptPubkey        _TYPE 0, key_hash
  | all (xs : List NScript)                -- ScriptAll           _TYPE 1, native_scripts
  | any (xs : List NScript)                -- ScriptAny           _TYPE 2, native_scripts
  | nofk (n : Int) (xs : List NScript)     -- ScriptNofK          _TYPE 3, n, native_scripts
  | before (slot : Int)                    -- InvalidBefore       _TYPE 4, before
  | hereafter (slot : Int)                 -- InvalidHereAfter    _TYPE 5, after
  deriving Repr, Inhabited

mutual
/-- `ArrayCBORSerializable.to_primitive`: the dataclass fields in declaration order (`_TYPE` first), Python lists as
definite arrays, Python ints as cbor2 encodes them (`ofInt`) -/
def NScript.item : NScript → Item
  | .pubkey kh => .array [.uint 0, .bytes kh]
  | .all xs => .array [.uint 1, .array (NScript.items xs)]
  | .any xs => .array [.uint 2, .array (NScript.items xs)]
  | .nofk n xs => .array [.uint 3, ofInt n, .array (NScript.items xs)]
  | .before s => .array [.uint 4, ofInt s]
  | .hereafter s => .array [.uint 5, ofInt s]
def NScript.items : List NScript → List Item
  | [] => []
  | x :: xs => NScript.item x :: NScript.items xs
end

/-- `self.to_cbor()` of a native script -/
def NScript.cbor (s : NScript) : Bytes := encode s.item

/-! ## scripts (plutus.py) -/

inductive Lang where
  | v1 | v2 | v3
  deriving DecidableEq, Repr, Inhabited

/-- `PlutusV1Script/V2/V3.get_script_hash_prefix` : `bytes.fromhex("01"/"02"/"03")` -/
def Lang.prefixByte : Lang → UInt8
  | .v1 => 0x01
  | .v2 => 0x02
  | .v3 => 0x03

/-- `ScriptType` as `script_hash` distinguishes it: a `NativeScript`, a `PlutusVnScript` (a `bytes` subclass: the bytes
held *are* the object) or a plain `bytes` object -/
inductive Script where
  | native (s : NScript)
  | plutus (l : Lang) (b : Bytes)
  | raw (b : Bytes)                        -- `type(script) is bytes`: treated as Plutus V1
  deriving Repr, Inhabited

/-- the argument of `blake2b` in `NativeScript.hash` (`bytes(1) + cbor_bytes`) and in `script_hash`
(`script.get_script_hash_prefix() + script`, `bytes.fromhex("01") + script`) -/
def scriptPreimage : Script → Bytes
  | .native s => 0x00 :: s.cbor
  | .plutus l b => l.prefixByte :: b
  | .raw b => 0x01 :: b

def scriptId (s : Script) : Id := ⟨SCRIPT_HASH_SIZE, scriptPreimage s⟩

/-- `script_hash(script)` -/
def scriptHash (H : Nat → Bytes → Bytes) (s : Script) : Bytes := (scriptId s).digest H

/-! ## keys (key.py) -/

/-- `VerificationKey.hash`: `blake2b(self.payload, 28)` — the whole payload the object holds -/
def vkeyId (payload : Bytes) : Id := ⟨VERIFICATION_KEY_HASH_SIZE, payload⟩

/-- `ExtendedVerificationKey.to_non_extended` : `VerificationKey(self.payload[:32])` -/
def toNonExtended (payload : Bytes) : Bytes := payload.take 32

/-- `ExtendedVerificationKey.hash` : `self.to_non_extended().hash()` -/
def xvkeyId (payload : Bytes) : Id := vkeyId (toNonExtended payload)

/-! ## serialized objects: the argument is the primitive tree the object serializes to -/

/-- `TransactionBody.hash` : `blake2b(self.to_cbor(), 32)` -/
def txId (body : Item) : Id := ⟨TRANSACTION_HASH_SIZE, encode body⟩

/-- `datum_hash(datum)` : `blake2b(cbor2.dumps(datum, default=default_encoder), 32)` -/
def datumId (datum : Item) : Id := ⟨DATUM_HASH_SIZE, encode datum⟩

/-- `AuxiliaryData.hash` : `blake2b(self.to_cbor(), 32)` -/
def auxId (aux : Item) : Id := ⟨AUXILIARY_DATA_HASH_SIZE, encode aux⟩

/-! ## CIP-14 (cip/cip14.py) -/

/-- `blake2b(policy_id + asset_name, digest_size=20)` -/
def fingerprintId (policy name : Bytes) : Id := ⟨20, policy ++ name⟩

/-- `encode("asset", asset_hash)` : the human-readable part (Bech32 itself: C15) -/
def fingerprintHrp : List Char := "asset".toList

/-! ## every identifier-bearing object kind -/

inductive Obj where
  | txBody (body : Item)
  | datum (d : Item)
  | auxData (a : Item)
  | vkey (payload : Bytes)
  | xvkey (payload : Bytes)
  | script (s : Script)
  | policy (s : Script)                    -- policy id of a minting script: `script_hash(script)` (a `ScriptHash`)
  | scriptAddr (s : Script)                -- `Address(script_hash(script), ...)`: payment credential
  | asset (policy name : Bytes)
  deriving Repr, Inhabited

def idOf : Obj → Id
  | .txBody b => txId b
  | .datum d => datumId d
  | .auxData a => auxId a
  | .vkey p => vkeyId p
  | .xvkey p => xvkeyId p
  | .script s => scriptId s
  | .policy s => scriptId s
  | .scriptAddr s => scriptId s
  | .asset p n => fingerprintId p n

/-! ## a serialized transaction: which bytes the ids are taken over -/

/-- the items of `Transaction.to_primitive` : `[body, witness_set, valid, auxiliary_data]` -/
def txParts : Item → Option (Item × Item × Item × Item)
  | .array [b, w, v, a] => some (b, w, v, a)
  | _ => none

/-- Python `None` on the wire -/
def isNull : Item → Bool
  | .simple n => n == 22
  | _ => false

/-! ## `TransactionBuilder._build_tx_body` / `build_and_sign`: auxiliary data -/

/-- value of a key in a definite map whose keys are small unsigned integers (transaction body) -/
def lookupKey (k : Nat) : List (Item × Item) → Option Item
  | [] => none
  | (.uint n, v) :: r => if n = k then some v else lookupKey k r
  | _ :: r => lookupKey k r

/-- the body fields: everything the builder computed except key 7, split at the position of key 7 in the dataclass
order (`TransactionBody` fields 0..6 come before `auxiliary_data_hash`, 8.. after) -/
structure BodyRest where
  before : List (Item × Item)
  after : List (Item × Item)

/-- `TransactionBody(..., auxiliary_data_hash = self.auxiliary_data.hash() if self.auxiliary_data else None, ...)`:
an `AuxiliaryData` object is always truthy; the optional field is omitted when `None` -/
def buildBody (H : Nat → Bytes → Bytes) (r : BodyRest) (aux : Option Item) : Item :=
  .map (r.before ++ (match aux with
    | some a => [(.uint 7, .bytes ((auxId a).digest H))]
    | none => []) ++ r.after)

/-- `Transaction(tx_body, witness_set, auxiliary_data=self.auxiliary_data)` (build_and_sign; `_build_full_fake_tx` does
the same with `True` spelled out): the *same* builder attribute is shipped -/
def buildTx (H : Nat → Bytes → Bytes) (r : BodyRest) (ws : Item) (aux : Option Item) : Item :=
  .array [buildBody H r aux, ws, .simple 21, match aux with
    | some a => a
    | none => .simple 22]

/-! ## `TransactionBuilder.add_script_input`: candidate search and gate -/

/-- where a candidate script comes from (`candidate_utxo` of the Python tuple) -/
inductive Src where
  | own                 -- the spent UTxO itself carries the script
  | atAddress (i : Nat) -- i-th UTxO returned by `context.utxos(utxo.output.address)`
  | offeredRef          -- the UTxO passed as `script=`
  | offered             -- the script object passed as `script=`  (`candidate_utxo = None`)
  deriving DecidableEq, Repr

/-- the `script` argument -/
inductive Offer (σ : Type) where
  | none
  | refUtxo (script : Option σ)    -- a UTxO; `script.output.script`
  | script (s : σ)

inductive GateErr where
  | refWithoutScript    -- "Expect the output of the reference UTxO to have a script"
  | noValidScript       -- "Cannot find a valid script to fulfill the input UTxO"
  deriving DecidableEq, Repr

/-- Python truthiness of a script object: `PlutusVnScript` / `bytes` are `bytes` (empty is falsy), native script
dataclasses are always truthy -/
def Script.truthy : Script → Bool
  | .native _ => true
  | .plutus _ b => !b.isEmpty
  | .raw b => !b.isEmpty

/-- `for i in self.context.utxos(addr): if i.output.script: candidate_scripts.append((i.output.script, i))` -/
def addrCandidates {σ : Type} (truthy : σ → Bool) : Nat → List (Option σ) → List (σ × Src)
  | _, [] => []
  | i, some s :: r => if truthy s then (s, .atAddress i) :: addrCandidates truthy (i + 1) r
                      else addrCandidates truthy (i + 1) r
  | i, none :: r => addrCandidates truthy (i + 1) r

/-- `if utxo.output.script:` — a Python truth test on the spent UTxO's own script -/
def ownCandidate {σ : Type} (truthy : σ → Bool) : Option σ → Option σ
  | some s => if truthy s then some s else none
  | none => none

/-- "collect potential scripts to fulfill the input" (txbuilder.py:314-336); `none`: the exception "Expect the output
of the reference UTxO to have a script".  The tests `if utxo.output.script:` and `elif not script:` are Python truth
tests. -/
def candidates {σ : Type} (truthy : σ → Bool) (own : Option σ) (atAddr : List (Option σ)) (offer : Offer σ) :
    Option (List (σ × Src)) :=
  match ownCandidate truthy own with
  | some s => some [(s, .own)]
  | none =>
    match offer with
    | .none => some (addrCandidates truthy 0 atAddr)
    | .script s => if truthy s then some [(s, .offered)] else some (addrCandidates truthy 0 atAddr)
    | .refUtxo none => none
    | .refUtxo (some s) => some [(s, .offeredRef)]

/-- `if script_hash(candidate_script) != input_script_hash: continue` — `ConstrainedBytes.__eq__` compares payloads -/
def acceptsScript (candidateHash inputPaymentCredential : Bytes) : Bool := candidateHash == inputPaymentCredential

/-- the `for ... : if ... continue; found_valid_script = True; ...; break` loop -/
def firstMatch {σ : Type} (hash : σ → Bytes) (cred : Bytes) : List (σ × Src) → Option (σ × Src)
  | [] => none
  | c :: r => if acceptsScript (hash c.1) cred then some c else firstMatch hash cred r

/-- the script part of `add_script_input`: the chosen `(script, source)` or the exception -/
def addScriptInput {σ : Type} (truthy : σ → Bool) (hash : σ → Bytes) (cred : Bytes) (own : Option σ)
    (atAddr : List (Option σ)) (offer : Offer σ) : Except GateErr (σ × Src) :=
  match candidates truthy own atAddr offer with
  | none => .error .refWithoutScript
  | some cs =>
    match firstMatch hash cred cs with
    | some c => .ok c
    | none => .error .noValidScript

/-- `if candidate_utxo is not None and candidate_utxo != utxo: self.reference_inputs.add(candidate_utxo)`;
`sameAsSpent i` says whether the i-th UTxO at the address equals the spent one, `refIsSpent` the same for the offered
reference UTxO.  `true`: the UTxO goes into the reference inputs (and the script into `_reference_scripts`), `false`:
the script stays a witness-set script (`build_and_sign` drops it again when the spent input itself carries it). -/
def usesReference (sameAsSpent : Nat → Bool) (refIsSpent : Bool) : Src → Bool
  | .own => false
  | .atAddress i => !sameAsSpent i
  | .offeredRef => !refIsSpent
  | .offered => false

end Pyc.Ids
