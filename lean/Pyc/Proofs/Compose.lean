import Pyc.Model.Compose
import Pyc.Proofs.Codec
import Pyc.Proofs.CodecFuel
import Pyc.Proofs.Typed
import Pyc.Proofs.NativeScript

/-! Proofs about the composed codec `fromPrimL` (Model/Compose.lean): conservativity over `fromPrim`, fuel
monotonicity, the typing relation `HasTypeL` and the composed round trip `rt_allL` (same technique as `rt_all`,
Proofs/Codec.lean: the mutual recursor of the typing relation, statements "for all sufficiently large fuel"), and the
sound executable check `typedBL`. -/

namespace Pyc.Compose
open Pyc Pyc.Cbor Pyc.Schema Pyc.Codec

/-! ## conservativity: with no leaf modelled, `fromPrimL` IS `fromPrim` -/

theorem leafVal_noLeaves (n : String) (i : Item) : leafVal noLeaves n i = .ok (.opaque i) := rfl

theorem conservative_step (S : List ClassDef) : ∀ n,
    (∀ t i, fromPrimL S noLeaves n t i = fromPrim S n t i) ∧
    (∀ t xs, fromPrimListL S noLeaves n t xs = fromPrimList S n t xs) ∧
    (∀ ts xs, fromTupleL S noLeaves n ts xs = fromTuple S n ts xs) ∧
    (∀ kt vt kvs, fromPairsL S noLeaves n kt vt kvs = fromPairs S n kt vt kvs) ∧
    (∀ ts i, fromUnionL S noLeaves n ts i = fromUnion S n ts i) ∧
    (∀ cn fs xs, fromArrL S noLeaves n cn fs xs = fromArr S n fs xs) ∧
    (∀ cn fs kvs, fromMapL S noLeaves n cn fs kvs = fromMap S n fs kvs) := by
  intro n
  induction n with
  | zero =>
    refine ⟨?_, ?_, ?_, ?_, ?_, ?_, ?_⟩ <;> intros <;>
      simp [fromPrimL, fromPrimListL, fromTupleL, fromPairsL, fromUnionL, fromArrL, fromMapL,
        fromPrim, fromPrimList, fromTuple, fromPairs, fromUnion, fromArr, fromMap]
  | succ n ih =>
    obtain ⟨i1, i2, i3, i4, i5, i6, i7⟩ := ih
    refine ⟨?_, ?_, ?_, ?_, ?_, ?_, ?_⟩
    · intro t i
      cases t with
      | any => simp [fromPrimL, fromPrim]
      | int => simp only [fromPrimL, fromPrim]; rfl
      | bool => cases i <;> simp [fromPrimL, fromPrim]
      | bytes => cases i <;> simp [fromPrimL, fromPrim]
      | text => cases i <;> simp [fromPrimL, fromPrim]
      | none => cases i <;> simp [fromPrimL, fromPrim]
      | named s => simp [fromPrimL, fromPrim]
      | frac =>
        cases i with
        | tag tg x =>
          cases x with
          | array xs =>
            match xs with
            | [] => simp [fromPrimL, fromPrim]
            | [_] => simp [fromPrimL, fromPrim]
            | [_, _] => simp only [fromPrimL, fromPrim]; rfl
            | _ :: _ :: _ :: _ => simp [fromPrimL, fromPrim]
          | _ => simp [fromPrimL, fromPrim]
        | _ => simp [fromPrimL, fromPrim]
      | dict a b => simp only [fromPrimL, fromPrim]; rfl
      | list a => simp only [fromPrimL, fromPrim, i2]; rfl
      | oset a ne => simp only [fromPrimL, fromPrim, i2]; rfl
      | tuple ts => simp only [fromPrimL, fromPrim, i3]; rfl
      | union ts => simp only [fromPrimL, fromPrim, i5]
      | cls c => simp only [fromPrimL, fromPrim, i4, i6, i7, leafVal_noLeaves]; rfl
    · intro t xs
      cases xs with
      | nil => simp [fromPrimListL, fromPrimList]
      | cons x xs => simp only [fromPrimListL, fromPrimList, i1, i2]; rfl
    · intro ts xs
      cases ts with
      | nil => simp [fromTupleL, fromTuple]
      | cons t ts =>
        cases xs with
        | nil => simp [fromTupleL, fromTuple]
        | cons x xs => simp only [fromTupleL, fromTuple, i1, i3]; rfl
    · intro kt vt kvs
      cases kvs with
      | nil => simp [fromPairsL, fromPairs]
      | cons p r =>
        obtain ⟨k, v⟩ := p
        simp only [fromPairsL, fromPairs, i1, i4]; rfl
    · intro ts i
      cases ts with
      | nil => simp [fromUnionL, fromUnion]
      | cons t ts => simp only [fromUnionL, fromUnion, i1, i5]; rfl
    · intro cn fs xs
      cases fs with
      | nil => simp [fromArrL, fromArr]
      | cons f fs =>
        cases xs with
        | nil => simp only [fromArrL, fromArr, i6]; rfl
        | cons x xs => simp only [fromArrL, fromArr, i1, i6, leafVal_noLeaves]; rfl
    · intro cn fs kvs
      cases fs with
      | nil => simp [fromMapL, fromMap]
      | cons f fs => simp only [fromMapL, fromMap, i1, i7, leafVal_noLeaves]; rfl

/-- **conservativity**: the composed restoration without leaves is the generic one -/
theorem fromPrimL_noLeaves (S : List ClassDef) : fromPrimL S noLeaves = fromPrim S := by
  funext n t i; exact (conservative_step S n).1 t i

/-! ## fuel monotonicity (as `Proofs/CodecFuel.lean`) -/

theorem fuel_stepL (S : List ClassDef) (L : LeafEnv) : ∀ n,
    (∀ t i, Res.le (fromPrimL S L n t i) (fromPrimL S L (n+1) t i)) ∧
    (∀ t xs, Res.le (fromPrimListL S L n t xs) (fromPrimListL S L (n+1) t xs)) ∧
    (∀ ts xs, Res.le (fromTupleL S L n ts xs) (fromTupleL S L (n+1) ts xs)) ∧
    (∀ kt vt kvs, Res.le (fromPairsL S L n kt vt kvs) (fromPairsL S L (n+1) kt vt kvs)) ∧
    (∀ ts i, Res.le (fromUnionL S L n ts i) (fromUnionL S L (n+1) ts i)) ∧
    (∀ cn fs xs, Res.le (fromArrL S L n cn fs xs) (fromArrL S L (n+1) cn fs xs)) ∧
    (∀ cn fs kvs, Res.le (fromMapL S L n cn fs kvs) (fromMapL S L (n+1) cn fs kvs)) := by
  intro n
  induction n with
  | zero =>
    refine ⟨?_, ?_, ?_, ?_, ?_, ?_, ?_⟩ <;> intros <;> left <;> simp [fromPrimL, fromPrimListL, fromTupleL, fromPairsL, fromUnionL, fromArrL, fromMapL]
  | succ n ih =>
    obtain ⟨i1, i2, i3, i4, i5, i6, i7⟩ := ih
    refine ⟨?_, ?_, ?_, ?_, ?_, ?_, ?_⟩
    · intro t i
      cases t with
      | any => right; simp [fromPrimL]
      | int => right; simp [fromPrimL]
      | bool => right; cases i <;> simp [fromPrimL]
      | bytes => right; cases i <;> simp [fromPrimL]
      | text => right; cases i <;> simp [fromPrimL]
      | none => right; cases i <;> simp [fromPrimL]
      | named s => right; simp [fromPrimL]
      | frac =>
        right
        cases i with
        | tag tg x =>
          cases x with
          | array xs =>
            match xs with
            | [] => simp [fromPrimL]
            | [_] => simp [fromPrimL]
            | [_, _] => simp [fromPrimL]
            | _ :: _ :: _ :: _ => simp [fromPrimL]
          | _ => simp [fromPrimL]
        | _ => simp [fromPrimL]
      | dict a b => right; simp [fromPrimL]
      | list a =>
        simp only [fromPrimL]
        cases hl : listElems? i with
        | none => right; rfl
        | some xs => have b := i2 a xs; unfold Res.le at *; grind
      | oset a ne =>
        simp only [fromPrimL]
        cases i with
        | tag tg inner =>
          simp only []
          by_cases h : tg = 258
          · simp only [h, if_true]
            cases hl : listElems? inner with
            | none => right; rfl
            | some xs => have b := i2 a xs; unfold Res.le at *; grind
          · simp only [h, if_false]; right; trivial
        | array xs => simp only [listElems?]; have b := i2 a xs; unfold Res.le at *; grind
        | arrayIndef xs => simp only [listElems?]; have b := i2 a xs; unfold Res.le at *; grind
        | _ => right; rfl
      | tuple ts =>
        simp only [fromPrimL]
        cases hl : listElems? i with
        | none => right; rfl
        | some xs => have b := i3 ts xs; unfold Res.le at *; grind
      | union ts => have b := i5 ts i; unfold Res.le at *; simp only [fromPrimL]; exact b
      | cls c =>
        simp only [fromPrimL]
        cases hl : lookup S c with
        | none => right; rfl
        | some cd =>
          simp only []
          split
          · right; rfl
          · cases hk : cd.kind with
            | custom => right; rfl
            | oset => right; rfl
            | cbytes mn mx => right; rfl
            | «enum» vals => right; rfl
            | dict kt vt =>
              simp only []
              cases i with
              | map kvs =>
                simp only []
                rcases i4 kt vt kvs with hb | hb
                · left; simp only [hb]
                · right; simp only [hb]
              | _ => right; rfl
            | array =>
              simp only []
              cases hle : listElems? i with
              | none => right; rfl
              | some xs =>
                simp only []
                rcases i6 c (wireFields cd) xs with hb | hb
                · left; simp only [hb]
                · right; simp only [hb]
            | coded k =>
              simp only []
              cases i with
              | array xs =>
                cases xs with
                | nil => right; rfl
                | cons c0 xs =>
                  simp only []
                  split
                  · rcases i6 c (wireFields cd) xs with hb | hb
                    · left; simp only [hb]
                    · right; simp only [hb]
                  · right; rfl
              | _ => right; rfl
            | map =>
              simp only []
              cases i with
              | map kvs =>
                simp only []
                split
                · rcases i7 c (wireFields cd) kvs with hb | hb
                  · left; simp only [hb]
                  · right; simp only [hb]
                · right; rfl
              | _ => right; rfl
    · intro t xs
      cases xs with
      | nil => right; simp [fromPrimListL]
      | cons x xs =>
        have a := i1 t x
        have b := i2 t xs
        unfold Res.le at *
        simp only [fromPrimListL]
        grind
    · intro ts xs
      cases ts with
      | nil => right; simp [fromTupleL]
      | cons t ts =>
        cases xs with
        | nil => right; simp [fromTupleL]
        | cons x xs =>
          have a := i1 t x
          have b := i3 ts xs
          unfold Res.le at *
          simp only [fromTupleL]
          grind
    · intro kt vt kvs
      cases kvs with
      | nil => right; simp [fromPairsL]
      | cons p r =>
        obtain ⟨k, v⟩ := p
        have a := i1 kt k
        have b := i1 vt v
        have c := i4 kt vt r
        unfold Res.le at *
        simp only [fromPairsL]
        grind
    · intro ts i
      cases ts with
      | nil => right; simp [fromUnionL]
      | cons t ts =>
        have a := i1 t i
        have b := i5 ts i
        unfold Res.le at *
        simp only [fromUnionL]
        grind
    · intro cn fs xs
      cases fs with
      | nil => right; simp [fromArrL]
      | cons f fs =>
        cases xs with
        | nil =>
          have b := i6 cn fs []
          unfold Res.le at *
          simp only [fromArrL]
          grind
        | cons x xs =>
          have a := i1 f.ty x
          have b := i6 cn fs xs
          unfold Res.le at *
          simp only [fromArrL]
          grind
    · intro cn fs kvs
      cases fs with
      | nil => right; simp [fromMapL]
      | cons f fs =>
        have b := i7 cn fs kvs
        unfold Res.le at *
        simp only [fromMapL]
        cases hl : lookupItemKey (keyItem f.key) kvs with
        | none => grind
        | some x => have a := i1 f.ty x; grind

/-- a result other than `.crash` persists for every larger fuel -/
theorem fromPrimL_mono (S : List ClassDef) (L : LeafEnv) (t : Ty) (i : Item) (n m : Nat) (r : Res Val)
    (h : fromPrimL S L n t i = r) (hr : r ≠ .crash) (hm : n ≤ m) : fromPrimL S L m t i = r := by
  induction m with
  | zero =>
    have : n = 0 := by omega
    subst this; exact h
  | succ m ih =>
    by_cases hnm : n = m + 1
    · subst hnm; exact h
    · have hm' := ih (by omega)
      rcases (fuel_stepL S L m).1 t i with hc | he
      · rw [hm'] at hc; exact absurd hc hr
      · rw [← he]; exact hm'

/-- one evaluation that ends in `DeserializeException` settles it for all larger fuel -/
theorem deser_stableL (S : List ClassDef) (L : LeafEnv) (t : Ty) (i : Item) (n : Nat) (h : fromPrimL S L n t i = .deser) :
    ∃ N, ∀ fuel, N ≤ fuel → fromPrimL S L fuel t i = .deser :=
  ⟨n, fun m hm => fromPrimL_mono S L t i n m .deser h (by simp) hm⟩

/-- … and so does one successful evaluation -/
theorem ok_stableL (S : List ClassDef) (L : LeafEnv) (t : Ty) (i : Item) (n : Nat) (v : Val) (h : fromPrimL S L n t i = .ok v) :
    ∃ N, ∀ fuel, N ≤ fuel → fromPrimL S L fuel t i = .ok v :=
  ⟨n, fun m hm => fromPrimL_mono S L t i n m (.ok v) h (by simp) hm⟩


/-! ## the typing relation with leaves, and the composed round trip -/

mutual
inductive HasTypeL (S : List ClassDef) (L : LeafEnv) : Ty → Val → Prop
  | int {i} : IntOk i → HasTypeL S L .int (.int i)
  | bytes {b} : HasTypeL S L .bytes (.bytes b)
  | text {b} : HasTypeL S L .text (.text b)
  | none : HasTypeL S L .none .none
  | bool {b} : HasTypeL S L .bool (.bool b)
  | frac {n d} : IntOk n → IntOk d → HasTypeL S L .frac (.frac n d)
  | any {i} : HasTypeL S L .any (.opaque i)
  -- a class with its own codec, carried as its primitive: the primitive is a FIXED POINT of the leaf's normaliser
  -- (the leaf restores it, and writes the restored object back as the same primitive)
  | custom {n cd i} : lookup S n = some cd → (Generic cd → cd.kind = .custom ∨ cd.kind = .oset) →
      (∀ f, L n = some f → f i = .ok i) → HasTypeL S L (.cls n) (.opaque i)
  | enum {n cd vals v} : lookup S n = some cd → Generic cd → cd.kind = .enum vals → vals.contains v = true → IntOk v →
      HasTypeL S L (.cls n) (.enum v)
  | oset {t ne tagged xs} : HasTypeListL S L t xs → HasTypeL S L (.oset t ne) (.oset tagged xs)
  | list {t xs} : HasTypeListL S L t xs → HasTypeL S L (.list t) (.list xs)
  | union {pre t post v} : HasTypeL S L t v →
      -- ordered dispatch reaches `t`: every earlier alternative raises `DeserializeException` on the image of `v`
      (∀ t' ∈ pre, Ev (fun fuel => fromPrimL S L fuel t' (toPrim S v) = .deser)) →
      HasTypeL S L (.union (pre ++ t :: post)) v
  | cb {n cd mn mx b} : lookup S n = some cd → Generic cd → cd.kind = .cbytes mn mx → mn ≤ b.length → b.length ≤ mx →
      HasTypeL S L (.cls n) (.cb b)
  | obj {n cd fs} : lookup S n = some cd → Generic cd → ShapeOK cd →
      HasFieldsL S L n (wireFields cd) fs → HasTypeL S L (.cls n) (.obj n fs)
inductive HasTypeListL (S : List ClassDef) (L : LeafEnv) : Ty → List Val → Prop
  | nil {t} : HasTypeListL S L t []
  | cons {t x xs} : HasTypeL S L t x → HasTypeListL S L t xs → HasTypeListL S L t (x :: xs)
inductive HasFieldsL (S : List ClassDef) (L : LeafEnv) : String → List FieldDef → List Val → Prop
  | nil {cn} : HasFieldsL S L cn [] []
  | cons {cn f fs v vs} : f.hook = false → HasTypeL S L f.ty v → HasFieldsL S L cn fs vs → HasFieldsL S L cn (f :: fs) (v :: vs)
  -- an optional field holding `None` is not written (map classes), whatever its type hint
  | skip {cn f fs vs} : f.optional = true → HasFieldsL S L cn fs vs → HasFieldsL S L cn (f :: fs) (.none :: vs)
  -- a field restored by its `object_hook` is carried as its primitive: a fixed point of the hook's normaliser
  | hook {cn f fs i vs} : f.hook = true → (∀ h, L (hookKey cn f) = some h → h i = .ok i) → HasFieldsL S L cn fs vs →
      HasFieldsL S L cn (f :: fs) (.opaque i :: vs)
end

variable {S : List ClassDef} {L : LeafEnv}

theorem leafVal_fixed {n : String} {i : Item} (h : ∀ f, L n = some f → f i = .ok i) :
    leafVal L n i = .ok (.opaque i) := by
  unfold leafVal
  cases hl : L n with
  | none => rfl
  | some f => simp [h f hl]

theorem arrFields_nooptL (cn : String) (fs : List FieldDef) (vs : List Val) (h : ∀ f ∈ fs, f.optional = false)
    (hl : HasFieldsL S L cn fs vs) : arrFields S fs vs = toPrimList S vs := by
  induction fs generalizing vs with
  | nil => cases hl; simp [arrFields, toPrimList]
  | cons f fs ih =>
    have hf : f.optional = false := h f (by simp)
    cases hl with
    | cons _ hv hr => simp [arrFields, toPrimList, hf, ih _ (fun g hg => h g (by simp [hg])) hr]
    | skip ho hr => rw [hf] at ho; exact absurd ho (by decide)
    | hook _ _ hr => simp [arrFields, toPrimList, hf, ih _ (fun g hg => h g (by simp [hg])) hr]

theorem rtUnionL (pre : List Ty) (t : Ty) (post : List Ty) (v : Val)
    (hall : ∀ t'' ∈ pre, Ev (fun fuel => fromPrimL S L fuel t'' (toPrim S v) = .deser))
    (ih : Ev (fun fuel => fromPrimL S L fuel t (toPrim S v) = .ok v)) :
    Ev (fun fuel => fromUnionL S L fuel (pre ++ t :: post) (toPrim S v) = .ok v) := by
  induction pre with
  | nil => exact ih.succ (fun n hn => by simp [fromUnionL, hn])
  | cons a as iha =>
    have ha := hall a (by simp)
    have hr := iha (fun t'' h'' => hall t'' (by simp [h'']))
    exact (ha.and hr).succ (fun n hn => by simp [fromUnionL, hn.1, hn.2])

/-- **the composed round trip**: decoding the encoding of a value typed by `HasTypeL` — through the table-driven
code AND the leaves' own decoders — returns the value -/
theorem rt_allL {t : Ty} {v : Val} (h : HasTypeL S L t v) :
    Ev (fun fuel => fromPrimL S L fuel t (toPrim S v) = .ok v) := by
  refine HasTypeL.rec (S := S) (L := L)
    (motive_1 := fun t v _ => Ev (fun fuel => fromPrimL S L fuel t (toPrim S v) = .ok v))
    (motive_2 := fun t xs _ => Ev (fun fuel => fromPrimListL S L fuel t (toPrimList S xs) = .ok xs))
    (motive_3 := fun cn fs vs _ =>
        ((∀ f ∈ fs, f.optional = false) → Ev (fun fuel => fromArrL S L fuel cn fs (toPrimList S vs) = .ok vs)) ∧
        ((∀ f ∈ fs, f.optional = true → dfltVal f = some .none) → ∀ kvs, EntriesOK S kvs fs vs →
          Ev (fun fuel => fromMapL S L fuel cn fs kvs = .ok vs)))
    ?int ?bytes ?text ?none ?bool ?frac ?any ?custom ?enum ?oset ?list ?union ?cb ?obj ?lnil ?lcons ?fnil ?fcons ?fskip ?fhook h
  case int =>
    intro i hi
    exact Ev.pos (fun n => by simp [toPrim, fromPrimL, itemInt_ofInt i hi])
  case bytes => intro b; exact Ev.pos (fun n => by simp [toPrim, fromPrimL])
  case text => intro b; exact Ev.pos (fun n => by simp [toPrim, fromPrimL])
  case none => exact Ev.pos (fun n => by simp [toPrim, fromPrimL])
  case bool => intro b; exact Ev.pos (fun n => by cases b <;> simp [toPrim, fromPrimL])
  case frac =>
    intro n d hn hd
    exact Ev.pos (fun m => by simp [toPrim, fromPrimL, itemInt_ofInt n hn, itemInt_ofInt d hd])
  case any => intro i; exact Ev.pos (fun n => by simp [toPrim, fromPrimL])
  case custom =>
    intro n cd i hl hc hfix
    have hv := leafVal_fixed hfix
    refine Ev.pos (fun m => ?_)
    by_cases hg : Generic cd
    · rcases hc hg with hk | hk <;> simp [toPrim, fromPrimL, hl, hg.mem.1, hg.mem.2, hk, hv]
    · unfold Generic at hg
      by_cases h1 : cd.overrides.contains "from_primitive" = true
      · have h1m : "from_primitive" ∈ cd.overrides := List.contains_iff_mem.1 h1
        simp [toPrim, fromPrimL, hl, h1m, hv]
      · have h1' : cd.overrides.contains "from_primitive" = false := by simpa using h1
        have h2 : cd.overrides.contains "__post_init__" = true := by
          cases h : cd.overrides.contains "__post_init__" with
          | true => rfl
          | false => exact absurd ⟨h1', h⟩ hg
        have h2m : "__post_init__" ∈ cd.overrides := List.contains_iff_mem.1 h2
        simp [toPrim, fromPrimL, hl, h2m, hv]
  case «enum» =>
    intro n cd vals v hl hg hk hv hi
    have hvm : v ∈ vals := List.contains_iff_mem.1 hv
    exact Ev.pos (fun m => by simp [toPrim, fromPrimL, hl, hg.mem.1, hg.mem.2, hk, itemInt_ofInt v hi, hvm])
  case oset =>
    intro t ne tagged xs _ ih
    cases tagged with
    | true => exact ih.succ (fun n hn => by simp [toPrim, fromPrimL, listElems?, hn])
    | false => exact ih.succ (fun n hn => by simp [toPrim, fromPrimL, listElems?, hn])
  case list =>
    intro t xs _ ih
    exact ih.succ (fun n hn => by simp [toPrim, fromPrimL, listElems?, hn])
  case union =>
    intro pre t post v _ hall ih
    have hu := rtUnionL pre t post v hall ih
    exact hu.succ (fun n hn => by simp [fromPrimL, hn])
  case cb =>
    intro n cd mn mx b hl hg hk h1 h2
    exact Ev.pos (fun m => by simp [toPrim, fromPrimL, hl, hg.mem.1, hg.mem.2, hk, h1, h2])
  case obj =>
    intro n cd fs hl hg hshape hf hboth
    unfold ShapeOK at hshape
    cases hk : cd.kind with
    | array =>
      rw [hk] at hshape
      have hw := hshape
      have hfe : wireFields cd = cd.fields := wireFields_eq_of_init cd (fun f hf => (hw f hf).1)
      rw [hfe] at hboth hf
      have hno : ∀ f ∈ cd.fields, f.optional = false := fun f hf => (hw f hf).2
      have he := arrFields_nooptL (S := S) (L := L) n cd.fields fs hno hf
      have harr := hboth.1 hno
      exact harr.succ (fun m hm => by
        simp [toPrim, fromPrimL, hl, hg.mem.1, hg.mem.2, hk, he, hfe, listElems?, hm])
    | map =>
      rw [hk] at hshape
      have hw := hshape
      have hfe : wireFields cd = cd.fields := wireFields_eq_of_init cd (fun f hf => (hw.1 f hf).1)
      rw [hfe] at hboth hf
      have hent := entriesOK_mapFields (S := S) cd.fields fs [] (fun f hf => (hw.1 f hf).2.1) hw.2
        (by intro f _ k' hk'; simp [keysOf] at hk')
      have hm := hboth.2 (fun f hf => (hw.1 f hf).2.2) _ hent
      have hkeys := mapFields_keys_known (S := S) cd.fields fs
      exact hm.succ (fun m hm' => by
        simp only [List.nil_append] at hm'
        simp [toPrim, fromPrimL, hl, hg.mem.1, hg.mem.2, hk, hfe, hkeys, hm'])
    | coded k =>
      rw [hk] at hshape
      have hw := hshape
      have hno : ∀ f ∈ wireFields cd, f.optional = false := fun f hf => hw.2 f hf
      have he := arrFields_nooptL (S := S) (L := L) n (wireFields cd) fs hno hf
      have harr := hboth.1 hno
      exact harr.succ (fun m hm => by
        simp [toPrim, fromPrimL, hl, hg.mem.1, hg.mem.2, hk, he, hm])
    | dict a b => rw [hk] at hshape; exact absurd hshape id
    | oset => rw [hk] at hshape; exact absurd hshape id
    | cbytes a b => rw [hk] at hshape; exact absurd hshape id
    | «enum» a => rw [hk] at hshape; exact absurd hshape id
    | custom => rw [hk] at hshape; exact absurd hshape id
  case lnil => intro t; exact Ev.pos (fun n => by simp [toPrimList, fromPrimListL])
  case lcons =>
    intro t x xs _ _ h1 h2
    exact (h1.and h2).succ (fun n hn => by simp [toPrimList, fromPrimListL, hn.1, hn.2])
  case fnil =>
    intro cn
    exact ⟨fun _ => Ev.pos (fun n => by simp [fromArrL]), fun _ kvs _ => Ev.pos (fun n => by simp [fromMapL])⟩
  case fcons =>
    intro cn f fs v vs hf0 _ _ h1 h2
    refine ⟨fun hno => ((h1.and (h2.1 (fun g hg => hno g (by simp [hg])))).succ
      (fun n hn => by simp [toPrimList, fromArrL, hf0, hn.1, hn.2])), ?_⟩
    intro hd kvs hent
    unfold EntriesOK at hent
    have h3 := h2.2 (fun g hg => hd g (by simp [hg])) kvs hent.2
    by_cases hs : skip f v = true
    · have hv : v = .none ∧ f.optional = true := by
        unfold skip at hs; split at hs <;> simp_all
      have hl : lookupItemKey (keyItem f.key) kvs = Option.none := by rw [hent.1, hs]; simp
      have hdf : dfltVal f = some .none := hd f (by simp) hv.2
      exact h3.succ (fun n hn => by simp [fromMapL, hl, hdf, hn, hv.1])
    · have hl : lookupItemKey (keyItem f.key) kvs = some (toPrim S v) := by rw [hent.1]; simp [hs]
      exact (h1.and h3).succ (fun n hn => by simp [fromMapL, hl, hf0, hn.1, hn.2])
  case fskip =>
    intro cn f fs vs ho _ h2
    refine ⟨fun hno => ?_, ?_⟩
    · have := hno f (by simp); rw [ho] at this; exact absurd this (by decide)
    intro hd kvs hent
    unfold EntriesOK at hent
    have h3 := h2.2 (fun g hg => hd g (by simp [hg])) kvs hent.2
    have hs : skip f .none = true := by simp [skip, ho]
    have hl : lookupItemKey (keyItem f.key) kvs = Option.none := by rw [hent.1, hs]; simp
    have hdf : dfltVal f = some .none := hd f (by simp) ho
    exact h3.succ (fun n hn => by simp [fromMapL, hl, hdf, hn])
  case fhook =>
    intro cn f fs i vs hh hfix _ h2
    have hv := leafVal_fixed hfix
    refine ⟨fun hno => ((h2.1 (fun g hg => hno g (by simp [hg]))).succ
      (fun n hn => by simp [toPrimList, toPrim, fromArrL, hh, hn, hv])), ?_⟩
    intro hd kvs hent
    unfold EntriesOK at hent
    have h3 := h2.2 (fun g hg => hd g (by simp [hg])) kvs hent.2
    have hs : skip f (.opaque i) = false := by cases ho : f.optional <;> simp [skip, ho]
    have hl : lookupItemKey (keyItem f.key) kvs = some i := by rw [hent.1]; simp [hs, toPrim]
    exact h3.succ (fun n hn => by simp [fromMapL, hl, hh, hn, hv])

/-! ## Boolean equality of items (no `DecidableEq` for the nested inductive), and the executable typing check -/

mutual
def ibeq : Item → Item → Bool
  | .uint a, .uint b => a == b
  | .nint a, .nint b => a == b
  | .bytes a, .bytes b => a == b
  | .bytesChunked a, .bytesChunked b => a == b
  | .text a, .text b => a == b
  | .array a, .array b => ibeqList a b
  | .arrayIndef a, .arrayIndef b => ibeqList a b
  | .map a, .map b => ibeqPairs a b
  | .tag t x, .tag u y => t == u && ibeq x y
  | .simple a, .simple b => a == b
  | _, _ => false
def ibeqList : List Item → List Item → Bool
  | [], [] => true
  | x :: xs, y :: ys => ibeq x y && ibeqList xs ys
  | _, _ => false
def ibeqPairs : List (Item × Item) → List (Item × Item) → Bool
  | [], [] => true
  | (k, v) :: xs, (k', v') :: ys => ibeq k k' && ibeq v v' && ibeqPairs xs ys
  | _, _ => false
end

mutual
theorem ibeq_sound (a b : Item) (h : ibeq a b = true) : a = b := by
  cases a with
  | uint x => cases b <;> simp_all [ibeq]
  | nint x => cases b <;> simp_all [ibeq]
  | bytes x => cases b <;> simp_all [ibeq]
  | bytesChunked x => cases b <;> simp_all [ibeq]
  | text x => cases b <;> simp_all [ibeq]
  | simple x => cases b <;> simp_all [ibeq]
  | array xs =>
    cases b with
    | array ys => simp only [ibeq] at h; rw [ibeqList_sound xs ys h]
    | _ => simp [ibeq] at h
  | arrayIndef xs =>
    cases b with
    | arrayIndef ys => simp only [ibeq] at h; rw [ibeqList_sound xs ys h]
    | _ => simp [ibeq] at h
  | map xs =>
    cases b with
    | map ys => simp only [ibeq] at h; rw [ibeqPairs_sound xs ys h]
    | _ => simp [ibeq] at h
  | tag t x =>
    cases b with
    | tag u y =>
      simp only [ibeq, Bool.and_eq_true, beq_iff_eq] at h
      rw [h.1, ibeq_sound x y h.2]
    | _ => simp [ibeq] at h
theorem ibeqList_sound (a b : List Item) (h : ibeqList a b = true) : a = b := by
  cases a with
  | nil => cases b with
    | nil => rfl
    | cons y ys => simp [ibeqList] at h
  | cons x xs => cases b with
    | nil => simp [ibeqList] at h
    | cons y ys =>
      simp only [ibeqList, Bool.and_eq_true] at h
      rw [ibeq_sound x y h.1, ibeqList_sound xs ys h.2]
theorem ibeqPairs_sound (a b : List (Item × Item)) (h : ibeqPairs a b = true) : a = b := by
  cases a with
  | nil => cases b with
    | nil => rfl
    | cons y ys => simp [ibeqPairs] at h
  | cons x xs => cases b with
    | nil => obtain ⟨k, v⟩ := x; simp [ibeqPairs] at h
    | cons y ys =>
      obtain ⟨k, v⟩ := x
      obtain ⟨k', v'⟩ := y
      simp only [ibeqPairs, Bool.and_eq_true] at h
      rw [ibeq_sound k k' h.1.1, ibeq_sound v v' h.1.2, ibeqPairs_sound xs ys h.2]
end

/-- the primitive is a fixed point of the leaf's normaliser (trivially so when the leaf is not modelled) -/
def fixedB (L : LeafEnv) (n : String) (i : Item) : Bool :=
  match L n with
  | some f => (match f i with | .ok j => ibeq j i | _ => false)
  | Option.none => true

theorem fixedB_sound (L : LeafEnv) (n : String) (i : Item) (h : fixedB L n i = true) :
    ∀ f, L n = some f → f i = .ok i := by
  intro f hf
  unfold fixedB at h
  rw [hf] at h
  simp only at h
  cases hr : f i with
  | ok j => rw [hr] at h; simp only at h; rw [ibeq_sound j i h]
  | deser => rw [hr] at h; simp at h
  | crash => rw [hr] at h; simp at h

def hookFixedB (L : LeafEnv) (key : String) : Val → Bool
  | .opaque i => fixedB L key i
  | _ => false

/-- the alternative answers `DeserializeException` on this item (one evaluation with the given fuel) -/
def rejectsBL (S : List ClassDef) (L : LeafEnv) (fuel : Nat) (t : Ty) (i : Item) : Bool :=
  match fromPrimL S L fuel t i with
  | .deser => true
  | _ => false

theorem rejectsBL_sound (S : List ClassDef) (L : LeafEnv) (fuel : Nat) (t : Ty) (i : Item) (h : rejectsBL S L fuel t i = true) :
    Ev (fun fuel => fromPrimL S L fuel t i = .deser) := by
  unfold rejectsBL at h
  split at h
  · rename_i hd; exact deser_stableL S L t i fuel hd
  · exact absurd h (by decide)

mutual
def typedBL (S : List ClassDef) (L : LeafEnv) : Nat → Ty → Val → Bool
  | 0, _, _ => false
  | _+1, .int, .int i => intOkB i
  | _+1, .bytes, .bytes _ => true
  | _+1, .text, .text _ => true
  | _+1, .none, .none => true
  | _+1, .bool, .bool _ => true
  | _+1, .frac, .frac n d => intOkB n && intOkB d
  | _+1, .any, .opaque _ => true
  | fuel+1, .oset t _, .oset _ xs => typedListBL S L fuel t xs
  | fuel+1, .list t, .list xs => typedListBL S L fuel t xs
  | fuel+1, .union ts, v => typedAnyBL S L fuel ts v
  | fuel+1, .cls n, v =>
    match lookup S n with
    | Option.none => false
    | some cd =>
      match v with
      | .opaque i => (!genericB cd || kindOpaqueB cd.kind) && fixedB L n i
      | .enum x => genericB cd && (match cd.kind with | .enum vals => vals.contains x && intOkB x | _ => false)
      | .cb b => genericB cd && (match cd.kind with | .cbytes mn mx => decide (mn ≤ b.length) && decide (b.length ≤ mx) | _ => false)
      | .obj m fs => (m == n) && genericB cd && shapeOK cd && typedFieldsBL S L fuel n (wireFields cd) fs
      | _ => false
  | _+1, _, _ => false
def typedListBL (S : List ClassDef) (L : LeafEnv) : Nat → Ty → List Val → Bool
  | 0, _, _ => false
  | _+1, _, [] => true
  | fuel+1, t, x :: xs => typedBL S L fuel t x && typedListBL S L fuel t xs
def typedAnyBL (S : List ClassDef) (L : LeafEnv) : Nat → List Ty → Val → Bool
  | 0, _, _ => false
  | _+1, [], _ => false
  | fuel+1, t :: ts, v => typedBL S L fuel t v || (rejectsBL S L fuel t (toPrim S v) && typedAnyBL S L fuel ts v)
def typedFieldsBL (S : List ClassDef) (L : LeafEnv) : Nat → String → List FieldDef → List Val → Bool
  | 0, _, _, _ => false
  | _+1, _, [], [] => true
  | fuel+1, cn, f :: fs, v :: vs =>
    ((f.optional && isNoneB v) || (f.hook && hookFixedB L (hookKey cn f) v) || (!f.hook && typedBL S L fuel f.ty v)) &&
      typedFieldsBL S L fuel cn fs vs
  | _+1, _, _, _ => false
end

theorem typed_soundL (S : List ClassDef) (L : LeafEnv) : ∀ fuel,
    (∀ t v, typedBL S L fuel t v = true → HasTypeL S L t v) ∧
    (∀ t xs, typedListBL S L fuel t xs = true → HasTypeListL S L t xs) ∧
    (∀ ts v, typedAnyBL S L fuel ts v = true → ∃ pre t post, ts = pre ++ t :: post ∧ HasTypeL S L t v ∧
      ∀ t' ∈ pre, Ev (fun fuel => fromPrimL S L fuel t' (toPrim S v) = .deser)) ∧
    (∀ cn fs vs, typedFieldsBL S L fuel cn fs vs = true → HasFieldsL S L cn fs vs) := by
  intro fuel
  induction fuel with
  | zero => refine ⟨?_, ?_, ?_, ?_⟩ <;> intros <;> simp_all [typedBL, typedListBL, typedAnyBL, typedFieldsBL]
  | succ fuel ih =>
    obtain ⟨ih1, ih2, ih3, ih4⟩ := ih
    refine ⟨?_, ?_, ?_, ?_⟩
    · intro t v h
      cases t with
      | int => cases v <;> simp only [typedBL] at h <;> first | exact absurd h (by decide) | exact HasTypeL.int (intOkB_sound _ h)
      | bytes => cases v <;> simp only [typedBL] at h <;> first | exact absurd h (by decide) | exact HasTypeL.bytes
      | text => cases v <;> simp only [typedBL] at h <;> first | exact absurd h (by decide) | exact HasTypeL.text
      | none => cases v <;> simp only [typedBL] at h <;> first | exact absurd h (by decide) | exact HasTypeL.none
      | bool => cases v <;> simp only [typedBL] at h <;> first | exact absurd h (by decide) | exact HasTypeL.bool
      | any => cases v <;> simp only [typedBL] at h <;> first | exact absurd h (by decide) | exact HasTypeL.any
      | frac =>
        cases v <;> simp only [typedBL] at h <;> first | exact absurd h (by decide) | skip
        simp only [Bool.and_eq_true] at h
        exact HasTypeL.frac (intOkB_sound _ h.1) (intOkB_sound _ h.2)
      | named s => cases v <;> simp only [typedBL] at h <;> exact absurd h (by decide)
      | dict a b => cases v <;> simp only [typedBL] at h <;> exact absurd h (by decide)
      | tuple a => cases v <;> simp only [typedBL] at h <;> exact absurd h (by decide)
      | list a =>
        cases v <;> simp only [typedBL] at h <;> first | exact absurd h (by decide) | skip
        exact HasTypeL.list (ih2 _ _ h)
      | oset a ne =>
        cases v <;> simp only [typedBL] at h <;> first | exact absurd h (by decide) | skip
        exact HasTypeL.oset (ih2 _ _ h)
      | union ts =>
        simp only [typedBL] at h
        obtain ⟨pre, t, post, rfl, ht, hrej⟩ := ih3 _ _ h
        exact HasTypeL.union ht hrej
      | cls n =>
        simp only [typedBL] at h
        cases hl : lookup S n with
        | none => rw [hl] at h; simp at h
        | some cd =>
          rw [hl] at h
          match v, h with
          | .opaque i, h =>
            simp only [Bool.and_eq_true, Bool.or_eq_true, Bool.not_eq_true'] at h
            obtain ⟨h, hfx⟩ := h
            refine HasTypeL.custom hl (fun hg => ?_) (fixedB_sound L n i hfx)
            rcases h with h | h
            · have h2 := hg.mem
              unfold genericB at h
              simp only [Bool.and_eq_false_iff, Bool.not_eq_false', List.contains_iff_mem] at h
              rcases h with h | h
              · exact absurd h h2.1
              · exact absurd h h2.2
            · cases hk : cd.kind <;> rw [hk] at h <;> simp [kindOpaqueB] at h <;> simp
          | .enum x, h =>
            simp only [Bool.and_eq_true] at h
            cases hk : cd.kind with
            | enum vals =>
              rw [hk] at h; simp only [Bool.and_eq_true] at h
              exact HasTypeL.enum hl (genericB_sound _ h.1) hk h.2.1 (intOkB_sound _ h.2.2)
            | _ => rw [hk] at h; simp at h
          | .cb b, h =>
            simp only [Bool.and_eq_true] at h
            cases hk : cd.kind with
            | cbytes mn mx =>
              rw [hk] at h; simp only [Bool.and_eq_true, decide_eq_true_eq] at h
              exact HasTypeL.cb hl (genericB_sound _ h.1) hk h.2.1 h.2.2
            | _ => rw [hk] at h; simp at h
          | .obj m fs, h =>
            simp only [Bool.and_eq_true, beq_iff_eq] at h
            obtain ⟨⟨⟨rfl, hg⟩, hs⟩, hf⟩ := h
            exact HasTypeL.obj hl (genericB_sound _ hg) (shapeOK_sound _ hs) (ih4 _ _ _ hf)
          | .int _, h | .bytes _, h | .text _, h | .bool _, h | .none, h | .frac _ _, h | .list _, h | .dict _, h
          | .oset _ _, h => simp at h
    · intro t xs h
      cases xs with
      | nil => exact HasTypeListL.nil
      | cons x xs =>
        simp only [typedListBL, Bool.and_eq_true] at h
        exact HasTypeListL.cons (ih1 _ _ h.1) (ih2 _ _ h.2)
    · intro ts v h
      cases ts with
      | nil => simp [typedAnyBL] at h
      | cons t ts =>
        simp only [typedAnyBL, Bool.or_eq_true, Bool.and_eq_true] at h
        rcases h with h | ⟨hr, h⟩
        · exact ⟨[], t, ts, rfl, ih1 _ _ h, by intro t' ht'; simp at ht'⟩
        · obtain ⟨pre, t', post, rfl, ht, hrej⟩ := ih3 _ _ h
          refine ⟨t :: pre, t', post, rfl, ht, ?_⟩
          intro t'' ht''
          simp only [List.mem_cons] at ht''
          rcases ht'' with rfl | ht''
          · exact rejectsBL_sound S L fuel _ _ hr
          · exact hrej t'' ht''
    · intro cn fs vs h
      cases fs with
      | nil => cases vs with
        | nil => exact HasFieldsL.nil
        | cons v vs => simp [typedFieldsBL] at h
      | cons f fs => cases vs with
        | nil => simp [typedFieldsBL] at h
        | cons v vs =>
          simp only [typedFieldsBL, Bool.and_eq_true, Bool.or_eq_true, Bool.not_eq_true'] at h
          obtain ⟨hf, hrest⟩ := h
          rcases hf with (⟨ho, hn⟩ | ⟨hh, hq⟩) | ⟨hh, ht⟩
          · match v, hn with
            | .none, _ => exact HasFieldsL.skip ho (ih4 _ _ _ hrest)
          · match v, hq with
            | .opaque i, hq => exact HasFieldsL.hook hh (fixedB_sound L _ i hq) (ih4 _ _ _ hrest)
          · exact HasFieldsL.cons hh (ih1 _ _ ht) (ih4 _ _ _ hrest)

/-- **soundness of the executable typing check** -/
theorem typedBL_sound (S : List ClassDef) (L : LeafEnv) (fuel : Nat) (t : Ty) (v : Val) (h : typedBL S L fuel t v = true) :
    HasTypeL S L t v := (typed_soundL S L fuel).1 t v h

/-! ## fixed points of the leaf normalisers, from the leaves' round-trip facts -/

theorem normOf_fixed {α : Type} (dec : Item → Res α) (enc : α → Item) (x : α) (h : dec (enc x) = .ok x) :
    normOf dec enc (enc x) = .ok (enc x) := by
  simp [normOf, h]

/-- … when decoding returns a normal form that is written like the original -/
theorem normOf_fixed_norm {α : Type} (dec : Item → Res α) (enc : α → Item) (x y : α) (h : dec (enc x) = .ok y)
    (he : enc y = enc x) : normOf dec enc (enc x) = .ok (enc x) := by
  simp [normOf, h, he]

/-- whatever a normaliser built from an idempotent decoder returns is a fixed point -/
theorem normOf_stable {α : Type} (dec : Item → Res α) (enc : α → Item)
    (hst : ∀ i x, dec i = .ok x → dec (enc x) = .ok x) (i j : Item) (h : normOf dec enc i = .ok j) :
    normOf dec enc j = .ok j := by
  unfold normOf at h
  cases hd : dec i with
  | ok x => rw [hd] at h; cases h; exact normOf_fixed dec enc x (hst i x hd)
  | deser => rw [hd] at h; cases h
  | crash => rw [hd] at h; cases h

theorem normOfOpt_fixed {α : Type} (dec : Item → Res α) (enc : α → Option Item) (x y : α) (i : Item)
    (he : enc x = some i) (h : dec i = .ok y) (hy : enc y = some i) : normOfOpt dec enc i = .ok i := by
  simp [normOfOpt, h, hy]

theorem decEach_fixed (f : Item → Res Item) (xs : List Item) (h : ∀ x ∈ xs, f x = .ok x) :
    Metadata.decEach (⟨id, f⟩ : Custom.Leaf Item) xs = .ok xs := by
  induction xs with
  | nil => rfl
  | cons x xs ih =>
    have hx : f x = .ok x := h x (by simp)
    simp [Metadata.decEach, hx, Custom.Res.bind, ih (fun y hy => h y (by simp [hy]))]

/-- `list_hook`: an array of fixed points is a fixed point -/
theorem listHookNorm_fixed (f : Item → Res Item) (xs : List Item) (h : ∀ x ∈ xs, f x = .ok x) :
    listHookNorm f (.array xs) = .ok (.array xs) := by
  simp [listHookNorm, Metadata.decScripts, decEach_fixed f xs h]

/-- the native-script leaf of this file is the one of Proofs/NativeScript.lean -/
theorem nsLeafC_eq : nsLeafC = NativeScript.nsLeaf := rfl

end Pyc.Compose
