import Pyc.Proofs.Addr
import Pyc.Proofs.Bech32Str
import Pyc.Spec.Cip19

namespace Pyc.Addr
open Pyc.Spec

/-! ## the model against the CIP-19 specification -/

theorem encTail_ge (m : Nat) : ∀ b ∈ encTail m, 128 ≤ b.toNat ∧ b.toNat < 256 := by
  induction m using Nat.strongRecOn with
  | _ m ih =>
    by_cases hm : m = 0
    · subst hm; simp [encTail_zero]
    · rw [encTail_pos m hm]
      intro b hb
      rcases List.mem_cons.mp hb with h | h
      · rw [h, contByte_toNat]; omega
      · exact ih (m / 128) (by omega) b h

theorem value_encTail (m : Nat) : ∀ (c : Nat),
    ((encTail m).reverse.map UInt8.toNat).foldl (fun a b => a * 128 + b % 128) c
      = c * 128 ^ (encTail m).length + m := by
  induction m using Nat.strongRecOn with
  | _ m ih =>
    intro c
    by_cases hm : m = 0
    · subst hm; simp [encTail_zero]
    · rw [encTail_pos m hm]
      simp only [List.reverse_cons, List.map_append, List.map_cons, List.map_nil, List.foldl_append, List.foldl_cons,
        List.foldl_nil, List.length_cons, contByte_toNat]
      rw [ih (m / 128) (by omega) c, Nat.pow_succ, ← Nat.mul_assoc]
      generalize c * 128 ^ (encTail (m / 128)).length = X
      omega

/-- `_encode_int n` is the CIP-19 variable-length encoding of `n` -/
theorem encodeInt_isVarnat (n : Nat) : Cip19.IsVarnat n ((encodeInt n).map UInt8.toNat) := by
  refine ⟨?_, ?_, ?_, ?_, ?_⟩
  · rw [encodeInt_eq]; simp
  · rw [encodeInt_eq]
    simp only [List.map_append, List.map_cons, List.map_nil, List.dropLast_concat]
    intro b hb
    obtain ⟨x, hx, rfl⟩ := List.mem_map.mp hb
    exact encTail_ge _ x (List.mem_reverse.mp hx)
  · rw [encodeInt_eq]
    simp only [List.map_append, List.map_cons, List.map_nil, List.getLast?_append, List.getLast?_singleton,
      Option.some_or, Option.mem_def, Option.some.injEq]
    intro b hb
    rw [← hb, lastByte_toNat]; omega
  · unfold Cip19.varnatValue
    rw [encodeInt_eq]
    simp only [List.map_append, List.map_cons, List.map_nil, List.foldl_append, List.foldl_cons, List.foldl_nil,
      lastByte_toNat]
    rw [value_encTail]
    omega
  · have h := encodeInt_head n
    intro hc
    apply h
    cases hl : encodeInt n with
    | nil => rw [hl] at hc; simp at hc
    | cons x l =>
      rw [hl] at hc
      simp only [List.map_cons, List.head?_cons, Option.some.injEq] at hc
      have : x = 0x80 := by
        apply UInt8.toNat_inj.mp
        rw [hc]; decide
      rw [this]; rfl

/-- the CIP-19 type nibble of a combination of parts -/
def specType : Part → Part → Option Nat
  | .vkh _, .vkh _ => some (Cip19.paymentType .key .key)
  | .vkh _, .sh _ => some (Cip19.paymentType .key .script)
  | .vkh _, .ptr _ _ _ => some (Cip19.paymentType .key .pointer)
  | .vkh _, .none => some (Cip19.paymentType .key .none)
  | .sh _, .vkh _ => some (Cip19.paymentType .script .key)
  | .sh _, .sh _ => some (Cip19.paymentType .script .script)
  | .sh _, .ptr _ _ _ => some (Cip19.paymentType .script .pointer)
  | .sh _, .none => some (Cip19.paymentType .script .none)
  | .none, .vkh _ => some (Cip19.rewardType .key)
  | .none, .sh _ => some (Cip19.rewardType .script)
  | _, _ => none

theorem inferType_spec (p s : Part) : (inferType p s).map AddressType.value = specType p s := by
  cases p <;> cases s <;> rfl

/-- CIP-5: `stake` for the reward types 14 and 15, `addr` otherwise, `_test` off mainnet -/
theorem hrp_spec (t : AddressType) (n : Network) :
    hrp t n = (Cip19.prefixOf (decide (14 ≤ t.value)) n.value).toList := by
  cases t <;> cases n <;> decide

/-! ## text form -/

theorem hrpOk (t : AddressType) (n : Network) : Bech32.HrpOk (hrp t n) := by
  cases t <;> cases n <;> decide

theorem toBytes_length (a : Address) (bs : Bytes) (hp : a.payment.Sized) (hs : a.staking.Sized)
    (h : toBytes a = some bs) : 29 ≤ bs.length := by
  obtain ⟨pay, stk, net⟩ := a
  unfold toBytes at h
  cases pay <;> cases stk <;> simp only [inferType, Option.some.injEq, reduceCtorEq] at h <;> subst h <;>
    simp only [Part.Sized] at hp hs <;> simp [Part.bytes, hp, hs] <;> omega

theorem map_ofNat_toNat (bs : Bytes) : (bs.map UInt8.toNat).map UInt8.ofNat = bs := by
  induction bs with
  | nil => rfl
  | cons b bs ih => simp [ih]

/-- whatever `Address.encode()` returns decodes to the address -/
theorem fromBech32_toBech32 (a : Address) (s : List Char) (hp : a.payment.Sized) (hs : a.staking.Sized)
    (h : toBech32 a = some (some s)) : fromBech32 s = .ok a := by
  unfold toBech32 at h
  split at h
  · rename_i t bs ht hb
    have he : Bech32.encode (hrp t a.network) bs = some s := by simpa using h
    have hl := toBytes_length a bs hp hs hb
    unfold fromBech32
    rw [Bech32.decode_encode _ bs (hrpOk t a.network) (by omega) s he]
    simp only [map_ofNat_toNat]
    exact fromBytes_toBytes a bs hp hs hb
  · exact absurd h (by simp)

/-- `toBytes` succeeds exactly when the kind can be inferred -/
theorem inferType_of_toBytes (a : Address) (h : toBytes a ≠ none) : ∃ t, inferType a.payment a.staking = some t := by
  unfold toBytes at h
  split at h
  · exact absurd rfl h
  · rename_i t ht; exact ⟨t, ht⟩

/-- `Address.encode()` returns a string for every constructible address: prefix, separator, ⌈8n/5⌉ data characters and
six checksum characters, without a length limit -/
theorem toBech32_some (a : Address) (bs : Bytes) (t : AddressType) (ht : inferType a.payment a.staking = some t)
    (hb : toBytes a = some bs) :
    ∃ s, toBech32 a = some (some s) ∧ s.length = (hrp t a.network).length + 7 + (8 * bs.length + 4) / 5 := by
  obtain ⟨s, hs, hl⟩ := Bech32.encode_some (hrp t a.network) bs (hrpOk t a.network)
  exact ⟨s, by simp [toBech32, ht, hb, hs], hl⟩

/-- every constructible address has a text form that decodes back to it -/
theorem toBech32_total (a : Address) (hp : a.payment.Sized) (hs : a.staking.Sized) (hc : toBytes a ≠ none) :
    ∃ s, toBech32 a = some (some s) ∧ fromBech32 s = .ok a := by
  obtain ⟨t, ht⟩ := inferType_of_toBytes a hc
  obtain ⟨bs, hb⟩ := Option.ne_none_iff_exists'.mp hc
  obtain ⟨s, h, _⟩ := toBech32_some a bs t ht hb
  exact ⟨s, h, fromBech32_toBech32 a s hp hs h⟩

/-- ten continuation-free groups are not enough for 2^63: its encoding has 10 bytes -/
theorem encodeInt_2_63_length : 10 ≤ (encodeInt (2 ^ 63)).length := by
  rw [encodeInt_length]
  have h := (encTail_length_bounds (2 ^ 63 / 128)).1
  apply Classical.byContradiction
  intro hn
  have hk : (encTail (2 ^ 63 / 128)).length ≤ 8 := by omega
  have := Nat.pow_le_pow_right (n := 128) (by decide) hk
  have e : (128 : Nat) ^ 8 = 2 ^ 63 / 128 := by decide
  omega

/-- one corrupted data character: `Address.decode` raises -/
theorem fromBech32_subst (hrp pre suf : List Char) (c c' : Char) (hA : ∀ x ∈ hrp, 33 ≤ x.toNat ∧ x.toNat ≤ 126)
    (hpre : ∀ x ∈ pre, x ∈ Bech32.charset) (hsuf : ∀ x ∈ suf, x ∈ Bech32.charset) (hc : c ∈ Bech32.charset)
    (hc' : c' ∈ Bech32.charset) (hne : c ≠ c') (a : Address)
    (hvalid : fromBech32 (hrp ++ '1' :: (pre ++ c :: suf)) = .ok a) :
    fromBech32 (hrp ++ '1' :: (pre ++ c' :: suf)) = .error .bech32 := by
  have hv : Bech32.bech32Decode (hrp ++ '1' :: (pre ++ c :: suf)) ≠ none := by
    intro h
    unfold fromBech32 Bech32.decode at hvalid
    rw [h] at hvalid
    simp at hvalid
  have := Bech32.subst_rejected hrp pre suf c c' hA hpre hsuf hc hc' hne hv
  unfold fromBech32 Bech32.decode
  rw [this]

/-- `Address.decode` succeeds only on strings that `bech32_decode` accepts as Bech32 -/
theorem fromBech32_ok_bech32 (s : List Char) (a : Address) (h : fromBech32 s = .ok a) :
    ∃ hrp data, Bech32.bech32Decode s = some (hrp, data, .bech32) := by
  unfold fromBech32 Bech32.decode at h
  cases hd : Bech32.bech32Decode s with
  | none => rw [hd] at h; simp at h
  | some r =>
    obtain ⟨hrp, data, spec⟩ := r
    obtain ⟨rfl, _⟩ := Bech32.bech32Decode_accepts s hrp data spec hd
    exact ⟨hrp, data, rfl⟩

/-- a string whose checksum was created with the Bech32m constant: `decode` and `Address.decode` raise -/
theorem fromBech32_bech32m (hrp : List Char) (data : List Nat) (hh : Bech32.HrpOk hrp) (hd : ∀ d ∈ data, d < 32) :
    ∃ s, Bech32.bech32Encode hrp data true = some s ∧ Bech32.bech32Decode s = none ∧
      Bech32.decode s = .raised ∧ fromBech32 s = .error .bech32 := by
  refine ⟨_, Bech32.bech32Encode_eq hrp data hd true, Bech32.bech32Decode_bech32m hrp data hh hd, ?_, ?_⟩
  · unfold Bech32.decode; rw [Bech32.bech32Decode_bech32m hrp data hh hd]
  · unfold fromBech32 Bech32.decode; rw [Bech32.bech32Decode_bech32m hrp data hh hd]

end Pyc.Addr
