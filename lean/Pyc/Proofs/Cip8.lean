import Pyc.Model.Cip8
import Pyc.Proofs.Cbor

/-! Lemmas for C19: parse ∘ render on the COSE_Sign1 envelope, the protected header and the COSE_Key (from
`Cbor.decode_encode`), injectivity of the encodings that enter `Sig_structure`, the address round trip for the two
address kinds `sign` embeds. -/

set_option linter.unusedSimpArgs false
set_option linter.unusedVariables false

namespace Pyc.Cip8
open Pyc Pyc.Cbor

/-! ## CBOR: loads ∘ encode, injectivity -/

theorem loads_encode (x : Item) (hw : WF x) (hd : depth x ≤ 8) : loads (encode x) = some x := by
  unfold loads
  have h := decode_encode x [] (parseFuel (encode x)) (by unfold parseFuel; omega) hw
  rw [List.append_nil] at h
  rw [h]

theorem encode_inj (x y : Item) (hx : WF x) (hy : WF y) (h : encode x = encode y) : x = y := by
  have h1 := decode_encode x [] (depth x + depth y) (by omega) hx
  have h2 := decode_encode y [] (depth x + depth y) (by omega) hy
  rw [h, h2] at h1
  simpa using h1.symm

theorem head_length_le (m a : Nat) : (head m a).length ≤ 9 := by
  unfold head
  simp only []
  split
  · simp
  · split
    · simp [beBytes]
    · split
      · simp [beBytes]
      · split <;> simp [beBytes]

/-! ## protected header -/

def HdrEntry.Sized : HdrEntry → Prop
  | .alg => True
  | .address a => a.length < 2^64
  | .kid v => v.length < 2^64

def EntriesSized (es : List HdrEntry) : Prop := ∀ e ∈ es, e.Sized

theorem entryOf_toItem (e : HdrEntry) : entryOf e.toItem = some e := by
  cases e <;> simp [entryOf, HdrEntry.toItem, asBytes]

theorem parseEntries_toItem (es : List HdrEntry) : parseEntries (es.map HdrEntry.toItem) = some es := by
  induction es with
  | nil => rfl
  | cons e r ih => simp [parseEntries, entryOf_toItem, ih]

theorem toItem_inj (a b : HdrEntry) (h : a.toItem = b.toItem) : a = b := by
  cases a <;> cases b <;> simp [HdrEntry.toItem, lblAddress] at h ⊢ <;> exact h

theorem map_toItem_inj (xs ys : List HdrEntry) (h : xs.map HdrEntry.toItem = ys.map HdrEntry.toItem) : xs = ys := by
  induction xs generalizing ys with
  | nil => cases ys <;> simp at h ⊢
  | cons a r ih =>
    cases ys with
    | nil => simp at h
    | cons b s =>
      simp only [List.map_cons, List.cons.injEq] at h
      rw [toItem_inj a b h.1, ih s h.2]

theorem wfPairs_toItem (es : List HdrEntry) (hs : EntriesSized es) : WFPairs (es.map HdrEntry.toItem) := by
  induction es with
  | nil => simp [WFPairs]
  | cons e r ih =>
    have he : e.Sized := hs e (by simp)
    have hr : EntriesSized r := fun x hx => hs x (by simp [hx])
    cases e with
    | alg => simp [HdrEntry.toItem, WFPairs, WF, ih hr]
    | address a => simp only [HdrEntry.Sized] at he; simp [HdrEntry.toItem, WFPairs, WF, ih hr, he, lblAddress]
    | kid v => simp only [HdrEntry.Sized] at he; simp [HdrEntry.toItem, WFPairs, WF, ih hr, he]

theorem depthPairs_toItem (es : List HdrEntry) : depthPairs (es.map HdrEntry.toItem) = es.length + 1 := by
  induction es with
  | nil => simp [depthPairs]
  | cons e r ih =>
    cases e <;> simp [HdrEntry.toItem, depthPairs, depth, ih] <;> omega

theorem wf_header (es : List HdrEntry) (hs : EntriesSized es) (hl : es.length ≤ 5) :
    WF (.map (es.map HdrEntry.toItem)) := by
  simp only [WF, List.length_map]
  exact ⟨by omega, wfPairs_toItem es hs⟩

theorem parseHeader_encodeHeader (es : List HdrEntry) (hs : EntriesSized es) (hl : es.length ≤ 5)
    (hd : labelsDistinct (es.map HdrEntry.labelId) = true) : parseHeader (encodeHeader es) = some es := by
  unfold parseHeader encodeHeader
  rw [loads_encode _ (wf_header es hs hl) (by simp [depth, depthPairs_toItem]; omega)]
  simp [parseEntries_toItem, hd]

theorem encodeHeader_inj (xs ys : List HdrEntry) (hx : EntriesSized xs) (hy : EntriesSized ys)
    (lx : xs.length ≤ 5) (ly : ys.length ≤ 5) (h : encodeHeader xs = encodeHeader ys) : xs = ys := by
  have := encode_inj _ _ (wf_header xs hx lx) (wf_header ys hy ly) h
  simp only [Item.map.injEq] at this
  exact map_toItem_inj xs ys this

/-! ## envelope, COSE key -/

theorem wf_unprotected : WF unprotected := by
  simp [unprotected, WF, WFPairs, lblHashed]

theorem parseEnvelope_render (es : List HdrEntry) (payload sig : Bytes) (hph : (encodeHeader es).length < 2^64)
    (hp : payload.length < 2^64) (hsg : sig.length < 2^64) :
    parseEnvelope (render es payload sig) = some (encodeHeader es, unprotected, payload, sig) := by
  unfold parseEnvelope render
  rw [loads_encode]
  · simp [arrayElems, asBytes]
  · simp [WF, WFList, wf_unprotected, hph, hp, hsg]
  · simp [depth, depthList, depthPairs, unprotected]

theorem coseKeyX_encode (vk : Bytes) (hvk : vk.length < 2^64) (hne : vk ≠ []) :
    coseKeyX (encode (coseKeyItem vk)) = some vk := by
  unfold coseKeyX coseKeyItem
  rw [loads_encode]
  · cases vk with
    | nil => exact absurd rfl hne
    | cons b t =>
      simp [parseCkEntries, ckEntryOf, asBytes, labelsDistinct, CkEntry.labelId, findX]
  · simp [WF, WFPairs, hvk]
  · simp [depth, depthPairs]

theorem uhdrOk_unprotected : uhdrOk unprotected = true := by
  simp [uhdrOk, unprotected]

/-! ## the address `sign` embeds -/

theorem addressBytes_signer (role : Role) (net : Addr.Network) (h : Bytes) :
    addressBytes (signerAddress role net h) =
      Addr.headerByte (match role with | .payment => .keyNone | .stake => .noneKey) net :: h := by
  cases role <;> simp [addressBytes, signerAddress, Addr.toBytes, Addr.inferType, Addr.Part.bytes]

theorem addressBytes_length (role : Role) (net : Addr.Network) (h : Bytes) (hh : h.length = 28) :
    (addressBytes (signerAddress role net h)).length = 29 := by
  rw [addressBytes_signer]; simp [hh]

theorem fromBytes_signer (role : Role) (net : Addr.Network) (h : Bytes) (hh : h.length = 28) :
    Addr.fromBytes (addressBytes (signerAddress role net h)) = .ok (signerAddress role net h) := by
  rw [addressBytes_signer]
  cases role <;> cases net <;>
    simp [Addr.fromBytes, Addr.headerByte, Addr.AddressType.value, Addr.Network.value, Addr.AddressType.ofValue,
      Addr.Network.ofValue, Addr.mkVkh, hh, signerAddress] <;> rfl

theorem credentialOf_signer (role : Role) (net : Addr.Network) (h : Bytes) :
    credentialOf (signerAddress role net h) = some h := by
  cases role <;> simp [credentialOf, signerAddress, partPayload]

/-! ## plan ∘ render -/

/-- parse ∘ render for *any* protected header / payload / signature / key in the model's domain (used with the
honest fields for completeness and with altered fields for the tampering corollaries) -/
theorem plan_render (es : List HdrEntry) (payload sig : Bytes) (key : Option Bytes) (vk a : Bytes)
    (addr : Addr.Address)
    (hs : EntriesSized es) (hl : es.length ≤ 5) (hd : labelsDistinct (es.map HdrEntry.labelId) = true)
    (hph : (encodeHeader es).length < 2^64) (hp : payload.length < 2^64) (hsg : sig.length < 2^64)
    (hu : utf8Valid payload = true)
    (hvk : (match key with
            | none => findKid es
            | some kb => coseKeyX kb) = some vk)
    (ha : findAddress es = some a) (haddr : Addr.fromBytes a = .ok addr)
    (hlen : 32 < vk.length ∨ (hasAlg es = true ∧ vk.length = 32)) :
    plan ⟨render es payload sig, key⟩ = some ⟨es, payload, sig, vk, a, addr⟩ := by
  unfold plan
  simp only [parseEnvelope_render es payload sig hph hp hsg, parseHeader_encodeHeader es hs hl hd,
    uhdrOk_unprotected, hu, hvk, ha, haddr, Bool.and_self, if_true]
  cases key with
  | none =>
    simp only [] at hvk ⊢
    rcases hlen with h | ⟨h1, h2⟩
    · simp [hvk, haddr, h]
    · simp [hvk, haddr, h1, h2]
  | some kb =>
    simp only [] at hvk ⊢
    rcases hlen with h | ⟨h1, h2⟩
    · simp [hvk, haddr, h]
    · simp [hvk, haddr, h1, h2]

/-- what a successful `plan` guarantees about its result -/
theorem plan_spec (w : Signed) (p : Plan) (h : plan w = some p) :
    (∃ pb u, parseEnvelope w.signature = some (pb, u, p.payload, p.sig) ∧ parseHeader pb = some p.entries) ∧
    findAddress p.entries = some p.addrBytes ∧ Addr.fromBytes p.addrBytes = .ok p.address ∧
    (match w.key with
     | none => findKid p.entries
     | some kb => coseKeyX kb) = some p.vk ∧
    utf8Valid p.payload = true ∧
    (32 < p.vk.length ∨ (hasAlg p.entries = true ∧ p.vk.length = 32)) := by
  unfold plan at h
  split at h
  · simp at h
  · rename_i pb u payload sig henv
    split at h
    · simp at h
    · rename_i es hhdr
      split at h
      · rename_i hc
        split at h
        · rename_i vk a hvk ha
          split at h
          · rename_i addr haddr
            split at h
            · rename_i hlen
              simp only [Option.some.injEq] at h
              subst h
              simp only [Bool.and_eq_true] at hc
              simp only [Bool.or_eq_true, Bool.and_eq_true, decide_eq_true_eq, beq_iff_eq] at hlen
              exact ⟨⟨pb, u, henv, hhdr⟩, ha, haddr, hvk, hc.2, hlen⟩
            · simp at h
          · simp at h
        · simp at h
      · simp at h

theorem parseHeader_distinct (pb : Bytes) (es : List HdrEntry) (h : parseHeader pb = some es) :
    labelsDistinct (es.map HdrEntry.labelId) = true := by
  unfold parseHeader at h
  split at h
  · split at h
    · split at h
      · simp only [Option.some.injEq] at h; subst h; assumption
      · simp at h
    · simp at h
  · simp at h

theorem distinct_length_le (es : List HdrEntry) (h : labelsDistinct (es.map HdrEntry.labelId) = true) :
    es.length ≤ 3 := by
  match es with
  | [] => simp
  | [_] => simp
  | [_, _] => simp
  | [_, _, _] => simp
  | a :: b :: c :: d :: r =>
    exfalso
    cases a <;> cases b <;> cases c <;> cases d <;> simp [labelsDistinct, HdrEntry.labelId] at h

/-! ## honest header, Sig_structure -/

theorem honestEntries_props (addr vk : Bytes) (attach : Bool) (ha : addr.length < 2^64) (hv : vk.length < 2^64) :
    EntriesSized (honestEntries addr vk attach) ∧ (honestEntries addr vk attach).length ≤ 5 ∧
    labelsDistinct ((honestEntries addr vk attach).map HdrEntry.labelId) = true ∧
    findAddress (honestEntries addr vk attach) = some addr ∧ hasAlg (honestEntries addr vk attach) = true ∧
    (attach = false → findKid (honestEntries addr vk attach) = some vk) := by
  cases attach <;>
    simp [honestEntries, EntriesSized, HdrEntry.Sized, ha, hv, labelsDistinct, HdrEntry.labelId, findAddress,
      hasAlg, findKid]

theorem encodeHeader_honest_length (addr vk : Bytes) (attach : Bool) (ha : addr.length < 2^32)
    (hv : vk.length < 2^32) : (encodeHeader (honestEntries addr vk attach)).length < 2^64 := by
  have h1 := head_length_le 5 2
  have h2 := head_length_le 5 3
  have h3 := head_length_le 0 1
  have h4 := head_length_le 1 7
  have h5 := head_length_le 3 7
  have h6 := head_length_le 2 addr.length
  have h7 := head_length_le 0 4
  have h8 := head_length_le 2 vk.length
  cases attach <;>
    simp [encodeHeader, honestEntries, HdrEntry.toItem, encode, encodePairs, lblAddress] <;> omega

theorem wf_sigStructure (ph m : Bytes) (h1 : ph.length < 2^64) (h2 : m.length < 2^64) : WF (sigStructure ph m) := by
  simp [sigStructure, WF, WFList, ctxSignature1, h1, h2]

/-- different payload or different protected bytes ⇒ different to-be-signed bytes -/
theorem toBeSigned_inj (ph m ph' m' : Bytes) (h1 : ph.length < 2^64) (h2 : m.length < 2^64)
    (h1' : ph'.length < 2^64) (h2' : m'.length < 2^64) (h : toBeSigned ph m = toBeSigned ph' m') :
    ph = ph' ∧ m = m' := by
  have := encode_inj _ _ (wf_sigStructure ph m h1 h2) (wf_sigStructure ph' m' h1' h2') h
  simpa [sigStructure] using this

/-! ## trailing bytes are ignored -/

theorem loads_trailing (x : Item) (rest : Bytes) (hw : WF x) (hd : depth x ≤ 8) :
    loads (encode x ++ rest) = some x := by
  unfold loads
  rw [decode_encode x rest (parseFuel (encode x ++ rest)) (by unfold parseFuel; omega) hw]

theorem parseEnvelope_render_trailing (es : List HdrEntry) (payload sig rest : Bytes)
    (hph : (encodeHeader es).length < 2^64) (hp : payload.length < 2^64) (hsg : sig.length < 2^64) :
    parseEnvelope (render es payload sig ++ rest) = some (encodeHeader es, unprotected, payload, sig) := by
  unfold parseEnvelope render
  rw [loads_trailing]
  · simp [arrayElems, asBytes]
  · simp [WF, WFList, wf_unprotected, hph, hp, hsg]
  · simp [depth, depthList, depthPairs, unprotected]

theorem plan_trailing (es : List HdrEntry) (payload sig rest : Bytes) (key : Option Bytes)
    (hph : (encodeHeader es).length < 2^64) (hp : payload.length < 2^64) (hsg : sig.length < 2^64) :
    plan ⟨render es payload sig ++ rest, key⟩ = plan ⟨render es payload sig, key⟩ := by
  simp only [plan, parseEnvelope_render_trailing es payload sig rest hph hp hsg,
    parseEnvelope_render es payload sig hph hp hsg]

end Pyc.Cip8
