import Pyc.Model.Cip8
import Pyc.Proofs.Cbor

/-! Lemmas for C19: parse ∘ render on the COSE_Sign1 envelope, the protected header and the COSE_Key (from
`Cbor.decode_encode`), injectivity of the encodings that enter `Sig_structure`, the address round trip for the two
address kinds `sign` embeds. -/

set_option linter.unusedSimpArgs false
set_option linter.unusedVariables false

namespace Pyc.Cip8
open Pyc Pyc.Cbor

/-! ## CBOR: loads ∘ encode, injectivity -/

theorem loads_encode (x : Item) (hw : WF x) (hd : depth x ≤ 8) : loads (encode x) = some x := by
  unfold loads
  have h := decode_encode x [] (parseFuel (encode x)) (by unfold parseFuel; omega) hw
  rw [List.append_nil] at h
  rw [h]

theorem encode_inj (x y : Item) (hx : WF x) (hy : WF y) (h : encode x = encode y) : x = y := by
  have h1 := decode_encode x [] (depth x + depth y) (by omega) hx
  have h2 := decode_encode y [] (depth x + depth y) (by omega) hy
  rw [h, h2] at h1
  simpa using h1.symm

theorem head_length_le (m a : Nat) : (head m a).length ≤ 9 := by
  unfold head
  simp only []
  split
  · simp
  · split
    · simp [beBytes]
    · split
      · simp [beBytes]
      · split <;> simp [beBytes]

/-! ## protected header -/

def HdrEntry.Sized : HdrEntry → Prop
  | .alg => True
  | .address a => a.length < 2^64
  | .kid v => v.length < 2^64

def EntriesSized (es : List HdrEntry) : Prop := ∀ e ∈ es, e.Sized

theorem entryOf_toItem (e : HdrEntry) : entryOf e.toItem = some e := by
  cases e <;> simp [entryOf, HdrEntry.toItem, asBytes]

theorem parseEntries_toItem (es : List HdrEntry) : parseEntries (es.map HdrEntry.toItem) = some es := by
  induction es with
  | nil => rfl
  | cons e r ih => simp [parseEntries, entryOf_toItem, ih]

theorem toItem_inj (a b : HdrEntry) (h : a.toItem = b.toItem) : a = b := by
  cases a <;> cases b <;> simp [HdrEntry.toItem, lblAddress] at h ⊢ <;> exact h

theorem map_toItem_inj (xs ys : List HdrEntry) (h : xs.map HdrEntry.toItem = ys.map HdrEntry.toItem) : xs = ys := by
  induction xs generalizing ys with
  | nil => cases ys <;> simp at h ⊢
  | cons a r ih =>
    cases ys with
    | nil => simp at h
    | cons b s =>
      simp only [List.map_cons, List.cons.injEq] at h
      rw [toItem_inj a b h.1, ih s h.2]

theorem wfPairs_toItem (es : List HdrEntry) (hs : EntriesSized es) : WFPairs (es.map HdrEntry.toItem) := by
  induction es with
  | nil => simp [WFPairs]
  | cons e r ih =>
    have he : e.Sized := hs e (by simp)
    have hr : EntriesSized r := fun x hx => hs x (by simp [hx])
    cases e with
    | alg => simp [HdrEntry.toItem, WFPairs, WF, ih hr]
    | address a => simp only [HdrEntry.Sized] at he; simp [HdrEntry.toItem, WFPairs, WF, ih hr, he, lblAddress]
    | kid v => simp only [HdrEntry.Sized] at he; simp [HdrEntry.toItem, WFPairs, WF, ih hr, he]

theorem depthPairs_toItem (es : List HdrEntry) : depthPairs (es.map HdrEntry.toItem) = es.length + 1 := by
  induction es with
  | nil => simp [depthPairs]
  | cons e r ih =>
    cases e <;> simp [HdrEntry.toItem, depthPairs, depth, ih] <;> omega

theorem wf_header (es : List HdrEntry) (hs : EntriesSized es) (hl : es.length ≤ 5) :
    WF (.map (es.map HdrEntry.toItem)) := by
  simp only [WF, List.length_map]
  exact ⟨by omega, wfPairs_toItem es hs⟩

theorem parseHeader_encodeHeader (es : List HdrEntry) (hs : EntriesSized es) (hl : es.length ≤ 5)
    (hd : labelsDistinct (es.map HdrEntry.labelId) = true) : parseHeader (encodeHeader es) = some es := by
  unfold parseHeader encodeHeader
  rw [loads_encode _ (wf_header es hs hl) (by simp [depth, depthPairs_toItem]; omega)]
  simp [parseEntries_toItem, hd]

theorem encodeHeader_inj (xs ys : List HdrEntry) (hx : EntriesSized xs) (hy : EntriesSized ys)
    (lx : xs.length ≤ 5) (ly : ys.length ≤ 5) (h : encodeHeader xs = encodeHeader ys) : xs = ys := by
  have := encode_inj _ _ (wf_header xs hx lx) (wf_header ys hy ly) h
  simp only [Item.map.injEq] at this
  exact map_toItem_inj xs ys this

/-! ## envelope, COSE key -/

theorem wf_unprotected : WF unprotected := by
  simp [unprotected, WF, WFPairs, lblHashed]

theorem parseEnvelope_render (es : List HdrEntry) (payload sig : Bytes) (hph : (encodeHeader es).length < 2^64)
    (hp : payload.length < 2^64) (hsg : sig.length < 2^64) :
    parseEnvelope (render es payload sig) = some (encodeHeader es, unprotected, payload, sig) := by
  unfold parseEnvelope render
  rw [loads_encode]
  · simp [arrayElems, asBytes]
  · simp [WF, WFList, wf_unprotected, hph, hp, hsg]
  · simp [depth, depthList, depthPairs, unprotected]

theorem coseKeyX_encode (vk : Bytes) (hvk : vk.length < 2^64) (hne : vk ≠ []) :
    coseKeyX (encode (coseKeyItem vk)) = some vk := by
  unfold coseKeyX coseKeyItem
  rw [loads_encode]
  · cases vk with
    | nil => exact absurd rfl hne
    | cons b t =>
      simp [parseCkEntries, ckEntryOf, asBytes, labelsDistinct, CkEntry.labelId, findX]
  · simp [WF, WFPairs, hvk]
  · simp [depth, depthPairs]

theorem uhdrOk_unprotected : uhdrOk unprotected = true := by
  simp [uhdrOk, unprotected]

/-! ## the address `sign` embeds -/

theorem addressBytes_signer (role : Role) (net : Addr.Network) (h : Bytes) :
    addressBytes (signerAddress role net h) =
      Addr.headerByte (match role with | .payment => .keyNone | .stake => .noneKey) net :: h := by
  cases role <;> simp [addressBytes, signerAddress, Addr.toBytes, Addr.inferType, Addr.Part.bytes]

theorem addressBytes_length (role : Role) (net : Addr.Network) (h : Bytes) (hh : h.length = 28) :
    (addressBytes (signerAddress role net h)).length = 29 := by
  rw [addressBytes_signer]; simp [hh]

theorem fromBytes_signer (role : Role) (net : Addr.Network) (h : Bytes) (hh : h.length = 28) :
    Addr.fromBytes (addressBytes (signerAddress role net h)) = .ok (signerAddress role net h) := by
  rw [addressBytes_signer]
  cases role <;> cases net <;>
    simp [Addr.fromBytes, Addr.headerByte, Addr.AddressType.value, Addr.Network.value, Addr.AddressType.ofValue,
      Addr.Network.ofValue, Addr.mkVkh, hh, signerAddress] <;> rfl

theorem credentialOf_signer (role : Role) (net : Addr.Network) (h : Bytes) :
    credentialOf (signerAddress role net h) = some h := by
  cases role <;> simp [credentialOf, signerAddress, partPayload]

end Pyc.Cip8
