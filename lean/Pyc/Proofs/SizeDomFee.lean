import Pyc.Proofs.Fee

/-! Helper lemmas about the fee formula as a function of the size (for `Props/C07_SizeDom.lean`). -/

namespace Pyc.SizeDom
open Pyc

/-- `fee` is defined for one size iff it is defined for every size (only the reference-script tier can refuse) -/
theorem fee_some_of_some (p : FeeParams) (l₁ l₂ steps mem ref e₁ : ℤ) (h : fee p l₁ steps mem ref = some e₁) :
    ∃ e₂, fee p l₂ steps mem ref = some e₂ := by
  unfold fee at h ⊢
  cases ht : tierFee p ref with
  | none => rw [ht] at h; simp at h
  | some t => exact ⟨_, rfl⟩

/-- the difference of two fees for the same units and reference bytes is the difference of the size terms -/
theorem fee_sub (p : FeeParams) (l₁ l₂ steps mem ref e₁ e₂ : ℤ) (h1 : fee p l₁ steps mem ref = some e₁)
    (h2 : fee p l₂ steps mem ref = some e₂) : e₂ - e₁ = ceilMul l₂ p.a - ceilMul l₁ p.a := by
  unfold fee at h1 h2
  cases ht : tierFee p ref with
  | none => rw [ht] at h1; simp at h1
  | some t =>
    rw [ht] at h1 h2
    simp only [Option.some.injEq] at h1 h2
    omega

/-- sub-additivity of the ceiling: `k` more bytes cost at most `⌈k·a⌉` more -/
theorem ceilMul_add_le (l k : ℤ) (r : Rat') : ceilMul (l + k) r ≤ ceilMul l r + ceilMul k r := by
  rw [ceilMul_eq, ceilMul_eq, ceilMul_eq]
  have : (((l + k : ℤ)) : ℚ) * r.toRat = (l : ℚ) * r.toRat + (k : ℚ) * r.toRat := by push_cast; ring
  rw [this]
  exact Int.ceil_add_le _ _

theorem ceilMul_mono (l₁ l₂ : ℤ) (r : Rat') (hr : 0 ≤ r.num) (h : l₁ ≤ l₂) : ceilMul l₁ r ≤ ceilMul l₂ r := by
  rw [ceilMul_eq, ceilMul_eq]
  apply Int.ceil_le_ceil
  have hq : (0 : ℚ) ≤ r.toRat := by
    unfold Rat'.toRat
    apply div_nonneg
    · exact_mod_cast hr
    · positivity
  have : (l₁ : ℚ) ≤ (l₂ : ℚ) := by exact_mod_cast h
  nlinarith

/-- an integer coefficient: the ceiling is exact -/
theorem ceilMul_int (k a : ℤ) : ceilMul k ⟨a, 1⟩ = a * k := by
  rw [ceilMul_eq]
  have : (k : ℚ) * (Rat'.toRat ⟨a, 1⟩) = ((a * k : ℤ) : ℚ) := by
    unfold Rat'.toRat; push_cast; ring
  rw [this, Int.ceil_intCast]

end Pyc.SizeDom
