import Pyc.Model.NativeScript
import Pyc.Spec.NativeScript
import Pyc.Proofs.CborAll
import Pyc.Proofs.CustomCodec
import Pyc.Proofs.Ids

/-! Lemmas for the native-script codec (`Model/NativeScript.lean`): decode ∘ encode on primitives, fuel adequacy,
the decoder returns well-formed scripts only, the JSON route, the CDDL shape, and the `Leaf` of the output model. -/

set_option linter.unusedSimpArgs false
set_option linter.unusedVariables false

namespace Pyc.NativeScript
open Pyc Pyc.Cbor Pyc.Codec Pyc.Custom Pyc.Ids

/-! ## `mapRes` -/

theorem mapRes_ok {α β : Type} (f : α → Res β) (g : β → α) (ys : List β) (h : ∀ y ∈ ys, f (g y) = .ok y) :
    mapRes f (ys.map g) = .ok ys := by
  induction ys with
  | nil => rfl
  | cons y ys ih =>
    have h1 := h y (by simp)
    have h2 := ih (fun z hz => h z (by simp [hz]))
    simp [mapRes, h1, h2]

theorem mapRes_congr {α β : Type} (f g : α → Res β) (xs : List α) (h : ∀ x ∈ xs, f x = g x) :
    mapRes f xs = mapRes g xs := by
  induction xs with
  | nil => rfl
  | cons x xs ih =>
    have h1 := h x (by simp)
    have h2 := ih (fun z hz => h z (by simp [hz]))
    simp [mapRes, h1, h2]

theorem mapRes_ok_all {α β : Type} (f : α → Res β) (P : β → Prop) (xs : List α) (ys : List β)
    (h : ∀ x ∈ xs, ∀ y, f x = .ok y → P y) (hm : mapRes f xs = .ok ys) : ∀ y ∈ ys, P y := by
  induction xs generalizing ys with
  | nil => simp [mapRes] at hm; subst hm; simp
  | cons x xs ih =>
    simp only [mapRes] at hm
    cases hx : f x with
    | ok y =>
      rw [hx] at hm
      cases hr : mapRes f xs with
      | ok r =>
        rw [hr] at hm
        simp at hm
        subst hm
        intro z hz
        simp only [List.mem_cons] at hz
        rcases hz with rfl | hz
        · exact h x (by simp) _ hx
        · exact ih r (fun a ha => h a (by simp [ha])) hr z hz
      | deser => rw [hr] at hm; cases hm
      | crash => rw [hr] at hm; cases hm
    | deser => rw [hx] at hm; cases hm
    | crash => rw [hx] at hm; cases hm

theorem items_eq_map (xs : List NScript) : NScript.items xs = xs.map NScript.item := by
  induction xs with
  | nil => rfl
  | cons x xs ih => simp [NScript.items, ih]

theorem wfBs_mem (xs : List NScript) (h : wfBs xs = true) : ∀ x ∈ xs, wfB x = true := by
  induction xs with
  | nil => simp
  | cons x xs ih =>
    simp only [wfBs, Bool.and_eq_true] at h
    intro y hy
    simp only [List.mem_cons] at hy
    rcases hy with rfl | hy
    · exact h.1
    · exact ih h.2 y hy

theorem wfBs_of_mem (xs : List NScript) (h : ∀ x ∈ xs, wfB x = true) : wfBs xs = true := by
  induction xs with
  | nil => rfl
  | cons x xs ih =>
    simp only [wfBs, Bool.and_eq_true]
    exact ⟨h x (by simp), ih (fun y hy => h y (by simp [hy]))⟩

theorem depths_mem (xs : List NScript) : ∀ x ∈ xs, depth x ≤ depths xs := by
  induction xs with
  | nil => simp
  | cons x xs ih =>
    intro y hy
    simp only [List.mem_cons] at hy
    simp only [depths]
    rcases hy with rfl | hy
    · omega
    · have := ih y hy; omega

/-! ## decode ∘ encode on primitives -/

theorem typeCode_uint (n : Nat) : typeCode? (.uint n) = some (n : Int) := rfl

theorem decInt_ofInt (i : Int) : decInt (ofInt i) = .ok i := by simp [decInt, itemInt_ofInt_all]

-- **`from_primitive (to_primitive s) = s`** for every script whose key hashes have 28 bytes, at every fuel not below
-- its nesting depth
mutual
theorem fromItem_toItem (s : NScript) (hw : wfB s = true) (fuel : Nat) (hf : depth s ≤ fuel) :
    fromItem fuel (toItem s) = .ok s := by
  cases fuel with
  | zero => cases s <;> simp [depth] at hf
  | succ f =>
    cases s with
    | pubkey h =>
      simp only [wfB, beq_iff_eq] at hw
      simp [toItem, NScript.item, fromItem, typeCode_uint, decPubkey, decKeyHash, decCBytes, hw, Res.bind]
    | all xs =>
      simp only [wfB] at hw
      simp only [depth] at hf
      simp [toItem, NScript.item, fromItem, typeCode_uint, childItems, Res.bind, fromList_toItems xs hw f (by omega)]
    | any xs =>
      simp only [wfB] at hw
      simp only [depth] at hf
      simp [toItem, NScript.item, fromItem, typeCode_uint, childItems, Res.bind, fromList_toItems xs hw f (by omega)]
    | nofk n xs =>
      simp only [wfB] at hw
      simp only [depth] at hf
      simp [toItem, NScript.item, fromItem, typeCode_uint, childItems, Res.bind, decInt_ofInt,
        fromList_toItems xs hw f (by omega)]
    | before t =>
      simp [toItem, NScript.item, fromItem, typeCode_uint, decSlot, Res.bind, decInt_ofInt]
    | hereafter t =>
      simp [toItem, NScript.item, fromItem, typeCode_uint, decSlot, Res.bind, decInt_ofInt]
theorem fromList_toItems (xs : List NScript) (hw : wfBs xs = true) (f : Nat) (hd : depths xs ≤ f) :
    mapRes (fromItem f) (NScript.items xs) = .ok xs := by
  cases xs with
  | nil => rfl
  | cons x xs =>
    simp only [wfBs, Bool.and_eq_true] at hw
    simp only [depths] at hd
    have h1 := fromItem_toItem x hw.1 f (by omega)
    have h2 := fromList_toItems xs hw.2 f (by omega)
    simp only [toItem] at h1
    simp [NScript.items, mapRes, h1, h2]
end

/-! ## the decoder returns well-formed scripts only -/

theorem bind_eq_ok {α β : Type} (r : Res α) (f : α → Res β) (b : β) :
    Res.bind r f = .ok b ↔ ∃ a, r = .ok a ∧ f a = .ok b := by
  cases r <;> simp [Res.bind]

theorem decCBytes_len (mn mx : Nat) (i : Item) (b : Bytes) (h : decCBytes mn mx i = .ok b) : mn ≤ b.length ∧ b.length ≤ mx := by
  cases i with
  | bytes x =>
    simp only [decCBytes] at h
    split at h
    · cases h; assumption
    · cases h
  | text x =>
    simp only [decCBytes] at h
    split at h
    · split at h
      · cases h; assumption
      · cases h
    · cases h
  | _ => simp [decCBytes] at h

theorem decKeyHash_len (i : Item) (b : Bytes) (h : decKeyHash i = .ok b) : b.length = 28 := by
  have : decCBytes 28 28 i = .ok b ∨ ∃ cs, decCBytes 28 28 (.bytes cs) = .ok b := by
    cases i with
    | bytesChunked cs => exact Or.inr ⟨_, h⟩
    | _ => exact Or.inl h
  rcases this with h | ⟨cs, h⟩
  · have := decCBytes_len _ _ _ _ h; omega
  · have := decCBytes_len _ _ _ _ h; omega

theorem scripts_wf (f : Nat) (k : List NScript → NScript) (hk : ∀ ss, wfBs ss = true → wfB (k ss) = true)
    (ih : ∀ i s, fromItem f i = .ok s → wfB s = true) (vs : List Item) (s : NScript)
    (h : (match vs with
        | [] => Res.crash
        | v :: _ => Res.bind (childItems v) fun ys => Res.bind (mapRes (fromItem f) ys) fun ss => .ok (k ss)) = .ok s) :
    wfB s = true := by
  cases vs with
  | nil => cases h
  | cons v r =>
    simp only [bind_eq_ok] at h
    obtain ⟨ys, _, ss, hm, hs⟩ := h
    cases hs
    exact hk ss (wfBs_of_mem ss (mapRes_ok_all (fromItem f) (fun y => wfB y = true) ys ss (fun x _ y hy => ih x y hy) hm))

theorem fromItem_wf (f : Nat) (i : Item) (s : NScript) (h : fromItem f i = .ok s) : wfB s = true := by
  induction f generalizing i s with
  | zero => simp [fromItem] at h
  | succ f ih =>
    cases i with
    | array xs =>
      cases xs with
      | nil => simp [fromItem] at h
      | cons c rest =>
        simp only [fromItem] at h
        split at h
        · cases rest with
          | nil => cases h
          | cons v r =>
            simp only [decPubkey, bind_eq_ok] at h
            obtain ⟨b, hb, hs⟩ := h
            cases hs
            simp [wfB, decKeyHash_len v b hb]
        · split at h
          · exact scripts_wf f .all (fun ss hs => by simpa [wfB] using hs) ih rest s h
          · split at h
            · exact scripts_wf f .any (fun ss hs => by simpa [wfB] using hs) ih rest s h
            · split at h
              · cases rest with
                | nil => cases h
                | cons nv r =>
                  simp only [bind_eq_ok] at h
                  obtain ⟨n, _, h⟩ := h
                  exact scripts_wf f (.nofk n) (fun ss hs => by simpa [wfB] using hs) ih r s h
              · split at h
                · cases rest with
                  | nil => cases h
                  | cons v r =>
                    simp only [decSlot, bind_eq_ok] at h
                    obtain ⟨n, _, hs⟩ := h
                    cases hs; rfl
                · split at h
                  · cases rest with
                    | nil => cases h
                    | cons v r =>
                      simp only [decSlot, bind_eq_ok] at h
                      obtain ⟨n, _, hs⟩ := h
                      cases hs; rfl
                  · cases h
    | _ => simp [fromItem] at h

/-! ## fuel adequacy: any fuel not below the depth of the item gives the same result -/

theorem bind_congr {α β : Type} (r : Res α) (f g : α → Res β) (h : ∀ a, r = .ok a → f a = g a) :
    Res.bind r f = Res.bind r g := by
  cases r with
  | ok a => exact h a rfl
  | deser => rfl
  | crash => rfl

theorem depth_pos (i : Item) : 1 ≤ Cbor.depth i := by
  cases i <;> simp [Cbor.depth] <;> omega

theorem depthList_mem (xs : List Item) : ∀ x ∈ xs, Cbor.depth x < Cbor.depthList xs := by
  induction xs with
  | nil => simp
  | cons x xs ih =>
    intro y hy
    simp only [List.mem_cons] at hy
    simp only [Cbor.depthList]
    rcases hy with rfl | hy
    · omega
    · have := ih y hy; omega

theorem depthPairs_mem (kvs : List (Item × Item)) : ∀ kv ∈ kvs, Cbor.depth kv.1 < Cbor.depthPairs kvs := by
  induction kvs with
  | nil => simp
  | cons x xs ih =>
    intro y hy
    simp only [List.mem_cons] at hy
    obtain ⟨k, v⟩ := x
    simp only [Cbor.depthPairs]
    rcases hy with rfl | hy
    · simp only; omega
    · have := ih y hy; omega

theorem childItems_depth (v : Item) (ys : List Item) (h : childItems v = .ok ys) : ∀ y ∈ ys, Cbor.depth y ≤ Cbor.depth v := by
  intro y hy
  cases v with
  | array xs =>
    simp only [childItems, Res.ok.injEq] at h; subst h
    have := depthList_mem xs y hy
    simp only [Cbor.depth]; omega
  | arrayIndef xs =>
    simp only [childItems, Res.ok.injEq] at h; subst h
    have := depthList_mem xs y hy
    simp only [Cbor.depth]; omega
  | bytes b =>
    simp only [childItems, Res.ok.injEq] at h; subst h
    simp only [List.mem_map] at hy
    obtain ⟨a, _, rfl⟩ := hy
    simp [Cbor.depth]
  | bytesChunked cs =>
    simp only [childItems, Res.ok.injEq] at h; subst h
    simp only [List.mem_map] at hy
    obtain ⟨a, _, rfl⟩ := hy
    simp only [Cbor.depth]; omega
  | text t =>
    simp only [childItems, Res.ok.injEq] at h; subst h
    simp only [List.mem_map] at hy
    obtain ⟨a, _, rfl⟩ := hy
    simp [Cbor.depth]
  | map kvs =>
    simp only [childItems, Res.ok.injEq] at h; subst h
    simp only [List.mem_map] at hy
    obtain ⟨a, ha, rfl⟩ := hy
    have := depthPairs_mem kvs a ha
    simp only [Cbor.depth]; omega
  | _ => simp [childItems] at h

theorem scripts_fuel (f g : Nat) (k : List NScript → NScript) (vs : List Item)
    (h : ∀ v ∈ vs, ∀ ys, childItems v = .ok ys → ∀ y ∈ ys, fromItem f y = fromItem g y) :
    (match (generalizing := false) vs with
      | [] => Res.crash
      | v :: _ => Res.bind (childItems v) fun ys => Res.bind (mapRes (fromItem f) ys) fun ss => .ok (k ss)) =
    (match (generalizing := false) vs with
      | [] => Res.crash
      | v :: _ => Res.bind (childItems v) fun ys => Res.bind (mapRes (fromItem g) ys) fun ss => .ok (k ss)) := by
  cases vs with
  | nil => rfl
  | cons v r =>
    refine bind_congr _ _ _ (fun ys hys => ?_)
    rw [mapRes_congr (fromItem f) (fromItem g) ys (h v (by simp) ys hys)]

theorem fromItem_fuel (i : Item) (f g : Nat) (hf : Cbor.depth i ≤ f) (hg : Cbor.depth i ≤ g) :
    fromItem f i = fromItem g i := by
  induction f generalizing g i with
  | zero => have := depth_pos i; omega
  | succ f ih =>
    cases g with
    | zero => have := depth_pos i; omega
    | succ g =>
      cases i with
      | array xs =>
        cases xs with
        | nil => simp [fromItem]
        | cons c rest =>
          simp only [Cbor.depth, Cbor.depthList] at hf hg
          have key : ∀ vs : List Item, Cbor.depthList vs ≤ Cbor.depthList rest →
              ∀ v ∈ vs, ∀ ys, childItems v = .ok ys → ∀ y ∈ ys, fromItem f y = fromItem g y := by
            intro vs hvs v hv ys hys y hy
            have h1 := childItems_depth v ys hys y hy
            have h2 := depthList_mem vs v hv
            exact ih y g (by omega) (by omega)
          simp only [fromItem]
          by_cases h0 : typeCode? c = some 0
          · rw [if_pos h0, if_pos h0]
          rw [if_neg h0, if_neg h0]
          by_cases h1 : typeCode? c = some 1
          · rw [if_pos h1, if_pos h1]
            exact scripts_fuel f g .all rest (key rest (Nat.le_refl _))
          rw [if_neg h1, if_neg h1]
          by_cases h2 : typeCode? c = some 2
          · rw [if_pos h2, if_pos h2]
            exact scripts_fuel f g .any rest (key rest (Nat.le_refl _))
          rw [if_neg h2, if_neg h2]
          by_cases h3 : typeCode? c = some 3
          · rw [if_pos h3, if_pos h3]
            cases rest with
            | nil => rfl
            | cons nv r =>
              refine bind_congr _ _ _ (fun n _ => ?_)
              exact scripts_fuel f g (.nofk n) r (key r (by simp only [Cbor.depthList]; omega))
          rw [if_neg h3, if_neg h3]
      | _ => simp [fromItem]

/-! ## the nesting depth of a script against the depth of its primitive and the length of its bytes -/

mutual
theorem depth_le_cbor (s : NScript) : depth s ≤ Cbor.depth (toItem s) := by
  cases s with
  | pubkey h => simp [depth, toItem, NScript.item, Cbor.depth, Cbor.depthList]
  | all xs =>
    have := depths_le_cbor xs
    simp only [depth, toItem, NScript.item, Cbor.depth, Cbor.depthList]; omega
  | any xs =>
    have := depths_le_cbor xs
    simp only [depth, toItem, NScript.item, Cbor.depth, Cbor.depthList]; omega
  | nofk n xs =>
    have := depths_le_cbor xs
    simp only [depth, toItem, NScript.item, Cbor.depth, Cbor.depthList]; omega
  | before t => simp only [depth, toItem, NScript.item, Cbor.depth, Cbor.depthList]; omega
  | hereafter t => simp only [depth, toItem, NScript.item, Cbor.depth, Cbor.depthList]; omega
theorem depths_le_cbor (xs : List NScript) : depths xs ≤ Cbor.depthList (NScript.items xs) := by
  cases xs with
  | nil => simp [depths]
  | cons x xs =>
    have h1 := depth_le_cbor x
    have h2 := depths_le_cbor xs
    simp only [toItem] at h1
    simp only [depths, NScript.items, Cbor.depthList]; omega
end

theorem depth_le_bytes (s : NScript) : depth s ≤ 2 * (toBytes s).length + 2 := by
  have h1 := depth_le_cbor s
  have h2 := (Cbor.depth_le (toItem s)).1
  simp only [toBytes]; omega

/-- **`from_cbor (to_cbor s) = s`** -/
theorem fromBytes_toBytes (s : NScript) (hw : wfB s = true) (hr : Cbor.WF (toItem s)) : fromBytes (toBytes s) = .ok s := by
  have hd := depth_le_bytes s
  simp only [toBytes] at hd
  simp only [fromBytes, toBytes, decodeAll_encode _ hr]
  exact fromItem_toItem s hw _ hd

/-! ## the CDDL rule -/

open Pyc.Spec.NativeScript in
mutual
theorem validNative_of_inRange (s : NScript) (h : inRangeB s = true) : Spec.Ids.ValidNative s := by
  cases s with
  | pubkey k =>
    simp only [inRangeB, beq_iff_eq] at h
    simp only [Spec.Ids.ValidNative]; omega
  | all xs =>
    simp only [inRangeB, Bool.and_eq_true, decide_eq_true_eq] at h
    exact ⟨h.1, validNatives_of_inRange xs h.2⟩
  | any xs =>
    simp only [inRangeB, Bool.and_eq_true, decide_eq_true_eq] at h
    exact ⟨h.1, validNatives_of_inRange xs h.2⟩
  | nofk n xs =>
    simp only [inRangeB, Bool.and_eq_true, decide_eq_true_eq] at h
    exact ⟨⟨h.1.1.1, h.1.1.2⟩, h.1.2, validNatives_of_inRange xs h.2⟩
  | before t =>
    simp only [inRangeB, Bool.and_eq_true, decide_eq_true_eq] at h
    exact h
  | hereafter t =>
    simp only [inRangeB, Bool.and_eq_true, decide_eq_true_eq] at h
    exact h
theorem validNatives_of_inRange (xs : List NScript) (h : inRangeBs xs = true) : Spec.Ids.ValidNatives xs := by
  cases xs with
  | nil => trivial
  | cons x xs =>
    simp only [inRangeBs, Bool.and_eq_true] at h
    exact ⟨validNative_of_inRange x h.1, validNatives_of_inRange xs h.2⟩
end

open Pyc.Spec.NativeScript in
mutual
theorem wfB_of_inRange (s : NScript) (h : inRangeB s = true) : wfB s = true := by
  cases s with
  | pubkey k => simpa [inRangeB, wfB] using h
  | all xs =>
    simp only [inRangeB, Bool.and_eq_true] at h
    simpa [wfB] using wfBs_of_inRange xs h.2
  | any xs =>
    simp only [inRangeB, Bool.and_eq_true] at h
    simpa [wfB] using wfBs_of_inRange xs h.2
  | nofk n xs =>
    simp only [inRangeB, Bool.and_eq_true] at h
    simpa [wfB] using wfBs_of_inRange xs h.2
  | before t => rfl
  | hereafter t => rfl
theorem wfBs_of_inRange (xs : List NScript) (h : inRangeBs xs = true) : wfBs xs = true := by
  cases xs with
  | nil => rfl
  | cons x xs =>
    simp only [inRangeBs, Bool.and_eq_true] at h
    simp [wfBs, wfB_of_inRange x h.1, wfBs_of_inRange xs h.2]
end

open Pyc.Spec.NativeScript in
theorem ofInt_int64 (n : Int) (h0 : -(2^63 : Int) ≤ n) (h1 : n < 2^63) : ofInt n = int64Item n := by
  unfold int64Item
  by_cases h : 0 ≤ n
  · rw [ofInt_nonneg n h (by omega)]; simp [h]
  · rw [ofInt_neg n (by omega) (by omega)]
    have : (-1 - n) = -(n + 1) := by omega
    simp [h, this]

open Pyc.Spec.NativeScript in
mutual
theorem toItem_spec (s : NScript) (h : inRangeB s = true) : toItem s = specNS s := by
  cases s with
  | pubkey k => rfl
  | all xs =>
    simp only [inRangeB, Bool.and_eq_true] at h
    simp [toItem, NScript.item, specNS, items_spec xs h.2]
  | any xs =>
    simp only [inRangeB, Bool.and_eq_true] at h
    simp [toItem, NScript.item, specNS, items_spec xs h.2]
  | nofk n xs =>
    simp only [inRangeB, Bool.and_eq_true, decide_eq_true_eq] at h
    simp [toItem, NScript.item, specNS, items_spec xs h.2, ofInt_int64 n h.1.1.1 h.1.1.2]
  | before t =>
    simp only [inRangeB, Bool.and_eq_true, decide_eq_true_eq] at h
    simp [toItem, NScript.item, specNS, slotItem, ofInt_nonneg t h.1 h.2]
  | hereafter t =>
    simp only [inRangeB, Bool.and_eq_true, decide_eq_true_eq] at h
    simp [toItem, NScript.item, specNS, slotItem, ofInt_nonneg t h.1 h.2]
theorem items_spec (xs : List NScript) (h : inRangeBs xs = true) : NScript.items xs = specNSs xs := by
  cases xs with
  | nil => rfl
  | cons x xs =>
    simp only [inRangeBs, Bool.and_eq_true] at h
    have h1 := toItem_spec x h.1
    simp only [toItem] at h1
    simp [NScript.items, specNSs, h1, items_spec xs h.2]
end

open Pyc.Spec.NativeScript in
theorem all_match_list (f : Nat) (ih : ∀ i, matchNS f i = true → ∃ s, fromItem f i = .ok s ∧ toItem s = i)
    (ys : List Item) (h : ys.all (matchNS f) = true) :
    ∃ ss, mapRes (fromItem f) ys = .ok ss ∧ NScript.items ss = ys := by
  induction ys with
  | nil => exact ⟨[], rfl, rfl⟩
  | cons y ys ihy =>
    simp only [List.all_cons, Bool.and_eq_true] at h
    obtain ⟨s, h1, h2⟩ := ih y h.1
    obtain ⟨ss, h3, h4⟩ := ihy h.2
    simp only [toItem] at h2
    exact ⟨s :: ss, by simp [mapRes, h1, h3], by simp [NScript.items, h2, h4]⟩

open Pyc.Spec.NativeScript in
theorem isInt64_int (n : Item) (h : isInt64 n = true) : ∃ k : Int, decInt n = .ok k ∧ ofInt k = n := by
  cases n with
  | uint m =>
    simp only [isInt64, decide_eq_true_eq] at h
    refine ⟨(m : Int), by simp [decInt, itemInt?], ?_⟩
    rw [ofInt_nonneg (m : Int) (by omega) (by omega)]; simp
  | nint m =>
    simp only [isInt64, decide_eq_true_eq] at h
    refine ⟨-1 - (m : Int), by simp [decInt, itemInt?], ?_⟩
    rw [ofInt_neg (-1 - (m : Int)) (by omega) (by omega)]
    have : (-1 - (-1 - (m : Int))) = (m : Int) := by omega
    simp [this]
  | _ => simp [isInt64] at h

open Pyc.Spec.NativeScript in
/-- every item the CDDL rule `native_script` admits is accepted by the decoder, and the script it returns is written
back as that very item -/
theorem matchNS_accepts (f : Nat) (i : Item) (h : matchNS f i = true) : ∃ s, fromItem f i = .ok s ∧ toItem s = i := by
  induction f generalizing i with
  | zero => simp [matchNS] at h
  | succ f ih =>
    cases i with
    | array xs =>
      cases xs with
      | nil => simp [matchNS] at h
      | cons c rest =>
        cases c with
        | uint c =>
          simp only [matchNS] at h
          split at h
          · rename_i hc; subst hc
            split at h
            · rename_i k
              simp only [beq_iff_eq] at h
              exact ⟨.pubkey k, by simp [fromItem, typeCode_uint, decPubkey, decKeyHash, decCBytes, h, Res.bind], rfl⟩
            · cases h
          · split at h
            · rename_i hc
              split at h
              · rename_i ys
                obtain ⟨ss, h3, h4⟩ := all_match_list f ih ys h
                rcases hc with rfl | rfl
                · exact ⟨.all ss, by simp [fromItem, typeCode_uint, childItems, Res.bind, h3],
                    by simp [toItem, NScript.item, h4]⟩
                · exact ⟨.any ss, by simp [fromItem, typeCode_uint, childItems, Res.bind, h3],
                    by simp [toItem, NScript.item, h4]⟩
              · cases h
            · split at h
              · rename_i hc; subst hc
                split at h
                · rename_i n ys
                  simp only [Bool.and_eq_true] at h
                  obtain ⟨ss, h3, h4⟩ := all_match_list f ih ys h.2
                  obtain ⟨k, hk1, hk2⟩ := isInt64_int n h.1
                  exact ⟨.nofk k ss, by simp [fromItem, typeCode_uint, childItems, Res.bind, h3, hk1],
                    by simp [toItem, NScript.item, h4, hk2]⟩
                · cases h
              · split at h
                · rename_i hc
                  split at h
                  · rename_i t
                    simp only [decide_eq_true_eq] at h
                    have ht : ofInt (t : Int) = .uint t := by
                      rw [ofInt_nonneg (t : Int) (by omega) (by omega)]; simp
                    rcases hc with rfl | rfl
                    · exact ⟨.before (t : Int), by simp [fromItem, typeCode_uint, decSlot, decInt, itemInt?, Res.bind],
                        by simp [toItem, NScript.item, ht]⟩
                    · exact ⟨.hereafter (t : Int), by simp [fromItem, typeCode_uint, decSlot, decInt, itemInt?, Res.bind],
                        by simp [toItem, NScript.item, ht]⟩
                  · cases h
                · cases h
        | _ => simp [matchNS] at h
    | _ => simp [matchNS] at h

open Pyc.Spec.NativeScript in
theorem isInt64_item (n : Int) (h0 : -(2^63 : Int) ≤ n) (h1 : n < 2^63) : isInt64 (int64Item n) = true := by
  unfold int64Item
  by_cases h : 0 ≤ n
  · simp only [h, if_true, isInt64, decide_eq_true_eq]; omega
  · simp only [h, if_false, isInt64, decide_eq_true_eq]; omega

open Pyc.Spec.NativeScript in
mutual
/-- the item the CDDL prescribes for a script within the ranges is recognised as a `native_script` -/
theorem matchNS_spec (s : NScript) (h : inRangeB s = true) (f : Nat) (hf : depth s ≤ f) : matchNS f (specNS s) = true := by
  cases f with
  | zero => cases s <;> simp [depth] at hf
  | succ f =>
    cases s with
    | pubkey k =>
      simp only [inRangeB] at h
      simp [specNS, matchNS, h]
    | all xs =>
      simp only [inRangeB, Bool.and_eq_true] at h
      simp only [depth] at hf
      simp [specNS, matchNS, matchNS_specs xs h.2 f (by omega)]
    | any xs =>
      simp only [inRangeB, Bool.and_eq_true] at h
      simp only [depth] at hf
      simp [specNS, matchNS, matchNS_specs xs h.2 f (by omega)]
    | nofk n xs =>
      simp only [inRangeB, Bool.and_eq_true, decide_eq_true_eq] at h
      simp only [depth] at hf
      simp [specNS, matchNS, matchNS_specs xs h.2 f (by omega), isInt64_item n h.1.1.1 h.1.1.2]
    | before t =>
      simp only [inRangeB, Bool.and_eq_true, decide_eq_true_eq] at h
      simp only [specNS, matchNS, slotItem]
      simp; omega
    | hereafter t =>
      simp only [inRangeB, Bool.and_eq_true, decide_eq_true_eq] at h
      simp only [specNS, matchNS, slotItem]
      simp; omega
theorem matchNS_specs (xs : List NScript) (h : inRangeBs xs = true) (f : Nat) (hf : depths xs ≤ f) :
    (specNSs xs).all (matchNS f) = true := by
  cases xs with
  | nil => rfl
  | cons x xs =>
    simp only [inRangeBs, Bool.and_eq_true] at h
    simp only [depths] at hf
    simp [specNSs, matchNS_spec x h.1 f (by omega), matchNS_specs xs h.2 f (by omega)]
end

/-! ## the JSON route -/

theorem hexByte_hexNib : ∀ n, n < 16 → hexByte (hexNib n) = some n := by decide

theorem uint8_split (b : UInt8) : UInt8.ofNat (b.toNat / 16 * 16 + b.toNat % 16) = b := by
  have : b.toNat / 16 * 16 + b.toNat % 16 = b.toNat := by omega
  rw [this]; simp

theorem hexOfText_hexAscii (b : Bytes) : hexOfText (hexAscii b) = some b := by
  induction b with
  | nil => rfl
  | cons x xs ih =>
    have hx : x.toNat < 256 := x.toNat_lt
    have h1 := hexByte_hexNib (x.toNat / 16) (by omega)
    have h2 := hexByte_hexNib (x.toNat % 16) (by omega)
    simp only [hexAscii, hexOfText, h1, h2, ih, uint8_split]

-- `from_primitive` of the primitive the JSON route builds
mutual
theorem fromItem_primJ (s : NScript) (hw : wfB s = true) (fuel : Nat) (hf : depth s ≤ fuel) :
    fromItem fuel (primJ s) = .ok s := by
  cases fuel with
  | zero => cases s <;> simp [depth] at hf
  | succ f =>
    cases s with
    | pubkey h =>
      simp only [wfB, beq_iff_eq] at hw
      simp [primJ, fromItem, typeCode_uint, decPubkey, decKeyHash, decCBytes, hexOfText_hexAscii, hw, Res.bind]
    | all xs =>
      simp only [wfB] at hw
      simp only [depth] at hf
      simp [primJ, fromItem, typeCode_uint, childItems, Res.bind, fromList_primJs xs hw f (by omega)]
    | any xs =>
      simp only [wfB] at hw
      simp only [depth] at hf
      simp [primJ, fromItem, typeCode_uint, childItems, Res.bind, fromList_primJs xs hw f (by omega)]
    | nofk n xs =>
      simp only [wfB] at hw
      simp only [depth] at hf
      simp [primJ, fromItem, typeCode_uint, childItems, Res.bind, decInt_ofInt, fromList_primJs xs hw f (by omega)]
    | before t =>
      simp [primJ, fromItem, typeCode_uint, decSlot, Res.bind, decInt_ofInt]
    | hereafter t =>
      simp [primJ, fromItem, typeCode_uint, decSlot, Res.bind, decInt_ofInt]
theorem fromList_primJs (xs : List NScript) (hw : wfBs xs = true) (f : Nat) (hd : depths xs ≤ f) :
    mapRes (fromItem f) (primJs xs) = .ok xs := by
  cases xs with
  | nil => rfl
  | cons x xs =>
    simp only [wfBs, Bool.and_eq_true] at hw
    simp only [depths] at hd
    simp [primJs, mapRes, fromItem_primJ x hw.1 f (by omega), fromList_primJs xs hw.2 f (by omega)]
end

-- `_script_json_to_primitive (to_dict s)`
mutual
theorem jsonPrim_toDict (s : NScript) (fuel : Nat) (hf : depth s ≤ fuel) : jsonPrim fuel (toDict s) = .ok (primJ s) := by
  cases fuel with
  | zero => cases s <;> simp [depth] at hf
  | succ f =>
    cases s with
    | pubkey h =>
      simp [toDict, jsonPrim, lookupKey, tagCode, tSig, mapRes, rawItem, Res.bind, primJ]
    | all xs =>
      simp only [depth] at hf
      simp [toDict, jsonPrim, lookupKey, tagCode, tSig, tAll, mapRes, Res.bind, primJ, jsonPrims_toDicts xs f (by omega)]
    | any xs =>
      simp only [depth] at hf
      simp [toDict, jsonPrim, lookupKey, tagCode, tSig, tAll, tAny, mapRes, Res.bind, primJ,
        jsonPrims_toDicts xs f (by omega)]
    | nofk n xs =>
      simp only [depth] at hf
      simp [toDict, jsonPrim, lookupKey, tagCode, tSig, tAll, tAny, tAtLeast, mapRes, rawItem, Res.bind, primJ,
        jsonPrims_toDicts xs f (by omega)]
    | before t =>
      simp [toDict, jsonPrim, lookupKey, tagCode, tSig, tAll, tAny, tAtLeast, tAfter, mapRes, rawItem, Res.bind, primJ]
    | hereafter t =>
      simp [toDict, jsonPrim, lookupKey, tagCode, tSig, tAll, tAny, tAtLeast, tAfter, tBefore, mapRes, rawItem, Res.bind,
        primJ]
theorem jsonPrims_toDicts (xs : List NScript) (f : Nat) (hd : depths xs ≤ f) :
    mapRes (jsonPrim f) (toDicts xs) = .ok (primJs xs) := by
  cases xs with
  | nil => rfl
  | cons x xs =>
    simp only [depths] at hd
    simp [toDicts, primJs, mapRes, jsonPrim_toDict x f (by omega), jsonPrims_toDicts xs f (by omega)]
end

/-- **`from_dict (to_dict s) = s`** -/
theorem fromDict_toDict (s : NScript) (hw : wfB s = true) (fuel : Nat) (hf : depth s ≤ fuel) :
    fromDict fuel (toDict s) = .ok s := by
  simp [fromDict, jsonPrim_toDict s fuel hf, Res.bind, fromItem_primJ s hw fuel hf]

open Pyc.Spec.NativeScript in
theorem ofInt_definite (n : Int) : definiteB (ofInt n) = true := by
  unfold ofInt
  split
  · split <;> simp [definiteB]
  · simp only []
    split <;> simp [definiteB]

open Pyc.Spec.NativeScript in
mutual
theorem toItem_definite (s : NScript) : definiteB (toItem s) = true := by
  cases s with
  | pubkey k => simp [toItem, NScript.item, definiteB, definiteBs]
  | all xs => simp [toItem, NScript.item, definiteB, definiteBs, items_definite xs]
  | any xs => simp [toItem, NScript.item, definiteB, definiteBs, items_definite xs]
  | nofk n xs => simp [toItem, NScript.item, definiteB, definiteBs, items_definite xs, ofInt_definite]
  | before t => simp [toItem, NScript.item, definiteB, definiteBs, ofInt_definite]
  | hereafter t => simp [toItem, NScript.item, definiteB, definiteBs, ofInt_definite]
theorem items_definite (xs : List NScript) : definiteBs (NScript.items xs) = true := by
  cases xs with
  | nil => rfl
  | cons x xs =>
    have h1 := toItem_definite x
    simp only [toItem] at h1
    simp [NScript.items, definiteBs, h1, items_definite xs]
end

/-! ## injectivity -/

theorem toItem_injective (s t : NScript) (hs : wfB s = true) (ht : wfB t = true) (h : toItem s = toItem t) : s = t := by
  have h1 := fromItem_toItem s hs (max (depth s) (depth t)) (Nat.le_max_left _ _)
  have h2 := fromItem_toItem t ht (max (depth s) (depth t)) (Nat.le_max_right _ _)
  rw [h, h2] at h1
  injection h1 with h1
  exact h1.symm

theorem toBytes_injective (s t : NScript) (hs : wfB s = true) (ht : wfB t = true)
    (hrs : Cbor.WF (toItem s)) (hrt : Cbor.WF (toItem t)) (h : toBytes s = toBytes t) : s = t :=
  toItem_injective s t hs ht (encode_injective _ _ hrs hrt h)

/-! ## the native-script leaf of the output model -/

/-- a native script as the constructors build it (`VerificationKeyHash` asserts its 28 bytes) -/
abbrev WScript := { s : NScript // wfB s = true }

/-- the real native-script codec as a `Leaf`: `to_primitive` / `NativeScript.from_primitive`, the fuel the depth of the
item (adequate by `fromItem_fuel`).  The decoder returns well-formed scripts only (`fromItem_wf`), so the `else` branch
is never taken (`nsLeaf_dec`). -/
def nsLeaf : Leaf WScript where
  enc x := toItem x.val
  dec i :=
    match fromItem (Cbor.depth i) i with
    | .ok s => if h : wfB s = true then .ok ⟨s, h⟩ else .crash
    | .deser => .deser
    | .crash => .crash

theorem nsLeaf_rt (x : WScript) : nsLeaf.dec (nsLeaf.enc x) = .ok x := by
  have h := fromItem_toItem x.val x.property (Cbor.depth (toItem x.val)) (depth_le_cbor x.val)
  simp only [nsLeaf, h, x.property, dite_true]

theorem nsLeaf_dec (i : Item) :
    (match nsLeaf.dec i with
      | .ok x => Res.ok x.val
      | .deser => .deser
      | .crash => .crash) = fromItem (Cbor.depth i) i := by
  simp only [nsLeaf]
  cases h : fromItem (Cbor.depth i) i with
  | ok s => simp [fromItem_wf _ _ _ h]
  | deser => rfl
  | crash => rfl

end Pyc.NativeScript
