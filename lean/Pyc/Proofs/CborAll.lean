import Pyc.Proofs.Cbor

/-! `decodeAll (encode x) = some x` for every well-formed item: the fuel `decodeAll` derives from the input length
always suffices (each nesting level and each list element costs at least one byte). -/

namespace Pyc.Cbor
open Pyc

theorem head_len_pos (m a : Nat) : 1 ≤ (head m a).length := by
  unfold head
  simp only []
  split
  · simp
  · split
    · simp
    · split
      · simp
      · split <;> simp

theorem encodeChunks_len (cs : List Bytes) : cs.length ≤ (encodeChunks cs).length := by
  induction cs with
  | nil => simp [encodeChunks]
  | cons c cs ih =>
    have := head_len_pos 2 c.length
    simp only [encodeChunks, List.length_append, List.length_cons]
    omega

mutual
theorem depth_le (x : Item) : depth x ≤ 2 * (encode x).length ∧ 1 ≤ (encode x).length := by
  cases x with
  | uint n => have := head_len_pos 0 n; simp only [depth, encode]; omega
  | nint n => have := head_len_pos 1 n; simp only [depth, encode]; omega
  | simple n => have := head_len_pos 7 n; simp only [depth, encode]; omega
  | bytes b => have := head_len_pos 2 b.length; simp only [depth, encode, List.length_append]; omega
  | text b => have := head_len_pos 3 b.length; simp only [depth, encode, List.length_append]; omega
  | bytesChunked cs =>
    have := encodeChunks_len cs
    simp only [depth, encode, List.length_cons, List.length_append, List.length_nil]; omega
  | tag t x =>
    have := head_len_pos 6 t
    have ih := depth_le x
    simp only [depth, encode, List.length_append]; omega
  | array xs =>
    have := head_len_pos 4 xs.length
    have ih := depthList_le xs
    simp only [depth, encode, List.length_append]; omega
  | arrayIndef xs =>
    have ih := depthList_le xs
    simp only [depth, encode, List.length_cons, List.length_append, List.length_nil]; omega
  | map kvs =>
    have := head_len_pos 5 kvs.length
    have ih := depthPairs_le kvs
    simp only [depth, encode, List.length_append]; omega
theorem depthList_le (xs : List Item) : depthList xs ≤ 2 * (encodeList xs).length + 1 := by
  cases xs with
  | nil => simp [depthList, encodeList]
  | cons x xs =>
    have h1 := depth_le x
    have h2 := depthList_le xs
    simp only [depthList, encodeList, List.length_append]; omega
theorem depthPairs_le (kvs : List (Item × Item)) : depthPairs kvs ≤ 2 * (encodePairs kvs).length + 1 := by
  cases kvs with
  | nil => simp [depthPairs, encodePairs]
  | cons p kvs =>
    obtain ⟨k, v⟩ := p
    have h1 := depth_le k
    have h2 := depth_le v
    have h3 := depthPairs_le kvs
    simp only [depthPairs, encodePairs, List.length_append]; omega
end

/-- **CBOR round trip at the byte level**: decoding the encoding of a well-formed item consumes all bytes and
returns the item — definite and indefinite arrays, chunked byte strings, tags and maps keep their framing -/
theorem decodeAll_encode (x : Item) (hw : WF x) : decodeAll (encode x) = some x := by
  unfold decodeAll
  have h := decode_encode x [] (2 * (encode x).length + 2) (by have := depth_le x; omega) hw
  rw [List.append_nil] at h
  rw [h]

end Pyc.Cbor
