import Pyc.Proofs.Value
import Pyc.Model.Builder

/-! Conservation lemmas for the builder's accounting core. -/

set_option linter.unusedSimpArgs false

namespace Pyc.Builder
open Pyc Pyc.Dict

/-- total quantity of asset `(p, n)` over a list of bundles -/
def sumQty (ms : List MultiAsset) (p n : Bytes) : Int := (ms.map (fun m => MultiAsset.qty m p n)).sum

theorem sumQty_append (a b : List MultiAsset) (p n : Bytes) : sumQty (a ++ b) p n = sumQty a p n + sumQty b p n := by
  simp [sumQty, List.sum_append]

theorem qty_nil (p n : Bytes) : MultiAsset.qty [] p n = 0 := by simp [MultiAsset.qty, getD, Asset.qty]

theorem qty_single (pol : Bytes) (t : Asset) (p n : Bytes) :
    MultiAsset.qty [(pol, t)] p n = if pol = p then Asset.qty t n else 0 := by
  unfold MultiAsset.qty
  by_cases h : pol = p
  · simp [getD, h]
  · simp [getD, h, Asset.qty]

theorem wf_single (pol : Bytes) (t : Asset) (h : Dict.WF t) : MultiAsset.WF [(pol, t)] := by
  refine ⟨by simp [Dict.WF, keys], ?_⟩
  intro q hq; simp at hq; subst hq; exact h

theorem asset_qty_single (n : Bytes) (q : Int) (n' : Bytes) : Asset.qty [(n, q)] n' = if n = n' then q else 0 := by
  unfold Asset.qty
  by_cases h : n = n' <;> simp [getD, h]

theorem asset_wf_single (n : Bytes) (q : Int) : Dict.WF [(n, q)] := by simp [Dict.WF, keys]

/-- `flush` moves the buffered assets of one policy into the output, exactly -/
theorem qty_flush (out : Value) (pol : Bytes) (t : Asset) (ho : MultiAsset.WF out.ma) (ht : Dict.WF t) (p n : Bytes) :
    MultiAsset.qty (flush out pol t).ma p n = MultiAsset.qty out.ma p n + (if pol = p then Asset.qty t n else 0) := by
  unfold flush Value.add
  simp only
  have h1 : MultiAsset.WF (MultiAsset.add [] [(pol, t)]) := MultiAsset.wf_add _ _ MultiAsset.wf_nil
  rw [MultiAsset.qty_add _ _ _ _ ho h1, MultiAsset.qty_add _ _ _ _ MultiAsset.wf_nil (wf_single pol t ht),
    qty_nil, qty_single]
  simp

theorem wf_flush (out : Value) (pol : Bytes) (t : Asset) (ho : MultiAsset.WF out.ma) :
    MultiAsset.WF (flush out pol t).ma := MultiAsset.wf_add _ _ ho

/-- accounting invariant of the packing loops: everything seen so far is in `arr`, `out` or the buffer -/
def total (s : PackState) (pol : Bytes) (p n : Bytes) : Int :=
  sumQty s.arr p n + MultiAsset.qty s.out.ma p n + (if pol = p then Asset.qty s.temp n else 0)

def StateWF (s : PackState) : Prop := MultiAsset.WF s.out.ma ∧ Dict.WF s.temp

theorem packAsset_wf (P : Params) (addr : Bytes) (c0 : Int) (pol : Bytes) (s : PackState) (a : Bytes × Int) (h : StateWF s) :
    StateWF (packAsset P addr c0 pol s a) := by
  unfold packAsset
  by_cases ho : overflow P addr s.out s.temp pol a.1 a.2 = true
  · simp only [ho, if_true]
    exact ⟨MultiAsset.wf_nil, Asset.wf_add _ _ Dict.wf_nil⟩
  · have ho' : overflow P addr s.out s.temp pol a.1 a.2 = false := by simpa using ho
    simp only [ho', Bool.false_eq_true, if_false]
    exact ⟨h.1, Asset.wf_add _ _ h.2⟩

theorem packAsset_total (P : Params) (addr : Bytes) (c0 : Int) (pol : Bytes) (s : PackState) (a : Bytes × Int) (h : StateWF s) (p n : Bytes) :
    total (packAsset P addr c0 pol s a) pol p n = total s pol p n + (if pol = p ∧ a.1 = n then a.2 else 0) := by
  obtain ⟨an, aq⟩ := a
  unfold packAsset total
  by_cases ho : overflow P addr s.out s.temp pol an aq = true
  · simp only [ho, if_true]
    rw [sumQty_append]
    have hq : Asset.qty (Asset.add [] [(an, aq)]) n = if an = n then aq else 0 := by
      rw [Asset.qty_add _ _ _ Dict.wf_nil (asset_wf_single an aq), asset_qty_single]
      simp [Asset.qty, getD]
    rw [hq]
    simp only [sumQty, List.map_cons, List.map_nil, List.sum_cons, List.sum_nil, qty_nil]
    by_cases ht : s.temp.isEmpty = true
    · have : s.temp = [] := by simpa using ht
      simp only [ht, if_true, this]
      by_cases hp : pol = p <;> by_cases hn : an = n <;> simp [hp, hn, Asset.qty, getD]
    · have ht' : s.temp.isEmpty = false := by simpa using ht
      simp only [ht', Bool.false_eq_true, if_false]
      rw [qty_flush _ _ _ h.1 h.2]
      by_cases hp : pol = p <;> by_cases hn : an = n <;> simp [hp, hn] <;> omega
  · have ho' : overflow P addr s.out s.temp pol an aq = false := by simpa using ho
    simp only [ho', Bool.false_eq_true, if_false]
    rw [Asset.qty_add _ _ _ h.2 (asset_wf_single an aq), asset_qty_single]
    by_cases hp : pol = p <;> by_cases hn : an = n <;> simp [hp, hn] <;> omega

theorem foldl_packAsset (P : Params) (addr : Bytes) (c0 : Int) (pol : Bytes) (assets : Asset) (s : PackState) (h : StateWF s) (p n : Bytes) :
    StateWF (assets.foldl (packAsset P addr c0 pol) s) ∧
    total (assets.foldl (packAsset P addr c0 pol) s) pol p n
      = total s pol p n + (assets.map (fun a => if pol = p ∧ a.1 = n then a.2 else 0)).sum := by
  induction assets generalizing s with
  | nil => simp [h]
  | cons a r ih =>
    simp only [List.foldl_cons, List.map_cons, List.sum_cons]
    have := ih (packAsset P addr c0 pol s a) (packAsset_wf P addr c0 pol s a h)
    refine ⟨this.1, ?_⟩
    rw [this.2, packAsset_total P addr c0 pol s a h]
    omega

/-- for a dict with unique names, summing the matching entries is the lookup -/
theorem sum_match_eq_qty (assets : Asset) (hw : Dict.WF assets) (n : Bytes) :
    (assets.map (fun a => if a.1 = n then a.2 else 0)).sum = Asset.qty assets n := by
  induction assets with
  | nil => simp [Asset.qty, getD]
  | cons a r ih =>
    obtain ⟨k, v⟩ := a
    have hr := wf_tail hw
    have hh : has r k = false := wf_head hw
    simp only [List.map_cons, List.sum_cons, ih hr]
    unfold Asset.qty
    by_cases hk : k = n
    · subst hk
      simp [getD, has_false_getD _ _ _ hh]
    · simp [getD, hk]

theorem sum_match_pol (assets : Asset) (hw : Dict.WF assets) (pol p n : Bytes) :
    (assets.map (fun a => if pol = p ∧ a.1 = n then a.2 else 0)).sum = if pol = p then Asset.qty assets n else 0 := by
  by_cases hp : pol = p
  · simp only [hp, true_and, if_true]; exact sum_match_eq_qty assets hw n
  · simp only [hp, false_and, if_false]
    clear hw
    induction assets with
    | nil => simp
    | cons a r ih => simp [ih]

/-- the packing loop loses and duplicates nothing as long as the `break` is not taken -/
theorem packPolicies_total (P : Params) (addr : Bytes) (c0 : Int) (pols : List (Bytes × Asset)) (s : PackState)
    (hs : MultiAsset.WF s.out.ma) (hp : MultiAsset.WF pols)
    (hnb : (packPolicies P addr c0 pols s).2 = false) (p n : Bytes) :
    MultiAsset.WF (packPolicies P addr c0 pols s).1.out.ma ∧
    sumQty (packPolicies P addr c0 pols s).1.arr p n + MultiAsset.qty (packPolicies P addr c0 pols s).1.out.ma p n
      = sumQty s.arr p n + MultiAsset.qty s.out.ma p n + MultiAsset.qty pols p n := by
  induction pols generalizing s with
  | nil => simp [packPolicies, hs, qty_nil]
  | cons pa rest ih =>
    obtain ⟨pol, assets⟩ := pa
    have hrest : MultiAsset.WF rest := ⟨wf_tail hp.1, fun q hq => hp.2 q (by simp [hq])⟩
    have hass : Dict.WF assets := hp.2 (pol, assets) (by simp)
    have hhead : has rest pol = false := wf_head hp.1
    -- state after the inner loop
    let s0 : PackState := { s with temp := [], old := s.out }
    have hs0 : StateWF s0 := ⟨hs, Dict.wf_nil⟩
    have hf := foldl_packAsset P addr c0 pol assets s0 hs0 p n
    let s1 := assets.foldl (packAsset P addr c0 pol) s0
    have hs1 : StateWF s1 := hf.1
    have ht1 : total s1 pol p n = total s0 pol p n + (if pol = p then Asset.qty assets n else 0) := by
      rw [hf.2, sum_match_pol assets hass]
    simp only [packPolicies] at hnb ⊢
    split at hnb
    · simp at hnb
    · rename_i hsize
      simp only [hsize, if_false] at ⊢
      let s2 : PackState := { s1 with out := flush s1.out pol s1.temp, temp := [] }
      have hw2 : MultiAsset.WF s2.out.ma := wf_flush _ _ _ hs1.1
      have := ih s2 hw2 hrest hnb
      refine ⟨this.1, ?_⟩
      rw [this.2]
      have hq2 : MultiAsset.qty s2.out.ma p n = MultiAsset.qty s1.out.ma p n + (if pol = p then Asset.qty s1.temp n else 0) :=
        qty_flush _ _ _ hs1.1 hs1.2 p n
      rw [hq2]
      have e1 : total s1 pol p n = sumQty s1.arr p n + MultiAsset.qty s1.out.ma p n + (if pol = p then Asset.qty s1.temp n else 0) := rfl
      have e0 : total s0 pol p n = sumQty s.arr p n + MultiAsset.qty s.out.ma p n := by
        simp [total, s0, Asset.qty, getD]
      have hcons : MultiAsset.qty ((pol, assets) :: rest) p n
          = (if pol = p then Asset.qty assets n else 0) + MultiAsset.qty rest p n := by
        unfold MultiAsset.qty
        by_cases hpp : pol = p
        · subst hpp
          simp [getD, has_false_getD _ _ _ hhead, Asset.qty]
        · simp [getD, hpp]
      rw [hcons]
      have : sumQty s2.arr p n = sumQty s1.arr p n := rfl
      rw [this]
      omega

/-- **pack_preserves**: the bundles returned by `_pack_tokens_for_change` add up to the change's assets -/
theorem packTokens_preserves (P : Params) (addr : Bytes) (ch : Value) (hw : MultiAsset.WF ch.ma)
    (hnb : (packTokens P addr ch).2 = false) (p n : Bytes) :
    sumQty (packTokens P addr ch).1 p n = MultiAsset.qty ch.ma p n := by
  unfold packTokens at hnb ⊢
  simp only at hnb ⊢
  have := packPolicies_total P addr ch.coin ch.ma { arr := [], out := ⟨ch.coin, []⟩, temp := [], old := ⟨ch.coin, []⟩ }
    MultiAsset.wf_nil hw hnb p n
  rw [sumQty_append]
  simp only [sumQty, List.map_cons, List.map_nil, List.sum_cons, List.sum_nil, Int.add_zero] at this ⊢
  rw [this.2]
  simp [qty_nil]

end Pyc.Builder

namespace Pyc.Builder
open Pyc Pyc.Dict

def sumCoin (os : List Output) : Int := (os.map (fun o => o.amount.coin)).sum
def sumAsset (os : List Output) (p n : Bytes) : Int := (os.map (fun o => MultiAsset.qty o.amount.ma p n)).sum

theorem changeLoop_sum (P : Params) (addr : Bytes) (r : Bool) (ms : List MultiAsset) (ch : Value) (outs : List Output)
    (h : changeLoop P addr r ms ch = .ok outs) (hne : ms ≠ []) :
    sumCoin outs = ch.coin ∧ ∀ p n, sumAsset outs p n = sumQty ms p n := by
  induction ms generalizing ch outs with
  | nil => exact absurd rfl hne
  | cons m rest ih =>
    simp only [changeLoop] at h
    split at h
    · simp at h
    · cases hrest : rest with
      | nil =>
        subst hrest
        simp [changeLoop] at h
        subst h
        simp [sumCoin, sumAsset, sumQty]
      | cons m2 rest2 =>
        rw [hrest] at h ih
        simp only [List.isEmpty_cons, Bool.false_eq_true, if_false] at h
        split at h
        · simp at h
        · rename_i outs' hloop
          simp only [Except.ok.injEq] at h
          subst h
          have := ih _ _ hloop (by simp)
          constructor
          · simp only [sumCoin, List.map_cons, List.sum_cons] at this ⊢
            rw [this.1]
            simp [Value.sub]
            omega
          · intro p n
            have h2 := this.2 p n
            simp only [sumAsset, sumQty, List.map_cons, List.sum_cons] at h2 ⊢
            rw [h2]

theorem packTokens_ne_nil (P : Params) (addr : Bytes) (ch : Value) : (packTokens P addr ch).1 ≠ [] := by
  simp [packTokens]

theorem sumValues_coin (vs : List Value) (init : Value) :
    (sumValues vs init).coin = init.coin + (vs.map (·.coin)).sum := by
  unfold sumValues
  induction vs generalizing init with
  | nil => simp
  | cons v r ih => simp only [List.foldl_cons, List.map_cons, List.sum_cons]; rw [ih]; simp [Value.add]; omega

theorem sumValues_wf (vs : List Value) (init : Value) (hi : MultiAsset.WF init.ma) :
    MultiAsset.WF (sumValues vs init).ma := by
  unfold sumValues
  induction vs generalizing init with
  | nil => simpa
  | cons v r ih => simp only [List.foldl_cons]; exact ih _ (MultiAsset.wf_add _ _ hi)

theorem sumValues_qty (vs : List Value) (init : Value) (hi : MultiAsset.WF init.ma)
    (hv : ∀ v ∈ vs, MultiAsset.WF v.ma) (p n : Bytes) :
    MultiAsset.qty (sumValues vs init).ma p n
      = MultiAsset.qty init.ma p n + (vs.map (fun v => MultiAsset.qty v.ma p n)).sum := by
  unfold sumValues
  induction vs generalizing init with
  | nil => simp
  | cons v r ih =>
    simp only [List.foldl_cons, List.map_cons, List.sum_cons]
    rw [ih _ (MultiAsset.wf_add _ _ hi) (fun x hx => hv x (by simp [hx]))]
    simp only [Value.add]
    rw [MultiAsset.qty_add _ _ _ _ hi (hv v (by simp))]
    omega

/-- operands of the accounting are legal dicts -/
def ArgsWF (a : ChangeArgs) : Prop :=
  (∀ v ∈ a.inputs, MultiAsset.WF v.ma) ∧ (∀ v ∈ a.outputs, MultiAsset.WF v.ma) ∧ MultiAsset.WF a.mint

theorem provided_wf (a : ChangeArgs) (h : ArgsWF a) : MultiAsset.WF (provided a).ma := by
  unfold provided
  have h0 := sumValues_wf a.inputs ⟨0, []⟩ MultiAsset.wf_nil
  by_cases hm : a.mint.isEmpty = true
  · simp only [hm, if_true]; exact h0
  · have hm' : a.mint.isEmpty = false := by simpa using hm
    simp only [hm', Bool.false_eq_true, if_false]; exact MultiAsset.wf_add _ _ h0

theorem requested_wf (a : ChangeArgs) : MultiAsset.WF (requested a).ma :=
  sumValues_wf a.outputs ⟨a.fee, []⟩ MultiAsset.wf_nil

theorem provided_coin (a : ChangeArgs) :
    (provided a).coin = (a.inputs.map (·.coin)).sum + a.withdrawals.sum - a.deposits := by
  unfold provided
  by_cases hm : a.mint.isEmpty = true
  · simp only [hm, if_true]; rw [sumValues_coin]; simp
  · have hm' : a.mint.isEmpty = false := by simpa using hm
    simp only [hm', Bool.false_eq_true, if_false]; rw [sumValues_coin]; simp

theorem provided_qty (a : ChangeArgs) (h : ArgsWF a) (p n : Bytes) :
    MultiAsset.qty (provided a).ma p n
      = (a.inputs.map (fun v => MultiAsset.qty v.ma p n)).sum + MultiAsset.qty a.mint p n := by
  unfold provided
  have h0 := sumValues_wf a.inputs ⟨0, []⟩ MultiAsset.wf_nil
  have hq := sumValues_qty a.inputs ⟨0, []⟩ MultiAsset.wf_nil h.1 p n
  by_cases hm : a.mint.isEmpty = true
  · have : a.mint = [] := by simpa using hm
    simp only [hm, if_true]; rw [hq, this]; simp [qty_nil]
  · have hm' : a.mint.isEmpty = false := by simpa using hm
    simp only [hm', Bool.false_eq_true, if_false]
    rw [MultiAsset.qty_add _ _ _ _ h0 h.2.2, hq]; simp [qty_nil]

theorem requested_coin (a : ChangeArgs) : (requested a).coin = a.fee + (a.outputs.map (·.coin)).sum := by
  unfold requested; rw [sumValues_coin]

theorem requested_qty (a : ChangeArgs) (h : ArgsWF a) (p n : Bytes) :
    MultiAsset.qty (requested a).ma p n = (a.outputs.map (fun v => MultiAsset.qty v.ma p n)).sum := by
  unfold requested
  rw [sumValues_qty a.outputs ⟨a.fee, []⟩ MultiAsset.wf_nil h.2.1 p n]; simp [qty_nil]

/-- the change value `_calc_change` distributes: `provided − requested` with non-positive asset entries dropped -/
def changeValue (a : ChangeArgs) : Value :=
  if (Value.sub (provided a) (requested a)).ma.isEmpty = true then Value.sub (provided a) (requested a)
  else ⟨(Value.sub (provided a) (requested a)).coin, posFilter (Value.sub (provided a) (requested a)).ma⟩

/-- a result of `_calc_change` passed the guard `requested < provided`; `<` is `<=` and `!=`, and `<=` is the
component-wise order for all operands (`Value.le_iff`): what is requested is covered in ADA and in every asset -/
theorem calcChange_covered (P : Params) (a : ChangeArgs) (cs : List Output) (h : calcChange P a = .ok cs) :
    (requested a).coin ≤ (provided a).coin ∧
    ∀ p n, MultiAsset.qty (requested a).ma p n ≤ MultiAsset.qty (provided a).ma p n := by
  unfold calcChange at h
  simp only at h
  split at h
  · simp at h
  · rename_i hlt
    have hl : Value.lt (requested a) (provided a) = true := by simpa using hlt
    exact ((Value.lt_iff_le_ne _ _).1 hl).1

/-- **calcChange_sum**: the change outputs hold exactly `provided − requested`, for ADA and for every asset -/
theorem calcChange_sum (P : Params) (a : ChangeArgs) (cs : List Output) (h : calcChange P a = .ok cs) (hw : ArgsWF a)
    (hnb : (packTokens P a.addr (changeValue a)).2 = false) :
    sumCoin cs = (provided a).coin - (requested a).coin ∧
    ∀ p n, sumAsset cs p n = MultiAsset.qty (provided a).ma p n - MultiAsset.qty (requested a).ma p n := by
  have hcover := (calcChange_covered P a cs h).2
  have wp := provided_wf a hw
  have wr := requested_wf a
  unfold calcChange at h
  simp only at h
  split at h
  · simp at h
  · -- the change before / after dropping non-positive entries
    unfold changeValue at hnb
    generalize hch0 : Value.sub (provided a) (requested a) = ch0 at h hnb
    have wch0 : MultiAsset.WF ch0.ma := by rw [← hch0]; exact MultiAsset.wf_sub _ _ wp
    have qch0 : ∀ p n, MultiAsset.qty ch0.ma p n
        = MultiAsset.qty (provided a).ma p n - MultiAsset.qty (requested a).ma p n := by
      intro p n; rw [← hch0]; exact MultiAsset.qty_sub _ _ p n wp wr
    have cch0 : ch0.coin = (provided a).coin - (requested a).coin := by rw [← hch0]; rfl
    generalize hch : (if ch0.ma.isEmpty = true then ch0 else ⟨ch0.coin, posFilter ch0.ma⟩ : Value) = ch at h hnb
    have cch : ch.coin = ch0.coin := by rw [← hch]; split <;> rfl
    have wch : MultiAsset.WF ch.ma := by
      rw [← hch]; split
      · exact wch0
      · exact MultiAsset.filter_wf _ _
    have qch : ∀ p n, MultiAsset.qty ch.ma p n = MultiAsset.qty ch0.ma p n := by
      intro p n
      rw [← hch]
      split
      · rfl
      · simp only [posFilter]
        rw [MultiAsset.filter_pos_spec _ wch0]
        have := hcover p n
        have := qch0 p n
        split <;> omega
    split at h
    · rename_i hempty
      have he : ch.ma = [] := by simpa using hempty
      split at h
      · simp at h
      · simp only [Except.ok.injEq] at h
        subst h
        refine ⟨by simp [sumCoin, cch, cch0], ?_⟩
        intro p n
        have := qch p n
        rw [he, qty_nil] at this
        simp [sumAsset, qty_nil, ← qch0 p n, ← this]
    · have := changeLoop_sum P a.addr a.respect _ ch cs h (packTokens_ne_nil P a.addr ch)
      refine ⟨by rw [this.1, cch, cch0], ?_⟩
      intro p n
      rw [this.2 p n, packTokens_preserves P a.addr ch wch hnb p n, qch, qch0]

/-! merging -/

theorem addAt_sum (c : Value) (i : Nat) (outs : List Output) (hi : i < outs.length) (hc : MultiAsset.WF c.ma)
    (ho : ∀ o ∈ outs, MultiAsset.WF o.amount.ma) :
    sumCoin (addAt c i outs) = sumCoin outs + c.coin ∧
    ∀ p n, sumAsset (addAt c i outs) p n = sumAsset outs p n + MultiAsset.qty c.ma p n := by
  induction outs generalizing i with
  | nil => simp at hi
  | cons o r ih =>
    cases i with
    | zero =>
      simp only [addAt, sumCoin, sumAsset, List.map_cons, List.sum_cons]
      refine ⟨by simp [Value.add]; omega, ?_⟩
      intro p n
      simp only [Value.add]
      rw [MultiAsset.qty_add _ _ _ _ hc (ho o (by simp))]
      omega
    | succ j =>
      have := ih j (by simpa using hi) (fun x hx => ho x (by simp [hx]))
      simp only [addAt, sumCoin, sumAsset, List.map_cons, List.sum_cons] at this ⊢
      refine ⟨by rw [this.1]; omega, ?_⟩
      intro p n
      rw [this.2 p n]; omega

theorem changeIndex_go_lt (addr : Bytes) (outs : List Output) (i : Nat) (cur : Option Nat) (k : Nat)
    (hcur : ∀ c, cur = some c → c < i) (h : changeIndex.go addr i cur outs = some k) : k < i + outs.length := by
  induction outs generalizing i cur with
  | nil =>
    simp only [changeIndex.go] at h
    have := hcur k h; simpa using this
  | cons o r ih =>
    simp only [changeIndex.go] at h
    split at h
    · have := ih (i + 1) (some i) (by intro c hc; simp at hc; omega) h
      simp; omega
    · have := ih (i + 1) cur (by intro c hc; have := hcur c hc; omega) h
      simp; omega

theorem changeIndex_lt (addr : Bytes) (outs : List Output) (k : Nat) (h : changeIndex addr outs = some k) :
    k < outs.length := by
  have := changeIndex_go_lt addr outs 0 none k (by intro c hc; simp at hc) h
  simpa using this

theorem sumCoin_append (a b : List Output) : sumCoin (a ++ b) = sumCoin a + sumCoin b := by
  simp [sumCoin, List.sum_append]
theorem sumAsset_append (a b : List Output) (p n : Bytes) : sumAsset (a ++ b) p n = sumAsset a p n + sumAsset b p n := by
  simp [sumAsset, List.sum_append]

theorem mergeChanges_sum (outs : List Output) (idx : Option Nat) (cs : List Output)
    (hi : ∀ i, idx = some i → i < outs.length) (hc : ∀ o ∈ cs, MultiAsset.WF o.amount.ma)
    (ho : ∀ o ∈ outs, MultiAsset.WF o.amount.ma) :
    sumCoin (mergeChanges outs idx cs) = sumCoin outs + sumCoin cs ∧
    ∀ p n, sumAsset (mergeChanges outs idx cs) p n = sumAsset outs p n + sumAsset cs p n := by
  unfold mergeChanges
  split
  · rename_i i c
    have := addAt_sum c.amount i outs (hi i rfl) (hc c (by simp)) ho
    refine ⟨by rw [this.1]; simp [sumCoin], ?_⟩
    intro p n; rw [this.2 p n]; simp [sumAsset]
  · exact ⟨sumCoin_append _ _, fun p n => sumAsset_append _ _ p n⟩

end Pyc.Builder

namespace Pyc.Builder
open Pyc Pyc.Dict

def ArrWF (s : PackState) : Prop := ∀ m ∈ s.arr, MultiAsset.WF m

theorem packAsset_arrwf (P : Params) (addr : Bytes) (c0 : Int) (pol : Bytes) (s : PackState) (a : Bytes × Int) (h : StateWF s) (ha : ArrWF s) :
    ArrWF (packAsset P addr c0 pol s a) := by
  unfold packAsset ArrWF
  by_cases ho : overflow P addr s.out s.temp pol a.1 a.2 = true
  · simp only [ho, if_true]
    intro m hm
    simp only [List.mem_append, List.mem_singleton] at hm
    rcases hm with hm | hm
    · exact ha m hm
    · subst hm
      split
      · exact h.1
      · exact wf_flush _ _ _ h.1
  · have ho' : overflow P addr s.out s.temp pol a.1 a.2 = false := by simpa using ho
    simp only [ho', Bool.false_eq_true, if_false]
    exact ha

theorem foldl_packAsset_arrwf (P : Params) (addr : Bytes) (c0 : Int) (pol : Bytes) (assets : Asset) (s : PackState) (h : StateWF s) (ha : ArrWF s) :
    ArrWF (assets.foldl (packAsset P addr c0 pol) s) := by
  induction assets generalizing s with
  | nil => simpa
  | cons a r ih =>
    simp only [List.foldl_cons]
    exact ih _ (packAsset_wf P addr c0 pol s a h) (packAsset_arrwf P addr c0 pol s a h ha)

theorem packPolicies_wf (P : Params) (addr : Bytes) (c0 : Int) (pols : List (Bytes × Asset)) (s : PackState)
    (hs : MultiAsset.WF s.out.ma) (ho : MultiAsset.WF s.old.ma) (ha : ArrWF s) :
    ArrWF (packPolicies P addr c0 pols s).1 ∧ MultiAsset.WF (packPolicies P addr c0 pols s).1.out.ma := by
  induction pols generalizing s with
  | nil => exact ⟨ha, hs⟩
  | cons pa rest ih =>
    obtain ⟨pol, assets⟩ := pa
    let s0 : PackState := { s with temp := [], old := s.out }
    have hs0 : StateWF s0 := ⟨hs, Dict.wf_nil⟩
    have h1 := (foldl_packAsset P addr c0 pol assets s0 hs0 [] []).1
    have a1 := foldl_packAsset_arrwf P addr c0 pol assets s0 hs0 ha
    -- `old` stays well-formed: it is s.out or the empty value
    have hold : ∀ (as : Asset) (t : PackState), MultiAsset.WF t.old.ma →
        MultiAsset.WF (as.foldl (packAsset P addr c0 pol) t).old.ma := by
      intro as
      induction as with
      | nil => intro t ht; simpa
      | cons a r ih2 =>
        intro t ht
        simp only [List.foldl_cons]
        apply ih2
        unfold packAsset
        split
        · exact MultiAsset.wf_nil
        · exact ht
    simp only [packPolicies]
    split
    · exact ⟨a1, hold assets s0 hs⟩
    · exact ih _ (wf_flush _ _ _ h1.1) (hold assets s0 hs) a1

theorem packTokens_wf (P : Params) (addr : Bytes) (ch : Value) :
    ∀ m ∈ (packTokens P addr ch).1, MultiAsset.WF m := by
  have := packPolicies_wf P addr ch.coin ch.ma { arr := [], out := ⟨ch.coin, []⟩, temp := [], old := ⟨ch.coin, []⟩ }
    MultiAsset.wf_nil MultiAsset.wf_nil (by intro m hm; simp at hm)
  intro m hm
  simp only [packTokens, List.mem_append, List.mem_singleton] at hm
  rcases hm with hm | hm
  · exact this.1 m hm
  · subst hm; exact this.2

theorem changeLoop_wf (P : Params) (addr : Bytes) (r : Bool) (ms : List MultiAsset) (ch : Value) (outs : List Output)
    (h : changeLoop P addr r ms ch = .ok outs) (hm : ∀ m ∈ ms, MultiAsset.WF m) :
    ∀ o ∈ outs, MultiAsset.WF o.amount.ma := by
  induction ms generalizing ch outs with
  | nil => simp [changeLoop] at h; subst h; simp
  | cons m rest ih =>
    simp only [changeLoop] at h
    split at h
    · simp at h
    · split at h
      · simp at h
      · rename_i outs' hloop
        simp only [Except.ok.injEq] at h
        subst h
        intro o ho
        simp only [List.mem_cons] at ho
        rcases ho with ho | ho
        · subst ho
          simp only
          split <;> exact hm m (by simp)
        · exact ih _ _ hloop (fun x hx => hm x (by simp [hx])) o ho

theorem calcChange_wf (P : Params) (a : ChangeArgs) (cs : List Output) (h : calcChange P a = .ok cs) :
    ∀ o ∈ cs, MultiAsset.WF o.amount.ma := by
  unfold calcChange at h
  simp only at h
  repeat' (split at h)
  all_goals first
    | (simp at h; done)
    | (simp only [Except.ok.injEq] at h; subst h; intro o ho; simp at ho; subst ho; exact MultiAsset.wf_nil)
    | exact changeLoop_wf P a.addr a.respect _ _ cs h (packTokens_wf P a.addr _)

/-- what `_calc_changes()` returns is a result of `_calc_change` on the final arguments, with the minimum-ADA flag `r`;
`r` is on whenever the change outputs end up as outputs of their own (no merge target, or a split change) -/
theorem finalChanges_calc (P : Params) (outs cs : List Output) (a : ChangeArgs) (mc : Bool)
    (h : finalChanges P outs a mc = .ok cs) :
    ∃ r : Bool, calcChange P (withRespect (finalArgs outs a mc) r) = .ok cs ∧
      (mergeIndex outs a mc = none → r = true) ∧ (cs.length ≠ 1 → r = true) := by
  unfold finalChanges at h
  split at h
  · simp at h
  · rename_i cs0 h0
    split at h
    · rename_i hc
      exact ⟨true, h, fun _ => rfl, fun _ => rfl⟩
    · rename_i hc
      simp only [Except.ok.injEq] at h
      subst h
      simp only [Bool.and_eq_true, bne_iff_ne, ne_eq, not_and, Decidable.not_not] at hc
      refine ⟨(finalArgs outs a mc).respect, by simpa [withRespect] using h0, ?_, ?_⟩
      · intro hn; simp [finalArgs, hn]
      · intro hl
        cases hm : mergeIndex outs a mc with
        | none => simp [finalArgs, hm]
        | some i => exact absurd (hc (by simp [hm])) hl


end Pyc.Builder
