import Pyc.Model.Basic

/-! `isort` is a permutation, sorted for a total transitive order, and commutes with key-preserving maps. -/

namespace Pyc
variable {α β : Type}

theorem insertBy_perm (le : α → α → Bool) (a : α) (l : List α) : (insertBy le a l).Perm (a :: l) := by
  induction l with
  | nil => simp [insertBy]
  | cons b r ih =>
    simp only [insertBy]
    split
    · exact List.Perm.refl _
    · exact (List.Perm.cons b ih).trans (List.Perm.swap a b r)

theorem isort_perm (le : α → α → Bool) (l : List α) : (isort le l).Perm l := by
  induction l with
  | nil => simp [isort]
  | cons a r ih => exact (insertBy_perm le a _).trans (List.Perm.cons a ih)

theorem insertBy_pairwise (le : α → α → Bool) (trans : ∀ a b c, le a b → le b c → le a c)
    (total : ∀ a b, le a b || le b a) (a : α) (l : List α) (h : l.Pairwise (fun x y => le x y = true)) :
    (insertBy le a l).Pairwise (fun x y => le x y = true) := by
  induction l with
  | nil => simp [insertBy]
  | cons b r ih =>
    simp only [insertBy]
    rw [List.pairwise_cons] at h
    split
    · rename_i hab
      rw [List.pairwise_cons]
      refine ⟨?_, List.pairwise_cons.2 h⟩
      intro x hx
      simp only [List.mem_cons] at hx
      rcases hx with rfl | hx
      · exact hab
      · exact trans _ _ _ hab (h.1 x hx)
    · rename_i hab
      have hba : le b a = true := by
        have := total a b
        simp only [Bool.or_eq_true] at this
        rcases this with h1 | h1
        · exact absurd h1 hab
        · exact h1
      rw [List.pairwise_cons]
      refine ⟨?_, ih h.2⟩
      intro x hx
      have := (insertBy_perm le a r).subset hx
      simp only [List.mem_cons] at this
      rcases this with rfl | hx'
      · exact hba
      · exact h.1 x hx'

theorem isort_pairwise (le : α → α → Bool) (trans : ∀ a b c, le a b → le b c → le a c)
    (total : ∀ a b, le a b || le b a) (l : List α) : (isort le l).Pairwise (fun x y => le x y = true) := by
  induction l with
  | nil => simp [isort]
  | cons a r ih => exact insertBy_pairwise le trans total a _ ih

theorem map_insertBy (r : α → α → Bool) (s : β → β → Bool) (f : α → β) (h : ∀ a b, r a b = s (f a) (f b))
    (a : α) (l : List α) : (insertBy r a l).map f = insertBy s (f a) (l.map f) := by
  induction l with
  | nil => simp [insertBy]
  | cons b t ih =>
    simp only [insertBy, List.map_cons, ← h a b]
    split
    · simp
    · simp [ih]

theorem map_isort (r : α → α → Bool) (s : β → β → Bool) (f : α → β) (h : ∀ a b, r a b = s (f a) (f b))
    (l : List α) : (isort r l).map f = isort s (l.map f) := by
  induction l with
  | nil => simp [isort]
  | cons a t ih => simp only [isort, List.map_cons]; rw [map_insertBy r s f h, ih]

theorem mem_isort (le : α → α → Bool) (a : α) (l : List α) : a ∈ isort le l ↔ a ∈ l :=
  (isort_perm le l).mem_iff

theorem length_isort (le : α → α → Bool) (l : List α) : (isort le l).length = l.length :=
  (isort_perm le l).length_eq

end Pyc
