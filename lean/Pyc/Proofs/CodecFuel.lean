import Pyc.Model.Codec

/-! Fuel monotonicity of the typed restoration: running out of fuel is the only way the fuel parameter influences a
result, and it surfaces as `.crash` (which every caller propagates).  So a result other than `.crash` is the result
for every larger fuel.  This turns one evaluation `fromPrim S n t i = .deser` into the statement "for all sufficiently
large fuel" that the typing rule of ordered unions asks for. -/

namespace Pyc.Codec
open Pyc Pyc.Cbor Pyc.Schema

/-- `r'` refines `r`: equal unless `r` ran out of fuel -/
def Res.le {α : Type} (r r' : Res α) : Prop := r = .crash ∨ r = r'

theorem fuel_step (S : List ClassDef) : ∀ n,
    (∀ t i, Res.le (fromPrim S n t i) (fromPrim S (n+1) t i)) ∧
    (∀ t xs, Res.le (fromPrimList S n t xs) (fromPrimList S (n+1) t xs)) ∧
    (∀ ts xs, Res.le (fromTuple S n ts xs) (fromTuple S (n+1) ts xs)) ∧
    (∀ kt vt kvs, Res.le (fromPairs S n kt vt kvs) (fromPairs S (n+1) kt vt kvs)) ∧
    (∀ ts i, Res.le (fromUnion S n ts i) (fromUnion S (n+1) ts i)) ∧
    (∀ fs xs, Res.le (fromArr S n fs xs) (fromArr S (n+1) fs xs)) ∧
    (∀ fs kvs, Res.le (fromMap S n fs kvs) (fromMap S (n+1) fs kvs)) := by
  intro n
  induction n with
  | zero =>
    refine ⟨?_, ?_, ?_, ?_, ?_, ?_, ?_⟩ <;> intros <;> left <;> simp [fromPrim, fromPrimList, fromTuple, fromPairs, fromUnion, fromArr, fromMap]
  | succ n ih =>
    obtain ⟨i1, i2, i3, i4, i5, i6, i7⟩ := ih
    refine ⟨?_, ?_, ?_, ?_, ?_, ?_, ?_⟩
    · intro t i
      cases t with
      | any => right; simp [fromPrim]
      | int => right; simp [fromPrim]
      | bool => right; cases i <;> simp [fromPrim]
      | bytes => right; cases i <;> simp [fromPrim]
      | text => right; cases i <;> simp [fromPrim]
      | none => right; cases i <;> simp [fromPrim]
      | named s => right; simp [fromPrim]
      | frac =>
        right
        cases i with
        | tag tg x =>
          cases x with
          | array xs =>
            match xs with
            | [] => simp [fromPrim]
            | [_] => simp [fromPrim]
            | [_, _] => simp [fromPrim]
            | _ :: _ :: _ :: _ => simp [fromPrim]
          | _ => simp [fromPrim]
        | _ => simp [fromPrim]
      | dict a b => right; simp [fromPrim]
      | list a =>
        simp only [fromPrim]
        cases hl : listElems? i with
        | none => right; rfl
        | some xs => have b := i2 a xs; unfold Res.le at *; grind
      | oset a ne =>
        simp only [fromPrim]
        cases i with
        | tag tg inner =>
          simp only []
          by_cases h : tg = 258
          · simp only [h, if_true]
            cases hl : listElems? inner with
            | none => right; rfl
            | some xs => have b := i2 a xs; unfold Res.le at *; grind
          · simp only [h, if_false]; right; trivial
        | array xs => simp only [listElems?]; have b := i2 a xs; unfold Res.le at *; grind
        | arrayIndef xs => simp only [listElems?]; have b := i2 a xs; unfold Res.le at *; grind
        | _ => right; rfl
      | tuple ts =>
        simp only [fromPrim]
        cases hl : listElems? i with
        | none => right; rfl
        | some xs => have b := i3 ts xs; unfold Res.le at *; grind
      | union ts => have b := i5 ts i; unfold Res.le at *; simp only [fromPrim]; exact b
      | cls c =>
        simp only [fromPrim]
        cases hl : lookup S c with
        | none => right; rfl
        | some cd =>
          simp only []
          split
          · right; rfl
          · cases hk : cd.kind with
            | custom => right; rfl
            | oset => right; rfl
            | cbytes mn mx => right; rfl
            | «enum» vals => right; rfl
            | dict kt vt =>
              simp only []
              cases i with
              | map kvs =>
                simp only []
                rcases i4 kt vt kvs with hb | hb
                · left; simp only [hb]
                · right; simp only [hb]
              | _ => right; rfl
            | array =>
              simp only []
              cases hle : listElems? i with
              | none => right; rfl
              | some xs =>
                simp only []
                rcases i6 (wireFields cd) xs with hb | hb
                · left; simp only [hb]
                · right; simp only [hb]
            | coded k =>
              simp only []
              cases i with
              | array xs =>
                cases xs with
                | nil => right; rfl
                | cons c0 xs =>
                  simp only []
                  split
                  · rcases i6 (wireFields cd) xs with hb | hb
                    · left; simp only [hb]
                    · right; simp only [hb]
                  · right; rfl
              | _ => right; rfl
            | map =>
              simp only []
              cases i with
              | map kvs =>
                simp only []
                split
                · rcases i7 (wireFields cd) kvs with hb | hb
                  · left; simp only [hb]
                  · right; simp only [hb]
                · right; rfl
              | _ => right; rfl
    · intro t xs
      cases xs with
      | nil => right; simp [fromPrimList]
      | cons x xs =>
        have a := i1 t x
        have b := i2 t xs
        unfold Res.le at *
        simp only [fromPrimList]
        grind
    · intro ts xs
      cases ts with
      | nil => right; simp [fromTuple]
      | cons t ts =>
        cases xs with
        | nil => right; simp [fromTuple]
        | cons x xs =>
          have a := i1 t x
          have b := i3 ts xs
          unfold Res.le at *
          simp only [fromTuple]
          grind
    · intro kt vt kvs
      cases kvs with
      | nil => right; simp [fromPairs]
      | cons p r =>
        obtain ⟨k, v⟩ := p
        have a := i1 kt k
        have b := i1 vt v
        have c := i4 kt vt r
        unfold Res.le at *
        simp only [fromPairs]
        grind
    · intro ts i
      cases ts with
      | nil => right; simp [fromUnion]
      | cons t ts =>
        have a := i1 t i
        have b := i5 ts i
        unfold Res.le at *
        simp only [fromUnion]
        grind
    · intro fs xs
      cases fs with
      | nil => right; simp [fromArr]
      | cons f fs =>
        cases xs with
        | nil =>
          have b := i6 fs []
          unfold Res.le at *
          simp only [fromArr]
          grind
        | cons x xs =>
          have a := i1 f.ty x
          have b := i6 fs xs
          unfold Res.le at *
          simp only [fromArr]
          grind
    · intro fs kvs
      cases fs with
      | nil => right; simp [fromMap]
      | cons f fs =>
        have b := i7 fs kvs
        unfold Res.le at *
        simp only [fromMap]
        cases hl : lookupItemKey (keyItem f.key) kvs with
        | none => grind
        | some x => have a := i1 f.ty x; grind

/-- a result other than `.crash` persists for every larger fuel -/
theorem fromPrim_mono (S : List ClassDef) (t : Ty) (i : Item) (n m : Nat) (r : Res Val)
    (h : fromPrim S n t i = r) (hr : r ≠ .crash) (hm : n ≤ m) : fromPrim S m t i = r := by
  induction m with
  | zero =>
    have : n = 0 := by omega
    subst this; exact h
  | succ m ih =>
    by_cases hnm : n = m + 1
    · subst hnm; exact h
    · have hm' := ih (by omega)
      rcases (fuel_step S m).1 t i with hc | he
      · rw [hm'] at hc; exact absurd hc hr
      · rw [← he]; exact hm'

/-- one evaluation that ends in `DeserializeException` settles it for all larger fuel -/
theorem deser_stable (S : List ClassDef) (t : Ty) (i : Item) (n : Nat) (h : fromPrim S n t i = .deser) :
    ∃ N, ∀ fuel, N ≤ fuel → fromPrim S fuel t i = .deser :=
  ⟨n, fun m hm => fromPrim_mono S t i n m .deser h (by simp) hm⟩

/-- … and so does one successful evaluation -/
theorem ok_stable (S : List ClassDef) (t : Ty) (i : Item) (n : Nat) (v : Val) (h : fromPrim S n t i = .ok v) :
    ∃ N, ∀ fuel, N ≤ fuel → fromPrim S fuel t i = .ok v :=
  ⟨n, fun m hm => fromPrim_mono S t i n m (.ok v) h (by simp) hm⟩

end Pyc.Codec
