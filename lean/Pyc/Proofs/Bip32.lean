import Pyc.Model.Bip32
import Pyc.Spec.Bip32Ed25519

/-! # Lemmas for C16 (HD wallet derivation): little-endian arithmetic, `_tweak_bits`, refinement of the byte-level
model of bip32.py to the integer-level BIP32-Ed25519 / CIP-3 specification, public/private agreement, path
invariants, path strings, extended signatures, and a toy instance of the primitives (non-vacuity).

Core Lean only (no Mathlib needed).  Hypotheses about the primitives are the structures `HashLen` and `GroupLaws`,
always passed explicitly. -/

namespace Pyc.Bip32
open Pyc

theorem toNat_ofNat_mod (n : Nat) : (UInt8.ofNat (n % 256)).toNat = n % 256 := by
  have : n % 256 < 256 := Nat.mod_lt _ (by decide)
  simp [UInt8.toNat_ofNat', Nat.mod_eq_of_lt this]

theorem length_leBytes (k n : Nat) : (leBytes k n).length = k := by
  induction k generalizing n with
  | zero => rfl
  | succ k ih => simp [leBytes, ih]

theorem fromLE_lt (b : Bytes) : fromLE b < 256 ^ b.length := by
  induction b with
  | nil => simp [fromLE]
  | cons x xs ih =>
    have := x.toNat_lt
    simp only [fromLE, List.length_cons, Nat.pow_succ]
    omega

theorem fromLE_leBytes (k n : Nat) : fromLE (leBytes k n) = n % 256 ^ k := by
  induction k generalizing n with
  | zero => simp [leBytes, fromLE, Nat.mod_one]
  | succ k ih =>
    simp only [leBytes, fromLE, ih, toNat_ofNat_mod]
    rw [Nat.pow_succ, Nat.mul_comm (256 ^ k) 256, Nat.mod_mul]

theorem leBytes_fromLE (b : Bytes) : leBytes b.length (fromLE b) = b := by
  induction b with
  | nil => rfl
  | cons x xs ih =>
    have := x.toNat_lt
    simp only [List.length_cons, leBytes, fromLE]
    have h1 : (x.toNat + 256 * fromLE xs) % 256 = x.toNat := by omega
    have h2 : (x.toNat + 256 * fromLE xs) / 256 = fromLE xs := by omega
    rw [h1, h2, ih]; simp

theorem fromLE_append (a b : Bytes) : fromLE (a ++ b) = fromLE a + 256 ^ a.length * fromLE b := by
  induction a with
  | nil => simp [fromLE]
  | cons x xs ih =>
    simp only [List.cons_append, fromLE, ih, List.length_cons, Nat.pow_succ]
    rw [Nat.mul_add, Nat.mul_comm (256 ^ xs.length) 256, Nat.mul_assoc]; omega

/-- replacing byte `i` changes the little-endian value by the difference of the bytes times `256^i` -/
theorem fromLE_set (l : Bytes) (i : Nat) (v : UInt8) (h : i < l.length) :
    fromLE (l.set i v) + (l.getD i 0).toNat * 256 ^ i = fromLE l + v.toNat * 256 ^ i := by
  induction l generalizing i with
  | nil => simp at h
  | cons x xs ih =>
    cases i with
    | zero => simp [fromLE]; omega
    | succ i =>
      have := ih i (by simpa using h)
      simp only [List.set_cons_succ, fromLE, List.getD_cons_succ, Nat.pow_succ]
      generalize 256 ^ i = p at *
      generalize fromLE (xs.set i v) = a at *
      generalize fromLE xs = b at *
      generalize (xs.getD i 0).toNat = c at *
      generalize v.toNat = d at *
      have e1 : c * (p * 256) = 256 * (c * p) := by ac_rfl
      have e2 : d * (p * 256) = 256 * (d * p) := by ac_rfl
      rw [e1, e2]; omega

theorem isZeroBytes_iff (b : Bytes) : isZeroBytes b = true ↔ fromLE b = 0 := by
  induction b with
  | nil => simp [isZeroBytes, fromLE]
  | cons x xs ih =>
    have hx : x = 0 ↔ x.toNat = 0 := by
      constructor
      · intro h; subst h; rfl
      · intro h; exact UInt8.toNat_inj.mp (by simpa using h)
    simp only [isZeroBytes, List.all_cons, Bool.and_eq_true, beq_iff_eq, fromLE] at *
    rw [ih, hx]; omega

theorem toBytesLE_some {k n : Nat} {b : Bytes} (h : toBytesLE k n = some b) :
    n < 256 ^ k ∧ b = leBytes k n ∧ b.length = k ∧ fromLE b = n := by
  unfold toBytesLE at h
  split at h
  · injection h with h; subst h
    refine ⟨‹_›, rfl, length_leBytes _ _, ?_⟩
    rw [fromLE_leBytes, Nat.mod_eq_of_lt ‹_›]
  · contradiction

theorem toBytesLE_of_lt {k n : Nat} (h : n < 256 ^ k) : toBytesLE k n = some (leBytes k n) := by
  simp [toBytesLE, h]


/-! ## `_tweak_bits` -/

theorem and_F8 : ∀ n, n < 256 → n &&& 0xF8 = n / 8 * 8 := by decide +kernel
theorem and_1F : ∀ n, n < 256 → n &&& 0x1F = n % 32 := by decide +kernel
theorem or_40 : ∀ n, n < 32 → n ||| 0x40 = n + 64 := by decide +kernel

theorem getD_toNat (l : Bytes) (i : Nat) : (l.getD i 0).toNat = fromLE l / 256 ^ i % 256 := by
  induction l generalizing i with
  | nil => simp [fromLE]
  | cons x xs ih =>
    have := x.toNat_lt
    cases i with
    | zero => simp [fromLE]
    | succ i =>
      simp only [List.getD_cons_succ, ih, fromLE, Nat.pow_succ]
      rw [Nat.mul_comm (256 ^ i) 256, ← Nat.div_div_eq_div_mul]
      have : (x.toNat + 256 * fromLE xs) / 256 = fromLE xs := by omega
      rw [this]

/-- the three in-place updates of `_tweak_bits` as one expression -/
theorem tweakBits_eq (seed : Bytes) (h : 32 ≤ seed.length) :
    tweakBits seed = some ((seed.set 0 (seed.getD 0 0 &&& 0xF8)).set 31 ((seed.getD 31 0 &&& 0x1F) ||| 0x40)) := by
  have h' : ¬ seed.length < 32 := by omega
  simp only [tweakBits, h', if_false, List.set_set]
  congr 3
  simp [List.getD_eq_getElem?_getD, List.getElem?_set]
  rw [if_pos (by omega)]; rfl

theorem tweak_take (seed s : Bytes) (h : tweakBits seed = some s) :
    s.length = seed.length ∧ s.drop 32 = seed.drop 32 ∧
    fromLE (s.take 32) = Spec.Bip32Ed25519.clamp (fromLE (seed.take 32)) := by
  have hl : 32 ≤ seed.length := by
    unfold tweakBits at h; split at h <;> first | contradiction | omega
  rw [tweakBits_eq seed hl] at h
  injection h with h; subst h
  refine ⟨by simp, ?_, ?_⟩
  · rw [List.drop_set_of_lt (by decide), List.drop_set_of_lt (by decide)]
  · rw [List.take_set, List.take_set]
    have ha : (seed.take 32).length = 32 := by simp; omega
    have g0 : seed.getD 0 0 = (seed.take 32).getD 0 0 := by
      simp [List.getD_eq_getElem?_getD]
    have g31 : seed.getD 31 0 = (seed.take 32).getD 31 0 := by
      simp [List.getD_eq_getElem?_getD]
    rw [g0, g31]
    generalize seed.take 32 = a at *
    have e1 := fromLE_set a 0 (a.getD 0 0 &&& 0xF8) (by omega)
    have e2 := fromLE_set (a.set 0 (a.getD 0 0 &&& 0xF8)) 31 ((a.getD 31 0 &&& 0x1F) ||| 0x40) (by simp; omega)
    have g : (a.set 0 (a.getD 0 0 &&& 0xF8)).getD 31 0 = a.getD 31 0 := by
      simp [List.getD_eq_getElem?_getD]
    rw [g] at e2
    have b0 := getD_toNat a 0
    have b31 := getD_toNat a 31
    have lt := fromLE_lt a
    rw [ha] at lt
    have l0 := (a.getD 0 0).toNat_lt
    have l31 := (a.getD 31 0).toNat_lt
    rw [UInt8.toNat_or, UInt8.toNat_and] at e2
    rw [UInt8.toNat_and] at e1
    have c0 : (0xF8 : UInt8).toNat = 0xF8 := rfl
    have c1 : (0x1F : UInt8).toNat = 0x1F := rfl
    have c2 : (0x40 : UInt8).toNat = 0x40 := rfl
    rw [c0, and_F8 _ l0] at e1
    rw [c1, c2, and_1F _ l31, or_40 _ (Nat.mod_lt _ (by decide))] at e2
    unfold Spec.Bip32Ed25519.clamp
    generalize fromLE a = n at *
    generalize fromLE (a.set 0 (a.getD 0 0 &&& 0xF8)) = n1 at *
    generalize fromLE ((a.set 0 (a.getD 0 0 &&& 0xF8)).set 31 ((a.getD 31 0 &&& 0x1F) ||| 0x40)) = n2 at *
    generalize (a.getD 0 0).toNat = x0 at *
    generalize (a.getD 31 0).toNat = x31 at *
    simp only [Nat.reducePow, Nat.pow_zero, Nat.div_one, Nat.mul_one] at *
    omega

open Spec.Bip32Ed25519 in
/-- the arithmetic form of the CIP-3 clamp has exactly the bits the text prescribes -/
theorem clamp_bits (n : Nat) : IsClampOf (clamp n) n := by
  intro j
  unfold clamp
  have hm : n % 2 ^ 253 / 8 * 8 < 2 ^ 253 := by
    have : n % 2 ^ 253 < 2 ^ 253 := Nat.mod_lt _ (by decide)
    omega
  have e8 : (8 : Nat) = 2 ^ 3 := rfl
  have low : ∀ j, (n % 2 ^ 253 / 8 * 8).testBit j = (decide (3 ≤ j) && (decide (j < 253) && n.testBit j)) := by
    intro j
    rw [e8, Nat.testBit_mul_two_pow, Nat.testBit_div_two_pow, Nat.testBit_mod_two_pow]
    by_cases h : 3 ≤ j
    · simp [h]
    · simp [h]
  rw [Nat.add_comm]
  by_cases h1 : j < 254
  · rw [Nat.testBit_two_pow_add_gt h1, low]
    by_cases h2 : j < 3
    · have : ¬ 3 ≤ j := by omega
      simp [h2, this]
    · have h3 : 3 ≤ j := by omega
      have h4 : j ≠ 254 := by omega
      have h5 : ¬ 255 ≤ j := by omega
      by_cases h6 : j = 253
      · subst h6; simp
      · have : j < 253 := by omega
        simp [h2, h3, h4, h5, h6, this]
  · by_cases h2 : j = 254
    · subst h2
      rw [Nat.testBit_two_pow_add_eq, low]; simp
    · have h3 : 255 ≤ j := by omega
      have h4 : ¬ j < 3 := by omega
      have : 2 ^ 254 + n % 2 ^ 253 / 8 * 8 < 2 ^ j := by
        have : 2 ^ 255 ≤ 2 ^ j := Nat.pow_le_pow_right (by decide) h3
        omega
      rw [Nat.testBit_lt_two_pow this]
      simp [h2, h3, h4]

/-! ## hypotheses about the primitives (never axioms: explicit arguments of the theorems) -/

variable {P : Type}

/-- output lengths of the hash primitives -/
structure HashLen (pr : Prims P) : Prop where
  hmac : ∀ k m, (pr.hmac512 k m).length = 64
  pbkdf : ∀ p s, (pr.pbkdf2 p s).length = 96

/-- `smulBase`/`pointAdd` form a commutative group action of the integers with base-point order `order`, and the
encoding is faithful -/
structure GroupLaws (pr : Prims P) : Prop where
  smul_add : ∀ a b, pr.smulBase (a + b) = pr.pointAdd (pr.smulBase a) (pr.smulBase b)
  add_comm : ∀ p q, pr.pointAdd p q = pr.pointAdd q p
  smul_smul : ∀ h k, pr.smul h (pr.smulBase k) = pr.smulBase (h * k)
  smul_mod : ∀ a, pr.smulBase (a % pr.order) = pr.smulBase a
  dec_enc : ∀ p, pr.decodePoint (pr.encodePoint p) = some p
  enc_len : ∀ p, (pr.encodePoint p).length = 32
  order_pos : 0 < pr.order
  order_lt : pr.order < 2 ^ 255
  /-- `k·B` is (encoded as) the neutral element exactly when the order divides `k` -/
  inf_iff : ∀ k, isInfEnc (pr.encodePoint (pr.smulBase k)) = true ↔ k % pr.order = 0

open Spec.Bip32Ed25519 in
/-- the specification's setting read off the model's primitives -/
def toSetting (pr : Prims P) : Setting P :=
  ⟨pr.hmac512, pr.pbkdf2, pr.smulBase, pr.pointAdd, pr.encodePoint, pr.order⟩

/-- abstraction of a wallet node to the integer-level extended private key -/
def absPrv (w : Node) : Spec.Bip32Ed25519.XPrv :=
  ⟨fromLE (w.xprv.take 32), fromLE (w.xprv.drop 32), w.cc⟩

def kLNat (w : Node) : Nat := fromLE (w.xprv.take 32)
def kRNat (w : Node) : Nat := fromLE (w.xprv.drop 32)
/-- `Z[0:28]` of derivation step `i` as an integer -/
def zLNat (pr : Prims P) (w : Node) (i : Nat) : Nat := fromLE ((pr.hmac512 w.cc (preimages w i).1).take 28)
def zRNat (pr : Prims P) (w : Node) (i : Nat) : Nat := fromLE ((pr.hmac512 w.cc (preimages w i).1).drop 32)

/-- representation invariant of wallet nodes: 64-byte private key, public key = `kL·B`, `kL < 2^255` -/
structure WFNode (pr : Prims P) (w : Node) : Prop where
  len : w.xprv.length = 64
  lt : kLNat w < 2 ^ 255
  pub : w.pub = pr.encodePoint (pr.smulBase (kLNat w))

theorem zLNat_lt (pr : Prims P) (w : Node) (i : Nat) : zLNat pr w i < 2 ^ 224 := by
  unfold zLNat
  have h := fromLE_lt ((pr.hmac512 w.cc (preimages w i).1).take 28)
  have : ((pr.hmac512 w.cc (preimages w i).1).take 28).length ≤ 28 := by simp; omega
  have : 256 ^ ((pr.hmac512 w.cc (preimages w i).1).take 28).length ≤ 256 ^ 28 :=
    Nat.pow_le_pow_right (by decide) this
  have e : (256 : Nat) ^ 28 = 2 ^ 224 := by decide
  omega

/-- `crypto_scalarmult_ed25519_base_noclamp` on the 32-byte little-endian encoding of `n < 2^255` -/
theorem scalarmult_leBytes (pr : Prims P) (gl : GroupLaws pr) (n : Nat) (h : n < 2 ^ 255) :
    scalarmultBaseNoclamp pr (leBytes 32 n) =
      if n % pr.order = 0 then none else some (pr.encodePoint (pr.smulBase n)) := by
  have h256 : n < 256 ^ 32 := by
    have : (2 : Nat) ^ 255 < 256 ^ 32 := by decide
    omega
  have e : fromLE (leBytes 32 n) = n := by rw [fromLE_leBytes, Nat.mod_eq_of_lt h256]
  unfold scalarmultBaseNoclamp
  simp only [length_leBytes, ne_eq, not_true_eq_false, if_false, e, Nat.mod_eq_of_lt h]
  by_cases hz : n % pr.order = 0
  · have := (gl.inf_iff n).2 hz
    simp [hz, this]
  · have h1 : isInfEnc (pr.encodePoint (pr.smulBase n)) = false := by
      cases hh : isInfEnc (pr.encodePoint (pr.smulBase n)) with
      | false => rfl
      | true => exact absurd ((gl.inf_iff n).1 hh) hz
    have h2 : isZeroBytes (leBytes 32 n) = false := by
      cases hh : isZeroBytes (leBytes 32 n) with
      | false => rfl
      | true =>
        have := (isZeroBytes_iff _).1 hh
        rw [e] at this; subst this
        simp at hz
    simp [hz, h1, h2]

/-- what a successful private derivation step computes, as integers (no hypothesis on the primitives) -/
theorem derivePrivChild_some (pr : Prims P) (w w' : Node) (i : Int) (h : derivePrivChild pr w i = some w') :
    0 ≤ i ∧ i < 2 ^ 32 ∧ w'.xprv.length = 64 ∧
    kLNat w' = 8 * zLNat pr w i.toNat + kLNat w ∧
    kRNat w' = (zRNat pr w i.toNat + kRNat w) % 2 ^ 256 ∧
    w'.cc = (pr.hmac512 w.cc (preimages w i.toNat).2).drop 32 ∧
    scalarmultBaseNoclamp pr (w'.xprv.take 32) = some w'.pub := by
  unfold derivePrivChild at h
  split at h
  · rename_i hi
    simp only at h
    split at h
    · rename_i kL kR hkL hkR
      have aL := toBytesLE_some hkL
      have aR := toBytesLE_some hkR
      split at h
      · rename_i A hA
        injection h with h; subst h
        have t : (kL ++ kR).take 32 = kL := by
          rw [List.take_append_of_le_length (by omega), List.take_of_length_le (by omega)]
        have d : (kL ++ kR).drop 32 = kR := by
          rw [List.drop_append_of_le_length (by omega), List.drop_of_length_le (by omega)]; simp
        refine ⟨hi.1, hi.2, by simp; omega, ?_, ?_, rfl, ?_⟩
        · simp only [kLNat, t, aL.2.2.2, zLNat]; omega
        · simp only [kRNat, d, aR.2.2.2, zRNat]
        · simp only [t, hA]
      · contradiction
    · contradiction
  · contradiction


theorem le32_inj (i j : Nat) (hi : i < 2 ^ 32) (hj : j < 2 ^ 32) (h : leBytes 4 i = leBytes 4 j) : i = j := by
  have := congrArg fromLE h
  rw [fromLE_leBytes, fromLE_leBytes] at this
  have e : (256 : Nat) ^ 4 = 2 ^ 32 := by decide
  rw [e, Nat.mod_eq_of_lt hi, Nat.mod_eq_of_lt hj] at this
  exact this

theorem take_take_self (l : Bytes) (n : Nat) (h : l.length ≤ n) : l.take n = l := List.take_of_length_le h

open Spec.Bip32Ed25519 in
/-- the HMAC messages of the model are those of the specification -/
theorem preimages_spec (pr : Prims P) (w : Node) (i : Nat) (hw : WFNode pr w) :
    preimages w i =
      ((if hardened i then (0x00 : UInt8) else 0x02) :: privData (toSetting pr) (absPrv w) i,
       (if hardened i then (0x01 : UInt8) else 0x03) :: privData (toSetting pr) (absPrv w) i) := by
  have l1 : (w.xprv.take 32).length = 32 := by simp [hw.len]
  have l2 : (w.xprv.drop 32).length = 32 := by simp [hw.len]
  have e1 : leBytes 32 (fromLE (w.xprv.take 32)) = w.xprv.take 32 := by
    have := leBytes_fromLE (w.xprv.take 32); rwa [l1] at this
  have e2 : leBytes 32 (fromLE (w.xprv.drop 32)) = w.xprv.drop 32 := by
    have := leBytes_fromLE (w.xprv.drop 32); rwa [l2] at this
  unfold preimages privData hardened
  by_cases h : i < 2 ^ 31
  · have h' : ¬ 2 ^ 31 ≤ i := by omega
    simp only [h, h', if_true, if_false, toSetting, absPrv, ser32, hw.pub, kLNat]
  · have h' : 2 ^ 31 ≤ i := by omega
    simp only [h, h', if_true, if_false, toSetting, absPrv, ser32, ser256, e1, e2]

open Spec.Bip32Ed25519 in
/-- **refinement**: on well-formed nodes, and as long as the child scalar stays below `2^255`, the byte-level
private derivation of the model is the integer-level BIP32-Ed25519 derivation of the specification -/
theorem derivePrivChild_refines (pr : Prims P) (hl : HashLen pr) (gl : GroupLaws pr) (w : Node) (i : Nat)
    (hw : WFNode pr w) (hi : i < 2 ^ 32) (hno : 8 * zLNat pr w i + kLNat w < 2 ^ 255) :
    (derivePrivChild pr w (i : Int)).map absPrv = childPriv (toSetting pr) (absPrv w) i := by
  have hi' : (0 : Int) ≤ (i : Int) ∧ (i : Int) < 2 ^ 32 := by
    constructor
    · omega
    · have : ((2 : Int) ^ 32) = ((2 ^ 32 : Nat) : Int) := by norm_cast
      omega
  have p256 : (2 : Nat) ^ 256 = 256 ^ 32 := by decide
  have p255 : (2 : Nat) ^ 255 < 256 ^ 32 := by decide
  unfold derivePrivChild childPriv
  simp only [hi', and_self, if_true, Int.toNat_natCast]
  rw [preimages_spec pr w i hw]
  simp only []
  have hno' := hno
  unfold zLNat kLNat at hno'
  rw [preimages_spec pr w i hw] at hno'
  simp only [] at hno'
  generalize hZ : pr.hmac512 w.cc ((if hardened i then (0x00 : UInt8) else 0x02) ::
      privData (toSetting pr) (absPrv w) i) = Z at *
  generalize hC : pr.hmac512 w.cc ((if hardened i then (0x01 : UInt8) else 0x03) ::
      privData (toSetting pr) (absPrv w) i) = C at *
  have lZ : Z.length = 64 := by rw [← hZ]; exact hl.hmac _ _
  have lC : C.length = 64 := by rw [← hC]; exact hl.hmac _ _
  have hkL : fromLE (Z.take 28) * 8 + fromLE (w.xprv.take 32) < 256 ^ 32 := by omega
  have hkR : (fromLE (Z.drop 32) + fromLE (w.xprv.drop 32)) % 2 ^ 256 < 256 ^ 32 := by
    rw [p256]; exact Nat.mod_lt _ (by decide)
  rw [toBytesLE_of_lt hkL, toBytesLE_of_lt hkR]
  simp only []
  have hlt : fromLE (Z.take 28) * 8 + fromLE (w.xprv.take 32) < 2 ^ 255 := by omega
  rw [scalarmult_leBytes pr gl _ hlt]
  have eS : (toSetting pr).H = pr.hmac512 := rfl
  have eO : (toSetting pr).order = pr.order := rfl
  have ec : (absPrv w).c = w.cc := rfl
  have ekL : (absPrv w).kL = fromLE (w.xprv.take 32) := rfl
  have ekR : (absPrv w).kR = fromLE (w.xprv.drop 32) := rfl
  simp only [eS, eO, ec, ekL, ekR, hZ, hC]
  have e8 : 8 * fromLE (Z.take 28) + fromLE (w.xprv.take 32)
      = fromLE (Z.take 28) * 8 + fromLE (w.xprv.take 32) := by omega
  rw [e8]
  by_cases hz : (fromLE (Z.take 28) * 8 + fromLE (w.xprv.take 32)) % pr.order = 0
  · simp [hz]
  · simp only [hz, if_false, Option.map_some, absPrv]
    have t : (leBytes 32 (fromLE (Z.take 28) * 8 + fromLE (w.xprv.take 32)) ++
        leBytes 32 ((fromLE (Z.drop 32) + fromLE (w.xprv.drop 32)) % 2 ^ 256)).take 32
        = leBytes 32 (fromLE (Z.take 28) * 8 + fromLE (w.xprv.take 32)) := by
      rw [List.take_append_of_le_length (by simp [length_leBytes]),
        List.take_of_length_le (by simp [length_leBytes])]
    have d : (leBytes 32 (fromLE (Z.take 28) * 8 + fromLE (w.xprv.take 32)) ++
        leBytes 32 ((fromLE (Z.drop 32) + fromLE (w.xprv.drop 32)) % 2 ^ 256)).drop 32
        = leBytes 32 ((fromLE (Z.drop 32) + fromLE (w.xprv.drop 32)) % 2 ^ 256) := by
      rw [List.drop_append_of_le_length (by simp [length_leBytes]),
        List.drop_of_length_le (by simp [length_leBytes])]; simp
    rw [t, d, fromLE_leBytes, fromLE_leBytes, Nat.mod_eq_of_lt hkL, Nat.mod_eq_of_lt hkR]
    have t1 : (Z.drop 32).take 32 = Z.drop 32 := List.take_of_length_le (by simp [lZ])
    have t2 : (C.drop 32).take 32 = C.drop 32 := List.take_of_length_le (by simp [lC])
    rw [t1, t2]


/-- a successful private step from a well-formed node whose child scalar is below `2^255` gives a well-formed node -/
theorem derivePrivChild_wf (pr : Prims P) (w w' : Node) (i : Int)
    (h : derivePrivChild pr w i = some w') (hno : 8 * zLNat pr w i.toNat + kLNat w < 2 ^ 255) :
    WFNode pr w' := by
  obtain ⟨_, _, hlen, hkL, _, _, hA⟩ := derivePrivChild_some pr w w' i h
  have hlt : kLNat w' < 2 ^ 255 := by omega
  refine ⟨hlen, hlt, ?_⟩
  unfold scalarmultBaseNoclamp at hA
  split at hA
  · contradiction
  · simp only at hA
    split at hA
    · contradiction
    · injection hA with hA
      rw [← hA]
      unfold kLNat at hlt ⊢
      rw [Nat.mod_eq_of_lt hlt]

/-- **public derivation agrees with private derivation** for non-hardened indices -/
theorem derivePub_agrees (pr : Prims P) (gl : GroupLaws pr) (w w' : Node) (i : Nat)
    (hw : WFNode pr w) (hi : i < 2 ^ 31)
    (hno : 8 * zLNat pr w i + kLNat w < 2 ^ 255)
    (hz : (8 * zLNat pr w i) % pr.order ≠ 0)
    (h : derivePrivChild pr w (i : Int) = some w') :
    ∃ v, derivePubChild pr w (i : Int) = some v ∧ v.pub = w'.pub ∧ v.cc = w'.cc := by
  have hw' := derivePrivChild_wf pr w w' i h (by simpa using hno)
  obtain ⟨h0, h32, _, hkL, _, hcc, _⟩ := derivePrivChild_some pr w w' i h
  simp only [Int.toNat_natCast] at hkL hcc
  have zlt := zLNat_lt pr w i
  have h8 : 8 * zLNat pr w i < 256 ^ 32 := by
    have : (2 : Nat) ^ 227 < 256 ^ 32 := by decide
    omega
  have h8' : 8 * zLNat pr w i < 2 ^ 255 := by omega
  unfold derivePubChild
  simp only [h0, h32, and_self, if_true, Int.toNat_natCast, hi]
  have e : fromLE ((pr.hmac512 w.cc (preimages w i).1).take 28) = zLNat pr w i := rfl
  rw [e, toBytesLE_of_lt h8]
  simp only []
  rw [scalarmult_leBytes pr gl _ h8']
  simp only [hz, if_false]
  unfold ed25519Add
  rw [hw.pub, gl.dec_enc, gl.dec_enc]
  simp only []
  refine ⟨_, rfl, ?_, hcc.symm⟩
  simp only []
  rw [hw'.pub, hkL, ← gl.smul_add, Nat.add_comm]

/-- hardened children cannot be derived from the public key -/
theorem derivePubChild_hardened (pr : Prims P) (w : Node) (i : Int) (h : 2 ^ 31 ≤ i) :
    derivePubChild pr w i = none := by
  unfold derivePubChild
  split
  · rename_i hi
    have : ¬ i.toNat < 2 ^ 31 := by
      have : ((2 : Int) ^ 31) = ((2 ^ 31 : Nat) : Int) := by norm_cast
      omega
    simp only [this, if_false]
  · rfl

/-- `derive(i, hardened=True)` is `derive(i + 2^31)` -/
theorem derive_hardened (pr : Prims P) (w : Node) (i : Int) (priv : Bool) :
    derive pr w i priv true = derive pr w (i + 2 ^ 31) priv false := by
  simp [derive]

/-- the hardened HMAC messages (tags 0/1 over `kL ‖ kR`) are used exactly from `2^31` on -/
theorem preimages_tags (w : Node) (i : Nat) :
    (i < 2 ^ 31 → preimages w i = ((0x02 : UInt8) :: (w.pub ++ leBytes 4 i), (0x03 : UInt8) :: (w.pub ++ leBytes 4 i))) ∧
    (2 ^ 31 ≤ i → preimages w i =
      ((0x00 : UInt8) :: ((w.xprv.take 32 ++ w.xprv.drop 32) ++ leBytes 4 i),
       (0x01 : UInt8) :: ((w.xprv.take 32 ++ w.xprv.drop 32) ++ leBytes 4 i))) := by
  unfold preimages
  constructor
  · intro h; simp [h]
  · intro h
    have : ¬ i < 2 ^ 31 := by omega
    simp [this]

/-! ## path strings -/

theorem digitChar_facts : ∀ d, d < 10 →
    isDigit (Nat.digitChar d) = true ∧ (Nat.digitChar d).toNat - 48 = d ∧ isSpace (Nat.digitChar d) = false ∧
    Nat.digitChar d ≠ '/' ∧ Nat.digitChar d ≠ '\'' ∧ Nat.digitChar d ≠ '-' ∧ Nat.digitChar d ≠ '+' ∧
    ((Nat.digitChar d == 'm' || Nat.digitChar d == '/') = false) := by decide

/-- a non-empty string of ASCII digits that are no other relevant character -/
def Plain (c : Char) : Prop :=
  isDigit c = true ∧ isSpace c = false ∧ c ≠ '/' ∧ c ≠ '\'' ∧ c ≠ '-' ∧ c ≠ '+' ∧ ((c == 'm' || c == '/') = false)

def digitsVal (acc : Nat) (l : List Char) : Nat := l.foldl (fun a c => a * 10 + (c.toNat - 48)) acc

theorem toDigits_plain (n : Nat) : (∀ c ∈ Nat.toDigits 10 n, Plain c) ∧ Nat.toDigits 10 n ≠ [] ∧
    ∀ acc, digitsVal acc (Nat.toDigits 10 n) = acc * 10 ^ (Nat.toDigits 10 n).length + n := by
  induction n using Nat.strongRecOn with
  | _ n ih =>
    by_cases h : n < 10
    · rw [Nat.toDigits_of_lt_base h]
      obtain ⟨a, b, c, d, e, f, g, i⟩ := digitChar_facts n h
      refine ⟨?_, by simp, ?_⟩
      · intro c hc; simp at hc; subst hc; exact ⟨a, c, d, e, f, g, i⟩
      · intro acc; simp [digitsVal, b]
    · rw [Nat.toDigits_of_base_le (by decide) (by omega)]
      obtain ⟨i1, i2, i3⟩ := ih (n / 10) (by omega)
      obtain ⟨a, b, c, d, e, f, g, i⟩ := digitChar_facts (n % 10) (Nat.mod_lt _ (by decide))
      refine ⟨?_, by simp, ?_⟩
      · intro c hc
        simp at hc
        rcases hc with hc | hc
        · exact i1 c hc
        · subst hc; exact ⟨a, c, d, e, f, g, i⟩
      · intro acc
        have := i3 acc
        unfold digitsVal at this ⊢
        rw [List.foldl_append, this]
        simp only [List.foldl_cons, List.foldl_nil, b, List.length_append, List.length_cons, List.length_nil,
          Nat.pow_succ]
        generalize 10 ^ (Nat.toDigits 10 (n / 10)).length = p
        rw [Nat.add_mul, Nat.mul_assoc]
        omega

theorem pyDigits_plain (l : List Char) (hl : ∀ c ∈ l, Plain c) (acc st : Nat) (hne : l ≠ [] ∨ st = 1) :
    pyDigits acc st l = some (digitsVal acc l) := by
  induction l generalizing acc st with
  | nil => 
    rcases hne with h | h
    · exact absurd rfl h
    · simp [pyDigits, digitsVal, h]
  | cons c cs ih =>
    have hc := (hl c (by simp)).1
    simp only [pyDigits, hc, if_true]
    rw [ih (fun c h => hl c (by simp [h])) _ _ (Or.inr rfl)]
    simp [digitsVal]

theorem rstripSpace_plain (l : List Char) (hl : ∀ c ∈ l, isSpace c = false) : rstripSpace l = l := by
  induction l with
  | nil => rfl
  | cons c cs ih =>
    have := ih (fun c h => hl c (by simp [h]))
    simp only [rstripSpace, this]
    cases cs with
    | nil => simp [hl c (by simp)]
    | cons d ds => rfl

theorem pyInt_toDigits (n : Nat) : pyInt (Nat.toDigits 10 n) = some (n : Int) := by
  obtain ⟨h1, h2, h3⟩ := toDigits_plain n
  generalize Nat.toDigits 10 n = l at *
  cases l with
  | nil => exact absurd rfl h2
  | cons c cs =>
    have hc := h1 c (by simp)
    unfold pyInt
    rw [List.dropWhile_cons_of_neg (by simp [hc.2.1]), rstripSpace_plain _ (fun c h => (h1 c h).2.1)]
    simp only [hc.2.2.2.2.1, hc.2.2.2.2.2.1, if_false]
    rw [pyDigits_plain _ h1 _ _ (Or.inl (by simp)), h3]
    simp


/-- `"/".join(segs)` -/
def joinSlash : List (List Char) → List Char
  | [] => []
  | [s] => s
  | s :: t :: r => s ++ '/' :: joinSlash (t :: r)

theorem splitSlash_ne_nil (l : List Char) : splitSlash l ≠ [] := by
  induction l with
  | nil => simp [splitSlash]
  | cons c cs ih =>
    unfold splitSlash
    split
    · simp
    · split <;> simp

theorem splitSlash_noslash (s : List Char) (h : ∀ c ∈ s, c ≠ '/') : splitSlash s = [s] := by
  induction s with
  | nil => rfl
  | cons c cs ih =>
    have := ih (fun c h' => h c (by simp [h']))
    simp [splitSlash, this, h c (by simp)]

theorem splitSlash_append (s rest : List Char) (h : ∀ c ∈ s, c ≠ '/') :
    splitSlash (s ++ '/' :: rest) = s :: splitSlash rest := by
  induction s with
  | nil =>
    simp only [List.nil_append, splitSlash]
    split
    · rename_i hh; exact absurd hh (splitSlash_ne_nil rest)
    · rename_i hh; simp [hh]
  | cons c cs ih =>
    have := ih (fun c h' => h c (by simp [h']))
    simp [splitSlash, this, h c (by simp)]

theorem splitSlash_join (segs : List (List Char)) (hne : segs ≠ []) (h : ∀ s ∈ segs, ∀ c ∈ s, c ≠ '/') :
    splitSlash (joinSlash segs) = segs := by
  induction segs with
  | nil => exact absurd rfl hne
  | cons s t ih =>
    cases t with
    | nil => simpa [joinSlash] using splitSlash_noslash s (h s (by simp))
    | cons t r =>
      simp only [joinSlash]
      rw [splitSlash_append s _ (h s (by simp)), ih (by simp) (fun s' hs => h s' (by simp [hs]))]

/-- the text of one path component: `str(i)` or `str(i) + "'"` -/
def renderComponent (x : Nat × Bool) : List Char :=
  if x.2 then Nat.toDigits 10 x.1 ++ ['\''] else Nat.toDigits 10 x.1

/-- the path string `"m/" + "/".join(components)`; `toString i = String.ofList (Nat.toDigits 10 i)` -/
def renderPath (idxs : List (Nat × Bool)) : String :=
  String.ofList ('m' :: '/' :: joinSlash (idxs.map renderComponent))

theorem renderComponent_noslash (x : Nat × Bool) : ∀ c ∈ renderComponent x, c ≠ '/' := by
  intro c hc
  obtain ⟨h1, _, _⟩ := toDigits_plain x.1
  unfold renderComponent at hc
  split at hc
  · simp at hc
    rcases hc with hc | hc
    · exact (h1 c hc).2.2.1
    · subst hc; decide
  · exact (h1 c hc).2.2.1

theorem parseComponent_render (x : Nat × Bool) : parseComponent (renderComponent x) = some ((x.1 : Int), x.2) := by
  obtain ⟨i, h⟩ := x
  obtain ⟨h1, h2, _⟩ := toDigits_plain i
  cases h with
  | true =>
    simp only [renderComponent, if_true, parseComponent, List.getLast?_concat, List.dropLast_concat, pyInt_toDigits]
    simp
  | false =>
    simp only [renderComponent, parseComponent]
    have : (Nat.toDigits 10 i).getLast? ≠ some '\'' := by
      intro hh
      have := List.mem_of_getLast? hh
      exact (h1 _ this).2.2.2.1 rfl
    simp [this, pyInt_toDigits]

theorem pathSegments_render (idxs : List (Nat × Bool)) (hne : idxs ≠ []) :
    pathSegments (renderPath idxs).toList = some (idxs.map renderComponent) := by
  unfold renderPath pathSegments
  rw [String.toList_ofList]
  simp only [List.take_succ_cons, List.take_zero, if_true]
  have hj : splitSlash (joinSlash (idxs.map renderComponent)) = idxs.map renderComponent :=
    splitSlash_join _ (by simpa using hne) (by
      intro s hs
      obtain ⟨x, _, rfl⟩ := List.mem_map.1 hs
      exact renderComponent_noslash x)
  -- the first character after "m/" is a digit, so `lstrip("m/")` removes exactly the prefix
  cases idxs with
  | nil => exact absurd rfl hne
  | cons x xs =>
    obtain ⟨h1, h2, _⟩ := toDigits_plain x.1
    have hd : ∃ c r, joinSlash ((x :: xs).map renderComponent) = c :: r ∧ Plain c := by
      cases hdg : Nat.toDigits 10 x.1 with
      | nil => exact absurd hdg h2
      | cons c r =>
        have pc := h1 c (by simp [hdg])
        cases xs with
        | nil =>
          refine ⟨c, ?_, ?_, pc⟩
          · exact if x.2 then r ++ ['\''] else r
          · simp only [List.map, joinSlash, renderComponent, hdg]; split <;> simp
        | cons y ys =>
          refine ⟨c, ?_, ?_, pc⟩
          · exact (if x.2 then r ++ ['\''] else r) ++ '/' :: joinSlash ((y :: ys).map renderComponent)
          · simp only [List.map, joinSlash, renderComponent, hdg]; split <;> simp
    obtain ⟨c, r, e, pc⟩ := hd
    have : List.dropWhile (fun c => c == 'm' || c == '/') ('m' :: '/' :: joinSlash ((x :: xs).map renderComponent))
        = joinSlash ((x :: xs).map renderComponent) := by
      rw [e]
      simp [List.dropWhile, pc.2.2.2.2.2.2]
    rw [this, hj]

/-- **path strings**: deriving along the rendered path string is deriving step by step -/
theorem deriveFromPath_render (pr : Prims P) (w : Node) (idxs : List (Nat × Bool)) (priv : Bool) (hne : idxs ≠ []) :
    deriveFromPath pr w (renderPath idxs) priv = deriveSteps pr priv w (idxs.map fun x => ((x.1 : Int), x.2)) := by
  unfold deriveFromPath
  rw [pathSegments_render idxs hne]
  simp only []
  clear hne
  induction idxs generalizing w with
  | nil => rfl
  | cons x xs ih =>
    simp only [List.map, deriveSegments, deriveSteps, parseComponent_render]
    cases derive pr w (x.1 : Int) priv x.2 with
    | none => rfl
    | some w' => exact ih w'


/-! ## master key -/

theorem scalarmult_some (pr : Prims P) (b A : Bytes) (h : scalarmultBaseNoclamp pr b = some A) :
    b.length = 32 ∧ A = pr.encodePoint (pr.smulBase (fromLE b % 2 ^ 255)) := by
  unfold scalarmultBaseNoclamp at h
  split at h
  · contradiction
  · rename_i hl
    simp only at h
    split at h
    · contradiction
    · injection h with h
      exact ⟨by simpa using hl, h.symm⟩

theorem clamp_range (n : Nat) : Spec.Bip32Ed25519.clamp n % 8 = 0 ∧ 2 ^ 254 ≤ Spec.Bip32Ed25519.clamp n ∧
    Spec.Bip32Ed25519.clamp n < 2 ^ 254 + 2 ^ 253 := by
  unfold Spec.Bip32Ed25519.clamp
  have : n % 2 ^ 253 < 2 ^ 253 := Nat.mod_lt _ (by decide)
  simp only [Nat.reducePow] at *
  omega

open Spec.Bip32Ed25519 in
/-- **Icarus root**: the root produced from entropy and passphrase is the CIP-3 master key of the specification -/
theorem fromEntropy_refines (pr : Prims P) (hl : HashLen pr) (e p : Bytes) (root : Node)
    (h : fromEntropy pr e p = some root) :
    absPrv root = master (toSetting pr) e p ∧ WFNode pr root ∧ isEntropyLen e.length = true := by
  unfold fromEntropy at h
  split at h
  · rename_i hel
    unfold fromSeed at h
    split at h
    · contradiction
    · rename_i s hs
      simp only at h
      split at h
      · contradiction
      · rename_i A hA
        injection h with h; subst h
        have hd := hl.pbkdf p e
        obtain ⟨l1, l2, l3⟩ := tweak_take _ _ hs
        rw [hd] at l1
        obtain ⟨_, hA⟩ := scalarmult_some pr _ _ hA
        have cr := clamp_range (fromLE ((pr.pbkdf2 p e).take 32))
        have t1 : (s.take 64).take 32 = s.take 32 := by rw [List.take_take]; rfl
        have t2 : (s.take 64).drop 32 = ((pr.pbkdf2 p e).drop 32).take 32 := by
          rw [List.drop_take, l2]
        have t3 : s.drop 64 = ((pr.pbkdf2 p e).drop 64).take 32 := by
          have : s.drop 64 = (s.drop 32).drop 32 := by rw [List.drop_drop]
          rw [this, l2, List.drop_drop]
          exact (List.take_of_length_le (by simp [hd])).symm
        refine ⟨?_, ⟨by simp [l1], ?_, ?_⟩, hel⟩
        · simp only [absPrv, master, toSetting, t1, t2, t3, l3]
        · simp only [kLNat, t1, l3]; omega
        · have : fromLE (s.take 32) < 2 ^ 255 := by rw [l3]; omega
          simp only [kLNat, t1]
          rw [hA, Nat.mod_eq_of_lt this]
  · contradiction

/-! ## invariants along paths -/

/-- one private step preserves `kL ≡ 0 (mod 8)` and adds less than `2^227` to `kL` -/
theorem derivePrivChild_kL (pr : Prims P) (w w' : Node) (i : Int) (h : derivePrivChild pr w i = some w') :
    kLNat w' % 8 = kLNat w % 8 ∧ kLNat w ≤ kLNat w' ∧ kLNat w' < kLNat w + 2 ^ 227 := by
  obtain ⟨_, _, _, hkL, _, _, _⟩ := derivePrivChild_some pr w w' i h
  have := zLNat_lt pr w i.toNat
  simp only [Nat.reducePow] at *
  omega

/-- along any private path: `kL % 8` is unchanged and `kL` grows by less than `2^227` per step -/
theorem deriveSteps_kL (pr : Prims P) (w w' : Node) (path : List (Int × Bool))
    (h : deriveSteps pr true w path = some w') :
    kLNat w' % 8 = kLNat w % 8 ∧ kLNat w ≤ kLNat w' ∧ kLNat w' < kLNat w + path.length * 2 ^ 227 + 1 := by
  induction path generalizing w with
  | nil =>
    simp only [deriveSteps] at h
    injection h with h; subst h; simp
  | cons x xs ih =>
    obtain ⟨i, hd⟩ := x
    simp only [deriveSteps] at h
    split at h
    · contradiction
    · rename_i v hv
      have s1 := derivePrivChild_kL pr w v _ (by simpa [derive] using hv)
      have s2 := ih v h
      simp only [List.length_cons, Nat.reducePow] at *
      omega

/-- well-formedness is preserved along private paths of fewer than `2^25` steps from a clamped root -/
theorem deriveSteps_wf (pr : Prims P) (w w' : Node) (path : List (Int × Bool))
    (hw : WFNode pr w) (hb : kLNat w + path.length * 2 ^ 227 < 2 ^ 255)
    (h : deriveSteps pr true w path = some w') : WFNode pr w' := by
  induction path generalizing w with
  | nil =>
    simp only [deriveSteps] at h
    injection h with h; subst h; exact hw
  | cons x xs ih =>
    obtain ⟨i, hd⟩ := x
    simp only [deriveSteps] at h
    split at h
    · contradiction
    · rename_i v hv
      have hv' : derivePrivChild pr w (if hd = true then i + 2 ^ 31 else i) = some v := by simpa [derive] using hv
      have s1 := derivePrivChild_kL pr w v _ hv'
      obtain ⟨_, _, _, hkL, _, _, _⟩ := derivePrivChild_some pr w v _ hv'
      have hz := zLNat_lt pr w (if hd = true then i + 2 ^ 31 else i).toNat
      simp only [List.length_cons, Nat.reducePow] at *
      have wfv : WFNode pr v := derivePrivChild_wf pr w v _ hv' (by simp only [Nat.reducePow]; omega)
      exact ih v wfv (by omega) h


/-! ## signatures of derived keys -/

/-- **extended signing is correct**: what `BIP32ED25519PrivateKey.sign` returns for a well-formed node satisfies the
RFC 8032 verification equation under the node's public key -/
theorem sign_verifies [DecidableEq P] (pr : Prims P) (gl : GroupLaws pr) (w : Node) (hw : WFNode pr w)
    (msg sig : Bytes) (h : signWithNode pr w msg = some sig) : verify pr w.pub msg sig = true := by
  have hx : (w.xprv ++ w.pub ++ w.cc).take 64 = w.xprv := by
    rw [List.append_assoc, List.take_append_of_le_length (by simp [hw.len]), List.take_of_length_le (by simp [hw.len])]
  have op := gl.order_pos
  have ol := gl.order_lt
  have p255 : (2 : Nat) ^ 255 < 256 ^ 32 := by decide
  unfold signWithNode sign at h
  rw [hx] at h
  simp only [] at h
  have hkl : (w.xprv.take 32).length = 32 := by simp [hw.len]
  have hA : scalarmultBaseNoclamp pr (w.xprv.take 32) =
      if kLNat w % pr.order = 0 then none else some (pr.encodePoint (pr.smulBase (kLNat w))) := by
    have := scalarmult_leBytes pr gl (kLNat w) hw.lt
    have e : leBytes 32 (kLNat w) = w.xprv.take 32 := by
      have := leBytes_fromLE (w.xprv.take 32); rwa [hkl] at this
    rwa [e] at this
  rw [hA] at h
  split at h
  · contradiction
  · rename_i A hA'
    split at hA'
    · contradiction
    · injection hA' with hA'
      have hpub : w.pub = A := by rw [hw.pub, hA']
      simp only [scalarReduce] at h
      generalize hr : fromLE (pr.sha512 (w.xprv.drop 32 ++ msg)) % pr.order = rN at h
      have hrlt : rN < pr.order := by rw [← hr]; exact Nat.mod_lt _ op
      rw [scalarmult_leBytes pr gl rN (by omega)] at h
      split at h
      · contradiction
      · rename_i R hR
        split at hR
        · contradiction
        · injection hR with hR
          injection h with h
          generalize hh : fromLE (pr.sha512 (R ++ A ++ msg)) % pr.order = hN at h
          have hhlt : hN < pr.order := by rw [← hh]; exact Nat.mod_lt _ op
          have lR : R.length = 32 := by rw [← hR]; exact gl.enc_len _
          subst h
          have f1 : fromLE (leBytes 32 hN) = hN := by rw [fromLE_leBytes, Nat.mod_eq_of_lt (by omega)]
          have f2 : fromLE (leBytes 32 rN) = rN := by rw [fromLE_leBytes, Nat.mod_eq_of_lt (by omega)]
          have f3 : ∀ x, fromLE (leBytes 32 (x % pr.order)) = x % pr.order := by
            intro x
            have : x % pr.order < pr.order := Nat.mod_lt _ op
            rw [fromLE_leBytes, Nat.mod_eq_of_lt (by omega)]
          unfold verify
          have t : (R ++ scalarAdd pr (scalarMul pr (leBytes 32 hN) (w.xprv.take 32)) (leBytes 32 rN)).take 32 = R := by
            rw [List.take_append_of_le_length (by omega), List.take_of_length_le (by omega)]
          have d : (R ++ scalarAdd pr (scalarMul pr (leBytes 32 hN) (w.xprv.take 32)) (leBytes 32 rN)).drop 32
              = scalarAdd pr (scalarMul pr (leBytes 32 hN) (w.xprv.take 32)) (leBytes 32 rN) := by
            rw [List.drop_append_of_le_length (by omega), List.drop_of_length_le (by omega)]; simp
          simp only [t, d, hpub]
          rw [← hR, ← hA', gl.dec_enc, gl.dec_enc]
          simp only [hR, hA', hh]
          simp only [scalarAdd, scalarMul, f1, f2, f3]
          have e : fromLE (w.xprv.take 32) = kLNat w := rfl
          rw [e]
          simp only [Bool.and_eq_true, decide_eq_true_eq]
          refine ⟨Nat.mod_lt _ op, ?_⟩
          rw [gl.smul_mod, gl.smul_add, gl.smul_mod, gl.smul_smul, gl.add_comm]


/-! ## a toy instance of the primitives satisfying every hypothesis (non-vacuity of `HashLen` and `GroupLaws`) -/

/-- the cyclic group of order 13 with arithmetic "hash functions" -/
def toy : Prims (Fin 13) where
  hmac512 k m := leBytes 64 ((fromLE m * 31 + fromLE k * 7 + 5) * (2 ^ 200 + 977))
  pbkdf2 p s := leBytes 96 ((fromLE s * 131 + fromLE p + 99) * (2 ^ 250 + 3 ^ 100))
  sha512 m := leBytes 64 ((fromLE m * 17 + 3) * (2 ^ 240 + 7 ^ 50))
  smulBase n := Fin.ofNat 13 n
  smul h q := Fin.ofNat 13 (h * q.val)
  pointAdd a b := a + b
  encodePoint p := leBytes 32 (p.val + 1)
  decodePoint b := some (Fin.ofNat 13 (fromLE b + 12))
  order := 13

theorem toy_inf : ∀ r, r < 13 → (isInfEnc (leBytes 32 (r + 1)) = true ↔ r = 0) := by decide +kernel

theorem toy_hashLen : HashLen toy := ⟨fun _ _ => length_leBytes _ _, fun _ _ => length_leBytes _ _⟩

theorem toy_groupLaws : GroupLaws toy where
  smul_add a b := by
    apply Fin.ext
    simp only [toy, Fin.ofNat, Fin.add_def]
    omega
  add_comm p q := by
    apply Fin.ext
    simp only [toy, Fin.add_def]
    omega
  smul_smul h k := by
    apply Fin.ext
    simp only [toy, Fin.ofNat]
    rw [Nat.mul_mod, Nat.mod_mod, ← Nat.mul_mod]
  smul_mod a := by
    apply Fin.ext
    simp only [toy, Fin.ofNat]
    omega
  dec_enc p := by
    have hp := p.isLt
    have : p.val + 1 < 256 ^ 32 := by
      have : (13 : Nat) < 256 ^ 32 := by decide
      omega
    simp only [toy, fromLE_leBytes, Nat.mod_eq_of_lt this]
    congr 1
    apply Fin.ext
    simp only [Fin.ofNat]
    omega
  enc_len p := length_leBytes _ _
  order_pos := by decide
  order_lt := by decide
  inf_iff k := by
    have := toy_inf (k % 13) (Nat.mod_lt _ (by decide))
    simpa [toy, Fin.ofNat] using this

end Pyc.Bip32
