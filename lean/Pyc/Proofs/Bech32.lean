import Pyc.Model.Bech32

/-! Helper lemmas for C15 about `Pyc/Model/Bech32.lean`:
GF(2)-linearity of the checksum register, detection of a single error at any distance from the end (the checksum
step is injective on 30-bit registers), the single-error table over both constants. -/

namespace Pyc.Bech32

/-! ## the checksum step in closed form and its linearity -/

/-- the five conditional xors of one `polymod` step, selected by the bits of `top` -/
def sel (top : Nat) : Nat :=
  (if top.testBit 0 then 0x3B6A57B2 else 0) ^^^ (if top.testBit 1 then 0x26508E6D else 0) ^^^
  (if top.testBit 2 then 0x1EA119FA else 0) ^^^ (if top.testBit 3 then 0x3D4233DD else 0) ^^^
  (if top.testBit 4 then 0x2A1462B3 else 0)

def step (chk v : Nat) : Nat :=
  (((chk &&& 0x1FFFFFF) <<< 5) ^^^ v) ^^^ sel (chk >>> 25)

theorem bit_iff (top i : Nat) : ((top >>> i) &&& 1 ≠ 0) ↔ top.testBit i = true := by
  rw [Nat.and_one_is_mod, Nat.testBit_eq_decide_div_mod_eq, Nat.shiftRight_eq_div_pow]
  simp

theorem polymodStep_eq (c v : Nat) : polymodStep c v = step c v := by
  simp only [polymodStep, step, sel, List.range, List.range.loop, List.foldl, generator, List.getD_cons_zero,
    List.getD_cons_succ, bit_iff]
  simp only [Nat.xor_assoc]

theorem sel_xor (a b : Nat) : sel (a ^^^ b) = sel a ^^^ sel b := by
  unfold sel
  simp only [Nat.testBit_xor]
  cases a.testBit 0 <;> cases b.testBit 0 <;> cases a.testBit 1 <;> cases b.testBit 1 <;>
  cases a.testBit 2 <;> cases b.testBit 2 <;> cases a.testBit 3 <;> cases b.testBit 3 <;>
  cases a.testBit 4 <;> cases b.testBit 4 <;> decide

theorem step_xor (c1 c2 v1 v2 : Nat) : step (c1 ^^^ c2) (v1 ^^^ v2) = step c1 v1 ^^^ step c2 v2 := by
  unfold step
  rw [Nat.shiftRight_xor_distrib, sel_xor, Nat.and_xor_distrib_right, Nat.shiftLeft_xor_distrib]
  ac_rfl

/-- GF(2)-linearity of one checksum step of the model -/
theorem polymodStep_xor (c1 c2 v1 v2 : Nat) :
    polymodStep (c1 ^^^ c2) (v1 ^^^ v2) = polymodStep c1 v1 ^^^ polymodStep c2 v2 := by
  simp only [polymodStep_eq, step_xor]

/-- linearity lifted to equal-length sequences -/
theorem polymodFrom_xor : ∀ (v1 v2 : List Nat) (c1 c2 : Nat), v1.length = v2.length →
    polymodFrom (c1 ^^^ c2) (List.zipWith (· ^^^ ·) v1 v2) = polymodFrom c1 v1 ^^^ polymodFrom c2 v2
  | [], [], _, _, _ => rfl
  | [], _ :: _, _, _, h => by simp at h
  | _ :: _, [], _, _, h => by simp at h
  | x :: v1, y :: v2, c1, c2, h => by
    simp only [List.zipWith_cons_cons, polymodFrom]
    rw [polymodStep_xor]
    exact polymodFrom_xor v1 v2 _ _ (by simpa using h)

theorem polymodFrom_append (c : Nat) (a b : List Nat) :
    polymodFrom c (a ++ b) = polymodFrom (polymodFrom c a) b := by
  induction a generalizing c with
  | nil => rfl
  | cons x a ih => simp [polymodFrom, ih]

theorem polymodStep_zero_zero : polymodStep 0 0 = 0 := by decide

theorem polymodFrom_zeros (k : Nat) : polymodFrom 0 (List.replicate k 0) = 0 := by
  induction k with
  | zero => rfl
  | succ k ih => simp [List.replicate_succ, polymodFrom, polymodStep_zero_zero, ih]

theorem polymodStep_zero (e : Nat) : polymodStep 0 e = e := by
  rw [polymodStep_eq]
  simp [step, sel]

theorem zipWith_xor_self (l : List Nat) : List.zipWith (· ^^^ ·) l l = List.replicate l.length 0 := by
  induction l with
  | nil => rfl
  | cons x l ih => simp only [List.zipWith_cons_cons, Nat.xor_self, List.length_cons, List.replicate_succ, ih]

/-! ## one checksum step is injective on 30-bit registers: a single error is detected at ANY distance from the end -/

theorem xor_eq_zero {a b : Nat} (h : a ^^^ b = 0) : a = b := by
  have : a = (a ^^^ b) ^^^ b := by rw [Nat.xor_assoc, Nat.xor_self, Nat.xor_zero]
  rw [this, h, Nat.zero_xor]

theorem sel_zero : sel 0 = 0 := by decide

theorem sel_lt (top : Nat) : sel top < 2 ^ 30 := by
  unfold sel
  repeat' apply Nat.xor_lt_two_pow
  all_goals split <;> decide

theorem step_lt (c v : Nat) (hv : v < 2 ^ 30) : step c v < 2 ^ 30 := by
  unfold step
  apply Nat.xor_lt_two_pow _ (sel_lt _)
  apply Nat.xor_lt_two_pow _ hv
  rw [show (0x1FFFFFF : Nat) = 2 ^ 25 - 1 by decide, Nat.and_two_pow_sub_one_eq_mod, Nat.shiftLeft_eq]
  have := Nat.mod_lt c (Nat.two_pow_pos 25)
  omega

/-- the low five bits of the generator constants are linearly independent over GF(2) (the constant coefficient of
g(x) is a non-zero element of GF(32)): only `top = 0` selects a combination whose low five bits vanish -/
theorem sel_low : ∀ top, top < 32 → sel top % 32 = 0 → top = 0 := by decide

/-- multiplying a non-zero residue by `x` (one step with symbol 0) gives a non-zero residue -/
theorem step_zero_ne (c : Nat) (hc : c < 2 ^ 30) (h0 : c ≠ 0) : step c 0 ≠ 0 := by
  intro h
  unfold step at h
  rw [Nat.xor_zero] at h
  have e := xor_eq_zero h
  rw [show (0x1FFFFFF : Nat) = 2 ^ 25 - 1 by decide, Nat.and_two_pow_sub_one_eq_mod, Nat.shiftLeft_eq,
    Nat.shiftRight_eq_div_pow] at e
  have ht : c / 2 ^ 25 < 32 := by omega
  have hs : sel (c / 2 ^ 25) % 32 = 0 := by rw [← e]; omega
  have t0 := sel_low _ ht hs
  rw [t0, sel_zero] at e
  omega

theorem polymodFrom_zeros_ne : ∀ (k c : Nat), c < 2 ^ 30 → c ≠ 0 → polymodFrom c (List.replicate k 0) ≠ 0
  | 0, _, _, h0 => h0
  | k + 1, c, hc, h0 => by
    simp only [List.replicate_succ, polymodFrom, polymodStep_eq]
    exact polymodFrom_zeros_ne k _ (step_lt c 0 (by decide)) (step_zero_ne c hc h0)

/-! ## the single-error table -/

/-- checksum residue of the single-symbol error `e` placed `k` symbols before the end -/
def errRes (e k : Nat) : Nat := polymodFrom 0 (e :: List.replicate k 0)

/-- two strings of 5-bit values that differ in one symbol have residues that differ by `errRes` -/
theorem polymod_subst (c : Nat) (pre suf : List Nat) (x x' : Nat) :
    polymodFrom c (pre ++ x :: suf) ^^^ polymodFrom c (pre ++ x' :: suf) = errRes (x ^^^ x') suf.length := by
  rw [← polymodFrom_xor _ _ _ _ (by simp), Nat.xor_self, List.zipWith_append rfl, zipWith_xor_self,
    List.zipWith_cons_cons, zipWith_xor_self, polymodFrom_append, polymodFrom_zeros]
  rfl

/-- a residue is harmless when it maps neither accepted constant to an accepted constant -/
def okRes (r : Nat) : Bool := r != 0 && r != (1 ^^^ bech32mConst)

/-- `runOk n r`: the residues `r, r·x, …, r·x^(n-1)` are all harmless -/
def runOk : Nat → Nat → Bool
  | 0, _ => true
  | n + 1, r => okRes r && runOk n (polymodStep r 0)

/-- the whole table: every error value `1..31` at every distance `< maxLen` from the end -/
def tableOk (maxLen : Nat) : Bool := (List.range 31).all fun e' => runOk maxLen (e' + 1)

theorem table_ok : tableOk 130 = true := by decide +kernel

theorem runOk_spec : ∀ (n r : Nat), runOk n r = true → ∀ k, k < n → okRes (polymodFrom r (List.replicate k 0)) = true
  | 0, _, _, k, hk => by omega
  | n + 1, r, h, k, hk => by
    simp only [runOk, Bool.and_eq_true] at h
    cases k with
    | zero => exact h.1
    | succ k =>
      simp only [List.replicate_succ, polymodFrom]
      exact runOk_spec n _ h.2 k (by omega)

theorem errRes_ok (e k : Nat) (he1 : 1 ≤ e) (he : e < 32) (hk : k < 130) : okRes (errRes e k) = true := by
  have h := table_ok
  simp only [tableOk, List.all_eq_true, List.mem_range] at h
  have h1 := h (e - 1) (by omega)
  rw [show e - 1 + 1 = e by omega] at h1
  have := runOk_spec _ _ h1 k hk
  simpa [errRes, polymodFrom, polymodStep_zero] using this

/-- a single-symbol error never has residue 0, however far from the end of the string it is -/
theorem errRes_ne_zero (e k : Nat) (he1 : 1 ≤ e) (he : e < 2 ^ 30) : errRes e k ≠ 0 := by
  unfold errRes
  simp only [polymodFrom, polymodStep_zero]
  exact polymodFrom_zeros_ne k e he (by omega)

/-- a register value is accepted by `bech32_decode`: the Bech32 constant only -/
def Accepted (r : Nat) : Prop := r = 1

/-- one substituted 5-bit symbol turns an accepted residue into a rejected one (strings of any length) -/
theorem subst_not_accepted (c : Nat) (pre suf : List Nat) (x x' : Nat) (hx : x < 32) (hx' : x' < 32) (hne : x ≠ x')
    (h : Accepted (polymodFrom c (pre ++ x :: suf))) :
    ¬ Accepted (polymodFrom c (pre ++ x' :: suf)) := by
  intro h'
  have he : x ^^^ x' < 32 := Nat.xor_lt_two_pow (n := 5) hx hx'
  have he1 : 1 ≤ x ^^^ x' := by
    rcases Nat.eq_zero_or_pos (x ^^^ x') with h0 | h0
    · exact absurd (xor_eq_zero h0) hne
    · exact h0
  have ok := errRes_ne_zero _ suf.length he1 (by omega)
  rw [← polymod_subst c pre suf x x'] at ok
  unfold Accepted at h h'
  rw [h, h'] at ok
  exact ok (by decide)

end Pyc.Bech32
