import Pyc.Model.BodyAsm
import Pyc.Proofs.Sort

/-! Helper lemmas for `Pyc/Props/C06_BodyAsm.lean`: `oset` (the `OrderedSet` constructor) keeps exactly the elements of
its argument, once each, in order of first occurrence; sums over lists; the pieces of the ledger / state bridge. -/

namespace Pyc.BodyAsm
open Pyc Pyc.Builder

section oset
variable {α : Type} [DecidableEq α]

theorem mem_foldl_addIfAbsent (l : List α) (acc : List α) (x : α) :
    x ∈ l.foldl Rd.addIfAbsent acc ↔ x ∈ acc ∨ x ∈ l := by
  induction l generalizing acc with
  | nil => simp
  | cons a l ih =>
    simp only [List.foldl_cons, ih, Rd.addIfAbsent]
    by_cases h : a ∈ acc
    · simp only [h, if_true, List.mem_cons]
      constructor
      · rintro (h1 | h1)
        · exact Or.inl h1
        · exact Or.inr (Or.inr h1)
      · rintro (h1 | h1 | h1)
        · exact Or.inl h1
        · exact Or.inl (h1 ▸ h)
        · exact Or.inr h1
    · simp only [h, if_false, List.mem_append, List.mem_cons, List.not_mem_nil, or_false]
      constructor
      · rintro ((h1 | h1) | h1)
        · exact Or.inl h1
        · exact Or.inr (Or.inl h1)
        · exact Or.inr (Or.inr h1)
      · rintro (h1 | h1 | h1)
        · exact Or.inl (Or.inl h1)
        · exact Or.inl (Or.inr h1)
        · exact Or.inr h1

theorem nodup_foldl_addIfAbsent (l : List α) (acc : List α) (h : acc.Nodup) :
    (l.foldl Rd.addIfAbsent acc).Nodup := by
  induction l generalizing acc with
  | nil => simpa using h
  | cons a l ih =>
    simp only [List.foldl_cons]
    apply ih
    unfold Rd.addIfAbsent
    by_cases ha : a ∈ acc
    · simpa [ha] using h
    · simp only [ha, if_false]
      rw [List.nodup_append]
      refine ⟨h, by simp, ?_⟩
      intro x hx y hy hxy
      simp only [List.mem_singleton] at hy
      subst hy; subst hxy
      exact ha hx

/-- the accumulator is a prefix of the result and what is appended is a sub-list of the argument -/
theorem foldl_addIfAbsent_sublist (l : List α) (acc : List α) :
    ∃ t, t.Sublist l ∧ l.foldl Rd.addIfAbsent acc = acc ++ t := by
  induction l generalizing acc with
  | nil => exact ⟨[], List.Sublist.refl _, by simp⟩
  | cons a l ih =>
    simp only [List.foldl_cons]
    by_cases ha : a ∈ acc
    · obtain ⟨t, ht, he⟩ := ih acc
      refine ⟨t, ht.cons a, ?_⟩
      simp only [Rd.addIfAbsent, ha, if_true]
      exact he
    · obtain ⟨t, ht, he⟩ := ih (acc ++ [a])
      refine ⟨a :: t, ht.cons_cons a, ?_⟩
      simp only [Rd.addIfAbsent, ha, if_false]
      rw [he]; simp

theorem foldl_addIfAbsent_of_nodup (l : List α) (acc : List α) (h : (acc ++ l).Nodup) :
    l.foldl Rd.addIfAbsent acc = acc ++ l := by
  induction l generalizing acc with
  | nil => simp
  | cons a l ih =>
    have ha : a ∉ acc := by
      intro hm
      rw [List.nodup_append] at h
      exact h.2.2 a hm a (by simp) rfl
    simp only [List.foldl_cons, Rd.addIfAbsent, ha, if_false]
    rw [ih (acc ++ [a]) (by simpa [List.append_assoc] using h)]
    simp

theorem mem_oset (l : List α) (x : α) : x ∈ oset l ↔ x ∈ l := by
  unfold oset; rw [mem_foldl_addIfAbsent]; simp

theorem nodup_oset (l : List α) : (oset l).Nodup := nodup_foldl_addIfAbsent l [] List.nodup_nil

theorem oset_sublist (l : List α) : (oset l).Sublist l := by
  obtain ⟨t, ht, he⟩ := foldl_addIfAbsent_sublist l []
  unfold oset; rw [he]; simpa using ht

theorem oset_of_nodup (l : List α) (h : l.Nodup) : oset l = l := by
  unfold oset; rw [foldl_addIfAbsent_of_nodup l [] (by simpa using h)]; simp

theorem oset_idem (l : List α) : oset (oset l) = oset l := oset_of_nodup _ (nodup_oset l)

theorem oset_eq_nil (l : List α) : oset l = [] ↔ l = [] := by
  constructor
  · intro h
    cases l with
    | nil => rfl
    | cons a l =>
      have : a ∈ oset (a :: l) := (mem_oset _ _).2 (by simp)
      rw [h] at this; simp at this
  · intro h; subst h; rfl

end oset

/-- `oset` on transaction inputs is the de-duplication `Rd.bodyInputs` that C11 states its rank theorems about -/
theorem foldl_addIfAbsent_eq_bodyInputs (l acc : List Rd.TxIn) :
    l.foldl Rd.addIfAbsent acc = acc ++ (Rd.bodyInputs l).filter (fun y => decide (y ∉ acc)) := by
  induction l generalizing acc with
  | nil => simp [Rd.bodyInputs]
  | cons a t ih =>
    simp only [List.foldl_cons, Rd.bodyInputs, Rd.addIfAbsent]
    by_cases ha : a ∈ acc
    · simp only [ha, if_true, ih, List.filter_cons, not_true_eq_false, decide_false, Bool.false_eq_true, if_false,
        List.filter_filter]
      congr 1
      apply List.filter_congr
      intro y _
      by_cases hy : y ∈ acc
      · simp [hy]
      · have : y ≠ a := fun h => hy (h ▸ ha)
        simp [hy, this]
    · simp only [ha, if_false, ih, List.filter_cons, not_false_eq_true, decide_true, if_true, List.filter_filter,
        List.append_assoc, List.singleton_append]
      congr 2
      apply List.filter_congr
      intro y _
      by_cases hy : y ∈ acc
      · simp [hy]
      · by_cases hya : y = a
        · simp [hya]
        · simp [hy, hya]

theorem oset_eq_bodyInputs (l : List Rd.TxIn) : oset l = Rd.bodyInputs l := by
  unfold oset
  rw [foldl_addIfAbsent_eq_bodyInputs]
  simp

/-! ## sums -/

theorem sum_map_sub {α : Type} (f g : α → Int) (l : List α) :
    (l.map fun x => f x - g x).sum = (l.map f).sum - (l.map g).sum := by
  induction l with
  | nil => simp
  | cons a l ih => simp only [List.map_cons, List.sum_cons, ih]; omega

theorem sum_map_congr {α : Type} (f g : α → Int) (l : List α) (h : ∀ x ∈ l, f x = g x) :
    (l.map f).sum = (l.map g).sum := by
  induction l with
  | nil => rfl
  | cons a l ih =>
    simp only [List.map_cons, List.sum_cons]
    rw [h a (by simp), ih (fun x hx => h x (by simp [hx]))]

theorem sum_map_perm {α : Type} (f : α → Int) {l₁ l₂ : List α} (h : l₁.Perm l₂) :
    (l₁.map f).sum = (l₂.map f).sum := by
  induction h with
  | nil => rfl
  | cons a _ ih => simp only [List.map_cons, List.sum_cons, ih]
  | swap a b l => simp only [List.map_cons, List.sum_cons]; omega
  | trans _ _ ih1 ih2 => rw [ih1, ih2]

/-! ## the truthiness helpers -/

theorem truthyInt_getD (o : Option Int) : (truthyInt o).getD 0 = o.getD 0 := by
  cases o with
  | none => rfl
  | some n =>
    by_cases h : n = 0
    · subst h; rfl
    · simp [truthyInt, h]

theorem truthyList_getD {α : Type} (o : Option (List α)) : (truthyList o).getD [] = o.getD [] := by
  cases o with
  | none => rfl
  | some l =>
    cases l with
    | nil => rfl
    | cons a l => rfl

theorem truthyInt_eq_none (o : Option Int) : truthyInt o = none ↔ o.getD 0 = 0 := by
  cases o with
  | none => simp [truthyInt]
  | some n =>
    by_cases h : n = 0
    · subst h; simp [truthyInt]
    · simp [truthyInt, h]

theorem truthyInt_eq_some (o : Option Int) (d : Int) : truthyInt o = some d ↔ o = some d ∧ d ≠ 0 := by
  cases o with
  | none => simp [truthyInt]
  | some n =>
    by_cases h : n = 0
    · subst h
      simp only [truthyInt, if_true, Option.some.injEq]
      constructor
      · intro h'; cases h'
      · rintro ⟨h1, h2⟩; exact absurd h1.symm h2
    · simp only [truthyInt, h, if_false, Option.some.injEq]
      constructor
      · intro h'; subst h'; exact ⟨rfl, h⟩
      · rintro ⟨h1, _⟩; exact h1

theorem truthyList_eq_none {α : Type} (o : Option (List α)) : truthyList o = none ↔ o.getD [] = [] := by
  cases o with
  | none => simp [truthyList]
  | some l => cases l <;> simp [truthyList]

theorem truthyList_eq_some {α : Type} (o : Option (List α)) (l : List α) :
    truthyList o = some l ↔ o = some l ∧ l ≠ [] := by
  cases o with
  | none => simp [truthyList]
  | some l' =>
    cases l' with
    | nil =>
      simp only [truthyList, List.isEmpty_nil, if_true, Option.some.injEq]
      constructor
      · intro h; cases h
      · rintro ⟨h1, h2⟩; exact absurd h1.symm h2
    | cons a t =>
      simp only [truthyList, List.isEmpty_cons, Bool.false_eq_true, if_false, Option.some.injEq]
      constructor
      · intro h; subst h; exact ⟨rfl, by simp⟩
      · rintro ⟨h1, _⟩; exact h1

theorem whenNonEmpty_eq_none {α β : Type} (l : List α) (f : List α → β) : whenNonEmpty l f = none ↔ l = [] := by
  cases l <;> simp [whenNonEmpty]

theorem whenNonEmpty_getD {α β : Type} (l : List α) (f : List α → List β) (h : f [] = []) :
    (whenNonEmpty l f).getD [] = f l := by
  cases l with
  | nil => simp [whenNonEmpty, h]
  | cons a l => simp [whenNonEmpty]

theorem isSome_truthyInt (o : Option Int) : (truthyInt o).isSome = true ↔ o.getD 0 ≠ 0 := by
  cases o with
  | none => simp [truthyInt]
  | some n => by_cases h : n = 0 <;> simp [truthyInt, h]

/-- membership in the list of keys written, without unfolding the body -/
theorem mem_keys (b : Body) (k : Nat) : k ∈ b.keys ↔
    (k = 0 ∨ k = 1 ∨ k = 2 ∨ (b.ttl.isSome ∧ k = 3) ∨ (b.certificates.isSome ∧ k = 4) ∨ (b.withdrawals.isSome ∧ k = 5)
      ∨ (b.update.isSome ∧ k = 6) ∨ (b.auxHashPre.isSome ∧ k = 7) ∨ (b.validityStart.isSome ∧ k = 8) ∨ (b.mint.isSome ∧ k = 9)
      ∨ (b.scriptDataPre.isSome ∧ k = 11) ∨ (b.collateral.isSome ∧ k = 13) ∨ (b.requiredSigners.isSome ∧ k = 14)
      ∨ (b.networkId.isSome ∧ k = 15) ∨ (b.collateralReturn.isSome ∧ k = 16) ∨ (b.totalCollateral.isSome ∧ k = 17)
      ∨ (b.referenceInputs.isSome ∧ k = 18) ∨ (b.voting.isSome ∧ k = 19) ∨ (b.proposals.isSome ∧ k = 20)
      ∨ (b.treasury.isSome ∧ k = 21) ∨ (b.donation.isSome ∧ k = 22)) := by
  simp [Body.keys]

/-! ## the fields of `buildBody` that are not the state's attribute itself -/

theorem body_inputs (s : BState) : (buildBody s).inputs = oset (s.inputs.map (·.ref)) := rfl
theorem body_requiredSigners (s : BState) : (buildBody s).requiredSigners = (truthyList s.requiredSigners).map oset := rfl
theorem body_collateral (s : BState) :
    (buildBody s).collateral = whenNonEmpty s.collaterals (fun l => oset (l.map (·.ref))) := rfl
theorem body_referenceInputs (s : BState) :
    (buildBody s).referenceInputs = whenNonEmpty s.referenceInputs (fun l => oset (l.map RefEntry.ref)) := rfl
theorem body_voting (s : BState) : (buildBody s).voting = truthyList s.voting := rfl
theorem body_proposals (s : BState) : (buildBody s).proposals = truthyList s.proposals := rfl
theorem body_treasury (s : BState) : (buildBody s).treasury = truthyInt s.treasury := rfl
theorem body_donation (s : BState) : (buildBody s).donation = truthyInt s.donation := rfl

theorem body_referenceInputs_getD (s : BState) :
    (buildBody s).referenceInputs.getD [] = oset (s.referenceInputs.map RefEntry.ref) := by
  rw [body_referenceInputs]; exact whenNonEmpty_getD _ _ rfl

theorem body_collateral_getD (s : BState) :
    (buildBody s).collateral.getD [] = oset (s.collaterals.map (·.ref)) := by
  rw [body_collateral]; exact whenNonEmpty_getD _ _ rfl

/-! ## deposits: what the certificates pay minus what they release is the builder's key-deposit total -/

theorem certDeposit_sub_refund (P : Params) (ip : Bool) (c : CertD) :
    Ledger.certDeposit P ip c - Ledger.certRefund P c =
      (match c with
       | .stakeReg _ => P.keyDeposit
       | .stakeDereg => -P.keyDeposit
       | .explicitDeposit k => k
       | .explicitRefund k => -k
       | .poolReg _ => if ip then P.poolDeposit else 0
       | .other => 0) := by
  cases c <;> simp [Ledger.certDeposit, Ledger.certRefund]

end Pyc.BodyAsm
