import Pyc.Model.Collateral
import Pyc.Proofs.Value

/-! Lemmas about `Pyc/Model/Collateral.lean`: the sort is a permutation, the loop appends an eligible sub-list of its
candidate list, sums of a list of UTxOs, case analysis of `finish` / `run`, the body's de-duplication. -/

namespace Pyc.Collateral
open Pyc

/-! ## sorting -/

theorem insertSorted_perm (x : Utxo) (l : List Utxo) : (insertSorted x l).Perm (x :: l) := by
  induction l with
  | nil => simp [insertSorted]
  | cons y r ih =>
    simp only [insertSorted]
    split
    · exact List.Perm.refl _
    · exact (List.Perm.cons y ih).trans (List.Perm.swap x y r)

theorem sortCands_perm (l : List Utxo) : (sortCands l).Perm l := by
  induction l with
  | nil => simp [sortCands]
  | cons x r ih =>
    show (insertSorted x (sortCands r)).Perm (x :: r)
    exact (insertSorted_perm x _).trans (List.Perm.cons x ih)

theorem popOrder_perm (l : List Utxo) : (popOrder l).Perm l :=
  (List.reverse_perm _).trans (sortCands_perm l)

theorem mem_popOrder (l : List Utxo) (u : Utxo) : u ∈ popOrder l ↔ u ∈ l := (popOrder_perm l).mem_iff

/-- the key order is total and transitive (a lexicographic order on `(length, -coin)`) -/
theorem keyLe_total (a b : Utxo) : keyLe a b = true ∨ keyLe b a = true := by
  simp only [keyLe, Bool.or_eq_true, Bool.and_eq_true, decide_eq_true_eq, beq_iff_eq]
  omega

theorem keyLe_trans (a b c : Utxo) (h1 : keyLe a b = true) (h2 : keyLe b c = true) : keyLe a c = true := by
  simp only [keyLe, Bool.or_eq_true, Bool.and_eq_true, decide_eq_true_eq, beq_iff_eq] at *
  omega

theorem insertSorted_sorted (x : Utxo) (l : List Utxo) (h : l.Pairwise (fun a b => keyLe a b = true)) :
    (insertSorted x l).Pairwise (fun a b => keyLe a b = true) := by
  induction l with
  | nil => simp [insertSorted]
  | cons y r ih =>
    simp only [insertSorted]
    obtain ⟨hy, hr⟩ := List.pairwise_cons.1 h
    split
    · rename_i hxy
      refine List.Pairwise.cons ?_ h
      intro z hz
      rcases List.mem_cons.1 hz with rfl | hz
      · exact hxy
      · exact keyLe_trans _ _ _ hxy (hy z hz)
    · rename_i hxy
      have hyx : keyLe y x = true := by
        rcases keyLe_total x y with h' | h'
        · exact absurd h' hxy
        · exact h'
      refine List.Pairwise.cons ?_ (ih hr)
      intro z hz
      rcases List.mem_cons.1 ((insertSorted_perm x r).subset hz) with rfl | hz
      · exact hyx
      · exact hy z hz

/-- `sorted(...)` is sorted by the key -/
theorem sortCands_sorted (l : List Utxo) : (sortCands l).Pairwise (fun a b => keyLe a b = true) := by
  induction l with
  | nil => simp [sortCands]
  | cons x r ih => exact insertSorted_sorted x _ ih

/-! ## sums -/

/-- Σ lovelace of a list of UTxOs (with multiplicity) -/
def coinSum (l : List Utxo) : Int := (l.map (fun u => u.out.amount.coin)).sum

/-- Σ quantity of asset `(p, n)` of a list of UTxOs (with multiplicity) -/
def qtySum (l : List Utxo) (p n : Bytes) : Int := (l.map (fun u => Value.qty u.out.amount p n)).sum

@[simp] theorem coinSum_nil : coinSum [] = 0 := rfl
@[simp] theorem coinSum_cons (u : Utxo) (l : List Utxo) : coinSum (u :: l) = u.out.amount.coin + coinSum l := by
  simp [coinSum]
@[simp] theorem qtySum_nil (p n : Bytes) : qtySum [] p n = 0 := rfl
@[simp] theorem qtySum_cons (u : Utxo) (l : List Utxo) (p n : Bytes) :
    qtySum (u :: l) p n = Value.qty u.out.amount p n + qtySum l p n := by
  simp [qtySum]

theorem foldl_add_coin (l : List Utxo) (acc : Value) :
    (l.foldl (fun acc u => Value.add acc u.out.amount) acc).coin = acc.coin + coinSum l := by
  induction l generalizing acc with
  | nil => simp
  | cons u r ih =>
    simp only [List.foldl_cons, coinSum_cons]
    rw [ih]
    simp only [Value.add]
    omega

theorem foldl_add_qty (l : List Utxo) (acc : Value) (hacc : Value.WF acc) (hl : ∀ u ∈ l, Value.WF u.out.amount) :
    Value.WF (l.foldl (fun acc u => Value.add acc u.out.amount) acc) ∧
    ∀ p n, Value.qty (l.foldl (fun acc u => Value.add acc u.out.amount) acc) p n = Value.qty acc p n + qtySum l p n := by
  induction l generalizing acc with
  | nil => exact ⟨hacc, by simp⟩
  | cons u r ih =>
    simp only [List.foldl_cons, qtySum_cons]
    have hu := hl u (by simp)
    have hacc' : Value.WF (Value.add acc u.out.amount) := MultiAsset.wf_add _ _ hacc
    obtain ⟨h1, h2⟩ := ih (Value.add acc u.out.amount) hacc' (fun v hv => hl v (by simp [hv]))
    refine ⟨h1, fun p n => ?_⟩
    rw [h2 p n]
    have : Value.qty (Value.add acc u.out.amount) p n = Value.qty acc p n + Value.qty u.out.amount p n :=
      MultiAsset.qty_add acc.ma u.out.amount.ma p n hacc hu
    rw [this]; omega

theorem sumAmounts_coin (l : List Utxo) : (sumAmounts l).coin = coinSum l := by
  unfold sumAmounts; rw [foldl_add_coin]; simp

theorem qty_zero (p n : Bytes) : Value.qty ⟨0, []⟩ p n = 0 := by
  simp [Value.qty, MultiAsset.qty, Dict.getD, Asset.qty]

theorem sumAmounts_qty (l : List Utxo) (hl : ∀ u ∈ l, Value.WF u.out.amount) :
    Value.WF (sumAmounts l) ∧ ∀ p n, Value.qty (sumAmounts l) p n = qtySum l p n := by
  unfold sumAmounts
  obtain ⟨h1, h2⟩ := foldl_add_qty l ⟨0, []⟩ MultiAsset.wf_nil hl
  refine ⟨h1, fun p n => ?_⟩
  rw [h2 p n, qty_zero]; omega

theorem subInt_coin (v : Value) (n : Int) : (subInt v n).coin = v.coin - n := rfl

theorem subInt_qty (v : Value) (k : Int) (hv : Value.WF v) (p n : Bytes) :
    Value.qty (subInt v k) p n = Value.qty v p n := by
  have := MultiAsset.qty_sub v.ma [] p n hv MultiAsset.wf_nil
  simp only [Value.qty, subInt, Value.sub]
  rw [this]
  simp [MultiAsset.qty, Dict.getD, Asset.qty]

theorem coinSum_perm {l₁ l₂ : List Utxo} (h : l₁.Perm l₂) : coinSum l₁ = coinSum l₂ := by
  induction h with
  | nil => rfl
  | cons x _ ih => simp [ih]
  | swap x y l => simp; omega
  | trans _ _ ih1 ih2 => rw [ih1, ih2]

/-! ## the loop -/

/-- `_add_collateral_input` appends, in pop order, an eligible sub-list of its candidate list, and the running total
it hands back is the old total plus exactly those amounts -/
theorem walk_spec (cpb amt thr : Int) (addr : Bytes) (cs : List Utxo) (total ret : Value) (chosen : List Utxo) :
    ∃ ys, (walk cpb amt thr addr cs total ret chosen).2 = chosen ++ ys ∧ ys.Sublist cs ∧
      (∀ u ∈ ys, eligible u = true) ∧
      (walk cpb amt thr addr cs total ret chosen).1 = ys.foldl (fun acc u => Value.add acc u.out.amount) total := by
  induction cs generalizing total ret chosen with
  | nil => exact ⟨[], by simp [walk]⟩
  | cons c rest ih =>
    simp only [walk]
    split
    · split
      · rename_i hc
        simp only [Bool.and_eq_true] at hc
        obtain ⟨ys, h1, h2, h3, h4⟩ := ih (Value.add total c.out.amount) (subInt (Value.add total c.out.amount) amt)
          (chosen ++ [c])
        refine ⟨c :: ys, ?_, h2.cons_cons c, ?_, ?_⟩
        · rw [h1]; simp
        · intro u hu
          rcases List.mem_cons.1 hu with rfl | hu
          · exact hc.1
          · exact h3 u hu
        · rw [h4]; rfl
      · obtain ⟨ys, h1, h2, h3, h4⟩ := ih total ret chosen
        exact ⟨ys, h1, h2.cons c, h3, h4⟩
    · exact ⟨[], by simp⟩

/-- the three stages: an eligible sub-list of each candidate list in pop order, concatenated -/
theorem selectAuto_spec (cpb amt thr : Int) (addr : Bytes) (st : State) :
    ∃ y1 y2 y3, selectAuto cpb amt thr addr st = y1 ++ y2 ++ y3 ∧ y1.Sublist (popOrder st.inputs) ∧
      y2.Sublist (popOrder st.potential) ∧ y3.Sublist (popOrder st.addrUtxos) ∧
      ∀ u ∈ y1 ++ y2 ++ y3, eligible u = true := by
  simp only [selectAuto]
  obtain ⟨y1, a1, b1, c1, _⟩ := walk_spec cpb amt thr addr (popOrder st.inputs) ⟨0, []⟩ (subInt ⟨0, []⟩ amt) []
  generalize walk cpb amt thr addr (popOrder st.inputs) ⟨0, []⟩ (subInt ⟨0, []⟩ amt) [] = s1 at a1 ⊢
  simp only [List.nil_append] at a1
  -- stage 2
  have h2 : ∃ y2, (if s1.1.coin < amt then walk cpb amt thr addr (popOrder st.potential) s1.1 (subInt s1.1 amt) s1.2
      else s1).2 = y1 ++ y2 ∧ y2.Sublist (popOrder st.potential) ∧ ∀ u ∈ y2, eligible u = true := by
    split
    · obtain ⟨y2, a2, b2, c2, _⟩ := walk_spec cpb amt thr addr (popOrder st.potential) s1.1 (subInt s1.1 amt) s1.2
      exact ⟨y2, by rw [a2, a1], b2, c2⟩
    · exact ⟨[], by simp [a1], List.nil_sublist _, by simp⟩
  obtain ⟨y2, a2, b2, c2⟩ := h2
  generalize (if s1.1.coin < amt then walk cpb amt thr addr (popOrder st.potential) s1.1 (subInt s1.1 amt) s1.2
      else s1) = s2 at a2 ⊢
  have h3 : ∃ y3, (if s2.1.coin < amt then walk cpb amt thr addr (popOrder st.addrUtxos) s2.1 (subInt s2.1 amt) s2.2
      else s2).2 = y1 ++ y2 ++ y3 ∧ y3.Sublist (popOrder st.addrUtxos) ∧ ∀ u ∈ y3, eligible u = true := by
    split
    · obtain ⟨y3, a3, b3, c3, _⟩ := walk_spec cpb amt thr addr (popOrder st.addrUtxos) s2.1 (subInt s2.1 amt) s2.2
      exact ⟨y3, by rw [a3, a2], b3, c3⟩
    · exact ⟨[], by simp [a2], List.nil_sublist _, by simp⟩
  obtain ⟨y3, a3, b3, c3⟩ := h3
  refine ⟨y1, y2, y3, a3, b1, b2, b3, ?_⟩
  intro u hu
  simp only [List.mem_append] at hu
  rcases hu with (hu | hu) | hu
  · exact c1 u hu
  · exact c2 u hu
  · exact c3 u hu

/-- the automatic selection is a sub-list of the three candidate lists in pop order, concatenated -/
theorem selectAuto_sublist (cpb amt thr : Int) (addr : Bytes) (st : State) :
    (selectAuto cpb amt thr addr st).Sublist (popOrder st.inputs ++ popOrder st.potential ++ popOrder st.addrUtxos) := by
  obtain ⟨y1, y2, y3, h, b1, b2, b3, _⟩ := selectAuto_spec cpb amt thr addr st
  rw [h]
  exact (b1.append b2).append b3

theorem selectAuto_eligible (cpb amt thr : Int) (addr : Bytes) (st : State) :
    ∀ u ∈ selectAuto cpb amt thr addr st, eligible u = true := by
  obtain ⟨y1, y2, y3, h, _, _, _, e⟩ := selectAuto_spec cpb amt thr addr st
  rw [h]; exact e

/-! ### a UTxO is not taken twice -/

/-- the candidate lists are views of one ledger state: a reference identifies one UTxO — two entries with the same
`TransactionInput` are equal for `UTxO.__eq__` (in particular when they are the same object) -/
def RefConsistent (all : List Utxo) : Prop := ∀ u ∈ all, ∀ v ∈ all, u.ref = v.ref → Utxo.same u v = true

theorem isIn_false (c : Utxo) (l : List Utxo) (h : isIn c l = false) : ∀ x ∈ l, Utxo.same x c = false := by
  intro x hx
  simp only [isIn, List.any_eq_false] at h
  simpa using h x hx

/-- the loop keeps the chosen references pairwise distinct -/
theorem walk_nodup (all : List Utxo) (hcons : RefConsistent all) (cpb amt thr : Int) (addr : Bytes) (cs : List Utxo)
    (total ret : Value) (chosen : List Utxo) (hcs : ∀ u ∈ cs, u ∈ all) (hch : ∀ u ∈ chosen, u ∈ all)
    (hnd : (chosen.map Utxo.ref).Nodup) :
    ((walk cpb amt thr addr cs total ret chosen).2.map Utxo.ref).Nodup := by
  induction cs generalizing total ret chosen with
  | nil => simpa [walk] using hnd
  | cons c rest ih =>
    simp only [walk]
    have hrest : ∀ u ∈ rest, u ∈ all := fun u hu => hcs u (by simp [hu])
    split
    · split
      · rename_i hc
        simp only [Bool.and_eq_true, Bool.not_eq_true'] at hc
        apply ih _ _ _ hrest
        · intro u hu
          rcases List.mem_append.1 hu with hu | hu
          · exact hch u hu
          · simp only [List.mem_singleton] at hu; subst hu; exact hcs u (by simp)
        · rw [List.map_append, List.nodup_append]
          refine ⟨hnd, by simp, ?_⟩
          intro a ha b hb
          simp only [List.map_cons, List.map_nil, List.mem_singleton] at hb
          subst hb
          obtain ⟨x, hx, rfl⟩ := List.mem_map.1 ha
          intro he
          have h1 := hcons x (hch x hx) c (hcs c (by simp)) he
          have h2 := isIn_false c chosen hc.2 x hx
          rw [h1] at h2; cases h2
      · exact ih _ _ _ hrest hch hnd
    · exact hnd

theorem walk_subset (all : List Utxo) (cpb amt thr : Int) (addr : Bytes) (cs : List Utxo) (total ret : Value)
    (chosen : List Utxo) (hcs : ∀ u ∈ cs, u ∈ all) (hch : ∀ u ∈ chosen, u ∈ all) :
    ∀ u ∈ (walk cpb amt thr addr cs total ret chosen).2, u ∈ all := by
  obtain ⟨ys, h1, h2, _, _⟩ := walk_spec cpb amt thr addr cs total ret chosen
  intro u hu
  rw [h1] at hu
  rcases List.mem_append.1 hu with hu | hu
  · exact hch u hu
  · exact hcs u (h2.subset hu)

/-- the automatic selection never names a reference twice, when the three lists are views of one ledger state -/
theorem selectAuto_nodup (cpb amt thr : Int) (addr : Bytes) (st : State)
    (hcons : RefConsistent (st.inputs ++ st.potential ++ st.addrUtxos)) :
    ((selectAuto cpb amt thr addr st).map Utxo.ref).Nodup := by
  simp only [selectAuto]
  have hi : ∀ u ∈ popOrder st.inputs, u ∈ st.inputs ++ st.potential ++ st.addrUtxos := by
    intro u hu; simp [(mem_popOrder _ u).1 hu]
  have hp : ∀ u ∈ popOrder st.potential, u ∈ st.inputs ++ st.potential ++ st.addrUtxos := by
    intro u hu; simp [(mem_popOrder _ u).1 hu]
  have ha : ∀ u ∈ popOrder st.addrUtxos, u ∈ st.inputs ++ st.potential ++ st.addrUtxos := by
    intro u hu; simp [(mem_popOrder _ u).1 hu]
  have n1 := walk_nodup _ hcons cpb amt thr addr (popOrder st.inputs) ⟨0, []⟩ (subInt ⟨0, []⟩ amt) [] hi (by simp) (by simp)
  have m1 := walk_subset _ cpb amt thr addr (popOrder st.inputs) ⟨0, []⟩ (subInt ⟨0, []⟩ amt) [] hi (by simp)
  generalize walk cpb amt thr addr (popOrder st.inputs) ⟨0, []⟩ (subInt ⟨0, []⟩ amt) [] = s1 at n1 m1 ⊢
  have h2 : ((if s1.1.coin < amt then walk cpb amt thr addr (popOrder st.potential) s1.1 (subInt s1.1 amt) s1.2
      else s1).2.map Utxo.ref).Nodup ∧
      ∀ u ∈ (if s1.1.coin < amt then walk cpb amt thr addr (popOrder st.potential) s1.1 (subInt s1.1 amt) s1.2
      else s1).2, u ∈ st.inputs ++ st.potential ++ st.addrUtxos := by
    split
    · exact ⟨walk_nodup _ hcons _ _ _ _ _ _ _ _ hp m1 n1, walk_subset _ _ _ _ _ _ _ _ _ hp m1⟩
    · exact ⟨n1, m1⟩
  obtain ⟨n2, m2⟩ := h2
  generalize (if s1.1.coin < amt then walk cpb amt thr addr (popOrder st.potential) s1.1 (subInt s1.1 amt) s1.2
      else s1) = s2 at n2 m2 ⊢
  split
  · exact walk_nodup _ hcons _ _ _ _ _ _ _ _ ha m2 n2
  · exact n2

/-! ### no input is taken once the running total is adequate -/

/-- every element of `ys` was appended while the loop condition held for the running total before it -/
def NeededChain (cpb amt thr : Int) (addr : Bytes) : Value → List Utxo → Prop
  | _, [] => True
  | total, u :: ys =>
    needMore cpb amt thr addr total (subInt total amt) = true ∧
      NeededChain cpb amt thr addr (Value.add total u.out.amount) ys

theorem neededChain_append (cpb amt thr : Int) (addr : Bytes) (total : Value) (a b : List Utxo) :
    NeededChain cpb amt thr addr total (a ++ b) ↔
      NeededChain cpb amt thr addr total a ∧
      NeededChain cpb amt thr addr (a.foldl (fun acc u => Value.add acc u.out.amount) total) b := by
  induction a generalizing total with
  | nil => simp [NeededChain]
  | cons u r ih => simp only [List.cons_append, NeededChain, List.foldl_cons, ih, and_assoc]

/-- `walk_spec` together with the chain property, for a call that starts with `ret = total - amt` (every call does) -/
theorem walk_needed (cpb amt thr : Int) (addr : Bytes) (cs : List Utxo) (total ret : Value) (chosen : List Utxo)
    (hret : ret = subInt total amt) :
    ∃ ys, (walk cpb amt thr addr cs total ret chosen).2 = chosen ++ ys ∧
      (walk cpb amt thr addr cs total ret chosen).1 = ys.foldl (fun acc u => Value.add acc u.out.amount) total ∧
      NeededChain cpb amt thr addr total ys := by
  induction cs generalizing total ret chosen with
  | nil => exact ⟨[], by simp [walk, NeededChain]⟩
  | cons c rest ih =>
    simp only [walk]
    split
    · rename_i hn
      split
      · obtain ⟨ys, h1, h2, h3⟩ := ih (Value.add total c.out.amount) (subInt (Value.add total c.out.amount) amt)
          (chosen ++ [c]) rfl
        refine ⟨c :: ys, ?_, ?_, ?_⟩
        · rw [h1]; simp
        · rw [h2]; rfl
        · exact ⟨hret ▸ hn, h3⟩
      · exact ih total ret chosen hret
    · exact ⟨[], by simp [NeededChain]⟩

theorem selectAuto_needed (cpb amt thr : Int) (addr : Bytes) (st : State) :
    NeededChain cpb amt thr addr ⟨0, []⟩ (selectAuto cpb amt thr addr st) := by
  simp only [selectAuto]
  obtain ⟨y1, a1, t1, n1⟩ := walk_needed cpb amt thr addr (popOrder st.inputs) ⟨0, []⟩ (subInt ⟨0, []⟩ amt) [] rfl
  generalize walk cpb amt thr addr (popOrder st.inputs) ⟨0, []⟩ (subInt ⟨0, []⟩ amt) [] = s1 at a1 t1 ⊢
  simp only [List.nil_append] at a1
  have h2 : ∃ y2, (if s1.1.coin < amt then walk cpb amt thr addr (popOrder st.potential) s1.1 (subInt s1.1 amt) s1.2
      else s1).2 = y1 ++ y2 ∧
      (if s1.1.coin < amt then walk cpb amt thr addr (popOrder st.potential) s1.1 (subInt s1.1 amt) s1.2
      else s1).1 = y2.foldl (fun acc u => Value.add acc u.out.amount) s1.1 ∧
      NeededChain cpb amt thr addr s1.1 y2 := by
    split
    · obtain ⟨y2, a2, t2, n2⟩ := walk_needed cpb amt thr addr (popOrder st.potential) s1.1 (subInt s1.1 amt) s1.2 rfl
      exact ⟨y2, by rw [a2, a1], t2, n2⟩
    · exact ⟨[], by simp [a1], rfl, trivial⟩
  obtain ⟨y2, a2, t2, n2⟩ := h2
  generalize (if s1.1.coin < amt then walk cpb amt thr addr (popOrder st.potential) s1.1 (subInt s1.1 amt) s1.2
      else s1) = s2 at a2 t2 ⊢
  have h3 : ∃ y3, (if s2.1.coin < amt then walk cpb amt thr addr (popOrder st.addrUtxos) s2.1 (subInt s2.1 amt) s2.2
      else s2).2 = y1 ++ y2 ++ y3 ∧ NeededChain cpb amt thr addr s2.1 y3 := by
    split
    · obtain ⟨y3, a3, _, n3⟩ := walk_needed cpb amt thr addr (popOrder st.addrUtxos) s2.1 (subInt s2.1 amt) s2.2 rfl
      exact ⟨y3, by rw [a3, a2], n3⟩
    · exact ⟨[], by simp [a2], trivial⟩
  obtain ⟨y3, a3, n3⟩ := h3
  rw [a3, neededChain_append, neededChain_append]
  refine ⟨⟨n1, ?_⟩, ?_⟩
  · rw [← t1]; exact n2
  · rw [List.foldl_append, ← t1, ← t2]; exact n3

/-- the concatenated pop orders are a permutation of the concatenated candidate lists -/
theorem popOrders_perm (st : State) :
    (popOrder st.inputs ++ popOrder st.potential ++ popOrder st.addrUtxos).Perm
      (st.inputs ++ st.potential ++ st.addrUtxos) :=
  ((popOrder_perm _).append (popOrder_perm _)).append (popOrder_perm _)

/-! ## `finish` and `run` by cases -/

theorem finish_ok (cpb amt thr : Int) (mx : Nat) (addr : Bytes) (cols : List Utxo) (r : Result)
    (h : finish cpb amt thr mx addr cols = .ok r) :
    r.collaterals = cols ∧ cols.length ≤ mx ∧ amt ≤ coinSum cols ∧
    ((r.ret = none ∧ r.total = none ∧ shouldAdd thr (subInt (sumAmounts cols) amt) = false) ∨
     (r.ret = some (retOutput addr (subInt (sumAmounts cols) amt)) ∧ r.total = some amt ∧
      shouldAdd thr (subInt (sumAmounts cols) amt) = true ∧
      minLovelace cpb (retOutput addr (subInt (sumAmounts cols) amt)) ≤ (subInt (sumAmounts cols) amt).coin)) := by
  unfold finish at h
  simp only [] at h
  split at h
  · cases h
  · rename_i hlen
    split at h
    · cases h
    · rename_i hamt
      rw [sumAmounts_coin] at hamt
      split at h
      · rename_i hs
        cases h
        refine ⟨rfl, by omega, by omega, Or.inl ⟨rfl, rfl, ?_⟩⟩
        simpa using hs
      · rename_i hs
        split at h
        · cases h
        · rename_i hm
          cases h
          refine ⟨rfl, by omega, by omega, Or.inr ⟨rfl, rfl, ?_, by omega⟩⟩
          simpa using hs

/-- `self.collaterals` when the tail of `_set_collateral_return` starts -/
def colsOf (p : Params) (st : State) (addr : Bytes) (amt : Int) : List Utxo :=
  if st.explicit.isEmpty then selectAuto p.cpb amt st.threshold addr st else st.explicit

theorem colsOf_auto (p : Params) (st : State) (addr : Bytes) (amt : Int) (h : st.explicit = []) :
    colsOf p st addr amt = selectAuto p.cpb amt st.threshold addr st := by
  simp [colsOf, h]

/-- what `run` did when it succeeded: either it returned early (no script / no return address) and left everything
as it was, or it computed the collateral amount, fixed the collateral inputs and ran `finish` -/
theorem run_ok (p : Params) (st : State) (r : Result) (h : run p st = .ok r) :
    ((st.hasScripts = false ∨ st.retAddr = none) ∧ r = ⟨st.explicit, none, none⟩) ∨
    (∃ addr amt, st.hasScripts = true ∧ st.retAddr = some addr ∧ collateralAmount p st.refScriptSize st.feeBuffer = some amt ∧
      finish p.cpb amt st.threshold p.maxCollateralInputs addr (colsOf p st addr amt) = .ok r) := by
  unfold run at h
  split at h
  · rename_i hs
    cases h
    exact Or.inl ⟨Or.inl (by simpa using hs), rfl⟩
  · rename_i hs
    split at h
    · rename_i ha
      cases h
      exact Or.inl ⟨Or.inr ha, rfl⟩
    · rename_i addr ha
      split at h
      · cases h
      · rename_i amt hc
        exact Or.inr ⟨addr, amt, by simpa using hs, ha, hc, h⟩

/-- projections with decidable equality, for concrete evaluations -/
def okResult : Except Err Result → Option Result
  | .ok r => some r
  | .error _ => none

def errOf : Except Err Result → Option Err
  | .ok _ => none
  | .error e => some e

theorem eq_ok_of_okResult {x : Except Err Result} {r : Result} (h : okResult x = some r) : x = .ok r := by
  cases x with
  | ok r' => simp only [okResult, Option.some.injEq] at h; rw [h]
  | error e => cases h

deriving instance DecidableEq for Pyc.Output
deriving instance DecidableEq for Utxo
deriving instance DecidableEq for Result

theorem collateralAmount_eq (p : Params) (ref buf amt : Int) (h : collateralAmount p ref buf = some amt) :
    ∃ mf, maxTxFee p.fee ref = some mf ∧ amt = ((mf + buf) * p.percent + 99) / 100 := by
  unfold collateralAmount at h
  split at h
  · cases h
  · rename_i mf hm
    cases h
    exact ⟨mf, hm, rfl⟩

/-! ## the body's ordered set -/

theorem dedupRef_of_nodup (l : List Utxo) (seen : List (Bytes × Nat)) (h1 : (l.map Utxo.ref).Nodup)
    (h2 : ∀ u ∈ l, u.ref ∉ seen) : dedupRef l seen = l := by
  induction l generalizing seen with
  | nil => rfl
  | cons u r ih =>
    have hu : u.ref ∉ seen := h2 u (by simp)
    simp only [dedupRef, hu, if_false]
    rw [List.map_cons, List.nodup_cons] at h1
    congr 1
    apply ih _ h1.2
    intro v hv
    simp only [List.mem_cons, not_or]
    refine ⟨?_, h2 v (by simp [hv])⟩
    intro he
    exact h1.1 (he ▸ List.mem_map_of_mem hv)

theorem bodyCollateral_of_nodup (l : List Utxo) (h : (l.map Utxo.ref).Nodup) : bodyCollateral l = l :=
  dedupRef_of_nodup l [] h (by simp)

theorem dedupRef_sublist (l : List Utxo) (seen : List (Bytes × Nat)) : (dedupRef l seen).Sublist l := by
  induction l generalizing seen with
  | nil => exact List.Sublist.refl _
  | cons u r ih =>
    simp only [dedupRef]
    split
    · exact (ih seen).cons u
    · exact (ih _).cons_cons u

theorem dedupRef_nodup (l : List Utxo) (seen : List (Bytes × Nat)) :
    ((dedupRef l seen).map Utxo.ref).Nodup ∧ ∀ u ∈ dedupRef l seen, u.ref ∉ seen := by
  induction l generalizing seen with
  | nil => simp [dedupRef]
  | cons u r ih =>
    simp only [dedupRef]
    split
    · exact ih seen
    · rename_i hu
      obtain ⟨h1, h2⟩ := ih (u.ref :: seen)
      refine ⟨?_, ?_⟩
      · rw [List.map_cons, List.nodup_cons]
        refine ⟨?_, h1⟩
        intro hm
        obtain ⟨v, hv, he⟩ := List.mem_map.1 hm
        exact h2 v hv (by simp [he])
      · intro v hv
        rcases List.mem_cons.1 hv with rfl | hv
        · exact hu
        · intro hs
          exact h2 v hv (by simp [hs])

theorem dedupRef_mem (l : List Utxo) (seen : List (Bytes × Nat)) (u : Utxo) (hu : u ∈ l) (hs : u.ref ∉ seen) :
    ∃ v ∈ dedupRef l seen, v.ref = u.ref := by
  induction l generalizing seen with
  | nil => cases hu
  | cons w r ih =>
    simp only [dedupRef]
    rcases List.mem_cons.1 hu with rfl | hu
    · simp [hs]
    · split
      · exact ih seen hu hs
      · by_cases he : u.ref = w.ref
        · exact ⟨w, by simp, he.symm⟩
        · obtain ⟨v, hv, hv'⟩ := ih (w.ref :: seen) hu (by simp [he, hs])
          exact ⟨v, by simp [hv], hv'⟩

theorem bodyCollateral_ne_nil (l : List Utxo) (h : l ≠ []) : bodyCollateral l ≠ [] := by
  cases l with
  | nil => exact absurd rfl h
  | cons u r => simp [bodyCollateral, dedupRef]

end Pyc.Collateral
