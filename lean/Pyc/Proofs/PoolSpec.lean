import Pyc.Proofs.Pool
import Pyc.Spec.Pool

/-! Helper definitions and lemmas for `Props/C02_Pool.lean`: the spec-level content of a model object (`abs…`), and the
two formulations of the CDDL in `Spec/Pool.lean` against each other. -/

namespace Pyc.Pool
open Pyc Pyc.Cbor Pyc.Codec

/-! ## the content of a model object in the terms of the CDDL (undefined where the CDDL has no such content) -/

def absPort : Port → Option (Option Nat)
  | .none => some Option.none
  | .int i => if 0 ≤ i then some (some i.toNat) else Option.none
  | .junk _ => Option.none

/-- the address bytes a stored text stands for -/
def absIp (conv : Bytes → Option Bytes) : Option Bytes → Option (Option Bytes)
  | Option.none => some Option.none
  | some t => (match conv t with | some b => some (some b) | Option.none => Option.none)

def absRelay : Relay → Option Spec.Pool.Relay
  | .addr p a b =>
    (match absPort p, absIp aton a, absIp pton6 b with
      | some p', some a', some b' => some (.singleHostAddr p' a' b')
      | _, _, _ => Option.none)
  | .name p (.text d) => (match absPort p with | some p' => some (.singleHostName p' d) | Option.none => Option.none)
  | .multi (.text d) => some (.multiHostName d)
  | _ => Option.none                                   -- a DNS name is required by the CDDL

def absRelays : List Relay → Option (List Spec.Pool.Relay)
  | [] => some []
  | r :: rs => (match absRelay r, absRelays rs with | some c, some cs => some (c :: cs) | _, _ => Option.none)

def ownersTagged : Owners → Bool
  | .oset true _ => true
  | _ => false

def absMetadata : Option Metadata → Option Spec.Pool.PoolMetadata
  | some m => some ⟨m.url, m.hash⟩
  | Option.none => Option.none

/-- defined iff: coins and margin components are naturals, `relays` is a list (not `None`) of relays that have spec
content, and no trailing `id` -/
def absParams (p : PoolParams) : Option Spec.Pool.PoolParams :=
  if p.pledge < 0 ∨ p.cost < 0 ∨ p.margin.n < 0 ∨ p.margin.d < 0 then Option.none else
  match p.relays, p.id with
  | some rs, Option.none =>
    (match absRelays rs with
      | some cs => some ⟨p.operator, p.vrf, p.pledge.toNat, p.cost.toNat, p.margin.n.toNat, p.margin.d.toNat, p.rewardAccount,
          p.owners.elems, ownersTagged p.owners, cs, absMetadata p.metadata⟩
      | Option.none => Option.none)
  | _, _ => Option.none

/-! ## model encoder = spec encoder on the content -/

theorem ofInt_uint (i : Int) (h0 : 0 ≤ i) (h1 : i.toNat < 2^64) : ofInt i = .uint i.toNat := by
  simp [ofInt, h0, h1]

theorem itemPort_abs (p : Port) (p' : Option Nat) (h : absPort p = some p') (hr : Spec.Pool.portIn p' = true) :
    itemPort p = some (Spec.Pool.orNull .uint p') := by
  cases p with
  | none => simp only [absPort, Option.some.injEq] at h; subst h; rfl
  | int i =>
    simp only [absPort] at h
    split at h
    · rename_i h0
      simp only [Option.some.injEq] at h
      subst h
      have : i.toNat ≤ 65535 := by simpa [Spec.Pool.portIn] using hr
      simp [itemPort, Spec.Pool.orNull, ofInt_uint i h0 (by omega)]
    · simp at h
  | junk i => simp [absPort] at h

theorem itemIp_abs (conv : Bytes → Option Bytes) (a a' : Option Bytes) (h : absIp conv a = some a') :
    itemIp conv a = some (Spec.Pool.orNull .bytes a') := by
  cases a with
  | none => simp only [absIp, Option.some.injEq] at h; subst h; rfl
  | some t =>
    simp only [absIp] at h
    split at h
    · rename_i b hb
      simp only [Option.some.injEq] at h
      subst h
      simp [itemIp, hb, Spec.Pool.orNull]
    · simp at h

theorem encRelay_abs (r : Relay) (c : Spec.Pool.Relay) (h : absRelay r = some c) (hr : Spec.Pool.relayRanges c = true) :
    encRelay r = some (Spec.Pool.encRelay c) := by
  cases r with
  | addr p a b =>
    simp only [absRelay] at h
    split at h
    · rename_i p' a' b' hp ha hb
      simp only [Option.some.injEq] at h
      subst h
      simp only [Spec.Pool.relayRanges] at hr
      simp [encRelay, itemPort_abs p p' hp hr, itemIp_abs aton a a' ha, itemIp_abs pton6 b b' hb, Spec.Pool.encRelay]
    · simp at h
  | name p d =>
    cases d with
    | text t =>
      simp only [absRelay] at h
      split at h
      · rename_i p' hp
        simp only [Option.some.injEq] at h
        subst h
        simp only [Spec.Pool.relayRanges, Bool.and_eq_true] at hr
        simp [encRelay, itemPort_abs p p' hp hr.1, itemName, Spec.Pool.encRelay]
      · simp at h
    | none => simp [absRelay] at h
    | junk i => simp [absRelay] at h
  | multi d =>
    cases d with
    | text t =>
      simp only [absRelay, Option.some.injEq] at h
      subst h
      simp [encRelay, itemName, Spec.Pool.encRelay]
    | none => simp [absRelay] at h
    | junk i => simp [absRelay] at h

theorem encRelays_abs (rs : List Relay) (cs : List Spec.Pool.Relay) (h : absRelays rs = some cs)
    (hr : cs.all Spec.Pool.relayRanges = true) : encRelays rs = some (cs.map Spec.Pool.encRelay) := by
  induction rs generalizing cs with
  | nil => simp only [absRelays, Option.some.injEq] at h; subst h; rfl
  | cons r rs ih =>
    simp only [absRelays] at h
    split at h
    · rename_i c cs' hc hcs
      simp only [Option.some.injEq] at h
      subst h
      simp only [List.all_cons, Bool.and_eq_true] at hr
      simp [encRelays, encRelay_abs r c hc hr.1, ih cs' hcs hr.2]
    · simp at h

theorem itemOwners_abs (o : Owners) :
    itemOwners o = Spec.Pool.encSet (ownersTagged o) (o.elems.map .bytes) := by
  cases o with
  | list xs => rfl
  | oset t xs => cases t <;> rfl

theorem itemMetadata_abs (m : Option Metadata) :
    itemMetadata m = Spec.Pool.orNull Spec.Pool.encPoolMetadata (absMetadata m) := by
  cases m <;> rfl

theorem itemsParams_abs (p : PoolParams) (c : Spec.Pool.PoolParams) (h : absParams p = some c)
    (hr : Spec.Pool.rangesOk c = true) : itemsParams p = some (Spec.Pool.encPoolParams c) := by
  unfold absParams at h
  split at h
  · simp at h
  · rename_i hneg
    split at h
    · rename_i rs hrs hid
      split at h
      · rename_i cs hcs
        simp only [Option.some.injEq] at h
        subst h
        simp only [Spec.Pool.rangesOk, Bool.and_eq_true, decide_eq_true_eq] at hr
        obtain ⟨⟨⟨⟨⟨h1, h2⟩, h3⟩, h4⟩, h5⟩, _⟩ := hr
        have e := encRelays_abs rs cs hcs h5
        simp only [itemsParams, hrs, hid, itemRelaysOpt, e, List.append_nil, Spec.Pool.encPoolParams, Option.some.injEq]
        rw [ofInt_uint p.pledge (by omega) h1, ofInt_uint p.cost (by omega) h2, itemOwners_abs, itemMetadata_abs]
        simp [itemFrac, Spec.Pool.encUnitInterval, ofInt_uint p.margin.n (by omega) h3, ofInt_uint p.margin.d (by omega) h4]
      · simp at h
    · simp at h

/-! ## sizes: the class invariants of the model give the fixed sizes of the CDDL -/

theorem absRelay_sizes (r : Relay) (c : Spec.Pool.Relay) (h : absRelay r = some c) : Spec.Pool.relaySizes c = true := by
  cases r with
  | addr p a b =>
    simp only [absRelay] at h
    split at h
    · rename_i p' a' b' hp ha hb
      simp only [Option.some.injEq] at h
      subst h
      have h4 : Spec.Pool.sizeIs 4 a' = true := by
        cases a with
        | none => simp only [absIp, Option.some.injEq] at ha; subst ha; rfl
        | some t =>
          simp only [absIp] at ha
          split at ha
          · rename_i bb hbb
            simp only [Option.some.injEq] at ha
            subst ha
            simpa [Spec.Pool.sizeIs] using aton_length t bb hbb
          · simp at ha
      have h6 : Spec.Pool.sizeIs 16 b' = true := by
        cases b with
        | none => simp only [absIp, Option.some.injEq] at hb; subst hb; rfl
        | some t =>
          simp only [absIp] at hb
          split at hb
          · rename_i bb hbb
            simp only [Option.some.injEq] at hb
            subst hb
            simpa [Spec.Pool.sizeIs] using pton6_length t bb hbb
          · simp at hb
      simp [Spec.Pool.relaySizes, h4, h6]
    · simp at h
  | name p d =>
    cases d with
    | text t =>
      simp only [absRelay] at h
      split at h
      · simp only [Option.some.injEq] at h; subst h; rfl
      · simp at h
    | none => simp [absRelay] at h
    | junk i => simp [absRelay] at h
  | multi d =>
    cases d with
    | text t => simp only [absRelay, Option.some.injEq] at h; subst h; rfl
    | none => simp [absRelay] at h
    | junk i => simp [absRelay] at h

theorem absRelays_sizes (rs : List Relay) (cs : List Spec.Pool.Relay) (h : absRelays rs = some cs) :
    cs.all Spec.Pool.relaySizes = true := by
  induction rs generalizing cs with
  | nil => simp only [absRelays, Option.some.injEq] at h; subst h; rfl
  | cons r rs ih =>
    simp only [absRelays] at h
    split at h
    · rename_i c cs' hc hcs
      simp only [Option.some.injEq] at h
      subst h
      simp [absRelay_sizes r c hc, ih cs' hcs]
    · simp at h

theorem ownersOk_elems (o : Owners) (h : ownersOk o = true) : o.elems.all (fun x => x.length == 28) = true := by
  cases o with
  | list xs => exact h
  | oset t xs => simp only [ownersOk, Bool.and_eq_true] at h; exact h.1

theorem absParams_sizes (p : PoolParams) (c : Spec.Pool.PoolParams) (hw : paramsOkW p = true) (h : absParams p = some c) :
    Spec.Pool.sizesOk c = true := by
  simp only [paramsOkW, Bool.and_eq_true, beq_iff_eq] at hw
  obtain ⟨⟨⟨⟨⟨⟨hop, hvrf⟩, _⟩, _⟩, how⟩, hmd⟩, _⟩ := hw
  unfold absParams at h
  split at h
  · simp at h
  · split at h
    · rename_i rs hrs hid
      split at h
      · rename_i cs hcs
        simp only [Option.some.injEq] at h
        subst h
        have hm : Spec.Pool.mdSizes (absMetadata p.metadata) = true := by
          cases hmm : p.metadata with
          | none => rfl
          | some m => rw [hmm] at hmd; simpa [absMetadata, metadataOk, Spec.Pool.mdSizes] using hmd
        simp [Spec.Pool.sizesOk, hop, hvrf, ownersOk_elems p.owners how, absRelays_sizes rs cs hcs, hm]
      · simp at h
    · simp at h

/-! ## which objects have spec content: the value ranges of the CDDL, and the three structural conditions -/

def portIn : Port → Bool
  | .none => true
  | .int i => decide (0 ≤ i ∧ i ≤ 65535)
  | .junk _ => false

def nameIn : Name → Bool
  | .none => true
  | .text d => decide (d.length ≤ 128)
  | .junk _ => false

/-- the value ranges of the CDDL on a well-typed relay (`port = uint .le 65535`, `dns_name = text .size (0 .. 128)`) -/
def relayIn : Relay → Bool
  | .addr p _ _ => portIn p
  | .name p d => portIn p && nameIn d
  | .multi d => nameIn d

/-- the value ranges of the CDDL on well-typed pool parameters: coins and margin components are `uint`s, ports and text
sizes as above -/
def valuesIn (p : PoolParams) : Bool :=
  decide (0 ≤ p.pledge ∧ p.pledge < 2^64) && decide (0 ≤ p.cost ∧ p.cost < 2^64) &&
  decide (0 ≤ p.margin.n ∧ p.margin.n < 2^64) && decide (p.margin.d < 2^64) &&
  (match p.relays with | some rs => rs.all relayIn | Option.none => true) &&
  (match p.metadata with | some m => decide (m.url.length ≤ 128) | Option.none => true)

def hasDns : Relay → Bool
  | .addr _ _ _ => true
  | .name _ (.text _) => true
  | .multi (.text _) => true
  | _ => false

/-- what the Python annotations allow and the CDDL does not: `relays=None`, a `dns_name=None`, a trailing `id` -/
def structIn (p : PoolParams) : Bool :=
  (match p.relays with | some rs => rs.all hasDns | Option.none => false) && p.id.isNone

theorem absPort_in (p : Port) (h : portIn p = true) : ∃ p', absPort p = some p' ∧ Spec.Pool.portIn p' = true := by
  cases p with
  | none => exact ⟨Option.none, rfl, rfl⟩
  | int i =>
    simp only [portIn, decide_eq_true_eq] at h
    exact ⟨some i.toNat, by simp [absPort, h.1], by simp [Spec.Pool.portIn]; omega⟩
  | junk i => simp [portIn] at h

theorem absIp_canon4 (a : Option Bytes) (h : optAll canon4 a = true) : ∃ a', absIp aton a = some a' := by
  cases a with
  | none => exact ⟨Option.none, rfl⟩
  | some t =>
    obtain ⟨b, hb, _⟩ := canon4_spec t h
    exact ⟨some b, by simp [absIp, hb]⟩

theorem absIp_canon6 (a : Option Bytes) (h : optAll canon6 a = true) : ∃ a', absIp pton6 a = some a' := by
  cases a with
  | none => exact ⟨Option.none, rfl⟩
  | some t =>
    obtain ⟨b, hb, _⟩ := canon6_spec t h
    exact ⟨some b, by simp [absIp, hb]⟩

theorem absRelay_in (r : Relay) (hok : relayOk r = true) (hv : relayIn r = true) (hd : hasDns r = true) :
    ∃ c, absRelay r = some c ∧ Spec.Pool.relayRanges c = true := by
  cases r with
  | addr p a b =>
    simp only [relayOk, Bool.and_eq_true] at hok
    obtain ⟨p', hp1, hp2⟩ := absPort_in p hv
    obtain ⟨a', ha⟩ := absIp_canon4 a hok.1.2
    obtain ⟨b', hb⟩ := absIp_canon6 b hok.2
    exact ⟨.singleHostAddr p' a' b', by simp [absRelay, hp1, ha, hb], by simpa [Spec.Pool.relayRanges] using hp2⟩
  | name p d =>
    cases d with
    | text t =>
      simp only [relayIn, Bool.and_eq_true, nameIn, decide_eq_true_eq] at hv
      obtain ⟨p', hp1, hp2⟩ := absPort_in p hv.1
      exact ⟨.singleHostName p' t, by simp [absRelay, hp1], by simp [Spec.Pool.relayRanges, hp2, hv.2]⟩
    | none => simp [hasDns] at hd
    | junk i => simp [hasDns] at hd
  | multi d =>
    cases d with
    | text t =>
      simp only [relayIn, nameIn, decide_eq_true_eq] at hv
      exact ⟨.multiHostName t, rfl, by simp [Spec.Pool.relayRanges, hv]⟩
    | none => simp [hasDns] at hd
    | junk i => simp [hasDns] at hd

theorem absRelays_in (rs : List Relay) (hok : rs.all relayOk = true) (hv : rs.all relayIn = true) (hd : rs.all hasDns = true) :
    ∃ cs, absRelays rs = some cs ∧ cs.all Spec.Pool.relayRanges = true := by
  induction rs with
  | nil => exact ⟨[], rfl, rfl⟩
  | cons r rs ih =>
    simp only [List.all_cons, Bool.and_eq_true] at hok hv hd
    obtain ⟨c, hc1, hc2⟩ := absRelay_in r hok.1 hv.1 hd.1
    obtain ⟨cs, hcs1, hcs2⟩ := ih hok.2 hv.2 hd.2
    exact ⟨c :: cs, by simp [absRelays, hc1, hcs1], by simp [hc2, hcs2]⟩

/-- every well-formed object within the value ranges that meets the three structural conditions has spec content,
within the ranges of the CDDL -/
theorem absParams_defined (p : PoolParams) (hok : paramsOk p = true) (hv : valuesIn p = true) (hs : structIn p = true) :
    ∃ c, absParams p = some c ∧ Spec.Pool.rangesOk c = true := by
  simp only [valuesIn, Bool.and_eq_true, decide_eq_true_eq] at hv
  obtain ⟨⟨⟨⟨⟨hpl, hco⟩, hmn⟩, hmdn⟩, hrl⟩, hmd⟩ := hv
  simp only [structIn, Bool.and_eq_true] at hs
  simp only [paramsOk, paramsOkW, Bool.and_eq_true] at hok
  have hfr := hok.1.1.1.1.1.2
  simp only [fracOk, Bool.and_eq_true, decide_eq_true_eq] at hfr
  cases hrs : p.relays with
  | none => rw [hrs] at hs; simp at hs
  | some rs =>
    rw [hrs] at hs hrl
    have hrok : rs.all relayOk = true := by have := hok.2; rw [hrs] at this; exact this
    obtain ⟨cs, hcs1, hcs2⟩ := absRelays_in rs hrok hrl hs.1
    have hid : p.id = Option.none := by
      cases h : p.id with
      | none => rfl
      | some s => rw [h] at hs; simp at hs
    have hneg : ¬ (p.pledge < 0 ∨ p.cost < 0 ∨ p.margin.n < 0 ∨ p.margin.d < 0) := by omega
    refine ⟨_, by simp only [absParams, hneg, if_false, hrs, hid, hcs1]; rfl, ?_⟩
    have hm : Spec.Pool.mdRanges (absMetadata p.metadata) = true := by
      cases hmm : p.metadata with
      | none => rfl
      | some m => rw [hmm] at hmd; simpa [absMetadata, Spec.Pool.mdRanges] using hmd
    simp only [Spec.Pool.rangesOk, Bool.and_eq_true, decide_eq_true_eq, hcs2, hm, and_true]
    omega

/-! ## the two formulations of the grammar agree: what `enc…` writes, `is…` recognises -/

theorem isPort_enc (p : Option Nat) (h : Spec.Pool.portIn p = true) :
    Spec.Pool.orNullB (Spec.Pool.isUint 65535) (Spec.Pool.orNull .uint p) = true := by
  cases p with
  | none => rfl
  | some n => simpa [Spec.Pool.orNull, Spec.Pool.orNullB, Spec.Pool.isNull, Spec.Pool.isUint, Spec.Pool.portIn] using h

theorem isIp_enc (k : Nat) (a : Option Bytes) (h : Spec.Pool.sizeIs k a = true) :
    Spec.Pool.orNullB (Spec.Pool.isBytesOf k) (Spec.Pool.orNull .bytes a) = true := by
  cases a with
  | none => rfl
  | some x => simpa [Spec.Pool.orNull, Spec.Pool.orNullB, Spec.Pool.isNull, Spec.Pool.isBytesOf, Spec.Pool.sizeIs] using h

theorem isRelay_enc (r : Spec.Pool.Relay) (h : Spec.Pool.relayOk r = true) : Spec.Pool.isRelay (Spec.Pool.encRelay r) = true := by
  simp only [Spec.Pool.relayOk, Bool.and_eq_true] at h
  cases r with
  | singleHostAddr p a b =>
    simp only [Spec.Pool.relaySizes, Spec.Pool.relayRanges, Bool.and_eq_true] at h
    simp [Spec.Pool.encRelay, Spec.Pool.isRelay, isPort_enc p h.2, isIp_enc 4 a h.1.1, isIp_enc 16 b h.1.2]
  | singleHostName p d =>
    simp only [Spec.Pool.relaySizes, Spec.Pool.relayRanges, Bool.and_eq_true, decide_eq_true_eq] at h
    simp [Spec.Pool.encRelay, Spec.Pool.isRelay, isPort_enc p h.2.1, Spec.Pool.isTextUpTo, h.2.2]
  | multiHostName d =>
    simp only [Spec.Pool.relaySizes, Spec.Pool.relayRanges, decide_eq_true_eq] at h
    simp [Spec.Pool.encRelay, Spec.Pool.isRelay, Spec.Pool.isTextUpTo, h.2]

theorem all_isRelay (rs : List Spec.Pool.Relay) (h : rs.all Spec.Pool.relayOk = true) :
    (rs.map Spec.Pool.encRelay).all Spec.Pool.isRelay = true := by
  induction rs with
  | nil => rfl
  | cons r rs ih =>
    simp only [List.all_cons, Bool.and_eq_true] at h
    simp [isRelay_enc r h.1, ih h.2]

theorem all_and {α : Type} (f g : α → Bool) (l : List α) (hf : l.all f = true) (hg : l.all g = true) :
    l.all (fun x => f x && g x) = true := by
  induction l with
  | nil => rfl
  | cons x xs ih =>
    simp only [List.all_cons, Bool.and_eq_true] at hf hg ⊢
    exact ⟨⟨hf.1, hg.1⟩, ih hf.2 hg.2⟩

theorem all_isBytesOf (n : Nat) (xs : List Bytes) (h : xs.all (fun x => x.length == n) = true) :
    (xs.map Item.bytes).all (Spec.Pool.isBytesOf n) = true := by
  induction xs with
  | nil => rfl
  | cons x xs ih =>
    simp only [List.all_cons, Bool.and_eq_true] at h
    simp [Spec.Pool.isBytesOf, h.1, ih h.2]

theorem isPoolRegistration_enc (c : Spec.Pool.PoolParams) (h : Spec.Pool.paramsOk c = true) :
    Spec.Pool.isPoolRegistration (Spec.Pool.encPoolRegistration c) = true := by
  simp only [Spec.Pool.paramsOk, Spec.Pool.sizesOk, Spec.Pool.rangesOk, Bool.and_eq_true, beq_iff_eq, decide_eq_true_eq] at h
  obtain ⟨⟨⟨⟨⟨hop, hvrf⟩, how⟩, hrs⟩, hms⟩, ⟨⟨⟨⟨⟨h1, h2⟩, h3⟩, h4⟩, hrr⟩, hmr⟩⟩ := h
  have hrel : (c.relays.map Spec.Pool.encRelay).all Spec.Pool.isRelay = true :=
    all_isRelay c.relays (all_and _ _ _ hrs hrr)
  have hown : Spec.Pool.isSetOf (Spec.Pool.isBytesOf 28) (Spec.Pool.encSet c.ownersTagged (c.poolOwners.map .bytes)) = true := by
    have := all_isBytesOf 28 c.poolOwners how
    cases c.ownersTagged <;> simp [Spec.Pool.encSet, Spec.Pool.isSetOf, this]
  have hmd : Spec.Pool.orNullB Spec.Pool.isPoolMetadata (Spec.Pool.orNull Spec.Pool.encPoolMetadata c.poolMetadata) = true := by
    cases hm : c.poolMetadata with
    | none => simp [Spec.Pool.orNull, Spec.Pool.orNullB, Spec.Pool.isNull, Spec.Pool.nil]
    | some m =>
      rw [hm] at hms hmr
      simp only [Spec.Pool.mdSizes, beq_iff_eq] at hms
      simp only [Spec.Pool.mdRanges, decide_eq_true_eq] at hmr
      simp [Spec.Pool.orNull, Spec.Pool.orNullB, Spec.Pool.encPoolMetadata, Spec.Pool.isPoolMetadata, Spec.Pool.isTextUpTo,
        Spec.Pool.isBytesOf, hms, hmr]
  simp only [Spec.Pool.isPoolRegistration, Spec.Pool.encPoolRegistration, Spec.Pool.encPoolParams, Spec.Pool.isPoolParams,
    hrel, hown, hmd, Bool.and_true, Bool.and_eq_true]
  simp [Spec.Pool.isBytesOf, Spec.Pool.isUint, Spec.Pool.isUnitInterval, Spec.Pool.encUnitInterval, Spec.Pool.isRewardAccount, hop, hvrf]
  omega

end Pyc.Pool
