import Pyc.Proofs.Codec
import Pyc.Proofs.CodecFuel

/-! An executable check of the typing relation `HasType` (the scope of the generic round-trip theorem), sound with
respect to it: `typedB S fuel t v = true → HasType S t v`.  The driver runs it on the values the harness generates
from /repo's live classes, so the evidence says how many of the compared cases fall under the theorem.

The side condition of an ordered union is discharged *per value* by evaluation: `typedAnyB` runs every alternative that
precedes the typing one on the value's image and demands `DeserializeException` (`rejectsB`); fuel monotonicity
(`deser_stable`) turns that single run into the "for all sufficiently large fuel" premise of `HasType.union`. -/

namespace Pyc.Codec
open Pyc Pyc.Cbor Pyc.Schema

def intOkB (i : Int) : Bool := decide (-(2:Int)^64 ≤ i) && decide (i < (2:Int)^64)

theorem intOkB_sound (i : Int) (h : intOkB i = true) : IntOk i := by
  unfold intOkB at h; unfold IntOk
  simpa using h

def kindOpaqueB : Kind → Bool
  | .custom => true
  | .oset => true
  | _ => false

/-- the alternative answers `DeserializeException` on this item (one evaluation with the given fuel) -/
def rejectsB (S : List ClassDef) (fuel : Nat) (t : Ty) (i : Item) : Bool :=
  match fromPrim S fuel t i with
  | .deser => true
  | _ => false

theorem rejectsB_sound (S : List ClassDef) (fuel : Nat) (t : Ty) (i : Item) (h : rejectsB S fuel t i = true) :
    Ev (fun fuel => fromPrim S fuel t i = .deser) := by
  unfold rejectsB at h
  split at h
  · rename_i hd; exact deser_stable S t i fuel hd
  · exact absurd h (by decide)

def isNoneB : Val → Bool
  | .none => true
  | _ => false

def isOpaqueB : Val → Bool
  | .opaque _ => true
  | _ => false

mutual
def typedB (S : List ClassDef) : Nat → Ty → Val → Bool
  | 0, _, _ => false
  | _+1, .int, .int i => intOkB i
  | _+1, .bytes, .bytes _ => true
  | _+1, .text, .text _ => true
  | _+1, .none, .none => true
  | _+1, .bool, .bool _ => true
  | _+1, .frac, .frac n d => intOkB n && intOkB d
  | _+1, .any, .opaque _ => true
  | fuel+1, .oset t _, .oset _ xs => typedListB S fuel t xs
  | fuel+1, .list t, .list xs => typedListB S fuel t xs
  | fuel+1, .union ts, v => typedAnyB S fuel ts v
  | fuel+1, .cls n, v =>
    match lookup S n with
    | Option.none => false
    | some cd =>
      match v with
      | .opaque _ => !genericB cd || kindOpaqueB cd.kind
      | .enum x => genericB cd && (match cd.kind with | .enum vals => vals.contains x && intOkB x | _ => false)
      | .cb b => genericB cd && (match cd.kind with | .cbytes mn mx => decide (mn ≤ b.length) && decide (b.length ≤ mx) | _ => false)
      | .obj m fs => (m == n) && genericB cd && shapeOK cd && typedFieldsB S fuel (wireFields cd) fs
      | _ => false
  | _+1, _, _ => false
def typedListB (S : List ClassDef) : Nat → Ty → List Val → Bool
  | 0, _, _ => false
  | _+1, _, [] => true
  | fuel+1, t, x :: xs => typedB S fuel t x && typedListB S fuel t xs
def typedAnyB (S : List ClassDef) : Nat → List Ty → Val → Bool
  | 0, _, _ => false
  | _+1, [], _ => false
  | fuel+1, t :: ts, v => typedB S fuel t v || (rejectsB S fuel t (toPrim S v) && typedAnyB S fuel ts v)
def typedFieldsB (S : List ClassDef) : Nat → List FieldDef → List Val → Bool
  | 0, _, _ => false
  | _+1, [], [] => true
  | fuel+1, f :: fs, v :: vs =>
    ((f.optional && isNoneB v) || (f.hook && isOpaqueB v) || (!f.hook && typedB S fuel f.ty v)) && typedFieldsB S fuel fs vs
  | _+1, _, _ => false
end

theorem typed_sound (S : List ClassDef) : ∀ fuel,
    (∀ t v, typedB S fuel t v = true → HasType S t v) ∧
    (∀ t xs, typedListB S fuel t xs = true → HasTypeList S t xs) ∧
    (∀ ts v, typedAnyB S fuel ts v = true → ∃ pre t post, ts = pre ++ t :: post ∧ HasType S t v ∧
      ∀ t' ∈ pre, Ev (fun fuel => fromPrim S fuel t' (toPrim S v) = .deser)) ∧
    (∀ fs vs, typedFieldsB S fuel fs vs = true → HasFields S fs vs) := by
  intro fuel
  induction fuel with
  | zero => refine ⟨?_, ?_, ?_, ?_⟩ <;> intros <;> simp_all [typedB, typedListB, typedAnyB, typedFieldsB]
  | succ fuel ih =>
    obtain ⟨ih1, ih2, ih3, ih4⟩ := ih
    refine ⟨?_, ?_, ?_, ?_⟩
    · intro t v h
      cases t with
      | int => cases v <;> simp only [typedB] at h <;> first | exact absurd h (by decide) | exact HasType.int (intOkB_sound _ h)
      | bytes => cases v <;> simp only [typedB] at h <;> first | exact absurd h (by decide) | exact HasType.bytes
      | text => cases v <;> simp only [typedB] at h <;> first | exact absurd h (by decide) | exact HasType.text
      | none => cases v <;> simp only [typedB] at h <;> first | exact absurd h (by decide) | exact HasType.none
      | bool => cases v <;> simp only [typedB] at h <;> first | exact absurd h (by decide) | exact HasType.bool
      | any => cases v <;> simp only [typedB] at h <;> first | exact absurd h (by decide) | exact HasType.any
      | frac =>
        cases v <;> simp only [typedB] at h <;> first | exact absurd h (by decide) | skip
        simp only [Bool.and_eq_true] at h
        exact HasType.frac (intOkB_sound _ h.1) (intOkB_sound _ h.2)
      | named s => cases v <;> simp only [typedB] at h <;> exact absurd h (by decide)
      | dict a b => cases v <;> simp only [typedB] at h <;> exact absurd h (by decide)
      | tuple a => cases v <;> simp only [typedB] at h <;> exact absurd h (by decide)
      | list a =>
        cases v <;> simp only [typedB] at h <;> first | exact absurd h (by decide) | skip
        exact HasType.list (ih2 _ _ h)
      | oset a ne =>
        cases v <;> simp only [typedB] at h <;> first | exact absurd h (by decide) | skip
        exact HasType.oset (ih2 _ _ h)
      | union ts =>
        simp only [typedB] at h
        obtain ⟨pre, t, post, rfl, ht, hrej⟩ := ih3 _ _ h
        exact HasType.union ht hrej
      | cls n =>
        simp only [typedB] at h
        cases hl : lookup S n with
        | none => rw [hl] at h; simp at h
        | some cd =>
          rw [hl] at h
          match v, h with
          | .opaque i, h =>
            simp only [Bool.or_eq_true, Bool.not_eq_true'] at h
            refine HasType.custom hl (fun hg => ?_)
            rcases h with h | h
            · have h2 := hg.mem
              unfold genericB at h
              simp only [Bool.and_eq_false_iff, Bool.not_eq_false', List.contains_iff_mem] at h
              rcases h with h | h
              · exact absurd h h2.1
              · exact absurd h h2.2
            · cases hk : cd.kind <;> rw [hk] at h <;> simp [kindOpaqueB] at h <;> simp
          | .enum x, h =>
            simp only [Bool.and_eq_true] at h
            cases hk : cd.kind with
            | enum vals =>
              rw [hk] at h; simp only [Bool.and_eq_true] at h
              exact HasType.enum hl (genericB_sound _ h.1) hk h.2.1 (intOkB_sound _ h.2.2)
            | _ => rw [hk] at h; simp at h
          | .cb b, h =>
            simp only [Bool.and_eq_true] at h
            cases hk : cd.kind with
            | cbytes mn mx =>
              rw [hk] at h; simp only [Bool.and_eq_true, decide_eq_true_eq] at h
              exact HasType.cb hl (genericB_sound _ h.1) hk h.2.1 h.2.2
            | _ => rw [hk] at h; simp at h
          | .obj m fs, h =>
            simp only [Bool.and_eq_true, beq_iff_eq] at h
            obtain ⟨⟨⟨rfl, hg⟩, hs⟩, hf⟩ := h
            exact HasType.obj hl (genericB_sound _ hg) (shapeOK_sound _ hs) (ih4 _ _ hf)
          | .int _, h | .bytes _, h | .text _, h | .bool _, h | .none, h | .frac _ _, h | .list _, h | .dict _, h
          | .oset _ _, h => simp at h
    · intro t xs h
      cases xs with
      | nil => exact HasTypeList.nil
      | cons x xs =>
        simp only [typedListB, Bool.and_eq_true] at h
        exact HasTypeList.cons (ih1 _ _ h.1) (ih2 _ _ h.2)
    · intro ts v h
      cases ts with
      | nil => simp [typedAnyB] at h
      | cons t ts =>
        simp only [typedAnyB, Bool.or_eq_true, Bool.and_eq_true] at h
        rcases h with h | ⟨hr, h⟩
        · exact ⟨[], t, ts, rfl, ih1 _ _ h, by intro t' ht'; simp at ht'⟩
        · obtain ⟨pre, t', post, rfl, ht, hrej⟩ := ih3 _ _ h
          refine ⟨t :: pre, t', post, rfl, ht, ?_⟩
          intro t'' ht''
          simp only [List.mem_cons] at ht''
          rcases ht'' with rfl | ht''
          · exact rejectsB_sound S fuel _ _ hr
          · exact hrej t'' ht''
    · intro fs vs h
      cases fs with
      | nil => cases vs with
        | nil => exact HasFields.nil
        | cons v vs => simp [typedFieldsB] at h
      | cons f fs => cases vs with
        | nil => simp [typedFieldsB] at h
        | cons v vs =>
          simp only [typedFieldsB, Bool.and_eq_true, Bool.or_eq_true, Bool.not_eq_true'] at h
          obtain ⟨hf, hrest⟩ := h
          rcases hf with (⟨ho, hn⟩ | ⟨hh, hq⟩) | ⟨hh, ht⟩
          · match v, hn with
            | .none, _ => exact HasFields.skip ho (ih4 _ _ hrest)
          · match v, hq with
            | .opaque i, _ => exact HasFields.hook hh (ih4 _ _ hrest)
          · exact HasFields.cons hh (ih1 _ _ ht) (ih4 _ _ hrest)

/-- **soundness of the executable typing check** -/
theorem typedB_sound (S : List ClassDef) (fuel : Nat) (t : Ty) (v : Val) (h : typedB S fuel t v = true) :
    HasType S t v := (typed_sound S fuel).1 t v h

/-- Boolean form of `CodedAlts`: every alternative is a generic coded class of the table; returns the codes -/
def codedAltsB (S : List ClassDef) : List Ty → Option (List Nat)
  | [] => some []
  | .cls n :: ts =>
    match lookup S n with
    | some cd =>
      match cd.kind with
      | .coded k =>
        if genericB cd && decide (k < 2^64) then (codedAltsB S ts).map (k :: ·) else Option.none
      | _ => Option.none
    | Option.none => Option.none
  | _ :: _ => Option.none

theorem codedAltsB_sound (S : List ClassDef) (ts : List Ty) (ks : List Nat) (h : codedAltsB S ts = some ks) :
    CodedAlts S ts ks := by
  induction ts generalizing ks with
  | nil => simp [codedAltsB] at h; subst h; simp [CodedAlts]
  | cons t ts ih =>
    cases t with
    | cls n =>
      simp only [codedAltsB] at h
      cases hl : lookup S n with
      | none => rw [hl] at h; simp at h
      | some cd =>
        rw [hl] at h; simp only at h
        cases hk : cd.kind with
        | coded k =>
          rw [hk] at h; simp only at h
          split at h
          · rename_i hc
            simp only [Bool.and_eq_true, decide_eq_true_eq] at hc
            cases hr : codedAltsB S ts with
            | none => rw [hr] at h; simp at h
            | some ks' =>
              rw [hr] at h; simp only [Option.map_some, Option.some.injEq] at h
              subst h
              simp only [CodedAlts]
              exact ⟨⟨cd, hl, genericB_sound _ hc.1, hk, hc.2⟩, ih _ hr⟩
          · simp at h
        | _ => rw [hk] at h; simp at h
    | _ => simp [codedAltsB] at h

end Pyc.Codec
