import Pyc.Proofs.Cbor
import Pyc.Proofs.Value
import Pyc.Model.Canonical
import Pyc.Proofs.Sort

/-! The canonical sort is a function of the key set; encodings of map-like values are functions of content. -/

namespace Pyc
open Cbor

theorem u8_lt_irrefl (a : UInt8) : ¬ a < a := by
  intro h; have := UInt8.lt_iff_toNat_lt.1 h; omega

theorem u8_eq_of_not_lt {a b : UInt8} (h1 : ¬ a < b) (h2 : ¬ b < a) : a = b := by
  apply UInt8.toNat_inj.1
  rw [UInt8.lt_iff_toNat_lt] at h1 h2
  omega

theorem bytesLt_irrefl (a : Bytes) : bytesLt a a = false := by
  induction a with
  | nil => rfl
  | cons x xs ih => simp [bytesLt, ih]

theorem bytesLt_trans : ∀ (a b c : Bytes), bytesLt a b = true → bytesLt b c = true → bytesLt a c = true
  | [], [], _, h, _ => by simp [bytesLt] at h
  | [], _ :: _, [], _, h => by simp [bytesLt] at h
  | [], _ :: _, _ :: _, _, _ => by simp [bytesLt]
  | _ :: _, [], _, h, _ => by simp [bytesLt] at h
  | _ :: _, _ :: _, [], _, h => by simp [bytesLt] at h
  | x :: xs, y :: ys, z :: zs, h1, h2 => by
    have ih := bytesLt_trans xs ys zs
    simp only [bytesLt] at h1 h2 ⊢
    have e1 := UInt8.lt_iff_toNat_lt (a := x) (b := y)
    have e2 := UInt8.lt_iff_toNat_lt (a := y) (b := x)
    have e3 := UInt8.lt_iff_toNat_lt (a := y) (b := z)
    have e4 := UInt8.lt_iff_toNat_lt (a := z) (b := y)
    have e5 := UInt8.lt_iff_toNat_lt (a := x) (b := z)
    have e6 := UInt8.lt_iff_toNat_lt (a := z) (b := x)
    by_cases hxy : x < y
    · by_cases hyz : y < z
      · have : x < z := e5.2 (by have := e1.1 hxy; have := e3.1 hyz; omega)
        simp [this]
      · by_cases hzy : z < y
        · simp [hyz, hzy] at h2
        · have : y = z := u8_eq_of_not_lt hyz hzy
          subst this; simp [hxy]
    · by_cases hyx : y < x
      · simp [hxy, hyx] at h1
      · have : x = y := u8_eq_of_not_lt hxy hyx
        subst this
        simp only [hxy, if_false] at h1
        by_cases hyz : x < z
        · simp [hyz]
        · by_cases hzy : z < x
          · simp [hyz, hzy] at h2
          · simp only [hyz, hzy, if_false] at h2 ⊢
            exact ih h1 h2

theorem bytesLt_total : ∀ (a b : Bytes), bytesLt a b = false → bytesLt b a = false → a = b
  | [], [], _, _ => rfl
  | [], _ :: _, h, _ => by simp [bytesLt] at h
  | _ :: _, [], _, h => by simp [bytesLt] at h
  | x :: xs, y :: ys, h1, h2 => by
    simp only [bytesLt] at h1 h2
    by_cases hxy : x < y
    · simp [hxy] at h1
    · by_cases hyx : y < x
      · simp [hyx] at h2
      · have : x = y := u8_eq_of_not_lt hxy hyx
        subst this
        simp only [hxy, if_false] at h1 h2
        rw [bytesLt_total xs ys h1 h2]

theorem bytesLt_asymm (a b : Bytes) (h : bytesLt a b = true) : bytesLt b a = false := by
  cases hb : bytesLt b a with
  | false => rfl
  | true => have := bytesLt_trans a b a h hb; simp [bytesLt_irrefl] at this

theorem lenLexLe_total (x y : Bytes) : (lenLexLe x y || lenLexLe y x) = true := by
  unfold lenLexLe bytesLe
  by_cases h1 : x.length < y.length
  · simp [h1]
  · by_cases h2 : y.length < x.length
    · simp [h2]
    · have : x.length = y.length := by omega
      simp [this]
      cases h : bytesLt y x with
      | false => simp
      | true => simp [bytesLt_asymm _ _ h]

theorem lenLexLe_antisymm (x y : Bytes) (h1 : lenLexLe x y = true) (h2 : lenLexLe y x = true) : x = y := by
  unfold lenLexLe bytesLe at h1 h2
  simp only [Bool.or_eq_true, decide_eq_true_eq, Bool.and_eq_true, beq_iff_eq, Bool.not_eq_true'] at h1 h2
  rcases h1 with h1 | ⟨_, h1⟩
  · rcases h2 with h2 | ⟨h2, _⟩ <;> omega
  · rcases h2 with h2 | ⟨_, h2⟩
    · omega
    · exact (bytesLt_total y x h1 h2).symm

theorem lenLexLe_trans (x y z : Bytes) (h1 : lenLexLe x y = true) (h2 : lenLexLe y z = true) : lenLexLe x z = true := by
  unfold lenLexLe bytesLe at *
  simp only [Bool.or_eq_true, decide_eq_true_eq, Bool.and_eq_true, beq_iff_eq, Bool.not_eq_true'] at h1 h2 ⊢
  rcases h1 with h1 | ⟨e1, h1⟩
  · rcases h2 with h2 | ⟨e2, _⟩
    · left; omega
    · left; omega
  · rcases h2 with h2 | ⟨e2, h2⟩
    · left; omega
    · right
      refine ⟨by omega, ?_⟩
      cases h : bytesLt z x with
      | false => rfl
      | true =>
        -- z < x, ¬ y < x, ¬ z < y  ⇒ contradiction via totality
        cases hxy : bytesLt x y with
        | false =>
          have := bytesLt_total y x h1 hxy; subst this; simp [h] at h2
        | true =>
          have := bytesLt_trans z x y h hxy; simp [this] at h2

theorem sortKeyBytes_inj (a b : Bytes) (ha : a.length < 2^64) (hb : b.length < 2^64)
    (h : sortKeyBytes a = sortKeyBytes b) : a = b := by
  have h1 := decode_encode (.bytes a) [] 1 (by simp [depth]) (by simpa [WF] using ha)
  have h2 := decode_encode (.bytes b) [] 1 (by simp [depth]) (by simpa [WF] using hb)
  unfold sortKeyBytes at h
  rw [h, h2] at h1
  simpa using h1.symm

/-- keys short enough for a CBOR length head (every real key: 28-byte hashes, names ≤ 32 bytes) -/
def KeysOk {ν : Type} (m : List (Bytes × ν)) : Prop := ∀ k, Dict.has m k = true → k.length < 2^64

theorem has_of_mem {ν : Type} {m : List (Bytes × ν)} {a : Bytes × ν} (h : a ∈ m) : Dict.has m a.1 = true :=
  (Dict.has_iff_mem m a.1).2 (by simp only [Dict.keys, List.mem_map]; exact ⟨a, h, rfl⟩)

theorem keyLe_total (a b : Bytes) : (keyLe a b || keyLe b a) = true := lenLexLe_total _ _
theorem keyLe_trans (a b c : Bytes) : keyLe a b = true → keyLe b c = true → keyLe a c = true := lenLexLe_trans _ _ _
theorem keyLe_antisymm (a b : Bytes) (ha : a.length < 2^64) (hb : b.length < 2^64)
    (h1 : keyLe a b = true) (h2 : keyLe b a = true) : a = b :=
  sortKeyBytes_inj a b ha hb (lenLexLe_antisymm _ _ h1 h2)

theorem canonSort_perm {ν : Type} (m : List (Bytes × ν)) : (canonSort m).Perm m := isort_perm _ _

theorem canonSort_sorted {ν : Type} (m : List (Bytes × ν)) :
    (canonSort m).Pairwise (fun a b => keyLe a.1 b.1 = true) := by
  exact isort_pairwise (fun (a b : Bytes × ν) => keyLe a.1 b.1)
    (fun a b c h1 h2 => keyLe_trans _ _ _ h1 h2) (fun a b => keyLe_total _ _) m

/-- the emitted order is a function of the set of entries: any two insertion orders give the same list -/
theorem canonSort_unique {ν : Type} (m₁ m₂ : List (Bytes × ν)) (hw : Dict.WF m₁) (hk : KeysOk m₁)
    (hp : m₁.Perm m₂) : canonSort m₁ = canonSort m₂ := by
  have p1 := canonSort_perm m₁
  have p2 := canonSort_perm m₂
  have hperm : (canonSort m₁).Perm (canonSort m₂) := p1.trans (hp.trans p2.symm)
  apply List.Perm.eq_of_pairwise (le := fun a b => keyLe a.1 b.1 = true) _ (canonSort_sorted m₁) (canonSort_sorted m₂) hperm
  intro a b ha hb h1 h2
  have ha' : a ∈ m₁ := p1.subset ha
  have hb' : b ∈ m₁ := hp.symm.subset (p2.subset hb)
  have hkey : a.1 = b.1 := keyLe_antisymm _ _ (hk _ (has_of_mem ha')) (hk _ (has_of_mem hb')) h1 h2
  -- unique keys ⇒ equal pairs
  obtain ⟨ka, va⟩ := a
  obtain ⟨kb, vb⟩ := b
  simp only at hkey; subst hkey
  have e1 := (Dict.mem_iff_getD m₁ ka va va hw).1 ha'
  have e2 := (Dict.mem_iff_getD m₁ ka vb va hw).1 hb'
  rw [← e1.2, ← e2.2]

theorem nodup_of_wf {ν : Type} (m : List (Bytes × ν)) (h : Dict.WF m) : m.Nodup := by
  unfold Dict.WF Dict.keys at h
  induction m with
  | nil => simp
  | cons p r ih =>
    simp only [List.map_cons, List.nodup_cons] at h ⊢
    refine ⟨fun hm => h.1 ?_, ih h.2⟩
    simp only [List.mem_map]; exact ⟨p, hm, rfl⟩

namespace Asset
open Dict

theorem mem_normalize_iff (a : Asset) (hw : WF a) (n : Bytes) (q : Int) :
    (n, q) ∈ normalize a ↔ qty a n = q ∧ q ≠ 0 := by
  unfold normalize
  simp only [List.mem_filter, bne_iff_ne, ne_eq]
  rw [mem_iff_getD a n q 0 hw]
  constructor
  · rintro ⟨⟨_, h2⟩, h3⟩; exact ⟨h2, h3⟩
  · rintro ⟨h1, h2⟩; exact ⟨⟨has_of_qty_ne a n (by rw [h1]; exact h2), h1⟩, h2⟩

theorem normalize_perm (a b : Asset) (ha : WF a) (hb : WF b) (h : ∀ n, qty a n = qty b n) :
    (normalize a).Perm (normalize b) := by
  apply (List.perm_ext_iff_of_nodup (nodup_of_wf _ (wf_normalize a ha)) (nodup_of_wf _ (wf_normalize b hb))).2
  rintro ⟨n, q⟩
  rw [mem_normalize_iff a ha, mem_normalize_iff b hb, h n]

theorem keysOk_normalize (a : Asset) (h : KeysOk a) (hw : WF a) : KeysOk (normalize a) := by
  intro k hk
  rw [has_normalize a k hw] at hk
  simp only [Bool.and_eq_true] at hk
  exact h k hk.1

end Asset

/-- the canonical form of an asset dict is a function of its content -/
theorem primAsset_content (a b : Asset) (ha : Dict.WF a) (hb : Dict.WF b) (ka : KeysOk a)
    (h : ∀ n, Asset.qty a n = Asset.qty b n) : primAsset a = primAsset b :=
  canonSort_unique _ _ (Asset.wf_normalize a ha) (Asset.keysOk_normalize a ka ha) (Asset.normalize_perm a b ha hb h)

namespace MultiAsset
open Dict

/-- key-length side condition at both levels -/
def KeysOk (m : MultiAsset) : Prop := Pyc.KeysOk m ∧ ∀ p ∈ m, Pyc.KeysOk p.2

theorem keysOk_normalize (m : MultiAsset) (h : KeysOk m) (hw : WF m) : KeysOk (normalize m) := by
  constructor
  · intro k hk
    unfold normalize at hk
    rw [has_filter _ _ _ [] (wf_map m Asset.normalize hw.1), has_map] at hk
    simp only [Bool.and_eq_true] at hk
    exact h.1 k hk.1
  · intro p hp
    simp [normalize] at hp
    obtain ⟨⟨a, b, hab, rfl⟩, _⟩ := hp
    exact Asset.keysOk_normalize _ (h.2 _ hab) (hw.2 _ hab)

/-- the per-policy canonicalisation applied by `to_primitive` -/
def canonInner (p : Bytes × Asset) : Bytes × List (Bytes × Int) := (p.1, primAsset p.2)

theorem keys_canonInner (m : MultiAsset) : keys (m.map canonInner) = keys m := by
  simp [keys, canonInner, List.map_map, Function.comp_def]

theorem canonInner_sub (N₁ N₂ : MultiAsset) (h1 : WF N₁) (h2 : WF N₂) (n1 : Normal N₁) (n2 : Normal N₂)
    (k1 : KeysOk N₁ ∨ KeysOk N₂) (h : ∀ p n, qty N₁ p n = qty N₂ p n) :
    ∀ x, x ∈ N₁.map canonInner → x ∈ N₂.map canonInner := by
  intro x hx
  simp only [List.mem_map] at hx ⊢
  obtain ⟨⟨p, a₁⟩, hm, rfl⟩ := hx
  have hp := getD_of_mem N₁ p a₁ h1 hm
  have hp2 : has N₂ p = true := by
    rw [has_iff_qty N₂ p h2 n2]
    obtain ⟨n, hn⟩ := (has_iff_qty N₁ p h1 n1).1 hp.1
    exact ⟨n, by rw [← h p n]; exact hn⟩
  have hm2 := mem_getD N₂ p h2 hp2
  refine ⟨(p, getD N₂ p []), hm2, ?_⟩
  simp only [canonInner]
  congr 1
  have hq : ∀ n, Asset.qty (getD N₂ p []) n = Asset.qty a₁ n := by
    intro n
    have := h p n
    simp only [qty, hp.2] at this
    exact this.symm
  rcases k1 with k1 | k1
  · exact (primAsset_content a₁ _ (h1.2 _ hm) (h2.2 _ hm2) (k1.2 _ hm) (fun n => (hq n).symm)).symm
  · exact primAsset_content _ a₁ (h2.2 _ hm2) (h1.2 _ hm) (k1.2 _ hm2) hq

theorem canonInner_perm (N₁ N₂ : MultiAsset) (h1 : WF N₁) (h2 : WF N₂) (n1 : Normal N₁) (n2 : Normal N₂)
    (k1 : KeysOk N₁) (h : ∀ p n, qty N₁ p n = qty N₂ p n) :
    (N₁.map canonInner).Perm (N₂.map canonInner) := by
  have w1 : Dict.WF (N₁.map canonInner) := by unfold Dict.WF; rw [keys_canonInner]; exact h1.1
  have w2 : Dict.WF (N₂.map canonInner) := by unfold Dict.WF; rw [keys_canonInner]; exact h2.1
  apply (List.perm_ext_iff_of_nodup (nodup_of_wf _ w1) (nodup_of_wf _ w2)).2
  intro x
  exact ⟨canonInner_sub N₁ N₂ h1 h2 n1 n2 (Or.inl k1) h x,
         canonInner_sub N₂ N₁ h2 h1 n2 n1 (Or.inr k1) (fun p n => (h p n).symm) x⟩

end MultiAsset

theorem primMultiAsset_eq (m : MultiAsset) :
    primMultiAsset m = canonSort ((MultiAsset.normalize m).map MultiAsset.canonInner) := by
  unfold primMultiAsset canonSort
  exact map_isort (fun (a b : Bytes × Asset) => keyLe a.1 b.1)
    (fun (a b : Bytes × List (Bytes × Int)) => keyLe a.1 b.1) MultiAsset.canonInner (fun a b => rfl) _

/-- the canonical form of a bundle is a function of its content -/
theorem primMultiAsset_content (m₁ m₂ : MultiAsset) (h1 : MultiAsset.WF m₁) (h2 : MultiAsset.WF m₂)
    (k1 : MultiAsset.KeysOk m₁) (h : ∀ p n, MultiAsset.qty m₁ p n = MultiAsset.qty m₂ p n) :
    primMultiAsset m₁ = primMultiAsset m₂ := by
  rw [primMultiAsset_eq, primMultiAsset_eq]
  have w1 := MultiAsset.wf_normalize m₁ h1
  have w2 := MultiAsset.wf_normalize m₂ h2
  have kk := MultiAsset.keysOk_normalize m₁ k1 h1
  apply canonSort_unique
  · unfold Dict.WF; rw [MultiAsset.keys_canonInner]; exact w1.1
  · intro k hk
    apply kk.1 k
    rw [Dict.has_iff_mem] at hk ⊢
    rw [MultiAsset.keys_canonInner] at hk; exact hk
  · apply MultiAsset.canonInner_perm _ _ w1 w2 (MultiAsset.normal_normalize _) (MultiAsset.normal_normalize _) kk
    intro p n
    rw [MultiAsset.qty_normalize _ _ _ h1, MultiAsset.qty_normalize _ _ _ h2, h p n]


theorem canonSortRaw_unique (m₁ m₂ : List (Bytes × Bytes)) (hw : Dict.WF m₁) (hp : m₁.Perm m₂) :
    canonSortRaw m₁ = canonSortRaw m₂ := by
  have p1 : (canonSortRaw m₁).Perm m₁ := isort_perm _ _
  have p2 : (canonSortRaw m₂).Perm m₂ := isort_perm _ _
  have srt : ∀ m : List (Bytes × Bytes), (canonSortRaw m).Pairwise (fun a b => lenLexLe a.1 b.1 = true) := by
    intro m
    exact isort_pairwise (fun (a b : Bytes × Bytes) => lenLexLe a.1 b.1)
      (fun a b c h1 h2 => lenLexLe_trans _ _ _ h1 h2) (fun a b => lenLexLe_total _ _) m
  apply List.Perm.eq_of_pairwise (le := fun a b => lenLexLe a.1 b.1 = true) _ (srt m₁) (srt m₂)
    (p1.trans (hp.trans p2.symm))
  intro a b ha hb h1 h2
  have ha' : a ∈ m₁ := p1.subset ha
  have hb' : b ∈ m₁ := hp.symm.subset (p2.subset hb)
  have hkey : a.1 = b.1 := lenLexLe_antisymm _ _ h1 h2
  obtain ⟨ka, va⟩ := a
  obtain ⟨kb, vb⟩ := b
  simp only at hkey; subst hkey
  have e1 := (Dict.mem_iff_getD m₁ ka va va hw).1 ha'
  have e2 := (Dict.mem_iff_getD m₁ ka vb va hw).1 hb'
  rw [← e1.2, ← e2.2]

/-- every dict-like class: the emitted bytes do not depend on insertion order -/
theorem encRawMap_order_independent (m₁ m₂ : List (Bytes × Bytes)) (hw : Dict.WF m₁) (hp : m₁.Perm m₂) :
    encRawMap m₁ = encRawMap m₂ := by
  unfold encRawMap
  rw [canonSortRaw_unique m₁ m₂ hw hp, hp.length_eq]

end Pyc
