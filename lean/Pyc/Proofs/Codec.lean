import Pyc.Model.Codec
import Pyc.Proofs.Cbor

/-! Generic round trip of the table-driven codec: for every schema `S` and every value `v` typed by `HasType S t v`
(the table-driven fragment: integers in the 64-bit ranges, byte strings, text, `None`, lists, ordered sets, ordered
unions, constrained byte classes, array / coded / map classes restored by the generic code),
`fromPrim S fuel t (toPrim S v) = ok v` for all sufficiently large fuel.

The side condition of an ordered union — every alternative *before* the one that types the value answers
`DeserializeException` on the value's image — is a premise of the typing rule `HasType.union` itself (per value and
per union occurrence), so the theorem has no global hypothesis.  It is discharged by theorem for unions of coded
classes (`unionOK_coded`) and by evaluation for any concrete value (`typedB`, via fuel monotonicity, `Proofs/Typed.lean`).
(An earlier version carried it as a global hypothesis `WFS S` quantified over *all* unions; that hypothesis was
unsatisfiable — `.any` rejects nothing — which made the theorem vacuous.) -/

namespace Pyc.Codec
open Pyc Pyc.Cbor Pyc.Schema

/-- "eventually": for all sufficiently large fuel -/
def Ev (p : Nat → Prop) : Prop := ∃ N, ∀ fuel, N ≤ fuel → p fuel

theorem Ev.and {p q : Nat → Prop} (hp : Ev p) (hq : Ev q) : Ev (fun n => p n ∧ q n) := by
  obtain ⟨a, ha⟩ := hp; obtain ⟨b, hb⟩ := hq
  exact ⟨max a b, fun f hf => ⟨ha f (by omega), hb f (by omega)⟩⟩

theorem Ev.succ {p q : Nat → Prop} (hp : Ev p) (h : ∀ n, p n → q (n+1)) : Ev q := by
  obtain ⟨a, ha⟩ := hp
  refine ⟨a+1, fun f hf => ?_⟩
  obtain ⟨g, rfl⟩ : ∃ g, f = g + 1 := ⟨f - 1, by omega⟩
  exact h g (ha g (by omega))

theorem Ev.pos {p : Nat → Prop} (h : ∀ n, p (n+1)) : Ev p :=
  ⟨1, fun f hf => by obtain ⟨g, rfl⟩ : ∃ g, f = g + 1 := ⟨f - 1, by omega⟩; exact h g⟩

/-- integers cbor2 encodes in the major types 0 / 1 -/
def IntOk (i : Int) : Prop := -(2:Int)^64 ≤ i ∧ i < (2:Int)^64

theorem itemInt_ofInt (i : Int) (h : IntOk i) : itemInt? (ofInt i) = some i := by
  unfold IntOk at h
  unfold ofInt
  by_cases h0 : 0 ≤ i
  · have h1 : i.toNat < 2^64 := by omega
    simp only [h0, h1, if_true, itemInt?]
    congr 1; omega
  · have h1 : (-1 - i).toNat < 2^64 := by omega
    simp only [h0, if_false, h1, if_true, itemInt?]
    congr 1; omega

/-- a class restored by the generic code: no `from_primitive` / `__post_init__` of its own -/
def Generic (cd : ClassDef) : Prop :=
  cd.overrides.contains "from_primitive" = false ∧ cd.overrides.contains "__post_init__" = false

theorem Generic.mem {cd : ClassDef} (hg : Generic cd) :
    ¬ "from_primitive" ∈ cd.overrides ∧ ¬ "__post_init__" ∈ cd.overrides := by
  unfold Generic at hg; simpa using hg

/-- keys the map classes use: non-negative integers below 2^64 -/
def KeyOk (k : Key) : Prop := ∃ n : Nat, k = .int n ∧ n < 2^64

/-- shape of a class the generic theorem covers (decidable per class, see `shapeOK`):
array classes — every dataclass field is a constructor field, none optional;
coded classes — the code fits a CBOR head, constructor fields not optional;
map classes — every field is a constructor field keyed by a distinct small integer, an optional field defaults
to `None`.
A field restored by an `object_hook` (hand-written code) is allowed: its value is carried as an opaque primitive
(`HasFields.hook`). -/
def ShapeOK (cd : ClassDef) : Prop :=
  match cd.kind with
  | .array => ∀ f ∈ cd.fields, f.init = true ∧ f.optional = false
  | .coded k => k < 2^64 ∧ ∀ f ∈ wireFields cd, f.optional = false
  | .map => (∀ f ∈ cd.fields, f.init = true ∧ KeyOk f.key ∧ (f.optional = true → dfltVal f = some .none)) ∧
      (cd.fields.map (·.key)).Nodup
  | _ => False

mutual
inductive HasType (S : List ClassDef) : Ty → Val → Prop
  | int {i} : IntOk i → HasType S .int (.int i)
  | bytes {b} : HasType S .bytes (.bytes b)
  | text {b} : HasType S .text (.text b)
  | none : HasType S .none .none
  | bool {b} : HasType S .bool (.bool b)
  | frac {n d} : IntOk n → IntOk d → HasType S .frac (.frac n d)
  | any {i} : HasType S .any (.opaque i)
  | custom {n cd i} : lookup S n = some cd → (Generic cd → cd.kind = .custom ∨ cd.kind = .oset) →
      HasType S (.cls n) (.opaque i)                   -- a class with its own codec: carried as its primitive
  | enum {n cd vals v} : lookup S n = some cd → Generic cd → cd.kind = .enum vals → vals.contains v = true → IntOk v →
      HasType S (.cls n) (.enum v)
  | oset {t ne tagged xs} : HasTypeList S t xs → HasType S (.oset t ne) (.oset tagged xs)
  | list {t xs} : HasTypeList S t xs → HasType S (.list t) (.list xs)
  | union {pre t post v} : HasType S t v →
      -- ordered dispatch reaches `t`: every earlier alternative raises `DeserializeException` on the image of `v`
      (∀ t' ∈ pre, Ev (fun fuel => fromPrim S fuel t' (toPrim S v) = .deser)) →
      HasType S (.union (pre ++ t :: post)) v
  | cb {n cd mn mx b} : lookup S n = some cd → Generic cd → cd.kind = .cbytes mn mx → mn ≤ b.length → b.length ≤ mx →
      HasType S (.cls n) (.cb b)
  | obj {n cd fs} : lookup S n = some cd → Generic cd → ShapeOK cd →
      HasFields S (wireFields cd) fs → HasType S (.cls n) (.obj n fs)
inductive HasTypeList (S : List ClassDef) : Ty → List Val → Prop
  | nil {t} : HasTypeList S t []
  | cons {t x xs} : HasType S t x → HasTypeList S t xs → HasTypeList S t (x :: xs)
inductive HasFields (S : List ClassDef) : List FieldDef → List Val → Prop
  | nil : HasFields S [] []
  | cons {f fs v vs} : f.hook = false → HasType S f.ty v → HasFields S fs vs → HasFields S (f :: fs) (v :: vs)
  -- an optional field holding `None` is not written (map classes), whatever its type hint
  | skip {f fs vs} : f.optional = true → HasFields S fs vs → HasFields S (f :: fs) (.none :: vs)
  -- a field restored by its `object_hook` (hand-written code) is carried as its primitive
  | hook {f fs i vs} : f.hook = true → HasFields S fs vs → HasFields S (f :: fs) (.opaque i :: vs)
end

variable {S : List ClassDef}

theorem wireFields_eq_of_init (cd : ClassDef) (h : ∀ f ∈ cd.fields, f.init = true) : wireFields cd = cd.fields := by
  unfold wireFields
  rw [List.filter_eq_self]
  exact h

theorem arrFields_noopt (fs : List FieldDef) (vs : List Val) (h : ∀ f ∈ fs, f.optional = false) (hl : HasFields S fs vs) :
    arrFields S fs vs = toPrimList S vs := by
  induction fs generalizing vs with
  | nil => cases hl; simp [arrFields, toPrimList]
  | cons f fs ih =>
    have hf : f.optional = false := h f (by simp)
    cases hl with
    | cons _ hv hr => simp [arrFields, toPrimList, hf, ih _ (fun g hg => h g (by simp [hg])) hr]
    | skip ho hr => rw [hf] at ho; exact absurd ho (by decide)
    | hook _ hr => simp [arrFields, toPrimList, hf, ih _ (fun g hg => h g (by simp [hg])) hr]

/-- is the field skipped on the wire? (`optional` and holding `None`) -/
def skip (f : FieldDef) (v : Val) : Bool := match f.optional, v with | true, .none => true | _, _ => false

theorem mapFields_cons (f : FieldDef) (fs : List FieldDef) (v : Val) (vs : List Val) :
    mapFields S (f :: fs) (v :: vs) =
      if skip f v then mapFields S fs vs else (keyItem f.key, toPrim S v) :: mapFields S fs vs := by
  cases ho : f.optional <;> cases v <;> simp [mapFields, skip, ho]

/-- keys occurring in an encoded map, as `Key`s (only small non-negative integer keys are recognised) -/
def wireKeyOf (i : Item) : Option Nat := match i with | .uint n => some n | _ => Option.none

theorem keyItem_ok (k : Key) (h : KeyOk k) : ∃ n, keyItem k = .uint n ∧ n < 2^64 ∧ k = .int n := by
  obtain ⟨n, rfl, hn⟩ := h
  refine ⟨n, ?_, hn, rfl⟩
  unfold keyItem ofInt
  have h0 : (0 : Int) ≤ (n : Int) := by omega
  have h1 : (n : Int).toNat < 2^64 := by omega
  have h2 : n < 18446744073709551616 := by omega
  simp [h0, h2]

theorem encode_uint_inj (a b : Nat) (ha : a < 2^64) (hb : b < 2^64) (h : encode (.uint a) = encode (.uint b)) : a = b := by
  have h1 := decode_encode (.uint a) [] 1 (by simp [depth]) (by simpa [WF] using ha)
  have h2 := decode_encode (.uint b) [] 1 (by simp [depth]) (by simpa [WF] using hb)
  rw [h, h2] at h1
  simpa using h1.symm

def keysOf (kvs : List (Item × Item)) : List Item := kvs.map (·.1)

theorem lookupItemKey_not_mem (k : Item) (kvs : List (Item × Item))
    (h : ∀ k' ∈ keysOf kvs, encode k' ≠ encode k) : lookupItemKey k kvs = Option.none := by
  induction kvs with
  | nil => simp [lookupItemKey]
  | cons p r ih =>
    obtain ⟨a, b⟩ := p
    have ha : encode a ≠ encode k := h a (by simp [keysOf])
    simp only [lookupItemKey, ha, if_false]
    exact ih (fun k' hk' => h k' (by simp only [keysOf, List.map_cons, List.mem_cons]; exact Or.inr hk'))

theorem lookupItemKey_append (k : Item) (pre r : List (Item × Item))
    (h : ∀ k' ∈ keysOf pre, encode k' ≠ encode k) : lookupItemKey k (pre ++ r) = lookupItemKey k r := by
  induction pre with
  | nil => simp
  | cons p pre ih =>
    obtain ⟨a, b⟩ := p
    have ha : encode a ≠ encode k := h a (by simp [keysOf])
    simp only [List.cons_append, lookupItemKey, ha, if_false]
    exact ih (fun k' hk' => h k' (by simp only [keysOf, List.map_cons, List.mem_cons]; exact Or.inr hk'))

theorem keysOf_mapFields_sub (fs : List FieldDef) (vs : List Val) :
    ∀ k ∈ keysOf (mapFields S fs vs), ∃ f ∈ fs, k = keyItem f.key := by
  induction fs generalizing vs with
  | nil => simp [mapFields, keysOf]
  | cons f fs ih =>
    cases vs with
    | nil => simp [mapFields, keysOf]
    | cons v vs =>
      intro k hk
      rw [mapFields_cons] at hk
      split at hk
      · obtain ⟨g, hg, e⟩ := ih vs k hk
        exact ⟨g, by simp [hg], e⟩
      · simp only [keysOf, List.map_cons, List.mem_cons] at hk
        rcases hk with rfl | hk
        · exact ⟨f, by simp, rfl⟩
        · obtain ⟨g, hg, e⟩ := ih vs k hk
          exact ⟨g, by simp [hg], e⟩

/-- distinct well-formed keys have distinct encodings -/
theorem key_enc_ne (f g : FieldDef) (hf : KeyOk f.key) (hg : KeyOk g.key) (hne : f.key ≠ g.key) :
    encode (keyItem g.key) ≠ encode (keyItem f.key) := by
  obtain ⟨a, ea, ha, ka⟩ := keyItem_ok f.key hf
  obtain ⟨b, eb, hb, kb⟩ := keyItem_ok g.key hg
  rw [ea, eb]
  intro h
  have := encode_uint_inj b a hb ha h
  apply hne; rw [ka, kb, this]

/-- every field finds its own entry (or none when skipped) in the emitted map -/
def EntriesOK (S : List ClassDef) (kvs : List (Item × Item)) : List FieldDef → List Val → Prop
  | f :: fs, v :: vs =>
    (lookupItemKey (keyItem f.key) kvs = if skip f v then Option.none else some (toPrim S v)) ∧ EntriesOK S kvs fs vs
  | _, _ => True

theorem entriesOK_mapFields (fs : List FieldDef) (vs : List Val) (pre : List (Item × Item))
    (hok : ∀ f ∈ fs, KeyOk f.key) (hnd : (fs.map (·.key)).Nodup)
    (hdis : ∀ f ∈ fs, ∀ k' ∈ keysOf pre, encode k' ≠ encode (keyItem f.key)) :
    EntriesOK S (pre ++ mapFields S fs vs) fs vs := by
  induction fs generalizing vs pre with
  | nil => simp [EntriesOK]
  | cons f fs ih =>
    cases vs with
    | nil => simp [EntriesOK]
    | cons v vs =>
      simp only [List.map_cons, List.nodup_cons] at hnd
      have hk := hdis f (by simp)
      have hrest_ne : ∀ k' ∈ keysOf (mapFields S fs vs), encode k' ≠ encode (keyItem f.key) := by
        intro k' hk'
        obtain ⟨g, hg, e⟩ := keysOf_mapFields_sub fs vs k' hk'
        rw [e]
        apply key_enc_ne f g (hok f (by simp)) (hok g (by simp [hg]))
        intro he
        apply hnd.1
        rw [he]
        exact List.mem_map_of_mem hg
      unfold EntriesOK
      by_cases hs : skip f v = true
      · have hm : mapFields S (f :: fs) (v :: vs) = mapFields S fs vs := by
          rw [mapFields_cons, hs]; simp
        rw [hm]
        refine ⟨?_, ih vs pre (fun g hg => hok g (by simp [hg])) hnd.2 (fun g hg => hdis g (by simp [hg]))⟩
        rw [lookupItemKey_append _ _ _ hk, hs]
        simp only [if_true]
        exact lookupItemKey_not_mem _ _ hrest_ne
      · have hm : mapFields S (f :: fs) (v :: vs) = (keyItem f.key, toPrim S v) :: mapFields S fs vs := by
          rw [mapFields_cons]; simp [hs]
        rw [hm]
        constructor
        · rw [lookupItemKey_append _ _ _ hk]; simp [lookupItemKey, hs]
        · have := ih vs (pre ++ [(keyItem f.key, toPrim S v)]) (fun g hg => hok g (by simp [hg])) hnd.2 (fun g hg => by
            intro k' hk'
            simp only [keysOf, List.map_append, List.map_cons, List.map_nil, List.mem_append, List.mem_singleton] at hk'
            rcases hk' with hk' | hk'
            · exact hdis g (by simp [hg]) k' (by simpa [keysOf] using hk')
            · rw [hk']
              apply key_enc_ne g f (hok g (by simp [hg])) (hok f (by simp))
              intro he
              apply hnd.1
              rw [← he]
              exact List.mem_map_of_mem hg)
          simpa [List.append_assoc] using this

/-- every key emitted for a map class is one of the class's keys (so the "unexpected key" test passes) -/
theorem mapFields_keys_known (fs : List FieldDef) (vs : List Val) :
    (mapFields S fs vs).all (fun kv => fs.any (fun f => encode (keyItem f.key) = encode kv.1)) = true := by
  rw [List.all_eq_true]
  intro kv hkv
  obtain ⟨g, hg, e⟩ := keysOf_mapFields_sub fs vs kv.1 (by simp only [keysOf, List.mem_map]; exact ⟨kv, hkv, rfl⟩)
  rw [List.any_eq_true]
  exact ⟨g, hg, by simp [e]⟩


theorem rtUnion (pre : List Ty) (t : Ty) (post : List Ty) (v : Val)
    (hall : ∀ t'' ∈ pre, Ev (fun fuel => fromPrim S fuel t'' (toPrim S v) = .deser))
    (ih : Ev (fun fuel => fromPrim S fuel t (toPrim S v) = .ok v)) :
    Ev (fun fuel => fromUnion S fuel (pre ++ t :: post) (toPrim S v) = .ok v) := by
  induction pre with
  | nil => exact ih.succ (fun n hn => by simp [fromUnion, hn])
  | cons a as iha =>
    have ha := hall a (by simp)
    have hr := iha (fun t'' h'' => hall t'' (by simp [h'']))
    exact (ha.and hr).succ (fun n hn => by simp [fromUnion, hn.1, hn.2])

/-- **generic round trip**: decoding the encoding of a typed value with its type returns the value -/
theorem rt_all {t : Ty} {v : Val} (h : HasType S t v) :
    Ev (fun fuel => fromPrim S fuel t (toPrim S v) = .ok v) := by
  refine HasType.rec (S := S)
    (motive_1 := fun t v _ => Ev (fun fuel => fromPrim S fuel t (toPrim S v) = .ok v))
    (motive_2 := fun t xs _ => Ev (fun fuel => fromPrimList S fuel t (toPrimList S xs) = .ok xs))
    (motive_3 := fun fs vs _ =>
        ((∀ f ∈ fs, f.optional = false) → Ev (fun fuel => fromArr S fuel fs (toPrimList S vs) = .ok vs)) ∧
        ((∀ f ∈ fs, f.optional = true → dfltVal f = some .none) → ∀ kvs, EntriesOK S kvs fs vs →
          Ev (fun fuel => fromMap S fuel fs kvs = .ok vs)))
    ?int ?bytes ?text ?none ?bool ?frac ?any ?custom ?enum ?oset ?list ?union ?cb ?obj ?lnil ?lcons ?fnil ?fcons ?fskip ?fhook h
  case int =>
    intro i hi
    exact Ev.pos (fun n => by simp [toPrim, fromPrim, itemInt_ofInt i hi])
  case bytes => intro b; exact Ev.pos (fun n => by simp [toPrim, fromPrim])
  case text => intro b; exact Ev.pos (fun n => by simp [toPrim, fromPrim])
  case none => exact Ev.pos (fun n => by simp [toPrim, fromPrim])
  case bool => intro b; exact Ev.pos (fun n => by cases b <;> simp [toPrim, fromPrim])
  case frac =>
    intro n d hn hd
    exact Ev.pos (fun m => by simp [toPrim, fromPrim, itemInt_ofInt n hn, itemInt_ofInt d hd])
  case any => intro i; exact Ev.pos (fun n => by simp [toPrim, fromPrim])
  case custom =>
    intro n cd i hl hc
    refine Ev.pos (fun m => ?_)
    by_cases hg : Generic cd
    · rcases hc hg with hk | hk <;> simp [toPrim, fromPrim, hl, hg.mem.1, hg.mem.2, hk]
    · unfold Generic at hg
      by_cases h1 : cd.overrides.contains "from_primitive" = true
      · have h1m : "from_primitive" ∈ cd.overrides := List.contains_iff_mem.1 h1
        simp [toPrim, fromPrim, hl, h1m]
      · have h1' : cd.overrides.contains "from_primitive" = false := by simpa using h1
        have h2 : cd.overrides.contains "__post_init__" = true := by
          cases h : cd.overrides.contains "__post_init__" with
          | true => rfl
          | false => exact absurd ⟨h1', h⟩ hg
        have h2m : "__post_init__" ∈ cd.overrides := List.contains_iff_mem.1 h2
        simp [toPrim, fromPrim, hl, h2m]
  case «enum» =>
    intro n cd vals v hl hg hk hv hi
    have hvm : v ∈ vals := List.contains_iff_mem.1 hv
    exact Ev.pos (fun m => by simp [toPrim, fromPrim, hl, hg.mem.1, hg.mem.2, hk, itemInt_ofInt v hi, hvm])
  case oset =>
    intro t ne tagged xs _ ih
    cases tagged with
    | true => exact ih.succ (fun n hn => by simp [toPrim, fromPrim, listElems?, hn])
    | false => exact ih.succ (fun n hn => by simp [toPrim, fromPrim, listElems?, hn])
  case list =>
    intro t xs _ ih
    exact ih.succ (fun n hn => by simp [toPrim, fromPrim, listElems?, hn])
  case union =>
    intro pre t post v _ hall ih
    have hu := rtUnion pre t post v hall ih
    exact hu.succ (fun n hn => by simp [fromPrim, hn])
  case cb =>
    intro n cd mn mx b hl hg hk h1 h2
    exact Ev.pos (fun m => by simp [toPrim, fromPrim, hl, hg.mem.1, hg.mem.2, hk, h1, h2])
  case obj =>
    intro n cd fs hl hg hshape hf hboth
    unfold ShapeOK at hshape
    cases hk : cd.kind with
    | array =>
      rw [hk] at hshape
      have hw := hshape
      have hfe : wireFields cd = cd.fields := wireFields_eq_of_init cd (fun f hf => (hw f hf).1)
      rw [hfe] at hboth hf
      have hno : ∀ f ∈ cd.fields, f.optional = false := fun f hf => (hw f hf).2
      have he := arrFields_noopt (S := S) cd.fields fs hno hf
      have harr := hboth.1 hno
      exact harr.succ (fun m hm => by
        simp [toPrim, fromPrim, hl, hg.mem.1, hg.mem.2, hk, he, hfe, listElems?, hm])
    | map =>
      rw [hk] at hshape
      have hw := hshape
      have hfe : wireFields cd = cd.fields := wireFields_eq_of_init cd (fun f hf => (hw.1 f hf).1)
      rw [hfe] at hboth hf
      have hent := entriesOK_mapFields (S := S) cd.fields fs [] (fun f hf => (hw.1 f hf).2.1) hw.2
        (by intro f _ k' hk'; simp [keysOf] at hk')
      have hm := hboth.2 (fun f hf => (hw.1 f hf).2.2) _ hent
      have hkeys := mapFields_keys_known (S := S) cd.fields fs
      exact hm.succ (fun m hm' => by
        simp only [List.nil_append] at hm'
        simp [toPrim, fromPrim, hl, hg.mem.1, hg.mem.2, hk, hfe, hkeys, hm'])
    | coded k =>
      rw [hk] at hshape
      have hw := hshape
      have hno : ∀ f ∈ wireFields cd, f.optional = false := fun f hf => hw.2 f hf
      have he := arrFields_noopt (S := S) (wireFields cd) fs hno hf
      have harr := hboth.1 hno
      exact harr.succ (fun m hm => by
        simp [toPrim, fromPrim, hl, hg.mem.1, hg.mem.2, hk, he, hm])
    | dict a b => rw [hk] at hshape; exact absurd hshape id
    | oset => rw [hk] at hshape; exact absurd hshape id
    | cbytes a b => rw [hk] at hshape; exact absurd hshape id
    | «enum» a => rw [hk] at hshape; exact absurd hshape id
    | custom => rw [hk] at hshape; exact absurd hshape id
  case lnil => intro t; exact Ev.pos (fun n => by simp [toPrimList, fromPrimList])
  case lcons =>
    intro t x xs _ _ h1 h2
    exact (h1.and h2).succ (fun n hn => by simp [toPrimList, fromPrimList, hn.1, hn.2])
  case fnil =>
    exact ⟨fun _ => Ev.pos (fun n => by simp [fromArr]), fun _ kvs _ => Ev.pos (fun n => by simp [fromMap])⟩
  case fcons =>
    intro f fs v vs hf0 _ _ h1 h2
    refine ⟨fun hno => ((h1.and (h2.1 (fun g hg => hno g (by simp [hg])))).succ
      (fun n hn => by simp [toPrimList, fromArr, hf0, hn.1, hn.2])), ?_⟩
    intro hd kvs hent
    unfold EntriesOK at hent
    have h3 := h2.2 (fun g hg => hd g (by simp [hg])) kvs hent.2
    by_cases hs : skip f v = true
    · have hv : v = .none ∧ f.optional = true := by
        unfold skip at hs; split at hs <;> simp_all
      have hl : lookupItemKey (keyItem f.key) kvs = Option.none := by rw [hent.1, hs]; simp
      have hdf : dfltVal f = some .none := hd f (by simp) hv.2
      exact h3.succ (fun n hn => by simp [fromMap, hl, hdf, hn, hv.1])
    · have hl : lookupItemKey (keyItem f.key) kvs = some (toPrim S v) := by rw [hent.1]; simp [hs]
      exact (h1.and h3).succ (fun n hn => by simp [fromMap, hl, hf0, hn.1, hn.2])
  case fskip =>
    intro f fs vs ho _ h2
    refine ⟨fun hno => ?_, ?_⟩
    · have := hno f (by simp); rw [ho] at this; exact absurd this (by decide)
    intro hd kvs hent
    unfold EntriesOK at hent
    have h3 := h2.2 (fun g hg => hd g (by simp [hg])) kvs hent.2
    have hs : skip f .none = true := by simp [skip, ho]
    have hl : lookupItemKey (keyItem f.key) kvs = Option.none := by rw [hent.1, hs]; simp
    have hdf : dfltVal f = some .none := hd f (by simp) ho
    exact h3.succ (fun n hn => by simp [fromMap, hl, hdf, hn])
  case fhook =>
    intro f fs i vs hh _ h2
    refine ⟨fun hno => ((h2.1 (fun g hg => hno g (by simp [hg]))).succ
      (fun n hn => by simp [toPrimList, toPrim, fromArr, hh, hn])), ?_⟩
    intro hd kvs hent
    unfold EntriesOK at hent
    have h3 := h2.2 (fun g hg => hd g (by simp [hg])) kvs hent.2
    have hs : skip f (.opaque i) = false := by cases ho : f.optional <;> simp [skip, ho]
    have hl : lookupItemKey (keyItem f.key) kvs = some i := by rw [hent.1]; simp [hs, toPrim]
    exact h3.succ (fun n hn => by simp [fromMap, hl, hh, hn])

end Pyc.Codec

namespace Pyc.Codec
open Pyc Pyc.Cbor Pyc.Schema

variable {S : List ClassDef}

/-! ## decidable versions of the side conditions -/

def genericB (cd : ClassDef) : Bool :=
  !cd.overrides.contains "from_primitive" && !cd.overrides.contains "__post_init__"

theorem genericB_sound (cd : ClassDef) (h : genericB cd = true) : Generic cd := by
  unfold genericB at h; unfold Generic
  simp only [Bool.and_eq_true, Bool.not_eq_true'] at h
  exact h

def keyOkB : Key → Bool
  | .int k => decide (0 ≤ k) && decide (k < 2^64)
  | _ => false

theorem keyOkB_sound (k : Key) (h : keyOkB k = true) : KeyOk k := by
  cases k with
  | int k =>
    simp only [keyOkB, Bool.and_eq_true, decide_eq_true_eq] at h
    refine ⟨k.toNat, ?_, by omega⟩
    congr 1; omega
  | pos => simp [keyOkB] at h
  | str s => simp [keyOkB] at h

def dfltNoneB (f : FieldDef) : Bool :=
  match f.dflt with
  | .noDefault => f.optional
  | .none => true
  | _ => false

theorem dfltNoneB_sound (f : FieldDef) (h : dfltNoneB f = true) : dfltVal f = some .none := by
  unfold dfltNoneB at h; unfold dfltVal
  split at h <;> simp_all

def keysNodupB : List Key → Bool
  | [] => true
  | k :: ks => !ks.contains k && keysNodupB ks

theorem keysNodupB_sound (ks : List Key) (h : keysNodupB ks = true) : ks.Nodup := by
  induction ks with
  | nil => simp
  | cons k ks ih =>
    simp only [keysNodupB, Bool.and_eq_true, Bool.not_eq_true'] at h
    rw [List.nodup_cons]
    refine ⟨?_, ih h.2⟩
    intro hm
    have := List.contains_iff_mem.2 hm
    rw [h.1] at this; exact absurd this (by decide)

def shapeOK (cd : ClassDef) : Bool :=
  match cd.kind with
  | .array => cd.fields.all (fun f => f.init && !f.optional)
  | .coded k => decide (k < 2^64) && (wireFields cd).all (fun f => !f.optional)
  | .map => cd.fields.all (fun f => f.init && keyOkB f.key && (!f.optional || dfltNoneB f)) &&
      keysNodupB (cd.fields.map (·.key))
  | _ => false

theorem shapeOK_sound (cd : ClassDef) (h : shapeOK cd = true) : ShapeOK cd := by
  unfold shapeOK at h; unfold ShapeOK
  cases hk : cd.kind with
  | array =>
    rw [hk] at h; simp only at h ⊢
    rw [List.all_eq_true] at h
    intro f hf
    have := h f hf
    simp only [Bool.and_eq_true, Bool.not_eq_true'] at this
    exact ⟨this.1, this.2⟩
  | coded k =>
    rw [hk] at h; simp only at h ⊢
    simp only [Bool.and_eq_true, decide_eq_true_eq, List.all_eq_true, Bool.not_eq_true'] at h
    exact ⟨h.1, fun f hf => h.2 f hf⟩
  | map =>
    rw [hk] at h; simp only at h ⊢
    simp only [Bool.and_eq_true, List.all_eq_true, Bool.not_eq_true', Bool.or_eq_true] at h
    refine ⟨?_, keysNodupB_sound _ h.2⟩
    intro f hf
    have := h.1 f hf
    refine ⟨this.1.1, keyOkB_sound _ this.1.2, ?_⟩
    intro ho
    rcases this.2 with h1 | h1
    · rw [ho] at h1; exact absurd h1 (by decide)
    · exact dfltNoneB_sound f h1
  | dict a b => rw [hk] at h; simp at h
  | oset => rw [hk] at h; simp at h
  | cbytes a b => rw [hk] at h; simp at h
  | «enum» a => rw [hk] at h; simp at h
  | custom => rw [hk] at h; simp at h

/-- the classes of a table that the generic theorem covers as objects -/
def coreClass (cd : ClassDef) : Bool := genericB cd && shapeOK cd

/-! ## discharging the union side condition for unions of coded classes -/

/-- a coded class rejects, with `DeserializeException`, every array that starts with a different code -/
theorem coded_rejects (n : String) (cd : ClassDef) (k k' : Nat) (xs : List Item) (fuel : Nat)
    (hl : lookup S n = some cd) (hg : Generic cd) (hk : cd.kind = .coded k) (hk1 : k < 2^64) (hk2 : k' < 2^64)
    (hne : k' ≠ k) : fromPrim S (fuel+1) (.cls n) (.array (.uint k' :: xs)) = .deser := by
  have he : encode (.uint k') ≠ encode (.uint k) := fun h => hne (encode_uint_inj k' k hk2 hk1 h)
  simp [fromPrim, hl, hg.mem.1, hg.mem.2, hk, he]

/-- … and `None` -/
theorem coded_rejects_none (n : String) (cd : ClassDef) (k : Nat) (fuel : Nat)
    (hl : lookup S n = some cd) (hg : Generic cd) (hk : cd.kind = .coded k) :
    fromPrim S (fuel+1) (.cls n) (.simple 22) = .deser := by
  simp [fromPrim, hl, hg.mem.1, hg.mem.2, hk]

/-- the image of an object of a coded class starts with its code -/
theorem toPrim_coded (n : String) (cd : ClassDef) (k : Nat) (fs : List Val)
    (hl : lookup S n = some cd) (hk : cd.kind = .coded k) :
    toPrim S (.obj n fs) = .array (.uint k :: arrFields S (wireFields cd) fs) := by
  simp [toPrim, hl, hk]

/-- alternatives of a union: generic coded classes of the table, with these codes -/
def CodedAlts (S : List ClassDef) : List Ty → List Nat → Prop
  | [], [] => True
  | .cls n :: ts, k :: ks => (∃ cd, lookup S n = some cd ∧ Generic cd ∧ cd.kind = .coded k ∧ k < 2^64) ∧ CodedAlts S ts ks
  | _, _ => False

/-- **unions of coded classes with pairwise distinct codes satisfy the union side condition**: whichever
alternative produced the value, every earlier alternative rejects its image with `DeserializeException` -/
theorem unionOK_coded (ts : List Ty) (ks : List Nat) (hc : CodedAlts S ts ks) (hd : ks.Nodup)
    (pre : List Ty) (t : Ty) (post : List Ty) (he : ts = pre ++ t :: post) (v : Val) (hv : HasType S t v) :
    ∀ t' ∈ pre, Ev (fun fuel => fromPrim S fuel t' (toPrim S v) = .deser) := by
  subst he
  induction pre generalizing ks with
  | nil => intro t' h; simp at h
  | cons a as ih =>
    intro t' ht'
    cases ks with
    | nil => cases a <;> simp [CodedAlts] at hc
    | cons k ks' =>
      cases a with
      | cls n =>
        simp only [List.cons_append, CodedAlts] at hc
        obtain ⟨⟨cd, hl, hg, hk, hk1⟩, hrest⟩ := hc
        rw [List.nodup_cons] at hd
        simp only [List.mem_cons] at ht'
        rcases ht' with rfl | ht'
        · -- the head alternative `cls n` (code k) on the image of `t` (a later alternative, code ≠ k)
          -- find the code of t among ks'
          have key : ∀ (as' : List Ty) (ks'' : List Nat), CodedAlts S (as' ++ t :: post) ks'' →
              ∃ n' cd' k', t = .cls n' ∧ lookup S n' = some cd' ∧ Generic cd' ∧ cd'.kind = .coded k' ∧ k' < 2^64 ∧ k' ∈ ks'' := by
            intro as'
            induction as' with
            | nil =>
              intro ks'' h
              cases ks'' with
              | nil => cases t <;> simp [CodedAlts] at h
              | cons k2 ks2 =>
                cases t with
                | cls n' =>
                  simp only [List.nil_append, CodedAlts] at h
                  obtain ⟨⟨cd', hl', hg', hk', hk1'⟩, _⟩ := h
                  exact ⟨n', cd', k2, rfl, hl', hg', hk', hk1', by simp⟩
                | _ => simp [CodedAlts] at h
            | cons b bs ihb =>
              intro ks'' h
              cases ks'' with
              | nil => cases b <;> simp [CodedAlts] at h
              | cons k2 ks2 =>
                cases b with
                | cls nb =>
                  simp only [List.cons_append, CodedAlts] at h
                  obtain ⟨n', cd', k', e1, e2, e3, e4, e5, e6⟩ := ihb ks2 h.2
                  exact ⟨n', cd', k', e1, e2, e3, e4, e5, by simp [e6]⟩
                | _ => simp [CodedAlts] at h
          obtain ⟨n', cd', k', rfl, hl', hgt, hk', hk1', hmem⟩ := key as ks' hrest
          have hne : k' ≠ k := fun h => hd.1 (h ▸ hmem)
          -- v is an object of class n'
          cases hv with
          | obj hl2 hg2 hs2 hf2 =>
            rw [hl'] at hl2
            cases hl2
            refine Ev.pos (fun fuel => ?_)
            rw [toPrim_coded n' cd' k' _ hl' hk']
            exact coded_rejects n cd k k' _ fuel hl hg hk hk1 hk1' hne
          | cb hl2 _ hk2 _ _ =>
            rw [hl'] at hl2; cases hl2
            rw [hk'] at hk2; cases hk2
          | «enum» hl2 _ hk2 _ _ =>
            rw [hl'] at hl2; cases hl2
            rw [hk'] at hk2; cases hk2
          | custom hl2 hc2 =>
            rw [hl'] at hl2; cases hl2
            rcases hc2 hgt with h | h <;> (rw [hk'] at h; cases h)
        · exact ih ks' hd.2 hrest t' ht'
      | _ => simp [CodedAlts] at hc

end Pyc.Codec
