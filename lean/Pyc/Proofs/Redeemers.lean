import Pyc.Model.Redeemers
import Pyc.Spec.Ranks
import Pyc.Proofs.Canonical
import Pyc.Proofs.Sort

/-! Lemmas for C11 / C12: the hex-string order is the byte order, `sorted(...).index(x)` is the rank of `x`,
bookkeeping of the builder state, language views, the script data hash preimage. -/

set_option linter.unusedSectionVars false
set_option linter.unusedSimpArgs false

namespace Pyc.Rd
open Pyc Pyc.Cbor Pyc.Spec.Ranks

theorem hexDigit_lt : ∀ n m : Fin 16, ((hexDigit n.val).toNat < (hexDigit m.val).toNat) = (n.val < m.val) := by
  decide

theorem hexDigit_lt' (n m : Nat) (hn : n < 16) (hm : m < 16) :
    ((hexDigit n).toNat < (hexDigit m).toNat) ↔ n < m := by
  have := hexDigit_lt ⟨n, hn⟩ ⟨m, hm⟩
  simp only at this
  rw [this]

theorem hex_order_iff_byte_order (a b : Bytes) : strLt (hexChars a) (hexChars b) = bytesLt a b := by
  induction a generalizing b with
  | nil => cases b <;> simp [hexChars, strLt, bytesLt]
  | cons x xs ih =>
    cases b with
    | nil => simp [hexChars, strLt, bytesLt]
    | cons y ys =>
      have hx := x.toNat_lt
      have hy := y.toNat_lt
      have e1 := hexDigit_lt' (x.toNat / 16) (y.toNat / 16) (by omega) (by omega)
      have e2 := hexDigit_lt' (y.toNat / 16) (x.toNat / 16) (by omega) (by omega)
      have e3 := hexDigit_lt' (x.toNat % 16) (y.toNat % 16) (by omega) (by omega)
      have e4 := hexDigit_lt' (y.toNat % 16) (x.toNat % 16) (by omega) (by omega)
      have ih' := ih ys
      simp only [hexChars, List.flatMap_cons, List.cons_append, List.nil_append, strLt, bytesLt] at ih' ⊢
      simp only [UInt8.lt_iff_toNat_lt]
      by_cases h1 : x.toNat / 16 < y.toNat / 16
      · have : x.toNat < y.toNat := by omega
        simp [e1.2 h1, this]
      · by_cases h2 : y.toNat / 16 < x.toNat / 16
        · have : ¬ x.toNat < y.toNat := by omega
          have h' : y.toNat < x.toNat := by omega
          simp [mt e1.1 h1, e2.2 h2, this, h']
        · simp only [mt e1.1 h1, mt e2.1 h2, if_false]
          by_cases h3 : x.toNat % 16 < y.toNat % 16
          · have : x.toNat < y.toNat := by omega
            simp [e3.2 h3, this]
          · by_cases h4 : y.toNat % 16 < x.toNat % 16
            · have : ¬ x.toNat < y.toNat := by omega
              have h' : y.toNat < x.toNat := by omega
              simp [mt e3.1 h3, e4.2 h4, this, h']
            · have h5 : ¬ x.toNat < y.toNat := by omega
              have h6 : ¬ y.toNat < x.toNat := by omega
              simp only [mt e3.1 h3, mt e4.1 h4, if_false, h5, h6]
              exact ih'

/-- a Bool-valued strict total order -/
structure StrictTotal {κ : Type} (lt : κ → κ → Bool) : Prop where
  irrefl : ∀ a, lt a a = false
  trans : ∀ a b c, lt a b = true → lt b c = true → lt a c = true
  tri : ∀ a b, lt a b = false → lt b a = false → a = b

theorem StrictTotal.asymm {κ : Type} {lt : κ → κ → Bool} (h : StrictTotal lt) (a b : κ) (hab : lt a b = true) :
    lt b a = false := by
  cases hb : lt b a with
  | false => rfl
  | true => have := h.trans a b a hab hb; rw [h.irrefl] at this; exact absurd this (by simp)

theorem bytesLt_strictTotal : StrictTotal bytesLt :=
  ⟨bytesLt_irrefl, bytesLt_trans, bytesLt_total⟩

section generic
variable {α κ : Type} [DecidableEq α] (ltK : κ → κ → Bool) (f : α → κ)

/-- `sorted(l, key=f)` -/
def sortBy (l : List α) : List α := isort (fun a b => !ltK (f b) (f a)) l

theorem sortBy_perm (l : List α) : (sortBy ltK f l).Perm l := isort_perm _ _

theorem sortBy_sorted (h : StrictTotal ltK) (l : List α) :
    (sortBy ltK f l).Pairwise (fun a b => ltK (f b) (f a) = false) := by
  have := isort_pairwise (fun (a b : α) => !ltK (f b) (f a))
    (by
      intro a b c h1 h2
      simp only [Bool.not_eq_true'] at h1 h2 ⊢
      -- ¬ b<a, ¬ c<b ⊢ ¬ c<a
      cases hca : ltK (f c) (f a) with
      | false => rfl
      | true =>
        exfalso
        cases hbc : ltK (f b) (f c) with
        | true => have := h.trans _ _ _ hbc hca; simp [this] at h1
        | false =>
          have e := h.tri _ _ hbc h2
          rw [e] at h1; simp [hca] at h1)
    (by
      intro a b
      cases hab : ltK (f b) (f a) with
      | false => simp
      | true => simp [h.asymm _ _ hab]) l
  simpa [sortBy] using this

/-- with pairwise distinct keys the sorted list is strictly increasing -/
theorem sortBy_strict (h : StrictTotal ltK) (l : List α) (hn : (l.map f).Nodup) :
    (sortBy ltK f l).Pairwise (fun a b => ltK (f a) (f b) = true) := by
  have hs := sortBy_sorted ltK f h l
  have hp := (sortBy_perm ltK f l).map f
  have hn' : ((sortBy ltK f l).map f).Nodup := hp.symm.nodup hn
  have hd : (sortBy ltK f l).Pairwise (fun a b => f a ≠ f b) := by
    simpa [List.Nodup, List.pairwise_map] using hn'
  refine (hs.and hd).imp ?_
  intro a b ⟨h1, h2⟩
  cases hab : ltK (f a) (f b) with
  | true => rfl
  | false => exact absurd (h.tri _ _ hab h1) h2

/-- position in a strictly increasing list = number of strictly smaller elements -/
theorem indexOf_strict (h : StrictTotal ltK) (s : List α) (hs : s.Pairwise (fun a b => ltK (f a) (f b) = true))
    (x : α) (hx : x ∈ s) : indexOf? x s = some (rank (fun a b => ltK (f a) (f b)) x s) := by
  induction s with
  | nil => simp at hx
  | cons y ys ih =>
    rw [List.pairwise_cons] at hs
    by_cases hy : y = x
    · subst hy
      have : ys.filter (fun z => ltK (f z) (f y)) = [] := by
        rw [List.filter_eq_nil_iff]
        intro z hz
        have := h.asymm _ _ (hs.1 z hz)
        simp [this]
      simp [indexOf?, rank, List.filter_cons, h.irrefl, this]
    · have hx' : x ∈ ys := by
        rcases List.mem_cons.1 hx with e | e
        · exact absurd e.symm hy
        · exact e
      have hlt := hs.1 x hx'
      simp only [indexOf?, hy, if_false, ih hs.2 hx', rank, List.filter_cons, hlt, if_true, List.length_cons,
        Option.map_some]

theorem rank_perm {β : Type} (lt : β → β → Bool) (x : β) (l₁ l₂ : List β) (hp : l₁.Perm l₂) :
    rank lt x l₁ = rank lt x l₂ := by
  unfold rank; exact (hp.filter _).length_eq

/-- **the index `sorted(l, key=f).index(x)` is the rank of `x`** -/
theorem sortBy_index (h : StrictTotal ltK) (l : List α) (hn : (l.map f).Nodup) (x : α) (hx : x ∈ l) :
    indexOf? x (sortBy ltK f l) = some (rank (fun a b => ltK (f a) (f b)) x l) := by
  rw [indexOf_strict ltK f h _ (sortBy_strict ltK f h l hn) x ((sortBy_perm ltK f l).symm.subset hx)]
  rw [rank_perm _ _ _ _ (sortBy_perm ltK f l)]

end generic

/-! ## inputs -/

def TxIn.toPair (a : TxIn) : Bytes × Nat := (a.txid, a.ix)

theorem hexChars_inj (a b : Bytes) (h : hexChars a = hexChars b) : a = b := by
  have irr : ∀ l : List Char, strLt l l = false := by
    intro l; induction l with
    | nil => rfl
    | cons c cs ih => simp [strLt, ih]
  apply bytesLt_total
  · rw [← hex_order_iff_byte_order, h, irr]
  · rw [← hex_order_iff_byte_order, h, irr]

/-- the builder's sort key order on inputs is the ledger's order of `TxIn` -/
theorem keyLt_eq_ledger (a b : TxIn) : keyLt a b = inLt a.toPair b.toPair := by
  unfold keyLt inLt TxIn.toPair
  by_cases h : hexChars a.txid = hexChars b.txid
  · have e := hexChars_inj _ _ h
    simp [h, e, bytesLt_irrefl]
  · have ne : a.txid ≠ b.txid := fun e => h (by rw [e])
    simp [h, ne, hex_order_iff_byte_order]

theorem inLt_strictTotal : StrictTotal inLt := by
  refine ⟨?_, ?_, ?_⟩
  · intro a; simp [inLt, bytesLt_irrefl]
  · intro a b c h1 h2
    simp only [inLt, Bool.or_eq_true, Bool.and_eq_true, beq_iff_eq, decide_eq_true_eq] at h1 h2 ⊢
    rcases h1 with h1 | ⟨e1, h1⟩
    · rcases h2 with h2 | ⟨e2, _⟩
      · exact Or.inl (bytesLt_trans _ _ _ h1 h2)
      · rw [← e2]; exact Or.inl h1
    · rcases h2 with h2 | ⟨e2, h2⟩
      · rw [e1]; exact Or.inl h2
      · exact Or.inr ⟨e1.trans e2, by omega⟩
  · intro a b h1 h2
    simp only [inLt, Bool.or_eq_false_iff, Bool.and_eq_false_iff, beq_eq_false_iff_ne, decide_eq_false_iff_not] at h1 h2
    have e : a.1 = b.1 := bytesLt_total _ _ h1.1 h2.1
    have h1' := h1.2; have h2' := h2.2
    simp only [e, ne_eq, not_true_eq_false, false_or] at h1' h2'
    obtain ⟨a1, a2⟩ := a; obtain ⟨b1, b2⟩ := b
    simp only at e h1' h2'
    subst e
    have : a2 = b2 := by omega
    rw [this]

theorem keyLt_strictTotal : StrictTotal keyLt := by
  have h := inLt_strictTotal
  refine ⟨?_, ?_, ?_⟩
  · intro a; rw [keyLt_eq_ledger]; exact h.irrefl _
  · intro a b c; rw [keyLt_eq_ledger, keyLt_eq_ledger, keyLt_eq_ledger]; exact h.trans _ _ _
  · intro a b; rw [keyLt_eq_ledger, keyLt_eq_ledger]
    intro h1 h2
    have := h.tri _ _ h1 h2
    obtain ⟨a1, a2⟩ := a; obtain ⟨b1, b2⟩ := b
    simp only [TxIn.toPair, Prod.mk.injEq] at this
    rw [this.1, this.2]

theorem sortInputs_eq (l : List TxIn) : sortInputs l = sortBy keyLt id l := rfl

theorem lastIndexFrom_nodup (u : TxIn) (l : List TxIn) (hn : l.Nodup) (i : Nat) (acc : Option Nat) :
    lastIndexFrom u l i acc = match indexOf? u l with
      | some k => some (i + k)
      | none => acc := by
  induction l generalizing i acc with
  | nil => simp [lastIndexFrom, indexOf?]
  | cons y ys ih =>
    rw [List.nodup_cons] at hn
    simp only [lastIndexFrom, indexOf?]
    rw [ih hn.2]
    by_cases hy : y = u
    · subst hy
      have : indexOf? y ys = none := by
        clear ih
        induction ys with
        | nil => rfl
        | cons z zs ih2 =>
          simp only [List.mem_cons, not_or] at hn
          have hz : z ≠ y := fun e => hn.1.1 e.symm
          rw [List.nodup_cons] at hn
          simp [indexOf?, hz, ih2 ⟨hn.1.2, hn.2.2⟩]
      simp [this]
    · simp only [hy, if_false]
      cases indexOf? u ys with
      | none => simp
      | some k => simp; omega

theorem rank_map {β γ : Type} (g : β → γ) (lt : γ → γ → Bool) (x : β) (l : List β) :
    rank (fun a b => lt (g a) (g b)) x l = rank lt (g x) (l.map g) := by
  unfold rank
  rw [List.filter_map, List.length_map]
  rfl

/-- position assigned to the spending redeemer of `u` after the sort = rank of `u` in the ledger's input order -/
theorem spendIndex_sorted (l : List TxIn) (hn : l.Nodup) (u : TxIn) (hu : u ∈ l) :
    spendIndex u (sortInputs l) = some (rank inLt u.toPair (l.map TxIn.toPair)) := by
  unfold spendIndex
  have hp : (sortInputs l).Perm l := isort_perm _ _
  rw [lastIndexFrom_nodup u _ (hp.symm.nodup hn), sortInputs_eq,
    sortBy_index keyLt id keyLt_strictTotal l (by simpa using hn) u hu]
  simp only [Nat.zero_add, id]
  rw [← rank_map TxIn.toPair inLt u l]
  congr 2
  funext a b
  exact keyLt_eq_ledger a b

/-! ## policies and reward accounts -/

theorem bytesLt_append_left (p a b : Bytes) : bytesLt (p ++ a) (p ++ b) = bytesLt a b := by
  induction p with
  | nil => rfl
  | cons x xs ih => simp [bytesLt, u8_lt_irrefl, ih]

theorem policyKey_eq (h : Bytes) : policyKey h = head 2 h.length ++ h := by
  simp [policyKey, encode]

/-- hashes of one length have CBOR encodings with the same head: the order of the encodings is the byte order -/
theorem policyKey_order (a b : Bytes) (hl : a.length = b.length) :
    bytesLt (policyKey a) (policyKey b) = bytesLt a b := by
  rw [policyKey_eq, policyKey_eq, hl, bytesLt_append_left]

theorem policyKey_inj_len (a b : Bytes) (hl : a.length = b.length) (h : policyKey a = policyKey b) : a = b := by
  rw [policyKey_eq, policyKey_eq, hl] at h
  exact List.append_cancel_left h

theorem sortPolicies_eq (ks : List Bytes) : sortPolicies ks = sortBy bytesLt policyKey ks := rfl
theorem sortAccounts_eq (ks : List Bytes) : sortAccounts ks = sortBy bytesLt id ks := rfl

theorem rank_congr {β : Type} (lt lt' : β → β → Bool) (x : β) (l : List β) (h : ∀ y ∈ l, lt y x = lt' y x) :
    rank lt x l = rank lt' x l := by
  unfold rank
  congr 1
  apply List.filter_congr
  intro y hy; exact h y hy

theorem nodup_map_of_inj_on {β γ : Type} (g : β → γ) (l : List β) (hn : l.Nodup)
    (hi : ∀ a ∈ l, ∀ b ∈ l, g a = g b → a = b) : (l.map g).Nodup := by
  induction l with
  | nil => simp
  | cons x xs ih =>
    rw [List.nodup_cons] at hn
    rw [List.map_cons, List.nodup_cons]
    refine ⟨?_, ih hn.2 (fun a ha b hb => hi a (List.mem_cons_of_mem _ ha) b (List.mem_cons_of_mem _ hb))⟩
    intro hm
    obtain ⟨y, hy, e⟩ := List.mem_map.1 hm
    have := hi y (List.mem_cons_of_mem _ hy) x (by simp) e
    subst this
    exact hn.1 hy

/-- `sorted(mint.keys(), key=to_cbor).index(h)` = rank of `h` among the policies in the ledger's (bytewise) order -/
theorem mintIndex_rank (n : Nat) (ks : List Bytes) (hn : ks.Nodup) (hl : ∀ k ∈ ks, k.length = n)
    (h : Bytes) (hh : h ∈ ks) : mintIndex ks h = some (rank policyLt h ks) := by
  unfold mintIndex
  have hn' : (ks.map policyKey).Nodup := by
    apply nodup_map_of_inj_on _ _ hn
    intro a ha b hb e
    exact policyKey_inj_len a b ((hl a ha).trans (hl b hb).symm) e
  rw [sortPolicies_eq, sortBy_index bytesLt policyKey bytesLt_strictTotal ks hn' h hh]
  congr 1
  apply rank_congr
  intro y hy
  exact policyKey_order y h ((hl y hy).trans (hl h hh).symm)

/-- `sorted(withdrawals.keys()).index(acct)` = rank of the account among all withdrawal keys, bytewise -/
theorem rewardIndex_rank (net : Nat) (ks : List Bytes) (hn : ks.Nodup) (h : Bytes)
    (hh : rewardAccount net h ∈ ks) :
    rewardIndex net ks h = some (rank accountLt (rewardAccount net h) ks) := by
  unfold rewardIndex
  rw [sortAccounts_eq, sortBy_index bytesLt id bytesLt_strictTotal ks (by simpa using hn) _ hh]
  rfl

/-! ## `_set_redeemer_index` on the state -/

theorem setIdx_mem (f : Script → Option Nat) (m m' : List (Script × Option Rdm)) (h : setIdx f m = some m')
    (s : Script) (rb : Rdm) (hm : (s, some rb) ∈ m') :
    f s = some rb.index ∧ ∃ ra, (s, some ra) ∈ m ∧ rb = { ra with index := rb.index } := by
  induction m generalizing m' with
  | nil => simp [setIdx] at h; subst h; simp at hm
  | cons p r ih =>
    obtain ⟨s0, o⟩ := p
    cases o with
    | none =>
      simp only [setIdx, Option.map_eq_some_iff] at h
      obtain ⟨r', hr, rfl⟩ := h
      rcases List.mem_cons.1 hm with e | e
      · simp at e
      · obtain ⟨h1, ra, h2, h3⟩ := ih r' hr e
        exact ⟨h1, ra, List.mem_cons_of_mem _ h2, h3⟩
    | some rd =>
      simp only [setIdx] at h
      split at h
      · rename_i i r' hi hr
        simp only [Option.some.injEq] at h; subst h
        rcases List.mem_cons.1 hm with e | e
        · simp only [Prod.mk.injEq, Option.some.injEq] at e
          obtain ⟨rfl, rfl⟩ := e
          exact ⟨hi, rd, by simp, rfl⟩
        · obtain ⟨h1, ra, h2, h3⟩ := ih r' hr e
          exact ⟨h1, ra, List.mem_cons_of_mem _ h2, h3⟩
      · simp at h

/-- every redeemer that was attached is still there afterwards (nothing is dropped) -/
theorem setIdx_mem' (f : Script → Option Nat) (m m' : List (Script × Option Rdm)) (h : setIdx f m = some m')
    (s : Script) (ra : Rdm) (hm : (s, some ra) ∈ m) :
    ∃ i, f s = some i ∧ (s, some { ra with index := i }) ∈ m' := by
  induction m generalizing m' with
  | nil => simp at hm
  | cons p r ih =>
    obtain ⟨s0, o⟩ := p
    cases o with
    | none =>
      simp only [setIdx, Option.map_eq_some_iff] at h
      obtain ⟨r', hr, rfl⟩ := h
      rcases List.mem_cons.1 hm with e | e
      · simp at e
      · obtain ⟨i, h1, h2⟩ := ih r' hr e
        exact ⟨i, h1, List.mem_cons_of_mem _ h2⟩
    | some rd =>
      simp only [setIdx] at h
      split at h
      · rename_i i r' hi hr
        simp only [Option.some.injEq] at h; subst h
        rcases List.mem_cons.1 hm with e | e
        · simp only [Prod.mk.injEq, Option.some.injEq] at e
          obtain ⟨rfl, rfl⟩ := e
          exact ⟨i, hi, by simp⟩
        · obtain ⟨j, h1, h2⟩ := ih r' hr e
          exact ⟨j, h1, List.mem_cons_of_mem _ h2⟩
      · simp at h

theorem setSpend_mem (inputs : List TxIn) (m : List (TxIn × Rdm)) (u : TxIn) (r : Rdm)
    (h : (u, r) ∈ setSpend inputs m) :
    ∃ r0, (u, r0) ∈ m ∧ match spendIndex u inputs with
      | some i => r = { r0 with index := i }
      | none => r = r0 := by
  simp only [setSpend, List.mem_map] at h
  obtain ⟨⟨u0, r0⟩, hm, he⟩ := h
  simp only at he
  cases hs : spendIndex u0 inputs with
  | none => simp only [hs, Prod.mk.injEq] at he; obtain ⟨rfl, rfl⟩ := he; exact ⟨r0, hm, by simp [hs]⟩
  | some i => simp only [hs, Prod.mk.injEq] at he; obtain ⟨rfl, rfl⟩ := he; exact ⟨r0, hm, by simp [hs]⟩

/-! ## scripts and the witness set -/

theorem mem_dict_set {ν : Type} (m : List (Bytes × ν)) (k : Bytes) (v : ν) (p : Bytes × ν)
    (h : p ∈ Dict.set m k v) : p ∈ m ∨ p = (k, v) := by
  induction m with
  | nil => simp [Dict.set] at h; exact Or.inr h
  | cons q r ih =>
    obtain ⟨k', v'⟩ := q
    simp only [Dict.set] at h
    split at h
    · rename_i e
      rcases List.mem_cons.1 h with e' | e'
      · subst e; exact Or.inr e'
      · exact Or.inl (List.mem_cons_of_mem _ e')
    · rcases List.mem_cons.1 h with e' | e'
      · exact Or.inl (by rw [e']; simp)
      · rcases ih e' with h1 | h1
        · exact Or.inl (List.mem_cons_of_mem _ h1)
        · exact Or.inr h1

theorem foldl_set_inv {ν : Type} (P : Bytes × ν → Prop) (ps acc : List (Bytes × ν)) (ha : ∀ p ∈ acc, P p)
    (hp : ∀ p ∈ ps, P p) : ∀ p ∈ ps.foldl (fun acc p => Dict.set acc p.1 p.2) acc, P p := by
  induction ps generalizing acc with
  | nil => simpa using ha
  | cons q r ih =>
    simp only [List.foldl_cons]
    apply ih
    · intro p hp'
      rcases mem_dict_set _ _ _ _ hp' with h | h
      · exact ha p h
      · rw [h]; exact hp q (by simp)
    · intro p hp'; exact hp p (List.mem_cons_of_mem _ hp')

/-- every entry of `all_scripts` sits under its own hash -/
theorem allScripts_key (st : St) : ∀ p ∈ allScripts st, p.1 = p.2.hash := by
  unfold allScripts Dict.ofPairs
  apply foldl_set_inv (fun (p : Bytes × Script) => p.1 = p.2.hash)
  · simp
  · intro p hp
    simp only [List.mem_map] at hp
    obtain ⟨s, _, rfl⟩ := hp
    rfl

theorem allScripts_wf (st : St) : Dict.WF (allScripts st) := Dict.wf_ofPairs _

/-- splitting a list of scripts by language loses and duplicates nothing -/
theorem partition_count (ss : List Script) (h : Bytes) :
    ((ss.filter (fun s => s.kind = .native) ++ ss.filter (fun s => s.kind = .v1 || s.kind = .raw)
      ++ ss.filter (fun s => s.kind = .v2) ++ ss.filter (fun s => s.kind = .v3)).map (·.hash)).count h
    = (ss.map (·.hash)).count h := by
  induction ss with
  | nil => simp
  | cons x xs ih =>
    simp only [List.map_append, List.count_append, List.map_cons, List.count_cons] at ih ⊢
    cases hk : x.kind <;>
      simp [List.filter_cons, hk, List.count_cons] <;> omega

theorem has_filter_iff {ν : Type} (m : List (Bytes × ν)) (f : Bytes × ν → Bool) (k : Bytes) :
    k ∈ (m.filter f).map (·.1) ↔ ∃ p ∈ m, p.1 = k ∧ f p = true := by
  simp only [List.mem_map, List.mem_filter]
  constructor
  · rintro ⟨p, ⟨h1, h2⟩, h3⟩; exact ⟨p, h1, h3, h2⟩
  · rintro ⟨p, h1, h3, h2⟩; exact ⟨p, ⟨h1, h2⟩, h3⟩

/-- hashes of the scripts carried by the (final) inputs, as `build_witness_set(True)` collects them -/
def carriedHashes (st : St) (removeDup : Bool) (carried : TxIn → Option Script) : List Bytes :=
  if removeDup then st.inputs.filterMap (fun i => (carried i).map (·.hash)) else []

/-- **exactly once**: a hash of `all_scripts` occurs in the witness set (over its four language lists together)
once if it is supplied neither by a reference script nor (with `remove_dup_script`) by a spent input, and not at all
otherwise -/
theorem witness_count (st : St) (useMap removeDup : Bool) (carried : TxIn → Option Script) (h : Bytes)
    (hh : Dict.has (allScripts st) h = true) :
    (buildWitnessSet st useMap removeDup carried).hashes.count h =
      if (st.refScripts.any fun s => s.hash == h) || (carriedHashes st removeDup carried).contains h then 0 else 1 := by
  unfold Witness.hashes buildWitnessSet carriedHashes
  simp only
  rw [partition_count]
  generalize (if removeDup then st.inputs.filterMap (fun i => (carried i).map (·.hash)) else []) = inputScripts
  -- the hashes of the selected scripts are their dict keys
  have hk := allScripts_key st
  have hw := allScripts_wf st
  have hmap : (((scripts st).filter fun p => !inputScripts.contains p.1).map (·.2)).map (·.hash)
      = (((allScripts st).filter fun p => !(st.refScripts.any fun s => s.hash == p.1)).filter
          fun p => !inputScripts.contains p.1).map (·.1) := by
    unfold scripts
    rw [List.map_map]
    apply List.map_congr_left
    intro p hp
    have : p ∈ allScripts st := (List.mem_filter.1 (List.mem_filter.1 hp).1).1
    simp [hk p this]
  rw [hmap]
  have hnd : ((((allScripts st).filter fun p => !(st.refScripts.any fun s => s.hash == p.1)).filter
          fun p => !inputScripts.contains p.1).map (·.1)).Nodup := by
    have : ((((allScripts st).filter fun p => !(st.refScripts.any fun s => s.hash == p.1)).filter
          fun p => !inputScripts.contains p.1).map (·.1)).Sublist ((allScripts st).map (·.1)) :=
      ((List.filter_sublist).trans List.filter_sublist).map _
    exact List.Nodup.sublist this hw
  rw [hnd.count]
  have hmem : h ∈ (allScripts st).map (·.1) := (Dict.has_iff_mem _ _).1 hh
  obtain ⟨p, hp, hp1⟩ := List.mem_map.1 hmem
  by_cases hc : ((st.refScripts.any fun s => s.hash == h) || inputScripts.contains h) = true
  · rw [if_pos hc, if_neg]
    intro hm
    simp only [List.mem_map, List.mem_filter] at hm
    obtain ⟨q, ⟨⟨_, h1⟩, h2⟩, h3⟩ := hm
    rw [h3] at h1 h2
    rw [Bool.or_eq_true] at hc
    rcases hc with hc | hc
    · rw [hc] at h1; simp at h1
    · rw [hc] at h2; simp at h2
  · rw [if_neg hc, if_pos]
    simp only [Bool.or_eq_true, not_or, Bool.not_eq_true] at hc
    simp only [List.mem_map, List.mem_filter]
    refine ⟨p, ⟨⟨hp, ?_⟩, ?_⟩, hp1⟩
    · rw [hp1, hc.1]; rfl
    · rw [hp1, hc.2]; rfl

/-! ## uniqueness of the sorted arrangement -/

section isort
variable {β : Type} (le : β → β → Bool)

/-- the sorted arrangement of a collection is unique when `le` is antisymmetric on its members -/
theorem isort_eq_of_sorted_perm (tot : ∀ a b, (le a b || le b a) = true)
    (tr : ∀ a b c, le a b = true → le b c = true → le a c = true) (l s : List β)
    (anti : ∀ a ∈ l, ∀ b ∈ l, le a b = true → le b a = true → a = b)
    (hs : s.Pairwise (fun a b => le a b = true)) (hp : s.Perm l) : isort le l = s := by
  apply List.Perm.eq_of_pairwise (le := fun a b => le a b = true) _
    (isort_pairwise le (fun a b c h1 h2 => tr a b c h1 h2) (fun a b => tot a b) l) hs
    ((isort_perm le l).trans hp.symm)
  intro a b ha hb h1 h2
  exact anti a ((isort_perm le l).subset ha) b (hp.subset hb) h1 h2

end isort

theorem eq_of_fst_eq_of_nodup {κ ν : Type} (m : List (κ × ν)) (hn : (m.map (·.1)).Nodup) (a b : κ × ν) (ha : a ∈ m)
    (hb : b ∈ m) (e : a.1 = b.1) : a = b := by
  induction m with
  | nil => simp at ha
  | cons x xs ih =>
    rw [List.map_cons, List.nodup_cons] at hn
    rcases List.mem_cons.1 ha with ea | ea <;> rcases List.mem_cons.1 hb with eb | eb
    · rw [ea, eb]
    · exfalso; apply hn.1; rw [← ea, e]; exact List.mem_map.2 ⟨b, eb, rfl⟩
    · exfalso; apply hn.1; rw [← eb, ← e]; exact List.mem_map.2 ⟨a, ea, rfl⟩
    · exact ih hn.2 ea eb

/-! ## language views -/

theorem nameLe_total (a b : Bytes × Int) : (nameLe a b || nameLe b a) = true := by
  unfold nameLe
  cases h : bytesLt b.1 a.1 with
  | false => simp
  | true => simp [bytesLt_asymm _ _ h]

theorem nameLe_trans (a b c : Bytes × Int) (h1 : nameLe a b = true) (h2 : nameLe b c = true) : nameLe a c = true := by
  unfold nameLe at *
  simp only [Bool.not_eq_true'] at *
  cases hca : bytesLt c.1 a.1 with
  | false => rfl
  | true =>
    exfalso
    cases hbc : bytesLt b.1 c.1 with
    | true => have := bytesLt_trans _ _ _ hbc hca; simp [this] at h1
    | false => have e := bytesLt_total _ _ hbc h2; rw [e] at h1; simp [hca] at h1

/-- for a dict (distinct names) the model's `sorted(cost_model.keys())` is the specification's ascending name order -/
theorem sortNames_eq_isort (cm : CostModel) (hn : (cm.map (·.1)).Nodup) : sortNames cm = isort nameLe cm := by
  symm
  apply isort_eq_of_sorted_perm nameLe nameLe_total nameLe_trans
  · intro a ha b hb h1 h2
    apply eq_of_fst_eq_of_nodup cm hn a b ha hb
    unfold nameLe at h1 h2
    simp only [Bool.not_eq_true'] at h1 h2
    exact bytesLt_total _ _ h2 h1
  · have := isort_pairwise (fun (a b : Bytes × Int) => !bytesLt b.1 a.1)
      (fun a b c h1 h2 => nameLe_trans a b c h1 h2) (fun a b => nameLe_total a b) cm
    simpa [sortNames, nameLe] using this
  · exact isort_perm _ _

theorem viewEntry_v1 (cm : CostModel) (hn : (cm.map (·.1)).Nodup) : viewEntry 0 cm = viewV1 cm := by
  unfold viewEntry viewV1
  rw [sortNames_eq_isort cm hn]
  simp
  decide

theorem viewEntry_vn (l : Nat) (hl : l ≠ 0) (cm : CostModel) : viewEntry l cm = viewVn l (cm.map (·.2)) := by
  unfold viewEntry viewVn
  simp [hl, List.map_map, Function.comp_def]

theorem viewEntry_eq_view (l : Nat) (cm : CostModel) (hn : l = 0 → (cm.map (·.1)).Nodup) :
    viewEntry l cm = view l cm := by
  unfold view
  by_cases hl : l = 0
  · subst hl; simp [viewEntry_v1 cm (hn rfl)]
  · simp [hl, viewEntry_vn l hl cm]

/-! ### canonical order of the language-view map -/

theorem shortLexLe_eq (a b : Bytes × Bytes) : shortLexLe a b = lenLexLe a.1 b.1 := by
  simp [shortLexLe, lenLexLe, bytesLe]

theorem shortLexLe_total (a b : Bytes × Bytes) : (shortLexLe a b || shortLexLe b a) = true := by
  rw [shortLexLe_eq, shortLexLe_eq]; exact lenLexLe_total _ _

theorem shortLexLe_trans (a b c : Bytes × Bytes) (h1 : shortLexLe a b = true) (h2 : shortLexLe b c = true) :
    shortLexLe a c = true := by
  rw [shortLexLe_eq] at *; exact lenLexLe_trans _ _ _ h1 h2

theorem mem_dedupNat (x : Nat) (l : List Nat) : x ∈ dedupNat l ↔ x ∈ l := by
  induction l with
  | nil => simp [dedupNat]
  | cons y ys ih =>
    simp only [dedupNat, List.mem_cons, List.mem_filter, ih, bne_iff_ne, ne_eq]
    constructor
    · rintro (h | ⟨h, _⟩)
      · exact Or.inl h
      · exact Or.inr h
    · intro h
      by_cases e : x = y
      · exact Or.inl e
      · rcases h with h | h
        · exact Or.inl h
        · exact Or.inr ⟨h, e⟩

theorem dedupNat_nodup (l : List Nat) : (dedupNat l).Nodup := by
  induction l with
  | nil => simp [dedupNat]
  | cons y ys ih =>
    simp only [dedupNat, List.nodup_cons, List.mem_filter, bne_iff_ne, ne_eq, not_true_eq_false, and_false,
      not_false_eq_true, true_and]
    exact List.Nodup.sublist List.filter_sublist ih

theorem sortLangs_perm (l : List Nat) : (sortLangs l).Perm (dedupNat l) := isort_perm _ _

theorem ltLang_strictTotal : StrictTotal ltLang := by
  refine ⟨?_, ?_, ?_⟩
  · intro a; simp [ltLang]
  · intro a b c h1 h2
    by_cases ha : a = 0 <;> by_cases hb : b = 0 <;> by_cases hc : c = 0 <;>
      simp [ltLang, ha, hb, hc] at h1 h2 ⊢ <;> omega
  · intro a b h1 h2
    by_cases ha : a = 0 <;> by_cases hb : b = 0 <;> simp [ltLang, ha, hb] at h1 h2 ⊢ <;> omega

/-- the emitted languages are strictly increasing in the order "ids ≥ 1 ascending, then 0" -/
theorem sortLangs_strict (l : List Nat) : (sortLangs l).Pairwise (fun a b => ltLang a b = true) :=
  sortBy_strict ltLang id ltLang_strictTotal (dedupNat l) (by simpa using dedupNat_nodup l)

/-- the encoded key of a language view, for language ids below 256 -/
def viewKey (l : Nat) : Bytes :=
  if l = 0 then [0x41, 0x00] else if l < 24 then [UInt8.ofNat l] else [0x18, UInt8.ofNat l]

theorem view_key (l : Nat) (h : l < 256) (cm : CostModel) : (view l cm).1 = viewKey l := by
  unfold viewKey view
  by_cases h0 : l = 0
  · simp [h0, viewV1]
  · by_cases h1 : l < 24
    · simp [h0, h1, viewVn, encode, head]
    · have h2 : l < 256 := h
      simp [h0, h1, h2, viewVn, encode, head, beBytes, Nat.mod_eq_of_lt h2]

theorem u8_ofNat_lt (a b : Nat) (ha : a < 256) (hb : b < 256) : (UInt8.ofNat a < UInt8.ofNat b) ↔ a < b := by
  rw [UInt8.lt_iff_toNat_lt]
  simp [UInt8.toNat_ofNat, Nat.mod_eq_of_lt ha, Nat.mod_eq_of_lt hb]

theorem u8_ofNat_inj (a b : Nat) (ha : a < 256) (hb : b < 256) (h : UInt8.ofNat a = UInt8.ofNat b) : a = b := by
  have h3 := congrArg UInt8.toNat h
  simp at h3
  omega

theorem viewKey_inj (a b : Nat) (ha : a < 256) (hb : b < 256) (h : viewKey a = viewKey b) : a = b := by
  unfold viewKey at h
  by_cases a0 : a = 0 <;> by_cases b0 : b = 0 <;> by_cases a1 : a < 24 <;> by_cases b1 : b < 24 <;>
    simp [a0, b0, a1, b1] at h <;> first
      | omega
      | exact u8_ofNat_inj a b ha hb h
      | (exfalso
         first
           | (have := u8_ofNat_inj 24 a (by omega) ha (by simpa using h.1); omega)
           | (have := u8_ofNat_inj 24 b (by omega) hb (by simpa using h.1.symm); omega)
           | (have := u8_ofNat_inj a 0x41 ha (by omega) (by simpa using h); omega))

/-- the iteration order of the repaired code is the canonical (shortest first, then bytewise) order of the keys -/
theorem viewKey_order (a b : Nat) (ha : a < 256) (hb : b < 256) (h : ltLang a b = true) :
    lenLexLe (viewKey a) (viewKey b) = true := by
  unfold viewKey
  have e1 := u8_ofNat_lt b a hb ha
  have e2 : ¬ ((0x41 : UInt8) < 0x18) := by decide
  by_cases a0 : a = 0 <;> by_cases b0 : b = 0 <;> by_cases a1 : a < 24 <;> by_cases b1 : b < 24 <;>
    simp [ltLang, a0, b0, a1, b1] at h ⊢ <;>
    simp [lenLexLe, bytesLe, bytesLt, u8_lt_irrefl] <;> (try omega) <;>
    (try (intro h'; exact absurd (e1.1 h') (by omega))) <;>
    (try (rw [UInt8.le_iff_toNat_le]; simp [Nat.mod_eq_of_lt ha, Nat.mod_eq_of_lt hb]; omega))

/-- **the language views are canonical**: for every set of language ids below 256 (the ledger has 0, 1, 2) the bytes
the model emits are the specification's canonical language views -/
theorem langViews_canonical (langs : List Nat) (pp : Nat → CostModel) (h : ∀ l ∈ langs, l < 256)
    (hn : 0 ∈ langs → ((pp 0).map (·.1)).Nodup) :
    langViews langs pp = languageViews (dedupNat langs) pp := by
  unfold langViews languageViews
  have hmem : ∀ l ∈ sortLangs langs, l ∈ langs := fun l hl =>
    (mem_dedupNat l langs).1 ((sortLangs_perm langs).subset hl)
  have hview : ∀ l ∈ langs, viewEntry l (pp l) = view l (pp l) := fun l hl =>
    viewEntry_eq_view l _ (fun e => by subst e; exact hn hl)
  have key : isort shortLexLe ((dedupNat langs).map fun l => view l (pp l))
      = (sortLangs langs).map fun l => viewEntry l (pp l) := by
    apply isort_eq_of_sorted_perm shortLexLe shortLexLe_total shortLexLe_trans
    · intro a ha b hb h1 h2
      rw [shortLexLe_eq] at h1 h2
      have e := lenLexLe_antisymm _ _ h1 h2
      obtain ⟨la, hla, rfl⟩ := List.mem_map.1 ha
      obtain ⟨lb, hlb, rfl⟩ := List.mem_map.1 hb
      have ra := h la ((mem_dedupNat la langs).1 hla)
      have rb := h lb ((mem_dedupNat lb langs).1 hlb)
      rw [view_key la ra, view_key lb rb] at e
      rw [viewKey_inj la lb ra rb e]
    · rw [List.pairwise_map]
      refine (sortLangs_strict langs).imp_of_mem ?_
      intro a b ha hb hab
      have ma := hmem a ha
      have mb := hmem b hb
      rw [shortLexLe_eq, hview a ma, hview b mb, view_key a (h a ma), view_key b (h b mb)]
      exact viewKey_order a b (h a ma) (h b mb) hab
    · have h1 : ((sortLangs langs).map fun l => viewEntry l (pp l))
          = (sortLangs langs).map fun l => view l (pp l) := by
        apply List.map_congr_left
        intro l hl
        exact hview l (hmem l hl)
      rw [h1]
      exact (sortLangs_perm langs).map _
  rw [key]
  simp [List.flatMap_map]

/-! ## the calls made on the builder -/

@[simp] theorem addRef_inputs (st : St) (s : Script) (r : Option TxIn) : (addRef st s r).inputs = st.inputs := by
  cases r <;> rfl
@[simp] theorem addRef_mint (st : St) (s : Script) (r : Option TxIn) : (addRef st s r).mint = st.mint := by
  cases r <;> rfl
@[simp] theorem addRef_inRedeemers (st : St) (s : Script) (r : Option TxIn) :
    (addRef st s r).inRedeemers = st.inRedeemers := by cases r <;> rfl
@[simp] theorem addRef_wdrlKeys (st : St) (s : Script) (r : Option TxIn) : (addRef st s r).wdrlKeys = st.wdrlKeys := by
  cases r <;> rfl
@[simp] theorem addRef_certificate (st : St) (s : Script) (r : Option TxIn) :
    (addRef st s r).certificate = st.certificate := by cases r <;> rfl
@[simp] theorem addRef_datums (st : St) (s : Script) (r : Option TxIn) : (addRef st s r).datums = st.datums := by
  cases r <;> rfl
@[simp] theorem addRef_nCerts (st : St) (s : Script) (r : Option TxIn) : (addRef st s r).nCerts = st.nCerts := by
  cases r <;> rfl

/-- inputs a call contributes -/
def opInputs : Op → List TxIn
  | .addInput u => [u]
  | .scriptInput u _ _ _ _ => [u]
  | _ => []

def opIsCert : Op → Bool
  | .cert => true
  | _ => false

theorem apply_nCerts (st st' : St) (o : Op) (h : apply st o = some st') :
    st'.nCerts = st.nCerts + (if opIsCert o then 1 else 0) := by
  cases o <;> simp only [apply] at h <;> (try split at h) <;> (try split at h) <;>
    simp only [Option.some.injEq, reduceCtorEq] at h <;> (try subst h) <;> simp [opIsCert]

theorem apply_certificate (st st' : St) (o : Op) (h : apply st o = some st') :
    ∃ t, st'.certificate = st.certificate ++ t := by
  cases o <;> simp only [apply] at h <;> (try split at h) <;> (try split at h) <;>
    simp only [Option.some.injEq, reduceCtorEq] at h <;> (try subst h) <;>
    first
      | (refine ⟨[], ?_⟩; simp; done)
      | (simp only [addRef_certificate]; exact ⟨_, rfl⟩)

theorem has_set_of_has (m : List (Bytes × Bytes)) (k k' v : Bytes) (hk : Dict.has m k' = true) :
    Dict.has (Dict.set m k v) k' = true := by
  rw [Dict.has_set, hk]; simp

theorem apply_datums (st st' : St) (o : Op) (h : apply st o = some st') (k : Bytes)
    (hk : Dict.has st.datums k = true) : Dict.has st'.datums k = true := by
  cases o with
  | scriptInput u s src datum r =>
    simp only [apply] at h
    split at h
    · simp at h
    · simp only [Option.some.injEq] at h; subst h
      cases datum with
      | none => exact hk
      | some d => exact has_set_of_has _ _ _ _ hk
  | outputDatum d =>
    simp only [apply, Option.some.injEq] at h; subst h
    exact has_set_of_has _ _ _ _ hk
  | _ =>
    simp only [apply] at h <;> (try split at h) <;> (try split at h) <;>
      simp only [Option.some.injEq, reduceCtorEq] at h <;> (try subst h) <;>
      (try simp only [addRef_datums]) <;> exact hk

theorem mem_addIfAbsent {β : Type} [DecidableEq β] (l : List β) (x y : β) : y ∈ addIfAbsent l x ↔ y ∈ l ∨ y = x := by
  unfold addIfAbsent
  split
  · rename_i h
    constructor
    · exact Or.inl
    · rintro (h1 | h1)
      · exact h1
      · rw [h1]; exact h
  · simp

theorem nodup_addIfAbsent {β : Type} [DecidableEq β] (l : List β) (x : β) (h : l.Nodup) : (addIfAbsent l x).Nodup := by
  unfold addIfAbsent
  split
  · exact h
  · rename_i hx
    rw [List.nodup_append]
    refine ⟨h, by simp, ?_⟩
    intro a ha b hb
    simp only [List.mem_singleton] at hb
    rw [hb]; intro e; rw [e] at ha; exact hx ha

/-- the value a call assigns to `self.mint` -/
def opMint : Op → Option MultiAsset
  | .mintSet m => some m
  | _ => none

def isMintSet : Op → Bool
  | .mintSet _ => true
  | _ => false

/-- `self.mint` after a sequence of calls: the last assignment wins -/
def mintTrace (m : MultiAsset) (ops : List Op) : MultiAsset := ops.foldl (fun acc o => (opMint o).getD acc) m

def opWdrl : Op → List Bytes
  | .withdraw a => [a]
  | _ => []

/-- repaired `add_input` / `add_script_input`: a call never repeats a UTxO in `self.inputs`, and adds exactly its own -/
theorem apply_inputs (st st' : St) (o : Op) (h : apply st o = some st') :
    (st.inputs.Nodup → st'.inputs.Nodup) ∧ ∀ u, u ∈ st'.inputs ↔ u ∈ st.inputs ∨ u ∈ opInputs o := by
  cases o <;> simp only [apply] at h <;> (try split at h) <;> (try split at h) <;>
    simp only [Option.some.injEq, reduceCtorEq] at h <;> (try subst h) <;>
    simp [opInputs, mem_addIfAbsent, nodup_addIfAbsent]
  all_goals exact fun h => nodup_addIfAbsent _ _ h

theorem apply_mint (st st' : St) (o : Op) (h : apply st o = some st') : st'.mint = (opMint o).getD st.mint := by
  cases o <;> simp only [apply] at h <;> (try split at h) <;> (try split at h) <;>
    simp only [Option.some.injEq, reduceCtorEq] at h <;> (try subst h) <;> simp [opMint]

theorem apply_wdrlKeys (st st' : St) (o : Op) (h : apply st o = some st') :
    (st.wdrlKeys.Nodup → st'.wdrlKeys.Nodup) ∧ ∀ k, k ∈ st'.wdrlKeys ↔ k ∈ st.wdrlKeys ∨ k ∈ opWdrl o := by
  cases o <;> simp only [apply] at h <;> (try split at h) <;> (try split at h) <;>
    simp only [Option.some.injEq, reduceCtorEq] at h <;> (try subst h) <;>
    simp [opWdrl, mem_addIfAbsent, nodup_addIfAbsent]
  exact fun h => nodup_addIfAbsent _ _ h

/-! ### sequences of calls -/

theorem run_append (st : St) (a b : List Op) :
    run st (a ++ b) = match run st a with
      | some s => run s b
      | none => none := by
  induction a generalizing st with
  | nil => simp [run]
  | cons o os ih =>
    simp only [List.cons_append, run]
    cases apply st o with
    | none => rfl
    | some s => exact ih s

/-- after any sequence of calls `self.inputs` holds every UTxO that was added, each once -/
theorem run_inputs (st st' : St) (ops : List Op) (h : run st ops = some st') :
    (st.inputs.Nodup → st'.inputs.Nodup) ∧
      ∀ u, u ∈ st'.inputs ↔ u ∈ st.inputs ∨ u ∈ ops.flatMap opInputs := by
  induction ops generalizing st with
  | nil => simp [run] at h; subst h; simp
  | cons o os ih =>
    simp only [run] at h
    cases ha : apply st o with
    | none => simp [ha] at h
    | some s =>
      simp only [ha] at h
      obtain ⟨n1, m1⟩ := apply_inputs st s o ha
      obtain ⟨n2, m2⟩ := ih s h
      refine ⟨fun hn => n2 (n1 hn), fun k => ?_⟩
      rw [m2 k, m1 k, List.flatMap_cons, List.mem_append, or_assoc]

theorem run_nCerts (st st' : St) (ops : List Op) (h : run st ops = some st') :
    st'.nCerts = st.nCerts + ops.countP opIsCert := by
  induction ops generalizing st with
  | nil => simp [run] at h; subst h; simp
  | cons o os ih =>
    simp only [run] at h
    cases ha : apply st o with
    | none => simp [ha] at h
    | some s =>
      simp only [ha] at h
      rw [ih s h, apply_nCerts st s o ha, List.countP_cons]; omega

theorem run_certificate (st st' : St) (ops : List Op) (h : run st ops = some st') :
    ∃ t, st'.certificate = st.certificate ++ t := by
  induction ops generalizing st with
  | nil => simp [run] at h; subst h; exact ⟨[], by simp⟩
  | cons o os ih =>
    simp only [run] at h
    cases ha : apply st o with
    | none => simp [ha] at h
    | some s =>
      simp only [ha] at h
      obtain ⟨t1, h1⟩ := apply_certificate st s o ha
      obtain ⟨t2, h2⟩ := ih s h
      exact ⟨t1 ++ t2, by rw [h2, h1, List.append_assoc]⟩

theorem run_datums (st st' : St) (ops : List Op) (h : run st ops = some st') (k : Bytes)
    (hk : Dict.has st.datums k = true) : Dict.has st'.datums k = true := by
  induction ops generalizing st with
  | nil => simp [run] at h; subst h; exact hk
  | cons o os ih =>
    simp only [run] at h
    cases ha : apply st o with
    | none => simp [ha] at h
    | some s =>
      simp only [ha] at h
      exact ih s h (apply_datums st s o ha k hk)

theorem run_mint (st st' : St) (ops : List Op) (h : run st ops = some st') : st'.mint = mintTrace st.mint ops := by
  induction ops generalizing st with
  | nil => simp [run] at h; subst h; rfl
  | cons o os ih =>
    simp only [run] at h
    cases ha : apply st o with
    | none => simp [ha] at h
    | some s =>
      simp only [ha] at h
      rw [ih s h, apply_mint st s o ha]; rfl

/-- `self.mint` depends on the assignments only, in their order -/
theorem mintTrace_filter (m : MultiAsset) (ops : List Op) : mintTrace m (ops.filter isMintSet) = mintTrace m ops := by
  induction ops generalizing m with
  | nil => rfl
  | cons o os ih =>
    cases o <;> simp only [List.filter_cons, isMintSet, if_true, Bool.false_eq_true, if_false] <;>
      simp only [mintTrace, List.foldl_cons, opMint, Option.getD_some, Option.getD_none] <;> exact ih _

/-- the keys of `_inputs_to_redeemers` are inputs: `add_script_input` registers the UTxO it attaches a redeemer to -/
theorem mem_aset {ν : Type} (m : List (TxIn × ν)) (k : TxIn) (v : ν) (p : TxIn × ν) (h : p ∈ aset m k v) :
    p ∈ m ∨ p.1 = k := by
  induction m with
  | nil => simp [aset] at h; exact Or.inr (by rw [h])
  | cons q r ih =>
    obtain ⟨k', v'⟩ := q
    simp only [aset] at h
    split at h
    · rename_i e
      rcases List.mem_cons.1 h with e' | e'
      · exact Or.inr (by rw [e']; exact e)
      · exact Or.inl (List.mem_cons_of_mem _ e')
    · rcases List.mem_cons.1 h with e' | e'
      · exact Or.inl (by rw [e']; simp)
      · rcases ih e' with h1 | h1
        · exact Or.inl (List.mem_cons_of_mem _ h1)
        · exact Or.inr h1

theorem apply_inRedeemers (st st' : St) (o : Op) (h : apply st o = some st')
    (hi : ∀ p ∈ st.inRedeemers, p.1 ∈ st.inputs) : ∀ p ∈ st'.inRedeemers, p.1 ∈ st'.inputs := by
  have hin := (apply_inputs st st' o h).2
  cases o with
  | scriptInput u s src datum r =>
    simp only [apply] at h
    split at h
    · simp at h
    · rename_i e r' _
      simp only [Option.some.injEq] at h; subst h
      intro p hp
      simp only at hp ⊢
      cases r' with
      | none => exact (mem_addIfAbsent _ _ _).2 (Or.inl (hi p (by simpa using hp)))
      | some rd =>
        rcases mem_aset _ _ _ _ hp with h1 | h1
        · exact (mem_addIfAbsent _ _ _).2 (Or.inl (hi p h1))
        · exact (mem_addIfAbsent _ _ _).2 (Or.inr h1)
  | _ =>
    simp only [apply] at h <;> (try split at h) <;> (try split at h) <;>
      simp only [Option.some.injEq, reduceCtorEq] at h <;> (try subst h) <;>
      (intro p hp; exact (hin p.1).2 (Or.inl (hi p (by simpa using hp))))

theorem run_inRedeemers (st st' : St) (ops : List Op) (h : run st ops = some st')
    (hi : ∀ p ∈ st.inRedeemers, p.1 ∈ st.inputs) : ∀ p ∈ st'.inRedeemers, p.1 ∈ st'.inputs := by
  induction ops generalizing st with
  | nil => simp [run] at h; subst h; exact hi
  | cons o os ih =>
    simp only [run] at h
    cases ha : apply st o with
    | none => simp [ha] at h
    | some s =>
      simp only [ha] at h
      exact ih s h (apply_inRedeemers st s o ha hi)

theorem run_wdrlKeys (st st' : St) (ops : List Op) (h : run st ops = some st') :
    (st.wdrlKeys.Nodup → st'.wdrlKeys.Nodup) ∧
      ∀ k, k ∈ st'.wdrlKeys ↔ k ∈ st.wdrlKeys ∨ k ∈ ops.flatMap opWdrl := by
  induction ops generalizing st with
  | nil => simp [run] at h; subst h; simp
  | cons o os ih =>
    simp only [run] at h
    cases ha : apply st o with
    | none => simp [ha] at h
    | some s =>
      simp only [ha] at h
      obtain ⟨n1, m1⟩ := apply_wdrlKeys st s o ha
      obtain ⟨n2, m2⟩ := ih s h
      refine ⟨fun hn => n2 (n1 hn), fun k => ?_⟩
      rw [m2 k, m1 k, List.flatMap_cons, List.mem_append, or_assoc]

/-! ### certificates -/

/-- a redeemer with its execution units blanked: what identifies it (purpose, index, data) -/
def eraseU (r : Rdm) : Rdm := { r with mem := 0, steps := 0 }

def eraseUnits (m : List (Script × Option Rdm)) : List (Script × Option Rdm) :=
  m.map fun p => (p.1, p.2.map eraseU)

theorem consolidate_erase (est e : Option Bool) (r r' : Rdm) (h : consolidate est r = some (e, r')) :
    eraseU r' = eraseU r := by
  unfold consolidate at h
  cases est with
  | none => simp only at h; split at h <;> simp only [Option.some.injEq, Prod.mk.injEq] at h <;> rw [← h.2] <;> rfl
  | some b =>
    cases b <;> simp only at h <;> split at h <;>
      simp only [Option.some.injEq, Prod.mk.injEq, reduceCtorEq] at h <;> rw [← h.2] <;> rfl

/-- `add_certificate_script` with a redeemer: needs a certificate, and points the redeemer at the last one -/
theorem apply_certScript (st st' : St) (s : Script) (ref : Option TxIn) (rd : Rdm)
    (h : apply st (.certificateScript s ref (some rd)) = some st') :
    1 ≤ st.nCerts ∧ ∃ rd', st'.certificate = st.certificate ++ [(s, some rd')] ∧
      eraseU rd' = { tag := 2, index := st.nCerts - 1, data := rd.data, mem := 0, steps := 0 } := by
  simp only [apply, Option.isSome_some, Bool.true_and, decide_eq_true_eq] at h
  split at h
  · simp at h
  · rename_i hn
    simp only [attach, Option.getD_some] at h
    split at h
    · simp at h
    · rename_i e r' heq
      simp only [Option.some.injEq] at h; subst h
      split at heq
      · rename_i e2 rd2 hc
        simp only [Option.some.injEq, Prod.mk.injEq] at heq
        obtain ⟨rfl, rfl⟩ := heq
        refine ⟨by omega, rd2, by simp, ?_⟩
        rw [consolidate_erase _ _ _ _ hc]; rfl
      · simp at heq

theorem setRedeemerIndex_frame (net : Nat) (st st' : St) (h : setRedeemerIndex net st = some st') :
    st'.certificate = st.certificate ∧ st'.datums = st.datums ∧ st'.inputs = st.inputs ∧
    st'.estimate = st.estimate ∧ st'.refScripts = st.refScripts ∧ st'.nativeScripts = st.nativeScripts ∧
    st'.inScripts = st.inScripts := by
  unfold setRedeemerIndex at h
  split at h
  · simp only [Option.some.injEq] at h; subst h; simp
  · simp at h

theorem mapOpt_erase (f : Rdm → Option Rdm) (hf : ∀ r r', f r = some r' → eraseU r' = eraseU r)
    (m m' : List (Script × Option Rdm)) (h : mapOpt f m = some m') : eraseUnits m' = eraseUnits m := by
  induction m generalizing m' with
  | nil => simp [mapOpt] at h; subst h; rfl
  | cons p r ih =>
    obtain ⟨s, o⟩ := p
    cases o with
    | none =>
      simp only [mapOpt, Option.map_eq_some_iff] at h
      obtain ⟨r', hr, rfl⟩ := h
      simp only [eraseUnits, List.map_cons, Option.map_none, List.cons.injEq, true_and]
      exact ih r' hr
    | some rd =>
      simp only [mapOpt] at h
      split at h
      · rename_i rd' r' h1 h2
        simp only [Option.some.injEq] at h; subst h
        simp only [eraseUnits, List.map_cons, Option.map_some, List.cons.injEq, Prod.mk.injEq, true_and,
          Option.some.injEq]
        exact ⟨hf _ _ h1, ih r' h2⟩
      · simp at h

theorem mapOpt_mem (f : Rdm → Option Rdm) (m m' : List (Script × Option Rdm)) (h : mapOpt f m = some m')
    (s : Script) (r' : Rdm) (hm : (s, some r') ∈ m') : ∃ r, (s, some r) ∈ m ∧ f r = some r' := by
  induction m generalizing m' with
  | nil => simp [mapOpt] at h; subst h; simp at hm
  | cons p r ih =>
    obtain ⟨s0, o⟩ := p
    cases o with
    | none =>
      simp only [mapOpt, Option.map_eq_some_iff] at h
      obtain ⟨t, hr, rfl⟩ := h
      rcases List.mem_cons.1 hm with e | e
      · simp at e
      · obtain ⟨x, h1, h2⟩ := ih t hr e
        exact ⟨x, List.mem_cons_of_mem _ h1, h2⟩
    | some rd =>
      simp only [mapOpt] at h
      split at h
      · rename_i rd' t h1 h2
        simp only [Option.some.injEq] at h; subst h
        rcases List.mem_cons.1 hm with e | e
        · simp only [Prod.mk.injEq, Option.some.injEq] at e
          obtain ⟨rfl, rfl⟩ := e
          exact ⟨rd, by simp, h1⟩
        · obtain ⟨x, h3, h4⟩ := ih t h2 e
          exact ⟨x, List.mem_cons_of_mem _ h3, h4⟩
      · simp at h

theorem mapOptIn_mem (f : Rdm → Option Rdm) (m m' : List (TxIn × Rdm)) (h : mapOptIn f m = some m')
    (u : TxIn) (r' : Rdm) (hm : (u, r') ∈ m') : ∃ r, (u, r) ∈ m ∧ f r = some r' := by
  induction m generalizing m' with
  | nil => simp [mapOptIn] at h; subst h; simp at hm
  | cons p r ih =>
    obtain ⟨u0, rd⟩ := p
    simp only [mapOptIn] at h
    split at h
    · rename_i rd' t h1 h2
      simp only [Option.some.injEq] at h; subst h
      rcases List.mem_cons.1 hm with e | e
      · simp only [Prod.mk.injEq] at e
        obtain ⟨rfl, rfl⟩ := e
        exact ⟨rd, by simp, h1⟩
      · obtain ⟨x, h3, h4⟩ := ih t h2 e
        exact ⟨x, List.mem_cons_of_mem _ h3, h4⟩
    · simp at h

/-- the per-redeemer step of `_update_execution_units` -/
def unitStep (ev : Nat → Nat → Option (Int × Int)) (r : Rdm) : Option Rdm :=
  (ev r.tag r.index).map fun u => { r with mem := u.1, steps := u.2 }

theorem unitStep_erase (ev : Nat → Nat → Option (Int × Int)) (r r' : Rdm) (h : unitStep ev r = some r') :
    eraseU r' = eraseU r := by
  simp only [unitStep, Option.map_eq_some_iff] at h
  obtain ⟨u, _, rfl⟩ := h
  rfl

theorem unitStep_units (ev : Nat → Nat → Option (Int × Int)) (r r' : Rdm) (h : unitStep ev r = some r') :
    ev r'.tag r'.index = some (r'.mem, r'.steps) := by
  simp only [unitStep, Option.map_eq_some_iff] at h
  obtain ⟨u, hu, rfl⟩ := h
  simpa using hu

theorem updateExUnits_frame (ev : Nat → Nat → Option (Int × Int)) (st st' : St) (h : updateExUnits ev st = some st') :
    eraseUnits st'.certificate = eraseUnits st.certificate ∧ eraseUnits st'.minting = eraseUnits st.minting ∧
    eraseUnits st'.withdrawal = eraseUnits st.withdrawal ∧
    st'.datums = st.datums ∧ st'.inputs = st.inputs ∧ st'.refScripts = st.refScripts ∧
    st'.nativeScripts = st.nativeScripts ∧ st'.inScripts = st.inScripts := by
  unfold updateExUnits at h
  split at h
  · simp only at h
    split at h
    · rename_i a b c d ha hb hc hd
      simp only [Option.some.injEq] at h; subst h
      exact ⟨mapOpt_erase _ (unitStep_erase ev) _ _ hd, mapOpt_erase _ (unitStep_erase ev) _ _ hb,
        mapOpt_erase _ (unitStep_erase ev) _ _ hc, rfl, rfl, rfl, rfl, rfl⟩
    · simp at h
  · simp only [Option.some.injEq] at h; subst h; simp

theorem mem_redeemerList (st : St) (r : Rdm) :
    r ∈ redeemerList st ↔ (∃ u, (u, r) ∈ st.inRedeemers) ∨ (∃ s, (s, some r) ∈ st.minting) ∨
      (∃ s, (s, some r) ∈ st.withdrawal) ∨ (∃ s, (s, some r) ∈ st.certificate) := by
  simp only [redeemerList, List.mem_append, List.mem_map, List.mem_filterMap, Prod.exists, or_assoc]
  constructor
  · rintro (⟨u, r0, h, rfl⟩ | ⟨s, o, h, rfl⟩ | ⟨s, o, h, rfl⟩ | ⟨s, o, h, rfl⟩)
    · exact Or.inl ⟨u, h⟩
    · exact Or.inr (Or.inl ⟨s, h⟩)
    · exact Or.inr (Or.inr (Or.inl ⟨s, h⟩))
    · exact Or.inr (Or.inr (Or.inr ⟨s, h⟩))
  · rintro (⟨u, h⟩ | ⟨s, h⟩ | ⟨s, h⟩ | ⟨s, h⟩)
    · exact Or.inl ⟨u, r, h, rfl⟩
    · exact Or.inr (Or.inl ⟨s, some r, h, rfl⟩)
    · exact Or.inr (Or.inr (Or.inl ⟨s, some r, h, rfl⟩))
    · exact Or.inr (Or.inr (Or.inr ⟨s, some r, h, rfl⟩))

/-- after `_update_execution_units` in estimating mode every redeemer of the state carries the evaluated units of
its own `(tag, index)` -/
theorem updateExUnits_units (ev : Nat → Nat → Option (Int × Int)) (st st' : St) (h : updateExUnits ev st = some st')
    (he : st.estimate = some true) : ∀ r ∈ redeemerList st', ev r.tag r.index = some (r.mem, r.steps) := by
  unfold updateExUnits at h
  rw [if_pos he] at h
  simp only at h
  split at h
  · rename_i a b c d ha hb hc hd
    simp only [Option.some.injEq] at h; subst h
    intro r hr
    rw [mem_redeemerList] at hr
    simp only at hr
    rcases hr with ⟨u, hm⟩ | ⟨s, hm⟩ | ⟨s, hm⟩ | ⟨s, hm⟩
    · obtain ⟨r0, _, h0⟩ := mapOptIn_mem _ _ _ ha u r hm; exact unitStep_units ev r0 r h0
    · obtain ⟨r0, _, h0⟩ := mapOpt_mem _ _ _ hb s r hm; exact unitStep_units ev r0 r h0
    · obtain ⟨r0, _, h0⟩ := mapOpt_mem _ _ _ hc s r hm; exact unitStep_units ev r0 r h0
    · obtain ⟨r0, _, h0⟩ := mapOpt_mem _ _ _ hd s r hm; exact unitStep_units ev r0 r h0
  · simp at h

/-! ## the redeemer map -/

theorem set_of_not_mem {ν : Type} (m : List (Bytes × ν)) (k : Bytes) (v : ν) (h : k ∉ m.map (·.1)) :
    Dict.set m k v = m ++ [(k, v)] := by
  induction m with
  | nil => rfl
  | cons p r ih =>
    obtain ⟨k', v'⟩ := p
    simp only [List.map_cons, List.mem_cons, not_or] at h
    have hne : k' ≠ k := fun e => h.1 e.symm
    simp [Dict.set, hne, ih h.2]

theorem foldl_set_of_nodup {ν : Type} (ps acc : List (Bytes × ν)) (hn : ((acc ++ ps).map (·.1)).Nodup) :
    ps.foldl (fun acc p => Dict.set acc p.1 p.2) acc = acc ++ ps := by
  induction ps generalizing acc with
  | nil => simp
  | cons q r ih =>
    simp only [List.foldl_cons]
    have hq : q.1 ∉ acc.map (·.1) := by
      intro hm
      rw [List.map_append, List.map_cons] at hn
      have := (List.nodup_append.1 hn).2.2 q.1 hm q.1 (by simp)
      exact this rfl
    rw [set_of_not_mem acc q.1 q.2 hq]
    have : acc ++ [(q.1, q.2)] ++ r = acc ++ q :: r := by simp
    rw [ih (acc ++ [(q.1, q.2)]) (by rw [this]; exact hn), this]

theorem ofPairs_of_nodup {ν : Type} (ps : List (Bytes × ν)) (hn : (ps.map (·.1)).Nodup) : Dict.ofPairs ps = ps := by
  unfold Dict.ofPairs
  rw [foldl_set_of_nodup ps [] (by simpa using hn)]; simp

/-- redeemers with pairwise distinct `(tag, index)`: the map form is a function of the set of redeemers -/
theorem encRedeemers_map_perm (l₁ l₂ : List Rdm) (hp : l₁.Perm l₂) (hn : (l₁.map mapKey).Nodup) :
    encRedeemers true l₁ = encRedeemers true l₂ := by
  simp only [encRedeemers, Bool.true_or, if_true]
  have hn2 : (l₂.map mapKey).Nodup := (hp.map mapKey).nodup_iff.1 hn
  have e1 : redeemerMap l₁ = l₁.map fun r => (mapKey r, mapVal r) := by
    apply ofPairs_of_nodup; simpa [List.map_map, Function.comp_def] using hn
  have e2 : redeemerMap l₂ = l₂.map fun r => (mapKey r, mapVal r) := by
    apply ofPairs_of_nodup; simpa [List.map_map, Function.comp_def] using hn2
  rw [e1, e2]
  apply encRawMap_order_independent
  · unfold Dict.WF Dict.keys; simpa [List.map_map, Function.comp_def] using hn
  · exact hp.map _

/-! ## certificate redeemers as a function of the certificate-related calls -/

/-- what `_certificate_script_to_redeemers` must hold (units blanked) after a sequence of calls started with `n`
certificates: each `add_certificate_script` redeemer points at the certificate that was last at that time -/
def certTrace : Nat → List Op → List (Script × Option Rdm)
  | _, [] => []
  | n, .cert :: os => certTrace (n + 1) os
  | n, .certificateScript s _ r :: os =>
    (s, r.map fun rd => { tag := 2, index := n - 1, data := rd.data, mem := 0, steps := 0 }) :: certTrace n os
  | n, .addInput _ :: os => certTrace n os
  | n, .scriptInput _ _ _ _ _ :: os => certTrace n os
  | n, .mintingScript _ _ _ :: os => certTrace n os
  | n, .withdrawalScript _ _ _ :: os => certTrace n os
  | n, .mintSet _ :: os => certTrace n os
  | n, .withdraw _ :: os => certTrace n os
  | n, .nativeScript _ :: os => certTrace n os
  | n, .outputDatum _ :: os => certTrace n os

def certRelated : Op → Bool
  | .cert => true
  | .certificateScript _ _ _ => true
  | _ => false

theorem certTrace_filter (n : Nat) (ops : List Op) : certTrace n (ops.filter certRelated) = certTrace n ops := by
  induction ops generalizing n with
  | nil => rfl
  | cons o os ih => cases o <;> simp [List.filter_cons, certRelated, certTrace, ih]

theorem certTrace_append (n : Nat) (a b : List Op) :
    certTrace n (a ++ b) = certTrace n a ++ certTrace (n + a.countP opIsCert) b := by
  induction a generalizing n with
  | nil => simp [certTrace]
  | cons o os ih =>
    cases o <;> simp [certTrace, ih, opIsCert, List.countP_cons]
    congr 1; omega

theorem attach_erase (est e : Option Bool) (r r' : Option Rdm) (tag : Nat) (idx : Option Nat)
    (h : attach est r tag idx = some (e, r')) :
    r'.map eraseU = r.map fun rd => eraseU { rd with tag := tag, index := idx.getD rd.index } := by
  unfold attach at h
  cases r with
  | none => simp only [Option.some.injEq, Prod.mk.injEq] at h; rw [← h.2]; rfl
  | some rd =>
    simp only at h
    split at h
    · rename_i e2 rd2 hc
      simp only [Option.some.injEq, Prod.mk.injEq] at h
      rw [← h.2]
      simp only [Option.map_some, Option.some.injEq]
      exact consolidate_erase _ _ _ _ hc
    · simp at h

theorem eraseUnits_append (a b : List (Script × Option Rdm)) : eraseUnits (a ++ b) = eraseUnits a ++ eraseUnits b := by
  simp [eraseUnits]

theorem apply_certTrace (st st' : St) (o : Op) (h : apply st o = some st') :
    eraseUnits st'.certificate = eraseUnits st.certificate ++ certTrace st.nCerts [o] := by
  cases o with
  | certificateScript s ref r =>
    simp only [apply] at h
    split at h
    · simp at h
    · split at h
      · simp at h
      · rename_i e r' heq
        simp only [Option.some.injEq] at h; subst h
        simp only [addRef_certificate, eraseUnits_append, certTrace]
        congr 1
        simp only [eraseUnits, List.map_cons, List.map_nil, List.cons.injEq, Prod.mk.injEq, true_and, and_true]
        rw [attach_erase _ _ _ _ _ _ heq]
        cases r <;> rfl
  | scriptInput u s src datum r =>
    simp only [apply] at h
    split at h
    · simp at h
    · simp only [Option.some.injEq] at h; subst h; simp [certTrace]
  | mintingScript s ref r =>
    simp only [apply] at h
    split at h
    · simp at h
    · simp only [Option.some.injEq] at h; subst h; simp [certTrace]
  | withdrawalScript s ref r =>
    simp only [apply] at h
    split at h
    · simp at h
    · simp only [Option.some.injEq] at h; subst h; simp [certTrace]
  | _ => simp only [apply, Option.some.injEq] at h <;> subst h <;> simp [certTrace]

theorem run_certTrace (st st' : St) (ops : List Op) (h : run st ops = some st') :
    eraseUnits st'.certificate = eraseUnits st.certificate ++ certTrace st.nCerts ops := by
  induction ops generalizing st with
  | nil => simp [run] at h; subst h; simp [certTrace]
  | cons o os ih =>
    simp only [run] at h
    cases ha : apply st o with
    | none => simp [ha] at h
    | some s =>
      simp only [ha] at h
      rw [ih s h, apply_certTrace st s o ha, apply_nCerts st s o ha, List.append_assoc]
      congr 1
      have := certTrace_append st.nCerts [o] os
      simp only [List.singleton_append, List.countP_cons, List.countP_nil, Nat.zero_add] at this
      rw [this]

/-! ## `_update_execution_units` keeps purposes, indices and data -/

theorem updateExUnits_in (ev : Nat → Nat → Option (Int × Int)) (st st' : St) (h : updateExUnits ev st = some st')
    (u : TxIn) (r' : Rdm) (hm : (u, r') ∈ st'.inRedeemers) : ∃ r, (u, r) ∈ st.inRedeemers ∧ eraseU r' = eraseU r := by
  unfold updateExUnits at h
  split at h
  · simp only at h
    split at h
    · rename_i a b c d ha hb hc hd
      simp only [Option.some.injEq] at h; subst h
      obtain ⟨r, h1, h2⟩ := mapOptIn_mem _ _ _ ha u r' hm
      exact ⟨r, h1, unitStep_erase ev r r' h2⟩
    · simp at h
  · simp only [Option.some.injEq] at h; subst h; exact ⟨r', hm, rfl⟩

theorem updateExUnits_minting (ev : Nat → Nat → Option (Int × Int)) (st st' : St) (h : updateExUnits ev st = some st')
    (s : Script) (r' : Rdm) (hm : (s, some r') ∈ st'.minting) :
    ∃ r, (s, some r) ∈ st.minting ∧ eraseU r' = eraseU r := by
  unfold updateExUnits at h
  split at h
  · simp only at h
    split at h
    · rename_i a b c d ha hb hc hd
      simp only [Option.some.injEq] at h; subst h
      obtain ⟨r, h1, h2⟩ := mapOpt_mem _ _ _ hb s r' hm
      exact ⟨r, h1, unitStep_erase ev r r' h2⟩
    · simp at h
  · simp only [Option.some.injEq] at h; subst h; exact ⟨r', hm, rfl⟩

theorem updateExUnits_withdrawal (ev : Nat → Nat → Option (Int × Int)) (st st' : St)
    (h : updateExUnits ev st = some st') (s : Script) (r' : Rdm) (hm : (s, some r') ∈ st'.withdrawal) :
    ∃ r, (s, some r) ∈ st.withdrawal ∧ eraseU r' = eraseU r := by
  unfold updateExUnits at h
  split at h
  · simp only at h
    split at h
    · rename_i a b c d ha hb hc hd
      simp only [Option.some.injEq] at h; subst h
      obtain ⟨r, h1, h2⟩ := mapOpt_mem _ _ _ hc s r' hm
      exact ⟨r, h1, unitStep_erase ev r r' h2⟩
    · simp at h
  · simp only [Option.some.injEq] at h; subst h; exact ⟨r', hm, rfl⟩

theorem indexOf?_mem {β : Type} [DecidableEq β] (x : β) (l : List β) (i : Nat) (h : indexOf? x l = some i) : x ∈ l := by
  induction l generalizing i with
  | nil => simp [indexOf?] at h
  | cons y ys ih =>
    simp only [indexOf?] at h
    split at h
    · rename_i e; rw [e]; simp
    · simp only [Option.map_eq_some_iff] at h
      obtain ⟨j, hj, _⟩ := h
      exact List.mem_cons_of_mem _ (ih j hj)

/-- decomposition of `build` -/
theorem build_steps (net : Nat) (st st' : St) (sel : List TxIn) (ev : Nat → Nat → Option (Int × Int))
    (h : build net st sel ev = some st') :
    ∃ st1, setRedeemerIndex net { st with inputs := sortInputs (st.inputs ++ sel) } = some st1 ∧
      updateExUnits ev st1 = some st' := by
  unfold build at h
  split at h
  · rename_i st1 h1; exact ⟨st1, h1, h⟩
  · simp at h

/-! ## what the body shows of the inputs and of the mint -/

theorem bodyInputs_of_nodup (l : List TxIn) (hn : l.Nodup) : bodyInputs l = l := by
  induction l with
  | nil => rfl
  | cons x xs ih =>
    rw [List.nodup_cons] at hn
    simp only [bodyInputs, ih hn.2, List.cons.injEq, true_and]
    rw [List.filter_eq_self]
    intro y hy
    simp only [bne_iff_ne, ne_eq]
    intro e; rw [e] at hy; exact hn.1 hy

/-- the body's inputs and mint are those of the state `build` leaves behind -/
theorem build_inputs (net : Nat) (st st' : St) (sel : List TxIn) (ev : Nat → Nat → Option (Int × Int))
    (h : build net st sel ev = some st') : st'.inputs = sortInputs (st.inputs ++ sel) := by
  obtain ⟨st1, h1, h2⟩ := build_steps net st st' sel ev h
  rw [(updateExUnits_frame ev st1 st' h2).2.2.2.2.1, (setRedeemerIndex_frame net _ st1 h1).2.2.1]

theorem setRedeemerIndex_mint (net : Nat) (st st' : St) (h : setRedeemerIndex net st = some st') : st'.mint = st.mint := by
  unfold setRedeemerIndex at h
  split at h
  · simp only [Option.some.injEq] at h; subst h; rfl
  · simp at h

theorem updateExUnits_mint (ev : Nat → Nat → Option (Int × Int)) (st st' : St) (h : updateExUnits ev st = some st') :
    st'.mint = st.mint := by
  unfold updateExUnits at h
  split at h
  · simp only at h
    split at h
    · simp only [Option.some.injEq] at h; subst h; rfl
    · simp at h
  · simp only [Option.some.injEq] at h; subst h; rfl

theorem build_mint (net : Nat) (st st' : St) (sel : List TxIn) (ev : Nat → Nat → Option (Int × Int))
    (h : build net st sel ev = some st') : st'.mint = st.mint := by
  obtain ⟨st1, h1, h2⟩ := build_steps net st st' sel ev h
  rw [updateExUnits_mint ev st1 st' h2, setRedeemerIndex_mint net _ st1 h1]

/-- normalising drops entries, it never adds or repeats a policy -/
theorem bodyPolicies_sublist (m : MultiAsset) : (bodyPolicies m).Sublist (Dict.keys m) := by
  unfold bodyPolicies Dict.keys MultiAsset.normalize
  have h : (m.map fun p => (p.1, Asset.normalize p.2)).map (·.1) = m.map (·.1) := by
    rw [List.map_map]; rfl
  rw [← h]
  exact List.filter_sublist.map _

theorem bodyPolicies_nodup (m : MultiAsset) (h : Dict.WF m) : (bodyPolicies m).Nodup :=
  List.Nodup.sublist (bodyPolicies_sublist m) h

theorem bodyPolicies_perm (m₁ m₂ : MultiAsset) (h : m₁.Perm m₂) : (bodyPolicies m₁).Perm (bodyPolicies m₂) := by
  unfold bodyPolicies Dict.keys MultiAsset.normalize
  exact ((h.map _).filter _).map _

theorem multiAsset_normalize_of_normal (m : MultiAsset) (h : MultiAsset.Normal m) : MultiAsset.normalize m = m := by
  unfold MultiAsset.normalize
  induction m with
  | nil => rfl
  | cons p r ih =>
    have hp := h p (by simp)
    have hr : MultiAsset.Normal r := fun q hq => h q (List.mem_cons_of_mem _ hq)
    have e : Asset.normalize p.2 = p.2 := Asset.normalize_of_normal _ hp.2
    have ne : p.2.isEmpty = false := by cases hx : p.2 with
      | nil => exact absurd hx hp.1
      | cons _ _ => rfl
    simp only [List.map_cons, List.filter_cons, e, ne, Bool.not_false, if_true]
    rw [ih hr]

theorem bodyPolicies_of_normal (m : MultiAsset) (h : MultiAsset.Normal m) : bodyPolicies m = Dict.keys m := by
  unfold bodyPolicies; rw [multiAsset_normalize_of_normal m h]

end Pyc.Rd
