import Pyc.Model.CoinSel
import Pyc.Proofs.Value

/-! Helper lemmas for C14 (coin selection).  `sumBy f l` is the plain integer sum the property speaks about;
`IsSum sel amt` ties the `Value` accumulated by the Python code (`selected_amount += ...`) to it. -/

namespace Pyc.CoinSel
open Pyc

/-! ## integer sums over lists of UTxOs -/

def sumBy (f : UTxO → Int) (l : List UTxO) : Int := (l.map f).sum

@[simp] theorem sumBy_nil (f : UTxO → Int) : sumBy f [] = 0 := rfl
@[simp] theorem sumBy_cons (f : UTxO → Int) (u : UTxO) (l : List UTxO) : sumBy f (u :: l) = f u + sumBy f l := by
  simp [sumBy]
@[simp] theorem sumBy_append (f : UTxO → Int) (a b : List UTxO) : sumBy f (a ++ b) = sumBy f a + sumBy f b := by
  induction a with
  | nil => simp
  | cons x r ih => simp [ih, Int.add_assoc]

theorem sumBy_perm (f : UTxO → Int) {a b : List UTxO} (h : a.Perm b) : sumBy f a = sumBy f b := by
  induction h with
  | nil => rfl
  | cons x _ ih => simp [ih]
  | swap x y l => simp; omega
  | trans _ _ ih1 ih2 => rw [ih1, ih2]

theorem sumBy_reverse (f : UTxO → Int) (l : List UTxO) : sumBy f l.reverse = sumBy f l :=
  sumBy_perm f (List.reverse_perm l)

theorem sumBy_nonneg (f : UTxO → Int) (l : List UTxO) (h : ∀ u ∈ l, 0 ≤ f u) : 0 ≤ sumBy f l := by
  induction l with
  | nil => simp
  | cons x r ih =>
    simp only [sumBy_cons]
    have := h x (by simp)
    have := ih (fun u hu => h u (by simp [hu]))
    omega

/-- ADA of a UTxO -/
def coinOf (u : UTxO) : Int := u.amount.coin
/-- quantity of asset `(p, n)` in a UTxO -/
def qtyOf (p n : Bytes) (u : UTxO) : Int := Value.qty u.amount p n

/-! ## content-level relations on values -/

/-- component-wise `≤` on contents -/
def Covers (t a : Value) : Prop := t.coin ≤ a.coin ∧ ∀ p n, Value.qty t p n ≤ Value.qty a p n

def NonNegV (v : Value) : Prop := 0 ≤ v.coin ∧ ∀ p n, 0 ≤ Value.qty v p n

theorem Covers.refl (a : Value) : Covers a a := ⟨Int.le_refl _, fun _ _ => Int.le_refl _⟩
theorem Covers.trans {a b c : Value} (h1 : Covers a b) (h2 : Covers b c) : Covers a c :=
  ⟨Int.le_trans h1.1 h2.1, fun p n => Int.le_trans (h1.2 p n) (h2.2 p n)⟩

/-- every entry of a pool: a legal dict (unique keys) holding non-negative quantities -/
def PoolOK (pool : List UTxO) : Prop := ∀ u ∈ pool, Value.WF u.amount ∧ NonNegV u.amount

theorem PoolOK.mono {a b : List UTxO} (h : PoolOK b) (hs : ∀ u ∈ a, u ∈ b) : PoolOK a := fun u hu => h u (hs u hu)

/-- the pool hypothesis with non-negativity made optional: `PoolN True` is `PoolOK`, `PoolN False` asks for legal
dicts only.  The lemmas below are proved once for both; coverage is concluded under `nn` only. -/
def PoolN (nn : Prop) (pool : List UTxO) : Prop := ∀ u ∈ pool, Value.WF u.amount ∧ (nn → NonNegV u.amount)

theorem PoolN.mono {nn : Prop} {a b : List UTxO} (h : PoolN nn b) (hs : ∀ u ∈ a, u ∈ b) : PoolN nn a :=
  fun u hu => h u (hs u hu)
theorem PoolN.ofOK {pool : List UTxO} (h : PoolOK pool) : PoolN True pool := fun u hu => ⟨(h u hu).1, fun _ => (h u hu).2⟩
theorem PoolN.ofWF {pool : List UTxO} (h : ∀ u ∈ pool, Value.WF u.amount) : PoolN False pool :=
  fun u hu => ⟨h u hu, False.elim⟩

/-- coverage, concluded only when non-negativity is assumed -/
def CoversIf (nn : Prop) (t a : Value) : Prop := nn → Covers t a
theorem CoversIf.refl (nn : Prop) (a : Value) : CoversIf nn a a := fun _ => Covers.refl a
theorem CoversIf.trans {nn : Prop} {a b c : Value} (h1 : CoversIf nn a b) (h2 : CoversIf nn b c) : CoversIf nn a c :=
  fun h => (h1 h).trans (h2 h)

/-- `amt` is a legal dict and holds exactly the sum of `sel` -/
def IsSum (sel : List UTxO) (amt : Value) : Prop :=
  Value.WF amt ∧ amt.coin = sumBy coinOf sel ∧ ∀ p n, Value.qty amt p n = sumBy (qtyOf p n) sel

theorem qty_zero (p n : Bytes) : Value.qty ⟨0, []⟩ p n = 0 := by
  simp [Value.qty, MultiAsset.qty, Dict.getD, Asset.qty]

theorem qty_coinOnly (c : Int) (p n : Bytes) : Value.qty ⟨c, []⟩ p n = 0 := by
  simp [Value.qty, MultiAsset.qty, Dict.getD, Asset.qty]

theorem isSum_nil : IsSum [] ⟨0, []⟩ := ⟨MultiAsset.wf_nil, rfl, fun p n => by simp [qty_zero]⟩

theorem wf_add (a b : Value) (ha : Value.WF a) : Value.WF (Value.add a b) := MultiAsset.wf_add _ _ ha
theorem wf_sub (a b : Value) (ha : Value.WF a) : Value.WF (Value.sub a b) := MultiAsset.wf_sub _ _ ha
theorem qty_add (a b : Value) (p n : Bytes) (ha : Value.WF a) (hb : Value.WF b) :
    Value.qty (Value.add a b) p n = Value.qty a p n + Value.qty b p n := MultiAsset.qty_add _ _ p n ha hb
theorem qty_sub (a b : Value) (p n : Bytes) (ha : Value.WF a) (hb : Value.WF b) :
    Value.qty (Value.sub a b) p n = Value.qty a p n - Value.qty b p n := MultiAsset.qty_sub _ _ p n ha hb

theorem isSum_snoc {sel : List UTxO} {amt : Value} (u : UTxO) (h : IsSum sel amt) (hu : Value.WF u.amount) :
    IsSum (sel ++ [u]) (Value.add amt u.amount) := by
  refine ⟨wf_add _ _ h.1, ?_, fun p n => ?_⟩
  · simp [Value.add, h.2.1, coinOf]
  · rw [qty_add _ _ _ _ h.1 hu, h.2.2]; simp [qtyOf]

theorem isSum_addAll {sel : List UTxO} {amt : Value} (l : List UTxO) (h : IsSum sel amt)
    (hl : ∀ u ∈ l, Value.WF u.amount) : IsSum (sel ++ l) (addAll amt l) := by
  induction l generalizing sel amt with
  | nil => simpa [addAll] using h
  | cons x r ih =>
    have := ih (isSum_snoc x h (hl x (by simp))) (fun u hu => hl u (by simp [hu]))
    simpa [addAll] using this

theorem nonneg_of_isSum {sel : List UTxO} {amt : Value} (h : IsSum sel amt)
    (hs : ∀ u ∈ sel, NonNegV u.amount) : NonNegV amt := by
  refine ⟨?_, fun p n => ?_⟩
  · rw [h.2.1]; exact sumBy_nonneg _ _ (fun u hu => (hs u hu).1)
  · rw [h.2.2]; exact sumBy_nonneg _ _ (fun u hu => (hs u hu).2 p n)

theorem covers_add {t a x : Value} (h : Covers t a) (ha : Value.WF a) (hx : Value.WF x) (nx : NonNegV x) :
    Covers t (Value.add a x) := by
  refine ⟨?_, fun p n => ?_⟩
  · have := h.1; have := nx.1; simp only [Value.add]; omega
  · rw [qty_add _ _ _ _ ha hx]; have := h.2 p n; have := nx.2 p n; omega

/-- the sum of a list of UTxOs is non-negative in ADA and in every asset -/
def NonNegSum (l : List UTxO) : Prop := 0 ≤ sumBy coinOf l ∧ ∀ p n, 0 ≤ sumBy (qtyOf p n) l

theorem nonNegSum_nil : NonNegSum [] := ⟨by simp, fun p n => by simp⟩

theorem nonNegSum_of_nonneg {l : List UTxO} (h : ∀ u ∈ l, NonNegV u.amount) : NonNegSum l :=
  ⟨sumBy_nonneg _ _ (fun u hu => (h u hu).1), fun p n => sumBy_nonneg _ _ (fun u hu => (h u hu).2 p n)⟩

theorem covers_of_isSum_append {sel l : List UTxO} {a b : Value} (ha : IsSum sel a) (hb : IsSum (sel ++ l) b)
    (hl : NonNegSum l) : Covers a b := by
  refine ⟨?_, fun p n => ?_⟩
  · rw [ha.2.1, hb.2.1, sumBy_append]
    have := hl.1; omega
  · rw [ha.2.2, hb.2.2, sumBy_append]
    have := hl.2 p n; omega

/-! ## `Value.__le__` is the component-wise order (`Value.le_iff`, C05): no hypothesis on either operand -/

theorem le_iff_covers (t a : Value) : Value.le t a = true ↔ Covers t a := Value.le_iff t a

/-- `t <= a` (Python) implies component-wise coverage -/
theorem le_sound {t a : Value} (h : Value.le t a = true) : Covers t a := (Value.le_iff t a).1 h

/-- component-wise coverage implies `t <= a` (Python) -/
theorem le_complete {t a : Value} (h : Covers t a) : Value.le t a = true := (Value.le_iff t a).2 h

/-! ## the request -/

theorem requestSum_spec (fee : Int) (outputs : List Output) (ho : ∀ o ∈ outputs, Value.WF o.amount) :
    Value.WF (requestSum fee outputs) ∧ MultiAsset.Normal (requestSum fee outputs).ma ∧
    (requestSum fee outputs).coin = fee + (outputs.map (fun o => o.amount.coin)).sum ∧
    ∀ p n, Value.qty (requestSum fee outputs) p n = (outputs.map (fun o => Value.qty o.amount p n)).sum := by
  unfold requestSum
  have gen : ∀ (outs : List Output) (acc : Value), (∀ o ∈ outs, Value.WF o.amount) → Value.WF acc →
      MultiAsset.Normal acc.ma →
      Value.WF (outs.foldl (fun acc o => Value.add acc o.amount) acc) ∧
      MultiAsset.Normal (outs.foldl (fun acc o => Value.add acc o.amount) acc).ma ∧
      (outs.foldl (fun acc o => Value.add acc o.amount) acc).coin = acc.coin + (outs.map (fun o => o.amount.coin)).sum ∧
      ∀ p n, Value.qty (outs.foldl (fun acc o => Value.add acc o.amount) acc) p n
        = Value.qty acc p n + (outs.map (fun o => Value.qty o.amount p n)).sum := by
    intro outs
    induction outs with
    | nil => intro acc _ hw hn; simp [hw, hn]
    | cons o r ih =>
      intro acc ho hw hn
      have := ih (Value.add acc o.amount) (fun x hx => ho x (by simp [hx])) (wf_add _ _ hw)
        (MultiAsset.normal_add _ _)
      refine ⟨this.1, this.2.1, ?_, fun p n => ?_⟩
      · rw [List.foldl_cons, this.2.2.1]; simp only [Value.add, List.map_cons, List.sum_cons]; omega
      · simp only [List.foldl_cons, this.2.2.2 p n, List.map_cons, List.sum_cons]
        rw [qty_add _ _ _ _ hw (ho o (by simp))]; omega
  have := gen outputs ⟨fee, []⟩ ho MultiAsset.wf_nil (by intro p hp; simp at hp)
  refine ⟨this.1, this.2.1, this.2.2.1, fun p n => ?_⟩
  rw [this.2.2.2 p n, qty_coinOnly]; simp

/-! ## the selection invariant -/

/-- `sel` and `rem` are disjoint parts of the pool (by input reference) and `amt` is the sum of `sel` -/
structure Inv (pool rem sel : List UTxO) (amt : Value) : Prop where
  nodup : ((sel ++ rem).map UTxO.ref).Nodup
  sub : ∀ u ∈ sel ++ rem, u ∈ pool
  sum : IsSum sel amt

theorem perm_eraseIdx {α : Type} : ∀ (l : List α) (i : Nat) (u : α), l[i]? = some u → (u :: l.eraseIdx i).Perm l
  | [], i, u, h => by simp at h
  | x :: xs, 0, u, h => by simp at h; subst h; simp
  | x :: xs, i + 1, u, h => by
    simp only [List.getElem?_cons_succ] at h
    simp only [List.eraseIdx_cons_succ]
    exact (List.Perm.swap x u _).trans ((perm_eraseIdx xs i u h).cons x)

theorem Inv.init {pool : List UTxO} (hn : (pool.map UTxO.ref).Nodup) : Inv pool pool [] ⟨0, []⟩ :=
  ⟨by simpa using hn, by simp, isSum_nil⟩

theorem Inv.take {pool rem sel : List UTxO} {amt : Value} (h : Inv pool rem sel amt)
    (hp : ∀ u ∈ pool, Value.WF u.amount) {i : Nat} {u : UTxO} (hi : rem[i]? = some u) :
    Inv pool (rem.eraseIdx i) (sel ++ [u]) (Value.add amt u.amount) := by
  have hperm : ((sel ++ [u]) ++ rem.eraseIdx i).Perm (sel ++ rem) := by
    rw [List.append_assoc]; exact (perm_eraseIdx rem i u hi).append_left sel
  have hu : u ∈ sel ++ rem := List.mem_append_right _ (List.mem_of_getElem? hi)
  exact ⟨(hperm.map _).nodup_iff.2 h.nodup, fun x hx => h.sub x (hperm.subset hx),
    isSum_snoc u h.sum (hp u (h.sub u hu))⟩

theorem Inv.sublist {pool rem rem' sel : List UTxO} {amt : Value} (h : Inv pool rem sel amt)
    (hs : rem'.Sublist rem) : Inv pool rem' sel amt := by
  have hsub : (sel ++ rem').Sublist (sel ++ rem) := (List.Sublist.refl sel).append hs
  exact ⟨(hsub.map _).nodup h.nodup, fun x hx => h.sub x (hsub.subset hx), h.sum⟩

theorem Inv.nonneg {nn : Prop} {pool rem sel : List UTxO} {amt : Value} (h : Inv pool rem sel amt)
    (hp : PoolN nn pool) (hnn : nn) : NonNegV amt :=
  nonneg_of_isSum h.sum (fun u hu => (hp u (h.sub u (List.mem_append_left _ hu))).2 hnn)

theorem Inv.grow {nn : Prop} {pool rem sel : List UTxO} {amt : Value} (h : Inv pool rem sel amt)
    (hp : PoolN nn pool) {u : UTxO} (hu : u ∈ rem) : CoversIf nn amt (Value.add amt u.amount) :=
  fun hnn => covers_add (Covers.refl _) h.sum.1 (hp u (h.sub u (List.mem_append_right _ hu))).1
    ((hp u (h.sub u (List.mem_append_right _ hu))).2 hnn)

/-- what `select` returns is what the property asks for -/
structure Good (nn : Prop) (pool : List UTxO) (total : Value) (sel : List UTxO) (change : Value) : Prop where
  nodup : (sel.map UTxO.ref).Nodup
  sub : ∀ u ∈ sel, u ∈ pool
  coverCoin : nn → total.coin ≤ sumBy coinOf sel
  coverQty : nn → ∀ p n, Value.qty total p n ≤ sumBy (qtyOf p n) sel
  changeCoin : change.coin = sumBy coinOf sel - total.coin
  changeQty : ∀ p n, Value.qty change p n = sumBy (qtyOf p n) sel - Value.qty total p n

/-- first-phase result `sel1` (covering) plus a top-up `sel2` taken from what was left, whose sum is non-negative -/
theorem good_topup {nn : Prop} {pool rem1 sel1 : List UTxO} {amt1 total : Value} (h1 : Inv pool rem1 sel1 amt1)
    (hc : CoversIf nn total amt1) (hp : ∀ u ∈ pool, Value.WF u.amount) (ht : Value.WF total)
    {sel2 : List UTxO} (hn2 : (sel2.map UTxO.ref).Nodup) (hs2 : ∀ u ∈ sel2, u ∈ rem1)
    (h2 : nn → NonNegSum sel2) :
    Good nn pool total (sel1 ++ sel2) (Value.sub (addAll amt1 sel2) total) := by
  have hin : ∀ u ∈ sel2, u ∈ pool := fun u hu => h1.sub u (List.mem_append_right _ (hs2 u hu))
  have hsum := isSum_addAll sel2 h1.sum (fun u hu => hp u (hin u hu))
  have hcov : CoversIf nn total (addAll amt1 sel2) := fun hnn =>
    (hc hnn).trans (covers_of_isSum_append h1.sum hsum (h2 hnn))
  have hnd := h1.nodup
  rw [List.map_append, List.nodup_append] at hnd
  refine ⟨?_, ?_, ?_, ?_, ?_, ?_⟩
  · rw [List.map_append, List.nodup_append]
    refine ⟨hnd.1, hn2, ?_⟩
    intro a ha b hb
    obtain ⟨v, hv, rfl⟩ := List.mem_map.1 hb
    exact hnd.2.2 a ha _ (List.mem_map.2 ⟨v, hs2 v hv, rfl⟩)
  · intro u hu
    rcases List.mem_append.1 hu with h | h
    · exact h1.sub u (List.mem_append_left _ h)
    · exact hin u h
  · intro hnn; rw [← hsum.2.1]; exact (hcov hnn).1
  · intro hnn p n; rw [← hsum.2.2]; exact (hcov hnn).2 p n
  · simp only [Value.sub]; rw [hsum.2.1]
  · intro p n; rw [qty_sub _ _ _ _ hsum.1 ht, hsum.2.2]

theorem good_plain {nn : Prop} {pool rem1 sel1 : List UTxO} {amt1 total : Value} (h1 : Inv pool rem1 sel1 amt1)
    (hc : CoversIf nn total amt1) (hp : ∀ u ∈ pool, Value.WF u.amount) (ht : Value.WF total) :
    Good nn pool total sel1 (Value.sub amt1 total) := by
  have := good_topup h1 hc hp ht (sel2 := []) (by simp) (by simp) (fun _ => nonNegSum_nil)
  simpa [addAll] using this

/-! ## LargestFirstSelector -/

theorem insertAsc_perm (x : UTxO) : ∀ l, (insertAsc x l).Perm (x :: l)
  | [] => List.Perm.refl _
  | y :: ys => by
    simp only [insertAsc]
    split
    · exact ((insertAsc_perm x ys).cons y).trans (List.Perm.swap x y ys)
    · exact List.Perm.refl _

theorem sortAsc_perm : ∀ l, (sortAsc l).Perm l
  | [] => List.Perm.refl _
  | x :: r => by
    simp only [sortAsc, List.foldr_cons]
    exact (insertAsc_perm x _).trans ((sortAsc_perm r).cons x)

theorem sortedRev_perm (l : List UTxO) : ((sortAsc l).reverse).Perm l :=
  (List.reverse_perm _).trans (sortAsc_perm l)

theorem lfLoop_ok {pool : List UTxO} (hp : ∀ u ∈ pool, Value.WF u.amount) (total : Value) (limit : Option Int) :
    ∀ (avail sel : List UTxO) (amt : Value) (s : LfState), Inv pool avail sel amt →
      lfLoop total limit avail sel amt = .ok s →
      Inv pool s.avail s.sel s.amt ∧ Value.le total s.amt = true ∧
        ∃ ext, s.sel = sel ++ ext ∧ avail = ext ++ s.avail := by
  intro avail
  induction avail with
  | nil =>
    intro sel amt s hinv h
    simp only [lfLoop] at h
    split at h
    · next hle => cases h; exact ⟨hinv, hle, [], by simp, by simp⟩
    · cases h
  | cons u rest ih =>
    intro sel amt s hinv h
    simp only [lfLoop] at h
    split at h
    · next hle => cases h; exact ⟨hinv, hle, [], by simp, by simp⟩
    · split at h
      · cases h
      · have hinv' := hinv.take hp (i := 0) (u := u) (by simp)
        simp only [List.eraseIdx_zero, List.tail_cons] at hinv'
        obtain ⟨h1, h2, ext, h3, h4⟩ := ih _ _ _ hinv' h
        exact ⟨h1, h2, u :: ext, by simp [h3], by simp [h4]⟩

/-- the loop appends, then tests `len(selected) > max_input_count`: it never returns more than `l` inputs -/
theorem lfLoop_limit (total : Value) (l : Int) :
    ∀ (avail sel : List UTxO) (amt : Value) (s : LfState), lfLoop total (some l) avail sel amt = .ok s →
      (sel.length : Int) ≤ l → (s.sel.length : Int) ≤ l := by
  intro avail
  induction avail with
  | nil =>
    intro sel amt s h hlen
    simp only [lfLoop] at h
    split at h
    · cases h; exact hlen
    · cases h
  | cons u rest ih =>
    intro sel amt s h hlen
    simp only [lfLoop] at h
    split at h
    · cases h; exact hlen
    · split at h
      · cases h
      · next hov =>
        apply ih _ _ _ h
        simp only [overLimit, decide_eq_true_eq] at hov
        simp only [List.length_append, List.length_cons, List.length_nil]
        omega

theorem lfBase_limit (fee : Int) (pool : List UTxO) (outputs : List Output) (l : Int) (hl : 0 ≤ l) (s : LfState)
    (h : lfBase fee pool outputs (some l) = .ok s) : (s.sel.length : Int) ≤ l := by
  unfold lfBase at h
  exact lfLoop_limit _ l _ _ _ _ h (by simpa using hl)

theorem lfLoop_insufficient (total : Value) (limit : Option Int) :
    ∀ (avail sel : List UTxO) (amt : Value), lfLoop total limit avail sel amt = .error .insufficient →
      IsSum sel amt → (∀ u ∈ avail, Value.WF u.amount) →
      ∃ amt', IsSum (sel ++ avail) amt' ∧ Value.le total amt' = false := by
  intro avail
  induction avail with
  | nil =>
    intro sel amt h hs _
    simp only [lfLoop] at h
    split at h
    · cases h
    · next hle => exact ⟨amt, by simpa using hs, by simpa using hle⟩
  | cons u rest ih =>
    intro sel amt h hs hw
    simp only [lfLoop] at h
    split at h
    · cases h
    · split at h
      · cases h
      · obtain ⟨amt', h1, h2⟩ := ih _ _ h (isSum_snoc u hs (hw u (by simp))) (fun x hx => hw x (by simp [hx]))
        exact ⟨amt', by simpa using h1, h2⟩

/-- without non-negativity: everything but coverage -/
theorem lfBase_inv {pool : List UTxO} (hp : ∀ u ∈ pool, Value.WF u.amount) (hn : (pool.map UTxO.ref).Nodup)
    (fee : Int) (outputs : List Output) (limit : Option Int) (s : LfState)
    (h : lfBase fee pool outputs limit = .ok s) :
    Inv pool s.avail s.sel s.amt ∧ Value.le (requestSum fee outputs) s.amt = true ∧
      (s.sel ++ s.avail).Perm pool := by
  unfold lfBase at h
  have hperm := sortedRev_perm pool
  have hinv0 : Inv pool (sortAsc pool).reverse [] ⟨0, []⟩ :=
    ⟨by simpa using (hperm.map UTxO.ref).nodup_iff.2 hn, fun u hu => hperm.subset (by simpa using hu), isSum_nil⟩
  obtain ⟨h1, h2, ext, h3, h4⟩ := lfLoop_ok hp _ _ _ _ _ _ hinv0 h
  refine ⟨h1, h2, ?_⟩
  simp only [List.nil_append] at h3
  rw [h3, ← h4]; exact hperm

/-- the first phase of largest-first ends only when `total_requested <= selected_amount`, which is component-wise
coverage whatever the pool holds -/
theorem lfBase_ok {pool : List UTxO} (hp : ∀ u ∈ pool, Value.WF u.amount) (hn : (pool.map UTxO.ref).Nodup) (fee : Int)
    (outputs : List Output) (limit : Option Int) (s : LfState)
    (h : lfBase fee pool outputs limit = .ok s) :
    Inv pool s.avail s.sel s.amt ∧ Covers (requestSum fee outputs) s.amt ∧
      (s.sel ++ s.avail).Perm pool := by
  obtain ⟨h1, h2, h3⟩ := lfBase_inv hp hn fee outputs limit s h
  exact ⟨h1, le_sound h2, h3⟩

theorem requestSum_topUp (env : Env) (x : Int) : requestSum 0 [topUpOutput env x] = ⟨0 + x, []⟩ := rfl

/-- covering an ADA-only request: enough ADA, and no negative quantity of any asset -/
theorem covers_coinOnly (x : Int) (a : Value) : Covers ⟨x, []⟩ a ↔ x ≤ a.coin ∧ ∀ p n, 0 ≤ Value.qty a p n := by
  simp only [Covers, qty_coinOnly]

theorem wf_topUp (env : Env) (x : Int) : ∀ o ∈ [topUpOutput env x], Value.WF o.amount := by
  intro o ho
  simp only [List.mem_singleton] at ho
  subst ho
  exact MultiAsset.wf_nil

/-- `LargestFirstSelector.select` returns a covering sub-multiset of the pool and the exact change — coverage
included for every pool of legal dicts: both loops end on the component-wise `<=`, and the top-up's `<=` against an
ADA-only request also demands that the inputs it adds hold no net negative quantity -/
theorem lfSelect_ok {pool : List UTxO} (hp : ∀ u ∈ pool, Value.WF u.amount) (hn : (pool.map UTxO.ref).Nodup) (env : Env)
    (outputs : List Output) (ho : ∀ o ∈ outputs, Value.WF o.amount) (limit : Option Int)
    (includeFee respectMin : Bool) (sel : List UTxO) (change : Value)
    (h : lfSelect env pool outputs limit includeFee respectMin = .ok (sel, change)) :
    ∃ f, feeOf env includeFee = some f ∧ Good True pool (requestSum f outputs) sel change := by
  unfold lfSelect at h
  cases hf : feeOf env includeFee with
  | none => simp [hf] at h
  | some f =>
    simp only [hf] at h
    refine ⟨f, rfl, ?_⟩
    have ht := (requestSum_spec f outputs ho).1
    cases hb : lfBase f pool outputs limit with
    | error e => simp [hb] at h
    | ok s =>
      simp only [hb] at h
      obtain ⟨hinv, hcov0, _⟩ := lfBase_ok hp hn f outputs limit s hb
      have hcov : CoversIf True (requestSum f outputs) s.amt := fun _ => hcov0
      split at h
      · split at h
        · cases h
        · next mc hmc =>
          split at h
          · next hlt =>
            split at h
            · cases h
            · next s2 hb2 =>
              cases h
              have hsubp : ∀ u ∈ s.avail.reverse, u ∈ pool :=
                fun u hu => hinv.sub u (List.mem_append_right _ (List.mem_reverse.1 hu))
              have hnd := hinv.nodup
              rw [List.map_append, List.nodup_append] at hnd
              have hn2 : (s.avail.reverse.map UTxO.ref).Nodup := by
                rw [List.map_reverse]; exact (List.reverse_perm _).nodup_iff.2 hnd.2.1
              obtain ⟨hinv2, hcov2, _⟩ := lfBase_ok (fun u hu => hp u (hsubp u hu)) hn2 0 _ _ s2 hb2
              rw [requestSum_topUp, covers_coinOnly] at hcov2
              have hnd2 := hinv2.nodup
              rw [List.map_append, List.nodup_append] at hnd2
              have hnn2 : NonNegSum s2.sel := by
                refine ⟨?_, fun p n => ?_⟩
                · rw [← hinv2.sum.2.1]; have := hcov2.1; omega
                · rw [← hinv2.sum.2.2]; exact hcov2.2 p n
              exact good_topup hinv hcov hp ht hnd2.1
                (fun u hu => List.mem_reverse.1 (hinv2.sub u (List.mem_append_left _ hu))) (fun _ => hnn2)
          · cases h; exact good_plain hinv hcov hp ht
      · cases h; exact good_plain hinv hcov hp ht

/-- `LargestFirstSelector.select` never returns more inputs than the limit, the min-change top-up included: the
top-up is given the remaining budget `l - len(selected)` (≥ 0) and keeps to it -/
theorem lfSelect_limit (env : Env) (pool : List UTxO) (outputs : List Output) (l : Int) (hl : 0 ≤ l)
    (includeFee respectMin : Bool) (sel : List UTxO) (change : Value)
    (h : lfSelect env pool outputs (some l) includeFee respectMin = .ok (sel, change)) :
    (sel.length : Int) ≤ l := by
  unfold lfSelect at h
  cases hf : feeOf env includeFee with
  | none => simp [hf] at h
  | some f =>
    simp only [hf] at h
    cases hb : lfBase f pool outputs (some l) with
    | error e => simp [hb] at h
    | ok s =>
      simp only [hb] at h
      have h1 : (s.sel.length : Int) ≤ l := lfBase_limit f pool outputs l hl s hb
      split at h
      · split at h
        · cases h
        · split at h
          · split at h
            · cases h
            · next mc _ s2 hb2 =>
              cases h
              simp only [topUpLimit] at hb2
              have := lfBase_limit _ _ _ (l - (s.sel.length : Int)) (by omega) s2 hb2
              simp only [List.length_append]; omega
          · cases h; exact h1
      · cases h; exact h1

/-- when largest-first reports an insufficient balance the pool cannot cover the request — or, in min-change
mode, what the first phase left cannot cover the ADA-only top-up request (request + minimum change of the first-phase
selection not reached by the pool's ADA, or a net negative quantity of some asset in what was left) -/
theorem lfSelect_insufficient {pool : List UTxO} (hw : ∀ u ∈ pool, Value.WF u.amount)
    (hn : (pool.map UTxO.ref).Nodup) (env : Env) (outputs : List Output) (limit : Option Int)
    (includeFee respectMin : Bool)
    (h : lfSelect env pool outputs limit includeFee respectMin = .error .insufficient) :
    ∃ f, feeOf env includeFee = some f ∧
      (¬ ((requestSum f outputs).coin ≤ sumBy coinOf pool ∧
          ∀ p n, Value.qty (requestSum f outputs) p n ≤ sumBy (qtyOf p n) pool) ∨
       (respectMin = true ∧ ∃ s mc, lfBase f pool outputs limit = .ok s ∧
          env.minChange (Value.sub s.amt (requestSum f outputs)) = some mc ∧
          ¬ ((requestSum f outputs).coin + mc ≤ sumBy coinOf pool ∧ ∀ p n, 0 ≤ sumBy (qtyOf p n) s.avail))) := by
  unfold lfSelect at h
  cases hf : feeOf env includeFee with
  | none => simp [hf] at h
  | some f =>
    simp only [hf] at h
    refine ⟨f, rfl, ?_⟩
    cases hb : lfBase f pool outputs limit with
    | error e =>
      simp only [hb] at h
      cases h
      left
      unfold lfBase at hb
      have hperm := sortedRev_perm pool
      obtain ⟨amt', h1, h2⟩ := lfLoop_insufficient _ _ _ _ _ hb isSum_nil
        (fun u hu => hw u (hperm.subset hu))
      intro hc
      have : Covers (requestSum f outputs) amt' := by
        refine ⟨?_, fun p n => ?_⟩
        · rw [h1.2.1, List.nil_append, sumBy_perm _ hperm]; exact hc.1
        · rw [h1.2.2, List.nil_append, sumBy_perm _ hperm]; exact hc.2 p n
      have := le_complete this
      rw [this] at h2; cases h2
    | ok s =>
      simp only [hb] at h
      obtain ⟨hinv, _, hperm⟩ := lfBase_inv hw hn f outputs limit s hb
      split at h
      · next hmin =>
        split at h
        · cases h
        · next mc hmc =>
          split at h
          · split at h
            · next e hb2 =>
              cases h
              right
              refine ⟨hmin, s, mc, rfl, hmc, ?_⟩
              unfold lfBase at hb2
              have hperm2 := sortedRev_perm s.avail.reverse
              obtain ⟨amt', h1, h2⟩ := lfLoop_insufficient _ _ _ _ _ hb2 isSum_nil
                (fun u hu => hw u (hinv.sub u (List.mem_append_right _
                  (List.mem_reverse.1 (hperm2.subset hu)))))
              rw [requestSum_topUp] at h2
              intro hc
              have e1 : sumBy coinOf pool = sumBy coinOf s.sel + sumBy coinOf s.avail := by
                rw [← sumBy_perm coinOf hperm, sumBy_append]
              have e2 : (Value.sub s.amt (requestSum f outputs)).coin
                  = sumBy coinOf s.sel - (requestSum f outputs).coin := by
                simp only [Value.sub]; rw [hinv.sum.2.1]
              have : Value.le ⟨0 + (mc - (Value.sub s.amt (requestSum f outputs)).coin), []⟩ amt' = true := by
                apply le_complete
                rw [covers_coinOnly]
                refine ⟨?_, fun p n => ?_⟩
                · rw [h1.2.1, List.nil_append, sumBy_perm _ hperm2, sumBy_reverse, e2]
                  have := hc.1; omega
                · rw [h1.2.2, List.nil_append, sumBy_perm _ hperm2, sumBy_reverse]; exact hc.2 p n
              rw [this] at h2; cases h2
            · cases h
          · cases h
      · cases h

/-! ## bridges used by the property statements -/

theorem nodup_of_map {α β : Type} (f : α → β) : ∀ l : List α, (l.map f).Nodup → l.Nodup
  | [], _ => List.nodup_nil
  | a :: t, h => by
    simp only [List.map_cons, List.nodup_cons] at h ⊢
    exact ⟨fun ha => h.1 (List.mem_map.2 ⟨a, ha, rfl⟩), nodup_of_map f t h.2⟩

/-- distinct elements of `m` form a sub-multiset of `m` -/
theorem subperm_of_nodup_subset {α : Type} : ∀ (l m : List α), l.Nodup → (∀ x ∈ l, x ∈ m) →
    ∃ rest, (l ++ rest).Perm m
  | [], m, _, _ => ⟨m, List.Perm.refl _⟩
  | a :: t, m, hn, hs => by
    obtain ⟨s, t', rfl⟩ := List.append_of_mem (hs a (by simp))
    rw [List.nodup_cons] at hn
    have hsub : ∀ x ∈ t, x ∈ s ++ t' := by
      intro x hx
      have hxa : x ≠ a := fun e => hn.1 (e ▸ hx)
      have := hs x (by simp [hx])
      simp only [List.mem_append, List.mem_cons] at this ⊢
      rcases this with h | h | h
      · exact Or.inl h
      · exact absurd h hxa
      · exact Or.inr h
    obtain ⟨rest, hr⟩ := subperm_of_nodup_subset t (s ++ t') hn.2 hsub
    exact ⟨rest, ((hr.cons a).trans (List.perm_middle.symm))⟩

open Dict in
/-- stored non-negative quantities (decidable) give non-negative content -/
theorem nonneg_content (b : MultiAsset) (hb : MultiAsset.WF b) (pb : MultiAsset.NonNeg b) :
    ∀ p n, 0 ≤ MultiAsset.qty b p n := by
  intro p n
  cases hh : has b p with
  | false => simp [MultiAsset.qty_of_not_has _ _ _ hh]
  | true =>
    have hm := MultiAsset.mem_getD b p hb hh
    cases hn : has (getD b p []) n with
    | false => simp [MultiAsset.qty, Asset.qty, has_false_getD _ _ _ hn]
    | true =>
      exact pb _ hm (n, getD (getD b p []) n 0) ((mem_iff_getD _ n _ 0 (hb.2 _ hm)).2 ⟨hn, rfl⟩)

instance (m : MultiAsset) : Decidable (MultiAsset.NonNeg m) := by unfold MultiAsset.NonNeg; infer_instance

/-- decidable form of the pool hypothesis -/
def PoolStored (pool : List UTxO) : Prop :=
  ∀ u ∈ pool, Value.WF u.amount ∧ 0 ≤ u.amount.coin ∧ MultiAsset.NonNeg u.amount.ma

instance (pool : List UTxO) : Decidable (PoolStored pool) := by unfold PoolStored; infer_instance

theorem poolOK_of_stored {pool : List UTxO} (h : PoolStored pool) : PoolOK pool :=
  fun u hu => ⟨(h u hu).1, (h u hu).2.1, nonneg_content _ (h u hu).1 (h u hu).2.2⟩

/-- the error of a result -/
def errOf : Except SelErr (List UTxO × Value) → Option SelErr
  | .error e => some e
  | .ok _ => none

/-- number of inputs of a result (0 for an error) -/
def selLen : Except SelErr (List UTxO × Value) → Nat
  | .ok (s, _) => s.length
  | .error _ => 0

/-! ## RandomImproveMultiAsset -/

theorem nextRandom_ok {rem : List UTxO} {st st' : List Nat} {i : Nat} {u : UTxO}
    (h : nextRandom rem st = .ok i u st') : rem[i]? = some u := by
  unfold nextRandom at h
  split at h
  · cases h
  · split at h
    · cases h
    · split at h
      · cases h
      · split at h
        · cases h
        · next hu => cases h; exact hu

theorem nextRandom_err_ne_fuel {rem : List UTxO} {st st' : List Nat} {e : SelErr}
    (h : nextRandom rem st = .err e st') : e ≠ .fuel := by
  unfold nextRandom at h
  split at h
  · cases h; decide
  · split at h
    · cases h; decide
    · split at h
      · cases h; decide
      · split at h
        · cases h; decide
        · cases h

theorem subsetLoop_ok {nn : Prop} {pool : List UTxO} (hp : PoolN nn pool) (r : Value) :
    ∀ (fuel : Nat) (s s' : St), Inv pool s.rem s.sel s.amt → subsetLoop r fuel s = .ok s' →
      Inv pool s'.rem s'.sel s'.amt ∧ CoversIf nn s.amt s'.amt ∧ Value.le r s'.amt = true := by
  intro fuel
  induction fuel with
  | zero => intro s s' _ h; simp [subsetLoop] at h
  | succ k ih =>
    intro s s' hinv h
    simp only [subsetLoop] at h
    split at h
    · next hle => cases h; exact ⟨hinv, CoversIf.refl _ _, hle⟩
    · split at h
      · cases h
      · next i u rest hd =>
        have hi := nextRandom_ok hd
        have hinv' := hinv.take (fun u hu => (hp u hu).1) hi
        obtain ⟨h1, h2, h3⟩ := ih _ _ hinv' h
        exact ⟨h1, (hinv.grow hp (List.mem_of_getElem? hi)).trans h2, h3⟩

theorem phase1_ok {nn : Prop} {pool : List UTxO} (hp : PoolN nn pool) (limit : Option Int) :
    ∀ (rs : List Value) (s s' : St), Inv pool s.rem s.sel s.amt → phase1 limit rs s = .ok s' →
      Inv pool s'.rem s'.sel s'.amt ∧ CoversIf nn s.amt s'.amt ∧ ∀ r ∈ rs, CoversIf nn r s'.amt := by
  intro rs
  induction rs with
  | nil => intro s s' hinv h; simp only [phase1] at h; cases h; exact ⟨hinv, CoversIf.refl _ _, by simp⟩
  | cons r rs ih =>
    intro s s' hinv h
    simp only [phase1] at h
    split at h
    · cases h
    · next s1 hs1 =>
      split at h
      · cases h
      · obtain ⟨a1, a2, a3⟩ := subsetLoop_ok hp r _ _ _ hinv hs1
        obtain ⟨b1, b2, b3⟩ := ih _ _ a1 h
        refine ⟨b1, a2.trans b2, ?_⟩
        intro x hx
        rcases List.mem_cons.1 hx with rfl | hx
        · exact CoversIf.trans (fun _ => le_sound a3) b2
        · exact b3 x hx

theorem improveStep_next {limit : Option Int} {ideal upper : Value} {rem sel : List UTxO} {amt : Value}
    {st st' : List Nat} {i : Nat} {u : UTxO} {take : Bool}
    (h : improveStep limit ideal upper rem sel amt st = .next i u take st') :
    rem[i]? = some u ∧ atLimit limit sel.length = false := by
  unfold improveStep at h
  split at h
  · cases h
  · split at h
    · cases h
    · split at h
      · cases h
      · split at h
        · cases h
        · next hov =>
          split at h
          · cases h
          · cases h
          · next i' u' st'' hd =>
            have hi := nextRandom_ok hd
            simp only at h
            split at h
            · cases h
            · split at h
              · split at h
                · cases h
                · cases h; exact ⟨hi, by simpa using hov⟩
              · cases h; exact ⟨hi, by simpa using hov⟩

theorem improveStep_stop_ne_fuel {limit : Option Int} {ideal upper : Value} {rem sel : List UTxO} {amt : Value}
    {st st' : List Nat} {x : Stop} (h : improveStep limit ideal upper rem sel amt st = .stop x st') :
    x ≠ .fuel := by
  unfold improveStep at h
  split at h
  · cases h; decide
  · split at h
    · cases h; decide
    · split at h
      · cases h; decide
      · split at h
        · cases h; decide
        · split at h
          · cases h; decide
          · cases h; decide
          · simp only at h
            split at h
            · cases h; decide
            · split at h
              · split at h
                · cases h; decide
                · cases h
              · cases h

theorem improve_ok {nn : Prop} {pool : List UTxO} (hp : PoolN nn pool) (limit : Option Int) (ideal upper : Value) :
    ∀ (fuel : Nat) (rem sel : List UTxO) (amt : Value) (st : List Nat), Inv pool rem sel amt →
      (∃ rem', Inv pool rem' (improve limit ideal upper fuel rem sel amt st).sel
        (improve limit ideal upper fuel rem sel amt st).amt) ∧
      CoversIf nn amt (improve limit ideal upper fuel rem sel amt st).amt ∧
      ∃ ext, (improve limit ideal upper fuel rem sel amt st).sel = sel ++ ext := by
  intro fuel
  induction fuel with
  | zero => intro rem sel amt st hinv; exact ⟨⟨rem, hinv⟩, CoversIf.refl _ _, [], by simp [improve]⟩
  | succ k ih =>
    intro rem sel amt st hinv
    simp only [improve]
    split
    · exact ⟨⟨rem, hinv⟩, CoversIf.refl _ _, [], by simp⟩
    · next i u take st' hs =>
      have hi := (improveStep_next hs).1
      split
      · have hinv' := hinv.take (fun u hu => (hp u hu).1) hi
        obtain ⟨h1, h2, ext, h3⟩ := ih (rem.eraseIdx i) (sel ++ [u]) (Value.add amt u.amount) st' hinv'
        exact ⟨h1, (hinv.grow hp (List.mem_of_getElem? hi)).trans h2, u :: ext, by simp [h3]⟩
      · exact ih (rem.eraseIdx i) sel amt st' (hinv.sublist (List.eraseIdx_sublist _ _))

theorem inv_dropSelected {pool rem rem' sel ext : List UTxO} {amt amt' : Value} (h : Inv pool rem sel amt)
    (h' : Inv pool rem' (sel ++ ext) amt') : Inv pool (dropSelected rem ext) (sel ++ ext) amt' := by
  have hnd := h.nodup
  rw [List.map_append, List.nodup_append] at hnd
  have hnd' := h'.nodup
  rw [List.map_append, List.nodup_append] at hnd'
  have hsub : (dropSelected rem ext).Sublist rem := List.filter_sublist
  refine ⟨?_, ?_, h'.sum⟩
  · rw [List.map_append, List.nodup_append]
    refine ⟨hnd'.1, (hsub.map _).nodup hnd.2.1, ?_⟩
    intro a ha b hb
    obtain ⟨ua, hua, rfl⟩ := List.mem_map.1 ha
    obtain ⟨ub, hub, rfl⟩ := List.mem_map.1 hb
    simp only [dropSelected, List.mem_filter, Bool.not_eq_true', List.any_eq_false, beq_iff_eq] at hub
    rcases List.mem_append.1 hua with hs | he
    · exact hnd.2.2 _ (List.mem_map.2 ⟨ua, hs, rfl⟩) _ (List.mem_map.2 ⟨ub, hub.1, rfl⟩)
    · exact hub.2 ua he
  · intro x hx
    rcases List.mem_append.1 hx with hs | hr
    · exact h'.sub x (List.mem_append_left _ hs)
    · exact h.sub x (List.mem_append_right _ (hsub.subset hr))

theorem phase2_ok {nn : Prop} {pool : List UTxO} (hp : PoolN nn pool) (limit : Option Int) :
    ∀ (rs : List Value) (s s' : St), Inv pool s.rem s.sel s.amt → phase2 limit rs s = .ok s' →
      Inv pool s'.rem s'.sel s'.amt ∧ CoversIf nn s.amt s'.amt := by
  intro rs
  induction rs with
  | nil => intro s s' hinv h; simp only [phase2] at h; cases h; exact ⟨hinv, CoversIf.refl _ _⟩
  | cons r rs ih =>
    intro s s' hinv h
    simp only [phase2] at h
    obtain ⟨⟨rem', a1⟩, a2, ext, a3⟩ := improve_ok hp limit (Value.add r r) (Value.add (Value.add r r) r)
      (s.rem.length + 1) s.rem s.sel s.amt s.stream hinv
    have hinv' : Inv pool (dropSelected s.rem ((improve limit (Value.add r r) (Value.add (Value.add r r) r)
        (s.rem.length + 1) s.rem s.sel s.amt s.stream).sel.drop s.sel.length))
        (improve limit (Value.add r r) (Value.add (Value.add r r) r) (s.rem.length + 1) s.rem s.sel s.amt s.stream).sel
        (improve limit (Value.add r r) (Value.add (Value.add r r) r) (s.rem.length + 1) s.rem s.sel s.amt s.stream).amt := by
      rw [a3] at a1 ⊢
      simp only [List.drop_left]
      exact inv_dropSelected hinv a1
    split at h
    · cases h
    · cases h
    · obtain ⟨b1, b2⟩ := ih _ _ hinv' h
      exact ⟨b1, a2.trans b2⟩

theorem insertDesc_perm (x : Value) : ∀ l, (insertDesc x l).Perm (x :: l)
  | [] => List.Perm.refl _
  | y :: ys => by
    simp only [insertDesc]
    split
    · exact ((insertDesc_perm x ys).cons y).trans (List.Perm.swap x y ys)
    · exact List.Perm.refl _

theorem sortDesc_perm : ∀ l, (sortDesc l).Perm l
  | [] => List.Perm.refl _
  | x :: r => by
    simp only [sortDesc, List.foldr_cons]
    exact (insertDesc_perm x _).trans ((sortDesc_perm r).cons x)

open Dict in
theorem covers_of_split (t a : Value) (ht : Value.WF t) (na : NonNegV a)
    (h : ∀ r ∈ splitByAsset t, Covers r a) : Covers t a := by
  refine ⟨?_, fun p n => ?_⟩
  · by_cases hc : t.coin = 0
    · rw [hc]; exact na.1
    · have : (⟨t.coin, []⟩ : Value) ∈ splitByAsset t := by simp [splitByAsset, hc]
      exact (h _ this).1
  · by_cases hq : Value.qty t p n = 0
    · rw [hq]; exact na.2 p n
    · have hhas : has t.ma p = true := by
        cases hh : has t.ma p with
        | true => rfl
        | false => exact absurd (MultiAsset.qty_of_not_has _ _ n hh) hq
      have hm := MultiAsset.mem_getD t.ma p ht hhas
      have hq' : Asset.qty (getD t.ma p []) n ≠ 0 := hq
      have hn := Asset.has_of_qty_ne _ n hq'
      have hmn : (n, getD (getD t.ma p []) n 0) ∈ getD t.ma p [] :=
        (mem_iff_getD _ n _ 0 (ht.2 _ hm)).2 ⟨hn, rfl⟩
      have hmem : (⟨0, [(p, [(n, getD (getD t.ma p []) n 0)])]⟩ : Value) ∈ splitByAsset t := by
        simp only [splitByAsset, List.mem_append, List.mem_flatMap, List.mem_map, List.mem_filter]
        right
        exact ⟨_, hm, _, ⟨hmn, by simpa [Asset.qty] using hq'⟩, rfl⟩
      have := (h _ hmem).2 p n
      have e : Value.qty ⟨0, [(p, [(n, getD (getD t.ma p []) n 0)])]⟩ p n = Value.qty t p n := by
        simp [Value.qty, MultiAsset.qty, Dict.getD, Asset.qty]
      rw [e] at this
      exact this

theorem riBase_ok {nn : Prop} {pool : List UTxO} (hp : PoolN nn pool) (hn : (pool.map UTxO.ref).Nodup) (fee : Int)
    (outputs : List Output) (ho : ∀ o ∈ outputs, Value.WF o.amount) (limit : Option Int) (stream : List Nat)
    (s : St) (h : riBase fee pool outputs limit stream = .ok s) :
    Inv pool s.rem s.sel s.amt ∧ CoversIf nn (requestSum fee outputs) s.amt := by
  unfold riBase at h
  simp only at h
  split at h
  · cases h
  · next s1 h1 =>
    obtain ⟨a1, _, a3⟩ := phase1_ok hp limit _ _ _ (Inv.init hn) h1
    obtain ⟨b1, b2⟩ := phase2_ok hp limit _ _ _ a1 h
    refine ⟨b1, fun hnn => covers_of_split _ _ (requestSum_spec fee outputs ho).1 (b1.nonneg hp hnn) ?_⟩
    intro r hr
    exact ((a3 r ((sortDesc_perm _).mem_iff.2 hr)).trans b2) hnn

/-- `RandomImproveMultiAsset.select` returns a covering sub-multiset of the pool and the exact change, whatever
the random choices -/
theorem riSelect_ok {nn : Prop} {pool : List UTxO} (hp : PoolN nn pool) (hn : (pool.map UTxO.ref).Nodup) (env : Env)
    (outputs : List Output) (ho : ∀ o ∈ outputs, Value.WF o.amount) (limit : Option Int)
    (includeFee respectMin : Bool) (stream : List Nat) (sel : List UTxO) (change : Value)
    (h : riSelect env pool outputs limit includeFee respectMin stream = .ok (sel, change)) :
    ∃ f, feeOf env includeFee = some f ∧ Good nn pool (requestSum f outputs) sel change := by
  unfold riSelect at h
  cases hf : feeOf env includeFee with
  | none => simp [hf] at h
  | some f =>
    simp only [hf] at h
    refine ⟨f, rfl, ?_⟩
    have ht := (requestSum_spec f outputs ho).1
    cases hb : riBase f pool outputs limit stream with
    | error e => simp [hb] at h
    | ok s =>
      simp only [hb] at h
      obtain ⟨hinv, hcov⟩ := riBase_ok hp hn f outputs ho limit stream s hb
      split at h
      · split at h
        · cases h
        · split at h
          · split at h
            · cases h
            · next mc _ s2 hb2 =>
              cases h
              have hsubp : ∀ u ∈ s.rem, u ∈ pool := fun u hu => hinv.sub u (List.mem_append_right _ hu)
              have hnd := hinv.nodup
              rw [List.map_append, List.nodup_append] at hnd
              obtain ⟨hinv2, _⟩ := riBase_ok (hp.mono hsubp) hnd.2.1 0 _ (wf_topUp env _) _ _ s2 hb2
              have hnd2 := hinv2.nodup
              rw [List.map_append, List.nodup_append] at hnd2
              have hsub2 : ∀ u ∈ s2.sel, u ∈ s.rem := fun u hu => hinv2.sub u (List.mem_append_left _ hu)
              exact good_topup hinv hcov (fun u hu => (hp u hu).1) ht hnd2.1 hsub2
                (fun hnn => nonNegSum_of_nonneg (fun u hu => (hp u (hsubp u (hsub2 u hu))).2 hnn))
          · cases h; exact good_plain hinv hcov (fun u hu => (hp u hu).1) ht
      · cases h; exact good_plain hinv hcov (fun u hu => (hp u hu).1) ht

/-! ### termination: the recursion budgets of the model are never exhausted -/

theorem length_eraseIdx_of_get {α : Type} {l : List α} {i : Nat} {u : α} (h : l[i]? = some u) :
    (l.eraseIdx i).length + 1 = l.length := by
  have hi : i < l.length := by
    rcases Nat.lt_or_ge i l.length with h' | h'
    · exact h'
    · rw [List.getElem?_eq_none h'] at h; cases h
  rw [List.length_eraseIdx, if_pos hi]; omega

theorem subsetLoop_fuel (r : Value) : ∀ (fuel : Nat) (s : St), s.rem.length < fuel →
    subsetLoop r fuel s ≠ .error .fuel := by
  intro fuel
  induction fuel with
  | zero => intro s h; omega
  | succ k ih =>
    intro s hlen
    simp only [subsetLoop]
    split
    · simp
    · split
      · next e _ hd => intro hc; cases hc; exact nextRandom_err_ne_fuel hd rfl
      · next i u rest hd =>
        apply ih
        have := length_eraseIdx_of_get (nextRandom_ok hd)
        simp only; omega

theorem improve_fuel (limit : Option Int) (ideal upper : Value) :
    ∀ (fuel : Nat) (rem sel : List UTxO) (amt : Value) (st : List Nat), rem.length < fuel →
      (improve limit ideal upper fuel rem sel amt st).stop ≠ .fuel := by
  intro fuel
  induction fuel with
  | zero => intro rem sel amt st h; omega
  | succ k ih =>
    intro rem sel amt st hlen
    simp only [improve]
    split
    · next x st' hs => exact improveStep_stop_ne_fuel hs
    · next i u take st' hs =>
      have := length_eraseIdx_of_get (improveStep_next hs).1
      split
      · apply ih; omega
      · apply ih; omega

theorem phase1_fuel (limit : Option Int) : ∀ (rs : List Value) (s : St), phase1 limit rs s ≠ .error .fuel := by
  intro rs
  induction rs with
  | nil => intro s; simp [phase1]
  | cons r rs ih =>
    intro s
    simp only [phase1]
    split
    · next e he => intro hc; cases hc; exact subsetLoop_fuel r _ s (by omega) he
    · split
      · simp
      · exact ih _

theorem phase2_fuel (limit : Option Int) : ∀ (rs : List Value) (s : St), phase2 limit rs s ≠ .error .fuel := by
  intro rs
  induction rs with
  | nil => intro s; simp [phase2]
  | cons r rs ih =>
    intro s
    simp only [phase2]
    split
    · simp
    · next hst => exact absurd hst (improve_fuel _ _ _ _ _ _ _ _ (by omega))
    · exact ih _

theorem riBase_fuel (fee : Int) (pool : List UTxO) (outputs : List Output) (limit : Option Int)
    (stream : List Nat) : riBase fee pool outputs limit stream ≠ .error .fuel := by
  unfold riBase
  simp only
  split
  · next e he => intro hc; cases hc; exact phase1_fuel _ _ _ he
  · exact phase2_fuel _ _ _

theorem riSelect_fuel (env : Env) (pool : List UTxO) (outputs : List Output) (limit : Option Int)
    (includeFee respectMin : Bool) (stream : List Nat) :
    riSelect env pool outputs limit includeFee respectMin stream ≠ .error .fuel := by
  intro hc
  unfold riSelect at hc
  cases hf : feeOf env includeFee with
  | none => simp [hf] at hc
  | some f =>
    simp only [hf] at hc
    cases hb : riBase f pool outputs limit stream with
    | error e => simp only [hb] at hc; cases hc; exact riBase_fuel _ _ _ _ _ hb
    | ok s =>
      simp only [hb] at hc
      split at hc
      · split at hc
        · cases hc
        · split at hc
          · split at hc
            · next e he => cases hc; exact riBase_fuel _ _ _ _ _ he
            · cases hc
          · cases hc
      · cases hc

/-! ### the input limit -/

theorem subsetLoop_len (r : Value) : ∀ (fuel : Nat) (s s' : St), subsetLoop r fuel s = .ok s' →
    s.sel.length ≤ s'.sel.length := by
  intro fuel
  induction fuel with
  | zero => intro s s' h; simp [subsetLoop] at h
  | succ k ih =>
    intro s s' h
    simp only [subsetLoop] at h
    split at h
    · cases h; exact Nat.le_refl _
    · split at h
      · cases h
      · have := ih _ _ h
        simp only [List.length_append, List.length_cons, List.length_nil] at this
        omega

/-- phase 1 tests `len(selected) > max_input_count` after each asset's subset: it ends with at most `m` inputs -/
theorem phase1_limit (m : Int) : ∀ (rs : List Value) (s s' : St),
    phase1 (some m) rs s = .ok s' → (s.sel.length : Int) ≤ m → (s'.sel.length : Int) ≤ m := by
  intro rs
  induction rs with
  | nil => intro s s' h hl; simp only [phase1] at h; cases h; exact hl
  | cons r rs ih =>
    intro s s' h hl
    simp only [phase1] at h
    split at h
    · cases h
    · next s1 _ =>
      split at h
      · cases h
      · next hov =>
        apply ih _ _ h
        simp only [overLimit, decide_eq_true_eq] at hov
        omega

/-- `_improve` returns before appending when `len(selected) >= max_input_count`: it never goes past `m` -/
theorem improve_limit (m : Int) (ideal upper : Value) : ∀ (fuel : Nat) (rem sel : List UTxO) (amt : Value)
    (st : List Nat), (sel.length : Int) ≤ m →
    ((improve (some m) ideal upper fuel rem sel amt st).sel.length : Int) ≤ m := by
  intro fuel
  induction fuel with
  | zero => intro rem sel amt st h; simpa [improve] using h
  | succ k ih =>
    intro rem sel amt st hl
    simp only [improve]
    split
    · exact hl
    · next i u take st' hs =>
      have hov := (improveStep_next hs).2
      simp only [atLimit, decide_eq_false_iff_not] at hov
      split
      · apply ih
        simp only [List.length_append, List.length_cons, List.length_nil]
        omega
      · exact ih _ _ _ _ hl

theorem phase2_limit (m : Int) : ∀ (rs : List Value) (s s' : St),
    phase2 (some m) rs s = .ok s' → (s.sel.length : Int) ≤ m → (s'.sel.length : Int) ≤ m := by
  intro rs
  induction rs with
  | nil => intro s s' h hl; simp only [phase2] at h; cases h; exact hl
  | cons r rs ih =>
    intro s s' h hl
    simp only [phase2] at h
    split at h
    · cases h
    · cases h
    · exact ih _ _ h (improve_limit m _ _ _ _ _ _ _ hl)

/-- both phases together keep to a limit `m ≥ 0` -/
theorem riBase_limit (fee : Int) (pool : List UTxO) (outputs : List Output) (m : Int) (hm : 0 ≤ m)
    (stream : List Nat) (s : St) (h : riBase fee pool outputs (some m) stream = .ok s) :
    (s.sel.length : Int) ≤ m := by
  unfold riBase at h
  simp only at h
  split at h
  · cases h
  · next s1 h1 =>
    have := phase1_limit m _ _ _ h1 (by simpa using hm)
    exact phase2_limit m _ _ _ h this

/-- `RandomImproveMultiAsset.select` never returns more inputs than the limit, whatever the random choices, the
min-change top-up included: the recursive call is given the remaining budget `l - len(selected)` (≥ 0) -/
theorem riSelect_limit (env : Env) (pool : List UTxO) (outputs : List Output) (l : Int) (hl : 0 ≤ l)
    (includeFee respectMin : Bool) (stream : List Nat) (sel : List UTxO) (change : Value)
    (h : riSelect env pool outputs (some l) includeFee respectMin stream = .ok (sel, change)) :
    (sel.length : Int) ≤ l := by
  unfold riSelect at h
  cases hf : feeOf env includeFee with
  | none => simp [hf] at h
  | some f =>
    simp only [hf] at h
    cases hb : riBase f pool outputs (some l) stream with
    | error e => simp [hb] at h
    | ok s =>
      simp only [hb] at h
      have h1 : (s.sel.length : Int) ≤ l := riBase_limit f pool outputs l hl stream s hb
      split at h
      · split at h
        · cases h
        · split at h
          · split at h
            · cases h
            · next mc _ s2 hb2 =>
              cases h
              simp only [topUpLimit] at hb2
              have := riBase_limit _ _ _ (l - (s.sel.length : Int)) (by omega) _ _ hb2
              simp only [List.length_append]; omega
          · cases h; exact h1
      · cases h; exact h1

end Pyc.CoinSel
