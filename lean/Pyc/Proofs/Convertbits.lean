import Pyc.Model.Bech32

/-! `convertbits` regroups a bit stream.  The stream is abstracted as a *number*: a list of `w`-bit digits, most
significant first, denotes `val w xs`; the loop state `(acc, bits, ret)` denotes `val t ret * 2^bits + acc % 2^bits`
(emitted digits followed by the pending `bits` low bits of the accumulator).  One loop iteration appends one input
digit to the denoted number, so regrouping 8→5 with padding multiplies by `2^k` (the `k` zero pad bits), and 5→8
without padding divides it out again.  Digit strings of equal length and equal value are equal. -/

namespace Pyc.Bech32

/-- value of a digit string in base `2^w`, most significant digit first -/
def val (w : Nat) (xs : List Nat) : Nat := xs.foldl (fun a x => a * 2 ^ w + x) 0

theorem val_nil (w : Nat) : val w [] = 0 := rfl

theorem val_snoc (w : Nat) (xs : List Nat) (x : Nat) : val w (xs ++ [x]) = val w xs * 2 ^ w + x := by
  simp [val, List.foldl_append]

theorem cancel_digit {V B x V' y : Nat} (h : V * B + x = V' * B + y) (hx : x < B) (hy : y < B) : x = y ∧ V = V' := by
  have h1 := congrArg (· % B) h
  have h2 := congrArg (· / B) h
  simp [Nat.mod_eq_of_lt hx, Nat.mod_eq_of_lt hy] at h1
  have hB : 0 < B := by omega
  simp [Nat.add_comm (_ * B), Nat.add_mul_div_right _ _ hB, Nat.div_eq_of_lt hx, Nat.div_eq_of_lt hy] at h2
  exact ⟨h1, h2⟩

/-- positional notation is injective on digit strings of equal length -/
theorem val_inj (w : Nat) : ∀ (n : Nat) (xs ys : List Nat), xs.length = n → ys.length = n →
    (∀ x ∈ xs, x < 2 ^ w) → (∀ y ∈ ys, y < 2 ^ w) → val w xs = val w ys → xs = ys
  | 0, xs, ys, hx, hy, _, _, _ => by
    rw [List.length_eq_zero_iff.mp hx, List.length_eq_zero_iff.mp hy]
  | n + 1, xs, ys, hx, hy, bx, by', h => by
    have nx : xs ≠ [] := by intro e; simp [e] at hx
    have ny : ys ≠ [] := by intro e; simp [e] at hy
    rw [← List.dropLast_concat_getLast nx, ← List.dropLast_concat_getLast ny] at h ⊢
    rw [val_snoc, val_snoc] at h
    have hxl := bx _ (List.getLast_mem nx)
    have hyl := by' _ (List.getLast_mem ny)
    obtain ⟨e1, e2⟩ := cancel_digit h hxl hyl
    have := val_inj w n xs.dropLast ys.dropLast (by simp [hx]) (by simp [hy])
      (fun x hx' => bx x (List.dropLast_subset _ hx')) (fun y hy' => by' y (List.dropLast_subset _ hy')) e2
    rw [this, e1]

/-- the number denoted by a loop state -/
def S (t : Nat) (ret : List Nat) (bits acc : Nat) : Nat := val t ret * 2 ^ bits + acc % 2 ^ bits

theorem and_mask (x t : Nat) : x &&& (2 ^ t - 1) = x % 2 ^ t := Nat.and_two_pow_sub_one_eq_mod x t

theorem mod_split (acc bits t : Nat) (h : t ≤ bits) :
    acc % 2 ^ bits = acc % 2 ^ (bits - t) + 2 ^ (bits - t) * (acc / 2 ^ (bits - t) % 2 ^ t) := by
  have : 2 ^ bits = 2 ^ (bits - t) * 2 ^ t := by rw [← Nat.pow_add]; congr 1; omega
  rw [this, Nat.mod_mul]

/-- the inner `while` keeps the denoted number and the number of stream bits, and leaves fewer than `t` pending -/
theorem drain_spec (t acc : Nat) (ht : 0 < t) : ∀ (bits : Nat) (ret : List Nat),
    (∀ d ∈ ret, d < 2 ^ t) →
    (drain t (2 ^ t - 1) acc bits ret).1 < t ∧
    S t (drain t (2 ^ t - 1) acc bits ret).2 (drain t (2 ^ t - 1) acc bits ret).1 acc = S t ret bits acc ∧
    t * (drain t (2 ^ t - 1) acc bits ret).2.length + (drain t (2 ^ t - 1) acc bits ret).1 = t * ret.length + bits ∧
    (∀ d ∈ (drain t (2 ^ t - 1) acc bits ret).2, d < 2 ^ t) := by
  intro bits
  induction bits using Nat.strongRecOn with
  | _ bits ih =>
    intro ret hret
    rw [drain]
    by_cases hc : 0 < t ∧ t ≤ bits
    · simp only [hc, and_self, ↓reduceDIte]
      have hd : (acc >>> (bits - t)) &&& (2 ^ t - 1) < 2 ^ t := by
        rw [and_mask]; exact Nat.mod_lt _ (Nat.two_pow_pos t)
      have hret' : ∀ d ∈ ret ++ [(acc >>> (bits - t)) &&& (2 ^ t - 1)], d < 2 ^ t := by
        intro d hd'
        rcases List.mem_append.mp hd' with h | h
        · exact hret d h
        · rw [List.mem_singleton.mp h]; exact hd
      obtain ⟨h1, h2, h3, h4⟩ := ih (bits - t) (by omega) _ hret'
      refine ⟨h1, ?_, ?_, h4⟩
      · rw [h2]
        unfold S
        rw [val_snoc, and_mask, Nat.shiftRight_eq_div_pow, mod_split acc bits t hc.2]
        have : 2 ^ bits = 2 ^ (bits - t) * 2 ^ t := by rw [← Nat.pow_add]; congr 1; omega
        rw [this]
        generalize 2 ^ (bits - t) = P
        generalize 2 ^ t = Q
        generalize acc / P % Q = d
        generalize acc % P = r
        grind
      · rw [h3, List.length_append, List.length_singleton, Nat.mul_succ]
        omega
    · simp only [hc, ↓reduceDIte]
      refine ⟨by omega, ?_, ?_, hret⟩ <;> first | rfl | trivial

theorem shift_in (acc v f b : Nat) (hv : v < 2 ^ f) :
    (acc * 2 ^ f + v) % 2 ^ (b + f) = acc % 2 ^ b * 2 ^ f + v := by
  rw [Nat.pow_add, Nat.mul_comm (2 ^ b), Nat.mod_mul]
  rw [Nat.add_comm (acc * 2 ^ f), Nat.add_mul_mod_self_right, Nat.mod_eq_of_lt hv,
    Nat.add_mul_div_right _ _ (Nat.two_pow_pos f), Nat.div_eq_of_lt hv, Nat.zero_add]
  rw [Nat.mul_comm (2 ^ f), Nat.add_comm]

/-- the outer loop of `convertbits`: every input digit is appended to the denoted number -/
theorem cbLoop_spec (f t : Nat) (ht : 0 < t) : ∀ (data : List Nat) (acc bits : Nat) (ret : List Nat),
    (∀ v ∈ data, v < 2 ^ f) → bits < t → (∀ d ∈ ret, d < 2 ^ t) →
    ∃ acc' bits' ret', cbLoop f t (2 ^ t - 1) (2 ^ (f + t - 1) - 1) data acc bits ret = some (acc', bits', ret') ∧
      bits' < t ∧
      S t ret' bits' acc' = data.foldl (fun a x => a * 2 ^ f + x) (S t ret bits acc) ∧
      t * ret'.length + bits' = t * ret.length + bits + f * data.length ∧
      (∀ d ∈ ret', d < 2 ^ t)
  | [], acc, bits, ret, _, hb, hret => ⟨acc, bits, ret, rfl, hb, rfl, by simp, hret⟩
  | v :: rest, acc, bits, ret, hdata, hb, hret => by
    have hv : v < 2 ^ f := hdata v (List.mem_cons_self ..)
    have hv0 : v >>> f = 0 := by rw [Nat.shiftRight_eq_div_pow]; exact Nat.div_eq_of_lt hv
    rw [cbLoop]
    simp only [hv0, ne_eq, not_true_eq_false, ↓reduceIte]
    obtain ⟨d1, d2, d3, d4⟩ := drain_spec t (((acc <<< f) ||| v) &&& (2 ^ (f + t - 1) - 1)) ht (bits + f) ret hret
    obtain ⟨acc', bits', ret', e, r1, r2, r3, r4⟩ :=
      cbLoop_spec f t ht rest _ _ _ (fun x hx => hdata x (List.mem_cons_of_mem _ hx)) d1 d4
    refine ⟨acc', bits', ret', e, r1, ?_, ?_, r4⟩
    · rw [r2, d2, List.foldl_cons]
      congr 1
      unfold S
      rw [and_mask, Nat.mod_mod_of_dvd _ (Nat.pow_dvd_pow 2 (by omega : bits + f ≤ f + t - 1)),
        ← Nat.shiftLeft_add_eq_or_of_lt hv, Nat.shiftLeft_eq, shift_in _ _ _ _ hv, Nat.pow_add]
      generalize 2 ^ bits = P
      generalize 2 ^ f = Q
      generalize acc % P = r
      grind
    · rw [r3, d3, List.length_cons, Nat.mul_succ]
      omega

theorem S_init (t : Nat) : S t [] 0 0 = 0 := by simp [S, val_nil]

/-- regrouping with padding: the output denotes the input number followed by `k < t` zero bits -/
theorem convertbits_pad (f t : Nat) (ht : 0 < t) (data : List Nat) (hd : ∀ v ∈ data, v < 2 ^ f) :
    ∃ out k, convertbits data f t true = some out ∧ k < t ∧ val t out = val f data * 2 ^ k ∧
      t * out.length = f * data.length + k ∧ (∀ d ∈ out, d < 2 ^ t) := by
  obtain ⟨acc', bits', ret', e, r1, r2, r3, r4⟩ :=
    cbLoop_spec f t ht data 0 0 [] hd ht (by simp)
  rw [S_init] at r2
  unfold convertbits
  simp only [Nat.one_shiftLeft, e, ↓reduceIte]
  by_cases hb : bits' = 0
  · subst hb
    refine ⟨ret', 0, by simp, ht, ?_, by simpa using r3, r4⟩
    simpa [S, Nat.mod_one, val] using r2
  · refine ⟨ret' ++ [(acc' <<< (t - bits')) &&& (2 ^ t - 1)], t - bits', by simp [hb], by omega, ?_, ?_, ?_⟩
    · have e2 : 2 ^ t = 2 ^ bits' * 2 ^ (t - bits') := by rw [← Nat.pow_add]; congr 1; omega
      rw [val_snoc, and_mask, Nat.shiftLeft_eq]
      rw [show (acc' * 2 ^ (t - bits')) % 2 ^ t = acc' % 2 ^ bits' * 2 ^ (t - bits') by
        rw [e2]; exact Nat.mul_mod_mul_right _ _ _]
      have : val f data = val t ret' * 2 ^ bits' + acc' % 2 ^ bits' := r2.symm
      rw [this, e2]
      generalize 2 ^ bits' = P
      generalize 2 ^ (t - bits') = Q
      generalize acc' % P = r
      grind
    · rw [List.length_append, List.length_singleton, Nat.mul_succ]
      simp only [List.length_nil, Nat.mul_zero, Nat.zero_add] at r3
      omega
    · intro d hd'
      rcases List.mem_append.mp hd' with h | h
      · exact r4 d h
      · rw [List.mem_singleton.mp h, and_mask]; exact Nat.mod_lt _ (Nat.two_pow_pos t)

theorem div_mod_unique {t a b c d : Nat} (h : t * a + b = t * c + d) (hb : b < t) (hd : d < t) : a = c ∧ b = d := by
  have h1 := congrArg (· % t) h
  have h2 := congrArg (· / t) h
  have ht : 0 < t := by omega
  simp [Nat.mod_eq_of_lt hb, Nat.mod_eq_of_lt hd] at h1
  simp [Nat.mul_add_div ht, Nat.div_eq_of_lt hb, Nat.div_eq_of_lt hd] at h2
  exact ⟨h2, h1⟩

/-- regrouping without padding: a digit string that denotes `zs` followed by `k` zero bits (`k` smaller than both
group sizes) is accepted and regrouped to exactly `zs` -/
theorem convertbits_nopad (f t : Nat) (ht : 0 < t) (data zs : List Nat) (k : Nat)
    (hd : ∀ v ∈ data, v < 2 ^ f) (hz : ∀ z ∈ zs, z < 2 ^ t) (hkf : k < f) (hkt : k < t)
    (hval : val f data = val t zs * 2 ^ k) (hlen : f * data.length = t * zs.length + k) :
    convertbits data f t false = some zs := by
  obtain ⟨acc', bits', ret', e, r1, r2, r3, r4⟩ :=
    cbLoop_spec f t ht data 0 0 [] hd ht (by simp)
  rw [S_init] at r2
  simp only [List.length_nil, Nat.mul_zero, Nat.zero_add] at r3
  obtain ⟨l1, l2⟩ := div_mod_unique (r3.trans hlen) r1 hkt
  subst l2
  have r2' : val t ret' * 2 ^ bits' + acc' % 2 ^ bits' = val t zs * 2 ^ bits' + 0 := by
    rw [Nat.add_zero, ← hval]; exact r2
  obtain ⟨a0, v0⟩ := cancel_digit r2' (Nat.mod_lt _ (Nat.two_pow_pos _)) (Nat.two_pow_pos _)
  have hret : ret' = zs := val_inj t _ ret' zs l1 rfl r4 hz v0
  unfold convertbits
  simp only [Nat.one_shiftLeft, e]
  have e2 : 2 ^ t = 2 ^ bits' * 2 ^ (t - bits') := by rw [← Nat.pow_add]; congr 1; omega
  have hp : (acc' <<< (t - bits')) &&& (2 ^ t - 1) = 0 := by
    rw [and_mask, Nat.shiftLeft_eq, e2, Nat.mul_mod_mul_right, a0, Nat.zero_mul]
  simp [hp, hret, Nat.not_le.mpr hkf]

/-- the two conversions `encode` and `decode` perform, composed: 8→5 with padding then 5→8 without is the identity
on byte strings of any length -/
theorem convertbits_roundtrip_nat (bs : List Nat) (hb : ∀ b ∈ bs, b < 2 ^ 8) :
    ∃ out, convertbits bs 8 5 true = some out ∧ (∀ d ∈ out, d < 32) ∧ 8 * bs.length ≤ 5 * out.length ∧
      5 * out.length < 8 * bs.length + 5 ∧ convertbits out 5 8 false = some bs := by
  obtain ⟨out, k, e, hk, hv, hl, ho⟩ := convertbits_pad 8 5 (by decide) bs hb
  exact ⟨out, e, ho, by omega, by omega, convertbits_nopad 5 8 (by decide) out bs k ho hb hk (by omega) hv hl⟩

end Pyc.Bech32
