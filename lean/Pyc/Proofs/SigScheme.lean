import Mathlib.Algebra.Group.Basic
import Pyc.Model.Basic

/-! # The Ed25519 signature algebra over an abstract group

RFC 8032 5.1.6 / 5.1.7 and the BIP32-Ed25519 signing of pycardano/crypto/bip32.py
(`BIP32ED25519PrivateKey.sign`), stated over an arbitrary commutative group `G` with a base point `B` of order
dividing `L`, an abstract hash-to-scalar `Hs`, point encoding `enc` and scalar encoding `encS`.  Group, hash and
encodings are *variables*; nothing is assumed about edwards25519 or SHA-512 (no axioms).  That edwards25519 with
RFC 8032's `B`, `L` is such a group is **not** proved here (trusted, see DESIGN 2.6). -/

namespace Pyc.Sig

/-- an abstract signature scheme with the correctness law as a field -/
structure SigScheme where
  SK : Type
  /-- 32-byte public key -/
  pk : SK → Bytes
  sign : SK → Bytes → Bytes
  /-- `verify pk msg sig` -/
  verify : Bytes → Bytes → Bytes → Prop
  correct : ∀ sk m, verify (pk sk) m (sign sk m)

section
variable {G : Type} [AddCommGroup G] (B : G) (L : ℕ) (Hs : Bytes → ℕ) (enc : G → Bytes) (encS : ℕ → Bytes)

/-- reducing a scalar modulo the order of `B` does not change the multiple -/
theorem mod_nsmul (hL : L • B = 0) (n : ℕ) : (n % L) • B = n • B := by
  have h : n • B = (L * (n / L) + n % L) • B := by rw [Nat.div_add_mod]
  rw [h, add_nsmul, mul_nsmul, hL, nsmul_zero, zero_add]

/-- RFC 8032 5.1.7 verification equation (cofactorless form used by libsodium): `[S]B = R + [h]A`,
`h = H(enc R ‖ enc A ‖ m)` -/
def VerifyEq (R A : G) (S : ℕ) (m : Bytes) : Prop := S • B = R + (Hs (enc R ++ enc A ++ m)) • A

/-- verification on bytes: the signature is `enc R ‖ encS S`, the key `enc A`, and the equation holds -/
def verifyBytes (pk m sig : Bytes) : Prop :=
  ∃ (R A : G) (S : ℕ), sig = enc R ++ encS S ∧ pk = enc A ∧ VerifyEq B Hs enc R A S m

/-- expanded secret of RFC 8032 5.1.5: scalar `a` and `prefix` (for a pycardano `SigningKey` both come from
SHA-512 of the 32-byte seed; for an `ExtendedSigningKey` they are `kL`, `kR` of the payload) -/
structure Expanded where
  a : ℕ
  pre : Bytes

/-- `A = [a]B` -/
def pubPoint (sk : Expanded) : G := sk.a • B
/-- `r = H(prefix ‖ m)` -/
def nonce (sk : Expanded) (m : Bytes) : ℕ := Hs (sk.pre ++ m)
/-- `R = [r]B` -/
def commit (sk : Expanded) (m : Bytes) : G := (nonce Hs sk m) • B
/-- RFC 8032 5.1.6 step 5: `S = (r + h·a) mod L` -/
def stdS (sk : Expanded) (m : Bytes) : ℕ :=
  (nonce Hs sk m + Hs (enc (commit B Hs sk m) ++ enc (pubPoint B sk) ++ m) * sk.a) % L
/-- bip32.py: `S = scalar_add(scalar_mul(hram, kL), r)` = `(h·kL + r) mod L`, with `r`, `h` reduced mod `L`
first (`crypto_core_ed25519_scalar_reduce`) -/
def extS (sk : Expanded) (m : Bytes) : ℕ :=
  ((Hs (enc (commit B Hs sk m) ++ enc (pubPoint B sk) ++ m) % L) * (sk.a % L) % L + (nonce Hs sk m) % L) % L

/-- the verification equation holds for every standard signature, every key and every message -/
theorem std_sign_correct (hL : L • B = 0) (sk : Expanded) (m : Bytes) :
    VerifyEq B Hs enc (commit B Hs sk m) (pubPoint B sk) (stdS B L Hs enc sk m) m := by
  unfold VerifyEq stdS
  rw [mod_nsmul B L hL, add_nsmul, mul_nsmul']
  rfl

/-- `R` of the extended signing is `[r mod L]B` (`scalarmult_base_noclamp` of the reduced nonce) -/
def extCommit (sk : Expanded) (m : Bytes) : G := ((nonce Hs sk m) % L) • B

theorem extCommit_eq (hL : L • B = 0) (sk : Expanded) (m : Bytes) :
    extCommit B L Hs sk m = commit B Hs sk m := mod_nsmul B L hL _

/-- the verification equation holds for every BIP32-Ed25519 signature as bip32.py computes it -/
theorem ext_sign_correct (hL : L • B = 0) (sk : Expanded) (m : Bytes) :
    VerifyEq B Hs enc (commit B Hs sk m) (pubPoint B sk) (extS B L Hs enc sk m) m := by
  unfold VerifyEq extS
  generalize Hs (enc (commit B Hs sk m) ++ enc (pubPoint B sk) ++ m) = h
  unfold pubPoint commit
  generalize nonce Hs sk m = r
  -- the order of a • B divides L as well
  have hA : L • (sk.a • B) = 0 := by rw [← mul_nsmul, Nat.mul_comm, mul_nsmul, hL, nsmul_zero]
  have h1 : ((h % L) * (sk.a % L)) • B = h • (sk.a • B) := by
    rw [mul_nsmul', mod_nsmul B L hL, mod_nsmul (sk.a • B) L hA]
  rw [mod_nsmul B L hL, add_nsmul, mod_nsmul B L hL, mod_nsmul B L hL, h1, add_comm]

/-- standard Ed25519 as a `SigScheme` -/
def stdScheme (hL : L • B = 0) : SigScheme where
  SK := Expanded
  pk sk := enc (pubPoint B sk)
  sign sk m := enc (commit B Hs sk m) ++ encS (stdS B L Hs enc sk m)
  verify := verifyBytes B Hs enc encS
  correct sk m := ⟨_, _, _, rfl, rfl, std_sign_correct B L Hs enc hL sk m⟩

/-- BIP32-Ed25519 signing as a `SigScheme` (same verifier) -/
def extScheme (hL : L • B = 0) : SigScheme where
  SK := Expanded
  pk sk := enc (pubPoint B sk)
  sign sk m := enc (extCommit B L Hs sk m) ++ encS (extS B L Hs enc sk m)
  verify := verifyBytes B Hs enc encS
  correct sk m := ⟨_, _, _, rfl, rfl, by
    rw [extCommit_eq B L Hs hL]; exact ext_sign_correct B L Hs enc hL sk m⟩

/-- a key set mixing ordinary (`inl`) and extended (`inr`) keys, one verifier -/
def mixedScheme (hL : L • B = 0) : SigScheme where
  SK := Expanded ⊕ Expanded
  pk sk := match sk with
    | .inl s => (stdScheme B L Hs enc encS hL).pk s
    | .inr s => (extScheme B L Hs enc encS hL).pk s
  sign sk m := match sk with
    | .inl s => (stdScheme B L Hs enc encS hL).sign s m
    | .inr s => (extScheme B L Hs enc encS hL).sign s m
  verify := verifyBytes B Hs enc encS
  correct sk m := by
    cases sk with
    | inl s => exact (stdScheme B L Hs enc encS hL).correct s m
    | inr s => exact (extScheme B L Hs enc encS hL).correct s m

end

end Pyc.Sig
