import Pyc.Model.Gov
import Pyc.Spec.Gov
import Pyc.Proofs.CborAll
import Pyc.Proofs.Canonical
import Pyc.Proofs.Sort
import Pyc.Proofs.CustomCodec
import Pyc.Proofs.Bech32Str

/-! Helper lemmas for `Props/C01_Gov.lean` and `Props/C02_Gov.lean` (models: `Model/Gov.lean`, `Spec/Gov.lean`). -/

namespace Pyc.Gov
open Pyc Pyc.Cbor Pyc.Codec
open Pyc.Custom (Res.bind hexOfText)

/-! ## primitives -/

theorem isHashB_iff (n : Nat) (i : Item) : isHashB n i = true ↔ ∃ b, i = .bytes b ∧ b.length = n := by
  cases i <;> simp [isHashB]

theorem isIdxB_iff (i : Item) : isIdxB i = true ↔ ∃ n, i = .uint n ∧ n ≤ 65535 := by
  cases i <;> simp [isIdxB]

theorem isUIntB_iff (i : Item) : isUIntB i = true ↔ ∃ n, i = .uint n ∧ n < 2 ^ 64 := by
  cases i <;> simp [isUIntB]

@[simp] theorem pyNum_uint (n : Nat) : pyNum? (.uint n) = some (n : Int) := by
  simp [pyNum?, itemInt?]

@[simp] theorem hashCtor_bytes (n : Nat) (b : Bytes) (h : b.length = n) : hashCtor n (.bytes b) = .ok (.bytes b) := by
  simp [hashCtor, pyLen?, pyObj, h]

@[simp] theorem cbytesFromPrim_bytes (n : Nat) (b : Bytes) (h : b.length = n) : cbytesFromPrim n (.bytes b) = .ok b := by
  simp [cbytesFromPrim, h]

@[simp] theorem bind_ok {α β : Type} (a : α) (f : α → Res β) : Res.bind (.ok a) f = f a := rfl

theorem ofInt_nat (n : Nat) (h : n < 2 ^ 64) : ofInt (n : Int) = .uint n := by
  simp [ofInt, h]

/-- two well-formed items with the same encoding are the same item -/
theorem encode_inj (x y : Item) (hx : Cbor.WF x) (hy : Cbor.WF y) (h : encode x = encode y) : x = y := by
  have h1 := decodeAll_encode x hx
  have h2 := decodeAll_encode y hy
  rw [h] at h1
  rw [h1] at h2
  exact Option.some.inj h2

theorem wf_bytes28 (b : Bytes) (h : b.length = 28) : Cbor.WF (.bytes b) := by simp [Cbor.WF, h]
theorem wf_bytes32 (b : Bytes) (h : b.length = 32) : Cbor.WF (.bytes b) := by simp [Cbor.WF, h]

/-- `loads` of the encoding of a well-formed item without indefinite-length arrays inside map keys -/
theorem loads_encode (x : Item) (hw : Cbor.WF x) (hk : keysHashable x = true) : loads (encode x) = some x := by
  simp [loads, decodeAll_encode x hw, hk]

/-! ## `StakeCredential` -/

theorem cred_rt (c : Cred) (h : c.wf = true) : Cred.fromItem c.toItem = .ok c := by
  obtain ⟨k, p⟩ := c
  obtain ⟨b, rfl, hb⟩ := (isHashB_iff 28 p).1 h
  cases k <;> simp [Cred.toItem, Cred.fromItem, Cred.fromList, seqElems?, Cred.code, hb]

theorem cred_inj (a b : Cred) (h : a.toItem = b.toItem) : a = b := by
  obtain ⟨ka, pa⟩ := a
  obtain ⟨kb, pb⟩ := b
  cases ka <;> cases kb <;> simp_all [Cred.toItem, Cred.code]

theorem cred_item_wf (c : Cred) (h : c.wf = true) : Cbor.WF c.toItem := by
  obtain ⟨k, p⟩ := c
  obtain ⟨b, rfl, hb⟩ := (isHashB_iff 28 p).1 h
  cases k <;> simp [Cred.toItem, Cred.code, Cbor.WF, Cbor.WFList, hb]

theorem cred_item_hashable (c : Cred) (h : c.wf = true) : keysHashable c.toItem = true := by
  obtain ⟨k, p⟩ := c
  obtain ⟨b, rfl, hb⟩ := (isHashB_iff 28 p).1 h
  simp [Cred.toItem, keysHashable, keysHashableList]

/-! ## `DRep` -/

theorem drepKind_code_inj (a b : DRepKind) (h : a.code = b.code) : a = b := by
  cases a <;> cases b <;> simp_all [DRepKind.code]

theorem drepKind_ofNum_code (k : DRepKind) : DRepKind.ofNum? (k.code : Int) = some k := by
  cases k <;> simp [DRepKind.ofNum?, DRepKind.code]

theorem drep_rt (d : DRep) (ht : d.typed = true) (hc : d.coherent = true) : DRep.fromItem d.toItem = .ok d := by
  obtain ⟨k, c⟩ := d
  cases k <;> cases c with
  | none => simp_all [DRep.coherent, DRep.toItem, DRep.fromItem, DRepKind.code, DRepKind.ofNum?]
  | some q =>
    obtain ⟨key, p⟩ := q
    cases key <;> simp [DRep.coherent] at hc
    all_goals
      obtain ⟨b, rfl, hb⟩ := (isHashB_iff 28 p).1 (by simpa [DRep.typed] using ht)
      simp [DRep.toItem, DRep.fromItem, DRepKind.code, DRepKind.ofNum?, hb]

/-- kind and arity right, the class of the hash object free: the decoded object is the one with the class the kind
prescribes -/
theorem drep_rt_arity (d : DRep) (ht : d.typed = true) (ha : d.arityOk = true) :
    ∃ d', DRep.fromItem d.toItem = .ok d' ∧ DRep.PyEq d' d ∧ d'.coherent = true := by
  obtain ⟨k, c⟩ := d
  cases c with
  | none =>
    cases k <;> first
      | (simp [DRep.arityOk] at ha; done)
      | exact ⟨_, by simp [DRep.toItem, DRep.fromItem, DRepKind.code, DRepKind.ofNum?], ⟨rfl, rfl⟩, rfl⟩
  | some q =>
    obtain ⟨key, p⟩ := q
    obtain ⟨b, rfl, hb⟩ := (isHashB_iff 28 p).1 (by simpa [DRep.typed] using ht)
    cases k with
    | keyHash =>
      exact ⟨⟨.keyHash, some (true, .bytes b)⟩,
        by simp [DRep.toItem, DRep.fromItem, DRepKind.code, DRepKind.ofNum?, hb], ⟨rfl, rfl⟩, rfl⟩
    | scriptHash =>
      exact ⟨⟨.scriptHash, some (false, .bytes b)⟩,
        by simp [DRep.toItem, DRep.fromItem, DRepKind.code, DRepKind.ofNum?, hb], ⟨rfl, rfl⟩, rfl⟩
    | alwaysAbstain => simp [DRep.arityOk] at ha
    | alwaysNoConfidence => simp [DRep.arityOk] at ha

theorem drep_item_eq_iff (a b : DRep) : a.toItem = b.toItem ↔ DRep.PyEq a b := by
  obtain ⟨ka, ca⟩ := a
  obtain ⟨kb, cb⟩ := b
  constructor
  · intro h
    cases ca with
    | none =>
      cases cb with
      | none =>
        simp only [DRep.toItem, Item.array.injEq, List.cons.injEq, Item.uint.injEq, and_true] at h
        exact ⟨drepKind_code_inj _ _ h, rfl⟩
      | some q => obtain ⟨_, _⟩ := q; simp [DRep.toItem] at h
    | some q =>
      obtain ⟨_, pa⟩ := q
      cases cb with
      | none => simp [DRep.toItem] at h
      | some q =>
        obtain ⟨_, pb⟩ := q
        simp only [DRep.toItem, Item.array.injEq, List.cons.injEq, Item.uint.injEq, and_true] at h
        exact ⟨drepKind_code_inj _ _ h.1, by simp [h.2]⟩
  · rintro ⟨h1, h2⟩
    simp only at h1 h2
    subst h1
    cases ca with
    | none => cases cb with
      | none => rfl
      | some q => simp at h2
    | some q =>
      cases cb with
      | none => simp at h2
      | some q' =>
        obtain ⟨_, pa⟩ := q
        obtain ⟨_, pb⟩ := q'
        simp only [Option.map_some, Option.some.injEq] at h2
        simp [DRep.toItem, h2]

theorem drep_item_wf (d : DRep) (ht : d.typed = true) : Cbor.WF d.toItem := by
  obtain ⟨k, c⟩ := d
  cases c with
  | none => cases k <;> simp [DRep.toItem, DRepKind.code, Cbor.WF, Cbor.WFList]
  | some q =>
    obtain ⟨key, p⟩ := q
    obtain ⟨b, rfl, hb⟩ := (isHashB_iff 28 p).1 (by simpa [DRep.typed] using ht)
    cases k <;> simp [DRep.toItem, DRepKind.code, Cbor.WF, Cbor.WFList, hb]

theorem drep_item_hashable (d : DRep) (ht : d.typed = true) : keysHashable d.toItem = true := by
  obtain ⟨k, c⟩ := d
  cases c with
  | none => simp [DRep.toItem, keysHashable, keysHashableList]
  | some q =>
    obtain ⟨key, p⟩ := q
    obtain ⟨b, rfl, hb⟩ := (isHashB_iff 28 p).1 (by simpa [DRep.typed] using ht)
    simp [DRep.toItem, keysHashable, keysHashableList]

/-! ## `Voter` -/

theorem voter_rt (v : Voter) (h : v.wf = true) : Voter.fromItem v.toItem = .ok v := by
  obtain ⟨t, k, p⟩ := v
  simp only [Voter.wf, Bool.and_eq_true] at h
  obtain ⟨b, rfl, hb⟩ := (isHashB_iff 28 p).1 h.1
  cases t <;> cases k <;> simp_all [Voter.toItem, Voter.fromItem, Voter.fromList, seqElems?, Voter.code]

theorem voter_inj (a b : Voter) (ha : a.wf = true) (hb : b.wf = true) (h : a.toItem = b.toItem) : a = b := by
  obtain ⟨ta, ka, pa⟩ := a
  obtain ⟨tb, kb, pb⟩ := b
  simp only [Voter.wf, Bool.and_eq_true] at ha hb
  cases ta <;> cases tb <;> cases ka <;> cases kb <;> simp_all [Voter.toItem, Voter.code]

theorem voter_item_wf (v : Voter) (h : v.wf = true) : Cbor.WF v.toItem := by
  obtain ⟨t, k, p⟩ := v
  simp only [Voter.wf, Bool.and_eq_true] at h
  obtain ⟨b, rfl, hb⟩ := (isHashB_iff 28 p).1 h.1
  cases t <;> cases k <;> simp [Voter.toItem, Voter.code, Cbor.WF, Cbor.WFList, hb]

theorem voter_item_hashable (v : Voter) (h : v.wf = true) : keysHashable v.toItem = true := by
  obtain ⟨t, k, p⟩ := v
  simp only [Voter.wf, Bool.and_eq_true] at h
  obtain ⟨b, rfl, hb⟩ := (isHashB_iff 28 p).1 h.1
  simp [Voter.toItem, keysHashable, keysHashableList]

/-! ## `Anchor`, `VotingProcedure` -/

theorem anchor_rt (a : Anchor) (h : a.wf = true) : Anchor.fromItem a.toItem = .ok a := by
  obtain ⟨u, b⟩ := a
  simp only [Anchor.wf, beq_iff_eq] at h
  simp [Anchor.toItem, Anchor.fromItem, Anchor.fromList, anchorElems?, listElems?, h]

theorem anchor_inj (a b : Anchor) (h : a.toItem = b.toItem) : a = b := by
  obtain ⟨ua, ha⟩ := a
  obtain ⟨ub, hb⟩ := b
  simp_all [Anchor.toItem]

theorem anchor_item_wf (a : Anchor) (h : a.wf = true) (hu : a.url.length < 2 ^ 64) : Cbor.WF a.toItem := by
  obtain ⟨u, b⟩ := a
  simp only [Anchor.wf, beq_iff_eq] at h
  simp only at hu
  simp [Anchor.toItem, Cbor.WF, Cbor.WFList, h, hu]

theorem anchor_item_hashable (a : Anchor) : keysHashable a.toItem = true := by
  simp [Anchor.toItem, keysHashable, keysHashableList]

theorem vote_ofNum_code (v : Vote) : Vote.ofNum? (v.code : Int) = some v := by
  cases v <;> simp [Vote.ofNum?, Vote.code]

theorem vote_code_inj (a b : Vote) (h : a.code = b.code) : a = b := by
  cases a <;> cases b <;> simp_all [Vote.code]

theorem vp_rt (p : VotingProcedure) (h : p.wf = true) : VotingProcedure.fromItem p.toItem = .ok p := by
  obtain ⟨v, a⟩ := p
  cases a with
  | none => simp [VotingProcedure.toItem, VotingProcedure.fromItem, vote_ofNum_code, isNull]
  | some a =>
    have ha : Anchor.fromItem a.toItem = .ok a := anchor_rt a (by simpa [VotingProcedure.wf] using h)
    have hn : isNull a.toItem = false := by simp [Anchor.toItem, isNull]
    simp [VotingProcedure.toItem, VotingProcedure.fromItem, vote_ofNum_code, hn, ha]

theorem vp_inj (a b : VotingProcedure) (h : a.toItem = b.toItem) : a = b := by
  obtain ⟨va, aa⟩ := a
  obtain ⟨vb, ab⟩ := b
  simp only [VotingProcedure.toItem, Item.array.injEq, List.cons.injEq, Item.uint.injEq, and_true] at h
  have hv := vote_code_inj _ _ h.1
  subst hv
  cases aa with
  | none => cases ab with
    | none => rfl
    | some y => simp [Anchor.toItem] at h
  | some x => cases ab with
    | none => simp [Anchor.toItem] at h
    | some y =>
      have := anchor_inj x y (by simpa using h)
      simp [this]

theorem vp_item_wf (p : VotingProcedure) (h : p.wf = true) (hu : ∀ a, p.anchor = some a → a.url.length < 2 ^ 64) :
    Cbor.WF p.toItem := by
  obtain ⟨v, a⟩ := p
  cases a with
  | none => cases v <;> simp [VotingProcedure.toItem, Vote.code, Cbor.WF, Cbor.WFList]
  | some a =>
    have := anchor_item_wf a (by simpa [VotingProcedure.wf] using h) (hu a rfl)
    cases v <;> simp [VotingProcedure.toItem, Vote.code, Cbor.WF, Cbor.WFList, this]

theorem vp_item_hashable (p : VotingProcedure) : keysHashable p.toItem = true := by
  obtain ⟨v, a⟩ := p
  cases a <;> simp [VotingProcedure.toItem, Anchor.toItem, keysHashable, keysHashableList]

/-! ## `GovActionId` -/

theorem gaid_rt (g : GovActionId) (h : g.wf = true) : GovActionId.fromItem g.toItem = .ok g := by
  obtain ⟨t, i⟩ := g
  simp only [GovActionId.wf, Bool.and_eq_true] at h
  obtain ⟨b, rfl, hb⟩ := (isHashB_iff 32 t).1 h.1
  obtain ⟨n, rfl, hn⟩ := (isIdxB_iff i).1 h.2
  have : (n : Int) ≤ 65535 := by omega
  simp [GovActionId.toItem, GovActionId.fromItem, GovActionId.fromList, seqElems?, idxCtor, pyObj, hb, this]

theorem gaid_inj (a b : GovActionId) (h : a.toItem = b.toItem) : a = b := by
  obtain ⟨ta, ia⟩ := a
  obtain ⟨tb, ib⟩ := b
  simp_all [GovActionId.toItem]

theorem gaid_item_wf (g : GovActionId) (h : g.wf = true) : Cbor.WF g.toItem := by
  obtain ⟨t, i⟩ := g
  simp only [GovActionId.wf, Bool.and_eq_true] at h
  obtain ⟨b, rfl, hb⟩ := (isHashB_iff 32 t).1 h.1
  obtain ⟨n, rfl, hn⟩ := (isIdxB_iff i).1 h.2
  have : n < 2 ^ 64 := by omega
  simp [GovActionId.toItem, Cbor.WF, Cbor.WFList, hb, this]

theorem gaid_item_hashable (g : GovActionId) (h : g.wf = true) : keysHashable g.toItem = true := by
  obtain ⟨t, i⟩ := g
  simp only [GovActionId.wf, Bool.and_eq_true] at h
  obtain ⟨b, rfl, hb⟩ := (isHashB_iff 32 t).1 h.1
  obtain ⟨n, rfl, hn⟩ := (isIdxB_iff i).1 h.2
  simp [GovActionId.toItem, keysHashable, keysHashableList]

theorem gaid_item_not_null (g : GovActionId) : isNull g.toItem = false := by simp [GovActionId.toItem, isNull]

/-! ## `HardForkInitiationAction` -/

theorem restoreOptGaid_some (g : GovActionId) (h : g.wf = true) : restoreOptGaid g.toItem = .ok (some g) := by
  simp [restoreOptGaid, gaid_rt g h]

theorem restoreOptGaid_null : restoreOptGaid (.simple 22) = .ok Option.none := by
  simp [restoreOptGaid, GovActionId.fromItem, seqElems?, isNull]

theorem restoreInt_uint (n : Nat) (h : n < 2 ^ 64) : restoreInt (.uint n) = .ok (.uint n) := by
  simp [restoreInt, itemInt?, ofInt_nat n h]

theorem hardfork_rt (x : HardFork) (h : x.wf = true) : HardFork.fromItem x.toItem = .ok x := by
  obtain ⟨p, ma, mi⟩ := x
  simp only [HardFork.wf, Bool.and_eq_true] at h
  obtain ⟨⟨hp, hma⟩, hmi⟩ := h
  obtain ⟨m, rfl, hm⟩ := (isUIntB_iff mi).1 hmi
  cases ma with
  | uint n =>
    simp only [decide_eq_true_eq] at hma
    have hn : n < 2 ^ 64 := by omega
    have h1 : (1 : Int) ≤ (n : Int) := by omega
    have h2 : (n : Int) ≤ 10 := by omega
    have hv : restoreVersion (.array [.uint n, .uint m]) = .ok (.uint n, .uint m) := by
      simp [restoreVersion, listElems?, restoreInt_uint n hn, restoreInt_uint m hm]
    cases p with
    | none => simp [HardFork.toItem, HardFork.fromItem, HardFork.fromList, seqElems?, restoreOptGaid_null, hv, majorOk, h1, h2]
    | some g =>
      simp [HardFork.toItem, HardFork.fromItem, HardFork.fromList, seqElems?, restoreOptGaid_some g (by simpa using hp), hv, majorOk, h1, h2]
  | _ => simp at hma

theorem hardfork_inj (a b : HardFork) (h : a.toItem = b.toItem) : a = b := by
  obtain ⟨pa, xa, ya⟩ := a
  obtain ⟨pb, xb, yb⟩ := b
  simp only [HardFork.toItem, Item.array.injEq, List.cons.injEq, and_true, true_and] at h
  obtain ⟨hp, hx, hy⟩ := h
  subst hx hy
  cases pa with
  | none => cases pb with
    | none => rfl
    | some g => simp [GovActionId.toItem] at hp
  | some g => cases pb with
    | none => simp [GovActionId.toItem] at hp
    | some g' => simp [gaid_inj g g' hp]

/-! ## decoded objects are fixed points of decode ∘ encode (for EVERY accepted primitive, ill-typed payloads included) -/

theorem hashCtor_stable (n : Nat) (i p : Item) (h : hashCtor n i = .ok p) : hashCtor n p = .ok p := by
  unfold hashCtor at h
  cases i with
  | bytes b =>
    simp only [pyLen?, pyObj] at h
    split at h
    · rename_i hl; cases h; simp [hl]
    · cases h
  | bytesChunked cs =>
    simp only [pyLen?, pyObj] at h
    split at h
    · rename_i hl; cases h; simp [hl]
    · cases h
  | text t =>
    simp only [pyLen?, pyObj] at h
    split at h
    · rename_i hl; cases h; simp [hashCtor, pyLen?, pyObj, hl]
    · cases h
  | array xs =>
    simp only [pyLen?, pyObj] at h
    split at h
    · rename_i hl; cases h; simp [hashCtor, pyLen?, pyObj, hl]
    · cases h
  | arrayIndef xs =>
    simp only [pyLen?, pyObj] at h
    split at h
    · rename_i hl; cases h; simp [hashCtor, pyLen?, pyObj, hl]
    · cases h
  | map kvs =>
    simp only [pyLen?, pyObj] at h
    split at h
    · rename_i hl; cases h; simp [hashCtor, pyLen?, pyObj, hl]
    · cases h
  | simple m =>
    simp only [pyLen?] at h
    split at h
    · rename_i hs
      simp only [pyObj] at h
      split at h
      · rename_i hl; cases h; simp [hashCtor, pyLen?, pyObj, hs, hl]
      · cases h
    · cases h
  | uint m => simp [pyLen?] at h
  | nint m => simp [pyLen?] at h
  | tag t x => simp [pyLen?] at h

theorem idxCtor_stable (i k : Item) (h : idxCtor i = .ok k) : idxCtor k = .ok k := by
  unfold idxCtor at h
  split at h
  · rename_i v hv
    split at h
    · rename_i hr
      cases h
      cases i with
      | uint n => simp only [pyObj]; simp [idxCtor, hv, hr, pyObj]
      | simple m => simp only [pyObj]; simp [idxCtor, hv, hr, pyObj]
      | tag t x =>
        have hi : itemInt? (.tag t x) = some v := by simpa [pyNum?] using hv
        have hn : v.toNat < 2 ^ 64 := by omega
        have h0 : (0 : Int) ≤ v := hr.1
        have hu : ofInt v = .uint v.toNat := by simp [ofInt, h0, hn]
        have hvv : ((v.toNat : Nat) : Int) = v := by omega
        simp only [pyObj, hi, hu]
        simp [idxCtor, pyObj, hvv, hr]
      | nint m =>
        have : v = -1 - (m : Int) := by simpa [pyNum?, itemInt?] using hv.symm
        omega
      | bytes b => simp [pyNum?, itemInt?] at hv
      | bytesChunked cs => simp [pyNum?, itemInt?] at hv
      | text t => simp [pyNum?, itemInt?] at hv
      | array xs => simp [pyNum?, itemInt?] at hv
      | arrayIndef xs => simp [pyNum?, itemInt?] at hv
      | map kvs => simp [pyNum?, itemInt?] at hv
    · cases h
  · cases h

theorem cbytesFromPrim_len (n : Nat) (i : Item) (b : Bytes) (h : cbytesFromPrim n i = .ok b) : b.length = n := by
  unfold cbytesFromPrim at h
  split at h
  · split at h
    · rename_i hl; cases h; exact hl
    · cases h
  · split at h
    · rename_i hl; cases h; exact hl
    · cases h
  · split at h
    · split at h
      · rename_i hl; cases h; exact hl
      · cases h
    · cases h
  · cases h

theorem bind_eq_ok {α β : Type} (r : Res α) (f : α → Res β) (b : β) (h : Res.bind r f = .ok b) :
    ∃ a, r = .ok a ∧ f a = .ok b := by
  cases r with
  | ok a => exact ⟨a, rfl, h⟩
  | deser => cases h
  | crash => cases h


/-! the `@limit_primitive_type` wrapper: an accepted primitive is a sequence whose body accepts it -/
theorem seq_ok {α : Type} (f : List Item → Res α) (i : Item) (a : α)
    (h : (match seqElems? i with | some xs => f xs | Option.none => Res.deser) = .ok a) : ∃ xs, f xs = .ok a := by
  split at h
  · exact ⟨_, h⟩
  · cases h

theorem cred_stable (i : Item) (c : Cred) (h : Cred.fromItem i = .ok c) : Cred.fromItem c.toItem = .ok c := by
  obtain ⟨xs, h⟩ := seq_ok Cred.fromList i c h
  unfold Cred.fromList at h
  split at h
  · cases h
  · rename_i cd rest
    split at h
    · split at h
      · cases h
      · obtain ⟨p, hp, he⟩ := bind_eq_ok _ _ _ h
        cases he
        simp [Cred.toItem, Cred.fromItem, Cred.fromList, seqElems?, Cred.code, hashCtor_stable _ _ _ hp]
    · split at h
      · split at h
        · cases h
        · obtain ⟨p, hp, he⟩ := bind_eq_ok _ _ _ h
          cases he
          simp [Cred.toItem, Cred.fromItem, Cred.fromList, seqElems?, Cred.code, hashCtor_stable _ _ _ hp]
      · cases h

theorem anchor_decoded_wf (i : Item) (a : Anchor) (h : Anchor.fromItem i = .ok a) : a.wf = true := by
  unfold Anchor.fromItem at h
  split at h
  · unfold Anchor.fromList at h
    split at h
    · cases h
    · split at h
      · split at h
        · cases h
        · obtain ⟨b, hb, he⟩ := bind_eq_ok _ _ _ h
          cases he
          simp [Anchor.wf, cbytesFromPrim_len _ _ _ hb]
      · cases h
  · cases h

theorem anchor_stable (i : Item) (a : Anchor) (h : Anchor.fromItem i = .ok a) : Anchor.fromItem a.toItem = .ok a :=
  anchor_rt a (anchor_decoded_wf i a h)

theorem vp_decoded_wf (i : Item) (p : VotingProcedure) (h : VotingProcedure.fromItem i = .ok p) : p.wf = true := by
  unfold VotingProcedure.fromItem at h
  split at h
  · split at h
    · cases h
    · split at h
      · cases h
      · split at h
        · cases h
        · split at h
          · cases h; rfl
          · obtain ⟨an, han, he⟩ := bind_eq_ok _ _ _ h
            cases he
            simpa [VotingProcedure.wf] using anchor_decoded_wf _ _ han
  · cases h

theorem vp_stable (i : Item) (p : VotingProcedure) (h : VotingProcedure.fromItem i = .ok p) :
    VotingProcedure.fromItem p.toItem = .ok p := vp_rt p (vp_decoded_wf i p h)

theorem gaid_stable (i : Item) (g : GovActionId) (h : GovActionId.fromItem i = .ok g) :
    GovActionId.fromItem g.toItem = .ok g := by
  obtain ⟨xs, h⟩ := seq_ok GovActionId.fromList i g h
  unfold GovActionId.fromList at h
  split at h
  · obtain ⟨t, ht, h2⟩ := bind_eq_ok _ _ _ h
    obtain ⟨k, hk, he⟩ := bind_eq_ok _ _ _ h2
    cases he
    simp [GovActionId.toItem, GovActionId.fromItem, GovActionId.fromList, seqElems?, hashCtor_stable _ _ _ ht,
      idxCtor_stable _ _ hk]
  · cases h

theorem drep_stable (i : Item) (d : DRep) (h : DRep.fromItem i = .ok d) : DRep.fromItem d.toItem = .ok d := by
  unfold DRep.fromItem at h
  split at h
  · split at h
    · cases h
    · split at h
      · cases h
      · split at h
        · cases h
        · obtain ⟨p, hp, he⟩ := bind_eq_ok _ _ _ h
          cases he
          simp [DRep.toItem, DRep.fromItem, DRepKind.code, DRepKind.ofNum?, hashCtor_stable _ _ _ hp]
      · split at h
        · cases h
        · obtain ⟨p, hp, he⟩ := bind_eq_ok _ _ _ h
          cases he
          simp [DRep.toItem, DRep.fromItem, DRepKind.code, DRepKind.ofNum?, hashCtor_stable _ _ _ hp]
      · rename_i k hk1 hk2 _
        cases h
        cases k with
        | keyHash => exact absurd rfl (hk1 ·)
        | scriptHash => exact absurd rfl (hk2 ·)
        | alwaysAbstain => simp [DRep.toItem, DRep.fromItem, DRepKind.code, DRepKind.ofNum?]
        | alwaysNoConfidence => simp [DRep.toItem, DRep.fromItem, DRepKind.code, DRepKind.ofNum?]
  · cases h

theorem drep_decoded_coherent (i : Item) (d : DRep) (h : DRep.fromItem i = .ok d) : d.coherent = true := by
  unfold DRep.fromItem at h
  split at h
  · split at h
    · cases h
    · split at h
      · cases h
      · split at h
        · cases h
        · obtain ⟨p, hp, he⟩ := bind_eq_ok _ _ _ h
          cases he; rfl
      · split at h
        · cases h
        · obtain ⟨p, hp, he⟩ := bind_eq_ok _ _ _ h
          cases he; rfl
      · rename_i k hk1 hk2 _
        cases h
        cases k with
        | keyHash => exact absurd rfl (hk1 ·)
        | scriptHash => exact absurd rfl (hk2 ·)
        | alwaysAbstain => rfl
        | alwaysNoConfidence => rfl
  · cases h

theorem voter_stable (i : Item) (v : Voter) (h : Voter.fromItem i = .ok v) : Voter.fromItem v.toItem = .ok v := by
  obtain ⟨xs, h⟩ := seq_ok Voter.fromList i v h
  unfold Voter.fromList at h
  split at h
  · cases h
  · split at h
    · cases h
    · rename_i k hk
      split at h
      · rename_i hr
        split at h
        · cases h
        · obtain ⟨p, hp, he⟩ := bind_eq_ok _ _ _ h
          cases he
          have hs := hashCtor_stable _ _ _ hp
          rcases hr with rfl | rfl | rfl | rfl | rfl <;>
            simp [Voter.toItem, Voter.fromItem, Voter.fromList, seqElems?, Voter.code, hs]
      · cases h

theorem voter_decoded_constructible (i : Item) (v : Voter) (h : Voter.fromItem i = .ok v) :
    (v.vtype != .stakingPool || v.isKey) = true := by
  obtain ⟨xs, h⟩ := seq_ok Voter.fromList i v h
  unfold Voter.fromList at h
  split at h
  · cases h
  · split at h
    · cases h
    · rename_i k hk
      split at h
      · rename_i hr
        split at h
        · cases h
        · obtain ⟨p, hp, he⟩ := bind_eq_ok _ _ _ h
          cases he
          rcases hr with rfl | rfl | rfl | rfl | rfl <;> simp
      · cases h

theorem restoreInt_stable (i x : Item) (h : restoreInt i = .ok x) : restoreInt x = .ok x := by
  unfold restoreInt at h
  split at h
  · rename_i v hv
    cases h
    simp [restoreInt, Pyc.Custom.itemInt_ofInt_all]
  · split at h
    · split at h
      · rename_i n hn
        cases h
        rcases hn with rfl | rfl <;> simp [restoreInt, itemInt?]
      · cases h
    · cases h

theorem restoreOptGaid_stable (i : Item) (g : Option GovActionId) (h : restoreOptGaid i = .ok g) :
    restoreOptGaid (match g with | some x => x.toItem | Option.none => .simple 22) = .ok g := by
  cases g with
  | none => exact restoreOptGaid_null
  | some x =>
    unfold restoreOptGaid at h
    split at h
    · rename_i y hy
      cases h
      simp [restoreOptGaid, gaid_stable _ _ hy]
    · cases h
    · split at h <;> cases h

theorem restoreVersion_stable (i : Item) (mm : Item × Item) (h : restoreVersion i = .ok mm) :
    restoreVersion (.array [mm.1, mm.2]) = .ok mm := by
  unfold restoreVersion at h
  split at h
  · obtain ⟨x, hx, h2⟩ := bind_eq_ok _ _ _ h
    obtain ⟨y, hy, he⟩ := bind_eq_ok _ _ _ h2
    cases he
    simp [restoreVersion, listElems?, restoreInt_stable _ _ hx, restoreInt_stable _ _ hy]
  · cases h

theorem hardfork_stable (i : Item) (x : HardFork) (h : HardFork.fromItem i = .ok x) : HardFork.fromItem x.toItem = .ok x := by
  obtain ⟨xs, h⟩ := seq_ok HardFork.fromList i x h
  unfold HardFork.fromList at h
  split at h
  · cases h
  · split at h
    · split at h
      · cases h
      · obtain ⟨_, _, he⟩ := bind_eq_ok _ _ _ h
        cases he
      · obtain ⟨g, hg, h2⟩ := bind_eq_ok _ _ _ h
        obtain ⟨mm, hmm, h3⟩ := bind_eq_ok _ _ _ h2
        split at h3
        · rename_i hok
          cases h3
          have h5 := restoreVersion_stable _ _ hmm
          cases g with
          | none => simp [HardFork.toItem, HardFork.fromItem, HardFork.fromList, seqElems?, restoreOptGaid_null, h5, hok]
          | some gg =>
            have h4 : restoreOptGaid gg.toItem = .ok (some gg) := restoreOptGaid_stable _ (some gg) hg
            simp [HardFork.toItem, HardFork.fromItem, HardFork.fromList, seqElems?, h4, h5, hok]
        · cases h3
    · cases h

/-! ## `DictCBORSerializable` with a key class -/

section Dict
variable {κ ν : Type}

theorem assocSet_fresh (keq : κ → κ → Bool) (m : List (κ × ν)) (k : κ) (v : ν)
    (h : ∀ p ∈ m, keq p.1 k = false) : assocSet keq m k v = m ++ [(k, v)] := by
  induction m with
  | nil => rfl
  | cons q r ih =>
    obtain ⟨k', v'⟩ := q
    have h1 : keq k' k = false := h (k', v') (by simp)
    simp [assocSet, h1, ih (fun p hp => h p (by simp [hp]))]

/-- the decoding loop over the images of entries with pairwise distinct keys appends them in wire order (`keq`, the key
class's `__eq__`, only identifies keys that are written alike: `hs`) -/
theorem decDictLoop_images (ek : κ → Item) (keq : κ → κ → Bool) (dk : Item → Res κ) (dv : Item → Res ν) (ev : ν → Item)
    (nv : ν → ν) (l acc : List (κ × ν))
    (hk : ∀ p ∈ l, dk (ek p.1) = .ok p.1) (hv : ∀ p ∈ l, dv (ev p.2) = .ok (nv p.2))
    (hs : ∀ p ∈ acc ++ l, ∀ q ∈ acc ++ l, keq p.1 q.1 = true → keyBytes ek p.1 = keyBytes ek q.1)
    (hd : ((acc ++ l).map fun p => keyBytes ek p.1).Nodup) :
    decDictLoop keq dk dv acc (l.map fun p => (ek p.1, ev p.2)) = .ok (acc ++ l.map fun p => (p.1, nv p.2)) := by
  induction l generalizing acc with
  | nil => simp [decDictLoop]
  | cons q r ih =>
    obtain ⟨k, v⟩ := q
    have h1 := hk (k, v) (by simp)
    have h2 := hv (k, v) (by simp)
    simp only at h1 h2
    simp only [List.map_cons, decDictLoop, h1, h2]
    have hfresh : ∀ p ∈ acc, keq p.1 k = false := by
      intro p hp
      cases hq : keq p.1 k with
      | false => rfl
      | true =>
        have he := hs p (by simp [hp]) (k, v) (by simp) hq
        rw [List.map_append, List.map_cons, List.nodup_append] at hd
        exact absurd he (hd.2.2 _ (List.mem_map.2 ⟨p, hp, rfl⟩) _ (by simp))
    rw [assocSet_fresh keq acc k (nv v) hfresh]
    have hd' : (((acc ++ [(k, nv v)]) ++ r).map fun p => keyBytes ek p.1).Nodup := by
      simpa [List.map_append] using hd
    have hs' : ∀ p ∈ (acc ++ [(k, nv v)]) ++ r, ∀ q ∈ (acc ++ [(k, nv v)]) ++ r, keq p.1 q.1 = true →
        keyBytes ek p.1 = keyBytes ek q.1 := by
      have key : ∀ p ∈ (acc ++ [(k, nv v)]) ++ r, ∃ p' ∈ acc ++ (k, v) :: r, p'.1 = p.1 := by
        intro p hp
        simp only [List.mem_append, List.mem_cons, List.mem_nil_iff, or_false] at hp
        rcases hp with (hp | rfl) | hp
        · exact ⟨p, by simp [hp], rfl⟩
        · exact ⟨(k, v), by simp, rfl⟩
        · exact ⟨p, by simp [hp], rfl⟩
      intro p hp q hq he
      obtain ⟨p', hp', e1⟩ := key p hp
      obtain ⟨q', hq', e2⟩ := key q hq
      rw [← e1, ← e2]
      exact hs p' hp' q' hq' (by rw [e1, e2]; exact he)
    rw [ih (acc ++ [(k, nv v)]) (fun p hp => hk p (by simp [hp])) (fun p hp => hv p (by simp [hp])) hs' hd']
    simp

theorem sortDict_perm (ek : κ → Item) (m : List (κ × ν)) : (sortDict ek m).Perm m := isort_perm _ _

theorem sortPairs_map (ek : κ → Item) (ev : ν → Item) (m : List (κ × ν)) :
    sortPairs (m.map fun p => (ek p.1, ev p.2)) = (sortDict ek m).map fun p => (ek p.1, ev p.2) := by
  unfold sortPairs sortDict
  exact (map_isort _ _ (fun p : κ × ν => (ek p.1, ev p.2)) (fun a b => rfl) m).symm

/-- **round trip of a dict class**: keys and values round-trip (values up to their normal form `nv`), keys pairwise
distinct: decoding the encoding returns the entries in canonical order -/
theorem decDict_encDict (ek : κ → Item) (keq : κ → κ → Bool) (dk : Item → Res κ) (dv : Item → Res ν) (ev : ν → Item)
    (nv : ν → ν) (m : List (κ × ν)) (hk : ∀ p ∈ m, dk (ek p.1) = .ok p.1) (hv : ∀ p ∈ m, dv (ev p.2) = .ok (nv p.2))
    (hs : ∀ p ∈ m, ∀ q ∈ m, keq p.1 q.1 = true → keyBytes ek p.1 = keyBytes ek q.1)
    (hd : DistinctKeys ek m) :
    decDict keq dk dv (encDict ek ev m) = .ok ((sortDict ek m).map fun p => (p.1, nv p.2)) := by
  unfold decDict encDict
  simp only [sortPairs_map]
  have hp := sortDict_perm ek m
  have := decDictLoop_images ek keq dk dv ev nv (sortDict ek m) []
    (fun p h => hk p (hp.subset h)) (fun p h => hv p (hp.subset h))
    (fun p h q h' => hs p (hp.subset (by simpa using h)) q (hp.subset (by simpa using h')))
    (by simpa using ((hp.map fun p : κ × ν => keyBytes ek p.1).nodup_iff).2 hd)
  simpa using this

theorem sortDict_sorted (ek : κ → Item) (m : List (κ × ν)) :
    (sortDict ek m).Pairwise (fun a b => lenLexLe (keyBytes ek a.1) (keyBytes ek b.1) = true) :=
  isort_pairwise (fun a b : κ × ν => lenLexLe (keyBytes ek a.1) (keyBytes ek b.1))
    (fun _ _ _ h1 h2 => lenLexLe_trans _ _ _ h1 h2) (fun _ _ => lenLexLe_total _ _) m

/-- with distinct keys the canonical order is strict -/
theorem sortDict_strict (ek : κ → Item) (m : List (κ × ν)) (hd : DistinctKeys ek m) :
    (sortDict ek m).Pairwise (fun a b => lenLexLe (keyBytes ek a.1) (keyBytes ek b.1) = true ∧
      keyBytes ek a.1 ≠ keyBytes ek b.1) := by
  have h1 := sortDict_sorted ek m
  have h2 : ((sortDict ek m).map fun p => keyBytes ek p.1).Nodup :=
    (((sortDict_perm ek m).map fun p : κ × ν => keyBytes ek p.1).nodup_iff).2 hd
  rw [List.Nodup, List.pairwise_map] at h2
  exact h1.and h2

/-- the canonical order does not depend on the insertion order -/
theorem sortDict_unique (ek : κ → Item) (m₁ m₂ : List (κ × ν)) (hd : DistinctKeys ek m₁) (hp : m₁.Perm m₂) :
    sortDict ek m₁ = sortDict ek m₂ := by
  have p1 := sortDict_perm ek m₁
  have p2 := sortDict_perm ek m₂
  apply List.Perm.eq_of_pairwise (le := fun a b => lenLexLe (keyBytes ek a.1) (keyBytes ek b.1) = true) _
    (sortDict_sorted ek m₁) (sortDict_sorted ek m₂) (p1.trans (hp.trans p2.symm))
  intro a b ha hb h1 h2
  have ha' : a ∈ m₁ := p1.subset ha
  have hb' : b ∈ m₁ := hp.symm.subset (p2.subset hb)
  have hkey : keyBytes ek a.1 = keyBytes ek b.1 := lenLexLe_antisymm _ _ h1 h2
  -- two entries of a list with pairwise distinct keys that have the same key are the same entry
  have : ∀ (l : List (κ × ν)), (l.map fun p => keyBytes ek p.1).Nodup → a ∈ l → b ∈ l → a = b := by
    intro l
    induction l with
    | nil => intro _ h; cases h
    | cons q r ih =>
      intro hn hma hmb
      rw [List.map_cons, List.nodup_cons] at hn
      simp only [List.mem_cons] at hma hmb
      rcases hma with rfl | hma
      · rcases hmb with rfl | hmb
        · rfl
        · exact absurd (List.mem_map.2 ⟨b, hmb, hkey.symm⟩) hn.1
      · rcases hmb with rfl | hmb
        · exact absurd (List.mem_map.2 ⟨a, hma, hkey⟩) hn.1
        · exact ih hn.2 hma hmb
  exact this m₁ hd ha' hb'

theorem distinct_of_perm (ek : κ → Item) {m₁ m₂ : List (κ × ν)} (hp : m₁.Perm m₂) (hd : DistinctKeys ek m₂) :
    DistinctKeys ek m₁ := ((hp.map fun p : κ × ν => keyBytes ek p.1).nodup_iff).2 hd

theorem sortDict_idem (ek : κ → Item) (m : List (κ × ν)) : sortDict ek (sortDict ek m) = sortDict ek m :=
  Pyc.Custom.isort_of_sorted _ _ (sortDict_sorted ek m)

end Dict

/-! ## `GovActionIdToVotingProcedure`, `VotingProcedures` -/

theorem votes_wf_mem (m : GovVotes) (h : GovVotes.wf m = true) : ∀ p ∈ m, p.1.wf = true ∧ p.2.wf = true := by
  intro p hp
  have := (List.all_eq_true.1 h) p hp
  simpa using this

theorem vps_wf_mem (m : VotingProcedures) (h : VotingProcedures.wf m = true) :
    ∀ p ∈ m, p.1.wf = true ∧ GovVotes.wf p.2 = true := by
  intro p hp
  have := (List.all_eq_true.1 h) p hp
  simpa using this

theorem gaid_keq_sound (a b : GovActionId) (ha : a.wf = true) (hb : b.wf = true) (h : GovActionId.pyEqB a b = true) :
    keyBytes GovActionId.toItem a = keyBytes GovActionId.toItem b := by
  obtain ⟨ta, ia⟩ := a
  obtain ⟨tb, ib⟩ := b
  simp only [GovActionId.wf, Bool.and_eq_true] at ha hb
  obtain ⟨x, rfl, hx⟩ := (isHashB_iff 32 ta).1 ha.1
  obtain ⟨y, rfl, hy⟩ := (isHashB_iff 32 tb).1 hb.1
  obtain ⟨n, rfl, hn⟩ := (isIdxB_iff ia).1 ha.2
  obtain ⟨m, rfl, hm⟩ := (isIdxB_iff ib).1 hb.2
  simp only [GovActionId.pyEqB, Bool.and_eq_true, beq_iff_eq, pyNum_uint, Option.some.injEq, Int.natCast_inj] at h
  have hxy : (Item.bytes x) = .bytes y := encode_inj _ _ (wf_bytes32 x hx) (wf_bytes32 y hy) h.1
  simp only [Item.bytes.injEq] at hxy
  rw [hxy, h.2]

theorem voter_keq_sound (a b : Voter) (ha : a.wf = true) (hb : b.wf = true) (h : Voter.pyEqB a b = true) :
    keyBytes Voter.toItem a = keyBytes Voter.toItem b := by
  obtain ⟨ta, ka, pa⟩ := a
  obtain ⟨tb, kb, pb⟩ := b
  simp only [Voter.wf, Bool.and_eq_true] at ha hb
  obtain ⟨x, rfl, hx⟩ := (isHashB_iff 28 pa).1 ha.1
  obtain ⟨y, rfl, hy⟩ := (isHashB_iff 28 pb).1 hb.1
  simp only [Voter.pyEqB, Bool.and_eq_true, beq_iff_eq] at h
  have hxy : (Item.bytes x) = .bytes y := encode_inj _ _ (wf_bytes28 x hx) (wf_bytes28 y hy) h.2
  simp only [Item.bytes.injEq] at hxy
  subst hxy
  have h1 := h.1
  simp only [Voter.code] at h1
  simp only [keyBytes, Voter.toItem, Voter.code, h1]

theorem votes_rt (m : GovVotes) (hw : GovVotes.wf m = true) (hd : DistinctKeys GovActionId.toItem m) :
    GovVotes.fromItem (GovVotes.toItem m) = .ok (GovVotes.canon m) := by
  have := decDict_encDict GovActionId.toItem GovActionId.pyEqB GovActionId.fromItem VotingProcedure.fromItem
    VotingProcedure.toItem id m
    (fun p hp => gaid_rt p.1 (votes_wf_mem m hw p hp).1) (fun p hp => vp_rt p.2 (votes_wf_mem m hw p hp).2)
    (fun p hp q hq => gaid_keq_sound p.1 q.1 (votes_wf_mem m hw p hp).1 (votes_wf_mem m hw q hq).1) hd
  simpa [GovVotes.fromItem, GovVotes.toItem, GovVotes.canon] using this

theorem vps_rt (m : VotingProcedures) (hw : VotingProcedures.wf m = true) (hd : VotingProcedures.Distinct m) :
    VotingProcedures.fromItem (VotingProcedures.toItem m) = .ok (VotingProcedures.canon m) := by
  have := decDict_encDict Voter.toItem Voter.pyEqB Voter.fromItem GovVotes.fromItem GovVotes.toItem GovVotes.canon m
    (fun p hp => voter_rt p.1 (vps_wf_mem m hw p hp).1)
    (fun p hp => votes_rt p.2 (vps_wf_mem m hw p hp).2 (hd.2 p hp))
    (fun p hp q hq => voter_keq_sound p.1 q.1 (vps_wf_mem m hw p hp).1 (vps_wf_mem m hw q hq).1) hd.1
  simpa [VotingProcedures.fromItem, VotingProcedures.toItem, VotingProcedures.canon] using this

theorem votes_canon_pyeq (m : GovVotes) : GovVotes.PyEq (GovVotes.canon m) m := sortDict_perm _ m

theorem vps_rel_map (m : VotingProcedures) :
    VotingProcedures.Rel (m.map fun p => (p.1, GovVotes.canon p.2)) m := by
  induction m with
  | nil => trivial
  | cons p r ih => exact ⟨rfl, votes_canon_pyeq p.2, ih⟩

theorem vps_canon_pyeq (m : VotingProcedures) : VotingProcedures.PyEq (VotingProcedures.canon m) m :=
  ⟨m.map (fun p : Voter × GovVotes => (p.1, GovVotes.canon p.2)),
    (sortDict_perm Voter.toItem m).map (fun p : Voter × GovVotes => (p.1, GovVotes.canon p.2)), vps_rel_map m⟩

theorem votes_reencode (m : GovVotes) : GovVotes.toItem (GovVotes.canon m) = GovVotes.toItem m := by
  simp only [GovVotes.toItem, GovVotes.canon, encDict, sortPairs_map, sortDict_idem]

/-- sorting commutes with a map that keeps the keys -/
theorem sortDict_map_val {κ ν : Type} (ek : κ → Item) (g : ν → ν) (m : List (κ × ν)) :
    sortDict ek (m.map fun p => (p.1, g p.2)) = (sortDict ek m).map fun p => (p.1, g p.2) := by
  unfold sortDict
  exact (map_isort _ _ (fun p : κ × ν => (p.1, g p.2)) (fun _ _ => rfl) m).symm

theorem vps_reencode (m : VotingProcedures) :
    VotingProcedures.toItem (VotingProcedures.canon m) = VotingProcedures.toItem m := by
  unfold VotingProcedures.toItem VotingProcedures.canon encDict
  rw [sortPairs_map, sortPairs_map, sortDict_map_val, sortDict_idem, List.map_map]
  congr 1
  apply List.map_congr_left
  intro p _
  simp [votes_reencode]

theorem votes_order_independent (a b : GovVotes) (hd : DistinctKeys GovActionId.toItem a) (h : GovVotes.PyEq a b) :
    GovVotes.toItem a = GovVotes.toItem b := by
  simp only [GovVotes.toItem, encDict, sortPairs_map, sortDict_unique _ a b hd h]

theorem vps_rel_item (a b : VotingProcedures) (hd : ∀ p ∈ a, DistinctKeys GovActionId.toItem p.2)
    (h : VotingProcedures.Rel a b) :
    (a.map fun p => (Voter.toItem p.1, GovVotes.toItem p.2)) = b.map fun p => (Voter.toItem p.1, GovVotes.toItem p.2) := by
  induction a generalizing b with
  | nil => cases b with
    | nil => rfl
    | cons _ _ => exact absurd h (by simp [VotingProcedures.Rel])
  | cons x xs ih =>
    cases b with
    | nil => exact absurd h (by simp [VotingProcedures.Rel])
    | cons y ys =>
      obtain ⟨h1, h2, h3⟩ := h
      simp only [List.map_cons, List.cons.injEq]
      refine ⟨?_, ih ys (fun p hp => hd p (by simp [hp])) h3⟩
      rw [h1, votes_order_independent x.2 y.2 (hd x (by simp)) h2]

theorem vps_order_independent (a b : VotingProcedures) (hd : VotingProcedures.Distinct a) (h : VotingProcedures.PyEq a b) :
    VotingProcedures.toItem a = VotingProcedures.toItem b := by
  obtain ⟨b', hp, hr⟩ := h
  have h1 : VotingProcedures.toItem a = VotingProcedures.toItem b' := by
    simp only [VotingProcedures.toItem, encDict, sortPairs_map, sortDict_unique _ a b' hd.1 hp]
  have h2 : VotingProcedures.toItem b' = VotingProcedures.toItem b := by
    simp only [VotingProcedures.toItem, encDict]
    rw [vps_rel_item b' b (fun p hp' => hd.2 p (hp.symm.subset hp')) hr]
  rw [h1, h2]

/-- the keys of the emitted map are strictly increasing in the (length, bytes) order of their encodings -/
def StrictlySorted (kvs : List (Item × Item)) : Prop :=
  kvs.Pairwise fun a b => lenLexLe (encode a.1) (encode b.1) = true ∧ encode a.1 ≠ encode b.1

theorem encDict_sorted {κ ν : Type} (ek : κ → Item) (ev : ν → Item) (m : List (κ × ν)) (hd : DistinctKeys ek m) :
    ∃ kvs, encDict ek ev m = .map kvs ∧ StrictlySorted kvs ∧ kvs.length = m.length := by
  refine ⟨_, rfl, ?_, ?_⟩
  · rw [sortPairs_map]
    unfold StrictlySorted
    rw [List.pairwise_map]
    exact sortDict_strict ek m hd
  · rw [sortPairs_map, List.length_map]
    exact (sortDict_perm ek m).length_eq

/-! well-formedness of the emitted items (for the byte level) -/

theorem wfPairs_iff (l : List (Item × Item)) : Cbor.WFPairs l ↔ ∀ p ∈ l, Cbor.WF p.1 ∧ Cbor.WF p.2 := by
  induction l with
  | nil => simp [Cbor.WFPairs]
  | cons q r ih =>
    obtain ⟨k, v⟩ := q
    simp only [Cbor.WFPairs, ih, List.mem_cons, forall_eq_or_imp]
    constructor
    · rintro ⟨a, b, c⟩; exact ⟨⟨a, b⟩, c⟩
    · rintro ⟨⟨a, b⟩, c⟩; exact ⟨a, b, c⟩

theorem keysHashablePairs_iff (l : List (Item × Item)) :
    keysHashablePairs l = true ↔ ∀ p ∈ l, hasIndef p.1 = false ∧ keysHashable p.1 = true ∧ keysHashable p.2 = true := by
  induction l with
  | nil => simp [keysHashablePairs]
  | cons q r ih =>
    obtain ⟨k, v⟩ := q
    simp only [keysHashablePairs, Bool.and_eq_true, ih, List.mem_cons, forall_eq_or_imp, Bool.not_eq_true']
    constructor
    · rintro ⟨⟨⟨a, b⟩, c⟩, d⟩; exact ⟨⟨a, b, c⟩, d⟩
    · rintro ⟨⟨a, b, c⟩, d⟩; exact ⟨⟨⟨a, b⟩, c⟩, d⟩

theorem encDict_wf {κ ν : Type} (ek : κ → Item) (ev : ν → Item) (m : List (κ × ν)) (hl : m.length < 2 ^ 64)
    (h : ∀ p ∈ m, Cbor.WF (ek p.1) ∧ Cbor.WF (ev p.2)) : Cbor.WF (encDict ek ev m) := by
  unfold encDict
  rw [sortPairs_map]
  simp only [Cbor.WF, List.length_map, (sortDict_perm ek m).length_eq, hl, true_and, wfPairs_iff]
  intro p hp
  obtain ⟨q, hq, rfl⟩ := List.mem_map.1 hp
  exact h q ((sortDict_perm ek m).subset hq)

theorem encDict_hashable {κ ν : Type} (ek : κ → Item) (ev : ν → Item) (m : List (κ × ν))
    (h : ∀ p ∈ m, hasIndef (ek p.1) = false ∧ keysHashable (ek p.1) = true ∧ keysHashable (ev p.2) = true) :
    keysHashable (encDict ek ev m) = true := by
  unfold encDict
  rw [sortPairs_map]
  simp only [keysHashable, keysHashablePairs_iff]
  intro p hp
  obtain ⟨q, hq, rfl⟩ := List.mem_map.1 hp
  exact h q ((sortDict_perm ek m).subset hq)

theorem gaid_item_noindef (g : GovActionId) (h : g.wf = true) : hasIndef g.toItem = false := by
  obtain ⟨t, i⟩ := g
  simp only [GovActionId.wf, Bool.and_eq_true] at h
  obtain ⟨b, rfl, hb⟩ := (isHashB_iff 32 t).1 h.1
  obtain ⟨n, rfl, hn⟩ := (isIdxB_iff i).1 h.2
  simp [GovActionId.toItem, hasIndef, hasIndefList]

theorem voter_item_noindef (v : Voter) (h : v.wf = true) : hasIndef v.toItem = false := by
  obtain ⟨t, k, p⟩ := v
  simp only [Voter.wf, Bool.and_eq_true] at h
  obtain ⟨b, rfl, hb⟩ := (isHashB_iff 28 p).1 h.1
  simp [Voter.toItem, hasIndef, hasIndefList]

/-! ## `PoolId` -/

theorem isPoolId_ascii (s : List Char) (h : isPoolId s = true) : ∀ c ∈ s, 33 ≤ c.toNat ∧ c.toNat ≤ 126 := by
  simp only [isPoolId, Bool.and_eq_true] at h
  have h2 := h.2
  unfold Bech32.bech32Decode at h2
  split at h2
  · simp at h2
  · rename_i hc
    intro c hcmem
    have ha : s.any (fun x => decide (x.toNat < 33) || decide (x.toNat > 126)) = false := by
      cases hh : s.any (fun x => decide (x.toNat < 33) || decide (x.toNat > 126))
      · rfl
      · simp [hh] at hc
    have := (List.any_eq_false.1 ha) c hcmem
    simp only [Bool.or_eq_true, decide_eq_true_eq, not_or, Nat.not_lt, gt_iff_lt] at this
    omega

theorem chars_bytes_chars (s : List Char) (h : ∀ c ∈ s, c.toNat ≤ 126) :
    (s.map fun c => UInt8.ofNat c.toNat).map (fun b => Char.ofNat b.toNat) = s := by
  rw [List.map_map]
  conv => rhs; rw [← List.map_id s]
  apply List.map_congr_left
  intro c hc
  have : c.toNat < 256 := by have := h c hc; omega
  simp [Pyc.Cbor.u8_toNat_ofNat c.toNat this]

theorem poolid_rt (p : PoolId) (h : p.wf = true) : PoolId.fromItem p.toItem = .ok p := by
  obtain ⟨s⟩ := p
  have hs : isPoolId s = true := h
  have hc := chars_bytes_chars s (fun c hc => (isPoolId_ascii s hs c hc).2)
  simp only [PoolId.toItem, PoolId.fromItem, hc, hs, if_true]

theorem bytes_of_chars_inj (s t : List Char) (hs : ∀ c ∈ s, c.toNat ≤ 126) (ht : ∀ c ∈ t, c.toNat ≤ 126)
    (h : (s.map fun c => UInt8.ofNat c.toNat) = t.map fun c => UInt8.ofNat c.toNat) : s = t := by
  rw [← chars_bytes_chars s hs, ← chars_bytes_chars t ht, h]

theorem hrpOk_pool : Bech32.HrpOk "pool".toList := by
  refine ⟨by decide, ?_⟩
  decide

/-- the library's own bech32 encoder with the prefix `pool` produces an accepted pool id for every payload -/
theorem poolid_of_bytes (bs : Bytes) : ∃ s, Bech32.encode "pool".toList bs = some s ∧ isPoolId s = true := by
  obtain ⟨out, _, ho, _, he⟩ := Bech32.encode_eq "pool".toList bs hrpOk_pool
  refine ⟨_, he, ?_⟩
  have hd := Bech32.bech32Decode_bech32Encode "pool".toList out hrpOk_pool ho
  simp only [isPoolId, hd, Option.isSome_some, Bool.and_true]
  exact List.isPrefixOf_iff_prefix.2 (List.prefix_append _ _)

/-! ## abstraction to the abstract syntax of the CDDL (`Spec/Gov.lean`) -/

/-- the bytes a well-typed payload holds -/
def payloadBytes : Item → Bytes
  | .bytes b => b
  | _ => []

def payloadNat : Item → Nat
  | .uint n => n
  | _ => 0

def Cred.abs (c : Cred) : Spec.Gov.Credential :=
  if c.isKey then .keyHash (payloadBytes c.hash) else .scriptHash (payloadBytes c.hash)

/-- by kind (the class of the hash object plays no role on the wire) -/
def DRep.abs (d : DRep) : Spec.Gov.DRep :=
  match d.kind with
  | .keyHash => .keyHash (match d.cred with | some (_, h) => payloadBytes h | Option.none => [])
  | .scriptHash => .scriptHash (match d.cred with | some (_, h) => payloadBytes h | Option.none => [])
  | .alwaysAbstain => .alwaysAbstain
  | .alwaysNoConfidence => .alwaysNoConfidence

def Voter.abs (v : Voter) : Spec.Gov.Voter :=
  match v.vtype with
  | .committeeHot => if v.isKey then .committeeKey (payloadBytes v.hash) else .committeeScript (payloadBytes v.hash)
  | .drep => if v.isKey then .drepKey (payloadBytes v.hash) else .drepScript (payloadBytes v.hash)
  | .stakingPool => .stakePool (payloadBytes v.hash)

def Anchor.abs (a : Anchor) : Spec.Gov.Anchor := ⟨a.url, a.hash⟩

def Vote.abs : Vote → Spec.Gov.Vote
  | .no => .no
  | .yes => .yes
  | .abstain => .abstain

def VotingProcedure.abs (p : VotingProcedure) : Spec.Gov.VotingProcedure := ⟨p.vote.abs, p.anchor.map Anchor.abs⟩

def GovActionId.abs (g : GovActionId) : Spec.Gov.GovActionId := ⟨payloadBytes g.txid, payloadNat g.idx⟩

def HardFork.abs (h : HardFork) : Spec.Gov.HardFork := ⟨h.prev.map GovActionId.abs, payloadNat h.major, payloadNat h.minor⟩

/-- the extra size limit of the CDDL that the library does not enforce: `url = text .size (0 .. 128)` -/
def Anchor.urlOk (a : Anchor) : Bool := decide (a.url.length ≤ 128)
def VotingProcedure.urlOk (p : VotingProcedure) : Bool :=
  match p.anchor with
  | some a => a.urlOk
  | Option.none => true

theorem cred_abs (c : Cred) (h : c.wf = true) : c.toItem = (Cred.abs c).enc ∧ (Cred.abs c).ok = true := by
  obtain ⟨k, p⟩ := c
  obtain ⟨b, rfl, hb⟩ := (isHashB_iff 28 p).1 h
  cases k <;> simp [Cred.toItem, Cred.code, Cred.abs, payloadBytes, Spec.Gov.Credential.enc, Spec.Gov.Credential.ok, hb]

theorem drep_abs (d : DRep) (ht : d.typed = true) (ha : d.arityOk = true) :
    d.toItem = (DRep.abs d).enc ∧ (DRep.abs d).ok = true := by
  obtain ⟨k, c⟩ := d
  cases c with
  | none =>
    cases k <;> first
      | (simp [DRep.arityOk] at ha; done)
      | simp [DRep.toItem, DRepKind.code, DRep.abs, Spec.Gov.DRep.enc, Spec.Gov.DRep.ok]
  | some q =>
    obtain ⟨key, p⟩ := q
    obtain ⟨b, rfl, hb⟩ := (isHashB_iff 28 p).1 (by simpa [DRep.typed] using ht)
    cases k <;> first
      | (simp [DRep.arityOk] at ha; done)
      | simp [DRep.toItem, DRepKind.code, DRep.abs, payloadBytes, Spec.Gov.DRep.enc, Spec.Gov.DRep.ok, hb]

theorem voter_abs (v : Voter) (h : v.wf = true) : v.toItem = (Voter.abs v).enc ∧ (Voter.abs v).ok = true := by
  obtain ⟨t, k, p⟩ := v
  simp only [Voter.wf, Bool.and_eq_true] at h
  obtain ⟨b, rfl, hb⟩ := (isHashB_iff 28 p).1 h.1
  cases t <;> cases k <;>
    simp_all [Voter.toItem, Voter.code, Voter.abs, payloadBytes, Spec.Gov.Voter.enc, Spec.Gov.Voter.ok, Spec.Gov.Voter.hash]

theorem anchor_abs (a : Anchor) (h : a.wf = true) (hu : a.urlOk = true) :
    a.toItem = (Anchor.abs a).enc ∧ (Anchor.abs a).ok = true := by
  obtain ⟨u, b⟩ := a
  simp only [Anchor.wf, beq_iff_eq] at h
  simp only [Anchor.urlOk, decide_eq_true_eq] at hu
  simp [Anchor.toItem, Anchor.abs, Spec.Gov.Anchor.enc, Spec.Gov.Anchor.ok, h, hu]

theorem vote_abs (v : Vote) : Item.uint v.code = (Vote.abs v).enc := by
  cases v <;> rfl

theorem vp_abs (p : VotingProcedure) (h : p.wf = true) (hu : p.urlOk = true) :
    p.toItem = (VotingProcedure.abs p).enc ∧ (VotingProcedure.abs p).ok = true := by
  obtain ⟨v, a⟩ := p
  cases a with
  | none => simp [VotingProcedure.toItem, VotingProcedure.abs, Spec.Gov.VotingProcedure.enc, Spec.Gov.VotingProcedure.ok, vote_abs]
  | some a =>
    have := anchor_abs a (by simpa [VotingProcedure.wf] using h) (by simpa [VotingProcedure.urlOk] using hu)
    simp [VotingProcedure.toItem, VotingProcedure.abs, Spec.Gov.VotingProcedure.enc, Spec.Gov.VotingProcedure.ok, vote_abs,
      this.1, this.2]

theorem gaid_abs (g : GovActionId) (h : g.wf = true) : g.toItem = (GovActionId.abs g).enc ∧ (GovActionId.abs g).ok = true := by
  obtain ⟨t, i⟩ := g
  simp only [GovActionId.wf, Bool.and_eq_true] at h
  obtain ⟨b, rfl, hb⟩ := (isHashB_iff 32 t).1 h.1
  obtain ⟨n, rfl, hn⟩ := (isIdxB_iff i).1 h.2
  have : n < 65536 := by omega
  simp [GovActionId.toItem, GovActionId.abs, payloadBytes, payloadNat, Spec.Gov.GovActionId.enc, Spec.Gov.GovActionId.ok, hb, this]

theorem hardfork_abs (x : HardFork) (h : x.wf = true) : x.toItem = (HardFork.abs x).enc ∧ (HardFork.abs x).ok = true := by
  obtain ⟨p, ma, mi⟩ := x
  simp only [HardFork.wf, Bool.and_eq_true] at h
  obtain ⟨⟨hp, hma⟩, hmi⟩ := h
  obtain ⟨m, rfl, hm⟩ := (isUIntB_iff mi).1 hmi
  cases ma with
  | uint n =>
    simp only [decide_eq_true_eq] at hma
    have hn : n ≤ 12 := by omega
    cases p with
    | none => simp [HardFork.toItem, HardFork.abs, payloadNat, Spec.Gov.HardFork.enc, Spec.Gov.HardFork.ok, hn, hm]
    | some g =>
      have := gaid_abs g (by simpa using hp)
      simp [HardFork.toItem, HardFork.abs, payloadNat, Spec.Gov.HardFork.enc, Spec.Gov.HardFork.ok, hn, hm, this.1, this.2]
  | _ => simp at hma

/-! ## the two renderings of each CDDL rule agree: the recogniser accepts exactly the image of the encoder -/

end Pyc.Gov

namespace Pyc.Spec.Gov
open Pyc Pyc.Cbor

theorem isBytesN_iff (n : Nat) (i : Item) : isBytesN n i = true ↔ ∃ b, i = .bytes b ∧ b.length = n := by
  cases i <;> simp [isBytesN]

theorem credential_enc_valid (x : Credential) (h : x.ok = true) : isCredential x.enc = true := by
  cases x <;> simp_all [Credential.enc, Credential.ok, isCredential, isBytesN]

theorem credential_valid_enc (i : Item) (h : isCredential i = true) : ∃ x : Credential, x.ok = true ∧ x.enc = i := by
  unfold isCredential at h
  split at h
  · rename_i c p
    simp only [Bool.and_eq_true, Bool.or_eq_true, beq_iff_eq] at h
    obtain ⟨b, rfl, hb⟩ := (isBytesN_iff 28 p).1 h.2
    rcases h.1 with rfl | rfl
    · exact ⟨.keyHash b, by simp [Credential.ok, hb], rfl⟩
    · exact ⟨.scriptHash b, by simp [Credential.ok, hb], rfl⟩
  · cases h

theorem drep_enc_valid (x : DRep) (h : x.ok = true) : isDRep x.enc = true := by
  cases x <;> simp_all [DRep.enc, DRep.ok, isDRep, isBytesN]

theorem drep_valid_enc (i : Item) (h : isDRep i = true) : ∃ x : DRep, x.ok = true ∧ x.enc = i := by
  unfold isDRep at h
  split at h
  · rename_i c p
    simp only [Bool.and_eq_true, Bool.or_eq_true, beq_iff_eq] at h
    obtain ⟨b, rfl, hb⟩ := (isBytesN_iff 28 p).1 h.2
    rcases h.1 with rfl | rfl
    · exact ⟨.keyHash b, by simp [DRep.ok, hb], rfl⟩
    · exact ⟨.scriptHash b, by simp [DRep.ok, hb], rfl⟩
  · rename_i c
    simp only [Bool.or_eq_true, beq_iff_eq] at h
    rcases h with rfl | rfl
    · exact ⟨.alwaysAbstain, rfl, rfl⟩
    · exact ⟨.alwaysNoConfidence, rfl, rfl⟩
  · cases h

theorem voter_enc_valid (x : Voter) (h : x.ok = true) : isVoter x.enc = true := by
  cases x <;> simp_all [Voter.enc, Voter.ok, Voter.hash, isVoter, isBytesN]

theorem voter_valid_enc (i : Item) (h : isVoter i = true) : ∃ x : Voter, x.ok = true ∧ x.enc = i := by
  unfold isVoter at h
  split at h
  · rename_i c p
    simp only [Bool.and_eq_true, decide_eq_true_eq] at h
    obtain ⟨b, rfl, hb⟩ := (isBytesN_iff 28 p).1 h.2
    have hc : c = 0 ∨ c = 1 ∨ c = 2 ∨ c = 3 ∨ c = 4 := by omega
    rcases hc with rfl | rfl | rfl | rfl | rfl
    · exact ⟨.committeeKey b, by simp [Voter.ok, Voter.hash, hb], rfl⟩
    · exact ⟨.committeeScript b, by simp [Voter.ok, Voter.hash, hb], rfl⟩
    · exact ⟨.drepKey b, by simp [Voter.ok, Voter.hash, hb], rfl⟩
    · exact ⟨.drepScript b, by simp [Voter.ok, Voter.hash, hb], rfl⟩
    · exact ⟨.stakePool b, by simp [Voter.ok, Voter.hash, hb], rfl⟩
  · cases h

theorem anchor_enc_valid (x : Anchor) (h : x.ok = true) : isAnchor x.enc = true := by
  simp_all [Anchor.enc, Anchor.ok, isAnchor, isBytesN]

theorem anchor_valid_enc (i : Item) (h : isAnchor i = true) : ∃ x : Anchor, x.ok = true ∧ x.enc = i := by
  unfold isAnchor at h
  split at h
  · rename_i u p
    simp only [Bool.and_eq_true, decide_eq_true_eq] at h
    obtain ⟨b, rfl, hb⟩ := (isBytesN_iff 32 p).1 h.2
    exact ⟨⟨u, b⟩, by simp [Anchor.ok, hb, h.1], rfl⟩
  · cases h

theorem anchor_enc_not_nil (x : Anchor) : isNil x.enc = false := by simp [Anchor.enc, isNil]

theorem vp_enc_valid (x : VotingProcedure) (h : x.ok = true) : isVotingProcedure x.enc = true := by
  obtain ⟨v, a⟩ := x
  cases a with
  | none => cases v <;> simp [VotingProcedure.enc, Vote.enc, isVotingProcedure, isVote, isNil]
  | some a =>
    have := anchor_enc_valid a (by simpa [VotingProcedure.ok] using h)
    cases v <;> simp [VotingProcedure.enc, Vote.enc, isVotingProcedure, isVote, this]

theorem vote_valid_enc (i : Item) (h : isVote i = true) : ∃ v : Vote, v.enc = i := by
  unfold isVote at h
  split at h
  · rename_i n
    simp only [decide_eq_true_eq] at h
    have hc : n = 0 ∨ n = 1 ∨ n = 2 := by omega
    rcases hc with rfl | rfl | rfl
    · exact ⟨.no, rfl⟩
    · exact ⟨.yes, rfl⟩
    · exact ⟨.abstain, rfl⟩
  · cases h

theorem nil_iff (i : Item) : isNil i = true ↔ i = .simple 22 := by
  cases i <;> simp [isNil]

theorem vp_valid_enc (i : Item) (h : isVotingProcedure i = true) : ∃ x : VotingProcedure, x.ok = true ∧ x.enc = i := by
  unfold isVotingProcedure at h
  split at h
  · rename_i v a
    simp only [Bool.and_eq_true, Bool.or_eq_true] at h
    obtain ⟨vv, rfl⟩ := vote_valid_enc v h.1
    rcases h.2 with ha | ha
    · obtain ⟨x, hx, rfl⟩ := anchor_valid_enc a ha
      exact ⟨⟨vv, some x⟩, by simpa [VotingProcedure.ok] using hx, by simp [VotingProcedure.enc]⟩
    · rw [nil_iff] at ha
      subst ha
      exact ⟨⟨vv, none⟩, rfl, by simp [VotingProcedure.enc]⟩
  · cases h

theorem gaid_enc_valid (x : GovActionId) (h : x.ok = true) : isGovActionId x.enc = true := by
  simp_all [GovActionId.enc, GovActionId.ok, isGovActionId, isBytesN]

theorem gaid_valid_enc (i : Item) (h : isGovActionId i = true) : ∃ x : GovActionId, x.ok = true ∧ x.enc = i := by
  unfold isGovActionId at h
  split at h
  · rename_i t n
    simp only [Bool.and_eq_true, decide_eq_true_eq] at h
    obtain ⟨b, rfl, hb⟩ := (isBytesN_iff 32 t).1 h.1
    exact ⟨⟨b, n⟩, by simp [GovActionId.ok, hb, h.2], rfl⟩
  · cases h

theorem gaid_enc_not_nil (x : GovActionId) : isNil x.enc = false := by simp [GovActionId.enc, isNil]

theorem hardfork_enc_valid (x : HardFork) (h : x.ok = true) : isHardFork x.enc = true := by
  obtain ⟨p, ma, mi⟩ := x
  simp only [HardFork.ok, Bool.and_eq_true, decide_eq_true_eq] at h
  cases p with
  | none => simp [HardFork.enc, isHardFork, isNil, h.1.2, h.2]
  | some g =>
    have := gaid_enc_valid g (by simpa using h.1.1)
    simp [HardFork.enc, isHardFork, this, h.1.2, h.2]

theorem hardfork_valid_enc (i : Item) (h : isHardFork i = true) : ∃ x : HardFork, x.ok = true ∧ x.enc = i := by
  unfold isHardFork at h
  split at h
  · rename_i c p ma mi
    simp only [Bool.and_eq_true, Bool.or_eq_true, beq_iff_eq, decide_eq_true_eq] at h
    obtain ⟨⟨⟨rfl, hp⟩, hma⟩, hmi⟩ := h
    rcases hp with hp | hp
    · obtain ⟨g, hg, rfl⟩ := gaid_valid_enc p hp
      exact ⟨⟨some g, ma, mi⟩, by simp [HardFork.ok, hg, hma, hmi], rfl⟩
    · rw [nil_iff] at hp
      subst hp
      exact ⟨⟨none, ma, mi⟩, by simp [HardFork.ok, hma, hmi], rfl⟩
  · cases h

theorem keysDistinct_iff (l : List (Item × Item)) :
    keysDistinct l = true ↔ l.Pairwise (fun a b => encode a.1 ≠ encode b.1) := by
  induction l with
  | nil => simp [keysDistinct]
  | cons q r ih =>
    obtain ⟨k, v⟩ := q
    simp only [keysDistinct, Bool.and_eq_true, ih, List.pairwise_cons, List.all_eq_true, bne_iff_ne, ne_eq]
    constructor
    · rintro ⟨h1, h2⟩; exact ⟨fun a ha he => h1 a ha he.symm, h2⟩
    · rintro ⟨h1, h2⟩; exact ⟨fun a ha he => h1 a ha he.symm, h2⟩

end Pyc.Spec.Gov

namespace Pyc.Gov
open Pyc Pyc.Cbor Pyc.Codec

/-! ## every item the CDDL rule admits is accepted, decoded to a well-formed object, and written back unchanged -/

theorem cred_complete (i : Item) (h : Spec.Gov.isCredential i = true) :
    ∃ c : Cred, c.wf = true ∧ Cred.fromItem i = .ok c ∧ c.toItem = i := by
  obtain ⟨x, hx, rfl⟩ := Spec.Gov.credential_valid_enc i h
  cases x with
  | keyHash b =>
    have hw : (⟨true, .bytes b⟩ : Cred).wf = true := by simpa [Cred.wf, isHashB, Spec.Gov.Credential.ok] using hx
    exact ⟨⟨true, .bytes b⟩, hw, cred_rt _ hw, rfl⟩
  | scriptHash b =>
    have hw : (⟨false, .bytes b⟩ : Cred).wf = true := by simpa [Cred.wf, isHashB, Spec.Gov.Credential.ok] using hx
    exact ⟨⟨false, .bytes b⟩, hw, cred_rt _ hw, rfl⟩

theorem drep_complete (i : Item) (h : Spec.Gov.isDRep i = true) :
    ∃ d : DRep, d.typed = true ∧ d.coherent = true ∧ DRep.fromItem i = .ok d ∧ d.toItem = i := by
  obtain ⟨x, hx, rfl⟩ := Spec.Gov.drep_valid_enc i h
  cases x with
  | keyHash b =>
    have hw : (⟨.keyHash, some (true, .bytes b)⟩ : DRep).typed = true := by
      simpa [DRep.typed, isHashB, Spec.Gov.DRep.ok] using hx
    exact ⟨_, hw, rfl, drep_rt _ hw rfl, rfl⟩
  | scriptHash b =>
    have hw : (⟨.scriptHash, some (false, .bytes b)⟩ : DRep).typed = true := by
      simpa [DRep.typed, isHashB, Spec.Gov.DRep.ok] using hx
    exact ⟨_, hw, rfl, drep_rt _ hw rfl, rfl⟩
  | alwaysAbstain => exact ⟨⟨.alwaysAbstain, Option.none⟩, rfl, rfl, drep_rt ⟨.alwaysAbstain, Option.none⟩ rfl rfl, rfl⟩
  | alwaysNoConfidence =>
    exact ⟨⟨.alwaysNoConfidence, Option.none⟩, rfl, rfl, drep_rt ⟨.alwaysNoConfidence, Option.none⟩ rfl rfl, rfl⟩

theorem voter_complete (i : Item) (h : Spec.Gov.isVoter i = true) :
    ∃ v : Voter, v.wf = true ∧ Voter.fromItem i = .ok v ∧ v.toItem = i := by
  obtain ⟨x, hx, rfl⟩ := Spec.Gov.voter_valid_enc i h
  cases x with
  | committeeKey b =>
    have hw : (⟨.committeeHot, true, .bytes b⟩ : Voter).wf = true := by
      simpa [Voter.wf, isHashB, Spec.Gov.Voter.ok, Spec.Gov.Voter.hash] using hx
    exact ⟨_, hw, voter_rt _ hw, rfl⟩
  | committeeScript b =>
    have hw : (⟨.committeeHot, false, .bytes b⟩ : Voter).wf = true := by
      simpa [Voter.wf, isHashB, Spec.Gov.Voter.ok, Spec.Gov.Voter.hash] using hx
    exact ⟨_, hw, voter_rt _ hw, rfl⟩
  | drepKey b =>
    have hw : (⟨.drep, true, .bytes b⟩ : Voter).wf = true := by
      simpa [Voter.wf, isHashB, Spec.Gov.Voter.ok, Spec.Gov.Voter.hash] using hx
    exact ⟨_, hw, voter_rt _ hw, rfl⟩
  | drepScript b =>
    have hw : (⟨.drep, false, .bytes b⟩ : Voter).wf = true := by
      simpa [Voter.wf, isHashB, Spec.Gov.Voter.ok, Spec.Gov.Voter.hash] using hx
    exact ⟨_, hw, voter_rt _ hw, rfl⟩
  | stakePool b =>
    have hw : (⟨.stakingPool, true, .bytes b⟩ : Voter).wf = true := by
      simpa [Voter.wf, isHashB, Spec.Gov.Voter.ok, Spec.Gov.Voter.hash] using hx
    exact ⟨_, hw, voter_rt _ hw, rfl⟩

theorem anchor_complete (i : Item) (h : Spec.Gov.isAnchor i = true) :
    ∃ a : Anchor, a.wf = true ∧ Anchor.fromItem i = .ok a ∧ a.toItem = i := by
  obtain ⟨x, hx, rfl⟩ := Spec.Gov.anchor_valid_enc i h
  obtain ⟨u, b⟩ := x
  have hw : (⟨u, b⟩ : Anchor).wf = true := by
    simp only [Spec.Gov.Anchor.ok, Bool.and_eq_true] at hx
    simpa [Anchor.wf] using hx.2
  exact ⟨_, hw, anchor_rt _ hw, rfl⟩

def Vote.ofSpec : Spec.Gov.Vote → Vote
  | .no => .no
  | .yes => .yes
  | .abstain => .abstain

theorem vote_ofSpec_item (v : Spec.Gov.Vote) : Item.uint (Vote.ofSpec v).code = v.enc := by cases v <;> rfl

theorem vp_complete (i : Item) (h : Spec.Gov.isVotingProcedure i = true) :
    ∃ p : VotingProcedure, p.wf = true ∧ VotingProcedure.fromItem i = .ok p ∧ p.toItem = i := by
  obtain ⟨x, hx, rfl⟩ := Spec.Gov.vp_valid_enc i h
  obtain ⟨v, a⟩ := x
  cases a with
  | none =>
    have hi : (⟨Vote.ofSpec v, Option.none⟩ : VotingProcedure).toItem = Spec.Gov.VotingProcedure.enc ⟨v, none⟩ := by
      simp [VotingProcedure.toItem, Spec.Gov.VotingProcedure.enc, vote_ofSpec_item]
    exact ⟨_, rfl, by rw [← hi]; exact vp_rt _ rfl, hi⟩
  | some a =>
    obtain ⟨u, b⟩ := a
    have hw : (⟨Vote.ofSpec v, some ⟨u, b⟩⟩ : VotingProcedure).wf = true := by
      simp only [Spec.Gov.VotingProcedure.ok, Spec.Gov.Anchor.ok, Bool.and_eq_true] at hx
      simpa [VotingProcedure.wf, Anchor.wf] using hx.2
    have hi : (⟨Vote.ofSpec v, some ⟨u, b⟩⟩ : VotingProcedure).toItem = Spec.Gov.VotingProcedure.enc ⟨v, some ⟨u, b⟩⟩ := by
      simp [VotingProcedure.toItem, Spec.Gov.VotingProcedure.enc, vote_ofSpec_item, Anchor.toItem, Spec.Gov.Anchor.enc]
    exact ⟨_, hw, by rw [← hi]; exact vp_rt _ hw, hi⟩

theorem gaid_complete (i : Item) (h : Spec.Gov.isGovActionId i = true) :
    ∃ g : GovActionId, g.wf = true ∧ GovActionId.fromItem i = .ok g ∧ g.toItem = i := by
  obtain ⟨x, hx, rfl⟩ := Spec.Gov.gaid_valid_enc i h
  obtain ⟨b, n⟩ := x
  have hw : (⟨.bytes b, .uint n⟩ : GovActionId).wf = true := by
    simp only [Spec.Gov.GovActionId.ok, Bool.and_eq_true, beq_iff_eq, decide_eq_true_eq] at hx
    have : n ≤ 65535 := by omega
    simp [GovActionId.wf, isHashB, isIdxB, hx.1, this]
  exact ⟨_, hw, gaid_rt _ hw, rfl⟩

theorem hardfork_complete (i : Item) (h : Spec.Gov.isHardFork i = true)
    (hm : ∀ c p ma mi, i = .array [c, p, .array [.uint ma, mi]] → 1 ≤ ma ∧ ma ≤ 10) :
    ∃ x : HardFork, x.wf = true ∧ HardFork.fromItem i = .ok x ∧ x.toItem = i := by
  obtain ⟨s, hs, rfl⟩ := Spec.Gov.hardfork_valid_enc i h
  obtain ⟨p, ma, mi⟩ := s
  have hr := hm (.uint 1) _ ma (.uint mi) rfl
  simp only [Spec.Gov.HardFork.ok, Bool.and_eq_true, decide_eq_true_eq] at hs
  cases p with
  | none =>
    have hw : (⟨Option.none, .uint ma, .uint mi⟩ : HardFork).wf = true := by
      simp [HardFork.wf, isUIntB, hr.1, hr.2, hs.2]
    exact ⟨_, hw, hardfork_rt _ hw, rfl⟩
  | some g =>
    obtain ⟨b, n⟩ := g
    have hg : (⟨.bytes b, .uint n⟩ : GovActionId).wf = true := by
      have := hs.1.1
      simp only [Spec.Gov.GovActionId.ok, Bool.and_eq_true, beq_iff_eq, decide_eq_true_eq] at this
      have h2 : n ≤ 65535 := by omega
      simp [GovActionId.wf, isHashB, isIdxB, this.1, h2]
    have hw : (⟨some ⟨.bytes b, .uint n⟩, .uint ma, .uint mi⟩ : HardFork).wf = true := by
      simp [HardFork.wf, isUIntB, hr.1, hr.2, hs.2, hg]
    exact ⟨_, hw, hardfork_rt _ hw, rfl⟩

/-! ## `voting_procedures = {+ voter => {+ gov_action_id => voting_procedure}}` -/

theorem table_valid {κ ν : Type} (ek : κ → Item) (ev : ν → Item) (isK isV : Item → Bool) (m : List (κ × ν))
    (hne : m ≠ []) (hd : DistinctKeys ek m) (h : ∀ p ∈ m, isK (ek p.1) = true ∧ isV (ev p.2) = true) :
    Spec.Gov.isTable isK isV (encDict ek ev m) = true := by
  unfold encDict Spec.Gov.isTable
  rw [sortPairs_map]
  have hp := sortDict_perm ek m
  simp only [Bool.and_eq_true, Bool.not_eq_true', List.isEmpty_eq_false_iff, ne_eq, List.map_eq_nil_iff, List.all_eq_true,
    Spec.Gov.keysDistinct_iff]
  refine ⟨⟨?_, ?_⟩, ?_⟩
  · intro he
    rw [he] at hp
    exact hne (List.Perm.nil_eq hp).symm
  · intro q hq
    obtain ⟨p, hp', rfl⟩ := List.mem_map.1 hq
    have := h p (hp.subset hp')
    simp [this.1, this.2]
  · rw [List.pairwise_map]
    exact (sortDict_strict ek m hd).imp (fun h => h.2)

end Pyc.Gov

namespace Pyc.Gov
open Pyc Pyc.Cbor Pyc.Codec

/-! ## byte level for the dict classes: sizes that fit CBOR heads -/

/-- fewer than 2^64 entries, urls shorter than 2^64 bytes (everything that fits in memory) -/
def GovVotes.Sized (m : GovVotes) : Prop :=
  m.length < 2 ^ 64 ∧ ∀ p ∈ m, ∀ a, p.2.anchor = some a → a.url.length < 2 ^ 64

def VotingProcedures.Sized (m : VotingProcedures) : Prop := m.length < 2 ^ 64 ∧ ∀ p ∈ m, GovVotes.Sized p.2

theorem votes_item_wf (m : GovVotes) (hw : GovVotes.wf m = true) (hs : GovVotes.Sized m) : Cbor.WF (GovVotes.toItem m) :=
  encDict_wf _ _ m hs.1 (fun p hp =>
    ⟨gaid_item_wf p.1 (votes_wf_mem m hw p hp).1, vp_item_wf p.2 (votes_wf_mem m hw p hp).2 (hs.2 p hp)⟩)

theorem votes_item_hashable (m : GovVotes) (hw : GovVotes.wf m = true) : keysHashable (GovVotes.toItem m) = true :=
  encDict_hashable _ _ m (fun p hp =>
    ⟨gaid_item_noindef p.1 (votes_wf_mem m hw p hp).1, gaid_item_hashable p.1 (votes_wf_mem m hw p hp).1,
      vp_item_hashable p.2⟩)

theorem vps_item_wf (m : VotingProcedures) (hw : VotingProcedures.wf m = true) (hs : VotingProcedures.Sized m) :
    Cbor.WF (VotingProcedures.toItem m) :=
  encDict_wf _ _ m hs.1 (fun p hp =>
    ⟨voter_item_wf p.1 (vps_wf_mem m hw p hp).1, votes_item_wf p.2 (vps_wf_mem m hw p hp).2 (hs.2 p hp)⟩)

theorem vps_item_hashable (m : VotingProcedures) (hw : VotingProcedures.wf m = true) :
    keysHashable (VotingProcedures.toItem m) = true :=
  encDict_hashable _ _ m (fun p hp =>
    ⟨voter_item_noindef p.1 (vps_wf_mem m hw p hp).1, voter_item_hashable p.1 (vps_wf_mem m hw p hp).1,
      votes_item_hashable p.2 (vps_wf_mem m hw p hp).2⟩)

theorem hardfork_item_wf (x : HardFork) (h : x.wf = true) : Cbor.WF x.toItem := by
  obtain ⟨p, ma, mi⟩ := x
  simp only [HardFork.wf, Bool.and_eq_true] at h
  obtain ⟨⟨hp, hma⟩, hmi⟩ := h
  obtain ⟨m, rfl, hm⟩ := (isUIntB_iff mi).1 hmi
  cases ma with
  | uint n =>
    simp only [decide_eq_true_eq] at hma
    have hn : n < 2 ^ 64 := by omega
    cases p with
    | none => simp [HardFork.toItem, Cbor.WF, Cbor.WFList, hn, hm]
    | some g =>
      have := gaid_item_wf g (by simpa using hp)
      simp [HardFork.toItem, Cbor.WF, Cbor.WFList, hn, hm, this]
  | _ => simp at hma

theorem hardfork_item_hashable (x : HardFork) (h : x.wf = true) : keysHashable x.toItem = true := by
  obtain ⟨p, ma, mi⟩ := x
  simp only [HardFork.wf, Bool.and_eq_true] at h
  obtain ⟨⟨hp, hma⟩, hmi⟩ := h
  obtain ⟨m, rfl, hm⟩ := (isUIntB_iff mi).1 hmi
  cases ma with
  | uint n =>
    cases p with
    | none => simp [HardFork.toItem, keysHashable, keysHashableList]
    | some g =>
      have := gaid_item_hashable g (by simpa using hp)
      simp [HardFork.toItem, keysHashable, keysHashableList, this]
  | _ => simp at hma

theorem poolid_item_wf (p : PoolId) (h : p.value.length < 2 ^ 64) : Cbor.WF p.toItem := by
  simp [PoolId.toItem, Cbor.WF, h]

end Pyc.Gov

namespace Pyc.Gov
open Pyc Pyc.Cbor Pyc.Codec

theorem restoreInt_ofInt (v : Int) : restoreInt (ofInt v) = .ok (ofInt v) := by
  simp [restoreInt, Pyc.Custom.itemInt_ofInt_all]

/-- a hard-fork action built from Python ints of ANY size for the minor version (bignums included) -/
theorem hardfork_rt_int (p : Option GovActionId) (n : Nat) (v : Int)
    (hp : ∀ g, p = some g → g.wf = true) (hn : 1 ≤ n ∧ n ≤ 10) :
    HardFork.fromItem (HardFork.toItem ⟨p, .uint n, ofInt v⟩) = .ok ⟨p, .uint n, ofInt v⟩ := by
  have hn64 : n < 2 ^ 64 := by omega
  have h1 : (1 : Int) ≤ (n : Int) := by omega
  have h2 : (n : Int) ≤ 10 := by omega
  have hv : restoreVersion (.array [.uint n, ofInt v]) = .ok (.uint n, ofInt v) := by
    simp [restoreVersion, listElems?, restoreInt_uint n hn64, restoreInt_ofInt]
  cases p with
  | none => simp [HardFork.toItem, HardFork.fromItem, HardFork.fromList, seqElems?, restoreOptGaid_null, hv, majorOk, h1, h2]
  | some g =>
    simp [HardFork.toItem, HardFork.fromItem, HardFork.fromList, seqElems?, restoreOptGaid_some g (hp g rfl), hv, majorOk, h1, h2]

end Pyc.Gov
