import Pyc.Model.Pool
import Pyc.Proofs.CustomCodec
import Pyc.Proofs.PoolIp
import Pyc.Proofs.Bech32Str

/-! Helper lemmas for `Props/C01_Pool.lean` / `Props/C02_Pool.lean`: the codec part of `Model/Pool.lean`
(the libc text forms are in `Proofs/PoolIp.lean`). -/

namespace Pyc.Pool
open Pyc Pyc.Cbor Pyc.Codec Pyc.Custom

/-! ## small facts -/

theorem itemInt_null : itemInt? null = Option.none := rfl

theorem toPort_null : toPort null = .none := by
  simp [toPort, null, itemInt?]

theorem toPort_ofInt (i : Int) : toPort (ofInt i) = .int i := by
  simp [toPort, itemInt_ofInt_all]

theorem toName_null : toName null = .none := by simp [toName, null]

theorem toName_text (b : Bytes) : toName (.text b) = .text b := rfl

theorem codeIs_uint (n : Nat) (k : Int) : codeIs (.uint n) k = ((n : Int) == k) := by
  simp [codeIs, itemInt?]

theorem toIpArg_null : toIpArg null = .none := by simp [toIpArg, asBytes?, null]

theorem toIpArg_bytes (b : Bytes) : toIpArg (.bytes b) = .bytes b := by simp [toIpArg, asBytes?]

theorem portOk_item (p : Port) (h : portOk p = true) : ∃ i, itemPort p = some i ∧ toPort i = p := by
  cases p with
  | none => exact ⟨null, rfl, toPort_null⟩
  | int v => exact ⟨ofInt v, rfl, toPort_ofInt v⟩
  | junk i => simp [portOk] at h

theorem nameOk_item (d : Name) (h : nameOk d = true) : ∃ i, itemName d = some i ∧ toName i = d := by
  cases d with
  | none => exact ⟨null, rfl, toName_null⟩
  | text b => exact ⟨.text b, rfl, rfl⟩
  | junk i => simp [nameOk] at h

/-- a canonical IPv4 text: the bytes it stands for, which `inet_ntoa` writes as that text -/
theorem canon4_spec (t : Bytes) (h : canon4 t = true) : ∃ b, aton t = some b ∧ ntoa b = some t := by
  unfold canon4 at h
  split at h
  · rename_i b hb
    split at h
    · rename_i t' ht'
      have : t' = t := by simpa using h
      subst this
      exact ⟨b, hb, ht'⟩
    · simp at h
  · simp at h

theorem canon6_spec (t : Bytes) (h : canon6 t = true) : ∃ b, pton6 t = some b ∧ ntop6 b = some t := by
  unfold canon6 at h
  split at h
  · rename_i b hb
    split at h
    · rename_i t' ht'
      have : t' = t := by simpa using h
      subst this
      exact ⟨b, hb, ht'⟩
    · simp at h
  · simp at h

/-- a stored address that is absent or canonical: the item written for it, and what the constructor makes of that item -/
theorem ip4_item (a : Option Bytes) (h : optAll canon4 a = true) :
    ∃ i, itemIp aton a = some i ∧ ctorIp aton ntoa (toIpArg i) = some a := by
  cases a with
  | none => exact ⟨null, rfl, by simp [toIpArg_null, ctorIp, argToBytes, bytesToText]⟩
  | some t =>
    obtain ⟨b, hb, ht⟩ := canon4_spec t h
    exact ⟨.bytes b, by simp [itemIp, hb], by simp [toIpArg_bytes, ctorIp, argToBytes, bytesToText, ht]⟩

theorem ip6_item (a : Option Bytes) (h : optAll canon6 a = true) :
    ∃ i, itemIp pton6 a = some i ∧ ctorIp pton6 ntop6 (toIpArg i) = some a := by
  cases a with
  | none => exact ⟨null, rfl, by simp [toIpArg_null, ctorIp, argToBytes, bytesToText]⟩
  | some t =>
    obtain ⟨b, hb, ht⟩ := canon6_spec t h
    exact ⟨.bytes b, by simp [itemIp, hb], by simp [toIpArg_bytes, ctorIp, argToBytes, bytesToText, ht]⟩

/-! ## relays -/

theorem decRelay_encRelay (r : Relay) (h : relayOk r = true) : ∃ i, encRelay r = some i ∧ decRelay i = .ok r := by
  cases r with
  | addr p a b =>
    simp only [relayOk, Bool.and_eq_true] at h
    obtain ⟨pi, hp1, hp2⟩ := portOk_item p h.1.1
    obtain ⟨ai, ha1, ha2⟩ := ip4_item a h.1.2
    obtain ⟨bi, hb1, hb2⟩ := ip6_item b h.2
    refine ⟨.array [.uint 0, pi, ai, bi], by simp [encRelay, hp1, ha1, hb1], ?_⟩
    simp [decRelay, codeIs_uint, mkAddr, hp2, ha2, hb2]
  | name p d =>
    simp only [relayOk, Bool.and_eq_true] at h
    obtain ⟨pi, hp1, hp2⟩ := portOk_item p h.1
    obtain ⟨di, hd1, hd2⟩ := nameOk_item d h.2
    refine ⟨.array [.uint 1, pi, di], by simp [encRelay, hp1, hd1], ?_⟩
    simp [decRelay, codeIs_uint, hp2, hd2]
  | multi d =>
    simp only [relayOk] at h
    obtain ⟨di, hd1, hd2⟩ := nameOk_item d h
    refine ⟨.array [.uint 2, di], by simp [encRelay, hd1], ?_⟩
    simp [decRelay, codeIs_uint, hd2]

theorem decRelayList_encRelays (rs : List Relay) (h : rs.all relayOk = true) :
    ∃ is, encRelays rs = some is ∧ decRelayList is = .ok rs := by
  induction rs with
  | nil => exact ⟨[], rfl, rfl⟩
  | cons r rs ih =>
    simp only [List.all_cons, Bool.and_eq_true] at h
    obtain ⟨i, hi1, hi2⟩ := decRelay_encRelay r h.1
    obtain ⟨is, his1, his2⟩ := ih h.2
    exact ⟨i :: is, by simp [encRelays, hi1, his1], by simp [decRelayList, Res.bind, hi2, his2]⟩

/-! ## what the constructor makes of bytes is canonical; re-encoding -/

theorem canon4_ntoa (b : Bytes) (h : b.length = 4) : ∃ t, ntoa b = some t ∧ canon4 t = true ∧ aton t = some b := by
  obtain ⟨t, h1, h2⟩ := aton_ntoa b h
  exact ⟨t, h1, by simp [canon4, h2, h1], h2⟩

theorem canon6_ntop6 (b : Bytes) (h : b.length = 16) : ∃ t, ntop6 b = some t ∧ canon6 t = true ∧ pton6 t = some b := by
  obtain ⟨t, h1, h2⟩ := pton6_ntop6 b h
  exact ⟨t, h1, by simp [canon6, h2, h1], h2⟩

theorem itemPort_some (p : Port) (i : Item) (h : itemPort p = some i) : portOk p = true := by
  cases p <;> simp [itemPort, portOk] at h ⊢

theorem itemName_some (d : Name) (i : Item) (h : itemName d = some i) : nameOk d = true := by
  cases d <;> simp [itemName, nameOk] at h ⊢

theorem ip4_reenc (a : Option Bytes) (ai : Item) (h : itemIp aton a = some ai) :
    ∃ a', ctorIp aton ntoa (toIpArg ai) = some a' ∧ optAll canon4 a' = true ∧ itemIp aton a' = some ai := by
  cases a with
  | none =>
    simp only [itemIp, Option.some.injEq] at h
    subst h
    exact ⟨Option.none, by simp [toIpArg_null, ctorIp, argToBytes, bytesToText], rfl, rfl⟩
  | some t =>
    simp only [itemIp] at h
    split at h
    · rename_i b hb
      simp only [Option.some.injEq] at h
      subst h
      obtain ⟨t', h1, h2, h3⟩ := canon4_ntoa b (aton_length t b hb)
      exact ⟨some t', by simp [toIpArg_bytes, ctorIp, argToBytes, bytesToText, h1], h2, by simp [itemIp, h3]⟩
    · simp at h

theorem ip6_reenc (a : Option Bytes) (ai : Item) (h : itemIp pton6 a = some ai) :
    ∃ a', ctorIp pton6 ntop6 (toIpArg ai) = some a' ∧ optAll canon6 a' = true ∧ itemIp pton6 a' = some ai := by
  cases a with
  | none =>
    simp only [itemIp, Option.some.injEq] at h
    subst h
    exact ⟨Option.none, by simp [toIpArg_null, ctorIp, argToBytes, bytesToText], rfl, rfl⟩
  | some t =>
    simp only [itemIp] at h
    split at h
    · rename_i b hb
      simp only [Option.some.injEq] at h
      subst h
      obtain ⟨t', h1, h2, h3⟩ := canon6_ntop6 b (pton6_length t b hb)
      exact ⟨some t', by simp [toIpArg_bytes, ctorIp, argToBytes, bytesToText, h1], h2, by simp [itemIp, h3]⟩
    · simp at h

/-- whatever relay can be written at all decodes to a canonical relay that is written the same way -/
theorem decRelay_of_enc (r : Relay) (i : Item) (h : encRelay r = some i) :
    ∃ r', decRelay i = .ok r' ∧ relayOk r' = true ∧ encRelay r' = some i := by
  cases r with
  | addr p a b =>
    simp only [encRelay] at h
    split at h
    · rename_i pi ai bi hp ha hb
      simp only [Option.some.injEq] at h
      subst h
      have hpo := itemPort_some p pi hp
      obtain ⟨pi', hp1, hp2⟩ := portOk_item p hpo
      have : pi' = pi := by rw [hp] at hp1; exact (Option.some.inj hp1).symm
      subst this
      obtain ⟨a', ha1, ha2, ha3⟩ := ip4_reenc a ai ha
      obtain ⟨b', hb1, hb2, hb3⟩ := ip6_reenc b bi hb
      refine ⟨.addr p a' b', ?_, by simp [relayOk, hpo, ha2, hb2], by simp [encRelay, hp, ha3, hb3]⟩
      simp [decRelay, codeIs_uint, mkAddr, hp2, ha1, hb1]
    · simp at h
  | name p d =>
    simp only [encRelay] at h
    split at h
    · rename_i pi di hp hd
      simp only [Option.some.injEq] at h
      subst h
      have hok : relayOk (.name p d) = true := by simp [relayOk, itemPort_some p pi hp, itemName_some d di hd]
      obtain ⟨i', h1, h2⟩ := decRelay_encRelay _ hok
      have hi : i' = .array [.uint 1, pi, di] := by
        simp only [encRelay, hp, hd, Option.some.injEq] at h1
        exact h1.symm
      subst hi
      exact ⟨_, h2, hok, h1⟩
    · simp at h
  | multi d =>
    simp only [encRelay] at h
    split at h
    · rename_i di hd
      simp only [Option.some.injEq] at h
      subst h
      have hok : relayOk (.multi d) = true := by simp [relayOk, itemName_some d di hd]
      obtain ⟨i', h1, h2⟩ := decRelay_encRelay _ hok
      have hi : i' = .array [.uint 2, di] := by
        simp only [encRelay, hd, Option.some.injEq] at h1
        exact h1.symm
      subst hi
      exact ⟨_, h2, hok, h1⟩
    · simp at h

/-- `SingleHostAddr(port, ipv4=<4 bytes>, ipv6=<16 bytes>)`: constructed, canonical, and written as those bytes -/
theorem mkAddr_bytes (p : Port) (hp : portOk p = true) (b4 b6 : Bytes) (h4 : b4.length = 4) (h6 : b6.length = 16) :
    ∃ r pi, mkAddr p (.bytes b4) (.bytes b6) = some r ∧ relayOk r = true ∧ itemPort p = some pi ∧
      encRelay r = some (.array [.uint 0, pi, .bytes b4, .bytes b6]) := by
  obtain ⟨t4, h41, h42, h43⟩ := canon4_ntoa b4 h4
  obtain ⟨t6, h61, h62, h63⟩ := canon6_ntop6 b6 h6
  obtain ⟨pi, hpi, _⟩ := portOk_item p hp
  exact ⟨.addr p (some t4) (some t6), pi, by simp [mkAddr, ctorIp, argToBytes, bytesToText, h41, h61],
    by simp [relayOk, hp, optAll, h42, h62], hpi, by simp [encRelay, hpi, itemIp, h43, h63]⟩

/-! ## the constructor as a normalisation: constructed relays are exactly the canonical ones -/

/-- whatever the constructor stores for an address argument (text, bytes, or anything else) is absent or canonical -/
theorem ctorIp4_canon (a : IpArg) (o : Option Bytes) (h : ctorIp aton ntoa a = some o) : optAll canon4 o = true := by
  cases a with
  | none => simp only [ctorIp, argToBytes, bytesToText, Option.some.injEq] at h; subst h; rfl
  | text t =>
    simp only [ctorIp, argToBytes] at h
    cases hb : aton t with
    | none => simp [hb] at h
    | some b =>
      obtain ⟨t', h1, h2, _⟩ := canon4_ntoa b (aton_length t b hb)
      simp only [hb, bytesToText, h1, Option.some.injEq] at h
      subst h
      exact h2
  | bytes b =>
    simp only [ctorIp, argToBytes, bytesToText] at h
    cases hb : ntoa b with
    | none => simp [hb] at h
    | some t' =>
      obtain ⟨t'', h1, h2, _⟩ := canon4_ntoa b (ntoa_length b t' hb)
      rw [hb] at h1
      obtain rfl := Option.some.inj h1
      simp only [hb, Option.some.injEq] at h
      subst h
      exact h2

theorem ctorIp6_canon (a : IpArg) (o : Option Bytes) (h : ctorIp pton6 ntop6 a = some o) : optAll canon6 o = true := by
  cases a with
  | none => simp only [ctorIp, argToBytes, bytesToText, Option.some.injEq] at h; subst h; rfl
  | text t =>
    simp only [ctorIp, argToBytes] at h
    cases hb : pton6 t with
    | none => simp [hb] at h
    | some b =>
      obtain ⟨t', h1, h2, _⟩ := canon6_ntop6 b (pton6_length t b hb)
      simp only [hb, bytesToText, h1, Option.some.injEq] at h
      subst h
      exact h2
  | bytes b =>
    simp only [ctorIp, argToBytes, bytesToText] at h
    cases hb : ntop6 b with
    | none => simp [hb] at h
    | some t' =>
      obtain ⟨t'', h1, h2, _⟩ := canon6_ntop6 b (ntop6_length b t' hb)
      rw [hb] at h1
      obtain rfl := Option.some.inj h1
      simp only [hb, Option.some.injEq] at h
      subst h
      exact h2

/-- a canonical text is stored as it is -/
theorem ctorIp4_fixed (o : Option Bytes) (h : optAll canon4 o = true) : ctorIp aton ntoa (textArg o) = some o := by
  cases o with
  | none => rfl
  | some t =>
    obtain ⟨b, hb, ht⟩ := canon4_spec t h
    simp [textArg, ctorIp, argToBytes, bytesToText, hb, ht]

theorem ctorIp6_fixed (o : Option Bytes) (h : optAll canon6 o = true) : ctorIp pton6 ntop6 (textArg o) = some o := by
  cases o with
  | none => rfl
  | some t =>
    obtain ⟨b, hb, ht⟩ := canon6_spec t h
    simp [textArg, ctorIp, argToBytes, bytesToText, hb, ht]

/-- … and only a canonical text is -/
theorem canon4_of_fixed (o : Option Bytes) (h : ctorIp aton ntoa (textArg o) = some o) : optAll canon4 o = true :=
  ctorIp4_canon _ o h

theorem canon6_of_fixed (o : Option Bytes) (h : ctorIp pton6 ntop6 (textArg o) = some o) : optAll canon6 o = true :=
  ctorIp6_canon _ o h

theorem mkAddr_some (p : Port) (a4 a6 : IpArg) (r : Relay) (h : mkAddr p a4 a6 = some r) :
    ∃ a b, r = .addr p a b ∧ ctorIp aton ntoa a4 = some a ∧ ctorIp pton6 ntop6 a6 = some b := by
  unfold mkAddr at h
  split at h
  · rename_i a b ha hb
    simp only [Option.some.injEq] at h
    exact ⟨a, b, h.symm, ha, hb⟩
  · simp at h

/-- what the constructor returns is a fixed point of the constructor -/
theorem mkAddr_constructed (p : Port) (a4 a6 : IpArg) (r : Relay) (h : mkAddr p a4 a6 = some r) : normRelay r = some r := by
  obtain ⟨a, b, rfl, ha, hb⟩ := mkAddr_some p a4 a6 r h
  simp [normRelay, mkAddr, ctorIp4_fixed a (ctorIp4_canon a4 a ha), ctorIp6_fixed b (ctorIp6_canon a6 b hb)]

theorem normRelay_idem (r r' : Relay) (h : normRelay r = some r') : normRelay r' = some r' := by
  cases r with
  | addr p a b => exact mkAddr_constructed p _ _ r' h
  | name p d => simp only [normRelay, Option.some.injEq] at h; subst h; rfl
  | multi d => simp only [normRelay, Option.some.injEq] at h; subst h; rfl

/-- constructed and well typed = the executable `relayOk` -/
theorem relayOk_iff (r : Relay) : relayOk r = true ↔ (normRelay r = some r ∧ relayTyped r = true) := by
  cases r with
  | addr p a b =>
    simp only [relayOk, relayTyped, Bool.and_eq_true]
    constructor
    · rintro ⟨⟨hp, ha⟩, hb⟩
      exact ⟨by simp [normRelay, mkAddr, ctorIp4_fixed a ha, ctorIp6_fixed b hb], hp⟩
    · rintro ⟨hn, hp⟩
      obtain ⟨a', b', e, ha, hb⟩ := mkAddr_some p _ _ _ hn
      injection e with _ ea eb
      subst ea; subst eb
      exact ⟨⟨hp, canon4_of_fixed a ha⟩, canon6_of_fixed b hb⟩
  | name p d => simp [relayOk, relayTyped, normRelay]
  | multi d => simp [relayOk, relayTyped, normRelay]

/-- the decoders go through the constructors: whatever is decoded is constructed -/
theorem decRelay_constructed (i : Item) (r : Relay) (h : decRelay i = .ok r) : normRelay r = some r := by
  unfold decRelay at h
  split at h
  · simp at h
  · split at h
    · split at h
      · split at h
        · rename_i x hx
          simp only [Res.ok.injEq] at h
          subst h
          exact mkAddr_constructed _ _ _ _ hx
        · simp at h
      · simp at h
    · split at h
      · split at h
        · simp only [Res.ok.injEq] at h; subst h; rfl
        · simp at h
      · split at h
        · split at h
          · simp only [Res.ok.injEq] at h; subst h; rfl
          · simp at h
        · simp at h
  · simp at h

/-! ## hashes, owners -/

theorem decHash_bytes (n : Nat) (b : Bytes) (h : b.length = n) : decHash n (.bytes b) = .ok b := by
  simp [decHash, decCBytes, h]

theorem decHashList_bytes (n : Nat) (xs : List Bytes) (h : xs.all (fun x => x.length == n) = true) :
    decHashList n (xs.map .bytes) = .ok xs := by
  induction xs with
  | nil => rfl
  | cons x xs ih =>
    simp only [List.all_cons, Bool.and_eq_true, beq_iff_eq] at h
    simp [decHashList, Res.bind, decHash_bytes n x h.1, ih h.2]

theorem filter_ne_of_not_mem (x : Bytes) (xs : List Bytes) (h : x ∉ xs) : xs.filter (fun y => y != x) = xs := by
  induction xs with
  | nil => rfl
  | cons y ys ih =>
    simp only [List.mem_cons, not_or] at h
    have hy : (y != x) = true := by simpa using fun e => h.1 e.symm
    simp [List.filter, hy, ih h.2]

theorem dedup_of_nodup (xs : List Bytes) (h : nodupB xs = true) : dedup xs = xs := by
  induction xs with
  | nil => rfl
  | cons x xs ih =>
    simp only [nodupB, Bool.and_eq_true, Bool.not_eq_true', List.contains_eq_mem, decide_eq_false_iff_not] at h
    simp [dedup, ih h.2, filter_ne_of_not_mem x xs h.1]

theorem nodupB_filter (x : Bytes) (xs : List Bytes) (h : nodupB xs = true) : nodupB (xs.filter (fun y => y != x)) = true := by
  induction xs with
  | nil => rfl
  | cons y ys ih =>
    simp only [nodupB, Bool.and_eq_true, Bool.not_eq_true', List.contains_eq_mem, decide_eq_false_iff_not] at h
    by_cases hy : (y != x) = true
    · simp only [List.filter, hy, nodupB, Bool.and_eq_true, Bool.not_eq_true', List.contains_eq_mem, decide_eq_false_iff_not]
      exact ⟨fun hm => h.1 (List.mem_filter.mp hm).1, ih h.2⟩
    · simp only [List.filter, hy]
      exact ih h.2

/-- what the `OrderedSet` constructor holds has no duplicates -/
theorem nodupB_dedup (xs : List Bytes) : nodupB (dedup xs) = true := by
  induction xs with
  | nil => rfl
  | cons x xs ih =>
    simp only [dedup, nodupB, Bool.and_eq_true, Bool.not_eq_true', List.contains_eq_mem, decide_eq_false_iff_not]
    refine ⟨fun hm => ?_, nodupB_filter x _ ih⟩
    have := (List.mem_filter.mp hm).2
    simp at this

theorem decOwners_itemOwners (o : Owners) (h : ownersOk o = true) : decOwners (itemOwners o) = .ok (normOwners o) := by
  cases o with
  | list xs =>
    simp only [ownersOk] at h
    simp [itemOwners, decOwners, Res.bind, decHashList_bytes 28 xs h, normOwners]
  | oset t xs =>
    simp only [ownersOk, Bool.and_eq_true] at h
    cases t with
    | true => simp [itemOwners, decOwners, iterItems, Res.bind, decHashList_bytes 28 xs h.1, normOwners, dedup_of_nodup xs h.2]
    | false => simp [itemOwners, decOwners, Res.bind, decHashList_bytes 28 xs h.1, normOwners]

theorem itemOwners_norm (o : Owners) : itemOwners (normOwners o) = itemOwners o := by
  cases o with
  | list xs => rfl
  | oset t xs => cases t <;> rfl

theorem normOwners_idem (o : Owners) : normOwners (normOwners o) = normOwners o := by
  cases o with
  | list xs => rfl
  | oset t xs => cases t <;> rfl

theorem normOwners_pyEq (o : Owners) : Owners.pyEq (normOwners o) o = true := by
  cases o with
  | list xs => simp [normOwners, Owners.pyEq, Owners.elems]
  | oset t xs => cases t <;> simp [normOwners, Owners.pyEq, Owners.elems]

/-! ## rationals, metadata, pool id -/

theorem mkFrac_of_ok (q : Frac) (h : fracOk q = true) : mkFrac q.n q.d = some q := by
  simp only [fracOk, Bool.and_eq_true, decide_eq_true_eq, beq_iff_eq] at h
  obtain ⟨hd, hg⟩ := h
  have h0 : q.d ≠ 0 := by omega
  have hn : ¬ q.d < 0 := by omega
  simp [mkFrac, h0, hn, hg]

/-- `Fraction(n, d)` establishes the class invariant (lowest terms, positive denominator) and keeps the value -/
theorem mkFrac_spec (n d : Int) (q : Frac) (h : mkFrac n d = some q) : fracOk q = true ∧ q.n * d = n * q.d := by
  unfold mkFrac at h
  split at h
  · simp at h
  · rename_i hd0
    simp only at h
    have hg : 0 < Int.gcd n d := Int.gcd_pos_of_ne_zero_right n hd0
    have hn : (n / (Int.gcd n d : Int)) * (Int.gcd n d : Int) = n := Int.ediv_mul_cancel (Int.gcd_dvd_left n d)
    have hd : (d / (Int.gcd n d : Int)) * (Int.gcd n d : Int) = d := Int.ediv_mul_cancel (Int.gcd_dvd_right n d)
    have hcop : Int.gcd (n / (Int.gcd n d : Int)) (d / (Int.gcd n d : Int)) = 1 := by
      show Nat.gcd (n / (Int.gcd n d : Int)).natAbs (d / (Int.gcd n d : Int)).natAbs = 1
      rw [Int.natAbs_ediv_of_dvd (Int.gcd_dvd_left n d), Int.natAbs_ediv_of_dvd (Int.gcd_dvd_right n d), Int.natAbs_natCast]
      show Nat.gcd (n.natAbs / Nat.gcd n.natAbs d.natAbs) (d.natAbs / Nat.gcd n.natAbs d.natAbs) = 1
      rw [Nat.gcd_div (Nat.gcd_dvd_left _ _) (Nat.gcd_dvd_right _ _)]
      exact Nat.div_self hg
    have hgpos : (0 : Int) < (Int.gcd n d : Int) := by omega
    revert h hn hd hcop hgpos
    generalize (Int.gcd n d : Int) = g
    generalize n / g = n'
    generalize d / g = d'
    intro h hn hd hcop hgpos
    split at h
    · rename_i hneg
      simp only [Option.some.injEq] at h
      subst h
      have hd'neg : d' < 0 := by
        rcases Int.lt_trichotomy d' 0 with h1 | h1 | h1
        · exact h1
        · subst h1; simp at hd; omega
        · have : 0 < d' * g := Int.mul_pos h1 hgpos
          omega
      refine ⟨?_, ?_⟩
      · simp only [fracOk, Bool.and_eq_true, decide_eq_true_eq, beq_iff_eq]
        exact ⟨by omega, by rw [Int.neg_gcd, Int.gcd_neg]; exact hcop⟩
      · show -n' * d = n * -d'
        rw [← hn, ← hd]
        simp only [Int.neg_mul, Int.mul_neg]
        congr 1
        ac_rfl
    · rename_i hneg
      simp only [Option.some.injEq] at h
      subst h
      have hd'pos : 0 < d' := by
        rcases Int.lt_trichotomy d' 0 with h1 | h1 | h1
        · have : d' * g < 0 := Int.mul_neg_of_neg_of_pos h1 hgpos
          omega
        · subst h1; simp at hd; omega
        · exact h1
      refine ⟨?_, ?_⟩
      · simp only [fracOk, Bool.and_eq_true, decide_eq_true_eq, beq_iff_eq]
        exact ⟨hd'pos, hcop⟩
      · show n' * d = n * d'
        rw [← hn, ← hd]
        ac_rfl

theorem decFrac_itemFrac (q : Frac) (h : fracOk q = true) : decFrac (itemFrac q) = .ok q := by
  simp [decFrac, itemFrac, itemInt_ofInt_all, mkFrac_of_ok q h]

theorem decMetadata_item (m : Option Metadata) (h : metadataOk m = true) :
    decMetadata (itemMetadata m) = .ok m := by
  cases m with
  | none => simp [itemMetadata, decMetadata, null, listElems?]
  | some m =>
    have h32 : m.hash.length = 32 := by simpa [metadataOk] using h
    simp [itemMetadata, decMetadata, listElems?, decText, Res.bind, decHash_bytes 32 m.hash h32]

theorem decOptPoolId_item (s : Bytes) (h : isPoolId s = true) : decOptPoolId (itemPoolId s) = .ok (some s) := by
  simp [decOptPoolId, itemPoolId, h]

theorem decPoolId_item (s : Bytes) (h : isPoolId s = true) : decPoolId (itemPoolId s) = .ok s := by
  simp [decPoolId, itemPoolId, h]

/-! ## the text form of a pool id -/

theorem startsWith_append (p x : Bytes) : startsWith p (p ++ x) = true := by
  induction p with
  | nil => cases x <;> rfl
  | cons c cs ih => simp [startsWith, ih]

theorem poolPrefix_eq : ("pool".toList.map fun c => UInt8.ofNat c.toNat) = poolPrefix := by decide

theorem poolHrpOk : Bech32.HrpOk "pool".toList := by decide

theorem ascii_roundtrip : ∀ (cs : List Char), (∀ c ∈ cs, c.toNat < 256) →
    asciiChars (cs.map fun c => UInt8.ofNat c.toNat) = cs := by
  intro cs
  induction cs with
  | nil => intro _; rfl
  | cons c cs ih =>
    intro h
    have hc := h c (by simp)
    have e : (UInt8.ofNat c.toNat).toNat = c.toNat := by simp [Nat.mod_eq_of_lt hc]
    simp only [List.map_cons, asciiChars] at ih ⊢
    rw [e, Char.ofNat_toNat, ih (fun c' hc' => h c' (by simp [hc']))]

/-- `bech32.encode("pool", kh)` is a pool id (`is_bech32_cardano_pool_id`), and `bech32.decode` gives `kh` back -/
theorem poolIdText_spec (kh : Bytes) (h2 : 2 ≤ kh.length) :
    ∃ s, poolIdText kh = some s ∧ isPoolId s = true ∧ Bech32.decode (asciiChars s) = .ok (kh.map UInt8.toNat) := by
  obtain ⟨out, _, ho, _, he⟩ := Bech32.encode_eq "pool".toList kh poolHrpOk
  have hdec := Bech32.decode_encode "pool".toList kh poolHrpOk h2 _ he
  have hsome : Bech32.bech32Decode ("pool".toList ++ '1' :: (out ++ Bech32.createChecksum "pool".toList out false).map Bech32.chr) ≠ none := by
    intro hn
    unfold Bech32.decode at hdec
    rw [hn] at hdec
    simp at hdec
  have hascii : ∀ c ∈ "pool".toList ++ '1' :: (out ++ Bech32.createChecksum "pool".toList out false).map Bech32.chr, c.toNat < 256 := by
    intro c hc
    simp only [List.mem_append, List.mem_cons] at hc
    rcases hc with hc | hc | hc
    · have : ∀ c ∈ "pool".toList, c.toNat < 256 := by decide
      exact this c hc
    · subst hc; decide
    · have hall := Bech32.all_lt_append "pool".toList out false ho
      have := Bech32.chr_in_charset _ hall c hc
      have := (Bech32.charset_facts c this).2.1
      omega
  refine ⟨_, by simp only [poolIdText, he, Option.map_some]; rfl, ?_, ?_⟩
  · simp only [isPoolId, ascii_roundtrip _ hascii, Bool.and_eq_true]
    refine ⟨by rw [List.map_append, poolPrefix_eq]; exact startsWith_append _ _, ?_⟩
    cases hb : Bech32.bech32Decode ("pool".toList ++ '1' :: (out ++ Bech32.createChecksum "pool".toList out false).map Bech32.chr) with
    | none => exact absurd hb hsome
    | some _ => rfl
  · rw [ascii_roundtrip _ hascii]
    exact hdec

/-! ## pool parameters -/

theorem decRelays_item (rs : Option (List Relay)) (h : relaysOk rs = true) :
    ∃ i, itemRelaysOpt rs = some i ∧ decRelays i = .ok rs := by
  cases rs with
  | none => exact ⟨null, rfl, by simp [decRelays, null, listElems?]⟩
  | some rs =>
    obtain ⟨is, h1, h2⟩ := decRelayList_encRelays rs h
    exact ⟨.array is, by simp [itemRelaysOpt, h1], by simp [decRelays, listElems?, Res.bind, h2]⟩

/-- the nine or ten items of well-formed pool parameters, and what the field-by-field restoration makes of them -/
theorem decParamsFields_items (p : PoolParams) (h : paramsOk p = true) :
    ∃ is, itemsParams p = some is ∧ decParamsFields is = .ok (normParams p) ∧
      (∀ ys, is.head? ≠ some (.array ys)) := by
  simp only [paramsOk, paramsOkW, Bool.and_eq_true, beq_iff_eq] at h
  obtain ⟨⟨⟨⟨⟨⟨⟨hop, hvrf⟩, hfr⟩, hra⟩, how⟩, hmd⟩, hid⟩, hrl⟩ := h
  obtain ⟨ri, hri1, hri2⟩ := decRelays_item p.relays hrl
  have hmd' := decMetadata_item p.metadata hmd
  have how' := decOwners_itemOwners p.owners how
  have hfr' := decFrac_itemFrac p.margin hfr
  cases hpid : p.id with
  | none =>
    refine ⟨[.bytes p.operator, .bytes p.vrf, ofInt p.pledge, ofInt p.cost, itemFrac p.margin, .bytes p.rewardAccount,
      itemOwners p.owners, ri, itemMetadata p.metadata], ?_, ?_, ?_⟩
    · simp [itemsParams, hpid, hri1]
    · simp [decParamsFields, Res.bind, decHash_bytes 28 _ hop, decHash_bytes 32 _ hvrf, decHash_bytes 29 _ hra,
        itemInt_ofInt_all, hfr', how', hri2, hmd', normParams, hpid]
    · intro ys; simp
  | some s =>
    rw [hpid] at hid
    have hid' := decOptPoolId_item s (by simpa [idOk] using hid)
    refine ⟨[.bytes p.operator, .bytes p.vrf, ofInt p.pledge, ofInt p.cost, itemFrac p.margin, .bytes p.rewardAccount,
      itemOwners p.owners, ri, itemMetadata p.metadata, itemPoolId s], ?_, ?_, ?_⟩
    · simp [itemsParams, hpid, hri1]
    · simp [decParamsFields, Res.bind, decHash_bytes 28 _ hop, decHash_bytes 32 _ hvrf, decHash_bytes 29 _ hra,
        itemInt_ofInt_all, hfr', how', hri2, hmd', hid', normParams, hpid]
    · intro ys; simp

theorem postInit_of_some (p : PoolParams) (h : p.relays.isSome = true) : postInit p = p := by
  unfold postInit
  cases hr : p.relays with
  | none => simp [hr] at h
  | some rs => rfl

theorem relaysOk_isSome (rs : Option (List Relay)) (h : relaysOk rs = true) : rs.isSome = true := by
  cases rs with
  | none => simp [relaysOk] at h
  | some l => rfl

theorem postInit_idem (p : PoolParams) : postInit (postInit p) = postInit p := by
  unfold postInit
  cases hr : p.relays <;> simp [hr]

theorem postInit_isSome (p : PoolParams) : (postInit p).relays.isSome = true := by
  unfold postInit
  cases hr : p.relays <;> simp [hr]

theorem decParamsItems_items (p : PoolParams) (h : paramsOk p = true) :
    ∃ is, itemsParams p = some is ∧ decParamsItems is = .ok (normParams p) ∧
      (∀ ys, is.head? ≠ some (.array ys)) := by
  obtain ⟨is, h1, h2, h3⟩ := decParamsFields_items p h
  have hs : (normParams p).relays.isSome = true := by
    simp only [paramsOk, Bool.and_eq_true] at h
    exact relaysOk_isSome _ h.2
  exact ⟨is, h1, by simp [decParamsItems, h2, postInit_of_some _ hs], h3⟩

theorem decRegistration_flat (is : List Item) (hne : is ≠ []) (hh : ∀ ys, is.head? ≠ some (.array ys)) :
    decRegistration (.array (.uint 3 :: is)) = decParamsItems is := by
  cases is with
  | nil => exact absurd rfl hne
  | cons x xs =>
    cases x with
    | array ys => exact absurd rfl (hh ys)
    | _ => simp [decRegistration, codeIs_uint]

theorem itemsParams_ne_nil (p : PoolParams) (is : List Item) (h : itemsParams p = some is) : is ≠ [] := by
  unfold itemsParams at h
  split at h
  · simp at h
  · simp only [Option.some.injEq] at h
    subst h
    simp

theorem itemsParams_norm (p : PoolParams) : itemsParams (normParams p) = itemsParams p := by
  simp [itemsParams, normParams, itemOwners_norm]

theorem normParams_idem (p : PoolParams) : normParams (normParams p) = normParams p := by
  simp [normParams, normOwners_idem]

theorem paramsOk_norm (p : PoolParams) (h : paramsOk p = true) : paramsOk (normParams p) = true := by
  have h' := h
  simp only [paramsOk, paramsOkW, Bool.and_eq_true] at h'
  have how := h'.1.1.1.2
  have this : ownersOk (normOwners p.owners) = true := by
    cases ho : p.owners with
    | list xs => rw [ho] at how; simpa [normOwners] using how
    | oset t xs =>
      rw [ho] at how
      simp only [ownersOk, Bool.and_eq_true] at how
      cases t <;> simp [normOwners, ownersOk, how.1, how.2]
  simp only [paramsOk, paramsOkW, Bool.and_eq_true, normParams]
  exact ⟨⟨⟨⟨h'.1.1.1.1, this⟩, h'.1.1.2⟩, h'.1.2⟩, h'.2⟩

/-! ## constructed pool parameters -/

/-- constructed pool parameters: `__post_init__` has run (`relays` is a list) and every relay in it is a constructed relay -/
def ParamsConstructed (p : PoolParams) : Prop :=
  postInit p = p ∧ ∀ rs, p.relays = some rs → ∀ r ∈ rs, normRelay r = some r

/-- the class invariants of the component classes (hash sizes, `Fraction` in lowest terms, `OrderedSet` without duplicates,
valid `PoolId`) and the relay fields `validate()` checks -/
def paramsTyped (p : PoolParams) : Bool := paramsOkW p && relaysTyped p.relays

theorem isSome_of_postInit (p : PoolParams) (h : postInit p = p) : p.relays.isSome = true := by
  rw [← h]; exact postInit_isSome p

theorem all_relayOk_iff (rs : List Relay) :
    rs.all relayOk = true ↔ ((∀ r ∈ rs, normRelay r = some r) ∧ rs.all relayTyped = true) := by
  induction rs with
  | nil => simp
  | cons r rs ih =>
    simp only [List.all_cons, Bool.and_eq_true, List.mem_cons, forall_eq_or_imp, ih, relayOk_iff]
    constructor
    · rintro ⟨⟨a, b⟩, c, d⟩; exact ⟨⟨a, c⟩, b, d⟩
    · rintro ⟨⟨a, c⟩, b, d⟩; exact ⟨⟨a, b⟩, c, d⟩

/-- the executable `paramsOk` is "constructed, with well-typed components" -/
theorem paramsOk_iff (p : PoolParams) : paramsOk p = true ↔ (ParamsConstructed p ∧ paramsTyped p = true) := by
  simp only [paramsOk, paramsTyped, ParamsConstructed, Bool.and_eq_true]
  cases hr : p.relays with
  | none =>
    constructor
    · rintro ⟨_, h⟩; simp [relaysOk] at h
    · rintro ⟨⟨h, _⟩, _⟩
      have := isSome_of_postInit p h
      simp [hr] at this
  | some rs =>
    have hp : postInit p = p := postInit_of_some p (by simp [hr])
    simp only [relaysOk, relaysTyped, all_relayOk_iff, hp, true_and, Option.some.injEq]
    constructor
    · rintro ⟨hw, hc, ht⟩; exact ⟨fun rs' e => e ▸ hc, hw, ht⟩
    · rintro ⟨hc, hw, ht⟩; exact ⟨hw, hc rs rfl, ht⟩

theorem decRelayList_constructed (is : List Item) (rs : List Relay) (h : decRelayList is = .ok rs) :
    ∀ r ∈ rs, normRelay r = some r := by
  induction is generalizing rs with
  | nil => simp only [decRelayList, Res.ok.injEq] at h; subst h; simp
  | cons i is ih =>
    simp only [decRelayList, Res.bind] at h
    split at h
    · rename_i r hr
      split at h
      · rename_i rs' hrs
        simp only [Res.ok.injEq] at h
        subst h
        intro x hx
        simp only [List.mem_cons] at hx
        rcases hx with rfl | hx
        · exact decRelay_constructed i _ hr
        · exact ih rs' hrs x hx
      · simp at h
      · simp at h
    · simp at h
    · simp at h

/-- whatever `PoolParams.from_primitive` returns went through `__post_init__` -/
theorem decParamsItems_postInit (xs : List Item) (p : PoolParams) (h : decParamsItems xs = .ok p) : postInit p = p := by
  unfold decParamsItems at h
  split at h
  · simp only [Res.ok.injEq] at h; subst h; exact postInit_idem _
  · simp at h
  · simp at h

/-! ## registration: both forms, any encodable object, injectivity -/

theorem decRegistration_nested (is : List Item) (rest : List Item) :
    decRegistration (.array (.uint 3 :: .array is :: rest)) = decParamsItems is := by
  simp [decRegistration, codeIs_uint]

theorem decRelayList_of_enc (rs : List Relay) (is : List Item) (h : encRelays rs = some is) :
    ∃ rs', decRelayList is = .ok rs' ∧ rs'.all relayOk = true ∧ encRelays rs' = some is := by
  induction rs generalizing is with
  | nil =>
    simp only [encRelays, Option.some.injEq] at h
    subst h
    exact ⟨[], rfl, rfl, rfl⟩
  | cons r rs ih =>
    simp only [encRelays] at h
    split at h
    · rename_i i is' hi his
      simp only [Option.some.injEq] at h
      subst h
      obtain ⟨r', h1, h2, h3⟩ := decRelay_of_enc r i hi
      obtain ⟨rs', h4, h5, h6⟩ := ih is' his
      exact ⟨r' :: rs', by simp [decRelayList, Res.bind, h1, h4], by simp [h2, h5], by simp [encRelays, h3, h6]⟩
    · simp at h

/-- the canonical relays of an encodable relay list: what decoding its encoding gives -/
theorem itemRelaysOpt_of_enc (rs : Option (List Relay)) (hs : rs.isSome = true) (i : Item) (h : itemRelaysOpt rs = some i) :
    ∃ rs', decRelays i = .ok rs' ∧ relaysOk rs' = true ∧ itemRelaysOpt rs' = some i := by
  cases rs with
  | none => simp at hs
  | some l =>
    simp only [itemRelaysOpt] at h
    split at h
    · rename_i is his
      simp only [Option.some.injEq] at h
      subst h
      obtain ⟨l', h1, h2, h3⟩ := decRelayList_of_enc l is his
      exact ⟨some l', by simp [decRelays, listElems?, Res.bind, h1], h2, by simp [itemRelaysOpt, h3]⟩
    · simp at h

theorem itemsParams_relays (p : PoolParams) (is : List Item) (h : itemsParams p = some is) :
    ∃ ri, itemRelaysOpt p.relays = some ri := by
  unfold itemsParams at h
  split at h
  · simp at h
  · rename_i rl hrl; exact ⟨rl, hrl⟩

theorem itemsParams_congr (p p' : PoolParams) (h1 : p'.operator = p.operator) (h2 : p'.vrf = p.vrf) (h3 : p'.pledge = p.pledge)
    (h4 : p'.cost = p.cost) (h5 : p'.margin = p.margin) (h6 : p'.rewardAccount = p.rewardAccount) (h7 : p'.owners = p.owners)
    (h8 : itemRelaysOpt p'.relays = itemRelaysOpt p.relays) (h9 : p'.metadata = p.metadata) (h10 : p'.id = p.id) :
    itemsParams p' = itemsParams p := by
  simp only [itemsParams, h1, h2, h3, h4, h5, h6, h7, h8, h9, h10]

/-- **any** pool parameters holding a list of relays that can be written at all (class invariants, relays with whatever
address texts the socket functions accept — attributes assigned after construction): decoding gives parameters within the round-trip theorem that are written the same way -/
theorem decParamsItems_of_enc (p : PoolParams) (hw : paramsOkW p = true) (hs : p.relays.isSome = true) (is : List Item)
    (h : itemsParams p = some is) :
    ∃ p', decParamsItems is = .ok p' ∧ paramsOk p' = true ∧ itemsParams p' = some is ∧ normParams p' = p' ∧
      (∀ ys, is.head? ≠ some (.array ys)) := by
  obtain ⟨ri, hri⟩ := itemsParams_relays p is h
  obtain ⟨rs', hr1, hr2, hr3⟩ := itemRelaysOpt_of_enc p.relays hs ri hri
  let p1 : PoolParams := { p with relays := rs' }
  have hok : paramsOk p1 = true := by
    simp only [paramsOk, Bool.and_eq_true]
    exact ⟨hw, hr2⟩
  have hsame : itemsParams p1 = itemsParams p :=
    itemsParams_congr p p1 rfl rfl rfl rfl rfl rfl rfl (by rw [hr3, hri]) rfl rfl
  obtain ⟨is', h1, h2, h3⟩ := decParamsItems_items p1 hok
  rw [hsame, h] at h1
  have : is' = is := (Option.some.inj h1).symm
  subst this
  refine ⟨normParams p1, h2, paramsOk_norm p1 hok, ?_, normParams_idem p1, h3⟩
  rw [itemsParams_norm, hsame, h]

theorem normParams_inj_of_enc (p q : PoolParams) (hp : paramsOk p = true) (hq : paramsOk q = true)
    (h : itemsParams p = itemsParams q) : normParams p = normParams q := by
  obtain ⟨is, h1, h2, _⟩ := decParamsItems_items p hp
  obtain ⟨is', h1', h2', _⟩ := decParamsItems_items q hq
  rw [h, h1'] at h1
  have : is' = is := Option.some.inj h1
  subst this
  rw [h2'] at h2
  exact (Res.ok.inj h2).symm

theorem decodeWith_encode {α : Type} (f : Item → Res α) (i : Item) (hw : Cbor.WF i) : decodeWith f (encode i) = f i := by
  simp [decodeWith, Cbor.decodeAll_encode i hw]

/-! ## retirement -/

theorem decRetirement_item (r : Retirement) (h : retirementOk r = true) : decRetirement (itemRetirement r) = .ok r := by
  have h28 : r.poolKeyHash.length = 28 := by simpa [retirementOk] using h
  simp [decRetirement, itemRetirement, codeIs_uint, Res.bind, decHash_bytes 28 _ h28, itemInt_ofInt_all]

end Pyc.Pool
