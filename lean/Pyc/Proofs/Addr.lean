import Pyc.Model.Addr

/-! Helper lemmas for C15 about `Pyc/Model/Addr.lean`: base-128 naturals, pointers, header byte, byte layout. -/

namespace Pyc.Addr

/-! ## bit operations on 7-bit groups as arithmetic -/

theorem and_7F (n : Nat) : n &&& 0x7F = n % 128 := Nat.and_two_pow_sub_one_eq_mod n 7
theorem shr_7 (n : Nat) : n >>> 7 = n / 128 := Nat.shiftRight_eq_div_pow n 7
theorem shl_7 (n : Nat) : n <<< 7 = n * 128 := Nat.shiftLeft_eq n 7

theorem or_80 (r : Nat) (h : r < 128) : 0x80 ||| r = 128 + r := by
  have : ∀ r : Fin 128, 0x80 ||| r.val = 128 + r.val := by decide
  exact this ⟨r, h⟩

theorem mul128_or (c r : Nat) (h : r < 128) : c * 128 ||| r = c * 128 + r := by
  have := Nat.two_pow_add_eq_or_of_lt (i := 7) (b := r) h c
  rw [Nat.mul_comm] at this
  exact this.symm

theorem cont_and_7F (r : Nat) (h : r < 128) : (128 + r) &&& 0x7F = r := by
  rw [and_7F]; omega

theorem cont_and_80 (r : Nat) (h : r < 128) : (128 + r) &&& 0x80 = 128 := by
  have : ∀ r : Fin 128, (128 + r.val) &&& 0x80 = 128 := by decide
  exact this ⟨r, h⟩

theorem last_and_80 (r : Nat) (h : r < 128) : r &&& 0x80 = 0 := by
  have : ∀ r : Fin 128, r.val &&& 0x80 = 0 := by decide
  exact this ⟨r, h⟩

/-- the continuation byte written by `_encode_int` for the group `n % 128` -/
theorem contByte_toNat (n : Nat) : (UInt8.ofNat (0x80 ||| (n &&& 0x7F))).toNat = 128 + n % 128 := by
  rw [and_7F, or_80 _ (Nat.mod_lt _ (by decide)), UInt8.toNat_ofNat']
  omega

theorem lastByte_toNat (n : Nat) : (UInt8.ofNat (n &&& 0x7F)).toNat = n % 128 := by
  rw [and_7F, UInt8.toNat_ofNat']
  omega

/-! ## `encTail` / `encodeInt` -/

theorem encTail_zero : encTail 0 = [] := by rw [encTail]; simp

theorem encTail_pos (n : Nat) (h : n ≠ 0) :
    encTail n = UInt8.ofNat (0x80 ||| (n &&& 0x7F)) :: encTail (n / 128) := by
  rw [encTail]; simp [h, shr_7]

theorem encodeInt_eq (n : Nat) :
    encodeInt n = (encTail (n / 128)).reverse ++ [UInt8.ofNat (n &&& 0x7F)] := by
  simp [encodeInt, shr_7]

/-- decoding the continuation bytes of `m` (most significant first) shifts them into the accumulator -/
theorem decLoop_encTail (m : Nat) : ∀ (c : Nat) (rest : Bytes) (ints : List Nat),
    decLoop ((encTail m).reverse ++ rest) (c * 128) ints
      = decLoop rest ((c * 128 ^ (encTail m).length + m) * 128) ints := by
  induction m using Nat.strongRecOn with
  | _ m ih =>
    intro c rest ints
    by_cases hm : m = 0
    · subst hm; simp [encTail_zero]
    · rw [encTail_pos m hm]
      simp only [List.reverse_cons, List.append_assoc, List.length_cons, List.singleton_append]
      rw [ih (m / 128) (by omega) c]
      rw [decLoop]
      simp only [contByte_toNat]
      rw [cont_and_7F _ (Nat.mod_lt _ (by decide)), cont_and_80 _ (Nat.mod_lt _ (by decide)),
        mul128_or _ _ (Nat.mod_lt _ (by decide)), shl_7]
      simp only [show (128 : Nat) ≠ 0 by decide, if_false]
      congr 1
      rw [Nat.pow_succ, ← Nat.mul_assoc]
      generalize c * 128 ^ (encTail (m / 128)).length = X
      omega

/-- `varnat_roundtrip` in loop form: the decoder, started between two numbers, consumes exactly `encodeInt n`
and appends `n` -/
theorem decLoop_encodeInt (n : Nat) (rest : Bytes) (ints : List Nat) :
    decLoop (encodeInt n ++ rest) 0 ints = decLoop rest 0 (ints ++ [n]) := by
  rw [encodeInt_eq, List.append_assoc]
  have := decLoop_encTail (n / 128) 0 ([UInt8.ofNat (n &&& 0x7F)] ++ rest) ints
  simp only [Nat.zero_mul, Nat.zero_add] at this
  rw [this]
  simp only [List.singleton_append]
  rw [decLoop]
  simp only [lastByte_toNat]
  rw [and_7F, Nat.mod_mod, last_and_80 _ (Nat.mod_lt _ (by decide)), mul128_or _ _ (Nat.mod_lt _ (by decide))]
  simp only [if_true]
  have h1 : n / 128 * 128 + n % 128 = n := by omega
  rw [h1]

/-- size of the encoding: `k` continuation groups exactly when `128^(k-1) ≤ m < 128^k` -/
theorem encTail_length_bounds (m : Nat) :
    m < 128 ^ (encTail m).length ∧ (m ≠ 0 → 128 ^ ((encTail m).length - 1) ≤ m) := by
  induction m using Nat.strongRecOn with
  | _ m ih =>
    by_cases hm : m = 0
    · subst hm; simp [encTail_zero]
    · rw [encTail_pos m hm]
      have ⟨h1, h2⟩ := ih (m / 128) (by omega)
      simp only [List.length_cons, Nat.add_sub_cancel]
      refine ⟨?_, fun _ => ?_⟩
      · rw [Nat.pow_succ]; omega
      · by_cases hq : m / 128 = 0
        · rw [hq, encTail_zero]; simp; omega
        · have h3 := h2 hq
          have : (encTail (m / 128)).length ≠ 0 := by
            rw [encTail_pos _ hq]; simp
          have e : (encTail (m / 128)).length = ((encTail (m / 128)).length - 1) + 1 := by omega
          rw [e, Nat.pow_succ]; omega

/-- the most significant continuation group is not zero -/
theorem encTail_getLast (m : Nat) (hm : m ≠ 0) :
    ∃ g, 0 < g ∧ g < 128 ∧ (encTail m).getLast? = some (UInt8.ofNat (0x80 ||| g)) := by
  induction m using Nat.strongRecOn with
  | _ m ih =>
    rw [encTail_pos m hm]
    by_cases hq : m / 128 = 0
    · refine ⟨m % 128, by omega, Nat.mod_lt _ (by decide), ?_⟩
      rw [hq, encTail_zero, and_7F]; rfl
    · obtain ⟨g, g0, g1, hg⟩ := ih (m / 128) (by omega) hq
      refine ⟨g, g0, g1, ?_⟩
      rw [List.getLast?_cons, hg]; rfl

theorem encodeInt_length (n : Nat) : (encodeInt n).length = (encTail (n / 128)).length + 1 := by
  simp [encodeInt_eq]

theorem encodeInt_head (n : Nat) : (encodeInt n).head? ≠ some 0x80 := by
  rw [encodeInt_eq]
  by_cases hq : n / 128 = 0
  · rw [hq, encTail_zero]
    simp only [List.reverse_nil, List.nil_append, List.head?_cons, ne_eq, Option.some.injEq]
    intro h
    have := congrArg UInt8.toNat h
    rw [lastByte_toNat] at this
    have h2 : (0x80 : UInt8).toNat = 128 := by decide
    omega
  · obtain ⟨g, g0, g1, hg⟩ := encTail_getLast _ hq
    rw [List.head?_append, List.head?_reverse, hg]
    simp only [Option.some_or, ne_eq, Option.some.injEq]
    intro h
    have := congrArg UInt8.toNat h
    rw [or_80 _ g1, UInt8.toNat_ofNat'] at this
    have h2 : (0x80 : UInt8).toNat = 128 := by decide
    omega

/-! ## pointers -/

theorem ptr_roundtrip (s t c : Nat) : ptrDecode (ptrEncode s t c) = some (s, t, c) := by
  unfold ptrDecode ptrEncode
  rw [List.append_assoc, decLoop_encodeInt, decLoop_encodeInt]
  have := decLoop_encodeInt c [] ([] ++ [s] ++ [t])
  rw [List.append_nil] at this
  rw [this]
  simp [decLoop]

/-! ## header byte -/

theorem headerByte_toNat (t : AddressType) (n : Network) :
    (headerByte t n).toNat = t.value * 16 + n.value := by
  cases t <;> cases n <;> decide

theorem header_kind (t : AddressType) (n : Network) :
    AddressType.ofValue (((headerByte t n).toNat &&& 0xF0) >>> 4) = some t := by
  cases t <;> cases n <;> decide

theorem header_network (t : AddressType) (n : Network) :
    Network.ofValue ((headerByte t n).toNat &&& 0x0F) = some n := by
  cases t <;> cases n <;> decide

/-! ## byte layout -/

/-- credentials carry 28 bytes (what the constructors of `VerificationKeyHash` / `ScriptHash` assert) -/
def Part.Sized : Part → Prop
  | .vkh p => p.length = 28
  | .sh p => p.length = 28
  | _ => True

theorem take28 (p q : Bytes) (h : p.length = 28) : (p ++ q).take 28 = p := by
  rw [← h]; exact List.take_left

theorem drop28 (p q : Bytes) (h : p.length = 28) : (p ++ q).drop 28 = q := by
  rw [← h]; exact List.drop_left

theorem mkPtr_encode (s t c : Nat) : mkPtr (ptrEncode s t c) = .ok (.ptr s t c) := by
  simp [mkPtr, ptr_roundtrip]

theorem fromBytes_header (t : AddressType) (n : Network) (payload : Bytes) :
    fromBytes (headerByte t n :: payload) =
      (let hd := payload.take 28
       let tl := payload.drop 28
       match t with
       | .keyKey => do let p ← mkVkh hd; let s ← mkVkh tl; pure ⟨p, s, n⟩
       | .keyScript => do let p ← mkVkh hd; let s ← mkSh tl; pure ⟨p, s, n⟩
       | .keyPointer => do let s ← mkPtr tl; let p ← mkVkh hd; pure ⟨p, s, n⟩
       | .keyNone => do let p ← mkVkh payload; pure ⟨p, .none, n⟩
       | .scriptKey => do let p ← mkSh hd; let s ← mkVkh tl; pure ⟨p, s, n⟩
       | .scriptScript => do let p ← mkSh hd; let s ← mkSh tl; pure ⟨p, s, n⟩
       | .scriptPointer => do let s ← mkPtr tl; let p ← mkSh hd; pure ⟨p, s, n⟩
       | .scriptNone => do let p ← mkSh payload; pure ⟨p, .none, n⟩
       | .noneKey => do let s ← mkVkh payload; pure ⟨.none, s, n⟩
       | .noneScript => do let s ← mkSh payload; pure ⟨.none, s, n⟩
       | .byron => .error .byron) := by
  simp only [fromBytes, header_kind, header_network]
  cases t <;> rfl

set_option linter.unusedSimpArgs false in
/-- decoding the binary form of any constructible address with 28-byte credentials returns it -/
theorem fromBytes_toBytes (a : Address) (bs : Bytes) (hp : a.payment.Sized) (hs : a.staking.Sized)
    (h : toBytes a = some bs) : fromBytes bs = .ok a := by
  obtain ⟨pay, stk, net⟩ := a
  unfold toBytes at h
  cases pay <;> cases stk <;> simp only [inferType, Option.some.injEq, reduceCtorEq] at h <;> subst h <;>
    simp only [Part.Sized] at hp hs <;>
    simp [fromBytes_header, Part.bytes, take28, drop28, hp, hs, mkVkh, mkSh, mkPtr_encode, bind, Except.bind, pure,
      Except.pure]

end Pyc.Addr
